import GdVerif.Lemmas.Gs3Safe
/-
  C01 (GameSpy 3) — hostile server responses never crash or hang `gamespy::three::query` /
  `query_vars`.

  MODEL: `GdVerif/Proto/Gs3.lean` (tied to protocols/gamespy/protocols/three by `./check C01` and
  `./check C04` on every run).  `crash` stands for every way the Rust stops: a panic (the two index
  expressions `values[packet_id]`, `packets[1 ..]`), exhausted fuel of a loop (= a loop that would
  not end: the packet loop's fuel is the number of queued deliveries + 1, the parsing loops' fuel is
  the number of remaining bytes + 1).
-/
open Gd

/-- `gamespy::three::query`: for EVERY reply script (any number of datagrams of any content and
size, silences, a refused socket, failing sends), port and retry count, the query returns a
response or an error. -/
theorem C01_gs3_query (port retries : Nat) (script : List ConnScript) (faults : List Bool) :
    (Gs3.query port retries (Net.init script faults)).1 ≠ .crash :=
  (Gs3.query_safe port retries (Net.init script faults)).1

/-- `gamespy::three::query_vars`, likewise. -/
theorem C01_gs3_query_vars (port retries : Nat) (script : List ConnScript) (faults : List Bool) :
    (Gs3.queryVars port retries (Net.init script faults)).1 ≠ .crash :=
  (Gs3.queryVars_safe port retries (Net.init script faults)).1

/-- The packet-level pieces alone, on any bytes: the reply header, the challenge, the split header,
the key/value block, the field sections of any list of packets, and everything `query` does with
any list of packet payloads. -/
theorem C01_gs3_parsers (kind : Nat) (data : Bytes) (packets : List Bytes) :
    (Gs3.readHeader kind).run data ≠ .crash
    ∧ Gs3.parseChallenge.run data ≠ .crash
    ∧ Gs3.readFrag.run data ≠ .crash
    ∧ Gs3.dataToMap data ≠ .crash
    ∧ Gs3.parsePlayersAndTeams packets ≠ .crash
    ∧ Gs3.buildResponse packets ≠ .crash
    ∧ Gs3.buildVars packets ≠ .crash :=
  ⟨Gs3.run_ne_crash (Gs3.safe_readHeader kind) data, Gs3.run_ne_crash Gs3.safe_parseChallenge data,
   Gs3.run_ne_crash Gs3.safe_readFrag data, Gs3.dataToMap_ne data, Gs3.parsePlayersAndTeams_ne packets,
   Gs3.buildResponse_ne packets, Gs3.buildVars_ne packets⟩

/-- Storing a received packet never indexes out of bounds, whatever its id and whatever was stored
before (the slot is created first). -/
theorem C01_gs3_accept (a : Gs3.Acc) (f : Gs3.Frag) : Gs3.accept a f ≠ .crash := Gs3.accept_ne a f

-- non-vacuity: hostile scripts are in the quantifier — a handshake reply whose challenge is not a
-- number; silence, then (on the retry) a reply that is cut off inside the session id
example : (Gs3.query 29900 0 (Net.init [.opened [.data [9, 0, 0, 0, 1, 0x78, 0x2D, 0x31]]] [])).1 = .err .typeParse := by
  decide

example : (Gs3.queryVars 29900 1 (Net.init [.opened [.silence, .data [9, 0, 0]]] [])).1 = .err .packetUnderflow := by
  decide
