import GdVerif.Lemmas.MasterRounds
/-
  C01 — hostile replies never crash or hang a query: the Valve master-server service
  (`valve_master_server::{query, query_singular}`, the paging loop of `ValveMasterServer::query`).

  The property text on hanging: the query must not "fail to return once the server has gone silent".  A reply script
  is a finite sequence of deliveries followed by silence.  In the MODEL a loop that would not end is fuel exhaustion,
  which is a `crash`; the paging loop's fuel is (queued deliveries + 1).  The theorems below show the fuel is never
  exhausted — every further round needs a datagram that was actually received — and bound the number of rounds by
  the number of datagrams in the script, so after the last datagram the very next receive times out and the query
  returns.  (A server that never goes silent can keep the complete query paging for as long as it keeps sending fresh
  pages; that is outside the property's quantifier and is how the protocol works.)
-/
open Gd Gd.Master

/-- For EVERY reply script (any datagrams, silences, a socket that cannot be opened), every send-fault vector, every
region byte and every filter set, the complete query returns addresses or an error, never a crash. -/
theorem C01_master_query (region : Nat) (fs : Option SearchFilters) (script : List ConnScript) (faults : List Bool) :
    (Master.query region fs (Net.init script faults)).1 ≠ .crash :=
  (query_safe region fs script faults).1

/-- The same for the single-page query. -/
theorem C01_master_query_singular (region : Nat) (fs : Option SearchFilters) (script : List ConnScript)
    (faults : List Bool) : (Master.querySingular region fs (Net.init script faults)).1 ≠ .crash :=
  (querySingular_safe region fs script faults).1

/-- From any transport state whatever (sockets already open, any log), not only the initial one. -/
theorem C01_master_any_state (region : Nat) (fs : Option SearchFilters) (w : Net) :
    (Master.query region fs w).1 ≠ .crash ∧ (Master.querySingular region fs w).1 ≠ .crash :=
  ⟨query_safe_any region fs w, querySingular_safe_any region fs w⟩

/-- The reply parser alone, on any bytes (its `while remaining > 0` loop has fuel `remaining + 1`, never exhausted). -/
theorem C01_master_parser (data : Bytes) : parsePage.run data ≠ .crash := parsePage_ne_crash data

/-- Fuel sufficiency of the paging loop (`ValveMasterServer::query` on a socket the caller keeps): on any open UDP
socket to the master port, in any state, for any seed and any list accumulated so far, every fuel above the number of
deliveries still queued on that socket is enough — each further round consumed one. -/
theorem C01_master_fuel (s : Sock) (hp : s.port = masterPort) (hudp : s.tcp = false) (region : Nat) (fb : Bytes)
    (fuel : Nat) (ips : List Addr) (ip : Bytes) (port : Nat) (w : Net) (hopen : IsOpen s w)
    (hfuel : qlen w s.id < fuel) : (pageLoop s region fb fuel ips ip port w).1 ≠ .crash :=
  (qsafe_pageLoop (fun _ _ => True) (fun _ => trivial) s hp hudp region fb fuel ips ip port w trivial hopen hfuel).1

/-- "Returns once the server has gone silent": the complete query makes at most one request per datagram the script
holds for its socket, plus one — the request after the last datagram meets silence and ends the query. -/
theorem C01_master_rounds_bounded (region : Nat) (fs : Option SearchFilters) (ds : List Delivery)
    (rest : List ConnScript) (faults : List Bool) :
    nSends (Master.query region fs (Net.init (.opened ds :: rest) faults)).2.log ≤ countData ds + 1 := by
  rw [query_log]
  simp only [queryLog, firstConn]
  have := nSends_roundsLog msock region (filterBytesOf fs) ds faults zeroIp 0
  simpa [nSends, isSend] using this

-- non-vacuity: an endless stream of full pages (each page ends on a fresh address) ends when the script does:
-- three pages, four requests, the fourth times out
example : (Master.query 3 none (Net.init [.opened [
      .data [0xFF, 0xFF, 0xFF, 0xFF, 0x66, 0x0A, 1, 2, 3, 4, 0x69, 0x87],
      .data [0xFF, 0xFF, 0xFF, 0xFF, 0x66, 0x0A, 5, 6, 7, 8, 0x69, 0x87],
      .data [0xFF, 0xFF, 0xFF, 0xFF, 0x66, 0x0A, 9, 9, 9, 9, 0, 80]]] [])).1 = .err .packetReceive := by
  decide

-- a page that repeats its seed stops the loop (both entries are returned)
example : (Master.query 3 none (Net.init [.opened [
      .data [0xFF, 0xFF, 0xFF, 0xFF, 0x66, 0x0A, 1, 2, 3, 4, 0x69, 0x87],
      .data [0xFF, 0xFF, 0xFF, 0xFF, 0x66, 0x0A, 1, 2, 3, 4, 0x69, 0x87],
      .data [0xFF, 0xFF, 0xFF, 0xFF, 0x66, 0x0A, 9, 9, 9, 9, 0, 80]]] [])).1
    = .ok [((1, 2, 3, 4), 27015), ((1, 2, 3, 4), 27015)] := by
  decide

-- a truncated entry, a bad header, an empty datagram are errors, not crashes
example : (Master.query 0 none (Net.init [.opened [.data [0xFF, 0xFF, 0xFF, 0xFF, 0x66, 0x0A, 1, 2, 3]]] [])).1
    = .err .packetUnderflow := by decide
example : (Master.querySingular 0 none (Net.init [.opened [.data [0xFF, 0xFF, 0xFF, 0xFE, 0x66, 0x0A]]] [])).1
    = .err .packetBad := by decide
example : (Master.querySingular 0 none (Net.init [.opened [.data []]] [])).1 = .err .packetUnderflow := by decide
