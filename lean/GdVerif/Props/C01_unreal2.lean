import GdVerif.Lemmas.Unreal2Safe
/-
  C01 (Unreal 2) — hostile server responses never crash or hang a query.

  MODEL: `GdVerif/Proto/Unreal2.lean`, the repaired `protocols/unreal2` (tied to the code by
  `props/c01.py` / `props/c06.py` on every run, families `unreal2` and `u2str`).
  Termination is Lean's: the two parse loops take fuel `remaining + 1` and the two listening loops take
  fuel `queued deliveries + 1`; that the fuel never runs out is part of what is proved.
-/
open Gd Gd.Unreal2

/-- `unreal2::query`, and through it every Unreal 2 game wrapper: for EVERY reply script (any number of
datagrams of any content and size, any silences, a refused socket, failing sends), every pair of gather
toggles and every retry count, the query returns a response or an error — never a crash (panic, slice
out of bounds, arithmetic overflow, a loop that would not end). -/
theorem C01_unreal2 (port : Nat) (g : Gather) (retries : Nat) (script : List ConnScript) (faults : List Bool) :
    (query port g retries (Net.init script faults)).1 ≠ .crash :=
  (query_safe port g retries (Net.init script faults)).1

/-- The string decoder on any bytes: a text and a cursor inside the packet, or `PacketBad`. -/
theorem C01_unreal2_string (data : Bytes) :
    match readU2Str (Buf.new data) with
    | .ok (_, b) => b.pos ≤ data.length ∧ b.data = data
    | .err k => k = .packetBad
    | .crash => False := by
  have hs := safe_readU2Str (Buf.new data)
  cases h : readU2Str (Buf.new data) with
  | ok x =>
    obtain ⟨s, b⟩ := x
    rw [h] at hs
    simp only [Post, Buf.data_new] at hs
    exact ⟨by have := b.pos_le_len; rwa [hs] at this, hs⟩
  | err k =>
    simp only
    unfold readU2Str readStringWith at h
    cases hd : u2Dec (Buf.new data).rest with
    | ok x => rw [hd] at h; cases h
    | crash => rw [hd] at h; cases h
    | err k' =>
      rw [hd] at h
      cases h
      unfold u2Dec at hd
      split at hd
      · cases hd; rfl
      · split at hd
        · unfold ucs2Part at hd
          split at hd
          · cases hd; rfl
          · split at hd
            · cases hd; rfl
            · cases hd
        · unfold latin1Part at hd
          split at hd
          · cases hd; rfl
          · cases hd
  | crash => rw [h] at hs; exact hs

/-- The section parsers alone, on any bytes and from any accumulated state. -/
theorem C01_unreal2_parsers (kind : PacketKind) (mr : MutatorsAndRules) (pl : Players) (data : Bytes) :
    ((consumeHeaders kind >>= fun _ => parseServerInfo).run data).isCrash = false
    ∧ ((consumeHeaders kind >>= fun _ => parseRules mr).run data).isCrash = false
    ∧ ((consumeHeaders kind >>= fun _ => parsePlayers pl).run data).isCrash = false := by
  have key : ∀ {α : Type} (p : Par α), Safe p → (p.run data).isCrash = false := by
    intro α p hp
    have := run_ne_crash hp data
    cases h : p.run data with
    | ok x => rfl
    | err k => rfl
    | crash => exact absurd h this
  exact ⟨key _ (Safe.bind (safe_consumeHeaders kind) fun _ => safe_parseServerInfo),
    key _ (Safe.bind (safe_consumeHeaders kind) fun _ => safe_parseRules mr),
    key _ (Safe.bind (safe_consumeHeaders kind) fun _ => safe_parsePlayers pl)⟩

-- non-vacuity: hostile scripts are in the quantifier — a UCS-2 length byte announcing more than the
-- packet holds (panicked before the repair), and an unterminated Latin-1 string
example : (query 7777 Gather.default 1
    (Net.init [.opened [.data [0x80, 0, 0, 0, 0, 1, 0, 0, 0, 0x85, 0x41, 0]]] [])).1 = .err .packetBad := by
  decide

example : (readU2Str (Buf.new [3, 0x41, 0x42])) = .err .packetBad := by decide
