import GdVerif.Lemmas.Unreal2Query
/-
  C08 (Unreal 2) — multi-datagram lists and arrival order.

  The Unreal 2 list replies carry no sequence numbers.  The full property ("every arrival order yields
  the same response as in-order arrival; a duplicated datagram never yields a different successful
  response") therefore does NOT hold and cannot be made to hold by the client:

      theorem C08_unreal2 (ds ds' : List Bytes) (h : ds'.Perm ds) : accumulate ds' = accumulate ds     -- FALSE

  `C08_unreal2_order_matters` and `C08_unreal2_duplicate_accepted` below are the proved negations
  (recorded as findings `order-dependence:unreal2` / `duplicate-accepted:unreal2`).  What does hold,
  and is proved here as `C08_unreal2_partial_*`: for every arrival order of the datagrams of a
  well-formed reply the client accepts every datagram and returns the same entries up to list order —
  the same players and the same bots as multisets, the same set of mutators, the same rule keys with
  the same values under each key as multisets.  Missing for the full property: the order of the lists,
  and recognising duplicates — both need information the wire format does not carry.
-/
open Gd Gd.Unreal2 Gd.Unreal2.Spec

/-- Players: any arrival order of the datagrams of a reply (every datagram carrying at least one
player, not more players than announced) is accepted datagram by datagram and yields the same
players and the same bots, up to order. -/
theorem C08_unreal2_partial_players (st : State) (hh : st.header.length = 4) (n : Nat) (cs cs' : List (List SPlayer))
    (hperm : cs'.Perm cs) (hw : ∀ c ∈ cs, ∀ p ∈ c, wfPlayer p = true) (hne : ∀ c ∈ cs, c ≠ [])
    (hn : cs.flatten.length ≤ n) :
    ∃ r r', RoundsStop (playersRound n) .empty (cs.map (playersDg st)) r
      ∧ RoundsStop (playersRound n) .empty (cs'.map (playersDg st)) r'
      ∧ r'.players.Perm r.players ∧ r'.bots.Perm r.bots := by
  have hflat : cs'.flatten.Perm cs.flatten := hperm.flatten
  -- in any order, all datagrams but the last leave the announced number unreached
  have hinv : ∀ (l : List (List SPlayer)), (∀ c ∈ l, c ≠ []) → l.flatten.length ≤ n →
      (l.length ≤ 1 ∨ Players.empty.totalLen + l.dropLast.flatten.length < n) := by
    intro l hl hln
    by_cases hnil : l = []
    · left; subst hnil; simp
    · right
      have h0 : Players.empty.totalLen = 0 := rfl
      rw [h0, Nat.zero_add]
      have hsplit := List.dropLast_concat_getLast hnil
      have hlast : l.getLast hnil ≠ [] := hl _ (List.getLast_mem hnil)
      have hpos : 0 < (l.getLast hnil).length := List.length_pos_iff.mpr hlast
      rw [← hsplit] at hln
      simp only [List.flatten_append, List.flatten_cons, List.flatten_nil, List.append_nil, List.length_append] at hln
      omega
  have hw' : ∀ c ∈ cs', ∀ p ∈ c, wfPlayer p = true := fun c hc => hw c (hperm.mem_iff.mp hc)
  have hne' : ∀ c ∈ cs', c ≠ [] := fun c hc => hne c (hperm.mem_iff.mp hc)
  have hn' : cs'.flatten.length ≤ n := by rw [hflat.length_eq]; exact hn
  refine ⟨_, _, players_rounds st hh n cs hw .empty (hinv cs hne hn),
    players_rounds st hh n cs' hw' .empty (hinv cs' hne' hn'), ?_, ?_⟩
  · rw [foldl_pushPlayer, foldl_pushPlayer]
    exact List.Perm.append_left _ ((hflat.filter _).map _)
  · rw [foldl_pushPlayer, foldl_pushPlayer]
    exact List.Perm.append_left _ ((hflat.filter _).map _)

/-- Mutators and rules: any arrival order of the datagrams of a reply is accepted datagram by datagram
and yields the same set of mutators, the same rule keys, and under each key the same values up to
order. -/
theorem C08_unreal2_partial_rules (st : State) (hh : st.header.length = 4) (cs cs' : List (List (UStr × UStr)))
    (hperm : cs'.Perm cs) (hw : ∀ c ∈ cs, ∀ p ∈ c, wfStr p.1 = true ∧ wfStr p.2 = true) :
    ∃ r r', Rounds rulesRound .empty (cs.map (rulesDg st)) r
      ∧ Rounds rulesRound .empty (cs'.map (rulesDg st)) r'
      ∧ (∀ m, m ∈ r'.mutators ↔ m ∈ r.mutators)
      ∧ (∀ k, k ∈ r'.rules.map (·.1) ↔ k ∈ r.rules.map (·.1))
      ∧ (∀ k vs vs', (k, vs) ∈ r.rules → (k, vs') ∈ r'.rules → vs'.Perm vs) := by
  have hkv : (cs'.flatten.map pairText).Perm (cs.flatten.map pairText) := hperm.flatten.map _
  have hw' : ∀ c ∈ cs', ∀ p ∈ c, wfStr p.1 = true ∧ wfStr p.2 = true := fun c hc => hw c (hperm.mem_iff.mp hc)
  have h1 := rules_rounds st hh cs hw []
  have h2 := rules_rounds st hh cs' hw' []
  simp only [List.nil_append] at h1 h2
  refine ⟨_, _, h1, h2, ?_, ?_, ?_⟩
  · intro m
    show m ∈ expectedMutators _ ↔ m ∈ expectedMutators _
    unfold expectedMutators
    rw [mem_firsts, mem_firsts]
    exact ((hkv.filter _).map _).mem_iff
  · intro k
    show k ∈ (expectedRules _).map (·.1) ↔ k ∈ (expectedRules _).map (·.1)
    unfold expectedRules
    simp only [List.map_map]
    have hid : ∀ (rs : List (Bytes × Bytes)),
        ((fun (p : Bytes × List Bytes) => p.1) ∘ fun k => (k, valuesOf rs k)) = id := fun _ => rfl
    rw [hid, hid, List.map_id, List.map_id, mem_firsts, mem_firsts]
    exact ((hkv.filter _).map _).mem_iff
  · intro k vs vs' hvs hvs'
    change (k, vs) ∈ expectedRules _ at hvs
    change (k, vs') ∈ expectedRules _ at hvs'
    unfold expectedRules at hvs hvs'
    obtain ⟨k1, _, h3⟩ := List.mem_map.mp hvs
    obtain ⟨k2, _, h4⟩ := List.mem_map.mp hvs'
    cases h3
    cases h4
    unfold valuesOf
    exact ((hkv.filter _).filter _).map _

/-! ### the negations: why the full property is a finding -/

/-- the players a sequence of datagrams accumulates (every datagram taken) -/
def accumulatePlayers : Players → List Bytes → Res Players
  | acc, [] => .ok acc
  | acc, d :: ds =>
    match playersRound 1000 acc d with
    | .ok (acc', _) => accumulatePlayers acc' ds
    | .err k => .err k
    | .crash => .crash

/-- two players datagrams: `80 00 00 00 02` + one entry (id, name "A"/"B", ping 5, score 0, stats 0) -/
def dgA : Bytes := [0x80, 0, 0, 0, 2, 1, 0, 0, 0, 2, 0x41, 0, 5, 0, 0, 0, 0, 0, 0, 0, 0, 0, 0, 0]
def dgB : Bytes := [0x80, 0, 0, 0, 2, 2, 0, 0, 0, 2, 0x42, 0, 5, 0, 0, 0, 0, 0, 0, 0, 0, 0, 0, 0]

/-- Arrival order is observable: swapping two datagrams swaps the players. -/
theorem C08_unreal2_order_matters :
    accumulatePlayers .empty [dgA, dgB] = .ok ⟨[⟨1, [0x41], 5, 0, 0⟩, ⟨2, [0x42], 5, 0, 0⟩], []⟩
    ∧ accumulatePlayers .empty [dgB, dgA] = .ok ⟨[⟨2, [0x42], 5, 0, 0⟩, ⟨1, [0x41], 5, 0, 0⟩], []⟩ := by
  decide

/-- A datagram delivered twice is accepted and its player is listed twice. -/
theorem C08_unreal2_duplicate_accepted :
    accumulatePlayers .empty [dgA, dgA, dgB]
      = .ok ⟨[⟨1, [0x41], 5, 0, 0⟩, ⟨1, [0x41], 5, 0, 0⟩, ⟨2, [0x42], 5, 0, 0⟩], []⟩ := by
  decide

/-- `C08_unreal2_partial`: both lists together — for every arrival order of the datagrams of the
rules answer and of the players answer, the same entries up to list order. -/
theorem C08_unreal2_partial (st : State) (hh : st.header.length = 4) (n : Nat)
    (rs rs' : List (List (UStr × UStr))) (ps ps' : List (List SPlayer)) (hr : rs'.Perm rs) (hp : ps'.Perm ps)
    (hwr : ∀ c ∈ rs, ∀ p ∈ c, wfStr p.1 = true ∧ wfStr p.2 = true) (hwp : ∀ c ∈ ps, ∀ p ∈ c, wfPlayer p = true)
    (hne : ∀ c ∈ ps, c ≠ []) (hn : ps.flatten.length ≤ n) :
    (∃ r r', Rounds rulesRound .empty (rs.map (rulesDg st)) r ∧ Rounds rulesRound .empty (rs'.map (rulesDg st)) r'
      ∧ (∀ m, m ∈ r'.mutators ↔ m ∈ r.mutators) ∧ (∀ k, k ∈ r'.rules.map (·.1) ↔ k ∈ r.rules.map (·.1))
      ∧ (∀ k vs vs', (k, vs) ∈ r.rules → (k, vs') ∈ r'.rules → vs'.Perm vs))
    ∧ (∃ r r', RoundsStop (playersRound n) .empty (ps.map (playersDg st)) r
      ∧ RoundsStop (playersRound n) .empty (ps'.map (playersDg st)) r'
      ∧ r'.players.Perm r.players ∧ r'.bots.Perm r.bots) :=
  ⟨C08_unreal2_partial_rules st hh rs rs' hr hwr, C08_unreal2_partial_players st hh n ps ps' hp hwp hne hn⟩
