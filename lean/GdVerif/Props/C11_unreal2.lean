import GdVerif.Props.C11
import GdVerif.Props.C09_unreal2
import GdVerif.Lemmas.Unreal2Query
/-
  C11 (Unreal 2) — gather toggles.  Server info is always required; mutators-and-rules and players
  each have a toggle.  "Absent" is the default `MutatorsAndRules` / the empty `Players`.
  `maybe_gather!` itself is `C11_skip / C11_try_* / C11_enforce_*` in `Props/C11.lean`; here is how
  `Unreal2Protocol::query` composes it, for every script, and the full toggle × outcome table on the
  SPEC's scripts.
-/
open Gd Gd.Unreal2 Gd.Unreal2.Spec

/-- Skip: a section set to Skip is never requested.  For EVERY script: every request the query sends
is the server-info request or the request of a section that is not set to Skip. -/
theorem C11_unreal2_skip_never_requested (port : Nat) (g : Gather) (retries : Nat) (script : List ConnScript)
    (faults : List Bool) :
    ∀ e ∈ (query port g retries (Net.init script faults)).2.log, ∀ c p data f, e = .send c p data f →
      ∃ kind : PacketKind, data = requestBytes kind ∧
        (kind = .mutatorsAndRules → g.mutatorsAndRules ≠ .skip) ∧ (kind = .players → g.players ≠ .skip) := by
  let P : Ev → Prop := fun e => ∀ c p data f, e = Ev.send c p data f →
      ∃ kind : PacketKind, data = requestBytes kind ∧
        (kind = .mutatorsAndRules → g.mutatorsAndRules ≠ .skip) ∧ (kind = .players → g.players ≠ .skip)
  have hbody : ∀ s : Sock, s.tcp = false → QSafe s P (queryBody s g retries) := by
    intro s hudp
    refine qsafe_weaken (qsafe_queryBody_kinds s hudp g retries) ?_
    intro e he c p data f heq
    subst heq
    obtain ⟨_, _, kind, hk, hd⟩ := he
    refine ⟨kind, hd, ?_, ?_⟩
    · intro h; subst h; exact hk
    · intro h; subst h; exact hk
  obtain ⟨added, hlog, hall⟩ := query_log_all P port g retries hbody
    (fun _ _ _ _ c p data f h => by cases h) (Net.init script faults)
  intro e he
  rw [hlog] at he
  simp only [Net.init, List.nil_append] at he
  exact hall e he

/-- The body of the query once the socket is open and the server info has been obtained: exactly the
two `maybe_gather!` sections in this order, the password flag taken from the gathered rules. -/
theorem C11_unreal2_after_info (port : Nat) (g : Gather) (r : Nat) (w w0 w1 : Net) (s : Sock) (info : ServerInfo)
    (hopen : openSock false port w = (.ok s, w0)) (hinfo : queryServerInfo s r w0 = (.ok info, w1)) :
    query port g r w =
      (do
        let mr ← maybeGather g.mutatorsAndRules (queryRules s r)
        let mr := mr.getD .empty
        let info := applyPassword info mr
        let players ← maybeGather g.players (queryPlayers s r info.numPlayers)
        pure (⟨info, mr, players.getD .empty⟩ : Response)) w1 := by
  rw [query_eq, Q.bind_ok hopen]
  unfold queryBody
  rw [Q.bind_ok hinfo]

/-- Server info is always required: its failure is the query's failure. -/
theorem C11_unreal2_info_required (port : Nat) (g : Gather) (r : Nat) (w w0 w1 : Net) (s : Sock) (k : ErrKind)
    (hopen : openSock false port w = (.ok s, w0)) (hinfo : queryServerInfo s r w0 = (.err k, w1)) :
    query port g r w = (.err k, w1) := by
  rw [query_eq, Q.bind_ok hopen]
  unfold queryBody
  rw [Q.bind_err hinfo]

/-- … and a skipped section is absent from the response (for every script). -/
theorem C11_unreal2_skip_absent (port : Nat) (retries : Nat) (pl : Toggle) (w : Net) (resp : Response) (w' : Net)
    (h : query port ⟨pl, .skip⟩ retries w = (.ok resp, w')) : resp.mutatorsAndRules = .empty := by
  cases ho : openSock false port w with
  | mk r0 w0 =>
    cases r0 with
    | err k => rw [query_eq, Q.bind_err ho] at h; cases h
    | crash => rw [query_eq, Q.bind_apply, ho] at h; cases h
    | ok s =>
      cases hi : queryServerInfo s retries w0 with
      | mk r1 w1 =>
        cases r1 with
        | err k => rw [C11_unreal2_info_required port _ retries w w0 w1 s k ho hi] at h; cases h
        | crash =>
          rw [query_eq, Q.bind_ok ho] at h
          unfold queryBody at h
          rw [Q.bind_apply, hi] at h
          cases h
        | ok info =>
          rw [C11_unreal2_after_info port _ retries w w0 w1 s info ho hi] at h
          have h' : (maybeGather pl (queryPlayers s retries (applyPassword info .empty).numPlayers) >>= fun players =>
              (pure (⟨applyPassword info .empty, .empty, players.getD .empty⟩ : Response) : Q Response)) w1
                = (.ok resp, w') := h
          rw [Q.bind_apply] at h'
          cases hp : maybeGather pl (queryPlayers s retries (applyPassword info .empty).numPlayers) w1 with
          | mk r2 w2 =>
            rw [hp] at h'
            cases r2 with
            | err k => cases h'
            | crash => cases h'
            | ok p =>
              simp only [Q.pure_apply, Prod.mk.injEq, Res.ok.injEq] at h'
              rw [← h'.1]

/-- Enforce on mutators-and-rules, section fails with `k` (timeout or malformed): the whole query
fails with `k`, and nothing more is requested. -/
theorem C11_unreal2_enforce_rules_fail (port : Nat) (pl : Toggle) (r : Nat) (w w0 w1 w2 : Net) (s : Sock)
    (info : ServerInfo) (k : ErrKind) (hopen : openSock false port w = (.ok s, w0))
    (hinfo : queryServerInfo s r w0 = (.ok info, w1)) (hrules : queryRules s r w1 = (.err k, w2)) :
    query port ⟨pl, .enforce⟩ r w = (.err k, w2) := by
  rw [C11_unreal2_after_info port _ r w w0 w1 s info hopen hinfo]
  exact Q.bind_err (C11_enforce_fail _ w1 w2 k hrules)

/-- Try on mutators-and-rules, section fails (any error): the query goes on exactly as it would with
the section absent — players are gathered next, the rest of the response is intact. -/
theorem C11_unreal2_try_rules_fail (port : Nat) (pl : Toggle) (r : Nat) (w w0 w1 w2 : Net) (s : Sock)
    (info : ServerInfo) (k : ErrKind) (hopen : openSock false port w = (.ok s, w0))
    (hinfo : queryServerInfo s r w0 = (.ok info, w1)) (hrules : queryRules s r w1 = (.err k, w2)) :
    query port ⟨pl, .try_⟩ r w =
      (do
        let players ← maybeGather pl (queryPlayers s r info.numPlayers)
        pure (⟨info, .empty, players.getD .empty⟩ : Response)) w2 := by
  rw [C11_unreal2_after_info port _ r w w0 w1 s info hopen hinfo]
  exact Q.bind_ok (C11_try_fail _ w1 w2 k hrules)

/-- Enforce on players, section fails with `k`: the whole query fails with `k` (this is the repaired
defect: a silent server used to give `Ok` with no players). -/
theorem C11_unreal2_enforce_players_fail (port : Nat) (mrt : Toggle) (r : Nat) (w w0 w1 w2 w3 : Net) (s : Sock)
    (info : ServerInfo) (mr : Option MutatorsAndRules) (k : ErrKind) (hopen : openSock false port w = (.ok s, w0))
    (hinfo : queryServerInfo s r w0 = (.ok info, w1))
    (hrules : maybeGather mrt (queryRules s r) w1 = (.ok mr, w2))
    (hplayers : queryPlayers s r (applyPassword info (mr.getD .empty)).numPlayers w2 = (.err k, w3)) :
    query port ⟨.enforce, mrt⟩ r w = (.err k, w3) := by
  rw [C11_unreal2_after_info port _ r w w0 w1 s info hopen hinfo, Q.bind_ok hrules]
  exact Q.bind_err (C11_enforce_fail _ w2 w3 k hplayers)

/-- Try on players, section fails: the response is intact with no players. -/
theorem C11_unreal2_try_players_fail (port : Nat) (mrt : Toggle) (r : Nat) (w w0 w1 w2 w3 : Net) (s : Sock)
    (info : ServerInfo) (mr : Option MutatorsAndRules) (k : ErrKind) (hopen : openSock false port w = (.ok s, w0))
    (hinfo : queryServerInfo s r w0 = (.ok info, w1))
    (hrules : maybeGather mrt (queryRules s r) w1 = (.ok mr, w2))
    (hplayers : queryPlayers s r (applyPassword info (mr.getD .empty)).numPlayers w2 = (.err k, w3)) :
    query port ⟨.try_, mrt⟩ r w = (.ok ⟨applyPassword info (mr.getD .empty), mr.getD .empty, .empty⟩, w3) := by
  rw [C11_unreal2_after_info port _ r w w0 w1 s info hopen hinfo, Q.bind_ok hrules]
  exact Q.bind_ok (C11_try_fail _ w2 w3 k hplayers)

/-- The players request itself reports its failure (it used to be swallowed): if the first request of
`query_players` fails with `k`, `query_players` fails with `k`. -/
theorem C11_unreal2_players_reports_failure (s : Sock) (r n : Nat) (w w' : Net) (k : ErrKind)
    (h : requestData s r .players w = (.err k, w')) : queryPlayers s r n w = (.err k, w') := by
  unfold queryPlayers
  exact Q.bind_err h

/-- The full table on the SPEC's scripts — all 9 toggle pairs × each section {answered, silent,
malformed} × any retry count × any server state of the domain: the query returns what the table
`Spec.sectionResult` says (Skip / failed Try → absent, rest intact; failed Enforce → that failure:
`PacketReceive` for a silent server, `PacketBad` for a malformed answer). -/
theorem C11_unreal2_table (cfg : Config) (st : State) (hwf : wf cfg st = true) (port : Nat) :
    (query port cfg.gather cfg.retries (Net.init [.opened (script cfg st)] [])).1 =
      (do
        let mr ← sectionResult cfg.gather.mutatorsAndRules cfg.rulesOutcome (expectedMR st)
        let mr := mr.getD .empty
        let players ← sectionResult cfg.gather.players cfg.playersOutcome (expectedPlayers st)
        pure ⟨⟨st.serverId, st.ip.text, st.gamePort, st.queryPort, st.name.text, st.map.text, st.gameType.text,
                st.numPlayers, st.maxPlayers, expectedPassword mr⟩, mr, players.getD .empty⟩) :=
  query_spec cfg st hwf port

/-- In particular the repaired defect, on the wire: players = Enforce and a server that answers the
info (and rules) request but never the players request → the query fails with `PacketReceive`. -/
theorem C11_unreal2_enforce_players_silent (cfg : Config) (st : State) (hwf : wf cfg st = true) (port : Nat)
    (h1 : cfg.gather.players = .enforce) (h2 : cfg.playersOutcome = .silent) (h3 : rulesFatal cfg = false) :
    (query port cfg.gather cfg.retries (Net.init [.opened (script cfg st)] [])).1 = .err .packetReceive := by
  rw [query_spec cfg st hwf port]
  unfold expected
  unfold rulesFatal at h3
  cases ht : cfg.gather.mutatorsAndRules <;> cases ho : cfg.rulesOutcome <;>
    simp_all [sectionResult] <;> rfl

example : sectionResult .enforce .silent (0 : Nat) = .err .packetReceive
    ∧ sectionResult .try_ .malformed (0 : Nat) = .ok none ∧ sectionResult .skip .valid (0 : Nat) = .ok none := by
  decide
