import GdVerif.Props.C19_cli
import GdVerif.Props.C18
/-
  C18 — the timeout flags of the command-line tool (`Proto/CliPlan.lean`: `clap`, `clapTimeout`).

  The tool's `timeout_settings` is an `Option` of the flattened flag group: `None` when none of `--connect-timeout`,
  `--read-timeout`, `--write-timeout`, `--retries` occurs, otherwise the derived `clap::Args` of `TimeoutSettings`
  (`Settings.fromClap`, the subject of `C18_clap_*`).  For EVERY combination of flag values: a zero duration in any
  spelling is a usage error; whatever is accepted reaches the library unchanged and cannot make `apply_timeout` panic.
-/
open Gd Gd.Cli Gd.CliPlan Gd.Settings

/-- A timeout flag whose value reads as zero (`0`, `00`, `+0`, …) is a usage error — the tool never gets as far as a
query —, whatever the other flags are. -/
theorem C18_cli_zero_rejected (env : Env) (fl : Flags) (w : Net)
    (h : (∃ v, fl.connectTimeout = some v ∧ parseUnsigned 64 v = some 0) ∨ (∃ v, fl.readTimeout = some v ∧ parseUnsigned 64 v = some 0)
      ∨ (∃ v, fl.writeTimeout = some v ∧ parseUnsigned 64 v = some 0)) :
    clap fl = none ∧ main env fl w = .usage := by
  have hc : clapTimeout fl = none := by
    unfold clapTimeout
    rcases h with ⟨v, hv, hz⟩ | ⟨v, hv, hz⟩ | ⟨v, hv, hz⟩
    · have := C18_clap_rejects_zero v hz
      simp [hv, fromClap, this, Res.toOption, bind, Res.bind]
    · have := C18_clap_rejects_zero v hz
      simp only [hv, Option.isNone_some, Bool.false_eq_true, false_and, and_false, ↓reduceIte, fromClap, Option.getD_some, this]
      cases parseDurationSecs (fl.connectTimeout.getD (asciiBytes "4")) <;> simp [Res.toOption, bind, Res.bind]
    · have := C18_clap_rejects_zero v hz
      simp only [hv, Option.isNone_some, Bool.false_eq_true, false_and, and_false, ↓reduceIte, fromClap, Option.getD_some, this]
      cases parseDurationSecs (fl.connectTimeout.getD (asciiBytes "4")) <;>
        cases parseDurationSecs (fl.readTimeout.getD (asciiBytes "4")) <;> simp [Res.toOption, bind, Res.bind]
  have hclap : clap fl = none := clap_none_of_timeout fl hc
  exact ⟨hclap, C19_cli_bad_flag env fl w hclap⟩

/-- Whatever the tool accepts: no timeout settings at all (no flag of the group: the library then uses its defaults of
4 s / 4 s / 4 s / no retry) or the settings the flags spell out through `TimeoutSettings`' own `clap::Args` — three
non-zero durations — so that `apply_timeout`'s `unwrap`s cannot panic and `connect_timeout` at worst returns an error. -/
theorem C18_cli_accepted_cannot_panic (fl : Flags) (args : Args) (h : clap fl = some args) :
    (args.timeoutSettings = none ∧ fl.connectTimeout = none ∧ fl.readTimeout = none ∧ fl.writeTimeout = none ∧ fl.retries = none
      ∧ applyTimeout none = .ok () ∧ readAndWriteOrDefaults none = (some ⟨4, 0⟩, some ⟨4, 0⟩) ∧ retriesOrDefault none = 0)
    ∨ (∃ t, args.timeoutSettings = some t ∧ fromClap fl.connectTimeout fl.readTimeout fl.writeTimeout fl.retries = .ok t
      ∧ applyTimeout (some t) = .ok () ∧ connectStep (some t) ≠ .crash) := by
  have ht : clapTimeout fl = some args.timeoutSettings := (clap_some fl args h).2.2.2.1
  unfold clapTimeout at ht
  split at ht
  · rename_i hnone
    simp only [Option.some.injEq] at ht
    simp only [Option.isNone_iff_eq_none] at hnone
    exact Or.inl ⟨ht.symm, hnone.1, hnone.2.1, hnone.2.2.1, hnone.2.2.2, by decide, rfl, rfl⟩
  · cases hfc : fromClap fl.connectTimeout fl.readTimeout fl.writeTimeout fl.retries with
    | ok t =>
      simp only [hfc, Res.toOption, Option.map_some, Option.some.injEq] at ht
      have hp := C18_accepted_cannot_panic t (Or.inr (Or.inl ⟨_, _, _, _, hfc⟩))
      exact Or.inr ⟨t, ht.symm, rfl, hp.1, hp.2.1⟩
    | err k => simp [hfc, Res.toOption] at ht
    | crash => simp [hfc, Res.toOption] at ht

-- non-vacuity: `--retries 3` alone gives settings (defaults for the durations); `--read-timeout 00` is refused
example : (clap { game := some (asciiBytes "q3a"), ip := some (asciiBytes "::1"), retries := some (asciiBytes "3") }).map (·.timeoutSettings)
    = some (some ⟨some ⟨4, 0⟩, some ⟨4, 0⟩, some ⟨4, 0⟩, 3⟩)
  ∧ clap { game := some (asciiBytes "q3a"), ip := some (asciiBytes "::1"), readTimeout := some (asciiBytes "00") } = none
  ∧ (clap { game := some (asciiBytes "q3a"), ip := some (asciiBytes "::1") }).map (·.timeoutSettings) = some none := by
  decide +kernel
