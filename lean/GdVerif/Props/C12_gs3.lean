import GdVerif.Lemmas.Gs3Block
/-
  C12 (blocking steps that can run into their timeout) — GameSpy 3 (`query` and `query_vars`).
-/
open Gd Gd.Gs3

/-- Whatever the server does — for every script, fault vector and retry setting — at most
`retries + 1` blocking steps of a GameSpy 3 query run into their timeout (a failed socket creation,
a failed send, a timed-out receive): one per attempt, although an attempt has two sends and a receive
loop over the splitnum packets — the first step that fails ends the attempt, and the loop ends the
attempt at its first timeout.  Wall time ≤ (retries + 1) · timeout + the server's own delays. -/
theorem C12_gs3_blocking_bound (port retries : Nat) (script : List ConnScript) (faults : List Bool) :
    nBlocked (query port retries (Net.init script faults)).2.log ≤ retries + 1 := by
  have := (block_query port retries).total script faults
  omega

theorem C12_gs3_vars_blocking_bound (port retries : Nat) (script : List ConnScript) (faults : List Bool) :
    nBlocked (queryVars port retries (Net.init script faults)).2.log ≤ retries + 1 := by
  have := (block_queryVars port retries).total script faults
  omega

/-- A silent server (the socket is created, its first `retries + 1` receives time out; the rest of
the script is arbitrary): the query fails with the receive-class error after exactly `retries + 1`
attempts — `retries + 1` handshake requests, `retries + 1` timed-out receives, nothing received. -/
theorem C12_gs3_silent_server (port retries : Nat) (script : List ConnScript)
    (h : PendingSilent false (retries + 1) script) :
    (query port retries (Net.init script [])).1 = .err .packetReceive
      ∧ nSends (query port retries (Net.init script [])).2.log = retries + 1
      ∧ nBlocked (query port retries (Net.init script [])).2.log = retries + 1
      ∧ nRecvOk (query port retries (Net.init script [])).2.log = 0
      ∧ nOpened (query port retries (Net.init script [])).2.log = 1 :=
  (silent_query port retries (Net.init script []) rfl h).counts

theorem C12_gs3_vars_silent_server (port retries : Nat) (script : List ConnScript)
    (h : PendingSilent false (retries + 1) script) :
    (queryVars port retries (Net.init script [])).1 = .err .packetReceive
      ∧ nSends (queryVars port retries (Net.init script [])).2.log = retries + 1
      ∧ nBlocked (queryVars port retries (Net.init script [])).2.log = retries + 1
      ∧ nRecvOk (queryVars port retries (Net.init script [])).2.log = 0
      ∧ nOpened (queryVars port retries (Net.init script [])).2.log = 1 :=
  (silent_queryVars port retries (Net.init script []) rfl h).counts

/-- the hypothesis is satisfiable: no script at all, or `retries + 1` silences followed by anything -/
example (retries : Nat) (rest : List Delivery) (more : List ConnScript) :
    PendingSilent false (retries + 1) [] ∧
    PendingSilent false (retries + 1) (.opened (List.replicate (retries + 1) .silence ++ rest) :: more) :=
  ⟨rfl, SilentFor.replicate false (retries + 1) rest⟩

/-- the bound is attained by a server that answers the handshake and then stops (one retry, two
timeouts), and by one whose data request cannot be sent -/
example : nBlocked (query 2302 1 (Net.init [.opened [.data [9, 0, 0, 0, 1, 48, 0], .silence, .data [9, 0, 0, 0, 1, 48, 0], .silence]] [])).2.log = 2 := by
  decide
example : nBlocked (query 2302 1 (Net.init [.opened [.data [9, 0, 0, 0, 1, 48, 0], .data [9, 0, 0, 0, 1, 48, 0]]] [false, true, false, true])).2.log = 2 := by
  decide
