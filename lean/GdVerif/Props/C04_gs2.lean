import GdVerif.Lemmas.Gs2Query
/-
  C04 — GameSpy 2 replies are decoded completely.

  MODEL: `GdVerif/Proto/Gs2.lean` (protocols/gamespy/protocols/two, repaired tree: the column heads of
  a table are consumed whatever its row count; tied to the code by `./check C04`).
  SPEC:  `GdVerif/Spec/Gs2.lean` — header `00` + the 4-byte id, NUL-terminated key/value pairs ended
  by an empty key, then the player table and the team table (`00`, row count, heads, empty head,
  cells), written from node-gamedig's gamespy2.js (`readFieldData`).

  The domain (`Spec.wf`): texts are UTF-8 without NUL, numbers in the range of the response's
  fields, 0–255 players and 0–255 teams (the row count is a byte; 0–64 / 0–8 included), extra
  variables with distinct non-empty keys that are not typed keys, any number of extra columns (with
  distinct non-empty heads other than the standard ones) in both tables, reply within the 2048-byte
  receive buffer.
-/
open Gd Gd.Gs Gd.Gs2 Gd.Gs2.Spec

/-- `two::query` returns the server's name, map, password flag, player limits, EVERY player and EVERY
team exactly as sent (also when a table has no rows), `players_online` = the reported number or the
number of players listed when that is larger, and exactly the other variables as unused entries. -/
theorem C04_gs2_query (y : Style) (st : State) (h : wf y st = true) (port retries : Nat) :
    (query port retries (Net.init [.opened [.data (reply y st)]] [])).1 = .ok (expected st) :=
  query_expected (wf_iff y st h) port retries

/-- A table decodes to its rows whatever their number — in particular a table WITHOUT rows still
carries (and the parser consumes) its column heads, so that what follows it is read from the right
place. -/
theorem C04_gs2_table (hs : List Bytes) (rows : List (List Bytes)) (hok : ∀ h ∈ hs, OkStr h ∧ h ≠ [])
    (hrows : RowsOk hs rows) (hn : rows.length < 256) :
    Decodes dataAsTable (encTable hs rows) (pushRows (emptyTable hs) hs rows, rows.length) :=
  decodes_dataAsTable hs rows hok hrows hn

/-- The variables block: exactly the pairs sent, and the cursor is left on the NUL that starts the
player table. -/
theorem C04_gs2_vars (ps : List (Bytes × Bytes)) (hok : ∀ p ∈ ps, OkVar p) (hd : Distinct ps) (post : Bytes) :
    ∃ b', getServerVars (Buf.new ((ps.map encPair).flatten ++ [0] ++ (0 :: post))) = .ok (canon ps, b')
      ∧ b'.rest = 0 :: post := by
  obtain ⟨b', h1, h2, _⟩ := getServerVars_enc ps hok hd (Buf.new _) post rfl
  exact ⟨b', h1, h2⟩

/-- "All other variables, and only those". -/
theorem C04_gs2_unused_exact (y : Style) (st : State) (h : wf y st = true) (p : Bytes × Bytes) :
    p ∈ (expected st).unusedEntries ↔ (p ∈ serverPairs st ∧ p.1 ∉ typedKeys) := by
  have hw := wf_iff y st h
  show p ∈ canon st.extras ↔ _
  rw [(canon_perm_self st.extras).mem_iff]
  constructor
  · intro he
    exact ⟨by rw [serverPairs_eq]; simp [he], hw.extrasKeys p he⟩
  · rintro ⟨hall, hnt⟩
    rw [serverPairs_eq] at hall
    rcases List.mem_append.mp hall with h1 | h1
    · have hm := mem_present h1
      have hk : p.1 ∈ (skeleton st).map (·.1) := List.mem_map.mpr ⟨_, hm, rfl⟩
      rw [skeleton_keys] at hk
      exact absurd (skeleton_nodup.2 _ hk).1 hnt
    · exact h1

def C04_gs2_exState : Spec.State :=
  { name := bs "Srv", map := bs "m1", hasPassword := true, teams := [⟨bs "Red", 3⟩, ⟨bs "Blue", 65535⟩],
    playersMaximum := 16, reportedPlayers := some 0, playersMinimum := some 2, players := [],
    extras := [(bs "gamever", bs "1.2")] }

def C04_gs2_exState2 : Spec.State := { C04_gs2_exState with players := [⟨bs "Bob", 7, 40, 1⟩], reportedPlayers := some 5 }

def C04_gs2_exStyle : Style := ⟨[(bs "deaths_", bs "9")], []⟩

-- non-vacuity: a server WITHOUT players but with teams (the case the unrepaired code could not
-- decode) and one with a player, an extra column and a larger reported count are in the domain
example : wf C04_gs2_exStyle C04_gs2_exState = true ∧
    (query 2302 0 (Net.init [.opened [.data (reply C04_gs2_exStyle C04_gs2_exState)]] [])).1 = .ok (expected C04_gs2_exState)
    ∧ (expected C04_gs2_exState).teams.length = 2 ∧ (expected C04_gs2_exState).playersOnline = 0
    ∧ wf C04_gs2_exStyle C04_gs2_exState2 = true
    ∧ (query 2302 0 (Net.init [.opened [.data (reply C04_gs2_exStyle C04_gs2_exState2)]] [])).1 = .ok (expected C04_gs2_exState2)
    ∧ (expected C04_gs2_exState2).playersOnline = 5 := by
  decide +kernel
