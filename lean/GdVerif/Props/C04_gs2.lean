import GdVerif.Spec.Gs2
/- C04_gs2: theorems to come -/
