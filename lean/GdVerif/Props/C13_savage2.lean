import GdVerif.Lemmas.SmallCost
import GdVerif.Lemmas.SmallBlock
/-
  C13 (requests sent) — Savage 2: one request, never retried (the retry count of the settings is not
  used).  `units` = 1, and the bound does not even grow with `retries`.
-/
open Gd Gd.Savage2

/-- Exactly one request at most, for every script and fault vector. -/
theorem C13_savage2_send_bound (port : Nat) (script : List ConnScript) (faults : List Bool) :
    nSends (query port (Net.init script faults)).2.log ≤ 1 :=
  (sends_query port).total script faults

/-- The form the trace oracle checks (`send_units` = 1, any retry count on the case line). -/
theorem C13_savage2_send_bound_units (port retries : Nat) (script : List ConnScript) (faults : List Bool) :
    nSends (query port (Net.init script faults)).2.log
      ≤ 1 * (retries + 1) + nRecvOk (query port (Net.init script faults)).2.log := by
  have := C13_savage2_send_bound port script faults
  omega

theorem C13_savage2_send_bound_attained (port : Nat) : nSends (query port (Net.init [] [])).2.log = 1 :=
  (silent_query port (Net.init [] []) rfl rfl).counts.2.1
