import GdVerif.Lemmas.GsSafe
/-
  C01 — Hostile server responses never crash or hang a query: GameSpy 1.

  MODEL: `GdVerif/Proto/Gs1.lean` (repaired tree: an empty datagram is rejected, the player table
  is neither pre-allocated from `maxplayers` nor grown to an index that is not below the number of
  entries, the receive loop is bounded by the deliveries queued).  Every panic site of the Rust
  (`remove(0)`, `split[0]`, `splited[i]`, `players_data[id]`, `id - len + 1`) is an explicit
  `crash` branch of the model or a total operation whose precondition the model establishes; the
  loop takes fuel `queued + 1` and runs out of it by crashing — the theorems say none of this is
  reachable, for EVERY reply script.
-/
open Gd Gd.Gs

/-- `gamespy::one::query`: no crash for any script (any number of datagrams of any content,
silences, refused socket, failing sends) and any retry count. -/
theorem C01_gs1_query (port retries : Nat) (script : List ConnScript) (faults : List Bool) :
    (Gs1.query port retries (Net.init script faults)).1 ≠ .crash :=
  (Gs1.query_safe port retries (Net.init script faults)).1

/-- `gamespy::one::query_vars`. -/
theorem C01_gs1_query_vars (port retries : Nat) (script : List ConnScript) (faults : List Bool) :
    (Gs1.queryVars port retries (Net.init script faults)).1 ≠ .crash :=
  (Gs1.queryVars_safe port retries (Net.init script faults)).1

/-- The pieces alone, on any input: one round of the receive loop on any datagram in any loop
state, and the whole typed decoding (`maxplayers`, `extract_players`, `has_password`, …) of any map. -/
theorem C01_gs1_pieces (st : Gs1.LoopSt) (data : Bytes) (vars : Map Bytes) :
    Gs1.processPacket st data ≠ .crash ∧ Gs1.buildResponse vars ≠ .crash ∧ Gs1.extractPlayers vars ≠ .crash :=
  ⟨Gs1.processPacket_ne st data, Gs1.buildResponse_ne vars, Gs1.extractPlayers_ne vars⟩

-- non-vacuity: the hostile inputs that crashed the unrepaired code are in the quantifier and give errors
example : (Gs1.query 7777 0 (Net.init [.opened [.data []]] [])).1 = .err .packetBad := by decide +kernel

example : (Gs1.query 7777 0 (Net.init [.opened [.data (asciiBytes
    "\\hostname\\S\\mapname\\m\\gametype\\g\\gamever\\1\\maxplayers\\1\\password\\0\\player_18446744073709551615\\B\\final\\")]] [])).1
    = .err .packetBad := by decide +kernel
