import GdVerif.Spec.Gs1
/- C01_gs1: theorems to come -/
