import GdVerif.Props.C14_dispatch
import GdVerif.Lemmas.Arms
/-
  C14 (and what C09 / C11 / C18 need of the glue) over the TRANSLATED arms of games/query.rs.

  `Gen/Arms.lean` is regenerated from the source on every run (tools/xlate_arms.py): one term-level arm per leaf of the
  `match &game.protocol` of `query_with_timeout_and_extra_settings`, the conversion impls `From<ExtraRequestSettings> for T`,
  the `default()`s, `into_extra`, the two wrappers, the `game_query_fn!` bodies.  `Proto/ArmsSem.lean` evaluates them.
  Here: source = translation = model —
    * for EVERY protocol value exactly one generated arm matches;
    * for EVERY game, port, timeout settings and extra settings, evaluating the translated arm gives exactly the call
      (callee, address / port, settings value, timeout) of the hand-written `Dispatch.generic`, which therefore IS the
      translation, made;
    * the conversions, defaults, `into_extra`, wrappers, module macros as translated are the model's;
    * corollaries, from the translated terms: timeout settings (retry count) reach every arm; extra settings, when given,
      are what reaches the protocol, field by field, the definition's own settings otherwise; the port is the caller's,
      else the definition's default.
  All proofs are case splits + evaluation of the generated closed terms (no sample).
-/
open Gd Gd.Dispatch Gd.Arms Gd.Gen

/-- The translator understood every shape it met on this run (otherwise it writes empty tables and `false`). -/
theorem C14_arms_understood : Gen.Arms.translated = true := by decide

/-! ### one arm per protocol value -/

/-- For EVERY value of `Protocol` (any engine, any version, any Minecraft variant — not only the rows of the table) exactly
one arm of the generated table matches: the `match` is exhaustive without overlap, so "the first arm that matches" is "the
arm". -/
theorem C14_arms_exactly_one_arm (p : Protocol) : countArms Gen.Arms.arms (encProtocol p) = 1 :=
  countArms_eq_one p

/-- In particular for every row of the generated definitions table. -/
theorem C14_arms_table_rows_have_one_arm {d : GameRow} (hd : d ∈ gameDefs) :
    ∃ game, Game.ofRow d = some game ∧ countArms Gen.Arms.arms (encProtocol game.protocol) = 1 := by
  have h := List.all_eq_true.mp C14_dispatch_rows_modelled.1 d hd
  cases hg : Game.ofRow d with
  | none => simp [hg] at h
  | some game => exact ⟨game, rfl, countArms_eq_one _⟩

/-- The arms the harness's build does not contain are exactly the two behind the `tls` feature. -/
theorem C14_arms_skipped :
    Gen.Arms.skippedArms.map (·.cfg)
      = ["cfg(feature = \"tls\")", "cfg(all(feature = \"services\", feature = \"tls\", feature = \"serde\"))"] := by decide

example : countArms Gen.Arms.arms (encProtocol (.valve (Valve.Engine.new 440))) = 1 := C14_arms_exactly_one_arm _
example : (selectArm Gen.Arms.arms (encProtocol (.proprietary (.minecraft (some (.legacy .v1_4)))))).map (·.1.path)
    = some "games::minecraft::protocol::query_legacy_specific" := by decide

/-! ### source = translation = model, per arm, every argument value -/

/-- For EVERY game (any default port, protocol, request settings), port given or omitted, any timeout settings, any
extra settings: the translated arm of the game's protocol, evaluated on these values, is exactly the call the
hand-written model makes — same callee, same address / port argument, same settings value, same timeout settings. -/
theorem C14_arms_call_eq_model (game : Game) (port : Option Nat) (timeout : Option Settings.Timeout)
    (extra : Option Extra) : translatedCall game port timeout extra = some (genericCall game port timeout extra) :=
  translatedCall_eq game port timeout extra

/-- … and `Dispatch.generic` (the model every other C14 / C09 / C11 / C18 theorem of the dispatch is about) is that call,
made: the translation of the source, evaluated, IS the model, on every transport state. -/
theorem C14_arms_translation_eq_generic (ext : Ext) (game : Game) (port : Option Nat)
    (timeout : Option Settings.Timeout) (extra : Option Extra) :
    translated ext game port timeout extra = some (generic ext game port timeout extra) := by
  simp only [translated, translatedCall_eq, Option.map_some, generic_eq_run]

-- aapg (Valve, enforces players / skips rules), caller gives a port, 3 retries and only `check_app_id = false`
example :
    translatedCall ⟨27020, .valve (Valve.Engine.new 203290), valveIntoExtra ⟨.enforce, .skip, true⟩⟩ (some 1)
        (some ⟨none, none, none, 3⟩) (some ⟨none, none, none, none, some false⟩)
      = some (.valveQuery 1 (Valve.Engine.new 203290) (some ⟨.try_, .try_, false⟩) (some ⟨none, none, none, 3⟩)) := by decide
-- Savage 2: the optional port is handed on unchanged
example : translatedCall ⟨11235, .proprietary .savage2, valveIntoExtra Valve.Gather.default⟩ none none none
    = some (.savage2QueryWithTimeout none none) := by decide

/-! ### the conversion impls, defaults, `into_extra`, wrappers, module macros as translated -/

/-- `impl From<ExtraRequestSettings> for {valve, unreal2}::GatheringSettings, minecraft::RequestSettings,
EcoRequestSettings` as translated = `Extra.toValve / toUnreal2 / toMinecraft / toEco` of the model, for every settings
value. -/
theorem C14_arms_conversions (e : Extra) :
    convOf .valveGather (encExtra e) = some (encValveGather e.toValve)
    ∧ convOf .unreal2Gather (encExtra e) = some (encUnreal2Gather e.toUnreal2)
    ∧ convOf .mcRequestSettings (encExtra e) = some (encMcSettings e.toMinecraft)
    ∧ convOf .ecoRequestSettings (encExtra e) = some (encEcoSettings e.toEco) :=
  ⟨convOf_valve e, convOf_unreal2 e, convOf_minecraft e, convOf_eco e⟩

/-- `T::default()` as translated = the model's defaults (incl. the `"gamedig"` / `-1` of the Minecraft handshake). -/
theorem C14_arms_defaults :
    dfltOf .extra = some (encExtra ⟨none, none, none, none, none⟩)
    ∧ dfltOf .valveGather = some (encValveGather Valve.Gather.default)
    ∧ dfltOf .unreal2Gather = some (encUnreal2Gather Unreal2.Gather.default)
    ∧ dfltOf .mcRequestSettings = some (encMcSettings Mc.RequestSettings.default)
    ∧ dfltOf .ecoRequestSettings = some (encEcoSettings EcoSettings.default) :=
  dfltOf_all

/-- `GatheringSettings::into_extra` (valve, unreal2) as translated = the model's; and the request settings the `game!`
macro gives a definition that names none are `valve::GatheringSettings::default().into_extra()`. -/
theorem C14_arms_into_extra (g : Valve.Gather) (u : Unreal2.Gather) :
    intoExtraOf .valveGather (encValveGather g) = some (encExtra (valveIntoExtra g))
    ∧ intoExtraOf .unreal2Gather (encUnreal2Gather u) = some (encExtra (unreal2IntoExtra u))
    ∧ (match Gen.Arms.gameDefaultSettings with
        | some t =>
          match evalTm sem Env.empty t with
          | some v => intoExtraOf .valveGather v
          | none => none
        | none => none) = some (encExtra (valveIntoExtra Valve.Gather.default)) :=
  ⟨intoExtraOf_valve g, intoExtraOf_unreal2 u, gameDefault_eval⟩

/-- The encodings the statements above go through lose nothing. -/
theorem C14_arms_encodings_faithful (e : Extra) (g : Valve.Gather) (u : Unreal2.Gather) (m : Mc.RequestSettings)
    (c : EcoSettings) :
    decExtra (encExtra e) = some e ∧ decValveGather (encValveGather g) = some g
    ∧ decUnreal2Gather (encUnreal2Gather u) = some u ∧ decMcSettings (encMcSettings m) = some m
    ∧ decEcoSettings (encEcoSettings c) = some c :=
  ⟨decExtra_enc e, decValveGather_enc g, decUnreal2Gather_enc u, decMcSettings_enc m, decEcoSettings_enc c⟩

/-- `query(game, address, port)` and `query_with_timeout(game, address, port, timeout_settings)` as translated call the
full function with the same game, address and port, `None` for what they do not take — as `genericQuery` /
`genericWithTimeout` of the model do. -/
theorem C14_arms_wrappers (ext : Ext) (game : Game) (port : Option Nat) (timeout : Option Settings.Timeout) :
    (Gen.Arms.wrappers.map fun w => (w.name, w.callee, evalWrapper w game port timeout))
      = [("query", .generic, some [encGame game, .addr, encOpt .num port, .none_, .none_]),
         ("query_with_timeout", .generic, some [encGame game, .addr, encOpt .num port, encOpt .timeout timeout, .none_])]
    ∧ genericQuery ext game port = generic ext game port none none
    ∧ genericWithTimeout ext game port timeout = generic ext game port timeout none :=
  ⟨wrappers_eval game port timeout, rfl, rfl⟩

/-- The `@gen` rule of every `game_query_fn!` (valve; gamespy one / two / three; quake one / two / three; unreal2) as
translated, evaluated on a module's parameters, is the call the model of that kind of module makes — address built from
the caller's port else the macro's `$default_port`, the macro's engine and `Some($gathering_settings)` (Valve), the
protocol's default settings (Unreal2), no timeout settings — and only the Valve rule converts the result
(`new_from_valve_response`). -/
theorem C14_arms_module_macros (ext : Ext) (m : Module) (port : Option Nat) (c : Call) (hc : moduleCall m port = some c) :
    translatedModuleCall m port = some (c, match m with | .valve _ _ _ => true | _ => false)
    ∧ moduleQuery ext m port
        = match m with
          | .valve _ _ _ => Games.mapQ Response.view (c.run ext)
          | _ => c.run ext :=
  ⟨translatedModuleCall_eq m port c hc, moduleQuery_eq_run ext m port c hc⟩

/-- The gathering settings `valve::game_query_mod!` gives a module that names none, and the ones the `game!` macro turns
into a definition's request settings when it names none, are both `valve::GatheringSettings::default()` as translated =
the model's `Valve.Gather.default` (what `Module.ofRow` / `requestSettingsOf` use for such rows). -/
theorem C14_arms_macro_defaults :
    evalClosed Gen.Arms.valveModDefaultSettings = some (encValveGather Valve.Gather.default)
    ∧ evalClosed Gen.Arms.gameDefaultSettings = some (encValveGather Valve.Gather.default) :=
  ⟨valveModDefault_eval, rfl⟩

/-- The hand-written modules savage2 / theship / ffow / jc2m / eco: `query(address, port)` as translated hands address and
port on unchanged with `None` for the timeout settings (eco: through `query_with_timeout`, which adds `None` for the extra
settings); decoded, these are the calls the model of each module makes. -/
theorem C14_arms_hand_modules (ext : Ext) (port : Option Nat) (timeout : Option Settings.Timeout) :
    (Gen.Arms.handWrappers.map fun w => (w.1, w.2.1, w.2.2.1, evalHandWrapper w.2.2.2 port timeout))
      = [("savage2", "query", .savage2QueryWithTimeout, some [.addr, encOpt .num port, .none_]),
         ("theship", "query", .theShipQueryWithTimeout, some [.addr, encOpt .num port, .none_]),
         ("ffow", "query", .ffowQueryWithTimeout, some [.addr, encOpt .num port, .none_]),
         ("jc2m", "query", .jc2mQueryWithTimeout, some [.addr, encOpt .num port, .none_]),
         ("eco", "query", .ecoQueryWithTimeout, some [.addr, encOpt .num port, .none_]),
         ("eco", "query_with_timeout", .ecoQuery, some [.addr, encOpt .num port, encOpt .timeout timeout, .none_])]
    ∧ (Call.decode .savage2QueryWithTimeout [.addr, encOpt .num port, .none_] = some (.savage2QueryWithTimeout port none)
      ∧ Call.decode .theShipQueryWithTimeout [.addr, encOpt .num port, .none_] = some (.theShipQueryWithTimeout port none)
      ∧ Call.decode .ffowQueryWithTimeout [.addr, encOpt .num port, .none_] = some (.ffowQueryWithTimeout port none)
      ∧ Call.decode .jc2mQueryWithTimeout [.addr, encOpt .num port, .none_] = some (.jc2mQueryWithTimeout port none)
      ∧ Call.decode .ecoQuery [.addr, encOpt .num port, encOpt .timeout none, .none_] = some (.ecoQuery port none none))
    ∧ (moduleQuery ext .savage2 port = (Call.savage2QueryWithTimeout port none).run ext
      ∧ moduleQuery ext .theShip port = (Call.theShipQueryWithTimeout port none).run ext
      ∧ moduleQuery ext .ffow port = (Call.ffowQueryWithTimeout port none).run ext
      ∧ moduleQuery ext .jc2m port = (Call.jc2mQueryWithTimeout port none).run ext
      ∧ moduleQuery ext .eco port = (Call.ecoQuery port none none).run ext) :=
  ⟨handWrappers_eval port timeout, handWrappers_decode port, handModules_eq_run ext port⟩

example : evalHandWrapper [(.var .address), (.var .port), .none_] (some 7) none = some [.addr, .some_ (.num 7), .none_] := rfl

example : moduleCall (.valve 27015 (Valve.Engine.new 440) Valve.Gather.default) none
    = some (.valveQuery 27015 (Valve.Engine.new 440) (some Valve.Gather.default) none) := rfl
example : translatedModuleCall (.quake .three 27960) (some 5) = some (.quakeQuery .three 5 none, false) := by decide

/-! ### corollaries, from the translated terms -/

/-- RETRIES (C09 / C18): whatever the game, the timeout settings the translated arm passes to its callee are the caller's,
unchanged (so `retriesOf` of them — the caller's retry count, or the default 0 when there are none — is what every
protocol entry of `Call.run` gets), and the model's exchange is that call. -/
theorem C14_arms_timeout_passed_on (ext : Ext) (game : Game) (port : Option Nat) (timeout : Option Settings.Timeout)
    (extra : Option Extra) :
    ∃ call, translatedCall game port timeout extra = some call ∧ call.timeout = timeout
      ∧ generic ext game port timeout extra = call.run ext := by
  refine ⟨genericCall game port timeout extra, translatedCall_eq .., ?_, generic_eq_run ..⟩
  obtain ⟨dp, proto, rs⟩ := game
  cases proto with
  | gamespy v => cases v <;> rfl
  | proprietary p =>
    cases p with
    | minecraft v =>
      cases v with
      | none => rfl
      | some s => cases s <;> rfl
    | _ => rfl
  | _ => rfl

/-- PORT (C11): the translated arm either builds the socket address from the caller's port, else the definition's default
port (`inl`), or hands the caller's optional port on unchanged (`inr`) to a game function that applies its own default
(`ownDefaultPort`: exactly the six hand-written games) — for every arm, incl. every variant of Minecraft (the
auto-detecting arm passes ONE address to `minecraft::protocol::query`). -/
theorem C14_arms_port (game : Game) (port : Option Nat) (timeout : Option Settings.Timeout) (extra : Option Extra) :
    ∃ call, translatedCall game port timeout extra = some call
      ∧ call.portArg = match ownDefaultPort game.protocol with
          | none => .inl (port.getD game.defaultPort)
          | some _ => .inr port := by
  refine ⟨genericCall game port timeout extra, translatedCall_eq .., ?_⟩
  obtain ⟨dp, proto, rs⟩ := game
  cases proto with
  | gamespy v => cases v <;> rfl
  | proprietary p =>
    cases p with
    | minecraft v =>
      cases v with
      | none => rfl
      | some s => cases s <;> rfl
    | _ => rfl
  | _ => rfl

/-- … and for every row of the definitions table the translation, evaluated, is the protocol's own query function at the
caller's port, else the ROW's default port (also for the arms that hand the port on: their callee's default is the row's,
`C14_dispatch_own_default`), with `retriesOf timeout` and the settings rule of `protocolQuery` spelled out per protocol. -/
theorem C14_arms_translation_eq_protocol {d : GameRow} (hd : d ∈ gameDefs) {game : Game} (hg : Game.ofRow d = some game)
    (ext : Ext) (port : Option Nat) (timeout : Option Settings.Timeout) (extra : Option Extra) :
    translated ext game port timeout extra
      = some (protocolQuery ext game.protocol game.requestSettings extra (port.getD d.port) timeout) := by
  rw [C14_arms_translation_eq_generic]
  congr 1
  funext w
  exact C14_dispatch_generic_eq_protocol hd hg ext port timeout extra w

/-- DESTINATION (C11), from the translation: for every row of the definitions table, every script, fault vector, timeout
and extra settings, every socket the translated arm's call opens and every datagram / stream write it sends goes to the
caller's port, or to the ROW's default port when none is given — every arm, every probe of the auto-detecting Minecraft
arm included (it passes one address on). -/
theorem C14_arms_destination_port {d : GameRow} (hd : d ∈ gameDefs) {game : Game} (hg : Game.ofRow d = some game)
    (ext : Ext) (heco : EcoSafeFor ext game.protocol) (port : Option Nat) (timeout : Option Settings.Timeout)
    (extra : Option Extra) (script : List ConnScript) (faults : List Bool) :
    ∃ q, translated ext game port timeout extra = some q ∧
      ∀ e ∈ (q (Net.init script faults)).2.log,
        match e with
        | .opened _ _ p _ => p = port.getD d.port
        | .send _ p _ _ => p = port.getD d.port
        | .recv _ _ _ => True :=
  ⟨_, C14_arms_translation_eq_generic ext game port timeout extra,
    C14_dispatch_destination_port hd hg ext heco port timeout extra script faults⟩

/-- EXTRA SETTINGS, Valve arm: when the caller gives extra settings, what reaches `valve::query` is built from THEM field by
field (players, rules, the app-id check; the protocol's default `Try` / `Try` / `true` for a field left unset) — the
definition's own settings play no part; when the caller gives none, from the DEFINITION's request settings. -/
theorem C14_arms_extra_valve (dp : Nat) (engine : Valve.Engine) (rs : Extra) (port : Option Nat)
    (timeout : Option Settings.Timeout) :
    (∀ e : Extra, translatedCall ⟨dp, .valve engine, rs⟩ port timeout (some e)
      = some (.valveQuery (port.getD dp) engine
          (some ⟨e.gatherPlayers.getD .try_, e.gatherRules.getD .try_, e.checkAppId.getD true⟩) timeout))
    ∧ translatedCall ⟨dp, .valve engine, rs⟩ port timeout none
      = some (.valveQuery (port.getD dp) engine
          (some ⟨rs.gatherPlayers.getD .try_, rs.gatherRules.getD .try_, rs.checkAppId.getD true⟩) timeout) :=
  ⟨fun _ => translatedCall_eq .., translatedCall_eq ..⟩

/-- Unreal2 arm: players / rules from the caller's extra settings (default `Try` / `Enforce` per unset field), the protocol's
defaults when there are none. -/
theorem C14_arms_extra_unreal2 (dp : Nat) (rs : Extra) (port : Option Nat) (timeout : Option Settings.Timeout) :
    (∀ e : Extra, translatedCall ⟨dp, .unreal2, rs⟩ port timeout (some e)
      = some (.unreal2Query (port.getD dp) ⟨e.gatherPlayers.getD .try_, e.gatherRules.getD .enforce⟩ timeout))
    ∧ translatedCall ⟨dp, .unreal2, rs⟩ port timeout none
      = some (.unreal2Query (port.getD dp) ⟨.try_, .enforce⟩ timeout) :=
  ⟨fun _ => translatedCall_eq .., translatedCall_eq ..⟩

/-- Minecraft, Java and auto-detect arms: host name and protocol version of the handshake are the caller's (default
`"gamedig"` / `-1` per unset field); no request settings are passed when the caller gives none (the callee then uses
`RequestSettings::default()`). -/
theorem C14_arms_extra_minecraft (dp : Nat) (rs : Extra) (port : Option Nat) (timeout : Option Settings.Timeout) :
    (∀ e : Extra,
      translatedCall ⟨dp, .proprietary (.minecraft (some .java)), rs⟩ port timeout (some e)
        = some (.mcQueryJava (port.getD dp) timeout
            (some ⟨e.hostname.getD Mc.RequestSettings.default.hostname, e.protocolVersion.getD (-1)⟩))
      ∧ translatedCall ⟨dp, .proprietary (.minecraft none), rs⟩ port timeout (some e)
        = some (.mcQueryAuto (port.getD dp) timeout
            (some ⟨e.hostname.getD Mc.RequestSettings.default.hostname, e.protocolVersion.getD (-1)⟩)))
    ∧ translatedCall ⟨dp, .proprietary (.minecraft (some .java)), rs⟩ port timeout none
        = some (.mcQueryJava (port.getD dp) timeout none)
    ∧ translatedCall ⟨dp, .proprietary (.minecraft none), rs⟩ port timeout none
        = some (.mcQueryAuto (port.getD dp) timeout none) :=
  ⟨fun _ => ⟨translatedCall_eq .., translatedCall_eq ..⟩, translatedCall_eq .., translatedCall_eq ..⟩

/-- Eco arm: the host name (only) of the caller's extra settings. -/
theorem C14_arms_extra_eco (dp : Nat) (rs : Extra) (port : Option Nat) (timeout : Option Settings.Timeout) :
    (∀ e : Extra, translatedCall ⟨dp, .proprietary .eco, rs⟩ port timeout (some e)
      = some (.ecoQuery port timeout (some ⟨e.hostname⟩)))
    ∧ translatedCall ⟨dp, .proprietary .eco, rs⟩ port timeout none = some (.ecoQuery port timeout none) :=
  ⟨fun _ => translatedCall_eq .., translatedCall_eq ..⟩

/-- the protocols whose arm reads the extra settings -/
def C14_arms_readsExtra : Protocol → Bool
  | .valve _ | .unreal2 | .proprietary (.minecraft (some .java)) | .proprietary (.minecraft none) | .proprietary .eco => true
  | _ => false

/-- Every other arm does not read the extra settings, and only the Valve arm reads the definition's request settings. -/
theorem C14_arms_settings_unread (game : Game) (port : Option Nat) (timeout : Option Settings.Timeout)
    (extra : Option Extra) (rs' : Extra) :
    (C14_arms_readsExtra game.protocol = false →
      translatedCall game port timeout extra = translatedCall game port timeout none)
    ∧ ((∀ e, game.protocol ≠ .valve e) →
      translatedCall game port timeout extra = translatedCall { game with requestSettings := rs' } port timeout extra) := by
  simp only [translatedCall_eq]
  obtain ⟨dp, proto, rs⟩ := game
  constructor
  · intro h
    cases proto with
    | valve e => cases h
    | unreal2 => cases h
    | gamespy v => cases v <;> rfl
    | quake v => rfl
    | proprietary p =>
      cases p with
      | eco => cases h
      | minecraft v =>
        cases v with
        | none => cases h
        | some s => cases s <;> first | rfl | cases h
      | _ => rfl
  · intro h
    cases proto with
    | valve e => exact absurd rfl (h e)
    | gamespy v => cases v <;> rfl
    | proprietary p =>
      cases p with
      | minecraft v =>
        cases v with
        | none => rfl
        | some s => cases s <;> rfl
      | _ => rfl
    | _ => rfl

-- the corollaries on concrete rows of the generated table
example (ext : Ext) :
    translated ext ⟨7778, .unreal2, valveIntoExtra Valve.Gather.default⟩ none (some ⟨none, none, none, 2⟩)
        (some ⟨none, none, some .skip, none, none⟩)
      = some (protocolQuery ext .unreal2 (valveIntoExtra Valve.Gather.default) (some ⟨none, none, some .skip, none, none⟩)
          7778 (some ⟨none, none, none, 2⟩)) :=
  C14_arms_translation_eq_protocol
    (d := ⟨"unrealtournament2004", "Unreal Tournament 2004", 7778, "unreal2", "-", "-", true, 7778, false, .unreal2⟩)
    (by decide) (by decide) ext none _ _
example : C14_arms_readsExtra (.quake .three) = false := rfl
example : (genericCall ⟨25565, .proprietary (.minecraft none), valveIntoExtra Valve.Gather.default⟩ none none
    (some ⟨some [0x6D, 0x63], some 47, none, none, none⟩)).portArg = .inl 25565 := rfl

-- the auto-detecting Minecraft definition, port omitted, 3 retries: whatever the servers do, every probe of the translated
-- arm's call goes to the row's 25565
example (ext : Ext) (script : List ConnScript) (faults : List Bool) :
    ∃ q, translated ext ⟨25565, .proprietary (.minecraft none), valveIntoExtra Valve.Gather.default⟩ none
        (some ⟨none, none, none, 3⟩) none = some q ∧
      ∀ e ∈ (q (Net.init script faults)).2.log,
        match e with
        | .opened _ _ p _ => p = 25565
        | .send _ p _ _ => p = 25565
        | .recv _ _ _ => True :=
  C14_arms_destination_port
    (d := ⟨"minecraft", "Minecraft", 25565, "prop:Minecraft(None)", "-", "-", true, 25565, false, .minecraft .auto⟩)
    (by decide) (by decide) ext (fun h => by cases h) none _ none script faults
