import GdVerif.Lemmas.Reassembly
/-
  C08 — Multi-datagram responses do not depend on arrival order.

  MODEL: `Valve.sortChunks`/`Valve.assemble` (the reassembly of `ValveProtocol::receive` in
  the repaired tree: all packets sorted by number, numbers must be exactly 0..total).
  Further protocols (GameSpy 1/3, Unreal 2) are added to this file as their models land.
-/
open Gd Gd.Valve

/-- Valve split packets, any number of fragments: for EVERY multiset of received fragments, every
arrival order yields the same reassembly result (the same payload, or the same error). No
hypothesis on the fragments is needed: with distinct numbers the sort is order-independent, and a
repeated number is rejected whatever the order. -/
theorem C08_valve_any_order (ext : Ext) (frs frs' : List SplitPacket) (h : frs'.Perm frs) :
    assemble ext (sortChunks frs') = assemble ext (sortChunks frs) := by
  by_cases hd : frs.Pairwise (fun a b => a.number ≠ b.number)
  · rw [sortChunks_perm frs frs' h hd]
  · have hd' : ¬ frs'.Pairwise (fun a b => a.number ≠ b.number) := fun hp =>
      hd (hp.perm h (fun hne => Ne.symm hne))
    rw [assemble_duplicate ext frs hd, assemble_duplicate ext frs' hd']

/-- A duplicated fragment (two received fragments with the same number, at any positions) never
yields a payload: the reassembly is an error. -/
theorem C08_valve_duplicate_is_error (ext : Ext) (frs : List SplitPacket)
    (hdup : ¬ frs.Pairwise (fun a b => a.number ≠ b.number)) :
    assemble ext (sortChunks frs) = .err .packetBad :=
  assemble_duplicate ext frs hdup

/-- A fragment of another response among the received ones (different header, id or announced total — a late
duplicate of an earlier response, for instance) never yields a payload, whatever the arrival order. -/
theorem C08_valve_foreign_fragment_is_error (ext : Ext) (frs : List SplitPacket) (p q : SplitPacket)
    (hp : p ∈ frs) (hq : q ∈ frs) (hne : sameResponse p q = false) :
    assemble ext (sortChunks frs) = .err .packetBad :=
  assemble_foreign ext frs p q hp hq hne

/-- In-order (hence, by the theorem above, any-order) arrival of the uncompressed fragments of a
payload cut into chunks reassembles exactly the payload. -/
theorem C08_valve_reassembles_payload (ext : Ext) (header id total size : Nat) (c : Bytes) (cs : List Bytes)
    (frs' : List SplitPacket)
    (h : frs'.Perm ((Spec.enumFrom 0 (c :: cs)).map fun p => (⟨header, id, total, p.1, size, none, p.2⟩ : SplitPacket))) :
    assemble ext (sortChunks frs') = .ok (c :: cs).flatten := by
  rw [C08_valve_any_order ext _ _ h]
  obtain ⟨hs, hn, _⟩ := enumFrom_sorted (fun i (ch : Bytes) => (⟨header, id, total, i, size, none, ch⟩ : SplitPacket))
    (fun _ _ => rfl) (c :: cs) 0
  unfold sortChunks
  rw [List.mergeSort_of_pairwise hs]
  have hall : ∀ (i : Nat) (l : List Bytes) (m : SplitPacket), m.header = header → m.id = id → m.total = total →
      ((Spec.enumFrom i l).map fun p => (⟨header, id, total, p.1, size, none, p.2⟩ : SplitPacket)).all (sameResponse m) = true := by
    intro i l m h1 h2 h3
    induction l generalizing i with
    | nil => rfl
    | cons x r ih => simp [Spec.enumFrom, sameResponse, h1, h2, h3, ih]
  unfold assemble
  rw [hn]
  simp only [Bool.not_true, Bool.false_eq_true, ↓reduceIte, Spec.enumFrom, List.map_cons, getPayload,
    List.flatten_cons, hall 1 cs ⟨header, id, total, 0, size, none, c⟩ rfl rfl rfl]
  congr 2
  -- the payloads of the remaining fragments are the remaining chunks
  suffices hgen : ∀ (i : Nat) (l : List Bytes),
      (((Spec.enumFrom i l).map fun p => (⟨header, id, total, p.1, size, none, p.2⟩ : SplitPacket)).map (·.payload)) = l by
    rw [hgen]
  intro i l
  induction l generalizing i with
  | nil => rfl
  | cons x r ih => simp [Spec.enumFrom, ih]

-- non-vacuity: three fragments arriving as 2,0,1 reassemble (the hypotheses are satisfiable by a
-- genuinely out-of-order arrival)
example (ext : Ext) :
    let f := fun (n : Nat) (p : Bytes) => (⟨0xFFFFFFFE, 7, 3, n, 1248, none, p⟩ : SplitPacket)
    assemble ext (sortChunks [f 2 [5, 6], f 0 [1, 2], f 1 [3, 4]]) = .ok [1, 2, 3, 4, 5, 6] := by
  intro f
  exact C08_valve_reassembles_payload ext 0xFFFFFFFE 7 3 1248 [1, 2] [[3, 4], [5, 6]] _
    (List.perm_append_comm (l₁ := [f 2 [5, 6]]) (l₂ := [f 0 [1, 2], f 1 [3, 4]]))
