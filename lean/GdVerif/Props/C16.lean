import GdVerif.Lemmas.Master
import GdVerif.Lemmas.MasterPaging
/-
  C16 — Master-server filters are encoded faithfully and paging is complete.

  MODEL: `GdVerif/Proto/Master.lean`.  SPEC: `GdVerif/Spec/Master.lean` — a reference reader of the
  Master Server Query Protocol request grammar.
-/
open Gd Gd.Master

/-- The request datagram, read back by the reference grammar, denotes exactly the region, the seed
address `ip:port` and the filters of each group, each as the key/value pair the protocol defines
for it — for ANY iteration order of the three hash maps (the groups are arbitrary lists here, so
every permutation is covered), any region byte and any seed. -/
theorem C16_request_denotes (region : Nat) (hr : region < 256) (ip : Bytes) (hip : (0 : UInt8) ∉ ip) (port : Nat)
    (P A O : FMap) (hP : ∀ f ∈ P, f.WF) (hA : ∀ f ∈ A, f.WF) (hO : ∀ f ∈ O, f.WF)
    (hAl : A.length < 2 ^ 64) (hOl : O.length < 2 ^ 64) :
    Spec.parse (constructPayload region (toBytesOrdered P A O) ip port)
      = some ⟨region, ip ++ [58] ++ natDec port, P.filterMap Filter.kv, A.filterMap Filter.kv, O.filterMap Filter.kv⟩ := by
  obtain ⟨fstr, hfb, hnul, hparse⟩ := parseFilter_toBytes P A O hP hA hO hAl hOl
  have hseed : (0 : UInt8) ∉ ip ++ [58] ++ natDec port := by
    simp only [List.mem_append, List.mem_singleton, not_or]
    exact ⟨⟨hip, by decide⟩, (clean_natDec port).2⟩
  unfold constructPayload
  rw [hfb]
  have hshape : [0x31] ++ [UInt8.ofNat region] ++ ip ++ [58] ++ natDec port ++ [0] ++ (fstr ++ [0])
      = 0x31 :: UInt8.ofNat region :: ((ip ++ [58] ++ natDec port) ++ 0 :: (fstr ++ 0 :: [])) := by
    simp [List.append_assoc]
  rw [hshape]
  simp only [Spec.parse]
  rw [untilNul_append _ _ hseed]
  simp only
  rw [untilNul_append _ _ hnul]
  simp only [List.isEmpty_nil, Bool.not_true, Bool.false_eq_true, ↓reduceIte, hparse, Option.map_some]
  have : (UInt8.ofNat region).toNat = region := by simp [UInt8.toNat_ofNat', Nat.mod_eq_of_lt hr]
  rw [this]

/-- The absent filter set (`None`) is the empty filter string. -/
theorem C16_no_filters (region : Nat) (hr : region < 256) (ip : Bytes) (hip : (0 : UInt8) ∉ ip) (port : Nat) :
    Spec.parse (constructPayload region (filterBytesOf none) ip port)
      = some ⟨region, ip ++ [58] ++ natDec port, [], [], []⟩ := by
  have := C16_request_denotes region hr ip hip port [] [] [] (by simp) (by simp) (by simp) (by simp) (by simp)
  simpa [filterBytesOf, toBytesOrdered, specialToBytes] using this

/-! ### insertion: a later filter of the same kind replaces the earlier one, per group -/

/-- inserting keeps at most one filter per kind -/
theorem C16_insert_one_per_kind (m : FMap) (f : Filter) (h : (m.map Filter.kind).Nodup) :
    ((fmapInsert m f).map Filter.kind).Nodup := by
  induction m with
  | nil => simp [fmapInsert]
  | cons g r ih =>
    simp only [List.map_cons, List.nodup_cons] at h
    unfold fmapInsert
    split
    · rename_i hk
      simp only [beq_iff_eq] at hk
      simp only [List.map_cons, List.nodup_cons]
      exact ⟨by rw [← hk]; exact h.1, h.2⟩
    · rename_i hk
      simp only [beq_iff_eq] at hk
      simp only [List.map_cons, List.nodup_cons]
      refine ⟨?_, ih h.2⟩
      intro hm
      obtain ⟨x, hx, hxk⟩ := List.mem_map.mp hm
      -- x is either the new filter or an old one
      have : x = f ∨ x ∈ r := by
        clear ih h hm hxk
        induction r with
        | nil => simp [fmapInsert] at hx; exact Or.inl hx
        | cons y ys ihy =>
          unfold fmapInsert at hx
          split at hx
          · rcases List.mem_cons.mp hx with rfl | hx'
            · exact Or.inl rfl
            · exact Or.inr (by simp [hx'])
          · rcases List.mem_cons.mp hx with rfl | hx'
            · exact Or.inr (by simp)
            · rcases ihy hx' with h1 | h1
              · exact Or.inl h1
              · exact Or.inr (by simp [h1])
      rcases this with rfl | hxr
      · exact hk hxk.symm
      · exact h.1 (List.mem_map.mpr ⟨x, hxr, hxk⟩)

/-- after inserting `f`, the map holds `f`, and exactly the old filters of the other kinds -/
theorem C16_insert_replaces (m : FMap) (f g : Filter) (h : (m.map Filter.kind).Nodup) :
    g ∈ fmapInsert m f ↔ (g = f ∨ (g ∈ m ∧ g.kind ≠ f.kind)) := by
  induction m with
  | nil => simp [fmapInsert]
  | cons x r ih =>
    simp only [List.map_cons, List.nodup_cons] at h
    unfold fmapInsert
    split
    · rename_i hk
      simp only [beq_iff_eq] at hk
      simp only [List.mem_cons]
      constructor
      · rintro (rfl | hg)
        · exact Or.inl rfl
        · refine Or.inr ⟨Or.inr hg, ?_⟩
          intro hgk
          exact h.1 (List.mem_map.mpr ⟨g, hg, by rw [hgk, hk]⟩)
      · rintro (rfl | ⟨rfl | hg, hne⟩)
        · exact Or.inl rfl
        · exact absurd hk hne
        · exact Or.inr hg
    · rename_i hk
      simp only [beq_iff_eq] at hk
      simp only [List.mem_cons, ih h.2]
      constructor
      · rintro (rfl | rfl | ⟨hg, hne⟩)
        · exact Or.inr ⟨Or.inl rfl, hk⟩
        · exact Or.inl rfl
        · exact Or.inr ⟨Or.inr hg, hne⟩
      · rintro (rfl | ⟨rfl | hg, hne⟩)
        · exact Or.inr (Or.inl rfl)
        · exact Or.inl rfl
        · exact Or.inr (Or.inr ⟨hg, hne⟩)

/-- the three insertion methods touch exactly their own group -/
theorem C16_groups_independent (s : SearchFilters) (f : Filter) :
    (s.insert f).nand = s.nand ∧ (s.insert f).nor = s.nor ∧ (s.insert f).filters = fmapInsert s.filters f
    ∧ (s.insertNand f).filters = s.filters ∧ (s.insertNand f).nor = s.nor ∧ (s.insertNand f).nand = fmapInsert s.nand f
    ∧ (s.insertNor f).filters = s.filters ∧ (s.insertNor f).nand = s.nand ∧ (s.insertNor f).nor = fmapInsert s.nor f :=
  ⟨rfl, rfl, rfl, rfl, rfl, rfl, rfl, rfl, rfl⟩

-- non-vacuity: a concrete filter set (one filter per group, a replaced duplicate) is read back
example :
    let s := ((((SearchFilters.new.insert (.runsMap (asciiBytes "de_dust"))).insert (.runsMap (asciiBytes "cp_a"))).insertNand
      (.isSecured true)).insertNor (.runsAppID 730))
    Spec.parse (constructPayload 3 s.toBytes (asciiBytes "1.2.3.4") 27015)
      = some ⟨3, asciiBytes "1.2.3.4:27015", [(asciiBytes "map", asciiBytes "cp_a")],
          [(asciiBytes "secure", [49])], [(asciiBytes "appid", asciiBytes "730")]⟩ := by
  decide

/-! ### paging -/

/-- A reply page in the protocol's layout is decoded to exactly its entries (any number of them). -/
theorem C16_page_decodes (es : List Addr) (h : ∀ a ∈ es, WFAddr a) : parsePage.run (encPage es) = .ok es :=
  parsePage_encPage es h

/-- Complete paged query, for EVERY well-formed history of reply pages (any number of pages, each of
up to 232 entries; every non-final page non-empty and ending neither on the terminator nor on the
address it was seeded with; the final page ending with the terminator `0.0.0.0:0`, or empty):
the query returns all listed addresses in order without the terminator, sends exactly one request
per page, the first seeded with `0.0.0.0:0` and each follow-up with the last address of the previous
page, and stops. `rest` (whatever else the peer might still deliver) is left untouched. -/
theorem C16_paging_complete (region : Nat) (fs : Option SearchFilters) (h : History)
    (hfin : ∀ a ∈ h.final, WFAddr a) (hfl : h.final.length ≤ 231) (hnt : h.terminated = false → h.final = [])
    (hwf : wfPages zeroIp 0 h.pages) (rest : List Delivery) :
    query region fs (Net.init [.opened (h.pages.map (fun p => Delivery.data (encPage p))
        ++ .data (encPage h.finalPage) :: rest)] [])
      = (.ok (h.pages.flatten ++ h.final),
         world [] rest ([.opened 0 false masterPort false]
           ++ pagingLog region (filterBytesOf fs) (seedsFrom zeroIp 0 h.pages) (h.pages ++ [h.finalPage]))) := by
  unfold query
  simp only [bind, Q.bind', openSock, Net.init, List.length_nil, List.nil_append]
  have := pageLoop_history region (filterBytesOf fs) h.final h.terminated hfin hfl hnt h.pages zeroIp 0 []
    ((h.pages.map (fun p => Delivery.data (encPage p)) ++ .data (encPage h.finalPage) :: rest).length + 1)
    [] rest [.opened 0 false masterPort false] hwf (by simp; omega)
  simp only [History.finalPage, List.nil_append] at this ⊢
  simp only [world, msock] at this ⊢
  simpa using this

-- non-vacuity: a two-page history satisfies the hypotheses
example : wfPages zeroIp 0 [[((1, 2, 3, 4), 80), ((5, 6, 7, 8), 27015)]] := by
  refine ⟨by intro a ha; simp at ha; rcases ha with rfl | rfl <;> simp [WFAddr], by simp, ((5, 6, 7, 8), 27015), rfl, by decide, by decide, trivial⟩
