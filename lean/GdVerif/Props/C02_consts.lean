import GdVerif.Gen.Consts
import GdVerif.Lemmas.Consts
import GdVerif.Spec.Valve
/-
  C02 — the constants of the Valve reply parsers: SOURCE = MODEL = SPEC (tie by TRANSLATION, `Gd.Gen.Consts`).

  Server-type and environment letters (both layouts), the Extra Data Flag bits, the 24-bit app id of the game id, the
  engine special cases (The Ship 2400, protocol 7 / app 240 split header, Risk of Rain 2 `Test` rule), the split
  header byte, the compression bit and the decompression bound.  Where the model has the literal inline in a
  definition, the theorem is that definition's equation with the generated constant in its place (`rfl`: it holds
  exactly when the two literals agree).
-/
open Gd Gd.Gen Gd.ConstsAux

/-! ### server type / environment letters -/

set_option maxRecDepth 8192 in
/-- `Server::from_gldsrc`: the model accepts exactly the source's letters (and, as the source lower-cases first, their
upper-case forms) with the same variants -/
theorem C02_consts_valve_server_letters :
    (graph Valve.serverFromGldsrc serverTypeName).filter (fun p => isLower p.1) = Consts.valve_server_from_gldsrc
    ∧ ∀ n ∈ List.range 256, Valve.serverFromGldsrc n = Valve.serverFromGldsrc (Valve.asciiLowerNat n) := by
  decide

set_option maxRecDepth 8192 in
/-- `Environment::from_gldsrc` (`l`, `w`, `m` or `o`) -/
theorem C02_consts_valve_environment_letters :
    (graph Valve.environmentFromGldsrc environmentName).filter (fun p => isLower p.1) = Consts.valve_environment_from_gldsrc
    ∧ ∀ n ∈ List.range 256, Valve.environmentFromGldsrc n = Valve.environmentFromGldsrc (Valve.asciiLowerNat n) := by
  decide

/-- the obsolete GoldSrc layout: `68 / 76 / 80`, `76 / 87`, no case folding -/
theorem C02_consts_valve_goldsrc_letters :
    graph Valve.goldServerType serverTypeName = Consts.valve_goldsrc_server_types
    ∧ graph Valve.goldEnvironment environmentName = Consts.valve_goldsrc_environments := by
  decide

/-- SPEC: the letters a server sends (either case / upper case in the obsolete layout) are the source's -/
theorem C02_consts_valve_spec_letters :
    (∀ t : Valve.ServerType, (Valve.Spec.serverTypeByte false t, serverTypeName t) ∈ Consts.valve_server_from_gldsrc
        ∧ (Valve.Spec.serverTypeByte true t, serverTypeName t) ∈ Consts.valve_goldsrc_server_types)
    ∧ (∀ t : Valve.Environment, (Valve.Spec.environmentByte false t, environmentName t) ∈ Consts.valve_environment_from_gldsrc)
    ∧ (∀ t : Valve.Environment, t ≠ .mac →
        (Valve.Spec.environmentByte true t, environmentName t) ∈ Consts.valve_goldsrc_environments) := by
  refine ⟨fun t => ?_, fun t => ?_, fun t h => ?_⟩
  · cases t <;> decide
  · cases t <;> decide
  · cases t
    · decide
    · decide
    · exact absurd rfl h

/-! ### Extra Data Flag -/

/-- SPEC: the flag byte of a block with exactly one of the fields (the SourceTV name shares the port's flag) -/
theorem C02_consts_valve_edf_spec :
    [("port", Valve.Spec.edf ⟨some 0, none, none, none, none, none⟩),
     ("steam_id", Valve.Spec.edf ⟨none, some 0, none, none, none, none⟩),
     ("tv_port", Valve.Spec.edf ⟨none, none, some 0, some [], none, none⟩),
     ("tv_name", Valve.Spec.edf ⟨none, none, some 0, some [], none, none⟩),
     ("keywords", Valve.Spec.edf ⟨none, none, none, none, some [], none⟩),
     ("game_id", Valve.Spec.edf ⟨none, none, none, none, none, some 0⟩)] = Consts.valve_edf_flags := by
  decide

/-- MODEL: `parseExtra` is its definition with the source's flags and the source's app-id mask -/
theorem C02_consts_valve_edf_model (appid : Nat) :
    Valve.parseExtra appid = fun b =>
      match readU8 b with
      | .err _ => .ok ((none, appid), b)
      | .crash => .crash
      | .ok (value, b) =>
        (do
          let port ← Valve.readIf (value &&& num Consts.valve_edf_flags "port" > 0) (readUnsigned .little 2)
          let steamId ← Valve.readIf (value &&& num Consts.valve_edf_flags "steam_id" > 0) (readUnsigned .little 8)
          let tvPort ← Valve.readIf (value &&& num Consts.valve_edf_flags "tv_port" > 0) (readUnsigned .little 2)
          let tvName ← Valve.readIf (value &&& num Consts.valve_edf_flags "tv_name" > 0) readCStr
          let keywords ← Valve.readIf (value &&& num Consts.valve_edf_flags "keywords" > 0) readCStr
          let gameId ← Valve.readIf (value &&& num Consts.valve_edf_flags "game_id" > 0) (readUnsigned .little 8)
          let appid' := match gameId with
            | some gid => gid &&& (2 ^ Consts.valve_appid_mask_bits - 1)
            | none => appid
          pure (some (Valve.ExtraData.mk port steamId tvPort tvName keywords gameId), appid')) b := by
  have h : num Consts.valve_edf_flags "port" = 0x80 ∧ num Consts.valve_edf_flags "steam_id" = 0x10
      ∧ num Consts.valve_edf_flags "tv_port" = 0x40 ∧ num Consts.valve_edf_flags "tv_name" = 0x40
      ∧ num Consts.valve_edf_flags "keywords" = 0x20 ∧ num Consts.valve_edf_flags "game_id" = 0x01
      ∧ Consts.valve_appid_mask_bits = 24 := by decide
  obtain ⟨h1, h2, h3, h4, h5, h6, h7⟩ := h
  rw [h1, h2, h3, h4, h5, h6, h7]
  rfl

/-! ### engine special cases -/

/-- The Ship: `Engine::new(2400)` at the three places that read its extra fields -/
theorem C02_consts_valve_the_ship (engine : Valve.Engine) :
    Consts.valve_the_ship_appids = [2400, 2400, 2400]
    ∧ Valve.parsePlayer engine = (do
        moveCursor 1
        let name ← readCStr
        let score ← readSigned .little 4
        let duration ← readUnsigned .little 4
        let deaths ← Valve.readIf (engine == Valve.Engine.new (Consts.valve_the_ship_appids.getD 1 0)) (readUnsigned .little 4)
        let money ← Valve.readIf (engine == Valve.Engine.new (Consts.valve_the_ship_appids.getD 2 0)) (readUnsigned .little 4)
        pure ⟨name, score, duration, deaths, money⟩) := ⟨by rfl, rfl⟩

/-- … and in the info reply: mode, witnesses, duration are read exactly for that engine (a minimal reply, engines
around the source's id) -/
theorem C02_consts_valve_the_ship_info :
    ∀ d ∈ [0, 1, 2], ∀ tail ∈ [[], [7, 8, 9]],
      resMap (fun i => i.theShip.isSome)
        ((Valve.parseSourceInfo (Valve.Engine.new (Consts.valve_the_ship_appids.getD 0 0 + d - 1))).run
          ([17, 0, 0, 0, 0, 0, 0, 1, 2, 0, 100, 108, 0, 0] ++ tail ++ [0]))
        = (if d = 1 then (if tail = [] then .err .packetUnderflow else .ok true) else .ok false) := by
  decide

/-- protocol 7 + app 240: no size field in the split header (1248 assumed); bit 31 of the id = compressed -/
theorem C02_consts_valve_split_packet (engine : Valve.Engine) (protocol : Nat) :
    Valve.splitPacketNew engine protocol = (do
      let header ← readUnsigned .little 4
      let id ← readUnsigned .little 4
      match engine with
      | .goldSrc _ => do
        let b ← readU8
        let (lower, upper) := lowerUpper b
        let payload ← remainingBytes
        pure ⟨header, id, lower, upper, 0, none, payload⟩
      | .source _ => do
        let total ← readU8
        let number ← readU8
        let size ← (if protocol == Consts.valve_css_protocol && engine == Valve.Engine.new Consts.valve_css_appid
                    then pure Consts.valve_css_split_size else readUnsigned .little 2 : Par Nat)
        let isCompressed := (id >>> Consts.valve_compressed_bit) &&& 1 == 1
        let decompressed ← Valve.readIf (isCompressed && number == 0) (do
            let a ← readUnsigned .little 4
            let b ← readUnsigned .little 4
            pure (a, b))
        let payload ← remainingBytes
        pure ⟨header, id, total, number, size, decompressed, payload⟩) := rfl

/-- SPEC: which split headers carry the size field, and the size written there -/
theorem C02_consts_valve_spec_split (engine : Valve.Engine) (protocol id total number : Nat) (chunk : Bytes) :
    Valve.Spec.withSize engine protocol
      = !(protocol == Consts.valve_css_protocol && engine == Valve.Engine.new Consts.valve_css_appid)
    ∧ Valve.Spec.sourceFragment true id total number chunk
      = Valve.Spec.splitHeader ++ Valve.Spec.le 4 id ++ Valve.Spec.u8 total ++ Valve.Spec.u8 number
        ++ Valve.Spec.le 2 Consts.valve_css_split_size ++ chunk := ⟨rfl, rfl⟩

/-- SPEC: compressed transports are the ids with that bit set -/
theorem C02_consts_valve_spec_compressed_bit :
    Valve.Spec.wfTransport (.source none) (.sourceSplitBz (2 ^ Consts.valve_compressed_bit) [] [] 0) = true
    ∧ Valve.Spec.wfTransport (.source none) (.sourceSplitBz (2 ^ Consts.valve_compressed_bit - 1) [] [] 0) = false
    ∧ Valve.Spec.wfTransport (.source none) (.sourceSplit (2 ^ Consts.valve_compressed_bit - 1) []) = true
    ∧ Valve.Spec.wfTransport (.source none) (.sourceSplit (2 ^ Consts.valve_compressed_bit) []) = false := by
  decide

/-- `if header == 0xFE`: the first byte of a split packet; every receive into `PACKET_SIZE` bytes -/
theorem C02_consts_valve_split_header (ext : Valve.Ext) (s : Sock) (engine : Valve.Engine) (protocol : Nat) :
    Valve.receive ext s engine protocol = (do
      let data ← recv s (some Consts.valve_packet_size)
      let header ← parse readU8 data
      if header == Consts.valve_split_header then do
        let first ← parse (Valve.splitPacketNew engine protocol) data
        let rest ← Valve.recvChunks s engine protocol (first.total - 1)
        let payload ← Q.lift (Valve.assemble ext (Valve.sortChunks (first :: rest)))
        parse Valve.packetFromBuffer payload
      else parse Valve.packetFromBuffer data)
    ∧ Valve.Spec.splitHeader.head? = some (UInt8.ofNat Consts.valve_split_header) := ⟨rfl, by decide⟩

/-- Risk of Rain 2 (`Engine::new(632_360)`): the rule `Test` is dropped — MODEL and SPEC -/
theorem C02_consts_valve_ror2 (engine : Valve.Engine) (rs : Valve.Rules) :
    Valve.parseRules engine = (do
      let count ← readUnsigned .little 2
      let pairs ← repeatN Valve.parseRule count
      let rules := pairs.foldl (fun m p => Valve.mapInsert m p.1 p.2) []
      pure (if engine == Valve.Engine.new Consts.valve_ror2_appid
            then Valve.mapRemove rules (asciiBytes Consts.valve_ror2_removed_rule) else rules))
    ∧ Valve.Spec.expectedRules engine rs
      = (if engine == Valve.Engine.new Consts.valve_ror2_appid
         then rs.filter (fun p => p.1 != asciiBytes Consts.valve_ror2_removed_rule) else rs) := ⟨rfl, rfl⟩

/-- `MAX_DECOMPRESSED_SIZE` -/
theorem C02_consts_valve_max_decompressed_size : Valve.maxDecompressedSize = Consts.valve_max_decompressed_size := by
  decide

example : (graph Valve.goldServerType serverTypeName).length = 3 := by decide
example : Consts.valve_the_ship_appids.getD 0 0 + 1 - 1 = 2400 := by decide
