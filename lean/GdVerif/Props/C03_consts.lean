import GdVerif.Gen.Consts
import GdVerif.Lemmas.Consts
import GdVerif.Spec.Minecraft
/-
  C03 — the constants of the Minecraft reply parsers: SOURCE = MODEL = SPEC (tie by TRANSLATION).

  Bedrock: reply id, nonce and magic words, the index of each response field in the status string, the game-mode
  names; legacy: reply id, the 1.6 marker, the version texts of the groups without a version field.
  `Gd.Gen.Consts.*` is regenerated from games/minecraft/** on every run.
-/
open Gd Gd.Gen Gd.ConstsAux

/-- `GameMode::from_bedrock`: the five names, each giving its variant; anything else is rejected by the same test -/
theorem C03_consts_mc_bedrock_game_modes :
    Consts.mc_bedrock_game_modes.map (fun p => resMap mcGameModeName (Mc.GameMode.fromBedrock (asciiBytes p.1)))
      = Consts.mc_bedrock_game_modes.map (fun p => .ok p.2)
    ∧ (Consts.mc_bedrock_game_modes.map (·.2)).length = 5 ∧ (Consts.mc_bedrock_game_modes.map (·.2)).Nodup
    ∧ Mc.GameMode.fromBedrock (asciiBytes "survival") = .err .unknownEnumCast := by decide

/-- SPEC: the name a server writes for a game mode is the source's for that variant -/
theorem C03_consts_mc_bedrock_spec_game_modes (g : Mc.GameMode) :
    (Mc.Spec.gameModeName g, mcGameModeName g) ∈ Consts.mc_bedrock_game_modes.map (fun p => (asciiBytes p.1, p.2)) := by
  cases g <;> decide

/-- `get_info_impl`: `0x1c`, the nonce, 8 bytes skipped, the two magic words -/
theorem C03_consts_mc_bedrock_reply_checks :
    Mc.bedrockParse = (do
      let t ← readU8
      if t != num Consts.mc_bedrock_reply_checks "id" then Par.fail .packetBad
      else do
        let nonce ← readUnsigned .little 8
        if nonce != num Consts.mc_bedrock_reply_checks "nonce" then Par.fail .packetBad
        else do
          moveCursor (num Consts.mc_bedrock_reply_checks "server_id_skip" : Nat)
          let m1 ← readUnsigned .little 8
          if m1 != num Consts.mc_bedrock_reply_checks "magic_low" then Par.fail .packetBad
          else do
            let m2 ← readUnsigned .little 8
            if m2 != num Consts.mc_bedrock_reply_checks "magic_high" then Par.fail .packetBad
            else do
              let remainingLen ← Mc.bedrockLength
              Mc.bedrockBody remainingLen) := by
  have h : num Consts.mc_bedrock_reply_checks "id" = 0x1c
      ∧ num Consts.mc_bedrock_reply_checks "nonce" = 9833440827789222417
      ∧ num Consts.mc_bedrock_reply_checks "server_id_skip" = 8
      ∧ num Consts.mc_bedrock_reply_checks "magic_low" = 18374403896610127616
      ∧ num Consts.mc_bedrock_reply_checks "magic_high" = 8671175388723805693 := by decide
  obtain ⟨h1, h2, h3, h4, h5⟩ := h
  rw [h1, h2, h3, h4, h5]
  rfl

/-- the nonce and the magic the client checks are the ones it sent (time stamp and RakNet magic of the request) and
the SPEC's -/
theorem C03_consts_mc_bedrock_magic :
    natLE 8 (num Consts.mc_bedrock_reply_checks "nonce") = Mc.Spec.clientTime
    ∧ natLE 8 (num Consts.mc_bedrock_reply_checks "magic_low") ++ natLE 8 (num Consts.mc_bedrock_reply_checks "magic_high")
        = Mc.Spec.raknetMagic
    ∧ (Consts.mc_bedrock_request.drop 1).take 8 = Mc.Spec.clientTime
    ∧ ((Consts.mc_bedrock_request.drop 9).take 16) = Mc.Spec.raknetMagic := by decide

/-- the status string: at least 6 fields; field `i` of `edition;name;protocol;version;online;max;id;map;mode` goes to
the response field the source takes `status[i]` for (a status with the numbers 0 … 8 in its fields) -/
theorem C03_consts_mc_bedrock_field_indices :
    num Consts.mc_bedrock_reply_checks "min_fields" = 6
    ∧ Mc.bedrockStatus (asciiBytes "a;b;c;d;4;5") = .ok
        { edition := asciiBytes "a", name := asciiBytes "b", versionName := asciiBytes "d", protocolVersion := asciiBytes "c",
          playersMaximum := 5, playersOnline := 4, id := none, map := none, gameMode := none, serverType := .bedrock }
    ∧ Mc.bedrockStatus (asciiBytes "a;b;c;d;4") = .err .packetBad
    ∧ Consts.mc_bedrock_field_indices
      = [("edition", 0), ("name", 1), ("version_name", 3), ("protocol_version", 2), ("players_maximum", 5),
         ("players_online", 4), ("id", 6), ("map", 7), ("game_mode", 8)]
    ∧ resMap (fun r => (r.id, r.map, r.gameMode)) (Mc.bedrockStatus (asciiBytes "a;b;c;d;4;5;six;seven;Creative"))
      = .ok (some (asciiBytes "six"), some (asciiBytes "seven"), some .creative) := by decide

/-- legacy replies start with `0xFF` -/
theorem C03_consts_mc_legacy_reply_id (dataLen : Nat) :
    Mc.legacyHeader dataLen = (do
      let t ← readU8
      if t != num Consts.mc_legacy_reply_ids "v1_6" then Par.fail .protocolFormat
      else do
        let l ← readUnsigned .big 2
        let length := l * 2
        Par.lift (errorByExpectedSize (length + 3) dataLen))
    ∧ Consts.mc_legacy_reply_ids.map (·.2) = List.replicate 3 (num Consts.mc_legacy_reply_ids "v1_6") := ⟨rfl, by decide⟩

/-- the 1.6 marker `§1\0` (UTF-16BE) -/
theorem C03_consts_mc_legacy16_marker : Mc.marker16 = Consts.mc_legacy16_marker := by decide

/-- the version texts of the 1.4 and beta 1.8 groups -/
theorem C03_consts_mc_legacy_versions (dataLen : Nat) :
    Mc.legacy14Parse dataLen = (do
      Mc.legacyHeader dataLen
      let is16 ← Mc.isProtocol16
      if is16 then Mc.legacy16Response
      else Mc.legacySplitResponse .v1_4 (asciiBytes ((Consts.mc_legacy_versions.lookup "v1_4").getD "")))
    ∧ Mc.legacyB18Parse dataLen = (do
      Mc.legacyHeader dataLen
      Mc.legacySplitResponse .vb1_8 (asciiBytes ((Consts.mc_legacy_versions.lookup "vb1_8").getD "")))
    ∧ Consts.mc_legacy_versions.map (·.1) = ["v1_4", "vb1_8"] := by
  have h : (Consts.mc_legacy_versions.lookup "v1_4").getD "" = "1.4+"
      ∧ (Consts.mc_legacy_versions.lookup "vb1_8").getD "" = "Beta 1.8+" := by decide
  rw [h.1, h.2]
  exact ⟨rfl, rfl, by decide⟩

example : Consts.mc_bedrock_game_modes.length = 5 := by decide
