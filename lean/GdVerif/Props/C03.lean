import GdVerif.Lemmas.McUnits
/-
  C03 — Minecraft status replies decode exactly; auto-detect order holds.

  MODEL: `GdVerif/Proto/Minecraft.lean` (+ `McCodec.lean`, `Buffer.lean`, `Net.lean`).
  SPEC:  `GdVerif/Spec/Minecraft.lean` (encoders written from the protocol documentation).

  For EVERY well-formed status (all strings, all `u32` counts, all `i32` protocol numbers, 6-9+ Bedrock
  fields, every retry count and port) the matching query, run against what a conforming server sends
  for that status, returns exactly the expected response.  `serde_json` is a parameter: the Java theorem
  holds for every `ext` and every JSON text `text` such that `ext.parseJson text` is a document that
  represents the status (`Spec.Represents`: the documented members have the status's values — member
  order, unknown members and `null`-vs-absent do not matter); the correspondence check compares the
  driver's instance of `ext` with the real crate on every run.
-/
open Gd Gd.Mc Gd.Mc.Spec

/-! ### the property theorems -/

/-- Bedrock: every well-formed status (6-9+ fields, any text without `;`, `u32` counts, every game mode) sent as
an unconnected pong is returned exactly. -/
theorem C03_bedrock (st : BedrockStatus) (h : wfBedrock st = true) (port retries : Nat) :
    (queryBedrock port retries (Net.init [.opened [.data (unconnectedPong clientTime st)]] [])).1
      = .ok (expectedBedrock st) := by
  rw [bedrock_answered st h port retries _ [] [] rfl rfl]

/-- Legacy 1.6: `§1\0protocol\0version\0motd\0online\0max` in a kick packet is returned exactly. -/
theorem C03_legacy16 (st : Legacy16Status) (h : wf16 st = true) (port retries : Nat) :
    (queryLegacySpecific .v1_6 port retries (Net.init [.opened [.data (kick16 st)]] [])).1 = .ok (expected16 st) := by
  rw [legacy_answered .v1_6 _ _ (decodesEnd_legacy16 st h .v1_6 (Or.inl rfl)) port retries _ [] [] rfl rfl]

/-- Legacy 1.4: `motd§online§max` is returned exactly (version name `1.4+`, protocol -1). -/
theorem C03_legacy14 (st : LegacyOldStatus) (h : wfOld st = true) (port retries : Nat) :
    (queryLegacySpecific .v1_4 port retries (Net.init [.opened [.data (kickOld st)]] [])).1 = .ok (expectedOld .v1_4 st) := by
  rw [legacy_answered .v1_4 _ _ (decodesEnd_legacy14 st h) port retries _ [] [] rfl rfl]

/-- A 1.6 server answers the 1.4 ping (`FE 01`) in the 1.6 format: the 1.4 query returns the 1.6 status,
labelled 1.6. -/
theorem C03_legacy14_answered_in_16_format (st : Legacy16Status) (h : wf16 st = true) (port retries : Nat) :
    (queryLegacySpecific .v1_4 port retries (Net.init [.opened [.data (kick16 st)]] [])).1 = .ok (expected16 st) := by
  rw [legacy_answered .v1_4 _ _ (decodesEnd_legacy16 st h .v1_4 (Or.inr rfl)) port retries _ [] [] rfl rfl]

/-- Legacy beta 1.8: `motd§online§max` is returned exactly (version name `Beta 1.8+`, protocol -1). -/
theorem C03_legacyb18 (st : LegacyOldStatus) (h : wfOld st = true) (port retries : Nat) :
    (queryLegacySpecific .vb1_8 port retries (Net.init [.opened [.data (kickOld st)]] [])).1 = .ok (expectedOld .vb1_8 st) := by
  rw [legacy_answered .vb1_8 _ _ (decodesEnd_legacyB18 st h) port retries _ [] [] rfl rfl]

/-- Java: for every JSON crate behaviour `ext`, every status `st` and every JSON text `text` that the crate
parses to a document representing `st`, the status response (followed by anything the server still writes)
is returned exactly; `description` is the crate's compact rendering of the `description` member. -/
theorem C03_java (ext : Ext) (st : JavaStatus) (text trailing : Bytes) (j : Json)
    (hparse : ext.parseJson text = some j) (hrep : Represents j st) (hwf : wfJava st text = true)
    (port retries : Nat) (rs : RequestSettings) (hh : rs.hostname.length < 2 ^ 31) :
    (queryJava ext port rs retries (Net.init [.opened [.data (statusResponse text trailing)]] [])).1
      = .ok (expectedJava ext st) := by
  rw [java_answered ext text trailing j st hparse hrep hwf port retries rs hh _ [] [] rfl rfl]

/-- The documented status document itself represents the status (so the hypothesis of `C03_java` is satisfiable by
any parser that reads back the document a server writes). -/
theorem C03_java_document_represents (st : JavaStatus) : Represents (statusJson st) st := by
  have players : ∀ ps : List Player, RepresentsPlayers (ps.map playerJson) ps := by
    intro ps
    induction ps with
    | nil => exact .nil
    | cons p r ih => exact .cons ⟨rfl, rfl⟩ ih
  obtain ⟨vn, pr, mx, on, sample, desc, fav, pc, esc⟩ := st
  cases sample <;> cases fav <;> cases pc <;> cases esc <;>
    exact ⟨rfl, rfl, rfl, rfl, by first | rfl | exact ⟨_, rfl, players _⟩, rfl, rfl, rfl, rfl⟩

/-- In particular: a crate that parses `text` to the documented status document (the law `parseJson (render j) = some j`
instantiated at the document a server renders) makes the Java query return the status exactly. -/
theorem C03_java_canonical (ext : Ext) (st : JavaStatus) (text trailing : Bytes)
    (hlaw : ext.parseJson text = some (statusJson st)) (hwf : wfJava st text = true)
    (port retries : Nat) (rs : RequestSettings) (hh : rs.hostname.length < 2 ^ 31) :
    (queryJava ext port rs retries (Net.init [.opened [.data (statusResponse text trailing)]] [])).1
      = .ok (expectedJava ext st) :=
  C03_java ext st text trailing _ hlaw (C03_java_document_represents st) hwf port retries rs hh

/-- Auto-detect, over all 32 subsets of variants a server speaks (`w.java`, `w.bedrock`, `w.v16`, `w.v14`,
`w.vb18` each present or absent) and every way the variants not spoken fail (`Mute`): the result is the
expected response of the FIRST variant spoken in the order Java, Bedrock, 1.6, 1.4, beta 1.8, labelled with that
variant; `AutoQuery` iff none is spoken; and the sockets opened are exactly the prefix of [tcp, udp, tcp, tcp, tcp] up
to that variant. -/
theorem C03_auto (ext : Ext) (w : World) (hwf : w.wf = true) (port retries : Nat) (rs : RequestSettings)
    (hh : rs.hostname.length < 2 ^ 31)
    (hjson : ∀ st text, w.java = some (st, text) → ∃ j, ext.parseJson text = some j ∧ Represents j st) :
    (queryAuto ext port rs retries (Net.init w.script [])).1 = w.expected ext
    ∧ opens (queryAuto ext port rs retries (Net.init w.script [])).2.log = w.opened := by
  obtain ⟨java, bedrock, v16, v14, vb18, mj, mb, m16, m14, mb18⟩ := w
  simp only [World.wf, Bool.and_eq_true] at hwf
  obtain ⟨⟨⟨⟨hwj, hwb⟩, hw16⟩, hw14⟩, hwb18⟩ := hwf
  simp only [World.script, World.expected, World.opened]
  generalize hw0 : Net.init _ [] = w0
  have hf0 : w0.faults = [] := by rw [← hw0]; rfl
  have hl0 : opens w0.log = [] := by rw [← hw0]; rfl
  have hp0 : w0.pending = [connOf mj (java.map fun p => statusResponse p.2 []), connOf mb (bedrock.map (unconnectedPong clientTime)),
      connOf m16 (v16.map kick16), connOf m14 (v14.map kickOld), connOf mb18 (vb18.map kickOld)] := by rw [← hw0]; rfl
  unfold queryAuto
  -- Java
  cases java with
  | some p =>
    obtain ⟨js, text⟩ := p
    obtain ⟨j, hparse, hrep⟩ := hjson js text rfl
    obtain ⟨w1, h1, a1⟩ := java_answered' ext text j js hparse hrep (by simpa using hwj) port retries rs hh w0 _ hp0 hf0
    rw [orElse_ok h1]
    exact ⟨rfl, by simp [a1.opened, hl0]⟩
  | none =>
  obtain ⟨e1, w1, h1, a1⟩ := java_mute ext mj port retries rs hh w0 _ hp0 hf0
  rw [orElse_err h1]
  -- Bedrock
  cases bedrock with
  | some st =>
    obtain ⟨w2, h2, a2⟩ := bedrock_answered' st (by simpa using hwb) port retries w1 _ a1.pending a1.faults
    rw [orElse_ok h2]
    exact ⟨rfl, by simp [a2.opened, a1.opened, hl0]⟩
  | none =>
  obtain ⟨e2, w2, h2, a2⟩ := bedrock_mute mb port retries w1 _ a1.pending a1.faults
  rw [orElse_err h2]
  unfold queryLegacy
  -- 1.6
  cases v16 with
  | some st =>
    obtain ⟨w3, h3, a3⟩ := legacy_answered' .v1_6 _ _ (decodesEnd_legacy16 st (by simpa using hw16) .v1_6 (Or.inl rfl))
      port retries w2 _ a2.pending a2.faults
    rw [orElse_ok (orElse_ok h3)]
    exact ⟨rfl, by simp [a3.opened, a2.opened, a1.opened, hl0]⟩
  | none =>
  obtain ⟨e3, w3, h3, a3⟩ := legacy_mute .v1_6 m16 port retries w2 _ a2.pending a2.faults
  -- 1.4
  cases v14 with
  | some st =>
    obtain ⟨w4, h4, a4⟩ := legacy_answered' .v1_4 _ _ (decodesEnd_legacy14 st (by simpa using hw14))
      port retries w3 _ a3.pending a3.faults
    rw [orElse_ok (by rw [orElse_err h3]; exact orElse_ok h4)]
    exact ⟨rfl, by simp [a4.opened, a3.opened, a2.opened, a1.opened, hl0]⟩
  | none =>
  obtain ⟨e4, w4, h4, a4⟩ := legacy_mute .v1_4 m14 port retries w3 _ a3.pending a3.faults
  -- beta 1.8
  cases vb18 with
  | some st =>
    obtain ⟨w5, h5, a5⟩ := legacy_answered' .vb1_8 _ _ (decodesEnd_legacyB18 st (by simpa using hwb18))
      port retries w4 _ a4.pending a4.faults
    rw [orElse_ok (by rw [orElse_err h3, orElse_err h4]; exact orElse_ok h5)]
    exact ⟨rfl, by simp [a5.opened, a4.opened, a3.opened, a2.opened, a1.opened, hl0]⟩
  | none =>
  obtain ⟨e5, w5, h5, a5⟩ := legacy_mute .vb1_8 mb18 port retries w4 _ a4.pending a4.faults
  have hleg : orElse (queryLegacySpecific .v1_6 port retries) id
      (orElse (queryLegacySpecific .v1_4 port retries) id
        (orElse (queryLegacySpecific .vb1_8 port retries) id (Q.fail .autoQuery))) w2 = (.err .autoQuery, w5) := by
    rw [orElse_err h3, orElse_err h4, orElse_err h5]; rfl
  rw [orElse_err hleg]
  exact ⟨rfl, by simp [Q.fail, a5.opened, a4.opened, a3.opened, a2.opened, a1.opened, hl0]⟩

/-! ### non-vacuity: the hypotheses are satisfiable by non-trivial objects -/

/-- a Bedrock status with all nine fields and two more, non-ASCII name -/
def exBedrock : BedrockStatus :=
  ⟨asciiBytes "MCPE", utf8Encode [0x44, 0xE9, 0x64, 0x1F600], asciiBytes "527", asciiBytes "1.19.1", 0, 4294967295,
   some (asciiBytes "13253860892328930865"), some (asciiBytes "Bedrock level"), some .adventure,
   [asciiBytes "1", asciiBytes "19132", []], [1, 2, 3, 4, 5, 6, 7, 8]⟩

example : wfBedrock exBedrock = true := by decide +kernel

/-- a 1.6 status with an astral character and a section sign in the MOTD -/
def ex16 : Legacy16Status := ⟨-2147483648, scalarsOf (asciiBytes "1.6.4"), [0x41, 0x1F600, 0xA7, 0x63], 4294967295, 0⟩
example : wf16 ex16 = true := by decide +kernel

def exOld : LegacyOldStatus := ⟨[0x41, 0x20AC, 0x10FFFF], 5, 20⟩
example : wfOld exOld = true := by decide +kernel

/-- a Java status with a chat-object description, sample players and all optional members -/
def exJava : JavaStatus :=
  ⟨asciiBytes "1.19.2", 760, 20, 1, some [⟨asciiBytes "Notch", asciiBytes "069a79f4-44e9-4726-a5be-fca90e38aaf5"⟩],
   .obj [(key "extra", .arr [.obj [(key "bold", .bool true), (key "text", .str (asciiBytes "hi"))]]), (key "text", .str [])],
   some (asciiBytes "data:image/png;base64,AAAA"), some false, some true⟩

/-- an instance of the JSON parameter that parses one text to the documented status document -/
def exExt : Ext := ⟨fun t => if t == asciiBytes "{}" then some (statusJson exJava) else none, fun _ => asciiBytes "<chat>"⟩

example : (queryJava exExt 25565 RequestSettings.default 2
    (Net.init [.opened [.data (statusResponse (asciiBytes "{}") [9, 1, 0, 0, 0, 0, 0, 0, 0, 0])]] [])).1
    = .ok (expectedJava exExt exJava) :=
  C03_java exExt exJava _ _ (statusJson exJava) rfl (C03_java_document_represents exJava) (by decide +kernel) 25565 2
    RequestSettings.default (by decide +kernel)

/-- a server that speaks Bedrock and beta 1.8 only; Java refused, the rest silent -/
def exWorld : World :=
  { java := none, bedrock := some exBedrock, v16 := none, v14 := none, vb18 := some exOld,
    muteJava := .refused, muteBedrock := .silent 0, mute16 := .silent 3, mute14 := .refused, muteB18 := .silent 1 }

example : (queryAuto exExt 19132 RequestSettings.default 1 (Net.init exWorld.script [])).1
      = .ok (JavaResponse.fromBedrock (expectedBedrock exBedrock))
    ∧ opens (queryAuto exExt 19132 RequestSettings.default 1 (Net.init exWorld.script [])).2.log = [true, false] :=
  C03_auto exExt exWorld (by decide +kernel) 19132 1 RequestSettings.default (by decide +kernel) (fun _ _ h => by cases h)
