import GdVerif.Spec.Minecraft
/-
  C03 — Minecraft status replies decode exactly; auto-detect order holds.  (theorems follow)
-/
open Gd Gd.Mc

/-- the first query that answers decides, and its answer is relabelled by `f` -/
theorem C03_orElse_first {α β : Type} (first : Q α) (f : α → β) (rest : Q β) (w w' : Net) (a : α)
    (h : first w = (.ok a, w')) : orElse first f rest w = (.ok (f a), w') := by
  simp [orElse, h]
