import GdVerif.Props.C14
import GdVerif.Lemmas.Dispatch
/-
  C14 for the whole dispatch — every arm of `games::query::query_with_timeout_and_extra_settings`
  (`Proto/Dispatch.lean`), over the GENERATED tables (`Gen.gameDefs`, `Gen.gameMods`: regenerated from
  games/definitions.rs and the game modules on every run, so every theorem below is re-checked against what
  the source says now).

  (a) generic path = the protocol's own query function with the row's parameters;
  (b) generic path = the game's module, derived from the table agreement `C14_tables_agree`;
  (c) destination port of every logged open / send.
  Eco's HTTP client is a parameter of the model: (a) and (b) hold for every behaviour of it, (c) for every
  behaviour that talks to the port it is given (`EcoSafe`).
-/
open Gd Gd.Dispatch Gd.Gen

/-! ### the tables, as far as the dispatch needs them -/

/-- Every row of both generated tables is modelled: every definition is a `Game` (a protocol arm of the dispatch
model), every module row is a `Module` (a kind of module of the model). -/
theorem C14_dispatch_rows_modelled :
    (gameDefs.all fun d => (Game.ofRow d).isSome) = true ∧ (gameMods.all fun m => (Module.ofRow m).isSome) = true := by
  decide

/-- The default ports in every module row are the ones the module's model applies: for the `game_query_mod!`
rows by construction, for the hand-written modules this compares the number the translator read in the module's
source (`port.unwrap_or(n)`, `port_or_java_default`, `port_or_bedrock_default`) with the literal of its model. -/
theorem C14_dispatch_module_ports : (gameMods.all modPortsOk) = true := by decide

/-- the arms that hand the optional port on to the game's own function -/
def ownsDefault : ProtoTag → Bool
  | .savage2 | .theShip | .ffow | .jc2m | .mindustry | .eco => true
  | _ => false

/-- Every definition of such an arm has the row of its hand-written module in the module table. -/
theorem C14_dispatch_own_module :
    (gameDefs.all fun d => !ownsDefault d.tag || gameMods.any fun m => sameGame d m && m.hand) = true := by
  decide

/-- what `C14_tables_agree` says about one pair of rows -/
theorem C14_dispatch_rows_agree {d m : GameRow} (hd : d ∈ gameDefs) (hm : m ∈ gameMods) (hs : sameGame d m = true) :
    rowsAgree d m = true := by
  have h := List.all_eq_true.mp (List.all_eq_true.mp C14_tables_agree d hd) m hm
  simp only [hs, Bool.not_true, Bool.false_or, Bool.and_eq_true] at h
  simp only [rowsAgree, Bool.and_eq_true]
  exact ⟨h.1.1.1.1, h.2⟩

/-- For every definition: when the arm hands the optional port on, the default its callee applies IS the row's
default port — derived from the table agreement and the module rows, not assumed. -/
theorem C14_dispatch_own_default {d : GameRow} (hd : d ∈ gameDefs) {game : Game} (hg : Game.ofRow d = some game)
    (p : Nat) (hp : ownDefaultPort game.protocol = some p) : p = d.port := by
  have hown : ownsDefault d.tag = true := by
    obtain ⟨did, dname, dport, dproto, dengine, dgather, du, dport2, dhand, dtag⟩ := d
    simp only [Game.ofRow, Option.map_eq_some_iff] at hg
    obtain ⟨proto, hproto, hgame⟩ := hg
    subst hgame
    cases dtag <;> simp only [protocolOf, Option.some.injEq, reduceCtorEq] at hproto <;> subst hproto <;>
      first | rfl | simp [ownDefaultPort] at hp
  have h := List.all_eq_true.mp C14_dispatch_own_module d hd
  simp only [hown, Bool.not_true, Bool.false_or, List.any_eq_true, Bool.and_eq_true] at h
  obtain ⟨m, hm, hs, hhand⟩ := h
  exact own_default_of_rows d m (C14_dispatch_rows_agree hd hm hs)
    (List.all_eq_true.mp C14_dispatch_module_ports m hm) hhand game hg p hp

/-! ### (a) generic path = protocol path -/

/-- For every row of the definitions table: the definition-driven query and the protocol's own query function
called with the row's parameters (the row's default port when none is given, its engine and request settings; the
caller's timeout and extra settings) are the same computation on EVERY transport state — same result, same log
(sockets, destination ports, request bytes in order, receives) — port given or omitted, any retry count, any extra
settings, any behaviour of the external decoders and of the HTTP client. -/
theorem C14_dispatch_generic_eq_protocol {d : GameRow} (hd : d ∈ gameDefs) {game : Game} (hg : Game.ofRow d = some game)
    (ext : Ext) (port : Option Nat) (timeout : Option Settings.Timeout) (extra : Option Extra) (w : Net) :
    generic ext game port timeout extra w
      = protocolQuery ext game.protocol game.requestSettings extra (port.getD d.port) timeout w := by
  have hdp : game.defaultPort = d.port := by
    simp only [Game.ofRow, Option.map_eq_some_iff] at hg
    obtain ⟨_, _, rfl⟩ := hg
    rfl
  rw [generic_eq_protocol ext game port timeout extra
    (fun _ p hp => (C14_dispatch_own_default hd hg p hp).trans hdp.symm), hdp]

/-- The same for ANY definition one could add to the table, as long as the default of an arm that hands the
optional port on is the definition's. -/
theorem C14_dispatch_generic_eq_protocol_any (ext : Ext) (game : Game) (port : Option Nat)
    (timeout : Option Settings.Timeout) (extra : Option Extra)
    (hport : port = none → ∀ p, ownDefaultPort game.protocol = some p → p = game.defaultPort) (w : Net) :
    generic ext game port timeout extra w
      = protocolQuery ext game.protocol game.requestSettings extra (port.getD game.defaultPort) timeout w := by
  rw [generic_eq_protocol ext game port timeout extra hport]

/-! ### (b) generic path = module path -/

/-- For every pair (definition row, module row) of the generated tables that belong to the same game: the
definition-driven query with no extra settings and default timeouts, seen through the documented conversion
(`game::Response::new_from_valve_response` for the Valve game modules, nothing otherwise), and the module's `query`
are the same computation on EVERY transport state, port given or omitted.  Derived from `C14_tables_agree`.
Two exclusions, both recorded findings: `battalion1944` (its module post-processes the rules), and the Minecraft
auto-detect function when the port is omitted (its Bedrock probe has its own default, see below). -/
theorem C14_dispatch_generic_eq_module {d m : GameRow} (hd : d ∈ gameDefs) (hm : m ∈ gameMods) (hs : sameGame d m = true)
    {game : Game} {mo : Module} (hg : Game.ofRow d = some game) (hmo : Module.ofRow m = some mo)
    (hb : mo ≠ .battalion1944) (port : Option Nat) (hauto : mo = .minecraft none → port ≠ none)
    (ext : Ext) (w : Net) :
    Games.mapQ Response.view (generic ext game port none none) w = moduleQuery ext mo port w := by
  rw [generic_eq_module ext d m (C14_dispatch_rows_agree hd hm hs) (List.all_eq_true.mp C14_dispatch_module_ports m hm)
    game mo hg hmo hb port (fun h1 h2 => absurd h2 (hauto h1))]

/-- Minecraft auto-detect, port omitted: the paths agree exactly when the module's Bedrock probe has the same
default as its other probes (`port2 = port` in the module's row) — which the generated row refutes. -/
theorem C14_dispatch_minecraft_auto_rows :
    (gameMods.all fun m => !(m.tag == .minecraft .auto) || !(m.port2 == m.port)) = true := by decide

/-! ### (c) destination port -/

/-- For every row of the definitions table, every script, fault vector, timeout and extra settings: every socket the
definition-driven query opens and every datagram / stream write it sends goes to the given port, or to the ROW's
default port when none is given — for all arms (for the arms that hand the port on, because their own default is
the row's: `C14_dispatch_own_default`). -/
theorem C14_dispatch_destination_port {d : GameRow} (hd : d ∈ gameDefs) {game : Game} (hg : Game.ofRow d = some game)
    (ext : Ext) (heco : EcoSafeFor ext game.protocol) (port : Option Nat) (timeout : Option Settings.Timeout)
    (extra : Option Extra) (script : List ConnScript) (faults : List Bool) :
    ∀ e ∈ (generic ext game port timeout extra (Net.init script faults)).2.log,
      match e with
      | .opened _ _ p _ => p = port.getD d.port
      | .send _ p _ _ => p = port.getD d.port
      | .recv _ _ _ => True := by
  have hdp : destPort game port = port.getD d.port := by
    have hdef : game.defaultPort = d.port := by
      simp only [Game.ofRow, Option.map_eq_some_iff] at hg
      obtain ⟨_, _, rfl⟩ := hg
      rfl
    unfold destPort
    cases hown : ownDefaultPort game.protocol with
    | none => simp [hdef]
    | some p => simp [C14_dispatch_own_default hd hg p hown]
  obtain ⟨_, added, hlog, hall⟩ := generic_logSafe ext game heco port timeout extra (Net.init script faults)
  intro e he
  rw [hlog] at he
  simp only [Net.init, List.nil_append] at he
  have := hall e he
  rw [hdp] at this
  cases e <;> exact this

/-! ### non-vacuity: concrete rows of the generated table -/

-- the rows are there, with the parameters the theorems use
example : (⟨"teamfortress2", "Team Fortress 2", 27015, "valve", "S:440", "ttT", true, 27015, false,
    .valve (.source 440 none) .try_ .try_ true⟩ : GameRow) ∈ gameDefs := by decide
example : (gameDefs.find? (·.id == "minecraft")).bind Game.ofRow
    = some ⟨25565, .proprietary (.minecraft none), valveIntoExtra Valve.Gather.default⟩ := by decide
example : (gameDefs.find? (·.id == "q3a")).bind Game.ofRow
    = some ⟨27960, .quake .three, valveIntoExtra Valve.Gather.default⟩ := by decide
example : (gameDefs.find? (·.id == "aapg")).bind Game.ofRow
    = some ⟨27020, .valve (Valve.Engine.new 203290), valveIntoExtra ⟨.enforce, .skip, true⟩⟩ := by decide
example : (gameMods.find? (·.id == "savage2")).bind Module.ofRow = some .savage2 := by decide
example : (gameMods.find? (·.id == "battalion1944")).bind Module.ofRow = some .battalion1944 := by decide
example : (gameMods.find? (·.id == "ut2004")).bind Module.ofRow = some (.unreal2 7778) := by decide

-- the extra-settings rule of the Valve arm: the caller's settings replace the definition's (aapg enforces players
-- and skips rules; a caller who sets nothing gets the protocol's defaults, not the definition's)
example (ext : Ext) (w : Net) :
    generic ext ⟨27020, .valve (Valve.Engine.new 203290), valveIntoExtra ⟨.enforce, .skip, true⟩⟩ none none
        (some ⟨none, none, none, none, none⟩) w
      = boxed .valve (Valve.query ext.valve 27020 (Valve.Engine.new 203290) Valve.Gather.default 0) w := rfl
example (ext : Ext) (w : Net) :
    generic ext ⟨27020, .valve (Valve.Engine.new 203290), valveIntoExtra ⟨.enforce, .skip, true⟩⟩ (some 1) none none w
      = boxed .valve (Valve.query ext.valve 1 (Valve.Engine.new 203290) ⟨.enforce, .skip, true⟩ 0) w := rfl

-- Savage 2, port omitted, a silent server: one datagram to the row's port 11235, whichever path
example (ext : Ext) :
    (generic ext ⟨11235, .proprietary .savage2, valveIntoExtra Valve.Gather.default⟩ none none none
      (Net.init [.opened [.silence]] [])).2.log
      = [.opened 0 false 11235 false, .send 0 11235 [0x01] false, .recv 0 none none] := rfl
example (ext : Ext) :
    (moduleQuery ext .savage2 none (Net.init [.opened [.silence]] [])).2.log
      = [.opened 0 false 11235 false, .send 0 11235 [0x01] false, .recv 0 none none] := rfl

/-! ### the two recorded findings, in the model -/

/-- the driver-independent stand-ins used by the closed examples below (no decoder, no HTTP client is reached) -/
def C14_dispatch_noExt : Ext :=
  ⟨⟨fun _ => none, fun _ => 0⟩, ⟨fun _ => none, fun _ => []⟩, fun _ _ _ => Q.fail .socketConnect⟩

/-- Minecraft auto-detect with the port omitted (finding `paths-differ:generic-vs-module:minecraft:port`): under the
same scripted server (Java stream closed at once, Bedrock silent, legacy refused / closed / refused) both paths fail
with `AutoQuery` after the same requests, but the generic path sends its Bedrock probe to the definition's port 25565
and the module to Bedrock's own default 19132. -/
theorem C14_dispatch_minecraft_auto_port_omitted :
    let script : List ConnScript := [.opened [], .opened [.silence, .silence], .refused, .opened [], .refused]
    let game : Game := ⟨25565, .proprietary (.minecraft none), valveIntoExtra Valve.Gather.default⟩
    ((generic C14_dispatch_noExt game none none none (Net.init script [])).2.log.filterMap fun e =>
        match e with | .opened _ false p _ => some p | _ => none) = [25565]
    ∧ ((moduleQuery C14_dispatch_noExt (.minecraft none) none (Net.init script [])).2.log.filterMap fun e =>
        match e with | .opened _ false p _ => some p | _ => none) = [19132] := by
  decide +kernel

/-- Battalion 1944 (finding `paths-differ:generic-vs-module:battalion1944:result`): the module is the generic path
of the `battalion1944` row followed by the `bat_*` rule overrides (`Battalion.applyOverrides`), which the generic
path does not have. -/
theorem C14_dispatch_battalion (ext : Ext) (port : Option Nat) (w : Net) :
    moduleQuery ext .battalion1944 port w
      = (generic ext ⟨7780, .valve (Valve.Engine.new 489940), valveIntoExtra Valve.Gather.default⟩ port none none
          >>= fun r => match r with
            | .valve v => Q.lift (Battalion.applyOverrides v) >>= fun v' => pure (.valveGame (Games.gameView v'))
            | other => pure other) w := by
  have h : valveQuery ext.valve (port.getD 7780) (Valve.Engine.new 489940)
      ((none.orElse fun _ => some (valveIntoExtra Valve.Gather.default)).map Extra.toValve) none
      = Valve.query ext.valve (port.getD Battalion.DEFAULT_PORT) Battalion.ENGINE Valve.Gather.default 0 := rfl
  simp only [moduleQuery, generic, boxed, Games.mapQ, Battalion.query, h, bind, Q.bind']
  cases Valve.query ext.valve (port.getD Battalion.DEFAULT_PORT) Battalion.ENGINE Valve.Gather.default 0 w with
  | mk res w' =>
    cases res with
    | ok a => cases hov : Battalion.applyOverrides a <;> simp [Q.lift, Q.bind', hov, pure, Q.pure']
    | err k => rfl
    | crash => rfl

example : (gameDefs.find? (·.id == "battalion1944")).bind Game.ofRow
    = some ⟨7780, .valve (Valve.Engine.new 489940), valveIntoExtra Valve.Gather.default⟩ := by decide

-- … and the overrides do change a response that carries `bat_*` rules
example :
    let r : Valve.Response := ⟨⟨17, [83], [109], [], [103], 489940, 1, 2, 0, .dedicated, .linux, false, true, none, [49], none, false, none⟩,
      none, some [(asciiBytes "bat_name_s", [78]), (asciiBytes "x", [121])]⟩
    (Battalion.applyOverrides r >>= fun v => pure (Games.gameView v)) ≠ Res.ok (Games.gameView r) := by
  decide

/-! ### the Valve-only model of `Proto/Games.lean` (theorems `C14_paths_agree`, `C14_destination_port`) is the Valve arm -/

theorem C14_dispatch_valve_arm (ext : Ext) (d : Games.ValveParams) (port : Option Nat) (retries : Nat) (w : Net) :
    generic ext ⟨d.port, .valve d.engine, valveIntoExtra d.gather⟩ port (some ⟨none, none, none, retries⟩) none w
      = boxed .valve (Games.genericQuery ext.valve d port retries) w
    ∧ moduleQuery ext (.valve d.port d.engine d.gather) port w
      = boxed .valveGame (Games.moduleQuery ext.valve d port) w :=
  ⟨rfl, rfl⟩

/-! ### the theorems instantiated on concrete rows of the generated tables -/

-- teamfortress2 (a `game_query_mod!` module): (b) with the port omitted
example (ext : Ext) (w : Net) :
    Games.mapQ Response.view
        (generic ext ⟨27015, .valve (Valve.Engine.new 440), valveIntoExtra Valve.Gather.default⟩ none none none) w
      = moduleQuery ext (.valve 27015 (Valve.Engine.new 440) Valve.Gather.default) none w :=
  C14_dispatch_generic_eq_module
    (d := ⟨"teamfortress2", "Team Fortress 2", 27015, "valve", "S:440", "ttT", true, 27015, false,
      .valve (.source 440 none) .try_ .try_ true⟩)
    (m := ⟨"teamfortress2", "Team Fortress 2", 27015, "valve", "S:440", "ttT", true, 27015, false,
      .valve (.source 440 none) .try_ .try_ true⟩)
    (by decide) (by decide) (by decide) (by decide) (by decide) (by decide) none (by decide) ext w

-- ut2004 (the definition is `unrealtournament2004`, the module `ut2004`: same display name), a port given
example (ext : Ext) (w : Net) :
    Games.mapQ Response.view (generic ext ⟨7778, .unreal2, valveIntoExtra Valve.Gather.default⟩ (some 7777) none none) w
      = moduleQuery ext (.unreal2 7778) (some 7777) w :=
  C14_dispatch_generic_eq_module
    (d := ⟨"unrealtournament2004", "Unreal Tournament 2004", 7778, "unreal2", "-", "-", true, 7778, false, .unreal2⟩)
    (m := ⟨"ut2004", "Unreal Tournament 2004", 7778, "unreal2", "-", "-", true, 7778, false, .unreal2⟩)
    (by decide) (by decide) (by decide) (by decide) (by decide) (by decide) (some 7777) (by decide) ext w

-- savage2 (hand-written module, the arm hands the optional port on): (a) with the port omitted goes to the row's 11235,
-- (c) for any script
example (ext : Ext) (w : Net) :
    generic ext ⟨11235, .proprietary .savage2, valveIntoExtra Valve.Gather.default⟩ none none none w
      = boxed .savage2 (Savage2.query 11235) w :=
  C14_dispatch_generic_eq_protocol
    (d := ⟨"savage2", "Savage 2", 11235, "prop:Savage2", "-", "-", true, 11235, false, .savage2⟩)
    (by decide) (by decide) ext none none none w

example (ext : Ext) (script : List ConnScript) (faults : List Bool) :
    ∀ e ∈ (generic ext ⟨25565, .proprietary (.minecraft (some .java)), valveIntoExtra Valve.Gather.default⟩ none
        (some ⟨none, none, none, 3⟩) (some ⟨some [0x6D, 0x63], some 47, none, none, none⟩) (Net.init script faults)).2.log,
      match e with
      | .opened _ _ p _ => p = 25565
      | .send _ p _ _ => p = 25565
      | .recv _ _ _ => True :=
  C14_dispatch_destination_port
    (d := ⟨"minecraftjava", "Minecraft (java)", 25565, "prop:Minecraft(Some(Server::Java))", "-", "-", true, 25565, false,
      .minecraft .java⟩)
    (by decide) (by decide) ext (fun h => by cases h) none _ _ script faults
