import GdVerif.Lemmas.QuakeFaults
import GdVerif.Props.C05
/-
  C10 on WHOLE Quake 1 / 2 / 3 queries with faults injected.

  `Props/C10.lean` proves C10 for the combinator, `Props/C10_quake.lean` names the retried unit (the one status
  exchange).  Here the property is proved end to end for `Quake.query` against the SPEC's server (`Spec/Quake.lean`),
  on the scripts `props/families/quake.py: c10_build` injects: a plan (`Faults.Plan1`, `Spec/Faults.lean`) lists the
  attempts that end in a timeout-class failure — `false`: the request goes out and the reply is lost (a silence in the
  script), `true`: the request cannot be sent (a `true` in the send-fault vector) — and then the datagram that answers,
  if any.  `Plan1.deliveries` / `Plan1.faults` are the two arguments of `Net.init`; whatever follows them in the script
  and in the fault vector (`restQ`, `restF`) is arbitrary.  Quantified: version, state in the SPEC's domain, port, retry
  count, the failures.
-/
open Gd Gd.Quake Gd.Quake.Spec Gd.Faults

/-- THE GENERAL STATEMENT: for every plan in C10's domain (`Plan1.wf`: an answered unit had at most `retries` failures
before, a unit given up exactly `retries + 1`; the answer fits the 65535-byte receive buffer) whose answer, if rejected,
is rejected with an error that is not a timeout, the query's result is the plan's outcome — the header check and decoder
applied to the answer, or the last failure's error — and it sent the request exactly once per attempt of the plan. -/
theorem C10_quake_query_faulty (port retries : Nat) (v : Version) (p : Plan1) (hp : p.wf retries 65535 = true)
    (hcheck : ∀ d e, p.answer = some d → (stripHeader v).run d = .err e → e.isTimeout = false)
    (restQ : List Delivery) (restF : List Bool) :
    (Quake.query port v retries (Net.init [.opened (p.deliveries ++ restQ)] (p.faults ++ restF))).1
      = (p.outcome (stripHeader v).run >>= (parseBody v).run)
    ∧ sentOf (Quake.query port v retries (Net.init [.opened (p.deliveries ++ restQ)] (p.faults ++ restF))).2.log
      = p.sends (Spec.request v) :=
  query_faulty port retries v p hp hcheck restQ restF

/-- (a) RECOVERY.  `fails` (any number ≤ `retries`, each a lost reply or a failed send) precede the server's reply: the
query returns exactly `Spec.expected cfg st` — by `C05_query` the result with no faults —, and the request was sent
`fails.length + 1` times: once per failed attempt (flagged failed for a send fault) and once more. -/
theorem C10_quake_query_recovers (cfg : Config) (st : State) (hw : wf cfg st = true) (port retries : Nat)
    (fails : List Bool) (hk : fails.length ≤ retries) (restQ : List Delivery) (restF : List Bool) :
    let p := recovering cfg st fails
    let out := Quake.query port cfg.version retries (Net.init [.opened (p.deliveries ++ restQ)] (p.faults ++ restF))
    out.1 = expected cfg st
    ∧ sentOf out.2.log = fails.map (fun f => (Spec.request cfg.version, f)) ++ [(Spec.request cfg.version, false)]
    ∧ (sentOf out.2.log).length = fails.length + 1 := by
  intro p out
  have hlen : (reply cfg st).length ≤ 65535 := by
    simp only [wf, Bool.and_eq_true, decide_eq_true_eq] at hw
    exact hw.2
  have hp : p.wf retries 65535 = true := by
    simp [p, recovering, Plan1.wf, hk, hlen]
  obtain ⟨h1, h2⟩ := C10_quake_query_faulty port retries cfg.version p hp
    (fun d e hd he => by
      have : d = reply cfg st := by simpa [p, recovering] using hd.symm
      subst this
      rw [stripHeader_reply'] at he
      cases he) restQ restF
  have ho : (p.outcome (stripHeader cfg.version).run >>= (parseBody cfg.version).run) = expected cfg st := by
    simp only [p, recovering, Plan1.outcome, stripHeader_reply', Res.bind_ok]
    exact parseBody_body cfg st hw
  refine ⟨h1.trans ho, h2, ?_⟩
  show (sentOf out.2.log).length = _
  rw [show sentOf out.2.log = _ from h2]
  simp [p, recovering, Plan1.sends]

/-- (b) EXHAUSTION.  All `retries + 1` attempts end in a timeout-class failure: the query fails with the last attempt's
error — `PacketReceive`, or `PacketSend` when that attempt was a failed send (`C10_quake_last_error`) — after exactly
`retries + 1` requests, whatever the script still holds (`restQ`: for instance the reply the server would still send). -/
theorem C10_quake_query_exhausted (port retries : Nat) (v : Version) (fails : List Bool)
    (hk : fails.length = retries + 1) (restQ : List Delivery) (restF : List Bool) :
    let p : Plan1 := ⟨fails, none⟩
    let out := Quake.query port v retries (Net.init [.opened (p.deliveries ++ restQ)] (p.faults ++ restF))
    out.1 = .err (lastError attemptError fails)
    ∧ (out.1 = .err .packetReceive ∨ out.1 = .err .packetSend)
    ∧ sentOf out.2.log = fails.map (fun f => (Spec.request v, f))
    ∧ (sentOf out.2.log).length = retries + 1 := by
  intro p out
  obtain ⟨h1, h2⟩ := C10_quake_query_faulty port retries v p (by simp [p, Plan1.wf, hk])
    (fun d e hd _ => by simp [p] at hd) restQ restF
  have h1' : out.1 = .err (lastError attemptError fails) := h1
  have h2' : sentOf out.2.log = fails.map (fun f => (Spec.request v, f)) := by
    rw [show sentOf out.2.log = _ from h2]; simp [p, Plan1.sends]
  refine ⟨h1', ?_, h2', by rw [h2', List.length_map, hk]⟩
  rw [h1']
  obtain ⟨init, f, rfl⟩ : ∃ init f, fails = init ++ [f] := by
    cases hne : fails.reverse with
    | nil => simp at hne; subst hne; simp at hk
    | cons f r => exact ⟨r.reverse, f, by rw [← List.reverse_reverse fails, hne]; simp⟩
  rw [lastError_attempt]
  cases f <;> simp

/-- the error of an exhausted unit is the LAST attempt's -/
theorem C10_quake_last_error (fails : List Bool) (f : Bool) :
    lastError attemptError (fails ++ [f]) = (if f then .packetSend else .packetReceive) :=
  lastError_attempt fails f

/-- (c) A MALFORMED REPLY IS NOT RETRIED.  After any number ≤ `retries` of timed-out attempts the client receives a
datagram the header check rejects — ANY datagram shorter than the 4-byte out-of-band marker, or the marker followed by
anything that does not start with the version's response header (`Spec.malformed`; at most a UDP datagram long).
Whatever `retries` is, the query fails at once with `PacketUnderflow` / `PacketBad` (not a timeout-class error), and no
further request is sent: `fails.length + 1` in all. -/
theorem C10_quake_query_malformed_not_retried (port retries : Nat) (v : Version) (fails : List Bool)
    (hk : fails.length ≤ retries) (m : Bytes) (hm : malformed v m = true) (hl : m.length ≤ 65535)
    (restQ : List Delivery) (restF : List Bool) :
    let p : Plan1 := ⟨fails, some m⟩
    let out := Quake.query port v retries (Net.init [.opened (p.deliveries ++ restQ)] (p.faults ++ restF))
    out.1 = .err (malformedError m)
    ∧ (malformedError m).isTimeout = false
    ∧ sentOf out.2.log = fails.map (fun f => (Spec.request v, f)) ++ [(Spec.request v, false)]
    ∧ (sentOf out.2.log).length = fails.length + 1 := by
  intro p out
  obtain ⟨h1, h2⟩ := C10_quake_query_faulty port retries v p (by simp [p, Plan1.wf, hk, hl])
    (fun d e hd he => by
      have : d = m := by simpa [p] using hd.symm
      subst this
      rw [stripHeader_malformed v d hm] at he
      cases he
      exact malformedError_not_timeout d) restQ restF
  have h1' : out.1 = .err (malformedError m) := by
    rw [show out.1 = _ from h1]
    simp [p, Plan1.outcome, stripHeader_malformed v m hm]
  have h2' : sentOf out.2.log = fails.map (fun f => (Spec.request v, f)) ++ [(Spec.request v, false)] := by
    rw [show sentOf out.2.log = _ from h2]; simp [p, Plan1.sends]
  exact ⟨h1', malformedError_not_timeout m, h2', by rw [h2']; simp⟩

/-! ### non-vacuity: the Quake 2 server of `Props/C05.lean`, retries = 2 -/

-- (a) a lost reply and a failed send before the reply: the state, 3 requests
example (port : Nat) :
    let cfg : Config := ⟨.two, false⟩
    let p := recovering cfg C05_exampleQ2 [false, true]
    p.deliveries = [.silence, .data (reply cfg C05_exampleQ2)] ∧ p.faults = [false, true, false]
    ∧ (Quake.query port .two 2 (Net.init [.opened (p.deliveries ++ [])] (p.faults ++ []))).1
        = expected cfg C05_exampleQ2
    ∧ (sentOf (Quake.query port .two 2 (Net.init [.opened (p.deliveries ++ [])] (p.faults ++ []))).2.log).length = 3 := by
  intro cfg p
  have h := C10_quake_query_recovers cfg C05_exampleQ2 (by decide) port 2 [false, true] (by decide) [] []
  exact ⟨rfl, rfl, h.1, h.2.2⟩

-- (b) three timeouts (the last one a failed send): PacketSend after 3 requests, the reply still queued is never read
example (port : Nat) (restQ : List Delivery) :
    let p : Plan1 := ⟨[false, false, true], none⟩
    (Quake.query port .three 2 (Net.init [.opened (p.deliveries ++ restQ)] (p.faults ++ []))).1 = .err .packetSend := by
  intro p
  exact (C10_quake_query_exhausted port 2 .three [false, false, true] rfl restQ []).1

-- (c) retries = 5, one lost reply, then `FF FF` / a Quake 3 reply sent to a Quake 2 client: rejected at once
example (port : Nat) :
    (Quake.query port .two 5 (Net.init [.opened ((Plan1.mk [false] (some [0xFF, 0xFF])).deliveries ++ [])]
      ((Plan1.mk [false] (some [0xFF, 0xFF])).faults ++ []))).1 = .err .packetUnderflow
    ∧ malformed .two ([0xFF, 0xFF, 0xFF, 0xFF] ++ header .three ++ [0x5C]) = true := by
  refine ⟨?_, by decide⟩
  exact (C10_quake_query_malformed_not_retried port 5 .two [false] (by decide) [0xFF, 0xFF] (by decide) (by decide)
    [] []).1
