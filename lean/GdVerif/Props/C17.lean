import GdVerif.Lemmas.VarInt
import GdVerif.Lemmas.Unreal2Safe
/-
  C17 — Packet reader and wire codecs conform to a reference model.

  Property theorems only (helper lemmas live in `GdVerif/Lemmas`).  The model
  these theorems are about is `GdVerif/Buffer.lean` + `Proto/McCodec.lean`; it
  is tied to `crates/lib/src/buffer.rs` and `games/minecraft/types.rs` by the
  correspondence check of `props/c17.py` on every run.
-/
open Gd Gd.Mc

/-- No sequence of reader operations crashes, and the reader stays on the same
packet with its position inside it — for every packet, byte order and
operation history, failed and unterminated reads included. -/
theorem C17_position_within_packet (e : Endian) (ops : List ROp) (b : Buf) :
    ∃ b', ROp.afterAll e ops b = some b' ∧ b'.data = b.data ∧ b'.pos ≤ b.data.length := by
  induction ops generalizing b with
  | nil => exact ⟨b, rfl, rfl, b.pos_le_len⟩
  | cons op r ih =>
    have hsafe : Safe (op.exec e) := by
      cases op <;> simp only [ROp.exec]
      · exact Safe.bind (safe_readUnsigned _ _) fun _ => Safe.pure _
      · exact Safe.bind (safe_readSigned _ _) fun _ => Safe.pure _
      · exact Safe.bind (safe_moveCursor _) fun _ => Safe.pure _
      · exact Safe.bind (safe_readStringWith _ (utf8Dec_noCrash _)) fun _ => Safe.pure _
      · exact Safe.bind (safe_readStringWith _ (utf8LenDec_noCrash _)) fun _ => Safe.pure _
      · exact Safe.bind (safe_readStringWith _ (utf16Dec_noCrash _ _ _)) fun _ => Safe.pure _
      · exact Safe.bind (safe_switchEndianChunk _) fun _ => Safe.pure _
      · exact Safe.bind safe_getVarint fun _ => Safe.pure _
      · exact Safe.bind safe_getString fun _ => Safe.pure _
      · exact Safe.bind Unreal2.safe_readU2Str fun _ => Safe.pure _
    have hp := hsafe b
    simp only [ROp.afterAll, ROp.after]
    cases hx : op.exec e b with
    | ok x =>
      obtain ⟨v, b1⟩ := x
      rw [hx] at hp
      simp only [Post] at hp
      obtain ⟨b', h1, h2, h3⟩ := ih b1
      exact ⟨b', h1, by rw [h2, hp], by rw [← hp]; exact h3⟩
    | err k => exact ih b
    | crash => rw [hx] at hp; exact hp.elim

example : ROp.afterAll .little [.s8 0, .u 2, .mv (-1), .s16 .big 0 0] (Buf.new [65, 0, 1, 2, 3]) = some ⟨[3, 2, 1, 0, 65], []⟩ := by
  decide

/-- A fixed-width read succeeds exactly when enough bytes remain; it then returns the bytes at the
current position interpreted in the reader's byte order and advances by exactly the width. -/
theorem C17_read_fixed_width (e : Endian) (w : Nat) (b : Buf) :
    (w ≤ b.remaining →
      ∃ b', readUnsigned e w b = .ok (e.decode ((b.data.drop b.pos).take w), b')
        ∧ b'.pos = b.pos + w ∧ b'.data = b.data)
    ∧ (b.remaining < w → readUnsigned e w b = .err .packetUnderflow) := by
  refine ⟨fun h => ⟨b.advance w, ?_, Buf.pos_advance b w h, by simp⟩, readUnsigned_err⟩
  rw [readUnsigned_ok h, Buf.drop_pos_data]

example : readUnsigned .big 2 ⟨[9], [1, 2, 3]⟩ = .ok (258, ⟨[2, 1, 9], [3]⟩) := by decide

/-- Signed reads are the two's-complement reinterpretation of the unsigned read. -/
theorem C17_read_signed (e : Endian) (w : Nat) (b : Buf) (n : Nat) (b' : Buf)
    (h : readUnsigned e w b = .ok (n, b')) : readSigned e w b = .ok (toSigned (8 * w) n, b') := by
  simp [readSigned, h]

/-- Byte-order decoding inverts encoding for every width and value. -/
theorem C17_endian_inverse (e : Endian) (w n : Nat) (h : n < 256 ^ w) (post : Bytes) (b : Buf)
    (hr : b.rest = e.encode w n ++ post) :
    ∃ b', readUnsigned e w b = .ok (n, b') ∧ b'.rest = post ∧ b'.data = b.data :=
  decodes_readUnsigned e w n h b post hr

/-- A delimiter-terminated string read returns exactly the string and consumes exactly the string
and its delimiter. -/
theorem C17_string_terminated (d : UInt8) (s post : Bytes) (b : Buf) (hd : d ∉ s)
    (hv : validUtf8 s = true) (hr : b.rest = s ++ [d] ++ post) :
    ∃ b', readStrUntil d b = .ok (s, b') ∧ b'.rest = post ∧ b'.data = b.data :=
  decodes_readStrUntil d s hd hv b post hr

/-- An unterminated string read returns the rest of the packet and leaves the reader exactly at
the end of the packet (never beyond it). -/
theorem C17_string_unterminated (d : UInt8) (b : Buf) (hd : d ∉ b.rest) (hv : validUtf8 b.rest = true) :
    ∃ b', readStrUntil d b = .ok (b.rest, b') ∧ b'.rest = [] ∧ b'.data = b.data ∧ b'.pos = b.data.length := by
  refine ⟨b.advance b.rest.length, ?_, by simp, by simp, ?_⟩
  · unfold readStrUntil readStringWith utf8Dec
    simp only [findByte_none d b.rest hd, List.take_length, hv]
    have : min (b.rest.length + 1) b.rest.length = b.rest.length := by omega
    simp [this]
  · rw [Buf.pos_advance b _ (Nat.le_refl _), Buf.data_length]; rfl

example : readStrUntil 0 (Buf.new [65, 66]) = .ok ([65, 66], ⟨[66, 65], []⟩) := by decide

/-- A string read looks only at the bytes from the current position on: it is a function of
`rest` alone, whatever precedes the cursor. -/
theorem C17_string_reads_only_remaining (dec : Bytes → Res (Bytes × Nat)) (b c : Buf) (h : b.rest = c.rest) :
    (readStringWith dec b).isOk = (readStringWith dec c).isOk
    ∧ ∀ s b' c', readStringWith dec b = .ok (s, b') → readStringWith dec c = .ok (s, c') → b'.rest = c'.rest := by
  unfold readStringWith
  rw [h]
  constructor
  · cases dec c.rest <;> rfl
  · intro s b' c' hb hc
    cases hdec : dec c.rest with
    | ok x =>
      obtain ⟨s', n⟩ := x
      rw [hdec] at hb hc
      cases hb; cases hc
      simp [h]
    | err k => rw [hdec] at hb; cases hb
    | crash => rw [hdec] at hb; cases hb

/-- `move_cursor` succeeds exactly when the target lies inside the packet. -/
theorem C17_move_cursor (off : Int) (b : Buf) :
    ((0 ≤ (b.pos : Int) + off ∧ (b.pos : Int) + off ≤ b.data.length) →
      ∃ b', moveCursor off b = .ok ((), b') ∧ (b'.pos : Int) = b.pos + off ∧ b'.data = b.data)
    ∧ (((b.pos : Int) + off < 0 ∨ (b.pos : Int) + off > b.data.length) → moveCursor off b = .err .packetBad) := by
  have hlen : b.len = b.data.length := by simp [Buf.len, Buf.data]
  constructor
  · intro ⟨h0, h1⟩
    unfold moveCursor
    have c1 : ¬ ((b.pos : Int) + off < 0) := by omega
    have c2 : ¬ ((b.pos : Int) + off > (b.len : Int)) := by rw [hlen]; omega
    simp only [c1, c2, decide_false, Bool.or_self, Bool.false_eq_true, ↓reduceIte]
    by_cases hoff : off ≥ 0
    · simp only [hoff, ↓reduceIte]
      refine ⟨_, rfl, ?_, by simp⟩
      have : off.toNat ≤ b.rest.length := by
        have := b.data_length
        simp only [Buf.remaining] at this
        omega
      rw [Buf.pos_advance b _ this]
      omega
    · simp only [hoff, ↓reduceIte]
      refine ⟨_, rfl, ?_, by simp⟩
      have : (-off).toNat ≤ b.pre.length := by
        simp only [Buf.pos] at h0
        omega
      rw [Buf.pos_retreat b _ this]
      simp only [Buf.pos] at *
      omega
  · intro h
    unfold moveCursor
    rw [hlen]
    rcases h with h | h
    · simp [h]
    · have : ((b.pos : Int) + off > (b.data.length : Int)) := h
      simp [this]

/-- `switch_endian_chunk(n)` hands out exactly the next `n` bytes and moves past them. -/
theorem C17_switch_endian_chunk (n : Nat) (b : Buf) (h : n ≤ b.remaining) :
    switchEndianChunk n b = .ok ((b.data.drop b.pos).take n, b.advance n) := by
  simp [switchEndianChunk, Nat.not_lt.mpr h, Buf.drop_pos_data]

/-- `u8_lower_upper` splits a byte into its nibbles. -/
theorem C17_lower_upper (n : Nat) (h : n < 256) :
    (lowerUpper n).1 < 16 ∧ (lowerUpper n).2 < 16 ∧ (lowerUpper n).1 + 16 * (lowerUpper n).2 = n := by
  simp only [lowerUpper]
  omega

/-- `error_by_expected_size` succeeds exactly on equality and names the direction otherwise. -/
theorem C17_expected_size (expected size : Nat) :
    (errorByExpectedSize expected size = .ok () ↔ size = expected)
    ∧ (size > expected → errorByExpectedSize expected size = .err .packetOverflow)
    ∧ (size < expected → errorByExpectedSize expected size = .err .packetUnderflow) := by
  unfold errorByExpectedSize
  refine ⟨?_, ?_, ?_⟩
  · split
    · simp; omega
    · split
      · simp; omega
      · simp; omega
  · intro h; simp [h]
  · intro h
    have : ¬ size > expected := by omega
    simp [this, h]

/-- VarInt: decoding inverts encoding for every one of the 2^32 integers, consuming exactly the
encoding, whatever follows it. -/
theorem C17_varint_roundtrip (x : Nat) (hx : x < 2 ^ 32) (post : Bytes) (b : Buf)
    (hr : b.rest = asVarint x ++ post) :
    ∃ b', getVarint b = .ok (x, b') ∧ b'.rest = post ∧ b'.data = b.data :=
  decodes_getVarint x hx b post hr

example : getVarint (Buf.new (asVarint 4294967295 ++ [7])) = .ok (4294967295, ⟨[15, 255, 255, 255, 255], [7]⟩) := by
  decide

/-- VarInt encodings are 1 to 5 bytes long. -/
theorem C17_varint_length (x : Nat) (hx : x < 2 ^ 32) : 1 ≤ (asVarint x).length ∧ (asVarint x).length ≤ 5 :=
  asVarint_length x hx

/-- The encoding is injective on 32-bit integers (it has a left inverse). -/
theorem C17_varint_injective (x y : Nat) (hx : x < 2 ^ 32) (hy : y < 2 ^ 32) (h : asVarint x = asVarint y) :
    x = y := by
  obtain ⟨_, h1, _, _⟩ := decodes_getVarint x hx (Buf.new (asVarint x)) [] (by simp)
  obtain ⟨_, h2, _, _⟩ := decodes_getVarint y hy (Buf.new (asVarint y)) [] (by simp)
  rw [h] at h1
  rw [h1] at h2
  cases h2
  rfl

/-- Over-long encodings are rejected: a fifth byte with any of its four high bits set (which
includes a continuation bit asking for a sixth byte) is an error, whatever the first four bytes
carry. -/
theorem C17_varint_rejects_overlong (b0 b1 b2 b3 b4 : UInt8) (post : Bytes) (b : Buf)
    (h0 : b0.toNat &&& 0x80 ≠ 0) (h1 : b1.toNat &&& 0x80 ≠ 0) (h2 : b2.toNat &&& 0x80 ≠ 0)
    (h3 : b3.toNat &&& 0x80 ≠ 0) (h4 : b4.toNat &&& 0xf0 ≠ 0)
    (hr : b.rest = b0 :: b1 :: b2 :: b3 :: b4 :: post) :
    getVarint b = .err .packetBad :=
  getVarint_overlong b0 b1 b2 b3 b4 post b h0 h1 h2 h3 h4 hr

example : getVarint (Buf.new [0x80, 0x80, 0x80, 0x80, 0x80, 0x00]) = .err .packetBad := by decide
example : getVarint (Buf.new [0xff, 0xff, 0xff, 0xff, 0x1f]) = .err .packetBad := by decide

/-- Whatever is accepted is a 32-bit pattern read from at most five bytes. -/
theorem C17_varint_accepts_at_most_five (b b' : Buf) (v : Nat) (h : getVarint b = .ok (v, b')) :
    v < 2 ^ 32 ∧ b'.remaining + 5 ≥ b.remaining ∧ b'.remaining < b.remaining :=
  getVarint_bounds b b' v h

/-- Minecraft strings: decoding inverts encoding for every valid UTF-8 string the encoder accepts. -/
theorem C17_string_roundtrip (s : Bytes) (hv : validUtf8 s = true) (hl : s.length < 2 ^ 31)
    (post : Bytes) (b : Buf) (enc : Bytes) (henc : asString s = .ok enc) (hr : b.rest = enc ++ post) :
    ∃ b', getString b = .ok (s, b') ∧ b'.rest = post ∧ b'.data = b.data :=
  getString_asString s hv hl post b enc henc hr

example : getString (Buf.new [2, 0xc3, 0xa9, 9]) = .ok ([0xc3, 0xa9], ⟨[0xa9, 0xc3, 2], [9]⟩) := by decide

/-- The string encoder refuses exactly the strings whose length does not fit an `i32`. -/
theorem C17_string_encode_total (s : Bytes) :
    (s.length < 2 ^ 31 → asString s = .ok (asVarint s.length ++ s))
    ∧ (2 ^ 31 ≤ s.length → asString s = .err .invalidInput) := by
  unfold asString
  constructor
  · intro h; simp [h]
  · intro h
    have : ¬ s.length < 2 ^ 31 := by omega
    simp [this]
