import GdVerif.Lemmas.Gs1Faults
import GdVerif.Props.C04_gs1
/-
  C10 on WHOLE GameSpy 1 queries with faults injected.

  `Props/C10.lean` proves C10 for the combinator, `Props/C10_gs1.lean` names the retried unit: the WHOLE status exchange
  (the one request, then the receive loop over the parts of the reply).  Here the property is proved end to end for
  `Gs1.query` (and `query_vars`) against the SPEC's server (`Spec/Gs1.lean`), on the scripts of
  `props/families/gs1.py: c10_build`: a plan (`Spec/Gs1Faults.lean`) lists the attempts that end in a timeout-class
  failure — the request cannot be sent, or it goes out and the server falls silent BEFORE THE REPLY IS COMPLETE, after
  any selection of the reply's datagrams (each at most once, any order, at least one missing; `Spec.selects`) — and how
  the unit ends: the whole reply (parts in ANY order of arrival), nothing, or a malformed datagram arriving while the
  reply is incomplete.  `faultyScript` / `faultyFaults` are the two arguments of `Net.init`; what follows them (`restQ`,
  `restF`) is arbitrary.  Quantified: state, writing style and cut into parts in the SPEC's domain (1 – 65535 parts),
  port, retry count, the plan.
-/
open Gd Gd.Gs Gd.Gs1 Gd.Gs1.Spec Gd.Faults

/-- THE GENERAL STATEMENT.  For every plan in C10's domain for the retry count (`wfPlan`: every failed attempt received
an incomplete selection of the reply's parts before the silence; a unit that is answered — by the whole reply, or by a
datagram whose text is empty or not UTF-8 while the reply is incomplete — had at most `retries` timeout-class failures
before, a unit that is given up exactly `retries + 1`): the query returns the outcome the property prescribes
(`faultyExpected`: the fault-free response / the last failure's error / `PacketBad` for the malformed datagram), and
the datagrams it sent are exactly the plan's (`faultySends`: the request, once per attempt — what a failed attempt had
received is dropped, the retry asks again). -/
theorem C10_gs1_query_faulty (y : Style) (st : State) (h : wf y st = true) (port retries : Nat)
    (arrival : List Bytes) (harr : arrival.Perm (script y st)) (plan : Plan)
    (hplan : wfPlan retries (script y st) plan = true) (restQ : List Delivery) (restF : List Bool) :
    (Gs1.query port retries
        (Net.init [.opened (faultyScript plan arrival ++ restQ)] (faultyFaults plan ++ restF))).1
      = faultyExpected st plan
    ∧ sentOf (Gs1.query port retries
        (Net.init [.opened (faultyScript plan arrival ++ restQ)] (faultyFaults plan ++ restF))).2.log
      = faultySends plan :=
  query_faulty (wf_iff y st h) port retries arrival harr plan hplan restQ restF

/-- the same for `query_vars`: the variables sent, under the same faults -/
theorem C10_gs1_query_vars_faulty (y : Style) (st : State) (h : wf y st = true) (port retries : Nat)
    (arrival : List Bytes) (harr : arrival.Perm (script y st)) (plan : Plan)
    (hplan : wfPlan retries (script y st) plan = true) (restQ : List Delivery) (restF : List Bool) :
    (Gs1.queryVars port retries
        (Net.init [.opened (faultyScript plan arrival ++ restQ)] (faultyFaults plan ++ restF))).1
      = faultyVars y st plan
    ∧ sentOf (Gs1.queryVars port retries
        (Net.init [.opened (faultyScript plan arrival ++ restQ)] (faultyFaults plan ++ restF))).2.log
      = faultySends plan :=
  queryVars_faulty (wf_iff y st h) port retries arrival harr plan hplan restQ restF

/-- (a) RECOVERY.  `fails` (any number ≤ `retries`; each a failed send, or a silence after an incomplete selection of
the parts) precede the whole reply: the query returns exactly `Spec.expected st` — by `C04_gs1_query` the result with no
faults —, and the request was sent `fails.length + 1` times. -/
theorem C10_gs1_query_recovers (y : Style) (st : State) (h : wf y st = true) (port retries : Nat)
    (arrival : List Bytes) (harr : arrival.Perm (script y st)) (fails : List Attempt)
    (hfails : ∀ a ∈ fails, a.wf (script y st) = true) (hk : fails.length ≤ retries)
    (restQ : List Delivery) (restF : List Bool) :
    let plan : Plan := ⟨fails, .valid⟩
    let out := Gs1.query port retries
        (Net.init [.opened (faultyScript plan arrival ++ restQ)] (faultyFaults plan ++ restF))
    out.1 = .ok (expected st)
    ∧ sentOf out.2.log = fails.map (fun a => (request, a.sendFault)) ++ [(request, false)]
    ∧ (sentOf out.2.log).length = fails.length + 1 := by
  intro plan out
  have hplan : wfPlan retries (script y st) plan = true := by
    simp only [wfPlan, plan, Bool.and_eq_true, List.all_eq_true, decide_eq_true_eq]
    exact ⟨hfails, hk⟩
  obtain ⟨h1, h2⟩ := C10_gs1_query_faulty y st h port retries arrival harr plan hplan restQ restF
  have h2' : sentOf out.2.log = fails.map (fun a => (request, a.sendFault)) ++ [(request, false)] := by
    rw [show sentOf out.2.log = _ from h2, faultySends_eq]; rfl
  exact ⟨h1, h2', by rw [h2']; simp⟩

/-- (b) EXHAUSTION.  All `retries + 1` attempts end in a timeout-class failure: the query fails with the last attempt's
error — `PacketReceive`, or `PacketSend` when that attempt was a failed send — after exactly `retries + 1` requests,
whatever the script still holds. -/
theorem C10_gs1_query_exhausted (y : Style) (st : State) (h : wf y st = true) (port retries : Nat)
    (fails : List Attempt) (hfails : ∀ a ∈ fails, a.wf (script y st) = true) (hk : fails.length = retries + 1)
    (restQ : List Delivery) (restF : List Bool) :
    let plan : Plan := ⟨fails, .gaveUp⟩
    let out := Gs1.query port retries
        (Net.init [.opened (faultyScript plan [] ++ restQ)] (faultyFaults plan ++ restF))
    out.1 = .err (lastError Attempt.error fails)
    ∧ (out.1 = .err .packetReceive ∨ out.1 = .err .packetSend)
    ∧ sentOf out.2.log = fails.map (fun a => (request, a.sendFault))
    ∧ (sentOf out.2.log).length = retries + 1 := by
  intro plan out
  have hplan : wfPlan retries (script y st) plan = true := by
    simp only [wfPlan, plan, Bool.and_eq_true, List.all_eq_true, beq_iff_eq]
    exact ⟨hfails, hk⟩
  -- the arrival order of the valid reply does not occur in the script of a plan that gives up
  have hs : faultyScript plan [] = faultyScript plan (script y st) := rfl
  have hq := C10_gs1_query_faulty y st h port retries (script y st) (List.Perm.refl _) plan hplan restQ restF
  rw [← hs] at hq
  obtain ⟨h1, h2⟩ := hq
  have h1' : out.1 = .err (lastError Attempt.error fails) := h1
  have h2' : sentOf out.2.log = fails.map (fun a => (request, a.sendFault)) := by
    rw [show sentOf out.2.log = _ from h2, faultySends_eq]; simp [plan, Ending.sends]
  refine ⟨h1', ?_, h2', by rw [h2', List.length_map, hk]⟩
  rw [h1']
  have hne : fails ≠ [] := by intro h0; subst h0; simp at hk
  rcases lastError_class fails hne with e | e <;> simp [e]

theorem C10_gs1_last_error (fails : List Attempt) (a : Attempt) :
    lastError Attempt.error (fails ++ [a]) = (if a.sendFault then .packetSend else .packetReceive) := by
  rw [Gs1.lastError_append]
  cases a <;> rfl

/-- (c) A MALFORMED REPLY IS NOT RETRIED.  After any number ≤ `retries` of timed-out attempts, and after any incomplete
selection `got` of the reply's parts within the attempt, the client receives a datagram that is not a GameSpy 1 packet —
ANY datagram (within the receive buffer) whose text up to the first NUL is empty or is not UTF-8 (`Spec.malformed`).
Whatever `retries` is, the query fails at once with `PacketBad` (not a timeout-class error), and no further request is
sent: `fails.length + 1` in all. -/
theorem C10_gs1_query_malformed_not_retried (y : Style) (st : State) (h : wf y st = true) (port retries : Nat)
    (fails : List Attempt) (hfails : ∀ a ∈ fails, a.wf (script y st) = true) (hk : fails.length ≤ retries)
    (got : List Bytes) (hgot : selects got (script y st) = true) (m : Bytes) (hm : malformed m = true)
    (hl : m.length ≤ 2048) (restQ : List Delivery) (restF : List Bool) :
    let plan : Plan := ⟨fails, .malformed got m⟩
    let out := Gs1.query port retries
        (Net.init [.opened (faultyScript plan [] ++ restQ)] (faultyFaults plan ++ restF))
    out.1 = .err .packetBad
    ∧ ErrKind.packetBad.isTimeout = false
    ∧ sentOf out.2.log = fails.map (fun a => (request, a.sendFault)) ++ [(request, false)]
    ∧ (sentOf out.2.log).length = fails.length + 1 := by
  intro plan out
  have hplan : wfPlan retries (script y st) plan = true := by
    simp only [wfPlan, plan, Bool.and_eq_true, List.all_eq_true, decide_eq_true_eq]
    exact ⟨hfails, ⟨⟨hk, hgot⟩, hm⟩, hl⟩
  have hs : faultyScript plan [] = faultyScript plan (script y st) := rfl
  have hq := C10_gs1_query_faulty y st h port retries (script y st) (List.Perm.refl _) plan hplan restQ restF
  rw [← hs] at hq
  obtain ⟨h1, h2⟩ := hq
  have h2' : sentOf out.2.log = fails.map (fun a => (request, a.sendFault)) ++ [(request, false)] := by
    rw [show sentOf out.2.log = _ from h2, faultySends_eq]; rfl
  exact ⟨h1, rfl, h2', by rw [h2']; simp⟩

/-- the request on the wire is the SPEC's -/
theorem C10_gs1_request : Spec.requests = [request] ∧ Gs1.statusRequest = request := ⟨rfl, request_eq⟩

/-! ### non-vacuity: the two-part server of `Props/C04_gs1.lean` -/

/-- the two datagrams of the example reply -/
def C10_gs1_exReply : List Bytes := script C04_gs1_exStyle C04_gs1_exState

/-- a failed send, then the SECOND part followed by silence (the first never arrives), then the reply with its parts
swapped -/
def C10_gs1_exFails : List Attempt := [.noSend, .lost (C10_gs1_exReply.drop 1)]

-- (a) retries = 2: both failures are in the domain, the plan's script holds 1 + 1 + 2 deliveries, and the query answers
-- the state after 3 requests
example (port : Nat) :
    (∀ a ∈ C10_gs1_exFails, a.wf C10_gs1_exReply = true)
    ∧ (faultyScript ⟨C10_gs1_exFails, .valid⟩ C10_gs1_exReply.reverse).length = 4
    ∧ faultyFaults ⟨C10_gs1_exFails, .valid⟩ = [true, false, false]
    ∧ (Gs1.query port 2 (Net.init [.opened (faultyScript ⟨C10_gs1_exFails, .valid⟩ C10_gs1_exReply.reverse ++ [])]
        (faultyFaults ⟨C10_gs1_exFails, .valid⟩ ++ []))).1 = .ok (expected C04_gs1_exState)
    ∧ (sentOf (Gs1.query port 2 (Net.init [.opened (faultyScript ⟨C10_gs1_exFails, .valid⟩ C10_gs1_exReply.reverse ++ [])]
        (faultyFaults ⟨C10_gs1_exFails, .valid⟩ ++ []))).2.log).length = 3 := by
  have hf : ∀ a ∈ C10_gs1_exFails, a.wf C10_gs1_exReply = true := by decide +kernel
  have h := C10_gs1_query_recovers C04_gs1_exStyle C04_gs1_exState (by decide +kernel) port 2
    C10_gs1_exReply.reverse (List.reverse_perm _) C10_gs1_exFails hf (by decide) [] []
  exact ⟨hf, by decide +kernel, by decide +kernel, h.1, h.2.2⟩

-- (b) retries = 1: the first part then silence, twice: PacketReceive after 2 requests, whatever is still queued
example (port : Nat) (restQ : List Delivery) :
    (Gs1.query port 1 (Net.init
      [.opened (faultyScript ⟨[.lost (C10_gs1_exReply.take 1), .lost (C10_gs1_exReply.take 1)], .gaveUp⟩ [] ++ restQ)]
      (faultyFaults ⟨[.lost (C10_gs1_exReply.take 1), .lost (C10_gs1_exReply.take 1)], .gaveUp⟩ ++ []))).1
      = .err .packetReceive :=
  (C10_gs1_query_exhausted C04_gs1_exStyle C04_gs1_exState (by decide +kernel) port 1
    [.lost (C10_gs1_exReply.take 1), .lost (C10_gs1_exReply.take 1)] (by decide +kernel) rfl restQ []).1

-- (c) retries = 4: the check's malformed datagram `ff ff` after a lost attempt and the first part; an empty datagram and
-- one that starts with NUL are malformed too
example (port : Nat) :
    (Gs1.query port 4 (Net.init
      [.opened (faultyScript ⟨[.lost []], .malformed (C10_gs1_exReply.take 1) [0xFF, 0xFF]⟩ [] ++ [])]
      (faultyFaults ⟨[.lost []], .malformed (C10_gs1_exReply.take 1) [0xFF, 0xFF]⟩ ++ []))).1 = .err .packetBad
    ∧ malformed [] = true ∧ malformed [0, 92, 97] = true :=
  ⟨(C10_gs1_query_malformed_not_retried C04_gs1_exStyle C04_gs1_exState (by decide +kernel) port 4 [.lost []]
      (by decide +kernel) (by decide) (C10_gs1_exReply.take 1) (by decide +kernel) [0xFF, 0xFF] (by decide +kernel)
      (by decide) [] []).1,
    by decide +kernel, by decide +kernel⟩
