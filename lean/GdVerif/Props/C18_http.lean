import GdVerif.Lemmas.Http
/-
  C18 — no accepted configuration can panic: the HTTP client's use of the timeout settings.

  MODEL: `GdVerif/Proto/Http.lean: new` (`AgentBuilder::timeout_read / timeout_write / timeout_connect` are called with the
  durations of the settings, each only when the settings carry it; nothing else is done with a duration).  Tied on every
  run: the real client with durations of every magnitude (1 ns write, years, `u64::MAX` seconds + 999 999 999 ns, none, mixed)
  against a loopback listener that answers (`http-plan`, generator `httpdur`), and which duration bounds which wait is
  measured by the C12 cases (read: a mute peer; connect: a listener that does not answer the connection attempt; the write
  timeout cannot be made to elapse on a loopback socket — a request head always fits the send buffer —, it is covered by the
  theorem only).
-/
open Gd Gd.Http

/-- THE DURATIONS REACH THE AGENT UNCHANGED, EACH AT ITS OWN PLACE, for every settings value (any durations whatever, zero
and beyond `u64` included: the statement does not even need them to be accepted ones), address, host name, protocol and
headers: the agent's read timeout is the settings' read duration, its write timeout the write duration, its connect timeout
the connect duration; a duration the settings leave out stays at the builder's own value (none for read and write, `ureq`'s
30 s for connect); no deadline for the whole request is set (nothing is added up). -/
theorem C18_http_durations_reach_the_agent (idna : Bytes → Option Bytes) (ua : Bytes) (address : SocketAddr)
    (t : Settings.Timeout) (hs : HttpSettings) (client : Client) (h : Http.new idna ua address (some t) hs = .ok client) :
    client.agent.timeoutRead = t.read
    ∧ client.agent.timeoutWrite = t.write
    ∧ client.agent.timeoutConnect = (match t.connect with | some c => some c | none => some ⟨30, 0⟩)
    ∧ client.agent.timeoutOverall = none := by
  unfold Http.new at h
  simp only [Settings.readAndWriteOrDefaults, Settings.connectOrDefault] at h
  split at h
  · cases h
    cases hr : t.read <;> cases hw : t.write <;> cases hc : t.connect <;> simp [ureqDefaults]
  · cases h
  · cases h

/-- Without settings: the defaults (4 s each), again each at its own place. -/
theorem C18_http_default_durations (idna : Bytes → Option Bytes) (ua : Bytes) (address : SocketAddr)
    (hs : HttpSettings) (client : Client) (h : Http.new idna ua address none hs = .ok client) :
    client.agent.timeoutRead = Settings.default.read ∧ client.agent.timeoutWrite = Settings.default.write
    ∧ client.agent.timeoutConnect = Settings.default.connect ∧ client.agent.timeoutOverall = none := by
  unfold Http.new at h
  simp only [Settings.readAndWriteOrDefaults, Settings.connectOrDefault, Settings.default] at h
  split at h
  · cases h; simp [ureqDefaults, Settings.default]
  · cases h
  · cases h

/-- NOTHING IS COMPUTED FROM THE DURATIONS: whether a client is built, its URL, its headers, its resolver and its user agent
are the same for any two timeout settings … -/
theorem C18_http_durations_are_inert (idna : Bytes → Option Bytes) (ua : Bytes) (address : SocketAddr)
    (ts ts' : Option Settings.Timeout) (hs : HttpSettings) :
    match Http.new idna ua address ts hs, Http.new idna ua address ts' hs with
    | .ok c, .ok c' => c.address = c'.address ∧ c.headers = c'.headers ∧ c.agent.userAgent = c'.agent.userAgent
        ∧ (∀ n, c.agent.resolver n = c'.agent.resolver n)
    | .err k, .err k' => k = k'
    | _, _ => False := by
  unfold Http.new
  simp only []
  cases hpu : parseUrl idna hs.protocol
      (asciiBytes "//" ++ (match hs.hostname with | some h => h | none => ipHostText address.ip) ++ [58] ++ natDec address.port) with
  | ok u => exact ⟨rfl, rfl, rfl, fun _ => rfl⟩
  | err k => rfl
  | crash => exact absurd hpu (parseUrl_total idna _ _).1

/-- … and what a request does — the request made, its result, the steps that time out — depends on the client's URL and headers
and on the wire only, not on the agent's timeouts. -/
theorem C18_http_requests_ignore_durations {α : Type} (c c' : Client) (ha : c.address = c'.address) (hh : c.headers = c'.headers)
    (w : Wire) (json : Bytes → Option α) (method path : Bytes) (headers : List (Bytes × Bytes)) :
    c.requestJson w json method path headers = c'.requestJson w json method path headers
    ∧ c.request w method path headers = c'.request w method path headers := by
  constructor <;> simp [Client.requestJson, Client.request, Client.makeRequest, ha, hh]

/-- NO PANIC, whatever the settings (accepted or not), address, host name, path, headers, wire behaviour and deserialiser:
building the client, `get_json`, `get` and the Eco query end with a value or an error. -/
theorem C18_http_no_panic {α : Type} (idna : Bytes → Option Bytes) (ua : Bytes) (address : SocketAddr)
    (ts : Option Settings.Timeout) (hs : HttpSettings) (w : Wire) (json : Bytes → Option α) (jsonEco : Bytes → Option Eco.Info)
    (method path : Bytes) (headers : List (Bytes × Bytes)) (port : Option Nat) (extra : Option Eco.RequestSettings) :
    Http.new idna ua address ts hs ≠ .crash
    ∧ (∀ client : Client, (client.requestJson w json method path headers).2.1 ≠ .crash
        ∧ (client.request w method path headers).2.1 ≠ .crash)
    ∧ (Eco.query idna ua w jsonEco address.ip port ts extra).2.1 ≠ .crash := by
  refine ⟨(new_total idna ua address ts hs).1, fun client => ⟨requestJson_no_crash client w json method path headers, request_no_crash client w method path headers⟩, ?_⟩
  simp only [Eco.query]
  have hnew := new_total idna ua ⟨address.ip, port.getD Eco.DEFAULT_PORT⟩ ts (extra.getD {}).toHttp
  split
  · rename_i client hn
    have := requestJson_no_crash client w jsonEco GET (asciiBytes Eco.PATH) []
    cases hr : (client.requestJson w jsonEco GET (asciiBytes Eco.PATH) []).2.1 with
    | ok v => simp [Res.bind]
    | err k => simp [Res.bind]
    | crash => exact absurd hr this
  · simp
  · rename_i hn
    exact absurd hn hnew.1

-- non-vacuity: settings with extreme durations are accepted by `TimeoutSettings::new`, the client is built and carries them
example :
    let big : Settings.Duration := ⟨18446744073709551615, 999999999⟩
    let ns : Settings.Duration := ⟨0, 1⟩
    Settings.new (some big) (some ns) none 0 = .ok ⟨none, some big, some ns, 0⟩
    ∧ ((Http.new (fun _ => none) [] ⟨.v4 127 0 0 1, 3001⟩ (some ⟨none, some big, some ns, 0⟩) {}).toOption.map
        fun c => (c.agent.timeoutRead, c.agent.timeoutWrite, c.agent.timeoutConnect, c.agent.timeoutOverall))
      = some (some big, some ns, some ⟨30, 0⟩, none) := by
  decide +kernel
