import GdVerif.Lemmas.ReaderU2
import GdVerif.Lemmas.Unreal2
/-
  C17 — the fourth `StringDecoder` of the crate, `Unreal2StringDecoder`
  (protocols/unreal2/protocol.rs), as an operation of the packet reader (`ROp.su2`):
  each string read consumes exactly the string (length byte, the optional stray 0x01 of a UCS-2
  string, the bytes the length byte announces) and never touches bytes outside the packet.

  The decoder model is `Unreal2.u2Dec` (Proto/Unreal2.lean), the reader `readStringWith` of
  `Buffer.lean`; both are tied to the code by the `reader … su2` cases of `props/c17.py` (position
  and remaining length printed after every operation, failed ones included).  Sequences of
  operations that contain `su2` are under `C17_position_within_packet` (Props/C17.lean).

  Property theorems only; helper lemmas live in `Lemmas/ReaderU2.lean`.
-/
open Gd Gd.Unreal2

/-- One Unreal 2 string read, for EVERY packet and position: it never crashes; it fails with
`PacketBad` only; a successful read leaves the reader on the same packet, strictly further and
still inside it. -/
theorem C17_unreal2_string_within_packet (b : Buf) :
    match readU2Str b with
    | .crash => False
    | .err k => k = .packetBad
    | .ok (_, b') => b'.data = b.data ∧ b.pos < b'.pos ∧ b'.pos ≤ b.data.length := by
  cases h : readU2Str b with
  | crash =>
    have := safe_readU2Str b
    rw [h] at this
    exact this
  | err k => exact readU2Str_err_inv h
  | ok x =>
    obtain ⟨s, b'⟩ := x
    obtain ⟨n, hd, rfl⟩ := readU2Str_ok_inv h
    obtain ⟨l, body, _, hn, hnn⟩ := u2Dec_ok_consumed hd
    refine ⟨by simp, ?_, by rw [← Buf.data_advance b n]; exact Buf.pos_le_len _⟩
    rw [Buf.pos_advance b n hn]
    omega

example : readU2Str ⟨[9], [2, 0x41, 0, 7]⟩ = .ok ([0x41], ⟨[0, 0x41, 2, 9], [7]⟩) := by decide

/-- A successful read advances by exactly one length byte, the stray `0x01` of a UCS-2 string if
one follows the length byte, and the bytes the length byte announces (`l` for a Latin-1 string,
`2·(l − 0x80)` for a UCS-2 string) — whatever the bytes are and wherever the reader stands. -/
theorem C17_unreal2_string_advance_exact (b b' : Buf) (s : Bytes) (h : readU2Str b = .ok (s, b')) :
    ∃ l body, b.rest = l :: body
      ∧ b'.pos = b.pos + 1 + (if 0x80 ≤ l.toNat then strayOf body else 0) + announced l
      ∧ b'.rest = body.drop ((if 0x80 ≤ l.toNat then strayOf body else 0) + announced l)
      ∧ b'.data = b.data := by
  obtain ⟨n, hd, rfl⟩ := readU2Str_ok_inv h
  obtain ⟨l, body, hr, hn, hnn⟩ := u2Dec_ok_consumed hd
  refine ⟨l, body, hr, ?_, ?_, by simp⟩
  · rw [Buf.pos_advance b n hn]; omega
  · rw [Buf.rest_advance, hr, hnn]
    have : 1 + (if 0x80 ≤ l.toNat then strayOf body else 0) + announced l
        = ((if 0x80 ≤ l.toNat then strayOf body else 0) + announced l) + 1 := by omega
    rw [this, List.drop_succ_cons]

example : readU2Str (Buf.new [0x82, 1, 0x41, 0, 0x42, 0, 7]) = .ok ([0x41, 0x42], ⟨[0, 0x42, 0, 0x41, 1, 0x82], [7]⟩) := by
  decide

/-- Latin-1 strings (length byte below 0x80): the read succeeds exactly when the announced bytes
are in the packet; the text is made of exactly those bytes, and the reader stands right after them. -/
theorem C17_unreal2_string_latin1 (b : Buf) (l : UInt8) (body : Bytes) (hr : b.rest = l :: body)
    (hl : l.toNat < 0x80) :
    (l.toNat ≤ body.length →
      readU2Str b = .ok (cleanText (cp1252Decode (body.take l.toNat)), b.advance (1 + l.toNat))
        ∧ (b.advance (1 + l.toNat)).pos = b.pos + 1 + l.toNat
        ∧ (b.advance (1 + l.toNat)).rest = body.drop l.toNat)
    ∧ (body.length < l.toNat → readU2Str b = .err .packetBad) := by
  constructor
  · intro hb
    refine ⟨readU2Str_of_dec_ok (by rw [hr]; exact u2Dec_latin1_ok hl hb), ?_, ?_⟩
    · rw [Buf.pos_advance b _ (by rw [hr, List.length_cons]; omega)]; omega
    · rw [Buf.rest_advance, hr, Nat.add_comm, List.drop_succ_cons]
  · intro hb
    exact readU2Str_of_dec_err (by rw [hr]; exact u2Dec_latin1_short hl hb)

example : readU2Str (Buf.new [3, 0x41, 0x42]) = .err .packetBad := by decide
example : readU2Str (Buf.new [3, 0x41, 0x80, 0, 7]) = .ok ([0x41, 0xe2, 0x82, 0xac], ⟨[0, 0x80, 0x41, 3], [7]⟩) := by decide

/-- UCS-2 strings (length byte from 0x80 on): a `0x01` right after the length byte is skipped and
not counted; the read succeeds exactly when the announced bytes are in the packet and are
well-formed UTF-16LE; the text is made of exactly those bytes, and the reader stands right after
them. -/
theorem C17_unreal2_string_ucs2 (b : Buf) (l : UInt8) (body : Bytes) (hr : b.rest = l :: body)
    (hl : 0x80 ≤ l.toNat) :
    (strayOf body + announced l ≤ body.length →
      (∀ cs, utf16Decode (unitsOf .little ((body.drop (strayOf body)).take (announced l))) = some cs →
        readU2Str b = .ok (cleanText cs, b.advance (1 + strayOf body + announced l))
          ∧ (b.advance (1 + strayOf body + announced l)).pos = b.pos + 1 + strayOf body + announced l
          ∧ (b.advance (1 + strayOf body + announced l)).rest = body.drop (strayOf body + announced l))
      ∧ (utf16Decode (unitsOf .little ((body.drop (strayOf body)).take (announced l))) = none →
        readU2Str b = .err .packetBad))
    ∧ (body.length < strayOf body + announced l → readU2Str b = .err .packetBad) := by
  refine ⟨fun hb => ⟨fun cs hu => ⟨?_, ?_, ?_⟩, fun hu => ?_⟩, fun hb => ?_⟩
  · exact readU2Str_of_dec_ok (by rw [hr]; exact u2Dec_ucs2_ok hl hb hu)
  · rw [Buf.pos_advance b _ (by rw [hr, List.length_cons]; omega)]; omega
  · have : 1 + strayOf body + announced l = (strayOf body + announced l) + 1 := by omega
    rw [Buf.rest_advance, hr, this, List.drop_succ_cons]
  · exact readU2Str_of_dec_err (by rw [hr]; exact u2Dec_ucs2_bad hl hb hu)
  · exact readU2Str_of_dec_err (by rw [hr]; exact u2Dec_ucs2_short hl hb)

-- a lone surrogate is refused; a stray 0x01 that leaves too few bytes is a refusal too
example : readU2Str (Buf.new [0x81, 0x00, 0xd8, 7]) = .err .packetBad := by decide
example : readU2Str (Buf.new [0x81, 0x01, 0x41]) = .err .packetBad := by decide
example : readU2Str (Buf.new [0x80, 7]) = .ok ([], ⟨[0x80], [7]⟩) := by decide

/-- At the end of the packet there is no length byte: `PacketBad`. -/
theorem C17_unreal2_string_at_end (b : Buf) (hr : b.rest = []) : readU2Str b = .err .packetBad :=
  readU2Str_of_dec_err (by rw [hr]; exact u2Dec_nil)

example : readU2Str ⟨[1, 2], []⟩ = .err .packetBad := by decide

/-- As a reader operation (`ROp.su2`, either byte order): the reader after it exists (no crash), is
on the same packet and inside it, and a failed read leaves it exactly where it was.  (In the code
the cursor is written once, after the last `?`; that the real reader's position is unchanged after
a failure is what the correspondence check compares case by case.) -/
theorem C17_unreal2_string_failure_keeps_position (e : Endian) (b : Buf) :
    ∃ b', ROp.after e .su2 b = some b' ∧ b'.data = b.data ∧ b'.pos ≤ b.data.length
      ∧ (∀ k, readU2Str b = .err k → b' = b) := by
  have h0 := C17_unreal2_string_within_packet b
  have hexec : ROp.exec e .su2 b = (match readU2Str b with
      | .ok (s, b') => .ok (.str s, b')
      | .err k => .err k
      | .crash => .crash) := by
    simp only [ROp.exec]
    rw [Par.bind_apply]
    cases readU2Str b with
    | ok x => rfl
    | err k => rfl
    | crash => rfl
  unfold ROp.after
  rw [hexec]
  cases h : readU2Str b with
  | crash => rw [h] at h0; exact h0.elim
  | err k => exact ⟨b, rfl, rfl, b.pos_le_len, fun _ _ => rfl⟩
  | ok x =>
    obtain ⟨s, b'⟩ := x
    rw [h] at h0
    exact ⟨b', rfl, h0.1, h0.2.2, fun k hk => by cases hk⟩

example : ROp.afterAll .big [.u 1, .su2, .su2, .u 1] (Buf.new [9, 0x81, 0x41, 0, 1, 0x42, 7])
    = some ⟨[7, 0x42, 1, 0, 0x41, 0x81, 9], []⟩ := by decide

/-- The read looks at nothing beyond what it consumes, except for the one byte after a UCS-2
length byte that decides whether a stray `0x01` is present: replace everything after the consumed
bytes by anything (keeping that decision) and text and position are the same. -/
theorem C17_unreal2_string_consumed_only (l : UInt8) (body s post : Bytes) (n : Nat)
    (h : u2Dec (l :: body) = .ok (s, n))
    (hst : 0x80 ≤ l.toNat → strayOf (body.take (n - 1) ++ post) = strayOf body) :
    u2Dec (l :: (body.take (n - 1) ++ post)) = .ok (s, n) :=
  u2Dec_consumed_only h post hst

example : u2Dec (2 :: ([0x41, 0, 9, 9].take (3 - 1) ++ [1, 1, 1])) = .ok ([0x41], 3) := by decide
-- the decision byte matters: an empty UCS-2 string followed by 0x01 is read as a stray byte
example : u2Dec [0x80, 7] = .ok ([], 1) ∧ u2Dec [0x80, 1] = .ok ([], 2) := by decide
