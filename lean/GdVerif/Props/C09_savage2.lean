import GdVerif.Lemmas.Savage2
/-
  C09 — requests are the protocol's and go to the right port: Savage 2.
-/
open Gd Gd.Savage2

/-- The request is the single byte `01` (node-gamedig: `udpSend('\x01')`), the default port is 11235. -/
theorem C09_savage2_request_bytes : request = Spec.infoRequest ∧ DEFAULT_PORT = Spec.defaultPort := by decide

/-- Whatever the server does: one UDP socket to the given port, every datagram sent on it goes to that port and
is exactly `01`, every receive uses the default buffer; nothing else is done to the transport, and at most one
datagram is sent (the protocol does not retry). -/
theorem C09_savage2_conforms (port : Nat) (script : List ConnScript) (faults : List Bool) :
    (∀ e ∈ (query port (Net.init script faults)).2.log,
      match e with
      | .opened c tcp p _ => c = 0 ∧ tcp = false ∧ p = port
      | .send c p data _ => c = 0 ∧ p = port ∧ data = [0x01]
      | .recv c size _ => c = 0 ∧ size = none)
    ∧ countSends (query port (Net.init script faults)).2.log ≤ 1 := by
  refine ⟨?_, (sendBound_query port).run script faults⟩
  obtain ⟨_, added, hlog, hall⟩ := query_safe port (Net.init script faults)
  intro e he
  rw [hlog] at he
  simp only [Net.init, List.nil_append] at he
  have := hall e he
  simp only [Net.init, List.length_nil] at this
  cases e with
  | opened c tcp p r => exact this
  | send c p d f => exact this
  | recv c s g => exact this

/-- Against any single-datagram reply the log is exactly `open, send 01, receive`. -/
theorem C09_savage2_exchange (port : Nat) (d : Bytes) (hd : d.length ≤ 1024) :
    (query port (Net.init [.opened [.data d]] [])).2.log
      = [.opened 0 false port false, .send 0 port Spec.infoRequest false, .recv 0 none (some d.length)] := by
  rw [query_script port d hd]
  rfl
