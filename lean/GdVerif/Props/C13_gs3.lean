import GdVerif.Lemmas.Gs3Cost
import GdVerif.Lemmas.Gs3Block
/-
  C13 (requests sent) — GameSpy 3 (`query` and `query_vars`).  One attempt of the retried unit is:
  handshake request → challenge reply → data request → splitnum packets.  `units` = 1: the data
  request is sent only after the challenge reply has been received, so it is paid for by that
  datagram (`send_units` = 1 in `props/families/gs3.py`).  Independently of what is received there are
  never more than two requests per attempt.
-/
open Gd Gd.Gs3

/-- Whatever the server does, for every script, fault vector and retry setting, the GameSpy 3 query
sends at most one datagram per attempt plus one per datagram received. -/
theorem C13_gs3_send_bound (port retries : Nat) (script : List ConnScript) (faults : List Bool) :
    nSends (query port retries (Net.init script faults)).2.log
      ≤ 1 * (retries + 1) + nRecvOk (query port retries (Net.init script faults)).2.log := by
  have := (cost_query port retries).total script faults
  omega

/-- … and never more than two per attempt, however many datagrams it receives. -/
theorem C13_gs3_send_bound_abs (port retries : Nat) (script : List ConnScript) (faults : List Bool) :
    nSends (query port retries (Net.init script faults)).2.log ≤ 2 * (retries + 1) :=
  (sends_query port retries).total script faults

theorem C13_gs3_vars_send_bound (port retries : Nat) (script : List ConnScript) (faults : List Bool) :
    nSends (queryVars port retries (Net.init script faults)).2.log
      ≤ 1 * (retries + 1) + nRecvOk (queryVars port retries (Net.init script faults)).2.log := by
  have := (cost_queryVars port retries).total script faults
  omega

theorem C13_gs3_vars_send_bound_abs (port retries : Nat) (script : List ConnScript) (faults : List Bool) :
    nSends (queryVars port retries (Net.init script faults)).2.log ≤ 2 * (retries + 1) :=
  (sends_queryVars port retries).total script faults

/-- The first bound is attained for every retry setting: a server that never answers gets exactly
`retries + 1` handshake requests (and no data request). -/
theorem C13_gs3_send_bound_attained (port retries : Nat) :
    nSends (query port retries (Net.init [] [])).2.log = retries + 1
      ∧ nRecvOk (query port retries (Net.init [] [])).2.log = 0 :=
  ⟨(silent_query port retries (Net.init [] []) rfl rfl).counts.2.1,
   (silent_query port retries (Net.init [] []) rfl rfl).counts.2.2.2.1⟩

/-- Both bounds are attained at once by a server that answers every handshake (challenge "0") and
then stays silent: with one retry, 4 requests = 2 · 2 = 2 + 2 received. -/
example :
    nSends (query 2302 1 (Net.init [.opened [.data [9, 0, 0, 0, 1, 48, 0], .silence, .data [9, 0, 0, 0, 1, 48, 0], .silence]] [])).2.log = 4
    ∧ nRecvOk (query 2302 1 (Net.init [.opened [.data [9, 0, 0, 0, 1, 48, 0], .silence, .data [9, 0, 0, 0, 1, 48, 0], .silence]] [])).2.log = 2 := by
  decide
