import GdVerif.Lemmas.McUnits
/-
  C10 (Minecraft) — retries.  The combinator theorems are in Props/C10.lean (`retryOnTimeout`: at most r+1
  attempts, only after timeout-class errors, first non-timeout attempt decides).  Here: every Minecraft
  client routes its WHOLE exchange through that combinator (the units), what one attempt of each unit
  puts on the wire, and that an attempt ending in a malformed reply is not repeated.
-/
open Gd Gd.Mc Gd.Mc.Spec

/-- Java: handshake + status request + ping + receive + decode is ONE retried unit on ONE socket. -/
theorem C10_minecraft_java_unit (ext : Ext) (port : Nat) (rs : RequestSettings) (r : Nat) :
    queryJava ext port rs r = (openSock true port >>= fun s => retryOnTimeout r (javaGetInfoImpl ext s rs)) := rfl

/-- Bedrock: ping + receive + decode is one retried unit. -/
theorem C10_minecraft_bedrock_unit (port r : Nat) :
    queryBedrock port r = (openSock false port >>= fun s => retryOnTimeout r (bedrockGetInfoImpl s)) := rfl

/-- Legacy (each of the three): ping + receive + decode is one retried unit. -/
theorem C10_minecraft_legacy_unit (g : LegacyGroup) (port r : Nat) :
    queryLegacySpecific g port r = (openSock true port >>= fun s => retryOnTimeout r (legacyGetInfoImpl g s)) := rfl

/-- A Java attempt on which nothing arrives has sent all three packets again and ends in the timeout-class error
`PacketReceive` — so it is retried, and each retry re-sends the handshake too. -/
theorem C10_minecraft_java_attempt_timeout (ext : Ext) (rs : RequestSettings) (port : Nat) (hh : rs.hostname.length < 2 ^ 31)
    (w0 : Net) (rest : List ConnScript) (q : List Delivery) (evs : List Ev) :
    javaGetInfoImpl ext ⟨w0.conns.length, port, true⟩ rs (own w0 rest (.silence :: q) evs)
      = (.err .packetReceive, own w0 rest q (evs ++ sendEvs ⟨w0.conns.length, port, true⟩ (javaRequests rs port)
          ++ [.recv w0.conns.length none none])) := by
  have := (behaves_java ext ⟨w0.conns.length, port, true⟩ rs w0 rfl rfl rest _ (javaHandshakePayload_ok rs port hh)).silence q evs
  rw [javaReqs_eq rs port hh] at this
  exact this

/-- A reply that does not decode (any error that is not timeout-class: wrong packet id, bad JSON, wrong length, …) ends
the unit at once with that error: the malformed reply is never retried. -/
theorem C10_minecraft_malformed_not_retried {α : Type} (tcp : Bool) (port r : Nat) (f : Sock → Q α) (reqs : List Bytes)
    (dec : Bytes → Res α) (w0 : Net) (d : Bytes) (q : List Delivery) (rest : List ConnScript) (k : ErrKind)
    (hb : Behaves (f ⟨w0.conns.length, port, tcp⟩) ⟨w0.conns.length, port, tcp⟩ w0 rest reqs dec)
    (hp : w0.pending = .opened (.data d :: q) :: rest) (hf : w0.faults = [])
    (hdec : dec (if tcp then d else d.take 1024) = .err k) (hk : k.isTimeout = false) :
    (openSock tcp port >>= fun s => retryOnTimeout r (f s)) w0
      = (.err k, own w0 rest q ([.opened w0.conns.length tcp port false] ++ sendEvs ⟨w0.conns.length, port, tcp⟩ reqs
          ++ [.recv w0.conns.length none (some (if tcp then d else d.take 1024).length)])) := by
  rw [Q.bind_apply, openSock_opened tcp port w0 _ rest hp hf]
  simp only
  have := hb.data d q [.opened w0.conns.length tcp port false]
  simp only [hdec] at this
  exact retry_of_hard_err r _ _ _ k this hk

/-- the three attempts have the shape `C10_minecraft_malformed_not_retried` asks for -/
theorem C10_minecraft_attempts_behave (ext : Ext) (rs : RequestSettings) (port : Nat) (hh : rs.hostname.length < 2 ^ 31)
    (g : LegacyGroup) (w0 : Net) (rest : List ConnScript) :
    Behaves (javaGetInfoImpl ext ⟨w0.conns.length, port, true⟩ rs) ⟨w0.conns.length, port, true⟩ w0 rest (javaRequests rs port) (javaDec ext)
    ∧ Behaves (bedrockGetInfoImpl ⟨w0.conns.length, port, false⟩) ⟨w0.conns.length, port, false⟩ w0 rest [bedrockRequest] bedrockParse.run
    ∧ Behaves (legacyGetInfoImpl g ⟨w0.conns.length, port, true⟩) ⟨w0.conns.length, port, true⟩ w0 rest [legacyRequest g]
        (fun d => (legacyParse g d.length).run d) := by
  refine ⟨?_, behaves_bedrock _ w0 rfl rest, behaves_legacy g _ w0 rfl rest⟩
  have := behaves_java ext ⟨w0.conns.length, port, true⟩ rs w0 rfl rfl rest _ (javaHandshakePayload_ok rs port hh)
  rwa [javaReqs_eq rs port hh] at this

-- non-vacuity: two silent reads, then a malformed stream, retries = 3: three attempts, the third decides
example : (queryLegacySpecific .v1_4 25565 3 (Net.init [.opened [.silence, .silence, .data [0x00]]] [])).1 = .err .protocolFormat
    ∧ ((queryLegacySpecific .v1_4 25565 3 (Net.init [.opened [.silence, .silence, .data [0x00]]] [])).2.log.filter
        (fun e => match e with | .send _ _ _ _ => true | _ => false)).length = 3 := by
  decide
