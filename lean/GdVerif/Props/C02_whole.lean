import GdVerif.Lemmas.ValveWhole2
import GdVerif.Proto.Games
/-
  C02 — the WHOLE Valve query reproduces the server's state field for field.

  `Props/C02.lean` has one theorem per section parser (parse ∘ SPEC-encode = state).  Here they are composed through
  the code that actually runs: `Valve.query` = open the socket, `A2S_INFO` / `A2S_PLAYER` / `A2S_RULES` through
  `get_request_data` (retry wrapper, challenge loop, `receive` with split-packet reassembly), gathering toggles,
  app-id check.  The server is the SPEC's (`Spec/Valve.lean`): `script cfg st` is every datagram it sends,
  `expected cfg st` the response the user is entitled to.

  MODEL: `GdVerif/Proto/Valve.lean`, `GdVerif/Proto/Games.lean` (`gameView`).
  SPEC:  `GdVerif/Spec/Valve.lean` (`State`, `Config`, `script`, `scriptAs`, `expected`, `wf`, `wfExchanges`, `fits`).
  The generator of the correspondence cases (`Run/GenValve.lean`) prints exactly `Spec.script cfg st` and
  `Spec.expected cfg st`, so what is proved here is what is exercised against the Rust.
-/
open Gd Gd.Valve Gd.Valve.Spec

/-- For every server state in the specification's domain (`wf`: all 32 extra-data flag subsets, either case of the
type bytes, Source or obsolete GoldSrc info layout with or without mod data, The Ship fields, 0–255 players, 0–65535
rules), every engine and gathering setting, every port, every retry count, every behaviour of the external decoders,
and every exchange in which each of the three requests is answered after ANY number of challenge rounds (any challenge
bytes) and the final reply comes in one datagram or split — Source layout for Source engines (uncompressed, ≤ 255
fragments), GoldSrc layout for GoldSrc engines (≤ 15 fragments), any cut points (`wfExchanges`; `uncompressed`:
the bzip2 variant is `C02_whole_compressed`) — with every datagram within the
client's 6144-byte receive buffer: `valve::query` returns exactly the response the SPEC entitles the user to, i.e.
the state field for field (`BadGame` exactly when the app-id check says so). -/
theorem C02_whole (ext : Ext) (port retries : Nat) (cfg : Config) (st : State)
    (hwf : wf cfg st = true) (hx : wfExchanges cfg = true) (hu : uncompressed cfg = true)
    (hfit : fits (script cfg st) = true) :
    (Valve.query ext port cfg.engine cfg.gather retries (Net.init [.opened ((script cfg st).map .data)] [])).1
      = expected cfg st := by
  simp only [uncompressed, Bool.and_eq_true, Bool.not_eq_true'] at hu
  rw [script_eq_scriptAs] at hfit ⊢
  exact query_whole ext port retries cfg st hwf hx (bzOk_of_uncompressed _ _ _ hu.1.1)
    (bzOk_of_uncompressed _ _ _ hu.1.2) (bzOk_of_uncompressed _ _ _ hu.2) _ _ _
    (List.Perm.refl _) (List.Perm.refl _) (List.Perm.refl _) hfit

/-- The same when the fragments of each split reply arrive in ANY order (UDP keeps none): `ai`, `ap`, `ar` are
arbitrary permutations of the datagrams carrying the three final replies (composition with C08's
`C08_valve_any_order`). -/
theorem C02_whole_any_order (ext : Ext) (port retries : Nat) (cfg : Config) (st : State)
    (hwf : wf cfg st = true) (hx : wfExchanges cfg = true) (hu : uncompressed cfg = true) (ai ap ar : List Bytes)
    (hai : ai.Perm (infoDatagrams cfg st)) (hap : ap.Perm (playersDatagrams cfg st))
    (har : ar.Perm (rulesDatagrams cfg st)) (hfit : fits (scriptAs cfg ai ap ar) = true) :
    (Valve.query ext port cfg.engine cfg.gather retries (Net.init [.opened ((scriptAs cfg ai ap ar).map .data)] [])).1
      = expected cfg st := by
  simp only [uncompressed, Bool.and_eq_true, Bool.not_eq_true'] at hu
  exact query_whole ext port retries cfg st hwf hx (bzOk_of_uncompressed _ _ _ hu.1.1)
    (bzOk_of_uncompressed _ _ _ hu.1.2) (bzOk_of_uncompressed _ _ _ hu.2) ai ap ar hai hap har hfit

/-- With bzip2-compressed Source split replies (any of the three, mixed freely with the other transports; fragment 0
announces size and CRC-32, bit 31 of the id set).  bzip2-rs and crc32fast are parameters of the model (`ext`), the
server's compressor is the parameter `compress`; the hypothesis is the law that ties them: the client's decoder
inverts the server's compressor (`hlaw`), and each compressed reply carries `compress reply` and the checksum the
client's CRC-32 computes for the reply, the reply being within the client's 4 MiB decompression limit (`hcar`).
Any arrival order of the fragments. -/
theorem C02_whole_compressed (ext : Ext) (compress : Bytes → Bytes) (hlaw : ∀ p, ext.bunzip (compress p) = some p)
    (port retries : Nat) (cfg : Config) (st : State)
    (hwf : wf cfg st = true) (hx : wfExchanges cfg = true) (hcar : carries compress ext.crc32 cfg st)
    (ai ap ar : List Bytes)
    (hai : ai.Perm (infoDatagrams cfg st)) (hap : ap.Perm (playersDatagrams cfg st))
    (har : ar.Perm (rulesDatagrams cfg st)) (hfit : fits (scriptAs cfg ai ap ar) = true) :
    (Valve.query ext port cfg.engine cfg.gather retries (Net.init [.opened ((scriptAs cfg ai ap ar).map .data)] [])).1
      = expected cfg st :=
  query_whole ext port retries cfg st hwf hx (bzOk_of_law ext compress hlaw _ _ hcar.1)
    (bzOk_of_law ext compress hlaw _ _ hcar.2.1) (bzOk_of_law ext compress hlaw _ _ hcar.2.2) ai ap ar hai hap har hfit

/-- What `expected` is, spelled out: the info block is the state's, the players and the rules are the state's exactly
when that section is asked for (Risk of Rain 2: without the rule `Test`, as documented). -/
theorem C02_whole_expected_fields (cfg : Config) (st : State) (r : Response) (h : expected cfg st = .ok r) :
    r.info = st.info
    ∧ r.players = (if cfg.gather.players == .skip then none else some st.players)
    ∧ r.rules = (if cfg.gather.rules == .skip then none else some (expectedRules cfg.engine st.rules)) := by
  unfold expected at h
  split at h
  · cases h
  · cases h; exact ⟨rfl, rfl, rfl⟩

/-- "the per-game response derived from it carries the same values": for every state and configuration, every field
of `game::Response::new_from_valve_response(expected response)` is the correspondingly named field of the server's
state; the five optional fields are those of the extra-data block (absent when the block is), the player list keeps
name / score / duration of every player in order, absent sections become empty collections. -/
theorem C02_game_view_fields (cfg : Config) (st : State) (r : Response) (h : expected cfg st = .ok r) :
    let g := Games.gameView r
    g.protocol = st.info.protocolVersion ∧ g.name = st.info.name ∧ g.map = st.info.map
    ∧ g.game = st.info.gameMode ∧ g.appid = st.info.appid ∧ g.playersOnline = st.info.playersOnline
    ∧ g.playersMaximum = st.info.playersMaximum ∧ g.playersBots = st.info.playersBots
    ∧ g.serverType = st.info.serverType ∧ g.hasPassword = st.info.hasPassword ∧ g.vacSecured = st.info.vacSecured
    ∧ g.version = st.info.gameVersion
    ∧ g.port = st.info.extraData.bind (·.port) ∧ g.steamId = st.info.extraData.bind (·.steamId)
    ∧ g.tvPort = st.info.extraData.bind (·.tvPort) ∧ g.tvName = st.info.extraData.bind (·.tvName)
    ∧ g.keywords = st.info.extraData.bind (·.keywords)
    ∧ g.playersDetails = (if cfg.gather.players == .skip then []
        else st.players.map fun p => ⟨p.name, p.score, p.duration⟩)
    ∧ g.rules = (if cfg.gather.rules == .skip then [] else expectedRules cfg.engine st.rules) := by
  obtain ⟨hi, hp, hr⟩ := C02_whole_expected_fields cfg st r h
  obtain ⟨info, players, rules⟩ := r
  simp only at hi hp hr
  subst hi hp hr
  intro g
  refine ⟨rfl, rfl, rfl, rfl, rfl, rfl, rfl, rfl, rfl, rfl, rfl, rfl, rfl, rfl, rfl, rfl, rfl, ?_, ?_⟩
  · show ((if cfg.gather.players == .skip then none else some st.players).getD []).map _ = _
    cases cfg.gather.players <;> rfl
  · show (if cfg.gather.rules == .skip then none else some (expectedRules cfg.engine st.rules)).getD [] = _
    cases cfg.gather.rules <;> rfl

/-- The two together: the game response of the whole query against a conforming server. -/
theorem C02_whole_game_view (ext : Ext) (port retries : Nat) (cfg : Config) (st : State)
    (hwf : wf cfg st = true) (hx : wfExchanges cfg = true) (hu : uncompressed cfg = true)
    (hfit : fits (script cfg st) = true) :
    (Games.mapQ Games.gameView (Valve.query ext port cfg.engine cfg.gather retries)
        (Net.init [.opened ((script cfg st).map .data)] [])).1
      = (expected cfg st >>= fun r => Res.ok (Games.gameView r)) := by
  have h := C02_whole ext port retries cfg st hwf hx hu hfit
  unfold Games.mapQ
  rw [Q.bind_apply]
  revert h
  cases Valve.query ext port cfg.engine cfg.gather retries (Net.init [.opened ((script cfg st).map .data)] []) with
  | mk res w =>
    intro h
    simp only at h
    rw [← h]
    cases res <;> rfl

/-! ### non-vacuity -/

/-- a TF2-like server: info behind 2 challenge rounds and split into 3 Source fragments, players behind 1 challenge
in one datagram, rules split in 2 -/
def C02_whole_demoCfg : Config :=
  ⟨Engine.new 440, ⟨.enforce, .try_, true⟩, false, [],
    ⟨[[1, 2, 3, 4], [0xFF, 0xFF, 0xFF, 0xFF]], .sourceSplit 7 [10, 10]⟩,
    ⟨[[0, 0, 0, 0x41]], .single⟩,
    ⟨[], .sourceSplit 9 [3]⟩⟩

def C02_whole_demoState : State :=
  ⟨⟨17, [84, 70, 50], [99, 112], [116, 102], [84, 70], 440, 3, 24, 1, .dedicated, .linux, false, true, none, [49],
      some ⟨some 27015, some 5, some 27020, some [116, 118], some [97, 44, 98], some (440 + 2 ^ 24 * 9)⟩, false, none⟩,
    [⟨[80], -3, 0x41200000, none, none⟩, ⟨[81, 82], 70000, 0, none, none⟩],
    [([97], [98]), ([99, 100], [])]⟩

-- the hypotheses of `C02_whole` hold for it (2 challenge rounds and a 3-fragment split on the info exchange),
-- so the theorem applies: the query returns the state
example (ext : Ext) (port retries : Nat) :
    C02_whole_demoCfg.info.challenges.length = 2 ∧ (infoDatagrams C02_whole_demoCfg C02_whole_demoState).length = 3
    ∧ (script C02_whole_demoCfg C02_whole_demoState).length = 9
    ∧ (Valve.query ext port (Engine.new 440) ⟨.enforce, .try_, true⟩ retries
        (Net.init [.opened ((script C02_whole_demoCfg C02_whole_demoState).map .data)] [])).1
      = .ok ⟨C02_whole_demoState.info, some C02_whole_demoState.players, some C02_whole_demoState.rules⟩ := by
  refine ⟨by decide, by decide, by decide, ?_⟩
  have h := C02_whole ext port retries C02_whole_demoCfg C02_whole_demoState (by decide) (by decide) (by decide) (by decide)
  rw [show expected C02_whole_demoCfg C02_whole_demoState
    = .ok ⟨C02_whole_demoState.info, some C02_whole_demoState.players, some C02_whole_demoState.rules⟩ by decide] at h
  exact h

-- any order: the three info fragments arriving as 2, 0, 1
example (ext : Ext) (port retries : Nat) :
    let ds := infoDatagrams C02_whole_demoCfg C02_whole_demoState
    let ai := ds.drop 2 ++ ds.take 2
    ai ≠ ds ∧
    (Valve.query ext port (Engine.new 440) ⟨.enforce, .try_, true⟩ retries
        (Net.init [.opened ((scriptAs C02_whole_demoCfg ai (playersDatagrams C02_whole_demoCfg C02_whole_demoState)
          (rulesDatagrams C02_whole_demoCfg C02_whole_demoState)).map .data)] [])).1
      = expected C02_whole_demoCfg C02_whole_demoState := by
  intro ds ai
  refine ⟨by decide, ?_⟩
  exact C02_whole_any_order ext port retries C02_whole_demoCfg C02_whole_demoState (by decide) (by decide) (by decide) ai _ _
    (List.perm_append_comm.trans (by rw [List.take_append_drop])) (List.Perm.refl _) (List.Perm.refl _) (by decide)

-- compressed: the rules reply as a 3-fragment compressed split; the law is satisfiable (an `ext` whose decoder
-- inverts `compress`: here both the identity, checksum constant), so are the other hypotheses
example (port retries : Nat) :
    let ext : Ext := ⟨some, fun _ => 7⟩
    let packet := reply 0x45 (encRules C02_whole_demoState.rules)
    let cfg : Config := { C02_whole_demoCfg with rules := ⟨[[9, 9, 9, 9]], .sourceSplitBz (2 ^ 31 + 5) [4, 4] packet 7⟩ }
    (rulesDatagrams cfg C02_whole_demoState).length = 3 ∧
    (Valve.query ext port cfg.engine cfg.gather retries
        (Net.init [.opened ((script cfg C02_whole_demoState).map .data)] [])).1
      = expected cfg C02_whole_demoState := by
  intro ext packet cfg
  refine ⟨by decide, ?_⟩
  rw [script_eq_scriptAs]
  exact C02_whole_compressed ext id (fun _ => rfl) port retries cfg C02_whole_demoState (by decide) (by decide)
    ⟨trivial, trivial, rfl, rfl, by decide⟩ _ _ _ (List.Perm.refl _) (List.Perm.refl _) (List.Perm.refl _) (by decide)

-- obsolete GoldSrc info layout (with mod data) behind 2 challenge rounds in a 3-fragment GoldSrc split, rules in a
-- 2-fragment GoldSrc split arriving reversed
example (ext : Ext) (port retries : Nat) :
    let st : State := ⟨⟨47, [72, 76], [99, 50], [118], [72], 0, 2, 16, 1, .dedicated, .windows, true, false, none, [], none,
        true, some ⟨[104], [100], 3, 70000, true, false⟩⟩, [⟨[80], 5, 0x3F800000, none, none⟩], [([107], [118])]⟩
    let cfg : Config := ⟨.goldSrc true, ⟨.try_, .enforce, true⟩, false, [49, 46, 50, 58, 51],
      ⟨[[5, 6, 7, 8], [0x41, 0, 0, 0]], .goldSplit 77 [9, 9]⟩, ⟨[], .single⟩, ⟨[[1, 1, 1, 1]], .goldSplit 78 [5]⟩⟩
    (infoDatagrams cfg st).length = 3 ∧
    (Valve.query ext port cfg.engine cfg.gather retries
        (Net.init [.opened ((scriptAs cfg (infoDatagrams cfg st) (playersDatagrams cfg st)
          (rulesDatagrams cfg st).reverse).map .data)] [])).1
      = .ok ⟨st.info, some st.players, some st.rules⟩ := by
  intro st cfg
  refine ⟨by decide, ?_⟩
  have h := C02_whole_any_order ext port retries cfg st (by decide) (by decide) (by decide) _ _ _
    (List.Perm.refl _) (List.Perm.refl _) (List.reverse_perm _) (by decide)
  rw [show expected cfg st = .ok ⟨st.info, some st.players, some st.rules⟩ by decide] at h
  exact h

-- the game view of that state: the hypothesis of `C02_game_view_fields` / `C02_whole_expected_fields` is satisfiable
example : ∃ r, expected C02_whole_demoCfg C02_whole_demoState = .ok r
    ∧ (Games.gameView r).name = [84, 70, 50] ∧ (Games.gameView r).port = some 27015
    ∧ (Games.gameView r).rules = [([97], [98]), ([99, 100], [])] :=
  ⟨⟨C02_whole_demoState.info, some C02_whole_demoState.players, some C02_whole_demoState.rules⟩, by decide, by decide,
    by decide, by decide⟩

-- the game view of that state
example : (Games.gameView ⟨C02_whole_demoState.info, some C02_whole_demoState.players, some C02_whole_demoState.rules⟩).playersDetails
      = [⟨[80], -3, 0x41200000⟩, ⟨[81, 82], 70000, 0⟩] := by
  decide
