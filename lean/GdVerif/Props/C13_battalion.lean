import GdVerif.Lemmas.SmallCost
import GdVerif.Lemmas.SmallBlock
/-
  C13 (requests sent) — Battalion 1944: the Valve query with the default timeout settings (no
  retries), then pure overrides.  `units` = 3 with `retries` = 0.
-/
open Gd Gd.Battalion

/-- At most three datagrams (info, players, rules) plus one per datagram received, for every script
and fault vector. -/
theorem C13_battalion_send_bound (ext : Valve.Ext) (port : Nat) (script : List ConnScript) (faults : List Bool) :
    nSends (query ext port (Net.init script faults)).2.log
      ≤ 3 * (0 + 1) + nRecvOk (query ext port (Net.init script faults)).2.log := by
  have := (cost_query ext port).total (k := 3) script faults
  omega

/-- the bound holds a fortiori for whatever retry count the caller's settings carry (the form checked
by the trace oracle, which reads the retry count from the case line) -/
theorem C13_battalion_send_bound_units (ext : Valve.Ext) (port retries : Nat) (script : List ConnScript) (faults : List Bool) :
    nSends (query ext port (Net.init script faults)).2.log
      ≤ 3 * (retries + 1) + nRecvOk (query ext port (Net.init script faults)).2.log := by
  have := C13_battalion_send_bound ext port script faults
  omega

/-- three requests are made when the info is answered and nothing else is -/
example : nSends (query ⟨fun _ => none, fun _ => 0⟩ 7780 (Net.init [.opened [.data [255, 255, 255, 255, 73, 255, 195, 169, 0, 195, 191, 0, 194, 167, 41, 195, 191, 91, 38, 0, 65, 92, 1, 65, 95, 0, 212, 121, 128, 22, 254, 68, 77, 1, 1, 194, 167, 38, 239, 191, 191, 92, 45, 45, 195, 191, 194, 167, 0, 1, 212, 121, 7, 0, 0, 0, 0, 0], .silence, .silence]] [])).2.log = 3 := by
  decide +kernel
