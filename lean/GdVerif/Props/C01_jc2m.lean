import GdVerif.Lemmas.Jc2m
/-
  C01 (Just Cause 2: Multiplayer) — hostile server responses never crash or hang
  `jc2m::query` / `jc2m::query_with_timeout`.

  MODEL: `GdVerif/Proto/Jc2m.lean` on top of `GdVerif/Proto/Gs3.lean` (single-packet mode), tied to
  games/jc2m and protocols/gamespy/protocols/three by `./check C01` and `./check C07` on every run.
-/
open Gd

/-- For EVERY reply script, port (given or omitted) and retry count the query returns a response or
an error. -/
theorem C01_jc2m_query (port : Option Nat) (retries : Nat) (script : List ConnScript) (faults : List Bool) :
    (Jc2m.query port retries (Net.init script faults)).1 ≠ .crash :=
  (Jc2m.query_safe port retries (Net.init script faults)).1

/-- The player block and the whole post-processing on any bytes; the count field sizes a vector of at
most 65535 entries (it is a `u16`) and is not otherwise used. -/
theorem C01_jc2m_parsers (data : Bytes) (packets : List Bytes) :
    Jc2m.parsePlayers.run data ≠ .crash ∧ Jc2m.buildResponse packets ≠ .crash ∧ Gs3.readSingle.run data ≠ .crash :=
  ⟨Gs3.run_ne_crash Jc2m.safe_parsePlayers data, Jc2m.buildResponse_ne packets, Gs3.run_ne_crash Gs3.safe_readSingle data⟩

/-- the reservation made from the count field is bounded whatever the reply says -/
theorem C01_jc2m_count_bounded (data : Bytes) (n : Nat) (b : Buf) (h : readUnsigned .big 2 (Buf.new data) = .ok (n, b)) :
    n < 65536 := by
  unfold readUnsigned at h
  split at h
  · cases h
  · cases h
    have := leNat_lt ((Buf.new data).rest.take 2).reverse
    simp only [Endian.decode, beNat_eq_leNat_reverse]
    have hl : ((Buf.new data).rest.take 2).reverse.length ≤ 2 := by simp; omega
    calc leNat ((Buf.new data).rest.take 2).reverse < 256 ^ ((Buf.new data).rest.take 2).reverse.length := this
      _ ≤ 256 ^ 2 := Nat.pow_le_pow_right (by omega) hl
      _ = 65536 := by decide

-- non-vacuity: a hostile script — a valid handshake, then a packet that ends inside the split header
example : (Jc2m.query none 0 (Net.init [.opened [.data [9, 0, 0, 0, 1, 0x30, 0], .data [0, 0, 0, 0, 1, 1, 2, 3]]] [])).1
    = .err .packetBad := by
  decide
