import GdVerif.Lemmas.McFaults
import GdVerif.Props.C03
/-
  C10 on WHOLE Minecraft Bedrock queries with faults injected.

  `Props/C10.lean` proves C10 for the combinator, `Props/C10_minecraft.lean` names the retried unit (ping + read + decode
  on one UDP socket).  Here the property is proved end to end for `queryBedrock` against the SPEC's server
  (`Spec/Minecraft.lean`), on the scripts of `props/families/mcbedrock.py: c10_build` (`props/mc_c10.py`): a plan
  (`Spec/FaultsN.lean: PlanN`, one request per attempt) lists the attempts that end in a timeout-class failure — the
  ping cannot be sent, or it goes out and no datagram comes back — and then the datagram that answers (the server's
  pong, or a malformed one), or nothing.  `PlanN.deliveries` / `PlanN.faults 1` are the two arguments of `Net.init`;
  what follows them (`restQ`, `restF`) is arbitrary.
-/
open Gd Gd.Mc Gd.Mc.Spec Gd.Faults

/-- THE GENERAL STATEMENT: for every plan in C10's domain (every failed attempt a failed send of the ping or a lost
reply; an answered unit had at most `retries` failures before and its answer fits the 1024-byte buffer, a unit given
up exactly `retries + 1`) whose answer, if the decoder rejects it, is rejected with an error that is not a timeout: the
result is the plan's outcome — the decoder applied to the answer, or the last failure's error — and the ping was sent
exactly as the plan says. -/
theorem C10_mcbedrock_query_faulty (port retries : Nat) (p : PlanN)
    (hp : p.wf retries 1 (fitsRead false none) = true)
    (hcheck : ∀ d e, p.answer = some d → bedrockParse.run d = .err e → e.isTimeout = false)
    (restQ : List Delivery) (restF : List Bool) :
    (queryBedrock port retries (Net.init [.opened (p.deliveries ++ restQ)] (p.faults 1 ++ restF))).1
      = p.outcome bedrockParse.run
    ∧ sentOf (queryBedrock port retries (Net.init [.opened (p.deliveries ++ restQ)] (p.faults 1 ++ restF))).2.log
      = p.sends [bedrockRequest] := by
  rw [queryBedrock_queryN]
  exact queryN_faulty false port retries [bedrockRequest] none bedrockParse.run p hp hcheck restQ restF

/-- (a) RECOVERY.  `fails` (any number ≤ `retries`, each a failed send or a lost reply) precede the server's pong:
the query returns exactly `expectedBedrock st` — by `C03_bedrock` the result with no faults —, and the ping was sent
`fails.length + 1` times. -/
theorem C10_mcbedrock_query_recovers (st : BedrockStatus) (h : wfBedrock st = true) (port retries : Nat)
    (fails : List AttemptN) (hfails : ∀ a ∈ fails, a.wf 1 = true) (hk : fails.length ≤ retries)
    (restQ : List Delivery) (restF : List Bool) :
    let p : PlanN := ⟨fails, some (unconnectedPong clientTime st)⟩
    let out := queryBedrock port retries (Net.init [.opened (p.deliveries ++ restQ)] (p.faults 1 ++ restF))
    out.1 = .ok (expectedBedrock st)
    ∧ sentOf out.2.log = fails.map (fun a => (bedrockRequest, a.sendFault)) ++ [(bedrockRequest, false)]
    ∧ (sentOf out.2.log).length = fails.length + 1 := by
  intro p out
  have hlen : (unconnectedPong clientTime st).length ≤ 1024 := by
    simp only [wfBedrock, Bool.and_eq_true, decide_eq_true_eq] at h; exact h.2
  have := queryN_recovers false port retries [bedrockRequest] none bedrockParse.run (unconnectedPong clientTime st)
    (expectedBedrock st) (decodesEnd_bedrockParse st h).run (by simp [fitsRead, hlen]) fails hfails hk restQ restF
  rw [← queryBedrock_queryN, sends_one_flatMap _ _ hfails] at this
  obtain ⟨h1, h2⟩ := this
  have h2' : sentOf out.2.log = fails.map (fun a => (bedrockRequest, a.sendFault)) ++ [(bedrockRequest, false)] := h2
  exact ⟨h1, h2', by rw [h2']; simp⟩

/-- (b) EXHAUSTION.  All `retries + 1` attempts end in a timeout-class failure: the query fails with the last attempt's
error — `PacketReceive`, or `PacketSend` when that attempt was a failed send — after exactly `retries + 1` pings,
whatever the script still holds. -/
theorem C10_mcbedrock_query_exhausted (port retries : Nat) (fails : List AttemptN)
    (hfails : ∀ a ∈ fails, a.wf 1 = true) (hk : fails.length = retries + 1) (restQ : List Delivery)
    (restF : List Bool) :
    let p : PlanN := ⟨fails, none⟩
    let out := queryBedrock port retries (Net.init [.opened (p.deliveries ++ restQ)] (p.faults 1 ++ restF))
    out.1 = .err (lastError AttemptN.error fails)
    ∧ (out.1 = .err .packetReceive ∨ out.1 = .err .packetSend)
    ∧ sentOf out.2.log = fails.map (fun a => (bedrockRequest, a.sendFault))
    ∧ (sentOf out.2.log).length = retries + 1 := by
  intro p out
  have := queryN_exhausted false port retries [bedrockRequest] none bedrockParse.run fails hfails hk restQ restF
  rw [← queryBedrock_queryN, sends_one_flatMap _ _ hfails] at this
  obtain ⟨h1, h2, h3⟩ := this
  have h3' : sentOf out.2.log = fails.map (fun a => (bedrockRequest, a.sendFault)) := h3
  exact ⟨h1, h2, h3', by rw [h3', List.length_map, hk]⟩

/-- (c) A MALFORMED REPLY IS NOT RETRIED.  After any number ≤ `retries` of timed-out attempts the datagram that
arrives is not an unconnected pong — ANY datagram (within the buffer) that is empty or does not start with `1C`
(`Spec.malformedBedrock`).  Whatever `retries` is, the query fails at once with `PacketBad` / `PacketUnderflow` (not a
timeout-class error), and no further ping is sent: `fails.length + 1` in all. -/
theorem C10_mcbedrock_query_malformed_not_retried (port retries : Nat) (fails : List AttemptN)
    (hfails : ∀ a ∈ fails, a.wf 1 = true) (hk : fails.length ≤ retries) (m : Bytes)
    (hm : malformedBedrock m = true) (hl : m.length ≤ 1024) (restQ : List Delivery) (restF : List Bool) :
    let p : PlanN := ⟨fails, some m⟩
    let out := queryBedrock port retries (Net.init [.opened (p.deliveries ++ restQ)] (p.faults 1 ++ restF))
    out.1 = .err (malformedBedrockError m)
    ∧ (malformedBedrockError m).isTimeout = false
    ∧ sentOf out.2.log = fails.map (fun a => (bedrockRequest, a.sendFault)) ++ [(bedrockRequest, false)]
    ∧ (sentOf out.2.log).length = fails.length + 1 := by
  intro p out
  have := queryN_malformed false port retries [bedrockRequest] none bedrockParse.run m _ (bedrock_malformed m hm)
    (malformedBedrockError_not_timeout m) (by simp [fitsRead, hl]) fails hfails hk restQ restF
  rw [← queryBedrock_queryN, sends_one_flatMap _ _ hfails] at this
  obtain ⟨h1, h2⟩ := this
  have h2' : sentOf out.2.log = fails.map (fun a => (bedrockRequest, a.sendFault)) ++ [(bedrockRequest, false)] := h2
  exact ⟨h1, malformedBedrockError_not_timeout m, h2', by rw [h2']; simp⟩

/-- the ping on the wire is the SPEC's -/
theorem C10_mcbedrock_request : bedrockRequests = [bedrockRequest] := by decide

/-! ### non-vacuity -/

def C10_mcbedrock_exStatus : BedrockStatus :=
  ⟨asciiBytes "MCPE", asciiBytes "Srv", asciiBytes "527", asciiBytes "1.19", 3, 20, some (asciiBytes "77"),
    some (asciiBytes "lvl"), some .survival, [], [1, 2, 3, 4, 5, 6, 7, 8]⟩

-- (a) retries = 2: a failed send and a lost reply before the pong: the status, 3 pings
example (port : Nat) :
    wfBedrock C10_mcbedrock_exStatus = true
    ∧ (queryBedrock port 2 (Net.init
        [.opened ((PlanN.mk [⟨0, true⟩, ⟨1, false⟩] (some (unconnectedPong clientTime C10_mcbedrock_exStatus))).deliveries ++ [])]
        ((PlanN.mk [⟨0, true⟩, ⟨1, false⟩] (some (unconnectedPong clientTime C10_mcbedrock_exStatus))).faults 1 ++ []))).1
      = .ok (expectedBedrock C10_mcbedrock_exStatus) := by
  have hw : wfBedrock C10_mcbedrock_exStatus = true := by decide +kernel
  exact ⟨hw, (C10_mcbedrock_query_recovers C10_mcbedrock_exStatus hw port 2 [⟨0, true⟩, ⟨1, false⟩] (by decide) (by decide)
    [] []).1⟩

-- (b) retries = 1: two lost replies: PacketReceive, whatever is still queued
example (port : Nat) (restQ : List Delivery) :
    (queryBedrock port 1 (Net.init [.opened ((PlanN.mk [⟨1, false⟩, ⟨1, false⟩] none).deliveries ++ restQ)]
      ((PlanN.mk [⟨1, false⟩, ⟨1, false⟩] none).faults 1 ++ []))).1 = .err .packetReceive :=
  (C10_mcbedrock_query_exhausted port 1 [⟨1, false⟩, ⟨1, false⟩] (by decide) rfl restQ []).1

-- (c) retries = 4: the check's malformed datagram `ff ff`; the empty datagram is malformed too
example (port : Nat) :
    (queryBedrock port 4 (Net.init [.opened ((PlanN.mk [⟨1, false⟩] (some [0xFF, 0xFF])).deliveries ++ [])]
      ((PlanN.mk [⟨1, false⟩] (some [0xFF, 0xFF])).faults 1 ++ []))).1 = .err .packetBad
    ∧ malformedBedrock [] = true ∧ malformedBedrockError [] = .packetUnderflow :=
  ⟨(C10_mcbedrock_query_malformed_not_retried port 4 [⟨1, false⟩] (by decide) (by decide) [0xFF, 0xFF] (by decide)
    (by decide) [] []).1, by decide, by decide⟩
