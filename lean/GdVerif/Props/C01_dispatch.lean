import GdVerif.Lemmas.Dispatch
/-
  C01 — the generic definition-driven dispatch (`games::query::query_with_timeout_and_extra_settings`,
  `query_with_timeout`, `query`) never crashes; nor do the per-game modules.

  MODEL: `GdVerif/Proto/Dispatch.lean` (every arm built without the `tls` feature).  The proof composes the
  families' crash-freedom theorems (`Valve.query_safe`, `Gs1.query_safe`, …, `Mc.queryAuto_safe`).  The one piece
  of I/O that is a parameter of the model, Eco's HTTP client (ureq + serde), must itself not panic: that is the
  hypothesis `EcoSafeFor`, which asks nothing for any other arm.
-/
open Gd Gd.Dispatch Gd.Gen

/-- For EVERY definition (any protocol arm, any default port, any request settings — in particular every row of the
generated table), every port or none, every timeout settings (any retry count) or none, every extra settings or
none, every script (what the peer delivers to each socket, refused connections), every send-fault vector and every
behaviour of the external decoders (bzip2, CRC-32, the JSON crate): the definition-driven query does not crash. -/
theorem C01_dispatch (ext : Ext) (game : Game) (heco : EcoSafeFor ext game.protocol) (port : Option Nat)
    (timeout : Option Settings.Timeout) (extra : Option Extra) (script : List ConnScript) (faults : List Bool) :
    (generic ext game port timeout extra (Net.init script faults)).1 ≠ .crash :=
  (generic_logSafe ext game heco port timeout extra (Net.init script faults)).1

/-- The same from any transport state (a query made after others on the same scripted network). -/
theorem C01_dispatch_any_state (ext : Ext) (game : Game) (heco : EcoSafeFor ext game.protocol) (port : Option Nat)
    (timeout : Option Settings.Timeout) (extra : Option Extra) (w : Net) :
    (generic ext game port timeout extra w).1 ≠ .crash :=
  (generic_logSafe ext game heco port timeout extra w).1

/-- Every row of the GENERATED definitions table is such a definition (none falls outside the model), so the
statement holds for every game the library ships; for every row but Eco's without any hypothesis. -/
theorem C01_dispatch_rows {d : GameRow} (hd : d ∈ gameDefs) (ext : Ext) (heco : d.tag = .eco → EcoSafe ext)
    (port : Option Nat) (timeout : Option Settings.Timeout) (extra : Option Extra) (script : List ConnScript)
    (faults : List Bool) :
    ∃ game, Game.ofRow d = some game ∧ (generic ext game port timeout extra (Net.init script faults)).1 ≠ .crash := by
  have hall : (gameDefs.all fun d => (Game.ofRow d).isSome) = true := by decide
  have hsome := List.all_eq_true.mp hall d hd
  obtain ⟨game, hg⟩ := Option.isSome_iff_exists.mp hsome
  refine ⟨game, hg, C01_dispatch ext game ?_ port timeout extra script faults⟩
  exact fun hp => heco (game_ofRow_eco hg hp)

/-- `games::query::query_with_timeout` and `games::query::query` are the same function with `None`s. -/
theorem C01_dispatch_wrappers (ext : Ext) (game : Game) (heco : EcoSafeFor ext game.protocol) (port : Option Nat)
    (timeout : Option Settings.Timeout) (script : List ConnScript) (faults : List Bool) :
    (genericWithTimeout ext game port timeout (Net.init script faults)).1 ≠ .crash
    ∧ (genericQuery ext game port (Net.init script faults)).1 ≠ .crash :=
  ⟨C01_dispatch ext game heco port timeout none script faults, C01_dispatch ext game heco port none none script faults⟩

/-- Every kind of per-game module (`game_query_fn!` of the four protocol families, the hand-written modules incl.
`battalion1944` and the five `games::minecraft` functions), port given or omitted. -/
theorem C01_dispatch_module (ext : Ext) (m : Module) (heco : m = .eco → EcoSafe ext) (port : Option Nat)
    (script : List ConnScript) (faults : List Bool) :
    (moduleQuery ext m port (Net.init script faults)).1 ≠ .crash :=
  (moduleQuery_logSafe ext m heco port (Net.init script faults)).1

/-- The settings conversions the dispatch applies are total functions of any extra settings. -/
theorem C01_dispatch_settings (e : Extra) :
    e.toValve = ⟨e.gatherPlayers.getD .try_, e.gatherRules.getD .try_, e.checkAppId.getD true⟩
    ∧ e.toUnreal2 = ⟨e.gatherPlayers.getD .try_, e.gatherRules.getD .enforce⟩
    ∧ e.toMinecraft = ⟨e.hostname.getD (asciiBytes "gamedig"), e.protocolVersion.getD (-1)⟩
    ∧ e.toEco = ⟨e.hostname⟩ := ⟨rfl, rfl, rfl, rfl⟩

/-- the error kind of a result, if it is an error (the responses themselves need not have decidable equality) -/
def C01_dispatch_kind : Res α → Option ErrKind
  | .err k => some k
  | _ => none

-- non-vacuity: hostile scripts are in the quantifier, on concrete rows of the generated table
-- teamfortress2 through the generic path: a reply cut inside the header is an error value
example :
    C01_dispatch_kind (generic ⟨⟨fun _ => none, fun _ => 0⟩, ⟨fun _ => none, fun _ => []⟩, fun _ _ _ => Q.fail .socketConnect⟩
      ⟨27015, .valve (Valve.Engine.new 440), valveIntoExtra Valve.Gather.default⟩ none none none
      (Net.init [.opened [.data [0xFF, 0xFF]]] [])).1 = some .packetUnderflow := by
  decide +kernel
-- quake3arena (`q3a`), two retries, silence all the way: three attempts then the timeout error
example :
    C01_dispatch_kind (generic ⟨⟨fun _ => none, fun _ => 0⟩, ⟨fun _ => none, fun _ => []⟩, fun _ _ _ => Q.fail .socketConnect⟩
      ⟨27960, .quake .three, valveIntoExtra Valve.Gather.default⟩ none (some ⟨none, none, none, 2⟩) none
      (Net.init [.opened [.silence, .silence, .silence]] [])).1 = some .packetReceive := by
  decide +kernel
-- minecraft (auto-detect): every probe refused
example :
    C01_dispatch_kind (generic ⟨⟨fun _ => none, fun _ => 0⟩, ⟨fun _ => none, fun _ => []⟩, fun _ _ _ => Q.fail .socketConnect⟩
      ⟨25565, .proprietary (.minecraft none), valveIntoExtra Valve.Gather.default⟩ (some 1) none none
      (Net.init [.refused, .refused, .refused, .refused, .refused] [])).1 = some .autoQuery := by
  decide +kernel
-- the hypothesis on the HTTP client is satisfiable (a client that cannot connect) …
example : EcoSafe ⟨⟨fun _ => none, fun _ => 0⟩, ⟨fun _ => none, fun _ => []⟩, fun _ _ _ => Q.fail .socketConnect⟩ :=
  fun _ _ _ => LogSafe.fail _ _
-- … and asks nothing of a Valve game
example (ext : Ext) : EcoSafeFor ext (.valve (Valve.Engine.new 440)) := fun h => by cases h
