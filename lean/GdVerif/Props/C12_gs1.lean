import GdVerif.Lemmas.Gs1Block
/-
  C12 (blocking steps that can run into their timeout) — GameSpy 1.
-/
open Gd Gd.Gs1

/-- Whatever the server does — for every script, fault vector and retry setting — at most
`retries + 1` blocking steps of a GameSpy 1 query run into their timeout (a failed socket creation, a
failed send, a timed-out receive): one per attempt.  The receive loop that collects the parts of the
answer ends the attempt at its first timeout, so the number of parts delivered does not enter the
bound.  Wall time ≤ (retries + 1) · timeout + the server's own delays. -/
theorem C12_gs1_blocking_bound (port retries : Nat) (script : List ConnScript) (faults : List Bool) :
    nBlocked (query port retries (Net.init script faults)).2.log ≤ retries + 1 := by
  have := (block_query port retries).total script faults
  omega

/-- the same for `query_vars` -/
theorem C12_gs1_vars_blocking_bound (port retries : Nat) (script : List ConnScript) (faults : List Bool) :
    nBlocked (queryVars port retries (Net.init script faults)).2.log ≤ retries + 1 := by
  have := (block_queryVars port retries).total script faults
  omega

/-- A silent server (the socket is created, its first `retries + 1` receives time out; the rest of
the script is arbitrary): the query fails with the receive-class error after exactly `retries + 1`
attempts — `retries + 1` requests, `retries + 1` timed-out receives, nothing received, one socket. -/
theorem C12_gs1_silent_server (port retries : Nat) (script : List ConnScript)
    (h : PendingSilent false (retries + 1) script) :
    (query port retries (Net.init script [])).1 = .err .packetReceive
      ∧ nSends (query port retries (Net.init script [])).2.log = retries + 1
      ∧ nBlocked (query port retries (Net.init script [])).2.log = retries + 1
      ∧ nRecvOk (query port retries (Net.init script [])).2.log = 0
      ∧ nOpened (query port retries (Net.init script [])).2.log = 1 :=
  (silent_query port retries (Net.init script []) rfl h).counts

/-- the hypothesis is satisfiable: no script at all, or `retries + 1` silences followed by anything -/
example (retries : Nat) (rest : List Delivery) (more : List ConnScript) :
    PendingSilent false (retries + 1) [] ∧
    PendingSilent false (retries + 1) (.opened (List.replicate (retries + 1) .silence ++ rest) :: more) :=
  ⟨rfl, SilentFor.replicate false (retries + 1) rest⟩

/-- the bound is attained by a server that stops in the middle of an answer: a first part
(`\\hostname\\x\\queryid\\1.1`, not final) is delivered, then nothing — one timeout per attempt -/
example : nBlocked (query 7777 1 (Net.init [.opened [.data [92, 104, 111, 115, 116, 110, 97, 109, 101, 92, 120, 92, 113, 117, 101, 114, 121, 105, 100, 92, 49, 46, 49, 0], .silence, .silence]] [])).2.log = 2 := by
  decide
