import GdVerif.Lemmas.SmallCost
import GdVerif.Lemmas.SmallBlock
/-
  C13 (requests sent) — FFOW.  `units` = 1: one Valve-style request (kind `F`, payload `LSQ`) with its
  challenge rounds is the retried unit; every challenge reply received earns one more request.
-/
open Gd Gd.Ffow

/-- Whatever the server does, for every script, fault vector, retry setting and decompressor, the FFOW
query sends at most one datagram per attempt plus one per datagram received (the challenge echoes). -/
theorem C13_ffow_send_bound (ext : Valve.Ext) (port retries : Nat) (script : List ConnScript) (faults : List Bool) :
    nSends (query ext port retries (Net.init script faults)).2.log
      ≤ 1 * (retries + 1) + nRecvOk (query ext port retries (Net.init script faults)).2.log := by
  have := (cost_query ext port retries).total script faults
  omega

/-- The bound is attained for every retry setting: a server that never answers gets exactly
`retries + 1` requests. -/
theorem C13_ffow_send_bound_attained (ext : Valve.Ext) (port retries : Nat) :
    nSends (query ext port retries (Net.init [] [])).2.log = retries + 1
      ∧ nRecvOk (query ext port retries (Net.init [] [])).2.log = 0 :=
  ⟨(silent_query ext port retries (Net.init [] []) rfl rfl).counts.2.1,
   (silent_query ext port retries (Net.init [] []) rfl rfl).counts.2.2.2.1⟩

/-- attained with a challenge round: the challenge reply `FFFFFFFF 41 01020304` earns the second request -/
example : nSends (query ⟨fun _ => none, fun _ => 0⟩ 5478 0 (Net.init [.opened [.data [255, 255, 255, 255, 65, 1, 2, 3, 4], .silence]] [])).2.log = 2
    ∧ nRecvOk (query ⟨fun _ => none, fun _ => 0⟩ 5478 0 (Net.init [.opened [.data [255, 255, 255, 255, 65, 1, 2, 3, 4], .silence]] [])).2.log = 1 := by
  decide +kernel
