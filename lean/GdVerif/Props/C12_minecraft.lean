import GdVerif.Lemmas.McBlock
/-
  C12 (blocking steps that can run into their timeout) — Minecraft: Java and the legacy variants over
  TCP (the connect is a blocking step with its own timeout: a refused / timed-out connect is counted
  and ends the variant), Bedrock over UDP, `query_legacy` (three connections) and the auto-detecting
  `query` (up to five sockets).
-/
open Gd Gd.Mc

/-- Java: whatever the server does, at most `retries + 1` blocking steps run into their timeout (the
connect, or per attempt one of the three writes or the read). -/
theorem C12_minecraft_java_blocking_bound (ext : Ext) (port : Nat) (st : RequestSettings) (retries : Nat)
    (script : List ConnScript) (faults : List Bool) :
    nBlocked (queryJava ext port st retries (Net.init script faults)).2.log ≤ retries + 1 := by
  have := (block_queryJava ext port st retries).total script faults
  omega

theorem C12_minecraft_bedrock_blocking_bound (port retries : Nat) (script : List ConnScript) (faults : List Bool) :
    nBlocked (queryBedrock port retries (Net.init script faults)).2.log ≤ retries + 1 := by
  have := (block_queryBedrock port retries).total script faults
  omega

theorem C12_minecraft_legacy_specific_blocking_bound (g : LegacyGroup) (port retries : Nat) (script : List ConnScript)
    (faults : List Bool) :
    nBlocked (queryLegacySpecific g port retries (Net.init script faults)).2.log ≤ retries + 1 := by
  have := (block_queryLegacySpecific g port retries).total script faults
  omega

/-- `query_legacy`: three connections, `retries + 1` each. -/
theorem C12_minecraft_legacy_blocking_bound (port retries : Nat) (script : List ConnScript) (faults : List Bool) :
    nBlocked (queryLegacy port retries (Net.init script faults)).2.log ≤ 3 * (retries + 1) := by
  have := (block_queryLegacy port retries).total script faults
  omega

/-- Auto-detect: five sockets (Java, Bedrock, legacy 1.6 / 1.4 / beta 1.8), `retries + 1` each:
wall time ≤ 5 · (retries + 1) · timeout + the servers' own delays. -/
theorem C12_minecraft_auto_blocking_bound (ext : Ext) (port : Nat) (st : RequestSettings) (retries : Nat)
    (script : List ConnScript) (faults : List Bool) :
    nBlocked (queryAuto ext port st retries (Net.init script faults)).2.log ≤ 5 * (retries + 1) := by
  have := (block_queryAuto ext port st retries).total script faults
  omega

/-- Java against a peer that accepts the connection and never writes (its first `retries + 1` reads
time out; the rest of the script is arbitrary): the query fails with the receive-class error after
exactly `retries + 1` attempts of three writes and one timed-out read. -/
theorem C12_minecraft_java_silent_server (ext : Ext) (port : Nat) (st : RequestSettings) (retries : Nat)
    (hh : st.hostname.length < 2 ^ 31) (script : List ConnScript) (h : PendingSilent true (retries + 1) script) :
    (queryJava ext port st retries (Net.init script [])).1 = .err .packetReceive
      ∧ nSends (queryJava ext port st retries (Net.init script [])).2.log = 3 * (retries + 1)
      ∧ nBlocked (queryJava ext port st retries (Net.init script [])).2.log = retries + 1
      ∧ nRecvOk (queryJava ext port st retries (Net.init script [])).2.log = 0
      ∧ nOpened (queryJava ext port st retries (Net.init script [])).2.log = 1 :=
  (silent_queryJava ext port st retries hh (Net.init script []) rfl h).counts

theorem C12_minecraft_bedrock_silent_server (port retries : Nat) (script : List ConnScript)
    (h : PendingSilent false (retries + 1) script) :
    (queryBedrock port retries (Net.init script [])).1 = .err .packetReceive
      ∧ nSends (queryBedrock port retries (Net.init script [])).2.log = retries + 1
      ∧ nBlocked (queryBedrock port retries (Net.init script [])).2.log = retries + 1
      ∧ nRecvOk (queryBedrock port retries (Net.init script [])).2.log = 0
      ∧ nOpened (queryBedrock port retries (Net.init script [])).2.log = 1 :=
  (silent_queryBedrock port retries (Net.init script []) rfl h).counts

theorem C12_minecraft_legacy_specific_silent_server (g : LegacyGroup) (port retries : Nat) (script : List ConnScript)
    (h : PendingSilent true (retries + 1) script) :
    (queryLegacySpecific g port retries (Net.init script [])).1 = .err .packetReceive
      ∧ nSends (queryLegacySpecific g port retries (Net.init script [])).2.log = retries + 1
      ∧ nBlocked (queryLegacySpecific g port retries (Net.init script [])).2.log = retries + 1
      ∧ nRecvOk (queryLegacySpecific g port retries (Net.init script [])).2.log = 0
      ∧ nOpened (queryLegacySpecific g port retries (Net.init script [])).2.log = 1 :=
  (silent_queryLegacySpecific g port retries (Net.init script []) rfl h).counts

/-- `query_legacy` against three silent peers: every variant is tried (three connections,
`retries + 1` attempts each), then `AutoQuery`: the bound `3 · (retries + 1)` is attained. -/
theorem C12_minecraft_legacy_silent_server (port retries : Nat) (script : List ConnScript)
    (h : AllSilent (retries + 1) [true, true, true] script) :
    (queryLegacy port retries (Net.init script [])).1 = .err .autoQuery
      ∧ nSends (queryLegacy port retries (Net.init script [])).2.log = 3 * (retries + 1)
      ∧ nBlocked (queryLegacy port retries (Net.init script [])).2.log = 3 * (retries + 1)
      ∧ nRecvOk (queryLegacy port retries (Net.init script [])).2.log = 0
      ∧ nOpened (queryLegacy port retries (Net.init script [])).2.log = 3 :=
  (silent_queryLegacy port retries (Net.init script []) rfl h).counts

/-- Auto-detect against five silent peers (TCP, UDP, TCP, TCP, TCP): all five variants are tried, each
on its own socket with `retries + 1` attempts, then `AutoQuery`: `5 · (retries + 1)` timeouts — the
bound is attained — and `7 · (retries + 1)` packets. -/
theorem C12_minecraft_auto_silent_server (ext : Ext) (port : Nat) (st : RequestSettings) (retries : Nat)
    (hh : st.hostname.length < 2 ^ 31) (script : List ConnScript)
    (h : AllSilent (retries + 1) [true, false, true, true, true] script) :
    (queryAuto ext port st retries (Net.init script [])).1 = .err .autoQuery
      ∧ nSends (queryAuto ext port st retries (Net.init script [])).2.log = 7 * (retries + 1)
      ∧ nBlocked (queryAuto ext port st retries (Net.init script [])).2.log = 5 * (retries + 1)
      ∧ nRecvOk (queryAuto ext port st retries (Net.init script [])).2.log = 0
      ∧ nOpened (queryAuto ext port st retries (Net.init script [])).2.log = 5 :=
  (silent_queryAuto ext port st retries hh (Net.init script []) rfl h).counts

/-- the hypotheses are satisfiable: five scripts of `retries + 1` silences followed by anything -/
example (retries : Nat) (rest : List Delivery) (more : List ConnScript) :
    AllSilent (retries + 1) [true, false, true, true, true]
      (List.replicate 5 (.opened (List.replicate (retries + 1) .silence ++ rest)) ++ more) := by
  have hs := SilentFor.replicate true (retries + 1) rest
  have hu := SilentFor.replicate false (retries + 1) rest
  exact ⟨hs, hu, hs, hs, hs, True.intro⟩

example : (RequestSettings.default).hostname.length < 2 ^ 31 := by decide

/-- refused connects are counted: four refused TCP connects and a silent Bedrock peer, one retry -/
example : nBlocked (queryAuto ⟨fun _ => none, fun _ => []⟩ 25565 RequestSettings.default 1
    (Net.init [.refused, .opened [.silence, .silence], .refused, .refused, .refused] [])).2.log = 6 := by decide +kernel

/-- a closed TCP stream (nothing written, connection closed) is not a timeout: the read returns at once -/
example : nBlocked (queryJava ⟨fun _ => none, fun _ => []⟩ 25565 RequestSettings.default 3 (Net.init [.opened []] [])).2.log = 0 := by
  decide +kernel
