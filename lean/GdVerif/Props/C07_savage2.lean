import GdVerif.Lemmas.Savage2
/-
  C07 — single-game protocols map every field: Savage 2.

  MODEL: `GdVerif/Proto/Savage2.lean` (tied to games/savage2 by the C07/C01/C09 checks on every run).
  SPEC:  `GdVerif/Spec/Savage2.lean` (written from node-gamedig's `protocols/savage2.js`).
-/
open Gd Gd.Savage2 Gd.Savage2.Spec

/-- For every server state in the specification's domain (12 header bytes of any content, seven strings of any
length without NUL, four bytes over 0–255, any ignored tail) the parser returns each field of the reply in the
correspondingly named response field. -/
theorem C07_savage2_decode (st : State) (h : wf st = true) :
    parseResponse.run (encode st) = .ok (expected st) :=
  run_encode st h

/-- The whole query against a conforming server, for every port. -/
theorem C07_savage2 (st : State) (h : wf st = true) (port : Nat) :
    (query port (Net.init [.opened [.data (encode st)]] [])).1 = .ok (expected st) := by
  have hlen : (encode st).length ≤ 1024 := by
    simp only [wf, Bool.and_eq_true, decide_eq_true_eq] at h
    exact h.2
  rw [query_script port _ hlen]
  exact run_encode st h

/-- The skip is exactly 12 bytes and the tail is ignored: neither influences any field. -/
theorem C07_savage2_header_and_tail_irrelevant (st : State) (h : wf st = true) (hdr tail : Bytes)
    (hh : hdr.length = 12) (hl : (encode { st with header := hdr, rest := tail }).length ≤ 1024) :
    parseResponse.run (encode { st with header := hdr, rest := tail }) = parseResponse.run (encode st) := by
  rw [run_encode st h]
  have h' : wf { st with header := hdr, rest := tail } = true := by
    simp only [wf, Bool.and_eq_true, decide_eq_true_eq, beq_iff_eq] at h ⊢
    obtain ⟨⟨⟨⟨⟨⟨⟨⟨⟨⟨⟨⟨_, a1⟩, a2⟩, a3⟩, a4⟩, a5⟩, a6⟩, a7⟩, a8⟩, a9⟩, a10⟩, a11⟩, _⟩ := h
    exact ⟨⟨⟨⟨⟨⟨⟨⟨⟨⟨⟨⟨hh, a1⟩, a2⟩, a3⟩, a4⟩, a5⟩, a6⟩, a7⟩, a8⟩, a9⟩, a10⟩, a11⟩, hl⟩
  rw [run_encode _ h']
  rfl

-- non-vacuity
example :
    let st : State := ⟨[0, 1, 2, 3, 4, 5, 6, 7, 8, 9, 10, 11], [83, 50], 3, 64, [49], [109], [110], [69, 85], 2, [99], [50, 46],
      7, [255, 0]⟩
    wf st = true ∧ (query 11235 (Net.init [.opened [.data (encode st)]] [])).1 = .ok (expected st) := by
  decide

/-! ### recorded finding: text that is not UTF-8

The reference reader decodes the strings as Latin-1, so every byte string without NUL is a legal name.  The
full-strength statement (`wf` without `validUtf8`) is false: the strict UTF-8 decoder rejects such a reply.
`C07_savage2_decode` is the part that holds; the witness is replayed against the real code on every run. -/

/-- the name `Caf\xE9` (Latin-1): the whole query fails with `PacketBad`. -/
theorem C07_savage2_finding_latin1 :
    let st : State := ⟨[0, 0, 0, 0, 0, 0, 0, 0, 0, 0, 0, 0], [67, 97, 102, 0xE9], 3, 32, [49], [109], [110], [69, 85], 2, [99], [50], 1, []⟩
    (query 11235 (Net.init [.opened [.data (encode st)]] [])).1 = .err .packetBad := by
  decide
