import GdVerif.Lemmas.McFaults
import GdVerif.Props.C03
/-
  C10 on WHOLE Minecraft Java queries with faults injected.

  The retried unit is handshake + status request + ping + read + decode on ONE TCP socket (`Props/C10_minecraft.lean`):
  THREE requests per attempt, and every retry sends the handshake again.  Here the property is proved end to end for
  `queryJava` on the scripts of `props/families/mcjava.py: c10_build` (`props/mc_c10.py`): a plan
  (`Spec/FaultsN.lean: PlanN`, three requests per attempt) lists the attempts that end in a timeout-class failure — one
  of the three requests cannot be sent (the earlier ones went out; the check injects the fault at the handshake), or all
  went out and the read TIMES OUT ON THE OPEN STREAM — and then what the peer writes (the status response, or a malformed
  stream), or nothing.  A stream the peer has CLOSED is an empty read: a malformed reply, not retried.  The JSON crate is
  a parameter (`ext`), as in `C03_java`.
-/
open Gd Gd.Mc Gd.Mc.Spec Gd.Faults

/-- THE GENERAL STATEMENT: for every plan in C10's domain (each failed attempt: a failed send at request 0, 1 or 2 after
the earlier ones, or a timed-out read after all three; an answered unit had at most `retries` failures before, a unit
given up exactly `retries + 1`) whose answer, if the decoder rejects it, is rejected with an error that is not a
timeout: the result is the plan's outcome and the requests on the wire are exactly the plan's. -/
theorem C10_mcjava_query_faulty (ext : Ext) (port retries : Nat) (rs : RequestSettings)
    (hh : rs.hostname.length < 2 ^ 31) (p : PlanN) (hp : p.wf retries 3 (fitsRead true none) = true)
    (hcheck : ∀ d e, p.answer = some d → javaDec ext d = .err e → e.isTimeout = false)
    (restQ : List Delivery) (restF : List Bool) :
    (queryJava ext port rs retries (Net.init [.opened (p.deliveries ++ restQ)] (p.faults 3 ++ restF))).1
      = p.outcome (javaDec ext)
    ∧ sentOf (queryJava ext port rs retries (Net.init [.opened (p.deliveries ++ restQ)] (p.faults 3 ++ restF))).2.log
      = p.sends (javaRequests rs port) := by
  rw [queryJava_queryN ext port rs retries hh]
  exact queryN_faulty true port retries (javaRequests rs port) none (javaDec ext) p hp hcheck restQ restF

/-- the status request and the ping are not the handshake: attempts can be counted by handshakes -/
theorem C10_mcjava_handshake_distinct (rs : RequestSettings) (port : Nat) :
    ∀ d ∈ [statusRequest, bareFinalPing], (d == handshake rs.protocolVersion rs.hostname port) = false := by
  intro d hd
  have hlen : 3 ≤ (handshake rs.protocolVersion rs.hostname port).length := by
    have hframe : ∀ body : Bytes, 2 ≤ body.length → 3 ≤ (frame body).length := by
      intro body hb
      have h1 := (asVarintFrom_length 5 body.length (by omega)).1
      show 3 ≤ (asVarintFrom 5 body.length ++ body).length
      rw [List.length_append]
      omega
    apply hframe
    simp only [List.length_append, List.length_cons, List.length_nil]
    omega
  have hd2 : d.length = 2 := by
    rcases List.mem_cons.mp hd with rfl | hd
    · decide
    · rcases List.mem_cons.mp hd with rfl | hd
      · decide
      · cases hd
  simp only [beq_eq_false_iff_ne, ne_eq]
  intro e
  rw [e] at hd2
  omega

/-- (a) RECOVERY.  `fails` (any number ≤ `retries`) precede the status response: the query returns exactly
`expectedJava ext st` — by `C03_java` the result with no faults —, and `fails.length + 1` handshakes were sent. -/
theorem C10_mcjava_query_recovers (ext : Ext) (st : JavaStatus) (text trailing : Bytes) (j : Json)
    (hparse : ext.parseJson text = some j) (hrep : Represents j st) (hwf : wfJava st text = true)
    (port retries : Nat) (rs : RequestSettings) (hh : rs.hostname.length < 2 ^ 31)
    (fails : List AttemptN) (hfails : ∀ a ∈ fails, a.wf 3 = true) (hk : fails.length ≤ retries)
    (restQ : List Delivery) (restF : List Bool) :
    let p : PlanN := ⟨fails, some (statusResponse text trailing)⟩
    let out := queryJava ext port rs retries (Net.init [.opened (p.deliveries ++ restQ)] (p.faults 3 ++ restF))
    out.1 = .ok (expectedJava ext st)
    ∧ sentOf out.2.log = p.sends (javaRequests rs port)
    ∧ firstRequests (javaRequests rs port) (sentOf out.2.log) = fails.length + 1 := by
  intro p out
  have := queryN_recovers true port retries (javaRequests rs port) none (javaDec ext) (statusResponse text trailing)
    (expectedJava ext st) (javaDec_response ext text trailing j st hparse hrep hwf) (by simp [fitsRead]) fails hfails hk
    restQ restF
  rw [← queryJava_queryN ext port rs retries hh] at this
  obtain ⟨h1, h2⟩ := this
  have h2' : sentOf out.2.log = p.sends (javaRequests rs port) := h2
  refine ⟨h1, h2', ?_⟩
  rw [h2']
  exact (firstRequests_plan _ _ (C10_mcjava_handshake_distinct rs port) p hfails).trans (by simp [p, PlanN.attempts])

/-- (b) EXHAUSTION.  All `retries + 1` attempts end in a timeout-class failure: the last attempt's error after exactly
`retries + 1` handshakes, whatever the script still holds. -/
theorem C10_mcjava_query_exhausted (ext : Ext) (port retries : Nat) (rs : RequestSettings)
    (hh : rs.hostname.length < 2 ^ 31) (fails : List AttemptN) (hfails : ∀ a ∈ fails, a.wf 3 = true)
    (hk : fails.length = retries + 1) (restQ : List Delivery) (restF : List Bool) :
    let p : PlanN := ⟨fails, none⟩
    let out := queryJava ext port rs retries (Net.init [.opened (p.deliveries ++ restQ)] (p.faults 3 ++ restF))
    out.1 = .err (lastError AttemptN.error fails)
    ∧ (out.1 = .err .packetReceive ∨ out.1 = .err .packetSend)
    ∧ sentOf out.2.log = fails.flatMap (AttemptN.sends (javaRequests rs port))
    ∧ firstRequests (javaRequests rs port) (sentOf out.2.log) = retries + 1 := by
  intro p out
  have := queryN_exhausted true port retries (javaRequests rs port) none (javaDec ext) fails hfails hk restQ restF
  rw [← queryJava_queryN ext port rs retries hh] at this
  obtain ⟨h1, h2, h3⟩ := this
  have h3' : sentOf out.2.log = fails.flatMap (AttemptN.sends (javaRequests rs port)) := h3
  refine ⟨h1, h2, h3', ?_⟩
  rw [h3', ← PlanN.sends_nil]
  exact (firstRequests_plan _ _ (C10_mcjava_handshake_distinct rs port) ⟨fails, none⟩ hfails).trans
    (by simp [PlanN.attempts, hk])

/-- (c) A MALFORMED REPLY IS NOT RETRIED.  After any number ≤ `retries` of timed-out attempts the peer writes a stream
that ends inside the frame-length VarInt — ANY stream of at most four bytes that all carry the continuation bit
(`Spec.malformedJava`).  The query fails at once with `PacketUnderflow` (not a timeout-class error); no further
handshake is sent. -/
theorem C10_mcjava_query_malformed_not_retried (ext : Ext) (port retries : Nat) (rs : RequestSettings)
    (hh : rs.hostname.length < 2 ^ 31) (fails : List AttemptN) (hfails : ∀ a ∈ fails, a.wf 3 = true)
    (hk : fails.length ≤ retries) (m : Bytes) (hm : malformedJava m = true) (restQ : List Delivery) (restF : List Bool) :
    let p : PlanN := ⟨fails, some m⟩
    let out := queryJava ext port rs retries (Net.init [.opened (p.deliveries ++ restQ)] (p.faults 3 ++ restF))
    out.1 = .err .packetUnderflow
    ∧ ErrKind.packetUnderflow.isTimeout = false
    ∧ sentOf out.2.log = p.sends (javaRequests rs port)
    ∧ firstRequests (javaRequests rs port) (sentOf out.2.log) = fails.length + 1 := by
  intro p out
  have := queryN_malformed true port retries (javaRequests rs port) none (javaDec ext) m _ (java_malformed ext m hm) rfl
    (by simp [fitsRead]) fails hfails hk restQ restF
  rw [← queryJava_queryN ext port rs retries hh] at this
  obtain ⟨h1, h2⟩ := this
  have h2' : sentOf out.2.log = p.sends (javaRequests rs port) := h2
  refine ⟨h1, rfl, h2', ?_⟩
  rw [h2']
  exact (firstRequests_plan _ _ (C10_mcjava_handshake_distinct rs port) p hfails).trans (by simp [p, PlanN.attempts])

/-- (c') A CLOSED STREAM IS NOT RETRIED: after any number ≤ `retries` of timed-out attempts the peer closes the
connection (the script ends): the empty read is a malformed reply — `PacketUnderflow`, at once. -/
theorem C10_mcjava_query_closed_not_retried (ext : Ext) (port retries : Nat) (rs : RequestSettings)
    (hh : rs.hostname.length < 2 ^ 31) (fails : List AttemptN) (hfails : ∀ a ∈ fails, a.wf 3 = true)
    (hk : fails.length ≤ retries) (restF : List Bool) :
    let out := queryJava ext port rs retries (Net.init [.opened (fails.flatMap AttemptN.deliveries)]
      (fails.flatMap AttemptN.faults ++ (List.replicate 3 false ++ restF)))
    out.1 = .err .packetUnderflow
    ∧ sentOf out.2.log = fails.flatMap (AttemptN.sends (javaRequests rs port)) ++ (javaRequests rs port).map (·, false) := by
  intro out
  have hc : javaDec ext [] = .err .packetUnderflow := java_malformed ext [] (by decide)
  have := queryN_closed port retries (javaRequests rs port) none (javaDec ext) fails hfails hk
    (fun e he => by rw [hc] at he; cases he; rfl) restF
  rw [hc] at this
  show (queryJava ext port rs retries _).1 = _ ∧ sentOf (queryJava ext port rs retries _).2.log = _
  rw [queryJava_queryN ext port rs retries hh]
  exact this

/-! ### non-vacuity (the server and the JSON-crate behaviour of `Props/C03.lean`) -/

-- (a) retries = 2: the status request cannot be sent (after the handshake), then a read times out, then the response:
-- the status, 3 handshakes, 1 + 3 + 3 send flags
example :
    (PlanN.mk [⟨1, true⟩, ⟨3, false⟩] (some (statusResponse (asciiBytes "{}") []))).faults 3
      = [false, true, false, false, false, false, false, false]
    ∧ (queryJava exExt 25565 RequestSettings.default 2 (Net.init
        [.opened ((PlanN.mk [⟨1, true⟩, ⟨3, false⟩] (some (statusResponse (asciiBytes "{}") []))).deliveries ++ [])]
        ((PlanN.mk [⟨1, true⟩, ⟨3, false⟩] (some (statusResponse (asciiBytes "{}") []))).faults 3 ++ []))).1
      = .ok (expectedJava exExt exJava) :=
  ⟨by decide, (C10_mcjava_query_recovers exExt exJava _ _ (statusJson exJava) rfl (C03_java_document_represents exJava)
    (by decide +kernel) 25565 2 RequestSettings.default (by decide +kernel) [⟨1, true⟩, ⟨3, false⟩] (by decide) (by decide)
    [] []).1⟩

-- (b) retries = 1: two reads time out on the open stream: PacketReceive after 2 handshakes
example (ext : Ext) (port : Nat) (restQ : List Delivery) :
    (queryJava ext port RequestSettings.default 1 (Net.init
      [.opened ((PlanN.mk [⟨3, false⟩, ⟨3, false⟩] none).deliveries ++ restQ)]
      ((PlanN.mk [⟨3, false⟩, ⟨3, false⟩] none).faults 3 ++ []))).1 = .err .packetReceive :=
  (C10_mcjava_query_exhausted ext port 1 RequestSettings.default (by decide +kernel) [⟨3, false⟩, ⟨3, false⟩] (by decide)
    rfl restQ []).1

-- (c) retries = 4: the check's malformed stream `ff ff`
example (ext : Ext) (port : Nat) :
    (queryJava ext port RequestSettings.default 4 (Net.init
      [.opened ((PlanN.mk [⟨0, true⟩] (some [0xFF, 0xFF])).deliveries ++ [])]
      ((PlanN.mk [⟨0, true⟩] (some [0xFF, 0xFF])).faults 3 ++ []))).1 = .err .packetUnderflow :=
  (C10_mcjava_query_malformed_not_retried ext port 4 RequestSettings.default (by decide +kernel) [⟨0, true⟩] (by decide)
    (by decide) [0xFF, 0xFF] (by decide) [] []).1
