import GdVerif.Spec.Gs1
/- C09_gs1: theorems to come -/
