import GdVerif.Lemmas.GsSafe
import GdVerif.Spec.Gs1
/-
  C09 — Requests are the protocol's and go to the right port: GameSpy 1.
  The protocol has one request, the literal `\status\xserverquery`, and no challenge.
-/
open Gd Gd.Gs Gd.Gs1

/-- The request the client sends is byte for byte the specification's. -/
theorem C09_gs1_request_bytes : [statusRequest] = Spec.requests := by decide

/-- Whatever the server does (any script, any faults, any retry count), everything `query` does
with the transport is: open ONE UDP socket to the given port, send the status request to that
port from that socket, receive into the 2048-byte buffer.  Nothing else is ever sent. -/
theorem C09_gs1_conforms (port retries : Nat) (script : List ConnScript) (faults : List Bool) :
    ∀ e ∈ (query port retries (Net.init script faults)).2.log,
      match e with
      | .opened c tcp p _ => c = 0 ∧ tcp = false ∧ p = port
      | .send c p data _ => c = 0 ∧ p = port ∧ data = asciiBytes "\\status\\xserverquery"
      | .recv c size _ => c = 0 ∧ size = some 2048 := by
  obtain ⟨_, added, hlog, hall⟩ := query_safe port retries (Net.init script faults)
  intro e he
  rw [hlog] at he
  simp only [Net.init, List.nil_append] at he
  have := hall e he
  simp only [Net.init, List.length_nil] at this
  cases e with
  | opened c tcp p r => exact this
  | send c p d f => exact this
  | recv c s gt => exact this

/-- The same for `query_vars`. -/
theorem C09_gs1_vars_conforms (port retries : Nat) (script : List ConnScript) (faults : List Bool) :
    ∀ e ∈ (queryVars port retries (Net.init script faults)).2.log,
      match e with
      | .opened c tcp p _ => c = 0 ∧ tcp = false ∧ p = port
      | .send c p data _ => c = 0 ∧ p = port ∧ data = asciiBytes "\\status\\xserverquery"
      | .recv c size _ => c = 0 ∧ size = some 2048 := by
  obtain ⟨_, added, hlog, hall⟩ := queryVars_safe port retries (Net.init script faults)
  intro e he
  rw [hlog] at he
  simp only [Net.init, List.nil_append] at he
  have := hall e he
  simp only [Net.init, List.length_nil] at this
  cases e with
  | opened c tcp p r => exact this
  | send c p d f => exact this
  | recv c s gt => exact this

/-- One attempt sends the request exactly once, first thing. -/
theorem C09_gs1_attempt_sends_once (s : Sock) :
    getServerValuesImpl s = (do
      send s (asciiBytes "\\status\\xserverquery")
      fun w => recvLoop s (queued s w + 1) LoopSt.init w) := rfl

-- non-vacuity: a run with a reply; the log is exactly open, send, receive
example : (query 7777 0 (Net.init [.opened [.data []]] [])).2.log
    = [.opened 0 false 7777 false, .send 0 7777 statusRequest false, .recv 0 (some 2048) (some 0)] := by
  decide +kernel
