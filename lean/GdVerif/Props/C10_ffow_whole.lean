import GdVerif.Lemmas.FfowFaults
import GdVerif.Props.C07_ffow
/-
  C10 on WHOLE Frontlines: Fuel of War queries with faults injected.

  The retried unit is the `LSQ` request through Valve's `get_request_data_impl` (`Props/C10_ffow.lean`).  Against the
  SPEC's server (`Spec/Ffow.lean`: one datagram, no challenge) a plan is a one-exchange plan (`Faults.Plan1`): the
  attempts that end in a timeout-class failure (`false`: the reply is lost, `true`: the request cannot be sent), then the
  datagram that answers, if any — exactly the scripts of `props/families/ffow.py: c10_build`.  What follows the plan in
  the script and in the fault vector is arbitrary.
-/
open Gd Gd.Valve Gd.Ffow Gd.Ffow.Spec Gd.Faults

/-- (a) RECOVERY: any number ≤ `retries` of lost replies / failed sends before the server's reply — the query returns
exactly `Spec.expected st` (`C07_ffow`: the result with no faults), after `fails.length + 1` requests. -/
theorem C10_ffow_query_recovers (ext : Ext) (upper : Bool) (st : State) (h : wf st = true)
    (hlen : (replyPacket upper st).length ≤ 6144) (port retries : Nat) (fails : List Bool)
    (hk : fails.length ≤ retries) (restQ : List Delivery) (restF : List Bool) :
    let p : Plan1 := ⟨fails, some (replyPacket upper st)⟩
    let out := Ffow.query ext port retries (Net.init [.opened (p.deliveries ++ restQ)] (p.faults ++ restF))
    out.1 = .ok (expected st)
    ∧ sentOf out.2.log = fails.map (fun f => (lsqRequest, f)) ++ [(lsqRequest, false)]
    ∧ (sentOf out.2.log).length = fails.length + 1 := by
  intro p out
  obtain ⟨h1, h2⟩ := query_plan ext port retries p (by simp [p, Plan1.wf, hk, PACKET_SIZE, hlen])
    (.ok ⟨0xFFFFFFFF, 0x49, encode upper st⟩) (fun pk hpk => by cases hpk; show (0x49 : Nat) ≠ 0x41; decide) (fun k hk => by cases hk) restQ
    (fun d hd fs sn => by
      have : d = replyPacket upper st := by simpa [p] using hd.symm
      subst this
      exact steps_receive_single ext _ rfl (.goldSrc true) 0 0x49 (by decide) (encode upper st) hlen restQ fs sn)
    restF
  have h1' : out.1 = .ok (expected st) := by
    rw [show out.1 = _ from h1]
    simp only [unitOutcome, p, Res.bind_ok]
    exact C07_ffow_decode upper st h
  have h2' : sentOf out.2.log = fails.map (fun f => (lsqRequest, f)) ++ [(lsqRequest, false)] := by
    rw [show sentOf out.2.log = _ from h2]; simp [p, Plan1.sends]
  exact ⟨h1', h2', by rw [h2']; simp⟩

/-- (b) EXHAUSTION: all `retries + 1` attempts end in a timeout-class failure — the query fails with the last attempt's
error (`PacketReceive`, or `PacketSend` for a failed send) after exactly `retries + 1` requests. -/
theorem C10_ffow_query_exhausted (ext : Ext) (port retries : Nat) (fails : List Bool)
    (hk : fails.length = retries + 1) (restQ : List Delivery) (restF : List Bool) :
    let p : Plan1 := ⟨fails, none⟩
    let out := Ffow.query ext port retries (Net.init [.opened (p.deliveries ++ restQ)] (p.faults ++ restF))
    out.1 = .err (lastError attemptError fails)
    ∧ (out.1 = .err .packetReceive ∨ out.1 = .err .packetSend)
    ∧ sentOf out.2.log = fails.map (fun f => (lsqRequest, f))
    ∧ (sentOf out.2.log).length = retries + 1 := by
  intro p out
  obtain ⟨h1, h2⟩ := query_plan ext port retries p (by simp [p, Plan1.wf, hk])
    (.err .packetBad) (fun pk hpk => by cases hpk) (fun k hk => by cases hk; rfl) restQ
    (fun d hd => by simp [p] at hd) restF
  have h1' : out.1 = .err (lastError attemptError fails) := by
    rw [show out.1 = _ from h1]; simp [unitOutcome, p]
  have h2' : sentOf out.2.log = fails.map (fun f => (lsqRequest, f)) := by
    rw [show sentOf out.2.log = _ from h2]; simp [p, Plan1.sends]
  refine ⟨h1', ?_, h2', by rw [h2', List.length_map, hk]⟩
  rw [h1']
  obtain ⟨init, f, rfl⟩ : ∃ init f, fails = init ++ [f] := by
    cases hne : fails.reverse with
    | nil => simp at hne; subst hne; simp at hk
    | cons f r => exact ⟨r.reverse, f, by rw [← List.reverse_reverse fails, hne]; simp⟩
  rw [lastError_attempt]
  cases f <;> simp

/-- (c) A MALFORMED REPLY IS NOT RETRIED: after any number ≤ `retries` of timed-out attempts the client receives ANY
datagram shorter than the 5 bytes of a packet header — the query fails at once with `PacketUnderflow`, whatever
`retries` is, after `fails.length + 1` requests. -/
theorem C10_ffow_query_malformed_not_retried (ext : Ext) (port retries : Nat) (fails : List Bool)
    (hk : fails.length ≤ retries) (m : Bytes) (hm : m.length < 5) (restQ : List Delivery) (restF : List Bool) :
    let p : Plan1 := ⟨fails, some m⟩
    let out := Ffow.query ext port retries (Net.init [.opened (p.deliveries ++ restQ)] (p.faults ++ restF))
    out.1 = .err .packetUnderflow
    ∧ sentOf out.2.log = fails.map (fun f => (lsqRequest, f)) ++ [(lsqRequest, false)]
    ∧ (sentOf out.2.log).length = fails.length + 1 := by
  intro p out
  obtain ⟨h1, h2⟩ := query_plan ext port retries p (by
      have : m.length ≤ Valve.PACKET_SIZE := by unfold Valve.PACKET_SIZE; omega
      simp [p, Plan1.wf, hk, this])
    (.err .packetUnderflow) (fun pk hpk => by cases hpk) (fun k hk => by cases hk; rfl) restQ
    (fun d hd fs sn => by
      have : d = m := by simpa [p] using hd.symm
      subst this
      exact steps_receive_short ext _ rfl (.goldSrc true) 0 d hm restQ fs sn)
    restF
  have h1' : out.1 = .err .packetUnderflow := by
    rw [show out.1 = _ from h1]; simp [unitOutcome, p]
  have h2' : sentOf out.2.log = fails.map (fun f => (lsqRequest, f)) ++ [(lsqRequest, false)] := by
    rw [show sentOf out.2.log = _ from h2]; simp [p, Plan1.sends]
  exact ⟨h1', h2', by rw [h2']; simp⟩

/-! ### non-vacuity: the server of `Props/C07_ffow.lean`, retries = 2 -/

def C10_ffow_demoState : State :=
  ⟨2, [70], [109], [], [99], [100], [49], 5476, 3, 32, .dedicated, .windows, true, false, 60, 1, 5, 300⟩

-- a lost reply and a failed send, then the reply: the state after 3 requests; three lost replies: PacketReceive;
-- `FF FF` with retries = 9: PacketUnderflow after one request
example (ext : Ext) (port : Nat) (restQ : List Delivery) :
    (Ffow.query ext port 2 (Net.init
        [.opened ((Plan1.mk [false, true] (some (replyPacket true C10_ffow_demoState))).deliveries ++ restQ)]
        ((Plan1.mk [false, true] (some (replyPacket true C10_ffow_demoState))).faults ++ []))).1
      = .ok (expected C10_ffow_demoState)
    ∧ (Ffow.query ext port 2 (Net.init [.opened ((Plan1.mk [false, false, false] none).deliveries ++ restQ)]
        ((Plan1.mk [false, false, false] none).faults ++ []))).1 = .err .packetReceive
    ∧ (Ffow.query ext port 9 (Net.init [.opened ((Plan1.mk [] (some [0xFF, 0xFF])).deliveries ++ restQ)]
        ((Plan1.mk [] (some [0xFF, 0xFF])).faults ++ []))).1 = .err .packetUnderflow :=
  ⟨(C10_ffow_query_recovers ext true C10_ffow_demoState (by decide) (by decide) port 2 [false, true] (by decide)
      restQ []).1,
   (C10_ffow_query_exhausted ext port 2 [false, false, false] rfl restQ []).1,
   (C10_ffow_query_malformed_not_retried ext port 9 [] (by decide) [0xFF, 0xFF] (by decide) restQ []).1⟩
