import GdVerif.Lemmas.Ffow
/-
  C09 — requests are the protocol's and go to the right port: Frontlines: Fuel of War.
-/
open Gd Gd.Ffow

/-- The request is `FFFFFFFF 46 "LSQ"` (node-gamedig: `sendPacket(0x46, 'LSQ', 0x49)`), the default port 5478. -/
theorem C09_ffow_request_bytes :
    Valve.packetBytes KIND lsq = Spec.lsqRequest ∧ DEFAULT_PORT = Spec.defaultPort := by decide

/-- Whatever the server does: one UDP socket to the given port; every datagram sent goes to that port and is the
`LSQ` request or, after a challenge reply, `FFFFFFFF 46` followed by bytes the server chose; every receive uses
the 6144-byte buffer; nothing else is done to the transport. -/
theorem C09_ffow_conforms (ext : Valve.Ext) (port retries : Nat) (script : List ConnScript) (faults : List Bool) :
    ∀ e ∈ (query ext port retries (Net.init script faults)).2.log,
      match e with
      | .opened c tcp p _ => c = 0 ∧ tcp = false ∧ p = port
      | .send c p data _ => c = 0 ∧ p = port ∧
          (data = [0xFF, 0xFF, 0xFF, 0xFF, 0x46, 0x4C, 0x53, 0x51] ∨ ∃ ch, data = [0xFF, 0xFF, 0xFF, 0xFF, 0x46] ++ ch)
      | .recv c size _ => c = 0 ∧ size = some 6144 := by
  obtain ⟨_, added, hlog, hall⟩ := query_safe ext port retries (Net.init script faults)
  intro e he
  rw [hlog] at he
  simp only [Net.init, List.nil_append] at he
  have := hall e he
  simp only [Net.init, List.length_nil] at this
  cases e with
  | opened c tcp p r => exact this
  | send c p d f => exact this
  | recv c s g => exact this

/-- Challenge echo through the shared loop, for every challenge value: after a challenge reply `c` the next
datagram is `FFFFFFFF 46 c` (the bytes verbatim), then the client waits for the next reply. -/
theorem C09_ffow_echo (ext : Valve.Ext) (s : Sock) (fuel hdr : Nat) (c : Bytes) :
    Valve.challengeLoop ext s (.goldSrc true) 0 KIND (fuel + 1) ⟨hdr, 0x41, c⟩
      = (do
          send s ([0xFF, 0xFF, 0xFF, 0xFF, 0x46] ++ c)
          let reply ← Valve.receive ext s (.goldSrc true) 0
          Valve.challengeLoop ext s (.goldSrc true) 0 KIND fuel reply) := rfl

/-- Against a conforming server the log is exactly `open, send LSQ, receive`: nothing else is sent. -/
theorem C09_ffow_exchange (ext : Valve.Ext) (upper : Bool) (st : Spec.State)
    (hlen : (Spec.replyPacket upper st).length ≤ 6144) (port retries : Nat) :
    (query ext port retries (Net.init [.opened [.data (Spec.replyPacket upper st)]] [])).2.log
      = [.opened 0 false port false, .send 0 port Spec.lsqRequest false,
         .recv 0 (some 6144) (some (Spec.replyPacket upper st).length)] := by
  rw [query_script ext port retries upper st hlen]
  rfl

