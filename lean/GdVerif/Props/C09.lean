import GdVerif.Lemmas.ValveSafe
import GdVerif.Spec.Valve
/-
  C09 — Requests are the protocol's, go to the right port, and echo challenges.
-/
open Gd Gd.Valve

/-- The three A2S requests are byte for byte the specification's. -/
theorem C09_valve_request_bytes :
    packetBytes Request.info.kind Request.info.defaultPayload = Spec.a2sInfoRequest
    ∧ packetBytes Request.players.kind Request.players.defaultPayload = Spec.a2sPlayerRequest Spec.noChallenge
    ∧ packetBytes Request.rules.kind Request.rules.defaultPayload = Spec.a2sRulesRequest Spec.noChallenge := by
  decide

/-- Whatever the server does (any script), every datagram the Valve query emits goes out of the one
socket it opened, to the port it was given, and is either a protocol request without challenge or
that request carrying some challenge; every receive uses the fixed 6144-byte buffer; nothing else
is done to the transport. -/
theorem C09_valve_conforms (ext : Ext) (port : Nat) (engine : Engine) (g : Gather) (retries : Nat)
    (script : List ConnScript) (faults : List Bool) :
    ∀ e ∈ (query ext port engine g retries (Net.init script faults)).2.log,
      match e with
      | .opened c tcp p _ => c = 0 ∧ tcp = false ∧ p = port
      | .send c p data _ => c = 0 ∧ p = port ∧ Allowed data
      | .recv c size _ => c = 0 ∧ size = some 6144 := by
  obtain ⟨_, added, hlog, hall⟩ := query_safe ext port engine g retries (Net.init script faults)
  intro e he
  rw [hlog] at he
  simp only [Net.init, List.nil_append] at he
  have := hall e he
  simp only [Net.init, List.length_nil] at this
  cases e with
  | opened c tcp p r => exact this
  | send c p d f => exact this
  | recv c s gt => exact this

/-- Challenge echo, for every challenge value (all 2^32 four-byte values, and any other length the
server may send): when the reply to a request is a challenge packet (kind 0x41) with payload `c`,
the very next thing the client does is send the same request again carrying exactly the bytes `c`
— `FFFFFFFF 54 "Source Engine Query\0" c` for the info request, `FFFFFFFF 55|56 c` for players and
rules — and then wait for the next reply. -/
theorem C09_valve_echo (ext : Ext) (s : Sock) (engine : Engine) (protocol : Nat) (req : Request)
    (fuel : Nat) (hdr : Nat) (c : Bytes) :
    challengeLoop ext s engine protocol req.kind (fuel + 1) ⟨hdr, 0x41, c⟩
      = (do
          send s ([0xFF, 0xFF, 0xFF, 0xFF] ++ [UInt8.ofNat req.kind]
                    ++ (if req = .info then asciiBytes "Source Engine Query" ++ [0] ++ c else c))
          let reply ← receive ext s engine protocol
          challengeLoop ext s engine protocol req.kind fuel reply) := by
  cases req <;> rfl

/-- `send` hands exactly the given bytes to the socket's address (and logs nothing else). -/
theorem C09_send_is_verbatim (s : Sock) (data : Bytes) (w : Net) :
    ∃ failed, (send s data w).2.log = w.log ++ [.send s.id s.port data failed] := by
  unfold Gd.send
  split
  · exact ⟨true, rfl⟩
  · exact ⟨false, rfl⟩
  · exact ⟨false, rfl⟩

/-- A reply that is not a challenge ends the exchange: nothing more is sent for this request. -/
theorem C09_valve_no_more_after_answer (ext : Ext) (s : Sock) (engine : Engine) (protocol : Nat) (kind fuel : Nat)
    (p : Packet) (h : p.kind ≠ 0x41) (w : Net) :
    challengeLoop ext s engine protocol kind (fuel + 1) p w = (.ok p.payload, w) := by
  unfold challengeLoop
  have : (p.kind == 0x41) = false := by simpa using h
  simp [this]

example : Allowed (packetBytes 0x55 [1, 2, 3, 4]) := ⟨.players, [1, 2, 3, 4], Or.inr rfl⟩
