import GdVerif.Proto.Valve
/-
  C10 — Retries: at most r+1 attempts, only after timeouts, same result.

  MODEL: `retryOnTimeout` in `GdVerif/Net.lean` (utils.rs `retry_on_timeout`) and the places the
  protocol models call it (the *units*).  An attempt is a run of the unit `f : Q α` on the
  current transport state; its outcome and the state it leaves are `f w`.
-/
open Gd

/-- A chain of `n` consecutive attempts that all end in a timeout-class error, from state `w` to
state `w'`. -/
inductive TimeoutChain (f : Q α) : Nat → Net → Net → Prop
  | nil (w : Net) : TimeoutChain f 0 w w
  | cons {n : Nat} {w w1 w' : Net} {k : ErrKind} (h : f w = (.err k, w1)) (hk : k.isTimeout = true)
      (rest : TimeoutChain f n w1 w') : TimeoutChain f (n + 1) w w'

/-- `retryOnTimeout` instrumented with the number of attempts it makes -/
def retryCounting : Nat → Q α → Net → (Res α × Net) × Nat
  | 0, f, w => (f w, 1)
  | r + 1, f, w =>
    match f w with
    | (.err k, w') => if k.isTimeout then
        let (x, n) := retryCounting r f w'
        (x, n + 1)
      else ((.err k, w'), 1)
    | x => (x, 1)

/-- the instrumentation does not change the result -/
theorem C10_counting_faithful (r : Nat) (f : Q α) (w : Net) :
    (retryCounting r f w).1 = retryOnTimeout r f w := by
  induction r generalizing w with
  | zero => rfl
  | succ r ih =>
    simp only [retryCounting, retryOnTimeout]
    cases hf : f w with
    | mk res w' =>
      cases res with
      | ok a => rfl
      | crash => rfl
      | err k =>
        simp only
        split
        · rw [← ih w']
        · rfl

/-- Never more than `r + 1` attempts, whatever the unit does. -/
theorem C10_at_most_r_plus_one (r : Nat) (f : Q α) (w : Net) : (retryCounting r f w).2 ≤ r + 1 := by
  induction r generalizing w with
  | zero => simp [retryCounting]
  | succ r ih =>
    simp only [retryCounting]
    cases hf : f w with
    | mk res w' =>
      cases res with
      | ok a => simp
      | crash => simp
      | err k =>
        simp only
        split
        · have := ih w'; simp only; omega
        · simp

/-- After `L ≤ r` timed-out attempts, an attempt that does not time out (a valid reply, or a
malformed one) ends the unit with exactly that attempt's outcome after exactly `L + 1` attempts:
the result is the first non-timeout attempt's, and a malformed reply is never retried. -/
theorem C10_first_non_timeout_decides (r L : Nat) (f : Q α) (w wL w' : Net) (res : Res α)
    (hL : L ≤ r) (chain : TimeoutChain f L w wL) (hfin : f wL = (res, w'))
    (hnt : ∀ k, res = .err k → k.isTimeout = false) :
    retryCounting r f w = ((res, w'), L + 1) := by
  induction chain generalizing r with
  | nil w0 =>
    cases r with
    | zero => simp [retryCounting, hfin]
    | succ r =>
      simp only [retryCounting, hfin]
      cases res with
      | ok a => rfl
      | crash => rfl
      | err k => simp [hnt k rfl]
  | cons h hk rest ih =>
    rename_i n w0 w1 wl k
    cases r with
    | zero => omega
    | succ r =>
      simp only [retryCounting, h, hk, ↓reduceIte]
      rw [ih r (by omega) hfin]

/-- If the first `r + 1` attempts all time out, the unit fails with the last attempt's
timeout-class error after exactly `r + 1` attempts. -/
theorem C10_all_timeouts (r : Nat) (f : Q α) (w wr w' : Net) (k : ErrKind)
    (chain : TimeoutChain f r w wr) (hlast : f wr = (.err k, w')) (hk : k.isTimeout = true) :
    retryCounting r f w = ((.err k, w'), r + 1) := by
  induction chain with
  | nil w0 => simp [retryCounting, hlast]
  | cons h hk' rest ih =>
    simp only [retryCounting, h, hk', ↓reduceIte]
    rw [ih hlast]

/-- Timeout-class means exactly: nothing received, or could not send. -/
theorem C10_timeout_class (k : ErrKind) : k.isTimeout = true ↔ (k = .packetReceive ∨ k = .packetSend) := by
  cases k <;> simp [ErrKind.isTimeout]

/-- The retry count may be any natural number (in particular `usize::MAX`): there is no crash
branch in the combinator itself — a crash can only come from the unit. -/
theorem C10_no_crash_of_its_own (r : Nat) (f : Q α) (w : Net) (hf : ∀ w, (f w).1 ≠ .crash) :
    (retryOnTimeout r f w).1 ≠ .crash := by
  induction r generalizing w with
  | zero => exact hf w
  | succ r ih =>
    simp only [retryOnTimeout]
    cases h : f w with
    | mk res w' =>
      cases res with
      | ok a => simp
      | crash => exact absurd (by rw [h]) (hf w)
      | err k =>
        simp only
        split
        · exact ih w'
        · simp

/-- Valve: each request (with all its challenge rounds) is one retried unit. -/
theorem C10_valve_unit (ext : Valve.Ext) (s : Sock) (r : Nat) (engine : Valve.Engine) (protocol : Nat)
    (req : Valve.Request) :
    Valve.requestData ext s r engine protocol req
      = retryOnTimeout r (Valve.requestImpl ext s engine protocol req.kind req.defaultPayload) := rfl

-- non-vacuity: a unit that times out twice and then answers, with r = 2
example :
    let f : Q Nat := do let d ← recv ⟨0, 1, false⟩ none; pure d.length
    let w : Net := ⟨[], [[.silence, .silence, .data [1, 2, 3]]], [], []⟩
    (retryCounting 2 f w).1.1 = .ok 3 ∧ (retryCounting 2 f w).2 = 3 ∧ (retryCounting 1 f w).1.1 = .err .packetReceive := by
  decide
