import GdVerif.Lemmas.Mindustry
/-
  C09 — requests are the protocol's and go to the right port: Mindustry.
-/
open Gd Gd.Mindustry

/-- The request is byte for byte the discovery ping of the game's `ArcNetProvider` (`-2, 1`), and the
default port is the game's (`Vars.port` = 6567). -/
theorem C09_mindustry_request_bytes : ping = Spec.pingRequest ∧ DEFAULT_PORT = Spec.defaultPort := by decide

/-- Whatever the server does (any script), every socket the query opens is a UDP socket to the given port,
every datagram it sends goes to that port and is exactly the ping, every receive uses the 500-byte buffer;
nothing else is done to the transport. -/
theorem C09_mindustry_conforms (port retries : Nat) (script : List ConnScript) (faults : List Bool) :
    ∀ e ∈ (query port retries (Net.init script faults)).2.log,
      match e with
      | .opened _ tcp p _ => tcp = false ∧ p = port
      | .send _ p data _ => p = port ∧ data = [0xFE, 0x01]
      | .recv _ size _ => size = some 500 := by
  intro e he
  have := ((logSafe_query port retries).run script faults).2 e he
  cases e with
  | opened c tcp p r => exact this
  | send c p d f => exact this
  | recv c s g => exact this

/-- Against a conforming server exactly one socket is opened and exactly one ping is sent: the log is
`open, send ping, receive` and nothing else. -/
theorem C09_mindustry_exchange (st : Spec.State) (h : Spec.wf st = true) (port retries : Nat) :
    (query port retries (Net.init [.opened [.data (Spec.encode st)]] [])).2.log
      = [.opened 0 false port false, .send 0 port Spec.pingRequest false,
         .recv 0 (some 500) (some (Spec.encode st).length)] := by
  have hlen : (Spec.encode st).length ≤ 500 := by
    simp only [Spec.wf, Bool.and_eq_true, decide_eq_true_eq] at h
    exact h.2
  have ht : (Spec.encode st).take 500 = Spec.encode st := List.take_of_length_le hlen
  have hrun := (decodesEnd_serverData st h).run
  have hq : attempt port (Net.init [.opened [.data (Spec.encode st)]] [])
      = (.ok (Spec.expected st), ⟨[], [[]], [], [.opened 0 false port false, .send 0 port ping false,
          .recv 0 (some 500) (some (Spec.encode st).length)]⟩) := by
    simp [attempt, openSock, Net.init, send, recv, setAt, parse, Q.lift, MAX_BUFFER_SIZE, ht, bind, Q.bind', hrun]
  unfold query
  rw [retryOnTimeout_ok retries hq]
  rfl
