import GdVerif.Lemmas.Socket
import GdVerif.Props.C18
/-
  C18 — socket.rs inside the model: the two `unwrap`s of `apply_timeout` are the only panics of socket setup, and no
  accepted settings value reaches them; the buffers of `receive` panic only for sizes from `isize::MAX` on.
-/
open Gd Gd.SockRs Gd.Settings

/-- what `TimeoutSettings::new` accepts has no zero read / write duration (and neither have the defaults) -/
theorem C18_socket_accepted_nonzero (t : Option Timeout)
    (h : t = none ∨ ∃ t' r w c n, t = some t' ∧ Settings.new r w c n = .ok t') :
    zeroOpt (readAndWriteOrDefaults t).1 = false ∧ zeroOpt (readAndWriteOrDefaults t).2 = false := by
  rcases h with rfl | ⟨t', r, w, c, n, rfl, hn⟩
  · decide
  · unfold Settings.new at hn
    split at hn; · cases hn
    split at hn; · cases hn
    split at hn; · cases hn
    cases hn
    simp_all [readAndWriteOrDefaults]

/-- For every kind of socket, every remote address, every behaviour of the system that keeps std's contract for the
setters ("an Err is returned if the zero Duration is passed", nothing else), every settings value `TimeoutSettings::new`
accepts — nanoseconds, `u64::MAX` seconds, `None` — or no settings at all, and every sequence of sends and receives with
buffer sizes below `isize::MAX`: nothing panics.  `new` returns `Ok` or the bind / connect error, every operation a
value or an error. -/
theorem C18_socket_accepted_no_panic (k : Kind) (os : Os) (hos : SettersFailOnlyOnZero os) (remote : Addr)
    (t : Option Timeout) (ht : t = none ∨ ∃ t' r w c n, t = some t' ∧ Settings.new r w c n = .ok t')
    (ops : List Op) (hops : ∀ op ∈ ops, op.sizeOk) :
    (session k os remote t ops).1 ≠ .crash ∧ ∀ r ∈ (session k os remote t ops).2.1, r ≠ .crash := by
  obtain ⟨hr, hw⟩ := C18_socket_accepted_nonzero t ht
  have hnew : (sockNew k os remote t []).1 ≠ .crash := by
    cases k with
    | udp =>
      simp only [sockNew, udpNew]
      cases hb : os.bind [] (localFor remote) with
      | error e => simp
      | ok u => obtain ⟨h', e⟩ := applyTimeout_not_crash os hos t _ hr hw; simp only []; rw [e]; simp
    | tcp =>
      simp only [sockNew, tcpNew]
      cases hb : os.connect [] remote (connectOrDefault t) with
      | error e => simp
      | ok u => obtain ⟨h', e⟩ := applyTimeout_not_crash os hos t _ hr hw; simp only []; rw [e]; simp
  unfold session
  cases hx : sockNew k os remote t [] with
  | mk r h1 =>
    rw [hx] at hnew
    cases r with
    | crash => exact absurd rfl hnew
    | err e => simp
    | ok u => exact ⟨by simp, (runOps_sent k os remote ops h1 hops).2.2⟩

/-- the hypotheses are satisfiable on a non-trivial instance: nanosecond and `u64::MAX`-second durations, a failing send,
a truncated datagram -/
example : (session .udp ⟨fun _ _ => .ok (), fun _ _ _ => .ok (), fun _ d => if zeroOpt d then .error .invalidInput else .ok (),
    fun _ d => if zeroOpt d then .error .invalidInput else .ok (), fun _ _ _ => .error .networkUnreachable,
    fun _ _ => .ok ([1, 2, 3], .v4 127 0 0 1 9), fun _ _ => .ok 0, fun _ => .closed, fun _ _ => 0⟩ (.v4 127 0 0 1 27015)
    (some ⟨none, some ⟨0, 1⟩, some ⟨18446744073709551615, 999999999⟩, 18446744073709551615⟩) [.send [7], .receive (some 2)]).2.1
      = [.err .packetSend, .ok [1, 2]] := by decide

/-- The validation is what keeps the `unwrap`s from firing: on a system that refuses a zero duration (as std does), a
zero read or write duration — which `TimeoutSettings::new` rejects — would panic inside `new`. -/
theorem C18_socket_zero_would_panic (k : Kind) (os : Os) (remote : Addr) (t : Timeout)
    (hos : (∀ h d, zeroOpt d = true → ∃ e, os.setRead h d = .error e) ∧ (∀ h d, zeroOpt d = true → ∃ e, os.setWrite h d = .error e))
    (hopen : os.bind [] (localFor remote) = .ok () ∧ os.connect [] remote t.connect = .ok ())
    (hz : zeroOpt t.read = true ∨ zeroOpt t.write = true) :
    (session k os remote (some t) []).1 = .crash := by
  have happ : ∀ h, (SockRs.applyTimeout os (some t) h).1 = .crash := by
    intro h
    unfold SockRs.applyTimeout
    simp only [readAndWriteOrDefaults]
    cases h1 : os.setRead h t.read with
    | error e => simp
    | ok u =>
      rcases hz with hz | hz
      · obtain ⟨e, he⟩ := hos.1 h _ hz; rw [he] at h1; cases h1
      · obtain ⟨e, he⟩ := hos.2 (h ++ [.setReadTimeout t.read]) _ hz; simp [he]
  have hnew : (sockNew k os remote (some t) []).1 = .crash := by
    cases k with
    | udp => simp only [sockNew, udpNew, hopen.1]; exact happ _
    | tcp =>
      have : connectOrDefault (some t) = t.connect := rfl
      simp only [sockNew, tcpNew, this, hopen.2]; exact happ _
  unfold session
  cases hx : sockNew k os remote (some t) [] with
  | mk r h1 => rw [hx] at hnew; simp only at hnew; subst hnew; rfl

example : (session .udp quietOs (.v4 127 0 0 1 27015) (some ⟨none, some ⟨0, 0⟩, none, 0⟩) []).1 = .crash := by decide

/-- A zero CONNECT duration — also rejected by the constructor — would not even panic: `connect_timeout` answers it with an
error value, which is `SocketConnect`. -/
theorem C18_socket_connect_failure_is_an_error (os : Os) (remote : Addr) (t : Option Timeout) (e : IoKind)
    (h : os.connect [] remote (connectOrDefault t) = .error e) :
    (session .tcp os remote t []).1 = .err .socketConnect := by
  simp [session, sockNew, tcpNew, h]

/-- Buffer sizes: the only other panic of the file is the capacity overflow of `vec![0; size]` / `Vec::with_capacity(size)`
from `isize::MAX + 1` on; every size below is fine (the protocols pass constants: 16 … 6144, or nothing = 1024). -/
theorem C18_socket_buffer_sizes (k : Kind) (os : Os) (remote : Addr) (size : Option Nat) (h : List Call) :
    (step k os remote (.receive size) h).1 = .crash ↔ 2 ^ 63 ≤ size.getD 1024 := by
  constructor
  · intro hc
    by_cases hs : size.getD 1024 < 2 ^ 63
    · exact absurd hc (step_not_crash k os remote (.receive size) h hs)
    · omega
  · intro hs
    have : CAPACITY_LIMIT ≤ size.getD DEFAULT_PACKET_SIZE := hs
    cases k <;> simp [step, udpReceive, tcpReceive, this]

example : (step .udp quietOs (.v4 127 0 0 1 1) (.receive (some (2 ^ 63))) []).1 = .crash := by decide
example : (step .tcp quietOs (.v4 127 0 0 1 1) (.receive none) []) = (.err .packetReceive, [.read 1]) := by decide
