import GdVerif.Lemmas.CliPlan
import GdVerif.Lemmas.CliCodec
import GdVerif.Props.C01_dispatch
import GdVerif.Props.C14_dispatch
import GdVerif.Props.C15
import GdVerif.Props.C19
/-
  C19 — the command-line tool inside the model (`Proto/CliPlan.lean`: `main` from the values of the flags to the
  process outcome; `Proto/CliJson.lean`: the JSON documents and a reader for them; `Proto/CliCodec.lean`: hex and
  base64 with their decoders).

  For EVERY invocation (any flag values), resolver, transport state and behaviour of the external serialisers:
    * the plan: what is handed to the library is the looked-up definition, the caller's port / timeouts / retries /
      extra settings, the host name added iff the host was a name and none was given;
    * every failure — bad flag value, unknown game, unresolvable host, failed query, failed serialisation — ends with a
      non-zero status and a message and NO document; a document is printed exactly when every step succeeded, and
      it is printed last;
    * the document decodes to the value: the JSON reader inverts both printers for every value (strings over all of
      Unicode, control characters, quotes, backslashes, any nesting), hex and base64 decoders invert the encoders
      for every byte string, with the alphabet and the padding RFC 4648 prescribes;
    * generic mode prints exactly the common view (the accessor tables of C15), protocol-specific mode the response
      itself inside its variant wrappers;
    * the tool's own `panic!`s / `expect` are never reached.
  serde's derive output (`Env.render`), serde_json / quick-xml / bson failing or not (`Ser`), the resolver and clap's
  tokenisation are parameters: the theorems hold for all of them.
-/
open Gd Gd.Cli Gd.CliPlan

/-! ### the encodings -/

/-- Base 16: for EVERY byte string the decoder gives back what was encoded; the text has two characters per byte, all
of them lower-case hex digits. -/
theorem C19_cli_hex_decodes (bs : Bytes) :
    hexDecode (hexEncode bs) = some bs ∧ (hexEncode bs).length = 2 * bs.length
    ∧ ∀ c ∈ hexEncode bs, isLowerHexDigit c = true :=
  ⟨hexDecode_encode bs, hexEncode_length bs, hexEncode_alphabet bs⟩

/-- Base 64: for EVERY byte string (any length modulo 3) the decoder gives back what was encoded. -/
theorem C19_cli_base64_decodes (bs : Bytes) : b64Decode (b64Encode bs) = some bs := b64Decode_encode bs

/-- Base 64: four characters per group of three bytes (the last group padded); the text is characters of the
standard alphabet followed by exactly `(3 − n mod 3) mod 3` padding characters `=`, and `=` is not in the alphabet. -/
theorem C19_cli_base64_alphabet_and_padding (bs : Bytes) :
    (b64Encode bs).length = 4 * ((bs.length + 2) / 3)
    ∧ (∃ body, b64Encode bs = body ++ List.replicate ((3 - bs.length % 3) % 3) b64Pad ∧ ∀ c ∈ body, isB64Char c = true)
    ∧ isB64Char b64Pad = false :=
  ⟨b64Encode_length bs, b64Encode_shape bs, b64Pad_not_char⟩

example : b64Encode (asciiBytes "fooba") = asciiBytes "Zm9vYmE=" ∧ b64Decode (asciiBytes "Zm9vYmE=") = some (asciiBytes "fooba")
    ∧ b64Decode (asciiBytes "Zm9vYmF=") = none ∧ hexEncode [0, 255, 16] = asciiBytes "00ff10" := by decide

/-! ### the JSON documents -/

/-- For EVERY JSON value whose numbers are JSON numbers — strings and member names are ARBITRARY byte strings: every
Unicode scalar value in UTF-8 (also above U+FFFF), control characters, quotes, backslashes —, at any nesting: the
reader gives back the value from the compact document and from the pretty one. -/
theorem C19_cli_json_reads_back (j : J) (hok : j.numbersOk = true) :
    readJson (jsonCompact j) = some j ∧ readJson (jsonPretty j) = some j :=
  ⟨readJson_print .compact Style.compact_ws j hok 0, readJson_print .pretty Style.pretty_ws j hok 0⟩

/-- The same inside any text: the document of a value, after any white space and before anything that cannot continue
a number, is read as that value and nothing more (documents nest). -/
theorem C19_cli_json_reads_back_in_context (j : J) (hok : j.numbersOk = true) (ws rest : Bytes) (d : Nat)
    (hws : ∀ b ∈ ws, isWs b = true) (hrest : Delim rest) :
    readJ ((printJ .pretty d j).length + 1) (ws ++ (printJ .pretty d j ++ rest)) = some (j, rest) :=
  readJ_print .pretty Style.pretty_ws j hok d _ ws rest hws (by have := sizeJ_le_print .pretty j hok d; omega) hrest

/-- Strings over all Unicode scalar values: a string of any scalars (and a member named by any scalars) reads back. -/
theorem C19_cli_json_any_text (cs ks : List Nat) (_hcs : Scalars cs) (_hks : Scalars ks) :
    readJson (jsonCompact (.obj (.cons (utf8Encode ks) (.str (utf8Encode cs)) .nil)))
      = some (.obj (.cons (utf8Encode ks) (.str (utf8Encode cs)) .nil))
    ∧ readJson (jsonPretty (.obj (.cons (utf8Encode ks) (.str (utf8Encode cs)) .nil)))
      = some (.obj (.cons (utf8Encode ks) (.str (utf8Encode cs)) .nil)) :=
  C19_cli_json_reads_back _ rfl

-- non-vacuity: U+10FFFF, U+0001, a quote, a backslash, DEL, U+2028 in a string; the escapes the printer writes
example : jsonCompact (.arr (.cons (.str (utf8Encode [0x10FFFF, 1, 0x22, 0x5C, 0x7F, 0x2028, 10])) (.cons (.num (asciiBytes "-1.5e+300")) .nil)))
    = [0x5B, 0x22, 0xF4, 0x8F, 0xBF, 0xBF] ++ asciiBytes "\\u0001\\\"\\\\" ++ [0x7F, 0xE2, 0x80, 0xA8] ++ asciiBytes "\\n\",-1.5e+300]" := by
  decide
example : (J.arr (.cons (.str (utf8Encode [0x10FFFF, 1, 0x22, 0x5C, 0x7F, 0x2028, 10])) (.cons (.num (asciiBytes "-1.5e+300")) .nil))).numbersOk = true := by
  decide

/-! ### the plan of an invocation -/

/-- For EVERY invocation and resolver: a plan exists exactly when clap accepts the flag values, the game id is a key of
the definitions table and the host is an IP literal or resolves; then the row is the looked-up one, port, timeout
settings, output mode and format are the caller's, and
  * for a literal host: the address is the literal and the extra settings are the caller's, unchanged;
  * for a name: the address is the resolver's and the extra settings are `set_hostname_if_missing(host, caller's)`. -/
theorem C19_cli_plan (resolve : Bytes → Option Http.IpAddr) (fl : Flags) (p : Plan) :
    plan resolve fl = .ok p ↔
      ∃ args, clap fl = some args ∧ lookupGame args.game = some p.row ∧ p.port = args.port
        ∧ p.timeoutSettings = args.timeoutSettings ∧ p.outputMode = args.outputMode ∧ p.format = args.format
        ∧ ((parseIpAddr args.ip = some p.address ∧ p.hostWasName = false ∧ p.extraOptions = args.extraOptions)
          ∨ (parseIpAddr args.ip = none ∧ p.hostWasName = true ∧ resolve args.ip = some p.address
              ∧ p.extraOptions = setHostnameIfMissing args.ip args.extraOptions)) := by
  rw [plan_eq]
  constructor
  · intro h
    cases hc : clap fl with
    | none => simp [hc] at h
    | some args =>
      simp only [hc] at h
      cases hg : lookupGame args.game with
      | none => simp [hg] at h
      | some row =>
        simp only [hg] at h
        cases hp : parseIpAddr args.ip with
        | some ip =>
          simp only [hp, Step.ok.injEq] at h
          subst h
          exact ⟨args, rfl, hg, rfl, rfl, rfl, rfl, Or.inl ⟨hp, rfl, rfl⟩⟩
        | none =>
          simp only [hp] at h
          cases hr : resolve args.ip with
          | none => simp [hr] at h
          | some ip =>
            simp only [hr, Step.ok.injEq] at h
            subst h
            exact ⟨args, rfl, hg, rfl, rfl, rfl, rfl, Or.inr ⟨hp, rfl, hr, rfl⟩⟩
  · rintro ⟨args, hc, hg, h1, h2, h3, h4, h⟩
    obtain ⟨row, nm, addr, port, ts, ex, om, fm⟩ := p
    simp only at hg h1 h2 h3 h4 h
    subst h1 h2 h3 h4
    simp only [hc, hg]
    rcases h with ⟨hp, rfl, rfl⟩ | ⟨hp, rfl, hr, rfl⟩
    · simp only [hp]
    · simp only [hp, hr]

/-- `set_hostname_if_missing`: the result always names a host — the one the caller gave if there was one, the host of the
command line otherwise — and every other field is the caller's (absent if there were no extra settings). -/
theorem C19_cli_hostname_added_iff_missing (host : Bytes) (extra : Option Dispatch.Extra) :
    ∃ e, setHostnameIfMissing host extra = some e
      ∧ e.hostname = some ((extra.bind (·.hostname)).getD host)
      ∧ e.protocolVersion = extra.bind (·.protocolVersion) ∧ e.gatherPlayers = extra.bind (·.gatherPlayers)
      ∧ e.gatherRules = extra.bind (·.gatherRules) ∧ e.checkAppId = extra.bind (·.checkAppId) :=
  setHostnameIfMissing_spec host extra

/-- The keys of the definitions table are ASCII (so `lookupGame`'s comparison of bytes is `GAMES.get`'s of strings), and
every row is found under its own id. -/
theorem C19_cli_ids_ascii :
    (Gen.gameDefs.all fun row => row.id.toList.all fun c => c.toNat < 128) = true := by decide

-- non-vacuity (evaluated by the kernel: `decide +kernel`; the elaborator's own evaluation of `validUtf8` is exponential):
-- a name for a Minecraft server without `--hostname`; the same with one; a literal
example : plan (fun _ => some (.v4 10 0 0 7)) { game := some (asciiBytes "minecraft"), ip := some (asciiBytes "mc.example.org"), retries := some (asciiBytes "2") }
    = .ok ⟨⟨"minecraft", "Minecraft", 25565, "prop:Minecraft(None)", "-", "-", true, 25565, false, .minecraft .auto⟩, true, .v4 10 0 0 7, none,
        some ⟨some ⟨4, 0⟩, some ⟨4, 0⟩, some ⟨4, 0⟩, 2⟩, some ⟨some (asciiBytes "mc.example.org"), none, none, none, none⟩, .generic, .debug⟩ := by
  decide +kernel
example : (plan (fun _ => none) { game := some (asciiBytes "q3a"), ip := some (asciiBytes "::ffff:1.2.3.4"), port := some (asciiBytes "-0") }).bind
    (fun p => .ok (p.hostWasName, p.address, p.port, p.extraOptions)) = .ok (false, .v6 0 0 0 0 0 0xFFFF 0x0102 0x0304, some 0, none) := by
  decide +kernel
example : plan (fun _ => none) { game := some (asciiBytes "q3a"), ip := some (asciiBytes "1.2.3.04") } = .fail (.invalidHostname (asciiBytes "1.2.3.04")) := by
  decide +kernel

/-! ### the ways out -/

/-- A bad flag value (or a missing `--game` / `--ip`): clap's usage error, whatever else. -/
theorem C19_cli_bad_flag (env : Env) (fl : Flags) (w : Net) (h : clap fl = none) : main env fl w = .usage := by
  rw [main_eq, plan_eq, h]

/-- An unknown game id (any text that is not a key of the table): `Err(UnknownGame)`. -/
theorem C19_cli_unknown_game (env : Env) (fl : Flags) (w : Net) (args : Args) (h : clap fl = some args)
    (hg : lookupGame args.game = none) : main env fl w = .fail (.unknownGame args.game) := by
  rw [main_eq, plan_eq, h]
  simp only [hg]

/-- A host that is neither an IP literal nor resolvable: `Err(InvalidHostname)`. -/
theorem C19_cli_unresolvable_host (env : Env) (fl : Flags) (w : Net) (args : Args) (row : Gen.GameRow)
    (h : clap fl = some args) (hg : lookupGame args.game = some row) (hp : parseIpAddr args.ip = none)
    (hr : env.resolve args.ip = none) : main env fl w = .fail (.invalidHostname args.ip) := by
  rw [main_eq, plan_eq, h]
  simp only [hg, hp, hr]

/-- The model has an arm for every row `find_game` can return. -/
theorem C19_cli_never_outside_the_model (env : Env) (fl : Flags) (w : Net) : main env fl w ≠ .unmodelled := by
  rw [main_eq]
  cases hp : plan env.resolve fl with
  | ok p =>
    obtain ⟨args, _, hg, _⟩ := (C19_cli_plan env.resolve fl p).mp hp
    have hsome := List.all_eq_true.mp C14_dispatch_rows_modelled.1 p.row (lookupGame_mem hg)
    obtain ⟨game, hgame⟩ := Option.isSome_iff_exists.mp hsome
    simp only [hgame]
    cases (Dispatch.generic env.dispatch game p.port p.timeoutSettings p.extraOptions w).1 with
    | ok r =>
      simp only
      unfold document bsonDocument
      repeat' split
      all_goals simp [orFail]
      all_goals (split <;> simp)
    | err k => simp
    | crash => simp
  | usage => simp
  | fail e => simp
  | panic => simp
  | unmodelled => exact absurd hp (plan_ne_panic env.resolve fl).2

/-- THE QUERY ISSUED and what happens to its result: with a plan, `main` runs exactly the library's generic query of the
plan's definition with the plan's port, timeout and extra settings; a failed query is `Err(Gamedig)`; a response is
handed to the writer of the requested format as `as_json()` / `as_original()` according to the mode. -/
theorem C19_cli_after_the_plan (env : Env) (fl : Flags) (w : Net) (p : Plan) (game : Dispatch.Game)
    (hp : plan env.resolve fl = .ok p) (hg : Dispatch.Game.ofRow p.row = some game) :
    main env fl w =
      match (Dispatch.generic env.dispatch game p.port p.timeoutSettings p.extraOptions w).1 with
      | .ok response => document env.ser p.format (valueFor p.outputMode (env.render response))
      | .err kind => .fail (.gamedig kind)
      | .crash => .panic := by
  rw [main_eq, hp]
  simp only [hg]
  rfl

/-- A failed query (any error kind, in particular an unreachable server) ends with `Err(Gamedig)`. -/
theorem C19_cli_failed_query (env : Env) (fl : Flags) (w : Net) (p : Plan) (game : Dispatch.Game) (k : ErrKind)
    (hp : plan env.resolve fl = .ok p) (hg : Dispatch.Game.ofRow p.row = some game)
    (hq : (Dispatch.generic env.dispatch game p.port p.timeoutSettings p.extraOptions w).1 = .err k) :
    main env fl w = .fail (.gamedig k) := by
  rw [C19_cli_after_the_plan env fl w p game hp hg, hq]

/-- Every writer: all that can fail comes BEFORE the one `println!`.  The outcome of a writer on a value is a
document (then every serialiser step succeeded) or an error / a panic with nothing printed:
  JSON: `Err(Serde)` iff serde_json fails;  XML: `Err(Serde)` / `Err(Xml)` iff `to_value` / a `write_event` fails;
  BSON: `Err(Bson)` iff `to_bson` or `to_vec` fails; the `panic!` only for a value that is not a document. -/
theorem C19_cli_writer_outcomes (ser : Ser) (v : J) :
    document ser .debug v = .ok (ser.debugText v)
    ∧ document ser .json v = (if ser.jsonOk v then .ok (jsonCompact v) else .fail .serde)
    ∧ document ser .jsonPretty v = (if ser.jsonOk v then .ok (jsonPretty v) else .fail .serde)
    ∧ (ser.jsonOk v = false → document ser .xml v = .fail .serde)
    ∧ (ser.jsonOk v = true → ser.xmlWriteOk v = false → document ser .xml v = .fail .xml)
    ∧ (ser.toBsonOk v = false → document ser .bsonHex v = .fail .bson ∧ document ser .bsonBase64 v = .fail .bson)
    ∧ (ser.toBsonOk v = true → isObj v = true → ser.bsonBytes v = none →
        document ser .bsonHex v = .fail .bson ∧ document ser .bsonBase64 v = .fail .bson) := by
  refine ⟨rfl, rfl, rfl, fun h => by simp [document, h], fun h1 h2 => by simp [document, h1, h2],
    fun h => by simp [document, bsonDocument, h], fun h1 h2 h3 => by simp [document, bsonDocument, h1, h2, h3, orFail]⟩

/-- A DOCUMENT IS PRINTED ONLY WHEN EVERY STEP SUCCEEDED: if `main` prints `doc`, then clap accepted the flags, the game
was found, the host was a literal or resolved, the query returned a response and the writer of the requested format
produced `doc` from the value of the requested mode. -/
theorem C19_cli_document_only_on_success (env : Env) (fl : Flags) (w : Net) (doc : Bytes) (h : main env fl w = .ok doc) :
    ∃ p game response, plan env.resolve fl = .ok p ∧ Dispatch.Game.ofRow p.row = some game
      ∧ (Dispatch.generic env.dispatch game p.port p.timeoutSettings p.extraOptions w).1 = .ok response
      ∧ document env.ser p.format (valueFor p.outputMode (env.render response)) = .ok doc := by
  rw [main_eq] at h
  cases hp : plan env.resolve fl with
  | ok p =>
    simp only [hp] at h
    cases hg : Dispatch.Game.ofRow p.row with
    | none => simp [hg] at h
    | some game =>
      simp only [hg] at h
      cases hq : (Dispatch.generic env.dispatch game p.port p.timeoutSettings p.extraOptions w).1 with
      | ok response => simp only [hq] at h; exact ⟨p, game, response, rfl, hg, hq, h⟩
      | err k => simp [hq] at h
      | crash => simp [hq] at h
  | usage => simp [hp] at h
  | fail e => simp [hp] at h
  | panic => simp [hp] at h
  | unmodelled => simp [hp] at h

/-- THE EXIT STATUS, for every invocation, environment and transport state: status 0 exactly when a document was printed —
then stdout is that document and a newline and nothing is written to stderr; in every other case (usage error, `Err`
from `main`, panic) the status is not 0, NOTHING is on stdout and there is a message. -/
theorem C19_cli_exit_status (env : Env) (fl : Flags) (w : Net) :
    ∃ o, (main env fl w).process = some o
      ∧ (o.exitCode = 0 ↔ ∃ doc, main env fl w = .ok doc)
      ∧ (∀ doc, main env fl w = .ok doc → o = ⟨0, doc ++ [0x0A], false⟩)
      ∧ (o.exitCode ≠ 0 → o.stdout = [] ∧ o.message = true) := by
  have hne := C19_cli_never_outside_the_model env fl w
  cases h : main env fl w with
  | ok doc => exact ⟨_, rfl, ⟨fun _ => ⟨doc, rfl⟩, fun _ => rfl⟩, fun d hd => (by cases hd; rfl), fun hx => absurd rfl hx⟩
  | usage => exact ⟨_, rfl, ⟨fun hx => (by cases hx), fun ⟨_, hx⟩ => (by cases hx)⟩, fun d hd => (by cases hd), fun _ => ⟨rfl, rfl⟩⟩
  | fail e => exact ⟨_, rfl, ⟨fun hx => (by cases hx), fun ⟨_, hx⟩ => (by cases hx)⟩, fun d hd => (by cases hd), fun _ => ⟨rfl, rfl⟩⟩
  | panic => exact ⟨_, rfl, ⟨fun hx => (by cases hx), fun ⟨_, hx⟩ => (by cases hx)⟩, fun d hd => (by cases hd), fun _ => ⟨rfl, rfl⟩⟩
  | unmodelled => exact absurd h hne

/-- NEVER A PANIC: if the external pieces behave as Rust guarantees — Eco's HTTP client does not panic (C01's
hypothesis), a response is wrapped in at least one variant by `as_original()`, and what `to_value` builds holds only
text — then, for every invocation and every transport state, none of the tool's own `panic!`s / `expect` is reached
and the library's query does not crash. -/
theorem C19_cli_no_panic (env : Env) (fl : Flags) (w : Net) (heco : Dispatch.EcoSafe env.dispatch)
    (hvariants : ∀ r, (env.render r).variants ≠ []) (htext : ∀ v, TextOk (env.ser.toValue v)) :
    main env fl w ≠ .panic := by
  rw [main_eq]
  cases hp : plan env.resolve fl with
  | ok p =>
    simp only
    cases hg : Dispatch.Game.ofRow p.row with
    | none => simp
    | some game =>
      simp only
      have hq := C01_dispatch_any_state env.dispatch game (fun _ => heco) p.port p.timeoutSettings p.extraOptions w
      cases hres : (Dispatch.generic env.dispatch game p.port p.timeoutSettings p.extraOptions w).1 with
      | ok response =>
        simp only
        have hobj := isObj_valueFor p.outputMode (env.render response) (hvariants response)
        have hutf := validUtf8_renderDocument _ (htext (valueFor p.outputMode (env.render response)))
        have hbson : bsonDocument env.ser (valueFor p.outputMode (env.render response)) ≠ .panic := by
          rcases bsonDocument_cases env.ser (valueFor p.outputMode (env.render response)) with
            ⟨_, hb⟩ | ⟨_, ho, _⟩ | ⟨_, _, _, hb⟩ | ⟨b, _, _, _, hb⟩
          · simp [hb]
          · rw [hobj] at ho; cases ho
          · simp [hb]
          · simp [hb]
        cases p.format
        · simp [document]
        · simp only [document]; split <;> simp
        · simp only [document]; split <;> simp
        · simp only [document, hutf]
          split; · simp
          split; · simp
          simp
        · simp only [document]
          cases hb : bsonDocument env.ser (valueFor p.outputMode (env.render response)) <;> simp_all
        · simp only [document]
          cases hb : bsonDocument env.ser (valueFor p.outputMode (env.render response)) <;> simp_all
      | err k => simp
      | crash => exact absurd hres hq
  | usage => simp
  | fail e => simp
  | panic => exact absurd hp (plan_ne_panic env.resolve fl).1
  | unmodelled => simp

/-! ### the document holds the values -/

/-- JSON and pretty JSON: the printed document reads back as EXACTLY the value of the requested mode (for every
response, accessor table and variant wrapper). -/
theorem C19_cli_json_document_holds_the_value (ser : Ser) (mode : OutputMode) (r : Rendered) (doc : Bytes) :
    (document ser .json (valueFor mode r) = .ok doc → readJson doc = some (valueFor mode r))
    ∧ (document ser .jsonPretty (valueFor mode r) = .ok doc → readJson doc = some (valueFor mode r)) := by
  have hok := numbersOk_valueFor mode r
  constructor
  · intro h
    simp only [document] at h
    split at h
    · cases h; exact (C19_cli_json_reads_back _ hok).1
    · cases h
  · intro h
    simp only [document] at h
    split at h
    · cases h; exact (C19_cli_json_reads_back _ hok).2
    · cases h

/-- BSON as hex / as base64: the printed text decodes to exactly the bytes `bson::to_vec` produced for the value (which
is a document). -/
theorem C19_cli_bson_document_decodes (ser : Ser) (v : J) (doc : Bytes) :
    (document ser .bsonHex v = .ok doc → ∃ b, ser.bsonBytes v = some b ∧ isObj v = true ∧ hexDecode doc = some b)
    ∧ (document ser .bsonBase64 v = .ok doc → ∃ b, ser.bsonBytes v = some b ∧ isObj v = true ∧ b64Decode doc = some b) := by
  constructor
  · intro h
    simp only [document] at h
    rcases bsonDocument_cases ser v with ⟨_, hb⟩ | ⟨_, _, hb⟩ | ⟨_, _, _, hb⟩ | ⟨b, _, ho, hbytes, hb⟩
    · simp [hb] at h
    · simp [hb] at h
    · simp [hb] at h
    · simp only [hb, Step.bind_ok, Step.pure_eq, Step.ok.injEq] at h
      subst h
      exact ⟨b, hbytes, ho, hexDecode_encode b⟩
  · intro h
    simp only [document] at h
    rcases bsonDocument_cases ser v with ⟨_, hb⟩ | ⟨_, _, hb⟩ | ⟨_, _, _, hb⟩ | ⟨b, _, ho, hbytes, hb⟩
    · simp [hb] at h
    · simp [hb] at h
    · simp [hb] at h
    · simp only [hb, Step.bind_ok, Step.pure_eq, Step.ok.injEq] at h
      subst h
      exact ⟨b, hbytes, ho, b64Decode_encode b⟩

/-- XML: the printed document is the converter's rendering of `to_value(value)` — the document the theorems of `C19.lean`
are about (names, nesting, escaping) — and it is UTF-8. -/
theorem C19_cli_xml_document (ser : Ser) (v : J) (doc : Bytes) (h : document ser .xml v = .ok doc) :
    doc = renderDocument (ser.toValue v) ∧ validUtf8 doc = true := by
  simp only [document] at h
  split at h; · cases h
  split at h; · cases h
  split at h; · cases h
  rename_i _ _ hv
  cases h
  exact ⟨rfl, by simpa using hv⟩

/-- XML: for EVERY Unicode scalar value of a server string, what the converter writes for it is made of XML characters only:
the character itself where XML 1.1 allows it literally, one of the five named references, or a numeric reference to an
XML character (the controls); U+0000, U+FFFE and U+FFFF — no XML characters, not even as references — become U+FFFD. -/
theorem C19_cli_xml_only_xml_characters (isAttr : Bool) (c : Nat) (hc : isScalar c = true) :
    (∃ c', xmlLiteralOk c' = true ∧ escapeScalar isAttr c = utf8EncodeChar c')
    ∨ escapeScalar isAttr c ∈ [asciiBytes "&amp;", asciiBytes "&lt;", asciiBytes "&gt;", asciiBytes "&quot;", asciiBytes "&apos;"]
    ∨ (xmlCharOk c = true ∧ escapeScalar isAttr c = asciiBytes "&#x" ++ hexUpper c ++ asciiBytes ";") := by
  have hs := (isScalar_iff c).mp hc
  unfold escapeScalar
  split; · exact Or.inr (Or.inl (by simp))
  split; · exact Or.inr (Or.inl (by simp))
  split; · exact Or.inr (Or.inl (by simp))
  split; · exact Or.inr (Or.inl (by simp))
  split; · exact Or.inr (Or.inl (by simp))
  rename_i h38 h60 h62 h34 h39
  simp only [beq_iff_eq] at h38 h60 h62 h34 h39
  split; · exact Or.inl ⟨0xFFFD, by decide, rfl⟩
  rename_i hnon
  simp only [Bool.or_eq_true, beq_iff_eq, not_or] at hnon
  split
  · rename_i htl
    simp only [Bool.and_eq_true, Bool.or_eq_true, beq_iff_eq] at htl
    refine Or.inl ⟨c, ?_, rfl⟩
    rcases htl.1 with rfl | rfl <;> decide
  split
  · rename_i _ hctl
    simp only [isControl, Bool.or_eq_true, Bool.and_eq_true, decide_eq_true_eq] at hctl
    refine Or.inr (Or.inr ⟨?_, rfl⟩)
    simp only [xmlCharOk, Bool.or_eq_true, Bool.and_eq_true, decide_eq_true_eq]
    omega
  · rename_i _ hctl
    simp only [isControl, Bool.or_eq_true, Bool.and_eq_true, decide_eq_true_eq, not_or, not_and, Nat.not_lt] at hctl
    refine Or.inl ⟨c, ?_, rfl⟩
    simp only [xmlLiteralOk, Bool.or_eq_true, Bool.and_eq_true, decide_eq_true_eq, beq_iff_eq]
    omega

example : escapeScalar false 0xFFFF = [0xEF, 0xBF, 0xBD] ∧ escapeScalar true 0xFFFE = [0xEF, 0xBF, 0xBD] ∧ escapeScalar false 0xFFFD = [0xEF, 0xBF, 0xBD]
    ∧ escapeScalar false 0x10FFFF = [0xF4, 0x8F, 0xBF, 0xBF] ∧ escapeScalar false 0x85 = asciiBytes "&#x85;" := by decide

/-- GENERIC MODE PRINTS EXACTLY THE COMMON VIEW: the value is the object of the ten members of `CommonResponseJson`, in
that order, each the value of the type's accessor (the generated tables of C15: `C15_json_is_the_view`), the players
as the list of their own `as_json()`. -/
theorem C19_cli_generic_is_the_common_view (r : Rendered) :
    valueFor .generic r =
      .obj (.cons (asciiBytes "name") (valToJ (Views.eval (Views.accessor r.responseTable "name") r.tree))
        (.cons (asciiBytes "description") (valToJ (Views.eval (Views.accessor r.responseTable "description") r.tree))
        (.cons (asciiBytes "game_mode") (valToJ (Views.eval (Views.accessor r.responseTable "game_mode") r.tree))
        (.cons (asciiBytes "game_version") (valToJ (Views.eval (Views.accessor r.responseTable "game_version") r.tree))
        (.cons (asciiBytes "map") (valToJ (Views.eval (Views.accessor r.responseTable "map") r.tree))
        (.cons (asciiBytes "players_maximum") (valToJ (Views.eval (Views.accessor r.responseTable "players_maximum") r.tree))
        (.cons (asciiBytes "players_online") (valToJ (Views.eval (Views.accessor r.responseTable "players_online") r.tree))
        (.cons (asciiBytes "players_bots") (valToJ (Views.eval (Views.accessor r.responseTable "players_bots") r.tree))
        (.cons (asciiBytes "has_password") (valToJ (Views.eval (Views.accessor r.responseTable "has_password") r.tree))
        (.cons (asciiBytes "players")
          (valToJ (match Views.eval (Views.accessor r.responseTable "players") r.tree with
            | .arr ps => .arr (ps.map (Views.playerJson r.playerTable))
            | v => v)) .nil)))))))))) := by
  simp only [valueFor, Views.responseJson, valToJ, fieldsToJ]
  rfl

/-- PROTOCOL-SPECIFIC MODE PRINTS THE ORIGINAL RESPONSE: the value is the response's own serde tree inside one object
per variant of `as_original()`'s wrapper (`{"Valve": response}`, `{"GameSpy": {"One": response}}`). -/
theorem C19_cli_protocol_specific_is_the_original (r : Rendered) :
    unwrapVariants r.variants (valueFor .protocolSpecific r) = some (valToJ r.tree) := by
  simp only [valueFor]
  generalize r.variants = vs
  induction vs with
  | nil => rfl
  | cons v rest ih => simp only [wrapVariants, unwrapVariants, ↓reduceIte, ih]

-- non-vacuity: protocol-specific mode, compact JSON, a response inside its variant wrappers; and back
example :
    jsonCompact (valueFor .protocolSpecific ⟨.obj [("name", .str (asciiBytes "a\"b")), ("players", .arr [.obj [("frags", .num (-3))]])], [], [], ["GameSpy", "One"]⟩)
      = asciiBytes "{\"GameSpy\":{\"One\":{\"name\":\"a\\\"b\",\"players\":[{\"frags\":-3}]}}}"
    ∧ (readJson (asciiBytes "{\"GameSpy\":{\"One\":{\"name\":\"a\\\"b\",\"players\":[{\"frags\":-3}]}}}")).map jsonPretty
      = some (jsonPretty (valueFor .protocolSpecific ⟨.obj [("name", .str (asciiBytes "a\"b")), ("players", .arr [.obj [("frags", .num (-3))]])], [], [], ["GameSpy", "One"]⟩)) := by
  decide +kernel
