import GdVerif.Lemmas.Jc2m
/-
  C07 (Just Cause 2: Multiplayer) — every field of a well-formed reply is returned in the
  correspondingly named response field, the reported-vs-listed player count override applied, nothing
  fabricated.

  MODEL: `GdVerif/Proto/Jc2m.lean` (+ `Proto/Gs3.lean` in single-packet mode).  SPEC: `GdVerif/Spec/Jc2m.lean`:
  a state is ALL the server's variables in the order sent (every order, every set of extra variables)
  and its players; `Config` is the challenge and the 11 bytes of split header; `Spec.wf` is the domain.
-/
open Gd Gd.Jc2m Gd.Jc2m.Spec

/-- The whole query against the SPEC's server, for every well-formed state, any port (given or the
default 7777) and retry count: `game_version`, `description`, `name`, `has_password`,
`players_maximum` are the variables `version`, `description`, `hostname`, `password`, `maxplayers`;
`players_online` is the larger of `numplayers` and the number of listed players; `players` are all
players, in order, with name, steam id and ping. -/
theorem C07_jc2m_query (cfg : Config) (st : State) (h : wf cfg st = true) (port : Option Nat) (retries : Nat) :
    (Jc2m.query port retries (Net.init [.opened ((script cfg st).map .data)] [])).1 = .ok (expected st) :=
  (query_spec cfg st h port retries).1

/-- The player block alone: any number of players below 2^16, empty names included. -/
theorem C07_jc2m_players (ps : List Player) (h : ∀ p ∈ ps, wfPlayer p = true) (hl : ps.length < 2 ^ 16) :
    parsePlayers.run (natBE 2 ps.length ++ (ps.map encPlayer).flatten) = .ok ps :=
  parsePlayers_run ps h hl

/-- Nothing fabricated: every response field is a function of the reply bytes only — here, of the
state the reply encodes: two well-formed states with the same variables and players give the same
response, whatever the challenge and the split header. -/
theorem C07_jc2m_nothing_fabricated (cfg cfg' : Config) (st : State) (h : wf cfg st = true) (h' : wf cfg' st = true)
    (port : Option Nat) (retries : Nat) :
    (Jc2m.query port retries (Net.init [.opened ((script cfg st).map .data)] [])).1
      = (Jc2m.query port retries (Net.init [.opened ((script cfg' st).map .data)] [])).1 := by
  rw [C07_jc2m_query cfg st h, C07_jc2m_query cfg' st h']

/-- The requests are the SPEC's (payload `FF FF FF 02`, the challenge echoed) and nothing else is sent. -/
theorem C07_jc2m_requests (cfg : Config) (st : State) (h : wf cfg st = true) (port : Option Nat) (retries : Nat) :
    Gs3.sentOf (Jc2m.query port retries (Net.init [.opened ((script cfg st).map .data)] [])).2.log = requests cfg :=
  (query_spec cfg st h port retries).2

/-! non-vacuity: a concrete state (an extra variable, two players, one with an empty name) is well-formed -/

def C07_jc2m_exampleState : State :=
  ⟨[([118, 101, 114, 115, 105, 111, 110], [49]), ([100, 101, 115, 99, 114, 105, 112, 116, 105, 111, 110], [68]),
    ([120], [121]), ([104, 111, 115, 116, 110, 97, 109, 101], [72]), ([112, 97, 115, 115, 119, 111, 114, 100], [49]),
    ([109, 97, 120, 112, 108, 97, 121, 101, 114, 115], [56])],
   [⟨[65], [55], 300⟩, ⟨[], [56], 65535⟩]⟩

def C07_jc2m_exampleConfig : Config := ⟨-2147483648, [115, 112, 108, 105, 116, 110, 117, 109, 0, 0x80, 0]⟩

set_option maxRecDepth 8000 in
theorem C07_jc2m_example_wf : wf C07_jc2m_exampleConfig C07_jc2m_exampleState = true := by decide

example : (Jc2m.query none 2 (Net.init [.opened ((script C07_jc2m_exampleConfig C07_jc2m_exampleState).map .data)] [])).1
    = .ok (expected C07_jc2m_exampleState) :=
  C07_jc2m_query _ _ C07_jc2m_example_wf none 2
