import GdVerif.Lemmas.TheShip
/-
  C10 — retries: The Ship.  The retried units are the Valve query's (info / players / rules requests, each with
  its challenge rounds: `C10_valve_unit`); the retry count is the caller's.
-/
open Gd

theorem C10_theship_units (ext : Valve.Ext) (port retries : Nat) :
    TheShip.query ext port retries
      = (Valve.query ext port (Valve.Engine.new 2400) Valve.Gather.default retries >>= fun r =>
          Q.lift (TheShip.convert r)) := rfl
