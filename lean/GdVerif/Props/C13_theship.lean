import GdVerif.Lemmas.SmallCost
import GdVerif.Lemmas.SmallBlock
/-
  C13 (requests sent) — The Ship: the Valve query (`units` = 3: info, players, rules), then a pure
  conversion.
-/
open Gd Gd.TheShip

/-- Valve's bound: at most one datagram per attempt of each of the three requests plus one per
datagram received (challenge echoes), for every script, fault vector, retry setting. -/
theorem C13_theship_send_bound (ext : Valve.Ext) (port retries : Nat) (script : List ConnScript) (faults : List Bool) :
    nSends (query ext port retries (Net.init script faults)).2.log
      ≤ 3 * (retries + 1) + nRecvOk (query ext port retries (Net.init script faults)).2.log := by
  have := (cost_query ext port retries).total script faults
  omega

/-- Against a server that never answers only the info request is made: `retries + 1` datagrams. -/
theorem C13_theship_silent_sends (ext : Valve.Ext) (port retries : Nat) :
    nSends (query ext port retries (Net.init [] [])).2.log = retries + 1 :=
  (silent_query ext port retries (Net.init [] []) rfl rfl).counts.2.1

/-- all three requests are made when the info request is answered and the players and rules requests
are not (no retry); `3` is the least constant `units` for which `units · (retries + 1) + received`
bounds the requests for every retry setting (the exact excess over the datagrams received is
`3 · retries + 2`: a request that succeeded ended with a reply that earned nothing) -/
example : nSends (query ⟨fun _ => none, fun _ => 0⟩ 27015 0 (Net.init [.opened [.data [255, 255, 255, 255, 73, 0, 32, 1, 48, 240, 159, 152, 128, 194, 167, 40, 122, 45, 47, 240, 159, 152, 128, 48, 226, 130, 172, 0, 92, 62, 58, 0, 57, 0, 1, 59, 195, 169, 227, 129, 130, 66, 38, 195, 191, 194, 167, 58, 58, 38, 34, 93, 59, 93, 65, 47, 1, 244, 143, 191, 191, 60, 95, 46, 195, 191, 48, 194, 167, 48, 194, 167, 97, 91, 46, 66, 47, 0, 96, 9, 0, 107, 128, 112, 109, 0, 0, 254, 127, 165, 9, 1, 92, 57, 244, 143, 191, 191, 58, 40, 227, 129, 130, 0, 224, 0, 0, 255, 255, 57, 10, 0, 92, 196, 128, 65, 39, 196, 128, 239, 191, 191, 95, 227, 129, 130, 244, 143, 191, 191, 60, 59, 239, 191, 191, 0], .silence, .silence]] [])).2.log = 3 := by
  decide +kernel
