import GdVerif.Lemmas.Unreal2Query
/-
  C06 — Unreal 2 replies decode strings and lists without loss or addition.

  MODEL: `GdVerif/Proto/Unreal2.lean` (the repaired `protocols/unreal2`, tied to the code by
         `props/c06.py` on every run: families `unreal2` — whole exchanges — and `u2str` — the string
         decoder alone, every length byte 0–255).
  SPEC:  `GdVerif/Spec/Unreal2.lean` (encoders and the expected response, written from the format as
         node-gamedig's `protocols/unreal2.js` reads it).
-/
open Gd Gd.Unreal2 Gd.Unreal2.Spec

/-! ### strings -/

/-- The string codec, for EVERY string of the format's domain — every length 0–127 the length byte
can announce, in both encodings, with or without the terminating NUL, with or without the stray
`0x01`, any colour escapes (components of any value, 27 included) and control characters anywhere —
and whatever follows the string in the packet: the reader returns exactly the SPEC's text (the
characters sent minus colour escapes, minus control characters `0x01–0x1A`, minus the terminating
NUL, and nothing else: the length byte is not text), and leaves the cursor exactly behind the
string. -/
theorem C06_string (s : UStr) (h : wfStr s = true) (post : Bytes) :
    ∃ b, readU2Str (Buf.new (encStr s ++ post)) = .ok (s.text, b)
      ∧ b.pos = (encStr s).length ∧ b.rest = post ∧ b.data = encStr s ++ post := by
  obtain ⟨b, h1, h2, h3⟩ := decodes_u2Str s h (Buf.new (encStr s ++ post)) post (by simp)
  refine ⟨b, h1, ?_, h2, by simpa using h3⟩
  have := b.data_length
  rw [h3] at this
  simp only [Buf.data_new, List.length_append, Buf.remaining, h2] at this
  omega

/-- the same on the decoder function itself (what `u2str` cases exercise): text and bytes consumed -/
theorem C06_string_decoder (s : UStr) (h : wfStr s = true) (post : Bytes) :
    u2Dec (encStr s ++ post) = .ok (s.text, (encStr s).length) :=
  u2Dec_encStr s h post

/-- what that text is, Latin-1: each byte through windows-1252, then `strip` -/
theorem C06_text_latin1 (units : List Nat) (nul stray : Bool) :
    (UStr.mk .latin1 units nul stray).text = utf8Encode (strip (units.map fun u => cp1252Char (UInt8.ofNat u))) := rfl

/-- what that text is, UCS-2: the code units as UTF-16 (surrogate pairs combined), then `strip` -/
theorem C06_text_ucs2 (units : List Nat) (nul stray : Bool) (cs : List Nat) (h : utf16Decode units = some cs) :
    (UStr.mk .ucs2 units nul stray).text = utf8Encode (strip cs) := by
  simp [UStr.text, UStr.chars, h]

/-- `strip` keeps every character that is neither part of a colour escape nor a control character, in
order: on text without ESC it is exactly the removal of `0x01–0x1A` -/
theorem C06_strip_plain (cs : List Nat) (h : ∀ c ∈ cs, c ≠ 0x1b) :
    strip cs = cs.filter (fun c => !(1 ≤ c && c ≤ 0x1a)) := by
  unfold strip
  congr 1
  induction cs with
  | nil => rfl
  | cons c r ih =>
    rw [stripColour_cons_ne c r (h c (by simp)), ih (fun d hd => h d (by simp [hd]))]

/-- … and a colour escape in front of it disappears with its three colour characters, whatever they
are (27 included) -/
theorem C06_strip_escape (r g b : Nat) (cs : List Nat) : strip (0x1b :: r :: g :: b :: cs) = strip cs := by
  unfold strip
  rw [stripColour_cons_esc]
  rfl

theorem utf16Decode_replicate_A (n : Nat) : utf16Decode (List.replicate n 0x41) = some (List.replicate n 0x41) := by
  induction n with
  | zero => rfl
  | succ n ih =>
    rw [List.replicate_succ]
    unfold utf16Decode
    simp [ih]

/-- non-vacuity of `C06_string` at every length: for each encoding and each count 1–127 the length
byte can announce (and 0 for Latin-1; the empty UCS-2 string is `C06_string_empty_ucs2`) there is a
string of the domain with exactly that count -/
theorem C06_string_every_length (enc : Enc) (n : Nat) (h1 : 1 ≤ n) (h2 : n < 128) :
    let s : UStr := ⟨enc, List.replicate (n - 1) 0x41, true, false⟩
    s.count = n ∧ wfStr s = true ∧ s.text = List.replicate (n - 1) 0x41 := by
  intro s
  have hcount : s.count = n := by
    simp [s, UStr.count, UStr.wire]; omega
  have hall : ∀ u ∈ List.replicate (n - 1) 0x41, u = 0x41 := fun u hu => (List.mem_replicate.mp hu).2
  have hstrip : strip (List.replicate (n - 1) 0x41) = List.replicate (n - 1) 0x41 := by
    rw [C06_strip_plain _ (fun c hc => by rw [hall c hc]; decide)]
    rw [List.filter_eq_self]
    intro c hc
    rw [hall c hc]; decide
  have hutf8 : utf8Encode (List.replicate (n - 1) 0x41) = List.replicate (n - 1) (0x41 : UInt8) := by
    unfold utf8Encode
    generalize n - 1 = k
    induction k with
    | zero => rfl
    | succ k ih => simp only [List.replicate_succ, List.flatMap_cons, ih]; rfl
  have hrange : ∀ u ∈ s.units, 0 < u ∧ u < 256 := fun u hu => by
    rw [hall u hu]; exact ⟨by decide, by decide⟩
  refine ⟨hcount, ?_, ?_⟩
  · unfold wfStr
    rw [hcount]
    cases enc with
    | latin1 =>
      have : s.units.all (fun u => decide (0 < u) && decide (u < 256)) = true :=
        List.all_eq_true.mpr fun u hu => by simp [hrange u hu]
      simp [s, h2] at this ⊢
    | ucs2 =>
      have hall2 : s.units.all (fun u => decide (0 < u) && decide (u < 65536)) = true :=
        List.all_eq_true.mpr fun u hu => by
          have := hrange u hu
          simp [this.1]; omega
      have hdec : (utf16Decode s.units).isSome = true := by
        simp [s, utf16Decode_replicate_A]
      have henc : s.enc = .ucs2 := rfl
      simp only [henc, hall2, hdec, h2, decide_true, Bool.true_and]
      have hs : s.stray = false := rfl
      rw [hs, Bool.false_or]
      simp only [s, UStr.wire, ↓reduceIte]
      cases n - 1 with
      | zero => rfl
      | succ k => rfl
  · cases enc with
    | latin1 =>
      rw [C06_text_latin1]
      have : (List.replicate (n - 1) 0x41).map (fun u => cp1252Char (UInt8.ofNat u)) = List.replicate (n - 1) 0x41 := by
        rw [List.map_replicate]; rfl
      rw [this, hstrip, hutf8]
    | ucs2 =>
      rw [C06_text_ucs2 _ _ _ _ (utf16Decode_replicate_A _), hstrip, hutf8]

/-- length 0: a lone length byte `0x00` is the empty string -/
theorem C06_string_empty_latin1 (post : Bytes) : u2Dec (0x00 :: post) = .ok ([], 1) := by
  simp [u2Dec, latin1Part, cleanText, cp1252Decode, colourFilter, trimNul, utf8Encode]

/-- length 0 in UCS-2 (`0x80`): the empty string, provided the next byte of the packet is not `0x01`
(which the format cannot tell from the stray byte) -/
theorem C06_string_empty_ucs2 (post : Bytes) (h : post.head? ≠ some 1) : u2Dec (0x80 :: post) = .ok ([], 1) := by
  have hs : strayOf post = 0 := by
    unfold strayOf
    have : (post.head? == some 1) = false := by simpa using h
    simp [this]
  have h1 : (0x80 : UInt8).toNat = 0x80 := rfl
  simp [u2Dec, h1, hs, ucs2Part, unitsOf, utf16Decode, cleanText, colourFilter, trimNul, utf8Encode]

/-! ### the defect this property found, on the model of the code as it was -/

/-- the colour filter before the repair: ESC restarts the count also inside an escape -/
def colourFilterOld : Nat → List Nat → List Nat
  | _, [] => []
  | skip, c :: r =>
    if c == 0x1b then colourFilterOld 4 r
    else if skip - 1 == 0 then c :: colourFilterOld (skip - 1) r else colourFilterOld (skip - 1) r

/-- the Latin-1 branch before the repair: the text is `data[0 .. first NUL]`, i.e. it starts with the
length byte, and the announced length is ignored -/
def latin1Old (data : Bytes) : Bytes × Nat :=
  let position := findByte 0 data
  (utf8Encode (trimNul ((colourFilterOld 0 (cp1252Decode (data.take position))).filter (fun c => !isCtl c))), position + 1)

/-- `C06_finding_1`: a 30-character name (length byte 31 = 0x1F) came back prefixed with U+001F; the
repaired decoder returns the 30 characters. -/
theorem C06_finding_1 :
    latin1Old (0x1f :: List.replicate 30 0x41 ++ [0]) = (0x1f :: List.replicate 30 0x41, 32)
    ∧ u2Dec (0x1f :: List.replicate 30 0x41 ++ [0]) = .ok (List.replicate 30 0x41, 32) := by
  decide

/-- `C06_finding_2`: a 26-character name (length byte 27 = ESC) lost its first three characters. -/
theorem C06_finding_2 :
    latin1Old (0x1b :: List.replicate 26 0x42 ++ [0]) = (List.replicate 23 0x42, 28)
    ∧ u2Dec (0x1b :: List.replicate 26 0x42 ++ [0]) = .ok (List.replicate 26 0x42, 28) := by
  decide

/-- `C06_finding_3`: a colour whose red component is 27 swallowed the character after the escape. -/
theorem C06_finding_3 :
    colourFilterOld 0 [0x1b, 0x1b, 0x40, 0x40, 0x41, 0x42, 0x43] = [0x42, 0x43]
    ∧ colourFilter 0 [0x1b, 0x1b, 0x40, 0x40, 0x41, 0x42, 0x43] = [0x41, 0x42, 0x43] := by
  decide

/-! ### server info -/

/-- The server-info reply (4 header bytes of any value, kind 0, the nine fields, then whatever else
the game appends): the numeric fields and the four strings exactly as sent. -/
theorem C06_info (st : State) (hh : st.header.length = 4) (h1 : st.serverId < 2 ^ 32) (h2 : wfStr st.ip = true)
    (h3 : st.gamePort < 2 ^ 32) (h4 : st.queryPort < 2 ^ 32) (h5 : wfStr st.name = true) (h6 : wfStr st.map = true)
    (h7 : wfStr st.gameType = true) (h8 : st.numPlayers < 2 ^ 32) (h9 : st.maxPlayers < 2 ^ 32) :
    (consumeHeaders .serverInfo >>= fun _ => parseServerInfo).run (infoDatagram st)
      = .ok ⟨st.serverId, st.ip.text, st.gamePort, st.queryPort, st.name.text, st.map.text, st.gameType.text,
             st.numPlayers, st.maxPlayers, false⟩ := by
  have hd := decodes_serverInfo st h1 h2 h3 h4 h5 h6 h7 h8 h9
  have hend : DecodesEnd parseServerInfo (encInfo st) (infoOf st) := by
    intro b hr
    obtain ⟨b', h1, _, h3⟩ := hd b st.extra (by rw [hr, encInfo_eq])
    exact ⟨b', h1, h3⟩
  exact headers_then st hh .serverInfo parseServerInfo _ _ hend

/-! ### mutators and rules, over any number of datagrams -/

/-- One datagram of the rules answer, folded into whatever has been accumulated so far. -/
theorem C06_rules_datagram (st : State) (hh : st.header.length = 4) (acc : MutatorsAndRules) (c : List (UStr × UStr))
    (hw : ∀ p ∈ c, wfStr p.1 = true ∧ wfStr p.2 = true) :
    rulesRound acc (reply st 1 (c.map encPair).flatten)
      = .ok (c.foldl (fun a p => a.add p.1.text (some p.2.text)) acc, true) :=
  rulesRound_dg st hh acc c hw

/-- The rules answer cut into datagrams at ANY positions (1 datagram, 6, any number; empty ones
included): taking the datagrams one after the other from the empty accumulator, every one is
accepted and the result is the SPEC's: every mutator once, every rule value under its key in the
order sent. -/
theorem C06_rules (st : State) (cuts : List Nat) (hh : st.header.length = 4)
    (hw : ∀ p ∈ st.pairs, wfStr p.1 = true ∧ wfStr p.2 = true) :
    Rounds rulesRound .empty ((split cuts st.pairs).map fun c => reply st 1 (c.map encPair).flatten) (expectedMR st) := by
  have hflat := split_flatten cuts st.pairs
  have := rules_rounds st hh (split cuts st.pairs) (fun c hc p hp => hw p (by
    rw [← hflat]; exact List.mem_flatten.mpr ⟨c, hc, hp⟩)) []
  rw [hflat] at this
  exact this

/-- every mutator is listed, and nothing else is -/
theorem C06_mutators_complete (kv : List (Bytes × Bytes)) (m : Bytes) :
    m ∈ expectedMutators kv ↔ ∃ k, (k, m) ∈ kv ∧ isMutatorKey k = true := by
  unfold expectedMutators
  rw [mem_firsts, List.mem_map]
  constructor
  · rintro ⟨p, hp, rfl⟩
    obtain ⟨h1, h2⟩ := List.mem_filter.mp hp
    exact ⟨p.1, h1, h2⟩
  · rintro ⟨k, h1, h2⟩
    exact ⟨(k, m), List.mem_filter.mpr ⟨h1, h2⟩, rfl⟩

/-- no mutator is listed twice, no rule key appears twice -/
theorem C06_no_duplicates (kv : List (Bytes × Bytes)) :
    (expectedMutators kv).Nodup ∧ ((expectedRules kv).map (·.1)).Nodup := by
  refine ⟨nodup_firsts _, ?_⟩
  unfold expectedRules
  simp only [List.map_map]
  have : ((fun (p : Bytes × List Bytes) => p.1) ∘ fun k => (k, valuesOf (kv.filter fun x => !isMutatorKey x.1) k)) = id := rfl
  rw [this, List.map_id]
  exact nodup_firsts _

/-- every rule value is kept under its key, and nothing is added: `v` is listed under `k` exactly when
the pair `k = v` was sent (and `k` is not the mutator key) -/
theorem C06_rules_complete (kv : List (Bytes × Bytes)) (k v : Bytes) :
    (∃ vs, (k, vs) ∈ expectedRules kv ∧ v ∈ vs) ↔ ((k, v) ∈ kv ∧ isMutatorKey k = false) := by
  unfold expectedRules
  simp only [List.mem_map, mem_firsts]
  constructor
  · rintro ⟨vs, ⟨k', ⟨p, hp, hpk⟩, heq⟩, hv⟩
    cases heq
    unfold valuesOf at hv
    obtain ⟨q, hq, rfl⟩ := List.mem_map.mp hv
    obtain ⟨hq1, hq2⟩ := List.mem_filter.mp hq
    obtain ⟨hq3, hq4⟩ := List.mem_filter.mp hq1
    have hk : q.1 = k := by simpa using hq2
    subst hk
    exact ⟨hq3, by simpa using hq4⟩
  · rintro ⟨h1, h2⟩
    have hmem : (k, v) ∈ kv.filter (fun x => !isMutatorKey x.1) := List.mem_filter.mpr ⟨h1, by simp [h2]⟩
    refine ⟨_, ⟨k, ⟨(k, v), hmem, rfl⟩, rfl⟩, ?_⟩
    unfold valuesOf
    exact List.mem_map.mpr ⟨(k, v), List.mem_filter.mpr ⟨hmem, by simp⟩, rfl⟩

/-! ### players, over any number of datagrams -/

/-- One datagram of the players answer, folded into whatever has been accumulated so far; the flag
says whether fewer entries than announced have been read. -/
theorem C06_players_datagram (st : State) (hh : st.header.length = 4) (n : Nat) (acc : Players) (c : List SPlayer)
    (hw : ∀ p ∈ c, wfPlayer p = true) :
    ∃ acc', playersRound n acc (reply st 2 (c.map encPlayer).flatten) = .ok (acc', decide (acc'.totalLen < n))
      ∧ acc' = ⟨acc.players ++ (c.filter (·.ping != 0)).map expectedPlayer,
                acc.bots ++ (c.filter (·.ping == 0)).map expectedPlayer⟩ :=
  ⟨_, playersRound_dg st hh n acc c hw, foldl_pushPlayer c acc⟩

/-- The players answer cut into datagrams at ANY positions, with the announced number not reached
before the last datagram: every datagram is taken and the result is every player exactly once, in
the order sent, among the bots if its ping is 0 and among the players otherwise. -/
theorem C06_players (st : State) (cuts : List Nat) (hh : st.header.length = 4)
    (hw : ∀ p ∈ st.players, wfPlayer p = true)
    (hann : (split cuts st.players).length ≤ 1 ∨ (split cuts st.players).dropLast.flatten.length < st.numPlayers) :
    RoundsStop (playersRound st.numPlayers) .empty
      ((split cuts st.players).map fun c => reply st 2 (c.map encPlayer).flatten) (expectedPlayers st) := by
  have hflat := split_flatten cuts st.players
  have := players_rounds st hh st.numPlayers (split cuts st.players) (fun c hc p hp => hw p (by
    rw [← hflat]; exact List.mem_flatten.mpr ⟨c, hc, hp⟩)) .empty (by
      rcases hann with h | h
      · exact Or.inl h
      · exact Or.inr (by simpa [Players.empty, Players.totalLen] using h))
  rw [hflat, expectedPlayers_eq] at this
  exact this

/-- a player is reported as a bot if and only if its ping is 0, and every player appears once -/
theorem C06_bot_iff (st : State) :
    (∀ p ∈ (expectedPlayers st).bots, p.ping = 0) ∧ (∀ p ∈ (expectedPlayers st).players, p.ping ≠ 0)
    ∧ (∀ sp ∈ st.players, (sp.ping = 0 → expectedPlayer sp ∈ (expectedPlayers st).bots)
        ∧ (sp.ping ≠ 0 → expectedPlayer sp ∈ (expectedPlayers st).players))
    ∧ (expectedPlayers st).players.length + (expectedPlayers st).bots.length = st.players.length := by
  unfold expectedPlayers
  refine ⟨?_, ?_, ?_, ?_⟩
  · intro p hp
    obtain ⟨sp, hsp, rfl⟩ := List.mem_map.mp hp
    simpa [expectedPlayer] using (List.mem_filter.mp hsp).2
  · intro p hp
    obtain ⟨sp, hsp, rfl⟩ := List.mem_map.mp hp
    simpa [expectedPlayer] using (List.mem_filter.mp hsp).2
  · intro sp hsp
    exact ⟨fun h0 => List.mem_map.mpr ⟨sp, List.mem_filter.mpr ⟨hsp, by simp [h0]⟩, rfl⟩,
      fun h0 => List.mem_map.mpr ⟨sp, List.mem_filter.mpr ⟨hsp, by simp [h0]⟩, rfl⟩⟩
  · simp only [List.length_map]
    induction st.players with
    | nil => rfl
    | cons p r ih =>
      by_cases h0 : p.ping = 0 <;> simp [List.filter_cons, h0] at ih ⊢ <;> omega

/-! ### the whole query -/

/-- The property, on the whole query: for EVERY server state and configuration of the format's
domain (strings as in `C06_string`, any number of key/value pairs with repeated keys, any number of
players, each list cut into any number of datagrams of at most 1024 bytes, all 9 toggle pairs, each
optional section answered, not answered, or answered with garbage, any retry count), running
`unreal2::query` against the server's script returns exactly the response the SPEC entitles the user
to — the numeric fields and strings as sent, every rule value under its key, every mutator, every
player once, a bot iff its ping is 0, the password flag from the `GamePassword` rule — or, when a
section set to Enforce fails, exactly that failure. -/
theorem C06_query (cfg : Config) (st : State) (hwf : wf cfg st = true) (port : Nat) :
    (query port cfg.gather cfg.retries (Net.init [.opened (script cfg st)] [])).1 = expected cfg st :=
  query_spec cfg st hwf port

/-! ### non-vacuity: a concrete server in the domain -/

namespace C06Example
/-- "ЁA" in UCS-2 behind a colour escape whose red component is 27, with the stray byte -/
def name : UStr := ⟨.ucs2, [0x1b, 27, 64, 64, 0x401, 0x41], true, true⟩
def l1 (l : List Nat) : UStr := ⟨.latin1, l, true, false⟩
/-- info; `Mutator = IG`, `A = x`, `A = y` over two datagrams; a bot and a player with a 30-character
name over two datagrams -/
def st : State := ⟨[0x80, 0, 0, 0], 7, l1 [49, 48], 7777, 7778, name, l1 [68, 77], l1 [120, 68], 2, 16, [9],
  [(l1 [77, 117, 116, 97, 116, 111, 114], l1 [73, 71]), (l1 [65], l1 [120]), (l1 [65], l1 [121])],
  [⟨1, l1 [66], 0, -3, 0⟩, ⟨2, ⟨.latin1, List.replicate 30 0x41, true, false⟩, 50, 12, 99⟩]⟩
def cfg : Config := ⟨⟨.enforce, .enforce⟩, 1, [2], [1], .valid, .valid⟩
end C06Example

set_option maxRecDepth 4000 in
example : wf C06Example.cfg C06Example.st = true := by decide

set_option maxRecDepth 4000 in
example : expected C06Example.cfg C06Example.st
    = .ok ⟨⟨7, [49, 48], 7777, 7778, [0xD0, 0x81, 0x41], [68, 77], [120, 68], 2, 16, false⟩,
        ⟨[[73, 71]], [([65], [[120], [121]])]⟩,
        ⟨[⟨2, List.replicate 30 0x41, 50, 12, 99⟩], [⟨1, [66], 0, -3, 0⟩]⟩⟩ := by decide
