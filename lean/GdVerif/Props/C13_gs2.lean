import GdVerif.Lemmas.Gs2Cost
import GdVerif.Lemmas.Gs2Block
/-
  C13 (requests sent) — GameSpy 2.  `units` = 1: one request (`FE FD 00 …` asking for info, players
  and teams at once), one datagram back; the exchange is the retried unit.
-/
open Gd Gd.Gs2

/-- Whatever the server does, for every script, fault vector and retry setting, the GameSpy 2 query
sends at most one datagram per attempt: `retries + 1` in all, however many datagrams it receives. -/
theorem C13_gs2_send_bound (port retries : Nat) (script : List ConnScript) (faults : List Bool) :
    nSends (query port retries (Net.init script faults)).2.log ≤ retries + 1 :=
  (sends_query port retries).total script faults

/-- The form the trace oracle of `props/c13.py` checks (`send_units` = 1). -/
theorem C13_gs2_send_bound_units (port retries : Nat) (script : List ConnScript) (faults : List Bool) :
    nSends (query port retries (Net.init script faults)).2.log
      ≤ 1 * (retries + 1) + nRecvOk (query port retries (Net.init script faults)).2.log := by
  have := C13_gs2_send_bound port retries script faults
  omega

/-- The bound is attained for every retry setting: against a server that never answers exactly
`retries + 1` requests are sent. -/
theorem C13_gs2_send_bound_attained (port retries : Nat) :
    nSends (query port retries (Net.init [] [])).2.log = retries + 1 :=
  (silent_query port retries (Net.init [] []) rfl rfl).counts.2.1

example : nSends (query 2302 2 (Net.init [.opened [.silence, .silence, .silence]] [])).2.log = 3 := by decide
