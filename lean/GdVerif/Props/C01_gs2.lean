import GdVerif.Lemmas.GsSafe
/-
  C01 — Hostile server responses never crash or hang a query: GameSpy 2.

  MODEL: `GdVerif/Proto/Gs2.lean`.  The three loops of the parser (`get_server_vars`, the column
  heads, the rows) take fuel from the bytes remaining and crash when it runs out: the theorem
  includes that it never does (every round that goes on consumed a byte; the rows are counted).
-/
open Gd Gd.Gs

/-- `gamespy::two::query`: no crash for any script and any retry count. -/
theorem C01_gs2_query (port retries : Nat) (script : List ConnScript) (faults : List Bool) :
    (Gs2.query port retries (Net.init script faults)).1 ≠ .crash :=
  (Gs2.query_safe port retries (Net.init script faults)).1

/-- The parsers alone, on any bytes and from any cursor position. -/
theorem C01_gs2_parsers (data : Bytes) :
    (Gs2.checkHeader.run data).isCrash = false ∧ (Gs2.parseBody.run data).isCrash = false
    ∧ (Gs2.dataAsTable.run data).isCrash = false ∧ (Gs2.getServerVars.run data).isCrash = false := by
  have key : ∀ {α : Type} (p : Par α), Safe p → (p.run data).isCrash = false := by
    intro α p hp
    have := Par.run_ne_crash hp data
    cases h : p.run data <;> simp_all [Res.isCrash]
  exact ⟨key _ Gs2.safe_checkHeader, key _ Gs2.safe_parseBody, key _ Gs2.safe_dataAsTable, key _ Gs2.safe_getServerVars⟩

-- non-vacuity: an unterminated value (the reply that panicked through the packet reader before its
-- repair) and a table announcing 255 rows with nothing behind are in the quantifier
example : (Gs2.query 2302 0 (Net.init [.opened [.data [0, 0, 0, 0, 1, 107, 0, 118]]] [])).1 = .err .packetUnderflow := by
  decide +kernel

example : (Gs2.query 2302 0 (Net.init [.opened [.data [0, 0, 0, 0, 1, 0, 0, 255]]] [])).1 = .err .packetBad := by
  decide +kernel
