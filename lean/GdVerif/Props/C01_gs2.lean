import GdVerif.Spec.Gs2
/- C01_gs2: theorems to come -/
