import GdVerif.Lemmas.ValveBlock
import GdVerif.Proto.Settings
/-
  C12 — Timeouts bound every blocking step on real sockets.

  What a model can carry (and what is proved here): how many blocking steps of a query can run into
  their timeout at all, that the transport hands bytes over unmodified, and that the sockets are
  always given the configured timeouts.  That the operating system then honours SO_RCVTIMEO /
  connect_timeout, and what the wall clock shows, is MEASURED by `props/c12.py` on real loopback
  sockets (IPv4 and IPv6) and is not a theorem.  Claimed as partial.
-/
open Gd Gd.Valve

/-- Whatever the server does — silent from the start, stopping after any reply, answering garbage —
at most `3 · (retries + 1)` blocking steps of a Valve query run into their timeout (timed-out
receives, failed sends, a failed socket creation): one per attempt of each of its three requests.
Every other blocking step returned because the peer delivered something.  Hence
wall time ≤ 3 · (retries + 1) · timeout + the server's own delays. -/
theorem C12_valve_blocking_bound (ext : Ext) (port : Nat) (engine : Engine) (g : Gather) (retries : Nat)
    (script : List ConnScript) (faults : List Bool) :
    nBlocked (query ext port engine g retries (Net.init script faults)).2.log ≤ 3 * (retries + 1) + 1 := by
  rw [query_eq, Q.bind_apply]
  have key : ∀ (s : Sock) (w0 : Net) (ev : Ev), w0.log = [ev] → isBlocked ev = false →
      nBlocked (queryBody ext s engine g retries w0).2.log ≤ 3 * (retries + 1) + 1 := by
    intro s w0 ev hlog hb
    obtain ⟨added, hl, hc⟩ := block_queryBody ext s engine g retries w0
    rw [hl, hlog, nBlocked_append]
    have h1 : nBlocked [ev] = 0 := by simp [nBlocked, hb]
    rw [h1]
    cases hres : (queryBody ext s engine g retries w0).1 <;> rw [hres] at hc <;> simp only at hc <;> omega
  cases hp : (Net.init script faults).pending with
  | nil => simp only [openSock, hp]; exact key _ _ _ rfl rfl
  | cons c rest =>
    cases c with
    | opened ds => simp only [openSock, hp]; exact key _ _ _ rfl rfl
    | refused => simp only [openSock, hp]; simp [Net.init, nBlocked, isBlocked]

/-- one attempt against a silent server: the request is sent, the receive times out, nothing else happens -/
theorem requestImpl_silent (ext : Ext) (s : Sock) (engine : Engine) (protocol kind : Nat) (payload : Bytes)
    (pending : List ConnScript) (conns : List (List Delivery)) (log : List Ev) (hudp : s.tcp = false)
    (hq : conns.getD s.id [] = []) :
    requestImpl ext s engine protocol kind payload ⟨pending, conns, [], log⟩
      = (.err .packetReceive, ⟨pending, conns, [], log ++ [.send s.id s.port (packetBytes kind payload) false,
          .recv s.id (some PACKET_SIZE) none]⟩) := by
  simp only [requestImpl, bind, Q.bind', Gd.send, receive, Gd.recv, hq, hudp, Bool.false_eq_true, ↓reduceIte,
    List.append_assoc, List.cons_append, List.nil_append]

/-- A silent server: every attempt of a request times out once; after exactly `retries + 1` attempts
(one request and one timed-out receive each) the request fails with the receive-class error. -/
theorem C12_silent_server (ext : Ext) (s : Sock) (engine : Engine) (protocol : Nat) (req : Request) (hudp : s.tcp = false)
    (retries : Nat) : ∀ (pending : List ConnScript) (conns : List (List Delivery)) (log : List Ev),
      conns.getD s.id [] = [] →
      ∃ added, requestData ext s retries engine protocol req ⟨pending, conns, [], log⟩
          = (.err .packetReceive, ⟨pending, conns, [], log ++ added⟩)
        ∧ nBlocked added = retries + 1 ∧ added.length = 2 * (retries + 1) := by
  induction retries with
  | zero =>
    intro pending conns log hq
    refine ⟨[.send s.id s.port (packetBytes req.kind req.defaultPayload) false, .recv s.id (some PACKET_SIZE) none], ?_, ?_, ?_⟩
    · simp only [requestData, retryOnTimeout]
      exact requestImpl_silent ext s engine protocol req.kind req.defaultPayload pending conns log hudp hq
    · simp [nBlocked, isBlocked]
    · rfl
  | succ r ih =>
    intro pending conns log hq
    obtain ⟨added, h1, h2, h3⟩ := ih pending conns
      (log ++ [.send s.id s.port (packetBytes req.kind req.defaultPayload) false, .recv s.id (some PACKET_SIZE) none]) hq
    refine ⟨[.send s.id s.port (packetBytes req.kind req.defaultPayload) false, .recv s.id (some PACKET_SIZE) none] ++ added, ?_, ?_, ?_⟩
    · simp only [requestData, retryOnTimeout,
        requestImpl_silent ext s engine protocol req.kind req.defaultPayload pending conns log hudp hq, ErrKind.isTimeout, ↓reduceIte]
      simp only [requestData] at h1
      rw [h1, List.append_assoc]
    · rw [nBlocked_append, h2]; simp [nBlocked, isBlocked]; omega
    · simp [h3]; omega

/-- Transport fidelity as the code defines it: a received UDP datagram is delivered unmodified up to
the requested buffer size (1024 when none is given); a TCP stream is delivered unmodified. -/
theorem C12_receive_unmodified (s : Sock) (size : Option Nat) (w : Net) (d : Bytes) (rest : List Delivery)
    (h : w.conns.getD s.id [] = .data d :: rest) :
    (recv s size w).1 = .ok (if s.tcp then d else d.take (size.getD 1024)) := by
  unfold Gd.recv
  rw [h]

/-- Bytes handed to the transport are logged (sent) unmodified to the socket's address. -/
theorem C12_send_unmodified (s : Sock) (data : Bytes) (w : Net) :
    ∃ failed, (send s data w).2.log = w.log ++ [.send s.id s.port data failed] := by
  unfold Gd.send
  split
  · exact ⟨true, rfl⟩
  · exact ⟨false, rfl⟩
  · exact ⟨false, rfl⟩

/-- Every socket is given timeouts: with no settings the defaults (4 s) apply, never "block forever". -/
theorem C12_default_timeouts_are_finite :
    Settings.default.read = some ⟨4, 0⟩ ∧ Settings.default.write = some ⟨4, 0⟩ ∧ Settings.default.connect = some ⟨4, 0⟩ := by
  decide
