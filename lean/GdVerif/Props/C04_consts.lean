import GdVerif.Gen.Consts
import GdVerif.Lemmas.Consts
import GdVerif.Spec.Gs1
import GdVerif.Spec.Gs2
import GdVerif.Spec.Gs3
/-
  C04 — the names and numbers of the GameSpy 1 / 2 / 3 parsers: SOURCE = MODEL = SPEC (tie by TRANSLATION).

  The typed variable keys of the three `query` functions (what does not end up in `unused_entries`), the per-player
  field kinds of GameSpy 1, the table column names of GameSpy 2, the typed field names / `splitnum` tag / flag masks of
  GameSpy 3, the `password` key of `common.rs`.  `Gd.Gen.Consts.*` is regenerated from the source on every run.
  For the typed keys the MODEL side is a run of the model's `buildResponse` on a map holding exactly the source's keys
  (nothing is left over); that the model takes nothing else out of the map is `C04_gs*_query` (model = SPEC for every
  reply) together with SPEC keys = source keys below.
-/
open Gd Gd.Gen Gd.ConstsAux

/-! ### GameSpy 1 -/

/-- `final`, `queryid` -/
theorem C04_consts_gs1_control_keys :
    Gs1.kFinal = asciiBytes Consts.gs1_final_key ∧ Gs1.kQueryId = asciiBytes Consts.gs1_queryid_key := by decide

/-- `"team" | "player" | … | "health" => false`: the per-player field kinds = `Gs1.playerKinds`; the keys
`extract_players` then reads from a player's map are the same eleven -/
theorem C04_consts_gs1_player_kinds :
    Gs1.playerKinds = keys Consts.gs1_player_kinds
    ∧ sameSet (keys Consts.gs1_player_gets) Gs1.playerKinds = true := by decide

/-- SPEC: the typed keys are the ones `query` removes, `password` (common.rs) and the two control keys -/
theorem C04_consts_gs1_spec_typed_keys :
    sameSet Gs1.Spec.typedKeys (keys (Consts.gs1_typed_keys ++ [Consts.gs1_final_key, Consts.gs1_queryid_key])) = true
    ∧ Consts.gs_password_key ∈ Consts.gs1_typed_keys := by decide

/-- the value used for a typed key in the runs below: `true` for `tournament`, `1` elsewhere -/
def C04_consts_probeValue (k : String) : Bytes := if k == "tournament" then asciiBytes "true" else asciiBytes "1"

/-- MODEL: from a map with exactly the source's typed keys `buildResponse` succeeds and leaves only `admin` (which
`.or_else` does not touch when `AdminName` is there); without `AdminName` nothing is left; without any one of the
required keys it fails -/
theorem C04_consts_gs1_model_typed_keys :
    resMap (fun r => r.unusedEntries.map (·.1))
        (Gs1.buildResponse (Consts.gs1_typed_keys.map fun k => (asciiBytes k, C04_consts_probeValue k)))
      = .ok [asciiBytes "admin"]
    ∧ resMap (fun r => r.unusedEntries)
        (Gs1.buildResponse ((Consts.gs1_typed_keys.filter (· != "AdminName")).map fun k => (asciiBytes k, C04_consts_probeValue k)))
      = .ok []
    ∧ Consts.gs1_tournament_default = "true" := by decide

/-! ### GameSpy 2 -/

/-- the header of the reply: `read::<u8>() != 0 || read::<u32>() != 1` -/
theorem C04_consts_gs2_reply_header :
    Gs2.checkHeader = (do
      let h ← readUnsigned .big 1
      if h != Consts.gs2_reply_header.getD 0 9 then Par.fail .packetBad
      else do
        let id ← readUnsigned .big 4
        if id != Consts.gs2_reply_header.getD 1 9 then Par.fail .packetBad else currentPosition) := rfl

/-- `table_extract!(table, "team_t" / "score_t", …)`, `"player_" / "score_" / "ping_" / "team_"` -/
theorem C04_consts_gs2_columns (t : Gs2.Table) (index : Nat) :
    Gs2.teamAt t index = (do
      let name ← Gs2.tableExtract t (Consts.gs2_team_columns.getD 0 "") index
      let score ← Gs2.tableExtractU16 t (Consts.gs2_team_columns.getD 1 "") index
      pure ⟨name, score⟩)
    ∧ Gs2.playerAt t index = (do
      let name ← Gs2.tableExtract t (Consts.gs2_player_columns.getD 0 "") index
      let score ← Gs2.tableExtractU16 t (Consts.gs2_player_columns.getD 1 "") index
      let ping ← Gs2.tableExtractU16 t (Consts.gs2_player_columns.getD 2 "") index
      let team ← Gs2.tableExtractU16 t (Consts.gs2_player_columns.getD 3 "") index
      pure ⟨name, score, ping, team⟩)
    ∧ Consts.gs2_team_columns.length = 2 ∧ Consts.gs2_player_columns.length = 4 := ⟨rfl, rfl, rfl, rfl⟩

/-- SPEC: the column heads a server sends first are the source's -/
theorem C04_consts_gs2_spec_columns (y : Gs2.Spec.Style) :
    (Gs2.Spec.playerHeads y).take 4 = keys Consts.gs2_player_columns
    ∧ (Gs2.Spec.teamHeads y).take 2 = keys Consts.gs2_team_columns := ⟨rfl, rfl⟩

/-- SPEC: typed keys = the keys `query` removes -/
theorem C04_consts_gs2_spec_typed_keys :
    sameSet Gs2.Spec.typedKeys (keys Consts.gs2_typed_keys) = true := by decide

/-- MODEL: `two::query` takes exactly the source's keys out of the variables, in the source's order, and the server
is passworded exactly when `password` is the text the source compares with (`"1"`) -/
theorem C04_consts_gs2_model_typed_keys :
    Gs2.parseBody = (do
      let vars ← Gs2.getServerVars
      let players ← Gs2.getPlayers
      let (numText, vars) := Gs2.take vars (Consts.gs2_typed_keys.getD 0 "")
      let reported ← Par.lift (Gs2.optParse numText 64)
      let (minText, vars) := Gs2.take vars (Consts.gs2_typed_keys.getD 1 "")
      let playersMinimum ← Par.lift (Gs2.optParse minText 32)
      let (name, vars) := Gs2.take vars (Consts.gs2_typed_keys.getD 2 "")
      let name ← Par.lift (okOr name .packetBad)
      let (map, vars) := Gs2.take vars (Consts.gs2_typed_keys.getD 3 "")
      let map ← Par.lift (okOr map .packetBad)
      let (pw, vars) := Gs2.take vars (Consts.gs2_typed_keys.getD 4 "")
      let pw ← Par.lift (okOr pw .packetBad)
      let teams ← Gs2.getTeams
      let (maxText, vars) := Gs2.take vars (Consts.gs2_typed_keys.getD 5 "")
      let maxText ← Par.lift (okOr maxText .packetBad)
      let playersMaximum ← Par.lift (okOr (parseUnsigned 32 maxText) .typeParse)
      pure { name, map, hasPassword := pw == asciiBytes Consts.gs2_password_true, teams, playersMaximum,
             playersOnline := Gs2.playersOnline reported players.length, playersMinimum, players, unusedEntries := vars })
    ∧ Consts.gs2_typed_keys.length = 6 := ⟨rfl, rfl⟩

/-! ### GameSpy 3 -/

/-- the `splitnum` tag, the "last packet" flag and the packet number mask of a data packet -/
theorem C04_consts_gs3_frag :
    Gs3.readFrag = (do
      let tag ← readCStr
      if tag != asciiBytes Consts.gs3_splitnum then Par.fail .packetBad
      else do
        let id ← readU8
        moveCursor 1
        let payload ← remainingBytes
        pure ⟨id &&& Consts.gs3_last_flag_and_id_mask.getD 1 0, id &&& Consts.gs3_last_flag_and_id_mask.getD 0 0 > 0, payload⟩)
    ∧ Consts.gs3_last_flag_and_id_mask.length = 2 := ⟨rfl, rfl⟩

/-- single-packet mode skips the 11 bytes of the split header; data packets are received as kind 0 -/
theorem C04_consts_gs3_single_skip :
    Gs3.readSingle = (do moveCursor (Consts.gs3_single_packet_skip : Nat); remainingBytes)
    ∧ Consts.gs3_data_receive_kind = 0 := ⟨rfl, rfl⟩

/-- `["player", "score", "ping", "team", "deaths", "pid", "skill"]` = `Gs3.knownFields` = SPEC `typedFields` (as a set) -/
theorem C04_consts_gs3_known_fields :
    Gs3.knownFields = keys Consts.gs3_known_fields
    ∧ sameSet Gs3.Spec.typedFields (keys Consts.gs3_known_fields) = true := by decide

/-- the team suffix `t`, and the bound below which a byte is a section marker -/
theorem C04_consts_gs3_team_suffix (pieces : List Bytes) (t : Gs3.Tables) :
    Gs3.fieldIsTeam pieces = (match pieces[1]? with
      | none => .ok false
      | some v => if v.isEmpty then .ok false else if v != asciiBytes Consts.gs3_team_suffix then .err .packetBad else .ok true)
    ∧ Gs3.sectionStep t = (do
      let first ← readU8
      if first < Consts.gs3_section_marker_bound then pure t
      else do
        moveCursor (-1)
        Gs3.readSection t) := ⟨rfl, rfl⟩

/-- the keys a player / a team is built from = `Gs3.mkPlayer` / `mkTeam` = SPEC `playerFields` / `teamFields` -/
theorem C04_consts_gs3_row_fields (m : Gs3.Vars) :
    Gs3.mkPlayer m = (do
      let name ← Gs3.fieldOf m (Consts.gs3_player_gets.getD 0 "")
      let score ← Gs3.fieldOf m (Consts.gs3_player_gets.getD 1 "") >>= Gs3.parseI 32
      let ping ← Gs3.fieldOf m (Consts.gs3_player_gets.getD 2 "") >>= Gs3.parseU 16
      let team ← Gs3.fieldOf m (Consts.gs3_player_gets.getD 3 "") >>= Gs3.parseU 8
      let deaths ← Gs3.fieldOf m (Consts.gs3_player_gets.getD 4 "") >>= Gs3.parseU 32
      let skill ← Gs3.fieldOf m (Consts.gs3_player_gets.getD 5 "") >>= Gs3.parseU 32
      pure ⟨name, score, ping, team, deaths, skill⟩)
    ∧ Gs3.mkTeam m = (do
      let name ← Gs3.fieldOf m (Consts.gs3_team_gets.getD 0 "")
      let score ← Gs3.fieldOf m (Consts.gs3_team_gets.getD 1 "") >>= Gs3.parseI 32
      pure ⟨name, score⟩)
    ∧ Gs3.Spec.playerFields = keys Consts.gs3_player_gets
    ∧ Gs3.Spec.teamFields = keys Consts.gs3_team_gets := ⟨rfl, rfl, by decide, by decide⟩

/-- SPEC: typed keys = the keys `query` removes (`password` through common.rs) -/
theorem C04_consts_gs3_spec_typed_keys :
    sameSet Gs3.Spec.typedKeys (keys Consts.gs3_typed_keys) = true := by decide

/-- MODEL: from a map with exactly the source's typed keys `buildFields` succeeds and leaves nothing -/
theorem C04_consts_gs3_model_typed_keys :
    resMap (fun r => r.unusedEntries)
        (Gs3.buildFields (Consts.gs3_typed_keys.map fun k => (asciiBytes k, C04_consts_probeValue k)) [] [])
      = .ok [] := by decide

/-- `common.rs`: the key `has_password` removes = the models' (GameSpy 1/2 copy and GameSpy 3 copy) -/
theorem C04_consts_password_key (m : Gs.Map Bytes) (vars : Gs3.Vars) :
    Gs.hasPassword m = (match Gs.mapGet m (asciiBytes Consts.gs_password_key) with
      | none => .err .packetBad
      | some v =>
        match Gs.passwordValue v with
        | .ok b => .ok (b, Gs.mapRemove m (asciiBytes Consts.gs_password_key))
        | .err k => .err k
        | .crash => .crash)
    ∧ Gs3.hasPassword vars = (match Gs3.mapTake vars (asciiBytes Consts.gs_password_key) with
      | (none, _) => .err .packetBad
      | (some v, vars') => do
        let b ← Gs3.passwordValue v
        pure (b, vars')) := ⟨rfl, rfl⟩

example : Consts.gs1_typed_keys.length = 12 := by decide
example : Consts.gs3_typed_keys.length = 9 := by decide
