import GdVerif.Lemmas.Unreal2Safe
import GdVerif.Spec.Unreal2
/-
  C09 (Unreal 2) — requests are the protocol's and go to the right port.  The format has no
  challenge; the three requests are `79 00 00 00 <kind>`.
-/
open Gd Gd.Unreal2

/-- The three requests are byte for byte the format's. -/
theorem C09_unreal2_request_bytes :
    requestBytes .serverInfo = Spec.request 0 ∧ requestBytes .mutatorsAndRules = Spec.request 1
    ∧ requestBytes .players = Spec.request 2
    ∧ Spec.request 0 = [0x79, 0, 0, 0, 0] ∧ Spec.request 1 = [0x79, 0, 0, 0, 1] ∧ Spec.request 2 = [0x79, 0, 0, 0, 2] := by
  decide

/-- Whatever the server does (any script, any send faults), everything the Unreal 2 query does to the
transport is: open one UDP socket to the port it was given; send one of the three requests to that
port from that socket; receive into the fixed 1024-byte buffer on that socket.  Nothing else. -/
theorem C09_unreal2_conforms (port : Nat) (g : Gather) (retries : Nat) (script : List ConnScript) (faults : List Bool) :
    ∀ e ∈ (query port g retries (Net.init script faults)).2.log,
      match e with
      | .opened c tcp p _ => c = 0 ∧ tcp = false ∧ p = port
      | .send c p data _ => c = 0 ∧ p = port ∧ ∃ kind : PacketKind, data = requestBytes kind
      | .recv c size _ => c = 0 ∧ size = some 1024 := by
  obtain ⟨_, added, hlog, hall⟩ := query_safe port g retries (Net.init script faults)
  intro e he
  rw [hlog] at he
  simp only [Net.init, List.nil_append] at he
  have := hall e he
  simp only [Net.init, List.length_nil] at this
  cases e with
  | opened c tcp p r => exact this
  | send c p d f => exact this
  | recv c s gt => exact this

/-- One attempt of a request: exactly the request's five bytes go out, then one datagram is awaited. -/
theorem C09_unreal2_attempt (s : Sock) (kind : PacketKind) :
    requestImpl s kind = (send s [0x79, 0, 0, 0, UInt8.ofNat kind.code] >>= fun _ => recv s (some 1024)) := rfl

/-- the log of a whole query satisfies `P` when opening the socket does and the body does -/
theorem query_log_all (P : Ev → Prop) (port : Nat) (g : Gather) (r : Nat)
    (hbody : ∀ s : Sock, s.tcp = false → QSafe s P (queryBody s g r)) (hopen : ∀ c tcp p rf, P (.opened c tcp p rf)) (w : Net) :
    ∃ added, (query port g r w).2.log = w.log ++ added ∧ ∀ e ∈ added, P e := by
  rw [query_eq, Q.bind_apply]
  have fin : ∀ (w0 : Net) (ev : Ev), w0.log = w.log ++ [ev] → P ev → IsOpen ⟨w.conns.length, port, false⟩ w0 →
      ∃ added, (queryBody ⟨w.conns.length, port, false⟩ g r w0).2.log = w.log ++ added ∧ ∀ e ∈ added, P e := by
    intro w0 ev hlog0 hev hop
    obtain ⟨_, h2⟩ := hbody ⟨w.conns.length, port, false⟩ rfl w0 hop
    obtain ⟨added, hlog, hall⟩ := h2.log
    refine ⟨ev :: added, by rw [hlog, hlog0]; simp, ?_⟩
    intro e he
    rcases List.mem_cons.mp he with rfl | he'
    · exact hev
    · exact hall e he'
  cases hp : w.pending with
  | nil =>
    simp only [openSock, hp]
    exact fin _ _ rfl (hopen _ _ _ _) (by simp [IsOpen])
  | cons c rest =>
    cases c with
    | opened ds =>
      simp only [openSock, hp]
      exact fin _ _ rfl (hopen _ _ _ _) (by simp [IsOpen])
    | refused =>
      simp only [openSock, hp]
      refine ⟨[_], rfl, ?_⟩
      intro e he
      rcases List.mem_singleton.mp he with rfl
      exact hopen _ _ _ _

/-- A skipped section sends nothing: with both toggles on Skip the only request on the wire is the
server-info request (re-sent only after timeouts). -/
theorem C09_unreal2_skip_sends_info_only (port : Nat) (retries : Nat) (script : List ConnScript) (faults : List Bool) :
    ∀ e ∈ (query port ⟨.skip, .skip⟩ retries (Net.init script faults)).2.log,
      ∀ c p data f, e = .send c p data f → data = requestBytes .serverInfo := by
  let P : Ev → Prop := fun e => ∀ c p data f, e = Ev.send c p data f → data = requestBytes .serverInfo
  have hinfo : ∀ s : Sock, QSafe s P (queryBody s ⟨.skip, .skip⟩ retries) := by
    intro s
    unfold queryBody queryServerInfo requestData requestImpl
    refine QSafe.bind (QSafe.bind (QSafe.retry (QSafe.bind (QSafe.send s _ _ ?_) fun _ => QSafe.recv s _ _ ?_) _) fun _ =>
      QSafe.parse _ _ (Safe.bind (safe_consumeHeaders _) fun _ => safe_parseServerInfo) _) fun _ =>
      QSafe.bind (QSafe.pure _ _ _) fun _ => QSafe.bind (QSafe.pure _ _ _) fun _ => QSafe.pure _ _ _
    · intro failed c p data f h; cases h; rfl
    · intro got c p data f h; cases h
  obtain ⟨added, hlog, hall⟩ := query_log_all P port ⟨.skip, .skip⟩ retries (fun s _ => hinfo s)
    (fun _ _ _ _ c p data f h => by cases h) (Net.init script faults)
  intro e he
  rw [hlog] at he
  simp only [Net.init, List.nil_append] at he
  exact hall e he

example : Allowed (requestBytes .players) := ⟨.players, rfl⟩
