import GdVerif.Gen.Views
import GdVerif.Spec.Views
/-
  C15 — The protocol-independent view equals the protocol-specific data.

  `Gen.implViews` is regenerated from every `impl CommonResponse for T` / `impl CommonPlayer for T`
  on every run; these theorems are re-checked against what the source says now.
-/
open Gd Gd.Views

/-- Every accessor of every response and player type is, syntactically, the intended one: it reads
exactly the corresponding protocol-specific field (or is `None` where the type has no such field). -/
theorem C15_views_are_the_intended_ones :
    Gd.Gen.implViews.map (fun v => (v.file, v.trait, v.type, v.table)) = Spec.intended := by
  decide

/-- For every type, `as_original` hands back the response itself (`Generic…::Variant(self)`), the
default `as_json` is not overridden, and the impl contains nothing but accessors. -/
theorem C15_original_and_json_untouched :
    ∀ v ∈ Gd.Gen.implViews, v.originalWrapsSelf = true ∧ v.asJsonOverridden = false ∧ v.extra = [] := by
  decide

/-- No accessor body is outside what the translator understands. -/
theorem C15_no_unparsed_accessor :
    ∀ v ∈ Gd.Gen.implViews, ∀ p ∈ v.table, (match p.2 with | .unparsed _ => false | _ => true) = true := by
  decide

/-- For every response value of every type: an accessor that is `Some(self.path)` / `self.path`
returns exactly the value stored at that path of the protocol-specific data. -/
theorem C15_accessor_reads_the_field (p : String) (r : Val) :
    eval (.someField p) r = r.path p ∧ eval (.field p) r = r.path p ∧ eval (.optField p) r = r.path p
    ∧ eval (.playersAll p) r = r.path p ∧ eval (.playersOpt p) r = r.path p ∧ eval .default r = .null :=
  ⟨rfl, rfl, rfl, rfl, rfl, rfl⟩

/-- The JSON form contains exactly the accessor values, for every response value and every pair of
accessor tables (response type, its player type): each scalar member is the accessor's value and the
players member is the list of the players' own JSON forms, in order. -/
theorem C15_json_is_the_view (rt pt : List (String × ViewExpr)) (r : Val) :
    (responseJson rt pt r).get "name" = eval (accessor rt "name") r
    ∧ (responseJson rt pt r).get "description" = eval (accessor rt "description") r
    ∧ (responseJson rt pt r).get "game_mode" = eval (accessor rt "game_mode") r
    ∧ (responseJson rt pt r).get "game_version" = eval (accessor rt "game_version") r
    ∧ (responseJson rt pt r).get "map" = eval (accessor rt "map") r
    ∧ (responseJson rt pt r).get "players_maximum" = eval (accessor rt "players_maximum") r
    ∧ (responseJson rt pt r).get "players_online" = eval (accessor rt "players_online") r
    ∧ (responseJson rt pt r).get "players_bots" = eval (accessor rt "players_bots") r
    ∧ (responseJson rt pt r).get "has_password" = eval (accessor rt "has_password") r
    ∧ (∀ ps, eval (accessor rt "players") r = .arr ps →
        (responseJson rt pt r).get "players" = .arr (ps.map (playerJson pt))) := by
  refine ⟨?_, ?_, ?_, ?_, ?_, ?_, ?_, ?_, ?_, ?_⟩
  all_goals first
    | (simp [responseJson, Val.get, List.lookup]; done)
    | (intro ps hps; simp [responseJson, Val.get, List.lookup, hps])
