import GdVerif.Lemmas.Gs3Extra
/-
  C09 (GameSpy 3) — requests are the protocol's, go to the right port, and echo the challenge.

  SPEC: `GdVerif/Spec/Gs3.lean` (`handshakeRequest`, `dataRequest`, `handshakeReply`), the reference
  reading being node-gamedig `gamespy3.js`: the server sends its challenge as decimal text; the data
  request carries it as a big-endian i32, and the text `0` means "no challenge": no challenge bytes.
-/
open Gd Gd.Gs3

/-- The two requests are byte for byte the specification's, for every challenge value in i32. -/
theorem C09_gs3_request_bytes (c : Int) :
    requestBytes 9 none none = Spec.handshakeRequest
    ∧ requestBytes 0 (if c = 0 then none else some c) (some DEFAULT_PAYLOAD) = Spec.dataRequest c := by
  constructor
  · decide
  · unfold requestBytes Spec.dataRequest
    by_cases hc : c = 0
    · subst hc; decide
    · simp only [hc, ↓reduceIte]
      have h1 : natBE 2 65277 ++ [UInt8.ofNat 0] ++ natBE 4 SESSION_ID = [0xFE, 0xFD, 0x00] ++ Spec.sessionId := by decide
      rw [h1]
      rfl

/-- Whatever the server does (any script, any send faults), every datagram `query` emits goes out of
the one UDP socket it opened, to the port it was given, and is the handshake request or the data
request with the default payload (with or without a challenge); receives use the 16-byte and the
2048-byte buffer; nothing else is done to the transport. -/
theorem C09_gs3_conforms (port retries : Nat) (script : List ConnScript) (faults : List Bool) :
    ∀ e ∈ (query port retries (Net.init script faults)).2.log,
      match e with
      | .opened c tcp p _ => c = 0 ∧ tcp = false ∧ p = port
      | .send c p data _ => c = 0 ∧ p = port ∧
          (data = Spec.handshakeRequest ∨ ∃ ch : Option Int, data = requestBytes 0 ch (some DEFAULT_PAYLOAD))
      | .recv c size _ => c = 0 ∧ (size = some 16 ∨ size = some 2048) := by
  obtain ⟨_, added, hlog, hall⟩ := query_safe port retries (Net.init script faults)
  intro e he
  rw [hlog] at he
  simp only [Net.init, List.nil_append] at he
  have := hall e he
  simp only [Net.init, List.length_nil] at this
  cases e with
  | opened c tcp p r => exact this
  | send c p d f =>
    obtain ⟨h1, h2, h3⟩ := this
    refine ⟨h1, h2, ?_⟩
    rcases h3 with h3 | h3
    · exact Or.inl (h3.trans (C09_gs3_request_bytes 0).1)
    · exact Or.inr h3
  | recv c s gt => exact this

/-- The same for `query_vars`. -/
theorem C09_gs3_vars_conforms (port retries : Nat) (script : List ConnScript) (faults : List Bool) :
    ∀ e ∈ (queryVars port retries (Net.init script faults)).2.log,
      match e with
      | .opened c tcp p _ => c = 0 ∧ tcp = false ∧ p = port
      | .send c p data _ => c = 0 ∧ p = port ∧
          (data = Spec.handshakeRequest ∨ ∃ ch : Option Int, data = requestBytes 0 ch (some DEFAULT_PAYLOAD))
      | .recv c size _ => c = 0 ∧ (size = some 16 ∨ size = some 2048) := by
  obtain ⟨_, added, hlog, hall⟩ := queryVars_safe port retries (Net.init script faults)
  intro e he
  rw [hlog] at he
  simp only [Net.init, List.nil_append] at he
  have := hall e he
  simp only [Net.init, List.length_nil] at this
  cases e with
  | opened c tcp p r => exact this
  | send c p d f =>
    obtain ⟨h1, h2, h3⟩ := this
    refine ⟨h1, h2, ?_⟩
    rcases h3 with h3 | h3
    · exact Or.inl (h3.trans (C09_gs3_request_bytes 0).1)
    · exact Or.inr h3
  | recv c s gt => exact this

/-- The challenge is understood, for EVERY i32 value `c`: the server's handshake reply carrying the
decimal text of `c`, as it lands in the client's 16-byte buffer (for `-2147483648` the final NUL
does not fit), is decoded to `c` — and to "no challenge" for `0`. -/
theorem C09_gs3_challenge_decoded (c : Int) (hlo : -(2 ^ 31 : Int) ≤ c) (hhi : c < 2 ^ 31) :
    ((readHeader 9).run ((Spec.handshakeReply c).take 16) >>= fun d => parseChallenge.run d)
      = .ok (if c = 0 then none else some c) :=
  handshake_decoded c hlo hhi

/-- Challenge echo, for EVERY i32 value `c` (no enumeration): in an attempt where the server answers
the handshake with the decimal text of `c` (and no send fails), whatever else the server sends
afterwards, the client sends exactly two datagrams: the handshake request, then the data request
`FE FD 00 <session id> <c as big-endian i32> FF FF FF 01` — without the four challenge bytes when
`c = 0` — and nothing else. -/
theorem C09_gs3_echo (c : Int) (hlo : -(2 ^ 31 : Int) ≤ c) (hhi : c < 2 ^ 31)
    (s : Sock) (hudp : s.tcp = false) (w : Net) (later : List Bytes)
    (hq : w.conns.getD s.id [] = .data (Spec.handshakeReply c) :: later.map .data) (hf : w.faults = []) :
    sentOf (getServerPacketsImpl s DEFAULT_PAYLOAD false w).2.log
      = sentOf w.log ++ [Spec.handshakeRequest, Spec.dataRequest c] := by
  rw [(impl_after_handshake s hudp DEFAULT_PAYLOAD w c hlo hhi later hq hf).2,
    (C09_gs3_request_bytes c).1, (C09_gs3_request_bytes c).2]

/-- the encoding of the echoed challenge is the two's-complement big-endian i32: decoding the four
bytes gives `c` back, for every i32 `c` -/
theorem C09_gs3_challenge_bytes (c : Int) (hlo : -(2 ^ 31 : Int) ≤ c) (hhi : c < 2 ^ 31) :
    (readSigned .big 4).run (natBE 4 (ofSigned 32 c)) = .ok c :=
  (decodes_signed .big 4 (by omega) c (by simpa using hlo) (by simpa using hhi)).run

/-- Nothing else is sent: in the whole exchange with the SPEC's server for a well-formed state
(whatever the arrival order of the data packets), the datagrams `query` and `query_vars` send are
exactly the SPEC's request list — the handshake request and one data request carrying the challenge. -/
theorem C09_gs3_nothing_else (cfg : Spec.Config) (st : Spec.State) (h : Spec.wf cfg st = true) (port retries : Nat)
    (arrival : List Bytes) (harr : arrival.Perm (Spec.dataPackets cfg st)) :
    sentOf (query port retries (Net.init [.opened ((Spec.handshakeReply cfg.challenge :: arrival).map .data)] [])).2.log
      = Spec.requests cfg
    ∧ sentOf (queryVars port retries (Net.init [.opened ((Spec.handshakeReply cfg.challenge :: arrival).map .data)] [])).2.log
      = Spec.requests cfg := by
  rw [query_eq, queryVars_eq]
  exact ⟨(exchange_spec cfg st h port retries buildResponse arrival harr).2,
    (exchange_spec cfg st h port retries buildVars arrival harr).2⟩

/-- The same when the server also sends field sections the client has no place for (`Spec.ConfigX`,
any allowed extra sections at any positions): the two requests and nothing else. -/
theorem C09_gs3_nothing_else_extra (cfg : Spec.ConfigX) (st : Spec.State) (h : Spec.wfX cfg st = true) (port retries : Nat)
    (arrival : List Bytes) (harr : arrival.Perm (Spec.dataPacketsX cfg st)) :
    sentOf (query port retries (Net.init [.opened ((Spec.handshakeReply cfg.challenge :: arrival).map .data)] [])).2.log
      = Spec.requestsX cfg
    ∧ sentOf (queryVars port retries (Net.init [.opened ((Spec.handshakeReply cfg.challenge :: arrival).map .data)] [])).2.log
      = Spec.requestsX cfg := by
  rw [query_eq, queryVars_eq]
  exact ⟨(exchangeX_spec cfg st h port retries buildResponse arrival harr).2,
    (exchangeX_spec cfg st h port retries buildVars arrival harr).2⟩

-- non-vacuity: a negative challenge, and the one that does not fit the buffer with its NUL
example : Spec.dataRequest (-2) = [0xFE, 0xFD, 0, 0, 0, 0, 1, 0xFF, 0xFF, 0xFF, 0xFE, 0xFF, 0xFF, 0xFF, 0x01] := by decide
example : Spec.dataRequest 0 = [0xFE, 0xFD, 0, 0, 0, 0, 1, 0xFF, 0xFF, 0xFF, 0x01] := by decide
