import GdVerif.Lemmas.McCost
import GdVerif.Lemmas.McBlock
/-
  C13 (requests sent) — Minecraft: Java, Bedrock, the three legacy variants, `query_legacy`, and the
  auto-detecting `query`.  No reply earns a further request, so every bound is absolute (and a
  fortiori holds with `+ datagrams received`, the form `props/c13.py` checks).  `units`:
  Java 3 (handshake, status request, ping are three writes of one attempt), Bedrock 1, a legacy
  variant 1, `query_legacy` 3 = 1 + 1 + 1 (three connections), auto-detect 7 = 3 + 1 + 3 (five sockets).
-/
open Gd Gd.Mc

/-- Java: at most three packets per attempt, for every script, fault vector, settings, JSON crate. -/
theorem C13_minecraft_java_send_bound (ext : Ext) (port : Nat) (st : RequestSettings) (retries : Nat)
    (script : List ConnScript) (faults : List Bool) :
    nSends (queryJava ext port st retries (Net.init script faults)).2.log ≤ 3 * (retries + 1) :=
  (sends_queryJava ext port st retries).total script faults

/-- Bedrock: one ping per attempt. -/
theorem C13_minecraft_bedrock_send_bound (port retries : Nat) (script : List ConnScript) (faults : List Bool) :
    nSends (queryBedrock port retries (Net.init script faults)).2.log ≤ retries + 1 :=
  (sends_queryBedrock port retries).total script faults

/-- A legacy variant (1.6, 1.4, beta 1.8): one ping per attempt. -/
theorem C13_minecraft_legacy_specific_send_bound (g : LegacyGroup) (port retries : Nat) (script : List ConnScript)
    (faults : List Bool) :
    nSends (queryLegacySpecific g port retries (Net.init script faults)).2.log ≤ retries + 1 :=
  (sends_queryLegacySpecific g port retries).total script faults

/-- `query_legacy`: the three variants one after the other. -/
theorem C13_minecraft_legacy_send_bound (port retries : Nat) (script : List ConnScript) (faults : List Bool) :
    nSends (queryLegacy port retries (Net.init script faults)).2.log ≤ 3 * (retries + 1) :=
  (sends_queryLegacy port retries).total script faults

/-- Auto-detect: Java, Bedrock, then the three legacy variants: 3 + 1 + 3 packets per retry round. -/
theorem C13_minecraft_auto_send_bound (ext : Ext) (port : Nat) (st : RequestSettings) (retries : Nat)
    (script : List ConnScript) (faults : List Bool) :
    nSends (queryAuto ext port st retries (Net.init script faults)).2.log ≤ 7 * (retries + 1) :=
  (sends_queryAuto ext port st retries).total script faults

/-- The forms the trace oracle checks: `send_units` = 3 (mcjava), 1 (mcbedrock), 3 (mclegacy: a single
variant or `any`), 7 (mcauto). -/
theorem C13_minecraft_send_bound_units (ext : Ext) (port : Nat) (st : RequestSettings) (g : LegacyGroup) (retries : Nat)
    (script : List ConnScript) (faults : List Bool) :
    nSends (queryJava ext port st retries (Net.init script faults)).2.log
        ≤ 3 * (retries + 1) + nRecvOk (queryJava ext port st retries (Net.init script faults)).2.log
    ∧ nSends (queryBedrock port retries (Net.init script faults)).2.log
        ≤ 1 * (retries + 1) + nRecvOk (queryBedrock port retries (Net.init script faults)).2.log
    ∧ nSends (queryLegacySpecific g port retries (Net.init script faults)).2.log
        ≤ 3 * (retries + 1) + nRecvOk (queryLegacySpecific g port retries (Net.init script faults)).2.log
    ∧ nSends (queryLegacy port retries (Net.init script faults)).2.log
        ≤ 3 * (retries + 1) + nRecvOk (queryLegacy port retries (Net.init script faults)).2.log
    ∧ nSends (queryAuto ext port st retries (Net.init script faults)).2.log
        ≤ 7 * (retries + 1) + nRecvOk (queryAuto ext port st retries (Net.init script faults)).2.log := by
  have h1 := C13_minecraft_java_send_bound ext port st retries script faults
  have h2 := C13_minecraft_bedrock_send_bound port retries script faults
  have h3 := C13_minecraft_legacy_specific_send_bound g port retries script faults
  have h4 := C13_minecraft_legacy_send_bound port retries script faults
  have h5 := C13_minecraft_auto_send_bound ext port st retries script faults
  refine ⟨?_, ?_, ?_, ?_, ?_⟩ <;> omega

/-- The auto-detect bound (hence each of its parts) is attained for every retry setting: five peers
that accept and never answer get exactly `7 · (retries + 1)` packets. -/
theorem C13_minecraft_auto_send_bound_attained (ext : Ext) (port : Nat) (st : RequestSettings) (retries : Nat)
    (hh : st.hostname.length < 2 ^ 31) :
    nSends (queryAuto ext port st retries
      (Net.init (List.replicate 5 (.opened (List.replicate (retries + 1) .silence))) [])).2.log = 7 * (retries + 1) := by
  have hs : SilentFor true (retries + 1) (List.replicate (retries + 1) .silence) := by
    simpa using SilentFor.replicate true (retries + 1) []
  have hu : SilentFor false (retries + 1) (List.replicate (retries + 1) .silence) := by
    simpa using SilentFor.replicate false (retries + 1) []
  have hall : AllSilent (retries + 1) [true, false, true, true, true]
      (List.replicate 5 (.opened (List.replicate (retries + 1) .silence))) := ⟨hs, hu, hs, hs, hs, True.intro⟩
  exact (silent_queryAuto ext port st retries hh (Net.init _ []) rfl hall).counts.2.1

/-- Java alone: `3 · (retries + 1)`. -/
theorem C13_minecraft_java_send_bound_attained (ext : Ext) (port : Nat) (st : RequestSettings) (retries : Nat)
    (hh : st.hostname.length < 2 ^ 31) :
    nSends (queryJava ext port st retries (Net.init [.opened (List.replicate (retries + 1) .silence)] [])).2.log
      = 3 * (retries + 1) := by
  have hs : SilentFor true (retries + 1) (List.replicate (retries + 1) .silence) := by
    simpa using SilentFor.replicate true (retries + 1) []
  have hp : PendingSilent true (retries + 1) [.opened (List.replicate (retries + 1) .silence)] := hs
  exact (silent_queryJava ext port st retries hh (Net.init _ []) rfl hp).counts.2.1

example : (RequestSettings.default).hostname.length < 2 ^ 31 := by decide

example : nSends (queryAuto ⟨fun _ => none, fun _ => []⟩ 25565 RequestSettings.default 1
    (Net.init (List.replicate 5 (.opened [.silence, .silence])) [])).2.log = 14 := by decide +kernel
