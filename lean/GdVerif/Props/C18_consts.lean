import GdVerif.Gen.Consts
import GdVerif.Lemmas.Consts
import GdVerif.Proto.Settings
/-
  C18 — the default timeouts and retries of the SOURCE are the MODEL's (tie by TRANSLATION).
  `Gd.Gen.Consts.timeout_defaults` = `TimeoutSettings::const_default()`, `timeout_clap_defaults` = the clap
  `default_value` of each flag; both regenerated from protocols/types.rs on every run.
-/
open Gd Gd.Gen Gd.ConstsAux

/-- `const_default()`: 4 s to connect, read and write, no retries = `Settings.default` -/
theorem C18_consts_timeout_defaults :
    Settings.default = ⟨some ⟨num Consts.timeout_defaults "connect", 0⟩, some ⟨num Consts.timeout_defaults "read", 0⟩,
                        some ⟨num Consts.timeout_defaults "write", 0⟩, num Consts.timeout_defaults "retries"⟩
    ∧ Consts.timeout_defaults.map (·.1) = ["read", "write", "connect", "retries"] := by decide

/-- none of the defaults is the rejected zero duration -/
theorem C18_consts_timeout_defaults_valid :
    ∀ k ∈ ["connect", "read", "write"], num Consts.timeout_defaults k ≠ 0 := by decide

/-- the clap flags: `default_value = "4"` for the three durations, `"0"` for the retries = `Settings.fromClap` -/
theorem C18_consts_timeout_clap_defaults (connect read write retries : Option Bytes) :
    Settings.fromClap connect read write retries = (do
      let c ← Settings.parseDurationSecs (connect.getD (asciiBytes ((Consts.timeout_clap_defaults.lookup "connect").getD "")))
      let r ← Settings.parseDurationSecs (read.getD (asciiBytes ((Consts.timeout_clap_defaults.lookup "read").getD "")))
      let w ← Settings.parseDurationSecs (write.getD (asciiBytes ((Consts.timeout_clap_defaults.lookup "write").getD "")))
      let n ← okOr (parseUnsigned 64 (retries.getD (asciiBytes ((Consts.timeout_clap_defaults.lookup "retries").getD "")))) .invalidInput
      pure ⟨some c, some r, some w, n⟩) := by
  have h : (Consts.timeout_clap_defaults.lookup "connect").getD "" = "4"
      ∧ (Consts.timeout_clap_defaults.lookup "read").getD "" = "4"
      ∧ (Consts.timeout_clap_defaults.lookup "write").getD "" = "4"
      ∧ (Consts.timeout_clap_defaults.lookup "retries").getD "" = "0" := by decide
  rw [h.1, h.2.1, h.2.2.1, h.2.2.2]
  rfl

/-- flags left out give the same settings as `default()` -/
theorem C18_consts_clap_defaults_are_default :
    Settings.fromClap none none none none = .ok Settings.default := by decide

example : num Consts.timeout_defaults "read" = 4 := by decide
