import GdVerif.Lemmas.Ffow
/-
  C10 — retries: Frontlines: Fuel of War.  The retried unit is the `LSQ` request with its challenge rounds, on the
  one socket; the combinator theorems of `Props/C10.lean` are generic in the unit and apply to it verbatim.
-/
open Gd

/-- the request goes through `retry_on_timeout` with the configured retry count -/
theorem C10_ffow_unit (ext : Valve.Ext) (s : Sock) (retries : Nat) :
    Ffow.queryBody ext s retries
      = (retryOnTimeout retries (Valve.requestImpl ext s (.goldSrc true) 0 Ffow.KIND Ffow.lsq) >>= fun data =>
          parse Ffow.parseResponse data) := rfl

-- non-vacuity: one silent attempt, then an answer, r = 1: two `LSQ` requests on the wire
example :
    let st : Ffow.Spec.State := ⟨2, [70], [109], [], [99], [100], [49], 5476, 3, 32, .dedicated, .linux, false, true, 60, 1, 5, 65535⟩
    let r := Ffow.query ⟨fun _ => none, fun _ => 0⟩ 5478 1 (Net.init [.opened [.silence, .data (Ffow.Spec.replyPacket false st)]] [])
    r.1 = .ok (Ffow.Spec.expected st) ∧ countSends r.2.log = 2 := by
  decide

