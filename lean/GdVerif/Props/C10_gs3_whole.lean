import GdVerif.Lemmas.Gs3Faults
import GdVerif.Lemmas.Gs3CutFaults
import GdVerif.Props.C04_gs3
/-
  C10 on WHOLE GameSpy 3 queries with faults injected.

  `Props/C10.lean` proves C10 for the combinator, `Props/C10_gs3.lean` names the retried unit: the WHOLE exchange
  (handshake request → challenge reply → data request → all data packets).  Here the property is proved end to end for
  `Gs3.query` (and `query_vars`) against the SPEC's server (`Spec/Gs3.lean`), on the scripts of
  `props/families/gs3.py: c10_build`: a plan (`Spec/Gs3Faults.lean`) lists the attempts that end in a timeout-class
  failure — at the HANDSHAKE stage (the challenge reply is lost / the handshake request cannot be sent) or at the DATA
  stage (the server answers the handshake, then the data packets are lost / the data request cannot be sent; the reply
  may also STOP HALF WAY: some of the data packets — any selection of them, each at most once, in any order, at least one
  missing, `Attempt.got` / `Faults.partOf` — still arrive before the silence) — and how the unit ends: the valid exchange
  (data packets in ANY order of arrival), nothing, or a malformed datagram at either stage (at the data stage possibly
  after some of the data packets).  `faultyScript` / `faultyFaults` are the two arguments of `Net.init`; what follows them (`restQ`, `restF`) is
  arbitrary.  Quantified: state and wire layout in the SPEC's domain — the domain of the DECODING theorems
  (`C04_gs3_query_extra`): `ConfigX` / `wfX`, i.e. any challenge, 1–128 packets, any arrival order, and any allowed extra
  field sections (`kills_`, `time_on_`, `honor_t` …) at any positions of any packet —, port, retry count, the plan.
  Replies without extra sections (`Config` / `wf`, the earlier statement) are the case `cfg.toX`:
  `C10_gs3_faults_conservative`, `C10_gs3_query_faulty_no_extra`.
-/
open Gd Gd.Gs3 Gd.Gs3.Spec Gd.Faults

/-- THE GENERAL STATEMENT.  For every plan in C10's domain for the retry count (`wfPlan`: a unit that is answered —
validly, or by a datagram that does not start with the kind byte of its stage — had at most `retries` timeout-class
failures before, a unit that is given up exactly `retries + 1`; what a failed attempt, or the attempt that meets the
malformed datagram, still receives of the reply at the data stage is nothing or an incomplete selection of its data
packets): the query returns the outcome the property prescribes
(`faultyExpected`: the fault-free response / the last failure's error / the malformed datagram's error), and the
datagrams it sent are exactly the plan's (`faultySends`: every attempt starts with the handshake request; a failed
attempt at the data stage also sends the data request). -/
theorem C10_gs3_query_faulty (cfg : ConfigX) (st : State) (h : wfX cfg st = true) (port retries : Nat)
    (arrival : List Bytes) (harr : arrival.Perm (dataPacketsX cfg st)) (plan : Plan)
    (hplan : wfPlan retries (dataPacketsX cfg st) plan = true) (restQ : List Delivery) (restF : List Bool) :
    (Gs3.query port retries
        (Net.init [.opened (faultyScriptX cfg plan arrival ++ restQ)] (faultyFaults plan ++ restF))).1
      = faultyExpected st plan
    ∧ Gd.sentOf (Gs3.query port retries
        (Net.init [.opened (faultyScriptX cfg plan arrival ++ restQ)] (faultyFaults plan ++ restF))).2.log
      = faultySendsX cfg plan := by
  rw [query_eq, ← faultyExpected_eqX cfg st h plan]
  exact exchange_faultyX cfg st h port retries buildResponse arrival harr plan hplan restQ restF

/-- the same for `query_vars`: the variables sent, under the same faults -/
theorem C10_gs3_query_vars_faulty (cfg : ConfigX) (st : State) (h : wfX cfg st = true) (port retries : Nat)
    (arrival : List Bytes) (harr : arrival.Perm (dataPacketsX cfg st)) (plan : Plan)
    (hplan : wfPlan retries (dataPacketsX cfg st) plan = true) (restQ : List Delivery) (restF : List Bool) :
    (Gs3.queryVars port retries
        (Net.init [.opened (faultyScriptX cfg plan arrival ++ restQ)] (faultyFaults plan ++ restF))).1
      = (faultyPacketsX cfg st plan >>= buildVars)
    ∧ Gd.sentOf (Gs3.queryVars port retries
        (Net.init [.opened (faultyScriptX cfg plan arrival ++ restQ)] (faultyFaults plan ++ restF))).2.log
      = faultySendsX cfg plan := by
  rw [queryVars_eq]
  exact exchange_faultyX cfg st h port retries buildVars arrival harr plan hplan restQ restF

/-- (a) RECOVERY.  `fails` (any number ≤ `retries`; each at the handshake or at the data stage, a silence or a failed
send, the silence at the data stage possibly after some — not all — of the data packets: `Attempt.wf`) precede the valid
exchange; nothing an abandoned attempt received shows in the result: the query returns exactly `Spec.expected st` — by `C04_gs3_query_extra` the result with no
faults —, and `fails.length + 1` attempts (handshake requests) were made. -/
theorem C10_gs3_query_recovers (cfg : ConfigX) (st : State) (h : wfX cfg st = true) (port retries : Nat)
    (arrival : List Bytes) (harr : arrival.Perm (dataPacketsX cfg st)) (fails : List Attempt)
    (hk : fails.length ≤ retries) (hw : ∀ a ∈ fails, a.wf (dataPacketsX cfg st) = true) (restQ : List Delivery)
    (restF : List Bool) :
    let plan : Plan := ⟨fails, .valid⟩
    let out := Gs3.query port retries
        (Net.init [.opened (faultyScriptX cfg plan arrival ++ restQ)] (faultyFaults plan ++ restF))
    out.1 = .ok (expected st)
    ∧ Gd.sentOf out.2.log = fails.flatMap (Attempt.sendsX cfg) ++ [(handshakeRequest, false), (dataRequest cfg.challenge, false)]
    ∧ attemptsOf (Gd.sentOf out.2.log) = fails.length + 1 := by
  intro plan out
  obtain ⟨h1, h2⟩ := C10_gs3_query_faulty cfg st h port retries arrival harr plan
    (by simp only [plan, wfPlan, Bool.and_eq_true, List.all_eq_true, decide_eq_true_eq]; exact ⟨hw, hk⟩) restQ restF
  refine ⟨h1, h2, ?_⟩
  show attemptsOf (Gd.sentOf out.2.log) = _
  rw [show Gd.sentOf out.2.log = _ from h2, attemptsOf_planX]
  rfl

/-- (b) EXHAUSTION.  All `retries + 1` attempts end in a timeout-class failure (at either stage): the query fails with
the last attempt's error — `PacketReceive`, or `PacketSend` when that attempt ended on a failed send
(`C10_gs3_last_error`) — after exactly `retries + 1` attempts, whatever the script still holds. -/
theorem C10_gs3_query_exhausted (cfg : ConfigX) (st : State) (h : wfX cfg st = true) (port retries : Nat)
    (arrival : List Bytes) (harr : arrival.Perm (dataPacketsX cfg st)) (fails : List Attempt)
    (hk : fails.length = retries + 1) (hw : ∀ a ∈ fails, a.wf (dataPacketsX cfg st) = true) (restQ : List Delivery)
    (restF : List Bool) :
    let plan : Plan := ⟨fails, .gaveUp⟩
    let out := Gs3.query port retries
        (Net.init [.opened (faultyScriptX cfg plan arrival ++ restQ)] (faultyFaults plan ++ restF))
    out.1 = .err (lastError Attempt.error fails)
    ∧ (out.1 = .err .packetReceive ∨ out.1 = .err .packetSend)
    ∧ Gd.sentOf out.2.log = fails.flatMap (Attempt.sendsX cfg)
    ∧ attemptsOf (Gd.sentOf out.2.log) = retries + 1 := by
  intro plan out
  obtain ⟨h1, h2⟩ := C10_gs3_query_faulty cfg st h port retries arrival harr plan
    (by simp only [plan, wfPlan, Bool.and_eq_true, List.all_eq_true, beq_iff_eq]; exact ⟨hw, hk⟩) restQ restF
  have h1' : out.1 = .err (lastError Attempt.error fails) := h1
  refine ⟨h1', ?_, by
    rw [show Gd.sentOf out.2.log = _ from h2]
    simp [plan, faultySendsX, sendsWith, Ending.sendsWith]
    rfl, ?_⟩
  · rw [h1']
    rcases lastError_class fails with e | e <;> rw [e] <;> simp
  · show attemptsOf (Gd.sentOf out.2.log) = _
    rw [show Gd.sentOf out.2.log = _ from h2, attemptsOf_planX]
    simp [plan, Plan.attempts, hk]

theorem C10_gs3_last_error (fails : List Attempt) (a : Attempt) :
    lastError Attempt.error (fails ++ [a]) = (if a.sendFault then .packetSend else .packetReceive) :=
  lastError_append fails a

/-- (c) A MALFORMED REPLY IS NOT RETRIED.  After any number ≤ `retries` of timed-out attempts, an attempt receives — as
the handshake reply, or after a valid handshake as the first data packet or after any incomplete selection `got` of the
data packets — a datagram that does not start with the kind byte of that stage (`09` / `00`), or is empty: ANY such
datagram.  Whatever `retries` is, the query fails at once with
`PacketBad` / `PacketUnderflow` (not a timeout-class error), and no further attempt is made: `fails.length + 1` in all. -/
theorem C10_gs3_query_malformed_not_retried (cfg : ConfigX) (st : State) (h : wfX cfg st = true) (port retries : Nat)
    (arrival : List Bytes) (harr : arrival.Perm (dataPacketsX cfg st)) (fails : List Attempt)
    (hk : fails.length ≤ retries) (hw : ∀ a ∈ fails, a.wf (dataPacketsX cfg st) = true) (stage : Stage)
    (got : List Bytes) (hgot : gotAt (dataPacketsX cfg st) stage false got = true) (m : Bytes)
    (hm : malformedAt stage m = true) (restQ : List Delivery) (restF : List Bool) :
    let plan : Plan := ⟨fails, .malformed stage got m⟩
    let out := Gs3.query port retries
        (Net.init [.opened (faultyScriptX cfg plan arrival ++ restQ)] (faultyFaults plan ++ restF))
    out.1 = .err (malformedError m)
    ∧ (malformedError m).isTimeout = false
    ∧ Gd.sentOf out.2.log = fails.flatMap (Attempt.sendsX cfg) ++ (Ending.malformed stage got m).sendsX cfg
    ∧ attemptsOf (Gd.sentOf out.2.log) = fails.length + 1 := by
  intro plan out
  obtain ⟨h1, h2⟩ := C10_gs3_query_faulty cfg st h port retries arrival harr plan
    (by simp only [plan, wfPlan, Bool.and_eq_true, List.all_eq_true, decide_eq_true_eq]; exact ⟨hw, ⟨hk, hm⟩, hgot⟩)
    restQ restF
  refine ⟨h1, malformedError_not_timeout m, h2, ?_⟩
  show attemptsOf (Gd.sentOf out.2.log) = _
  rw [show Gd.sentOf out.2.log = _ from h2, attemptsOf_planX]
  rfl

/-- REPLIES WITHOUT EXTRA SECTIONS are the case `cfg.toX` of the statements above: same domain, same data packets, same
scripts, same sends, same prescribed packets. -/
theorem C10_gs3_faults_conservative (cfg : Config) (st : State) (plan : Plan) (arrival : List Bytes) :
    wfX cfg.toX st = wf cfg st ∧ dataPacketsX cfg.toX st = dataPackets cfg st
    ∧ faultyScriptX cfg.toX plan arrival = faultyScript cfg plan arrival
    ∧ faultySendsX cfg.toX plan = faultySends cfg plan
    ∧ faultyPacketsX cfg.toX st plan = faultyPackets cfg st plan := by
  obtain ⟨e1, e2, e3, e4⟩ := faulty_toX cfg st plan arrival
  exact ⟨wfX_toX cfg st, e4, e1, e2, e3⟩

/-- … so the general statement as it stood for `Config` / `wf` (no extra sections) is an instance. -/
theorem C10_gs3_query_faulty_no_extra (cfg : Config) (st : State) (h : wf cfg st = true) (port retries : Nat)
    (arrival : List Bytes) (harr : arrival.Perm (dataPackets cfg st)) (plan : Plan)
    (hplan : wfPlan retries (dataPackets cfg st) plan = true) (restQ : List Delivery) (restF : List Bool) :
    (Gs3.query port retries
        (Net.init [.opened (faultyScript cfg plan arrival ++ restQ)] (faultyFaults plan ++ restF))).1
      = faultyExpected st plan
    ∧ Gd.sentOf (Gs3.query port retries
        (Net.init [.opened (faultyScript cfg plan arrival ++ restQ)] (faultyFaults plan ++ restF))).2.log
      = faultySends cfg plan := by
  obtain ⟨e0, e4, e1, e2, _⟩ := C10_gs3_faults_conservative cfg st plan arrival
  have key := C10_gs3_query_faulty cfg.toX st (by rw [e0]; exact h) port retries arrival (by rw [e4]; exact harr) plan
    (by rw [e4]; exact hplan) restQ restF
  rw [e1, e2] at key
  exact key

example : wf C04_gs3_exampleConfig C04_gs3_exampleState = true := C04_gs3_example_wf

/-! ### non-vacuity: the server of `Props/C04_gs3.lean` that sends five extra field sections (`C04_gs3_exampleConfigX`: two data
packets, challenge -7), retries = 2 -/

-- (a) the challenge reply lost once, then the data packets lost once (after a valid handshake): 6 deliveries
-- (silence; handshake reply, silence; handshake reply, 2 data packets), 5 sends; the result is the state, 3 attempts
example (port : Nat) :
    (faultyScriptX C04_gs3_exampleConfigX ⟨[⟨.handshake, false, []⟩, ⟨.data, false, []⟩], .valid⟩
      (dataPacketsX C04_gs3_exampleConfigX C04_gs3_exampleState)).length = 6
    ∧ faultyFaults ⟨[⟨.handshake, false, []⟩, ⟨.data, false, []⟩], .valid⟩ = [false, false, false, false, false]
    ∧ (Gs3.query port 2 (Net.init [.opened (faultyScriptX C04_gs3_exampleConfigX
          ⟨[⟨.handshake, false, []⟩, ⟨.data, false, []⟩], .valid⟩ (dataPacketsX C04_gs3_exampleConfigX C04_gs3_exampleState) ++ [])]
        (faultyFaults ⟨[⟨.handshake, false, []⟩, ⟨.data, false, []⟩], .valid⟩ ++ []))).1 = .ok (expected C04_gs3_exampleState)
    ∧ attemptsOf (Gd.sentOf (Gs3.query port 2 (Net.init [.opened (faultyScriptX C04_gs3_exampleConfigX
          ⟨[⟨.handshake, false, []⟩, ⟨.data, false, []⟩], .valid⟩ (dataPacketsX C04_gs3_exampleConfigX C04_gs3_exampleState) ++ [])]
        (faultyFaults ⟨[⟨.handshake, false, []⟩, ⟨.data, false, []⟩], .valid⟩ ++ []))).2.log) = 3 := by
  have h := C10_gs3_query_recovers C04_gs3_exampleConfigX C04_gs3_exampleState C04_gs3_exampleX_wf port 2 _
    (List.Perm.refl _) [⟨.handshake, false, []⟩, ⟨.data, false, []⟩] (by decide) (by decide) [] []
  exact ⟨by decide, by decide, h.1, h.2.2⟩

-- (b) three timeouts, the last one a failed send of the data request: PacketSend after 3 attempts
example (port : Nat) (restQ : List Delivery) :
    (Gs3.query port 2 (Net.init [.opened (faultyScriptX C04_gs3_exampleConfigX
          ⟨[⟨.handshake, true, []⟩, ⟨.data, false, []⟩, ⟨.data, true, []⟩], .gaveUp⟩
          (dataPacketsX C04_gs3_exampleConfigX C04_gs3_exampleState) ++ restQ)]
        (faultyFaults ⟨[⟨.handshake, true, []⟩, ⟨.data, false, []⟩, ⟨.data, true, []⟩], .gaveUp⟩ ++ []))).1 = .err .packetSend :=
  (C10_gs3_query_exhausted C04_gs3_exampleConfigX C04_gs3_exampleState C04_gs3_exampleX_wf port 2 _
    (List.Perm.refl _) [⟨.handshake, true, []⟩, ⟨.data, false, []⟩, ⟨.data, true, []⟩] rfl (by decide) restQ []).1

-- (c) retries = 7: after a valid handshake the datagram FF FF arrives instead of a data packet: PacketBad at once
example (port : Nat) :
    (Gs3.query port 7 (Net.init [.opened (faultyScriptX C04_gs3_exampleConfigX ⟨[], .malformed .data [] [0xFF, 0xFF]⟩
          (dataPacketsX C04_gs3_exampleConfigX C04_gs3_exampleState) ++ [])]
        (faultyFaults ⟨[], .malformed .data [] [0xFF, 0xFF]⟩ ++ []))).1 = .err .packetBad :=
  (C10_gs3_query_malformed_not_retried C04_gs3_exampleConfigX C04_gs3_exampleState C04_gs3_exampleX_wf port 7 _
    (List.Perm.refl _) [] (by decide) (by decide) .data [] (by decide) [0xFF, 0xFF] (by decide) [] []).1

/-! ### a reply that stops half way: the server's reply travels as two data packets -/

/-- the second of the two data packets -/
def C10_gs3_demoGot : List Bytes := (dataPacketsX C04_gs3_exampleConfigX C04_gs3_exampleState).drop 1

-- (a) the first attempt receives the handshake reply and the SECOND data packet, then nothing; the second attempt is
-- answered: 7 deliveries, the result is the state, 2 attempts; (c) retries = 7, after the handshake reply and the second
-- data packet the datagram FF FF arrives: PacketBad at once, one attempt
example (port : Nat) (restQ : List Delivery) :
    (dataPacketsX C04_gs3_exampleConfigX C04_gs3_exampleState).length = 2
    ∧ (faultyScriptX C04_gs3_exampleConfigX ⟨[⟨.data, false, C10_gs3_demoGot⟩], .valid⟩
      (dataPacketsX C04_gs3_exampleConfigX C04_gs3_exampleState)).length = 6
    ∧ (Gs3.query port 2 (Net.init [.opened (faultyScriptX C04_gs3_exampleConfigX
          ⟨[⟨.data, false, C10_gs3_demoGot⟩], .valid⟩ (dataPacketsX C04_gs3_exampleConfigX C04_gs3_exampleState) ++ restQ)]
        (faultyFaults ⟨[⟨.data, false, C10_gs3_demoGot⟩], .valid⟩ ++ []))).1 = .ok (expected C04_gs3_exampleState)
    ∧ attemptsOf (Gd.sentOf (Gs3.query port 2 (Net.init [.opened (faultyScriptX C04_gs3_exampleConfigX
          ⟨[⟨.data, false, C10_gs3_demoGot⟩], .valid⟩ (dataPacketsX C04_gs3_exampleConfigX C04_gs3_exampleState) ++ restQ)]
        (faultyFaults ⟨[⟨.data, false, C10_gs3_demoGot⟩], .valid⟩ ++ []))).2.log) = 2
    ∧ (Gs3.query port 7 (Net.init [.opened (faultyScriptX C04_gs3_exampleConfigX
          ⟨[], .malformed .data C10_gs3_demoGot [0xFF, 0xFF]⟩
          (dataPacketsX C04_gs3_exampleConfigX C04_gs3_exampleState) ++ restQ)]
        (faultyFaults ⟨[], .malformed .data C10_gs3_demoGot [0xFF, 0xFF]⟩ ++ []))).1 = .err .packetBad := by
  have h := C10_gs3_query_recovers C04_gs3_exampleConfigX C04_gs3_exampleState C04_gs3_exampleX_wf port 2 _
    (List.Perm.refl _) [⟨.data, false, C10_gs3_demoGot⟩] (by decide) (by decide) restQ []
  have hm := C10_gs3_query_malformed_not_retried C04_gs3_exampleConfigX C04_gs3_exampleState C04_gs3_exampleX_wf port 7 _
    (List.Perm.refl _) [] (by decide) (by decide) .data C10_gs3_demoGot (by decide) [0xFF, 0xFF] (by decide) restQ []
  exact ⟨by decide, by decide, h.1, h.2.2, hm.1⟩

/-! ### replies whose packets may end inside value lists (`Spec.ConfigC` / `Spec.wfC`, see `Props/C04_gs3.lean`)

The same statements for the domain of `C04_gs3_query_cut`: any allowed extra sections, any packets that end inside the
value list of their last section.  Plans, flags and the prescribed outcome do not mention the layout; scripts and sends
take only the challenge from the configuration (`cfg.closed`), the data packets are `dataPacketsC`.  Replies that close
every list are the case `cfg.toC` (`C10_gs3_faults_cut_conservative`). -/

theorem C10_gs3_query_faulty_cut (cfg : ConfigC) (st : State) (h : wfC cfg st = true) (port retries : Nat)
    (arrival : List Bytes) (harr : arrival.Perm (dataPacketsC cfg st)) (plan : Plan)
    (hplan : wfPlan retries (dataPacketsC cfg st) plan = true) (restQ : List Delivery) (restF : List Bool) :
    (Gs3.query port retries
        (Net.init [.opened (faultyScriptX cfg.closed plan arrival ++ restQ)] (faultyFaults plan ++ restF))).1
      = faultyExpected st plan
    ∧ Gd.sentOf (Gs3.query port retries
        (Net.init [.opened (faultyScriptX cfg.closed plan arrival ++ restQ)] (faultyFaults plan ++ restF))).2.log
      = faultySendsX cfg.closed plan := by
  rw [query_eq, ← faultyExpected_eqC cfg st h plan]
  exact exchange_faultyC cfg st h port retries buildResponse arrival harr plan hplan restQ restF

theorem C10_gs3_query_vars_faulty_cut (cfg : ConfigC) (st : State) (h : wfC cfg st = true) (port retries : Nat)
    (arrival : List Bytes) (harr : arrival.Perm (dataPacketsC cfg st)) (plan : Plan)
    (hplan : wfPlan retries (dataPacketsC cfg st) plan = true) (restQ : List Delivery) (restF : List Bool) :
    (Gs3.queryVars port retries
        (Net.init [.opened (faultyScriptX cfg.closed plan arrival ++ restQ)] (faultyFaults plan ++ restF))).1
      = (faultyPacketsC cfg st plan >>= buildVars)
    ∧ Gd.sentOf (Gs3.queryVars port retries
        (Net.init [.opened (faultyScriptX cfg.closed plan arrival ++ restQ)] (faultyFaults plan ++ restF))).2.log
      = faultySendsX cfg.closed plan := by
  rw [queryVars_eq]
  exact exchange_faultyC cfg st h port retries buildVars arrival harr plan hplan restQ restF

/-- (a) RECOVERY on such a reply -/
theorem C10_gs3_query_recovers_cut (cfg : ConfigC) (st : State) (h : wfC cfg st = true) (port retries : Nat)
    (arrival : List Bytes) (harr : arrival.Perm (dataPacketsC cfg st)) (fails : List Attempt)
    (hk : fails.length ≤ retries) (hw : ∀ a ∈ fails, a.wf (dataPacketsC cfg st) = true) (restQ : List Delivery)
    (restF : List Bool) :
    let plan : Plan := ⟨fails, .valid⟩
    let out := Gs3.query port retries
        (Net.init [.opened (faultyScriptX cfg.closed plan arrival ++ restQ)] (faultyFaults plan ++ restF))
    out.1 = .ok (expected st)
    ∧ Gd.sentOf out.2.log = fails.flatMap (Attempt.sendsX cfg.closed) ++ [(handshakeRequest, false), (dataRequest cfg.challenge, false)]
    ∧ attemptsOf (Gd.sentOf out.2.log) = fails.length + 1 := by
  intro plan out
  obtain ⟨h1, h2⟩ := C10_gs3_query_faulty_cut cfg st h port retries arrival harr plan
    (by simp only [plan, wfPlan, Bool.and_eq_true, List.all_eq_true, decide_eq_true_eq]; exact ⟨hw, hk⟩) restQ restF
  refine ⟨h1, h2, ?_⟩
  show attemptsOf (Gd.sentOf out.2.log) = _
  rw [show Gd.sentOf out.2.log = _ from h2, attemptsOf_planX]
  rfl

/-- (b) EXHAUSTION on such a reply -/
theorem C10_gs3_query_exhausted_cut (cfg : ConfigC) (st : State) (h : wfC cfg st = true) (port retries : Nat)
    (arrival : List Bytes) (harr : arrival.Perm (dataPacketsC cfg st)) (fails : List Attempt)
    (hk : fails.length = retries + 1) (hw : ∀ a ∈ fails, a.wf (dataPacketsC cfg st) = true) (restQ : List Delivery)
    (restF : List Bool) :
    let plan : Plan := ⟨fails, .gaveUp⟩
    let out := Gs3.query port retries
        (Net.init [.opened (faultyScriptX cfg.closed plan arrival ++ restQ)] (faultyFaults plan ++ restF))
    out.1 = .err (lastError Attempt.error fails)
    ∧ (out.1 = .err .packetReceive ∨ out.1 = .err .packetSend)
    ∧ attemptsOf (Gd.sentOf out.2.log) = retries + 1 := by
  intro plan out
  obtain ⟨h1, h2⟩ := C10_gs3_query_faulty_cut cfg st h port retries arrival harr plan
    (by simp only [plan, wfPlan, Bool.and_eq_true, List.all_eq_true, beq_iff_eq]; exact ⟨hw, hk⟩) restQ restF
  have h1' : out.1 = .err (lastError Attempt.error fails) := h1
  refine ⟨h1', ?_, ?_⟩
  · rw [h1']
    rcases lastError_class fails with e | e <;> rw [e] <;> simp
  · show attemptsOf (Gd.sentOf out.2.log) = _
    rw [show Gd.sentOf out.2.log = _ from h2, attemptsOf_planX]
    simp [plan, Plan.attempts, hk]

/-- (c) A MALFORMED REPLY IS NOT RETRIED on such a reply -/
theorem C10_gs3_query_malformed_not_retried_cut (cfg : ConfigC) (st : State) (h : wfC cfg st = true) (port retries : Nat)
    (arrival : List Bytes) (harr : arrival.Perm (dataPacketsC cfg st)) (fails : List Attempt)
    (hk : fails.length ≤ retries) (hw : ∀ a ∈ fails, a.wf (dataPacketsC cfg st) = true) (stage : Stage)
    (got : List Bytes) (hgot : gotAt (dataPacketsC cfg st) stage false got = true) (m : Bytes)
    (hm : malformedAt stage m = true) (restQ : List Delivery) (restF : List Bool) :
    let plan : Plan := ⟨fails, .malformed stage got m⟩
    let out := Gs3.query port retries
        (Net.init [.opened (faultyScriptX cfg.closed plan arrival ++ restQ)] (faultyFaults plan ++ restF))
    out.1 = .err (malformedError m)
    ∧ (malformedError m).isTimeout = false
    ∧ attemptsOf (Gd.sentOf out.2.log) = fails.length + 1 := by
  intro plan out
  obtain ⟨h1, h2⟩ := C10_gs3_query_faulty_cut cfg st h port retries arrival harr plan
    (by simp only [plan, wfPlan, Bool.and_eq_true, List.all_eq_true, decide_eq_true_eq]; exact ⟨hw, ⟨hk, hm⟩, hgot⟩)
    restQ restF
  refine ⟨h1, malformedError_not_timeout m, ?_⟩
  show attemptsOf (Gd.sentOf out.2.log) = _
  rw [show Gd.sentOf out.2.log = _ from h2, attemptsOf_planX]
  rfl

/-- REPLIES THAT CLOSE EVERY VALUE LIST are the case `cfg.toC`: same domain, same data packets, same configuration for
scripts and sends, same prescribed packets — `C10_gs3_query_faulty` is an instance of `C10_gs3_query_faulty_cut`. -/
theorem C10_gs3_faults_cut_conservative (cfg : ConfigX) (st : State) (plan : Plan) :
    wfC cfg.toC st = wfX cfg st ∧ dataPacketsC cfg.toC st = dataPacketsX cfg st ∧ cfg.toC.closed = cfg
    ∧ faultyPacketsC cfg.toC st plan = faultyPacketsX cfg st plan := by
  obtain ⟨e1, e2, e3⟩ := faulty_toC cfg st plan
  exact ⟨wfC_toC cfg st, e3, e1, e2⟩

-- non-vacuity: the reply of `Props/C04_gs3.lean` whose ten packets all but the last end inside a value list, retries = 2:
-- the challenge reply lost once, then the reply stops after its first data packet, then it arrives whole: the state, 3 attempts
example (port : Nat) (restQ : List Delivery) :
    (Gs3.query port 2 (Net.init [.opened (faultyScriptX C04_gs3_cutConfig.closed
          ⟨[⟨.handshake, false, []⟩, ⟨.data, false, (dataPacketsC C04_gs3_cutConfig C04_gs3_cutState).take 1⟩], .valid⟩
          (dataPacketsC C04_gs3_cutConfig C04_gs3_cutState) ++ restQ)]
        (faultyFaults ⟨[⟨.handshake, false, []⟩, ⟨.data, false, (dataPacketsC C04_gs3_cutConfig C04_gs3_cutState).take 1⟩], .valid⟩ ++ []))).1
      = .ok (expected C04_gs3_cutState) :=
  (C10_gs3_query_recovers_cut C04_gs3_cutConfig C04_gs3_cutState C04_gs3_cut_example_wf.1 port 2 _
    (List.Perm.refl _) [⟨.handshake, false, []⟩, ⟨.data, false, (dataPacketsC C04_gs3_cutConfig C04_gs3_cutState).take 1⟩]
    (by decide) (by decide +kernel) restQ []).1
