import GdVerif.Lemmas.SmallBlock
/-
  C12 (blocking steps that can run into their timeout) — Savage 2 (one exchange, never retried).
-/
open Gd Gd.Savage2

/-- At most one blocking step runs into its timeout (socket creation, the send, or the receive),
whatever the server does and whatever the retry setting. -/
theorem C12_savage2_blocking_bound (port : Nat) (script : List ConnScript) (faults : List Bool) :
    nBlocked (query port (Net.init script faults)).2.log ≤ 1 := by
  have := (block_query port).total script faults
  omega
/-- A silent server: one request, one timed-out receive, the receive-class error (no second attempt). -/
theorem C12_savage2_silent_server (port : Nat) (script : List ConnScript)
    (h : PendingSilent false 1 script) :
    (query port (Net.init script [])).1 = .err .packetReceive
      ∧ nSends (query port (Net.init script [])).2.log = 1
      ∧ nBlocked (query port (Net.init script [])).2.log = 1
      ∧ nRecvOk (query port (Net.init script [])).2.log = 0
      ∧ nOpened (query port (Net.init script [])).2.log = 1 :=
  (silent_query port (Net.init script []) rfl h).counts

example : PendingSilent false 1 [] ∧ PendingSilent false 1 [.opened [.silence, .data [1]]] := ⟨rfl, True.intro⟩
example : nBlocked (query 11235 (Net.init [.opened [.silence, .data [1]]] [])).2.log = 1 := by decide
