import GdVerif.Lemmas.McSafe
import GdVerif.Lemmas.McUnits
/-
  C09 (Minecraft) — requests are the protocol's and go to the given port.

  SPEC: `Spec.javaRequests` (Handshake: VarInt length, packet id 0, VarInt protocol version, String host
  name, Unsigned Short port BIG-endian, next state 1; Status Request `01 00`; then `01 01`, a Ping Request
  without payload that ends the exchange), `Spec.bedrockRequests` (Unconnected Ping), `Spec.legacy*Requests`.
  On the unrepaired tree `C09_minecraft_java_requests` was false: the port went out little-endian.
  (The default port used when the caller gives none belongs to the game wrappers, C14.)
-/
open Gd Gd.Mc Gd.Mc.Spec

/-- The literal requests of the model are the SPEC's: RakNet Unconnected Ping (id 01, time, MAGIC, GUID) and the
three legacy pings (`FE 01 FA` + "GameDig" as a UTF-16BE plugin message tail, `FE 01`, `FE`). -/
theorem C09_minecraft_literal_requests :
    [bedrockRequest] = bedrockRequests
    ∧ [legacyRequest .v1_6] = legacy16Requests
    ∧ [legacyRequest .v1_4] = legacy14Requests
    ∧ [legacyRequest .vb1_8] = legacyB18Requests := by
  decide +kernel

/-- The three Java packets, for every host name (shorter than 2^31 bytes, the protocol's String limit as the
code enforces it), every `i32` protocol version and every port: byte for byte the SPEC's Handshake, Status
Request and bare Ping. -/
theorem C09_minecraft_java_requests (rs : RequestSettings) (port : Nat) (hh : rs.hostname.length < 2 ^ 31) :
    ∃ payload, javaHandshakePayload rs port = .ok payload ∧ javaReqs payload = javaRequests rs port :=
  ⟨_, javaHandshakePayload_ok rs port hh, javaReqs_eq rs port hh⟩

/-- the handshake for the default settings and port 25565, spelled out: length 0x11, id 00, VarInt -1, "gamedig",
port 63 DD (big-endian), next state 01 -/
example : handshake (-1) (asciiBytes "gamedig") 25565
    = [0x11, 0x00, 0xff, 0xff, 0xff, 0xff, 0x0f, 0x07, 0x67, 0x61, 0x6d, 0x65, 0x64, 0x69, 0x67, 0x63, 0xdd, 0x01] := by
  decide +kernel

theorem javaAllowed_spec (rs : RequestSettings) (port : Nat) (hh : rs.hostname.length < 2 ^ 31) (d : Bytes)
    (h : JavaAllowed rs port d) : d ∈ javaRequests rs port := by
  rw [← javaReqs_eq rs port hh]
  rcases h with ⟨payload, hp, rfl⟩ | rfl | rfl
  · rw [javaHandshakePayload_ok rs port hh] at hp
    cases hp
    simp [javaReqs]
  · simp [javaReqs]
  · simp [javaReqs]

/-- Whatever the server does (any script, any failing sends, any JSON crate behaviour): the Java query opens ONE
TCP socket to the given port, everything it sends goes out of that socket to that port and is one of the three
SPEC packets, every receive uses the default buffer, and nothing else touches the transport. -/
theorem C09_minecraft_java_conforms (ext : Ext) (port : Nat) (rs : RequestSettings) (hh : rs.hostname.length < 2 ^ 31)
    (retries : Nat) (script : List ConnScript) (faults : List Bool) :
    ∀ e ∈ (queryJava ext port rs retries (Net.init script faults)).2.log,
      match e with
      | .opened c tcp p _ => c = 0 ∧ tcp = true ∧ p = port
      | .send c p d _ => c = 0 ∧ p = port ∧ d ∈ javaRequests rs port
      | .recv c size _ => c = 0 ∧ size = none := by
  obtain ⟨_, added, hlog, hall⟩ := queryJava_safe ext port rs retries (Net.init script faults)
  intro e he
  rw [hlog] at he
  simp only [Net.init, List.nil_append] at he
  have := hall e he
  cases e with
  | opened c tcp p r => exact this
  | send c p d f => exact ⟨this.1, this.2.1, javaAllowed_spec rs port hh d this.2.2⟩
  | recv c s g => exact this

/-- Bedrock: one UDP socket to the given port; only the Unconnected Ping is ever sent. -/
theorem C09_minecraft_bedrock_conforms (port retries : Nat) (script : List ConnScript) (faults : List Bool) :
    ∀ e ∈ (queryBedrock port retries (Net.init script faults)).2.log,
      match e with
      | .opened c tcp p _ => c = 0 ∧ tcp = false ∧ p = port
      | .send c p d _ => c = 0 ∧ p = port ∧ d = unconnectedPing clientTime clientGuid
      | .recv c size _ => c = 0 ∧ size = none := by
  obtain ⟨_, added, hlog, hall⟩ := queryBedrock_safe port retries (Net.init script faults)
  intro e he
  rw [hlog] at he
  simp only [Net.init, List.nil_append] at he
  have := hall e he
  cases e with
  | opened c tcp p r => exact this
  | send c p d f => exact ⟨this.1, this.2.1, by rw [this.2.2]; decide +kernel⟩
  | recv c s g => exact this

/-- Legacy: one TCP socket to the given port; only that version's ping is ever sent. -/
theorem C09_minecraft_legacy_conforms (g : LegacyGroup) (port retries : Nat) (script : List ConnScript) (faults : List Bool) :
    ∀ e ∈ (queryLegacySpecific g port retries (Net.init script faults)).2.log,
      match e with
      | .opened c tcp p _ => c = 0 ∧ tcp = true ∧ p = port
      | .send c p d _ => c = 0 ∧ p = port ∧ [d] = legacyRequests g
      | .recv c size _ => c = 0 ∧ size = none := by
  obtain ⟨_, added, hlog, hall⟩ := queryLegacySpecific_safe g port retries (Net.init script faults)
  intro e he
  rw [hlog] at he
  simp only [Net.init, List.nil_append] at he
  have := hall e he
  cases e with
  | opened c tcp p r => exact this
  | send c p d f => exact ⟨this.1, this.2.1, by rw [this.2.2]; cases g <;> decide +kernel⟩
  | recv c s g' => exact this

/-- Auto-detect: every socket goes to the given port, every request is one of the five variants' SPEC requests and
goes to that port, every receive uses the default buffer — for every script. -/
theorem C09_minecraft_auto_conforms (ext : Ext) (port : Nat) (rs : RequestSettings) (hh : rs.hostname.length < 2 ^ 31)
    (retries : Nat) (script : List ConnScript) (faults : List Bool) :
    ∀ e ∈ (queryAuto ext port rs retries (Net.init script faults)).2.log,
      match e with
      | .opened _ _ p _ => p = port
      | .send _ p d _ => p = port ∧
          (d ∈ javaRequests rs port ∨ d ∈ bedrockRequests ∨ d ∈ legacy16Requests ∨ d ∈ legacy14Requests ∨ d ∈ legacyB18Requests)
      | .recv _ size _ => size = none := by
  obtain ⟨_, added, hlog, hall⟩ := queryAuto_safe ext port rs retries (Net.init script faults)
  intro e he
  rw [hlog] at he
  simp only [Net.init, List.nil_append] at he
  have := hall e he
  cases e with
  | opened c tcp p r => exact this
  | recv c s g => exact this
  | send c p d f =>
    refine ⟨this.1, ?_⟩
    rcases this.2 with hj | hb | ⟨g, hg⟩
    · exact Or.inl (javaAllowed_spec rs port hh d hj)
    · exact Or.inr (Or.inl (by rw [hb]; decide +kernel))
    · rw [hg]
      cases g
      · exact Or.inr (Or.inr (Or.inl (by decide +kernel)))
      · exact Or.inr (Or.inr (Or.inr (Or.inl (by decide +kernel))))
      · exact Or.inr (Or.inr (Or.inr (Or.inr (by decide +kernel))))

/-- "The client sends nothing else": when the server answers, the Java query's complete transport log is — socket
opened, Handshake, Status Request, bare Ping, one receive — in this order, once, whatever the retry count. -/
theorem C09_minecraft_java_exchange (ext : Ext) (st : JavaStatus) (text trailing : Bytes) (j : Json)
    (hparse : ext.parseJson text = some j) (hrep : Represents j st) (hwf : wfJava st text = true)
    (port retries : Nat) (rs : RequestSettings) (hh : rs.hostname.length < 2 ^ 31) :
    (queryJava ext port rs retries (Net.init [.opened [.data (statusResponse text trailing)]] [])).2.log
      = [.opened 0 true port false,
         .send 0 port (handshake rs.protocolVersion rs.hostname port) false,
         .send 0 port statusRequest false,
         .send 0 port bareFinalPing false,
         .recv 0 none (some (statusResponse text trailing).length)] := by
  rw [java_answered ext text trailing j st hparse hrep hwf port retries rs hh _ [] [] rfl rfl]
  simp [own, Net.init, sendEvs, javaRequests]

/-- the same for Bedrock and the legacy variants: one request, one receive -/
theorem C09_minecraft_bedrock_exchange (st : BedrockStatus) (h : wfBedrock st = true) (port retries : Nat) :
    (queryBedrock port retries (Net.init [.opened [.data (unconnectedPong clientTime st)]] [])).2.log
      = [.opened 0 false port false, .send 0 port bedrockRequest false,
         .recv 0 none (some (unconnectedPong clientTime st).length)] := by
  rw [bedrock_answered st h port retries _ [] [] rfl rfl]
  simp [own, Net.init]

theorem C09_minecraft_legacy_exchange (g : LegacyGroup) (pkt : Bytes) (x : JavaResponse)
    (hdec : DecodesEnd (legacyParse g pkt.length) pkt x) (port retries : Nat) :
    (queryLegacySpecific g port retries (Net.init [.opened [.data pkt]] [])).2.log
      = [.opened 0 true port false, .send 0 port (legacyRequest g) false, .recv 0 none (some pkt.length)] := by
  rw [legacy_answered g pkt x hdec port retries _ [] [] rfl rfl]
  simp [own, Net.init]

-- non-vacuity of the exchange theorems: see the examples of Props/C03.lean (`exJava`, `exBedrock`, `ex16`)
example : (queryLegacySpecific .vb1_8 25565 3 (Net.init [.opened [.data (kickOld ⟨[0x41], 5, 20⟩)]] [])).2.log
    = [.opened 0 true 25565 false, .send 0 25565 (legacyRequest .vb1_8) false, .recv 0 none (some (kickOld ⟨[0x41], 5, 20⟩).length)] :=
  C09_minecraft_legacy_exchange .vb1_8 _ _ (decodesEnd_legacyB18 ⟨[0x41], 5, 20⟩ (by decide +kernel)) 25565 3
