import GdVerif.Lemmas.QLogic
import GdVerif.Lemmas.VarInt
import GdVerif.Proto.Valve
/-
  Crash-freedom and wire-conformance of the whole Valve query model.
-/
namespace Gd

/-- discharge `Safe` goals of straight-line parsers built from the primitives -/
macro "par_safe" : tactic =>
  `(tactic| repeat (first
      | exact Safe.pure _
      | exact Safe.fail _
      | exact safe_readU8
      | exact safe_readByte
      | exact safe_readUnsigned _ _
      | exact safe_readSigned _ _
      | exact safe_readCStr
      | exact safe_readStrUntil _
      | exact safe_readLenStr
      | exact safe_readUtf16 _
      | exact safe_moveCursor _
      | exact safe_switchEndianChunk _
      | exact Mc.safe_remainingLength
      | (refine Safe.bind ?_ (fun _ => ?_))
      | (refine Safe.ite ?_ ?_)
      | assumption))

theorem safe_remainingBytes : Safe remainingBytes := fun _ => rfl

theorem Safe.lift_ne (r : Res α) (h : r ≠ .crash) : Safe (Par.lift r) := by
  apply Safe.lift
  cases r <;> simp_all [Res.isCrash]

namespace Valve

theorem safe_packetFromBuffer : Safe packetFromBuffer := by
  unfold packetFromBuffer
  refine Safe.bind (safe_readUnsigned _ _) fun _ => Safe.bind safe_readU8 fun _ => Safe.bind safe_remainingBytes fun _ => Safe.pure _

theorem safe_readIf (c : Bool) {p : Par α} (hp : Safe p) : Safe (readIf c p) := by
  unfold readIf
  split
  · exact Safe.bind hp fun _ => Safe.pure _
  · exact Safe.pure _

theorem safe_splitPacketNew (engine : Engine) (protocol : Nat) : Safe (splitPacketNew engine protocol) := by
  unfold splitPacketNew
  refine Safe.bind (safe_readUnsigned _ _) fun _ => Safe.bind (safe_readUnsigned _ _) fun _ => ?_
  cases engine with
  | goldSrc f =>
    exact Safe.bind safe_readU8 fun _ => Safe.bind safe_remainingBytes fun _ => Safe.pure _
  | source ids =>
    refine Safe.bind safe_readU8 fun _ => Safe.bind safe_readU8 fun _ => Safe.bind ?_ fun _ =>
      Safe.bind (safe_readIf _ (Safe.bind (safe_readUnsigned _ _) fun _ => Safe.bind (safe_readUnsigned _ _) fun _ => Safe.pure _)) fun _ =>
      Safe.bind safe_remainingBytes fun _ => Safe.pure _
    split
    · exact Safe.pure _
    · exact safe_readUnsigned _ _

theorem safe_readBoolByte : Safe readBoolByte := by
  unfold readBoolByte; par_safe

theorem safe_parseModData : Safe parseModData := by
  unfold parseModData
  refine Safe.bind safe_readCStr fun _ => Safe.bind safe_readCStr fun _ => Safe.bind (safe_moveCursor _) fun _ =>
    Safe.bind (safe_readUnsigned _ _) fun _ => Safe.bind (safe_readUnsigned _ _) fun _ =>
    Safe.bind safe_readBoolByte fun _ => Safe.bind safe_readBoolByte fun _ => Safe.pure _

theorem goldServerType_ne (n : Nat) : goldServerType n ≠ .crash := by
  unfold goldServerType; split <;> simp
theorem goldEnvironment_ne (n : Nat) : goldEnvironment n ≠ .crash := by
  unfold goldEnvironment; split <;> simp
theorem serverFromGldsrc_ne (n : Nat) : serverFromGldsrc n ≠ .crash := by
  unfold serverFromGldsrc; split <;> simp
theorem environmentFromGldsrc_ne (n : Nat) : environmentFromGldsrc n ≠ .crash := by
  unfold environmentFromGldsrc; split <;> simp

theorem safe_parseGoldSrcInfo : Safe parseGoldSrcInfo := by
  unfold parseGoldSrcInfo
  refine Safe.bind safe_readU8 fun _ => Safe.bind safe_readCStr fun _ => Safe.bind safe_readCStr fun _ =>
    Safe.bind safe_readCStr fun _ => Safe.bind safe_readCStr fun _ => Safe.bind safe_readCStr fun _ =>
    Safe.bind safe_readU8 fun _ => Safe.bind safe_readU8 fun _ => Safe.bind safe_readU8 fun _ =>
    Safe.bind safe_readU8 fun _ => Safe.bind (Safe.lift_ne _ (goldServerType_ne _)) fun _ =>
    Safe.bind safe_readU8 fun _ => Safe.bind (Safe.lift_ne _ (goldEnvironment_ne _)) fun _ =>
    Safe.bind safe_readBoolByte fun _ => Safe.bind safe_readBoolByte fun _ =>
    Safe.bind (safe_readIf _ safe_parseModData) fun _ => Safe.bind safe_readBoolByte fun _ =>
    Safe.bind safe_readU8 fun _ => Safe.pure _

theorem safe_parseExtra (appid : Nat) : Safe (parseExtra appid) := by
  intro b
  unfold parseExtra
  have h1 := safe_readU8 b
  cases hr : readU8 b with
  | err k => simp [Post]
  | crash => rw [hr] at h1; exact h1.elim
  | ok x =>
    obtain ⟨value, b1⟩ := x
    rw [hr] at h1
    simp only [Post] at h1
    simp only
    have hs : Safe (do
        let port ← readIf (value &&& 0x80 > 0) (readUnsigned .little 2)
        let steamId ← readIf (value &&& 0x10 > 0) (readUnsigned .little 8)
        let tvPort ← readIf (value &&& 0x40 > 0) (readUnsigned .little 2)
        let tvName ← readIf (value &&& 0x40 > 0) readCStr
        let keywords ← readIf (value &&& 0x20 > 0) readCStr
        let gameId ← readIf (value &&& 0x01 > 0) (readUnsigned .little 8)
        let appid' := match gameId with
          | some gid => gid &&& (2 ^ 24 - 1)
          | none => appid
        pure (some (ExtraData.mk port steamId tvPort tvName keywords gameId), appid')) :=
      Safe.bind (safe_readIf _ (safe_readUnsigned _ _)) fun _ => Safe.bind (safe_readIf _ (safe_readUnsigned _ _)) fun _ =>
      Safe.bind (safe_readIf _ (safe_readUnsigned _ _)) fun _ => Safe.bind (safe_readIf _ safe_readCStr) fun _ =>
      Safe.bind (safe_readIf _ safe_readCStr) fun _ => Safe.bind (safe_readIf _ (safe_readUnsigned _ _)) fun _ => Safe.pure _
    have h2 := hs b1
    revert h2
    generalize (do
        let port ← readIf (value &&& 0x80 > 0) (readUnsigned .little 2)
        let steamId ← readIf (value &&& 0x10 > 0) (readUnsigned .little 8)
        let tvPort ← readIf (value &&& 0x40 > 0) (readUnsigned .little 2)
        let tvName ← readIf (value &&& 0x40 > 0) readCStr
        let keywords ← readIf (value &&& 0x20 > 0) readCStr
        let gameId ← readIf (value &&& 0x01 > 0) (readUnsigned .little 8)
        let appid' := match gameId with
          | some gid => gid &&& (2 ^ 24 - 1)
          | none => appid
        pure (some (ExtraData.mk port steamId tvPort tvName keywords gameId), appid') : Par _) b1 = res
    intro h2
    cases res with
    | ok y => simp only [Post] at h2 ⊢; rw [h2, h1]
    | err k => trivial
    | crash => exact h2

theorem safe_parseSourceInfo (engine : Engine) : Safe (parseSourceInfo engine) := by
  unfold parseSourceInfo
  refine Safe.bind safe_readU8 fun _ => Safe.bind safe_readCStr fun _ => Safe.bind safe_readCStr fun _ =>
    Safe.bind safe_readCStr fun _ => Safe.bind safe_readCStr fun _ => Safe.bind (safe_readUnsigned _ _) fun _ =>
    Safe.bind safe_readU8 fun _ => Safe.bind safe_readU8 fun _ => Safe.bind safe_readU8 fun _ =>
    Safe.bind safe_readU8 fun _ => Safe.bind (Safe.lift_ne _ (serverFromGldsrc_ne _)) fun _ =>
    Safe.bind safe_readU8 fun _ => Safe.bind (Safe.lift_ne _ (environmentFromGldsrc_ne _)) fun _ =>
    Safe.bind safe_readBoolByte fun _ => Safe.bind safe_readBoolByte fun _ =>
    Safe.bind (safe_readIf _ (Safe.bind safe_readU8 fun _ => Safe.bind safe_readU8 fun _ => Safe.bind safe_readU8 fun _ => Safe.pure _)) fun _ =>
    Safe.bind safe_readCStr fun _ => Safe.bind (safe_parseExtra _) fun x => ?_
  obtain ⟨e, a⟩ := x
  exact Safe.pure _

theorem safe_parseInfo (engine : Engine) : Safe (parseInfo engine) := by
  unfold parseInfo
  split
  · exact safe_parseGoldSrcInfo
  · exact safe_parseSourceInfo engine

theorem safe_parsePlayer (engine : Engine) : Safe (parsePlayer engine) := by
  unfold parsePlayer
  exact Safe.bind (safe_moveCursor _) fun _ => Safe.bind safe_readCStr fun _ => Safe.bind (safe_readSigned _ _) fun _ =>
    Safe.bind (safe_readUnsigned _ _) fun _ => Safe.bind (safe_readIf _ (safe_readUnsigned _ _)) fun _ =>
    Safe.bind (safe_readIf _ (safe_readUnsigned _ _)) fun _ => Safe.pure _

theorem safe_parsePlayers (engine : Engine) : Safe (parsePlayers engine) := by
  unfold parsePlayers
  exact Safe.bind safe_readU8 fun _ => safe_repeatN (safe_parsePlayer engine) _

theorem safe_parseRules (engine : Engine) : Safe (parseRules engine) := by
  unfold parseRules parseRule
  exact Safe.bind (safe_readUnsigned _ _) fun _ =>
    Safe.bind (safe_repeatN (Safe.bind safe_readCStr fun _ => Safe.bind safe_readCStr fun _ => Safe.pure _) _) fun _ => Safe.pure _

end Valve
end Gd

namespace Gd.Valve
open Gd

/-- what the Valve client may put on the wire / do with its socket -/
def Allowed (data : Bytes) : Prop :=
  ∃ (req : Request) (c : Bytes),
    data = packetBytes req.kind req.defaultPayload ∨
    data = packetBytes req.kind (if req.kind == 0x54 then infoPayload ++ c else c)

def EvOk (s : Sock) : Ev → Prop
  | .send c port data _ => c = s.id ∧ port = s.port ∧ Allowed data
  | .recv c size _ => c = s.id ∧ size = some PACKET_SIZE
  | .opened _ _ _ _ => False

theorem assemble_ne (ext : Ext) (l : List SplitPacket) : assemble ext l ≠ .crash := by
  unfold assemble
  split
  · simp
  · split
    · simp
    · split
      · unfold getPayload
        split
        · simp
        · split
          · simp
          · simp only; split <;> simp
      · simp

theorem qsafe_recv (s : Sock) : QSafe s (EvOk s) (recv s (some PACKET_SIZE)) :=
  QSafe.recv s _ _ fun _ => ⟨rfl, rfl⟩

theorem qsafe_recvChunks (s : Sock) (engine : Engine) (protocol : Nat) (n : Nat) :
    QSafe s (EvOk s) (recvChunks s engine protocol n) := by
  induction n with
  | zero => exact QSafe.pure _ _ _
  | succ n ih =>
    unfold recvChunks
    exact QSafe.bind (qsafe_recv s) fun _ => QSafe.bind (QSafe.parse _ _ (safe_splitPacketNew _ _) _) fun _ =>
      QSafe.bind ih fun _ => QSafe.pure _ _ _

/-- everything `receive` does after its first `recv` -/
def afterFirst (ext : Ext) (s : Sock) (engine : Engine) (protocol : Nat) (data : Bytes) : Q Packet := do
  let header ← parse readU8 data
  if header == 0xFE then do
    let first ← parse (splitPacketNew engine protocol) data
    let rest ← recvChunks s engine protocol (first.total - 1)
    let payload ← Q.lift (assemble ext (sortChunks (first :: rest)))
    parse packetFromBuffer payload
  else parse packetFromBuffer data

theorem receive_eq (ext : Ext) (s : Sock) (engine : Engine) (protocol : Nat) :
    receive ext s engine protocol = (recv s (some PACKET_SIZE) >>= afterFirst ext s engine protocol) := rfl

theorem qsafe_afterFirst (ext : Ext) (s : Sock) (engine : Engine) (protocol : Nat) (data : Bytes) :
    QSafe s (EvOk s) (afterFirst ext s engine protocol data) := by
  unfold afterFirst
  refine QSafe.bind (QSafe.parse _ _ safe_readU8 _) fun header => ?_
  split
  · exact QSafe.bind (QSafe.parse _ _ (safe_splitPacketNew _ _) _) fun _ => QSafe.bind (qsafe_recvChunks _ _ _ _) fun _ =>
      QSafe.bind (QSafe.lift _ _ _ (assemble_ne _ _)) fun _ => QSafe.parse _ _ safe_packetFromBuffer _
  · exact QSafe.parse _ _ safe_packetFromBuffer _

theorem qsafe_receive (ext : Ext) (s : Sock) (engine : Engine) (protocol : Nat) :
    QSafe s (EvOk s) (receive ext s engine protocol) := by
  rw [receive_eq]
  exact QSafe.bind (qsafe_recv s) fun _ => qsafe_afterFirst _ _ _ _ _

/-- a successful `receive` on a UDP socket consumed at least one queued delivery -/
theorem receive_consumes (ext : Ext) (s : Sock) (hudp : s.tcp = false) (engine : Engine) (protocol : Nat)
    (w w' : Net) (p : Packet) (hopen : IsOpen s w) (h : receive ext s engine protocol w = (.ok p, w')) :
    qlen w' s.id < qlen w s.id := by
  rw [receive_eq, Q.bind_apply] at h
  cases hr : recv s (some PACKET_SIZE) w with
  | mk res w1 =>
    rw [hr] at h
    cases res with
    | ok d =>
      have h1 := recv_ok_consumes s hudp _ w w1 d hopen hr
      have hstep := (qsafe_recv s w hopen).2
      rw [hr] at hstep
      have h2 := (qsafe_afterFirst ext s engine protocol d w1 (hopen.step hstep)).2
      simp only at h
      rw [h] at h2
      have := h2.shrink s.id (hopen.step hstep)
      simp only at this
      omega
    | err k => cases h
    | crash => cases h

theorem allowed_initial (req : Request) : Allowed (packetBytes req.kind req.defaultPayload) :=
  ⟨req, [], Or.inl rfl⟩

theorem allowed_challenge (req : Request) (c : Bytes) :
    Allowed (packetBytes req.kind (if req.kind == 0x54 then infoPayload ++ c else c)) :=
  ⟨req, c, Or.inr rfl⟩

theorem qsafe_challengeLoop (ext : Ext) (s : Sock) (hudp : s.tcp = false) (engine : Engine) (protocol : Nat)
    (req : Request) : ∀ (fuel : Nat) (packet : Packet) (w : Net), IsOpen s w → qlen w s.id < fuel →
      (challengeLoop ext s engine protocol req.kind fuel packet w).1 ≠ .crash
      ∧ Step (EvOk s) w (challengeLoop ext s engine protocol req.kind fuel packet w).2 := by
  intro fuel
  induction fuel with
  | zero => intro _ w _ h; omega
  | succ fuel ih =>
    intro packet w hopen hq
    unfold challengeLoop
    split
    · -- another challenge round
      have hsend := QSafe.send s (EvOk s)
        (packetBytes req.kind (if req.kind == 0x54 then infoPayload ++ packet.payload else packet.payload))
        (fun _ => ⟨rfl, rfl, allowed_challenge req packet.payload⟩) w hopen
      rw [Q.bind_apply]
      cases hs : send s (packetBytes req.kind (if req.kind == 0x54 then infoPayload ++ packet.payload else packet.payload)) w with
      | mk res w1 =>
        rw [hs] at hsend
        cases res with
        | crash => exact absurd rfl hsend.1
        | err k => exact ⟨by simp, hsend.2⟩
        | ok u =>
          simp only
          have hopen1 := hopen.step hsend.2
          have hrecv := qsafe_receive ext s engine protocol w1 hopen1
          rw [Q.bind_apply]
          cases hr : receive ext s engine protocol w1 with
          | mk res2 w2 =>
            rw [hr] at hrecv
            cases res2 with
            | crash => exact absurd rfl hrecv.1
            | err k => exact ⟨by simp, hsend.2.trans hrecv.2⟩
            | ok p2 =>
              simp only
              have hcons := receive_consumes ext s hudp engine protocol w1 w2 p2 hopen1 hr
              have hle := hsend.2.shrink s.id hopen
              simp only at hle
              obtain ⟨h3, h4⟩ := ih p2 w2 (hopen1.step hrecv.2) (by omega)
              exact ⟨h3, (hsend.2.trans hrecv.2).trans h4⟩
    · exact ⟨by simp, Step.refl _ _⟩

theorem qsafe_requestImpl (ext : Ext) (s : Sock) (hudp : s.tcp = false) (engine : Engine) (protocol : Nat)
    (req : Request) : QSafe s (EvOk s) (requestImpl ext s engine protocol req.kind req.defaultPayload) := by
  unfold requestImpl
  refine QSafe.bind (QSafe.send s _ _ fun _ => ⟨rfl, rfl, allowed_initial req⟩) fun _ => ?_
  refine QSafe.bind (qsafe_receive ext s engine protocol) fun packet => ?_
  intro w hopen
  exact qsafe_challengeLoop ext s hudp engine protocol req (queued s w + 1) packet w hopen (by
    simp [queued, qlen])

theorem qsafe_requestData (ext : Ext) (s : Sock) (hudp : s.tcp = false) (r : Nat) (engine : Engine) (protocol : Nat)
    (req : Request) : QSafe s (EvOk s) (requestData ext s r engine protocol req) :=
  QSafe.retry (qsafe_requestImpl ext s hudp engine protocol req) r

/-- the body of `query` after the socket has been opened -/
def queryBody (ext : Ext) (s : Sock) (engine : Engine) (g : Gather) (retries : Nat) : Q Response := do
  let info ← getServerInfo ext s retries engine
  if !appIdOk engine g info.appid then Q.fail .badGame
  else do
    let protocol := info.protocolVersion
    let players ← maybeGather g.players (getServerPlayers ext s retries engine protocol)
    let rules ← maybeGather g.rules (getServerRules ext s retries engine protocol)
    pure ⟨info, players, rules⟩

theorem query_eq (ext : Ext) (port : Nat) (engine : Engine) (g : Gather) (retries : Nat) :
    query ext port engine g retries = (openSock false port >>= fun s => queryBody ext s engine g retries) := rfl

theorem qsafe_queryBody (ext : Ext) (s : Sock) (hudp : s.tcp = false) (engine : Engine) (g : Gather) (r : Nat) :
    QSafe s (EvOk s) (queryBody ext s engine g r) := by
  unfold queryBody getServerInfo getServerPlayers getServerRules
  refine QSafe.bind (QSafe.bind (qsafe_requestData ext s hudp r engine 0 .info) fun _ =>
    QSafe.parse _ _ (safe_parseInfo engine) _) fun info => ?_
  split
  · exact QSafe.fail _ _ _
  · exact QSafe.bind (QSafe.maybeGather (QSafe.bind (qsafe_requestData ext s hudp r engine _ .players) fun _ =>
        QSafe.parse _ _ (safe_parsePlayers engine) _) _) fun _ =>
      QSafe.bind (QSafe.maybeGather (QSafe.bind (qsafe_requestData ext s hudp r engine _ .rules) fun _ =>
        QSafe.parse _ _ (safe_parseRules engine) _) _) fun _ => QSafe.pure _ _ _

end Gd.Valve

namespace Gd.Valve
open Gd

/-- what the whole query may log: one socket opened (UDP, to the given port), then `EvOk` events -/
def QueryEvOk (port : Nat) (id : Nat) : Ev → Prop
  | .opened c tcp p _ => c = id ∧ tcp = false ∧ p = port
  | e => EvOk ⟨id, port, false⟩ e

theorem query_safe (ext : Ext) (port : Nat) (engine : Engine) (g : Gather) (r : Nat) (w : Net) :
    (query ext port engine g r w).1 ≠ .crash
    ∧ ∃ added, (query ext port engine g r w).2.log = w.log ++ added
        ∧ ∀ e ∈ added, QueryEvOk port w.conns.length e := by
  rw [query_eq, Q.bind_apply]
  have hbody := fun (w0 : Net) (h : IsOpen ⟨w.conns.length, port, false⟩ w0) =>
    qsafe_queryBody ext ⟨w.conns.length, port, false⟩ rfl engine g r w0 h
  have lift : ∀ e, EvOk ⟨w.conns.length, port, false⟩ e → QueryEvOk port w.conns.length e := by
    intro e he
    cases e with
    | opened => exact he.elim
    | send => exact he
    | recv => exact he
  have fin : ∀ (w0 : Net) (ev : Ev), w0.log = w.log ++ [ev] → QueryEvOk port w.conns.length ev →
      IsOpen ⟨w.conns.length, port, false⟩ w0 →
      (queryBody ext ⟨w.conns.length, port, false⟩ engine g r w0).1 ≠ .crash
      ∧ ∃ added, (queryBody ext ⟨w.conns.length, port, false⟩ engine g r w0).2.log = w.log ++ added
        ∧ ∀ e ∈ added, QueryEvOk port w.conns.length e := by
    intro w0 ev hlog0 hev hop
    obtain ⟨h1, h2⟩ := hbody w0 hop
    obtain ⟨added, hlog, hall⟩ := h2.log
    refine ⟨h1, ev :: added, by rw [hlog, hlog0]; simp, ?_⟩
    intro e he
    rcases List.mem_cons.mp he with rfl | he'
    · exact hev
    · exact lift e (hall e he')
  cases hp : w.pending with
  | nil =>
    simp only [openSock, hp]
    exact fin _ _ rfl ⟨rfl, rfl, rfl⟩ (by simp [IsOpen])
  | cons c rest =>
    cases c with
    | opened ds =>
      simp only [openSock, hp]
      exact fin _ _ rfl ⟨rfl, rfl, rfl⟩ (by simp [IsOpen])
    | refused =>
      simp only [openSock, hp]
      refine ⟨by simp, [_], rfl, ?_⟩
      intro e he
      rcases List.mem_singleton.mp he with rfl
      exact ⟨rfl, rfl, rfl⟩

end Gd.Valve
