import GdVerif.Lemmas.Gs3Safe
import GdVerif.Spec.Gs3
/-
  Reassembly of GameSpy 3 `splitnum` packets: what the receive loop of `get_server_packets_impl`
  computes from the packets in their order of arrival (`feed`), and that for the packets of one
  well-formed response this does not depend on the order; a repeated packet is an error or harmless.
-/
namespace Gd.Gs3
open Gd

/-- The receive loop on the packets that arrive, in arrival order (each already through
`GameSpy3::receive` and the split header, hence a `Res`); running out of packets is the receive
timeout. -/
def feed : Acc → List (Res Frag) → Res (List Bytes)
  | a, [] => if a.more then .err .packetReceive else finish a
  | a, f :: r =>
    if a.more then
      match f >>= accept a with
      | .ok a' => feed a' r
      | .err k => .err k
      | .crash => .crash
    else finish a

/-- the packets of a response with payloads `ps`, in order: ids `0 … n-1`, the last one flagged -/
def fragsFrom (total : Nat) : Nat → List Bytes → List Frag
  | _, [] => []
  | i, p :: r => ⟨i, i + 1 == total, p⟩ :: fragsFrom total (i + 1) r

def frags (ps : List Bytes) : List Frag := fragsFrom ps.length 0 ps

/-! ### list facts -/

theorem getD_padTo (v : List Bytes) (id j : Nat) : (padTo v id).getD j [] = v.getD j [] := by
  unfold padTo
  simp only [List.getD_eq_getElem?_getD, List.getElem?_append]
  split
  · rfl
  · rename_i h
    have h1 : v[j]? = none := List.getElem?_eq_none (by omega)
    rw [h1]
    simp only [Option.getD_none]
    cases h2 : (List.replicate (id + 1 - v.length) ([] : Bytes))[j - v.length]? with
    | none => rfl
    | some x =>
      have := List.mem_of_getElem? h2
      simp only [List.mem_replicate] at this
      simp [this.2]

theorem length_padTo (v : List Bytes) (id : Nat) : (padTo v id).length = max v.length (id + 1) := by
  simp [padTo]; omega

theorem getD_set (l : List Bytes) (i j : Nat) (x : Bytes) :
    (l.set i x).getD j [] = if i = j ∧ j < l.length then x else l.getD j [] := by
  simp only [List.getD_eq_getElem?_getD, List.getElem?_set]
  by_cases hij : i = j
  · subst hij
    by_cases hl : i < l.length
    · simp [hl]
    · simp [hl]
  · simp [hij]

/-- `accept`, spelled out -/
theorem accept_eq (a : Acc) (f : Frag) :
    accept a f =
      if (a.values.getD f.id []).isEmpty
      then .ok ⟨(padTo a.values f.id).set f.id f.payload, if f.last then some (f.id + 1) else a.expected, a.received + 1⟩
      else .err .packetBad := by
  unfold accept
  simp only
  have hlt := padTo_length a.values f.id
  have hget : (padTo a.values f.id)[f.id]? = some ((padTo a.values f.id).getD f.id []) := by
    simp [List.getD_eq_getElem?_getD, List.getElem?_eq_getElem hlt]
  rw [hget, getD_padTo]
  simp only
  cases (a.values.getD f.id []).isEmpty <;> simp

/-! ### the invariant -/

/-- the ids of a list of packets -/
def ids (l : List Frag) : List Nat := l.map (·.id)

/-- `f` is a packet of the response with payloads `ps` -/
def IsFragOf (ps : List Bytes) (f : Frag) : Prop :=
  f.id < ps.length ∧ f.last = (f.id + 1 == ps.length) ∧ f.payload = ps.getD f.id []

/-- loop state after storing the packets `P` of the response `ps` -/
structure Rep (ps : List Bytes) (P : List Frag) (a : Acc) : Prop where
  len : a.values.length ≤ ps.length
  ids_lt : ∀ i ∈ ids P, i < a.values.length
  slot : ∀ i, a.values.getD i [] = if i ∈ ids P then ps.getD i [] else []
  received : a.received = P.length
  expected : a.expected = if ps.length - 1 ∈ ids P then some ps.length else none

theorem Rep.init (ps : List Bytes) : Rep ps [] Acc.init :=
  ⟨by simp [Acc.init], by simp [ids], by simp [ids, Acc.init], rfl, by simp [ids, Acc.init]⟩

theorem mem_fragsFrom (total : Nat) (ps : List Bytes) (i : Nat) (f : Frag) :
    f ∈ fragsFrom total i ps ↔ i ≤ f.id ∧ f.id < i + ps.length ∧ f.last = (f.id + 1 == total) ∧ f.payload = ps.getD (f.id - i) [] := by
  induction ps generalizing i with
  | nil =>
    simp only [fragsFrom, List.not_mem_nil, List.length_nil, Nat.add_zero, false_iff]
    intro h; omega
  | cons p r ih =>
    simp only [fragsFrom, List.mem_cons, ih, List.length_cons]
    constructor
    · rintro (rfl | ⟨h1, h2, h3, h4⟩)
      · simp
      · refine ⟨by omega, by omega, h3, ?_⟩
        rw [h4]
        have : f.id - i = (f.id - (i + 1)) + 1 := by omega
        rw [this]
        simp
    · rintro ⟨h1, h2, h3, h4⟩
      by_cases hid : f.id = i
      · left
        cases f with
        | mk id last payload =>
          simp only at hid h3 h4 ⊢
          subst hid
          simp [h3, h4]
      · right
        refine ⟨by omega, by omega, h3, ?_⟩
        rw [h4]
        have : f.id - i = (f.id - (i + 1)) + 1 := by omega
        rw [this]
        simp

theorem mem_frags (ps : List Bytes) (f : Frag) : f ∈ frags ps ↔ IsFragOf ps f := by
  simp [frags, mem_fragsFrom, IsFragOf]

theorem ids_fragsFrom (total : Nat) (ps : List Bytes) (i : Nat) : ids (fragsFrom total i ps) = List.range' i ps.length := by
  induction ps generalizing i with
  | nil => simp [fragsFrom, ids]
  | cons p r ih =>
    have := ih (i + 1)
    simp only [ids] at this
    simp [fragsFrom, ids, this, List.range'_succ]

theorem ids_frags (ps : List Bytes) : ids (frags ps) = List.range ps.length := by
  rw [frags, ids_fragsFrom, List.range_eq_range']

/-- storing one more packet of the response whose id has not been seen -/
theorem Rep.accept {ps : List Bytes} {P : List Frag} {a : Acc} (h : Rep ps P a) {f : Frag} (hf : IsFragOf ps f)
    (hnew : f.id ∉ ids P) : ∃ a', accept a f = .ok a' ∧ Rep ps (P ++ [f]) a' := by
  obtain ⟨hid, hlast, hpay⟩ := hf
  have hslot : a.values.getD f.id [] = [] := by rw [h.slot]; simp [hnew]
  rw [accept_eq, hslot]
  simp only [List.isEmpty_nil, ↓reduceIte]
  refine ⟨_, rfl, ?_⟩
  have hids : ids (P ++ [f]) = ids P ++ [f.id] := by simp [ids]
  constructor
  · simp only [List.length_set, length_padTo]
    have := h.len
    omega
  · intro i hi
    simp only [List.length_set, length_padTo]
    rw [hids] at hi
    rcases List.mem_append.mp hi with hi | hi
    · have := h.ids_lt i hi; omega
    · simp only [List.mem_singleton] at hi; omega
  · intro i
    simp only [getD_set, length_padTo, getD_padTo, hids, List.mem_append, List.mem_singleton]
    by_cases hi : f.id = i
    · subst hi
      have : f.id < max a.values.length (f.id + 1) := by omega
      simp [this, hpay]
    · have hi' : ¬ i = f.id := fun h => hi h.symm
      simp only [hi, false_and, ↓reduceIte, h.slot i, hi', or_false]
  · simp [h.received]
  · simp only [hids, List.mem_append, List.mem_singleton]
    rw [hlast]
    by_cases hl : f.id + 1 = ps.length
    · have : ps.length - 1 = f.id := by omega
      simp [hl, this]
    · have : ¬ ps.length - 1 = f.id := by omega
      simp [hl, this, h.expected]

/-- pigeonhole: `n` distinct numbers below `n` are all of them -/
theorem all_mem_of_nodup {l : List Nat} {n : Nat} (hnd : l.Nodup) (hlt : ∀ i ∈ l, i < n) (hlen : n ≤ l.length) :
    ∀ i, i < n → i ∈ l := by
  intro i hi
  apply Classical.byContradiction
  intro hni
  have hsub : l ⊆ (List.range n).erase i := by
    intro x hx
    have hxi : x ≠ i := fun h => hni (h ▸ hx)
    exact (List.mem_erase_of_ne hxi).2 (List.mem_range.mpr (hlt x hx))
  have := hnd.length_le_of_subset hsub
  rw [List.length_erase] at this
  simp [hi] at this
  omega

/-- when all packets of the response are stored, the loop is over and its result is the payloads -/
theorem Rep.complete {ps : List Bytes} {P : List Frag} {a : Acc} (h : Rep ps P a) (hne : ps ≠ [])
    (hpay : ∀ p ∈ ps, p ≠ []) (hall : ∀ i, i < ps.length → i ∈ ids P) (hlen : P.length = ps.length) :
    a.more = false ∧ finish a = .ok ps := by
  have hn : 0 < ps.length := List.length_pos_iff.mpr hne
  have hvals : a.values = ps := by
    have hl : a.values.length = ps.length := by
      have := h.ids_lt (ps.length - 1) (hall _ (by omega))
      have := h.len
      omega
    apply List.ext_getElem hl
    intro i h1 h2
    have := h.slot i
    simp only [hall i h2, ↓reduceIte, List.getD_eq_getElem?_getD, List.getElem?_eq_getElem h1,
      List.getElem?_eq_getElem h2, Option.getD_some] at this
    exact this
  constructor
  · simp [Acc.more, h.expected, hall _ (show ps.length - 1 < ps.length by omega), h.received, hlen]
  · unfold finish
    rw [hvals]
    have : ps.any (·.isEmpty) = false := by
      rw [List.any_eq_false]
      intro p hp
      have := hpay p hp
      cases p with
      | nil => exact absurd rfl this
      | cons => simp
    simp [this]

/-- while a packet of the response is missing the loop goes on -/
theorem Rep.more {ps : List Bytes} {P : List Frag} {a : Acc} (h : Rep ps P a) (hlt : P.length < ps.length) :
    a.more = true := by
  unfold Acc.more
  rw [h.expected]
  split
  · rfl
  · rename_i e he
    split at he
    · cases he
      simp [h.received, hlt]
    · cases he

/-- The loop on packets of the response `ps` (any of them, in any order, possibly repeated) that
between them cover the response: the result is the payloads in order of the ids; unless some packet
arrives twice before the response is complete, which is an error. -/
theorem feed_frags (ps : List Bytes) (hne : ps ≠ []) (hpay : ∀ p ∈ ps, p ≠ []) :
    ∀ (R P : List Frag) (a : Acc), Rep ps P a → (ids P).Nodup → (∀ f ∈ P ++ R, IsFragOf ps f) →
      (∀ i, i < ps.length → i ∈ ids (P ++ R)) →
      feed a (R.map .ok) = .ok ps ∨ (feed a (R.map .ok) = .err .packetBad ∧ ¬ (ids (P ++ R)).Nodup) := by
  intro R
  induction R with
  | nil =>
    intro P a hrep hnd hfr hcov
    left
    simp only [List.append_nil] at hcov hfr
    have hlen : P.length = ps.length := by
      have h1 : (ids P).length ≤ (List.range ps.length).length :=
        hnd.length_le_of_subset (fun i hi => by
          obtain ⟨f, hf, rfl⟩ := List.mem_map.mp hi
          exact List.mem_range.mpr (hfr f hf).1)
      have h2 : (List.range ps.length).length ≤ (ids P).length :=
        List.nodup_range.length_le_of_subset (fun i hi => hcov i (List.mem_range.mp hi))
      simp [ids] at h1 h2
      omega
    obtain ⟨hm, hfin⟩ := hrep.complete hne hpay hcov hlen
    simp [feed, hm, hfin]
  | cons f R ih =>
    intro P a hrep hnd hfr hcov
    have hPlt : ∀ i ∈ ids P, i < ps.length := by
      intro i hi
      obtain ⟨g, hg, rfl⟩ := List.mem_map.mp hi
      exact (hfr g (by simp [hg])).1
    have hPlen : P.length ≤ ps.length := by
      have := hnd.length_le_of_subset (l₂ := List.range ps.length) (fun i hi => List.mem_range.mpr (hPlt i hi))
      simpa [ids] using this
    simp only [List.map_cons, feed]
    by_cases hdone : P.length = ps.length
    · -- everything is there already: the loop is over, what follows is not read
      have hall := all_mem_of_nodup hnd hPlt (by simp [ids, hdone])
      obtain ⟨hm, hfin⟩ := hrep.complete hne hpay hall hdone
      left
      simp [hm, hfin]
    · have hm := hrep.more (by omega)
      simp only [hm, ↓reduceIte, Res.bind_ok]
      by_cases hseen : f.id ∈ ids P
      · -- a repeated packet
        right
        have hslot : (a.values.getD f.id []).isEmpty = false := by
          rw [hrep.slot, if_pos hseen]
          have hfid := hPlt _ hseen
          have hmem : ps.getD f.id [] ∈ ps := by
            rw [List.getD_eq_getElem?_getD, List.getElem?_eq_getElem hfid]
            exact List.getElem_mem hfid
          have := hpay _ hmem
          cases hp : ps.getD f.id [] with
          | nil => exact absurd hp this
          | cons => rfl
        rw [accept_eq, hslot]
        refine ⟨by simp, ?_⟩
        intro hnd'
        have : ids (P ++ f :: R) = ids P ++ f.id :: ids R := by simp [ids]
        rw [this] at hnd'
        have := (List.nodup_append.mp hnd').2.2 _ hseen f.id (by simp)
        exact this rfl
      · obtain ⟨a', hacc, hrep'⟩ := hrep.accept (hfr f (by simp)) hseen
        rw [hacc]
        simp only
        have hnd' : (ids (P ++ [f])).Nodup := by
          have : ids (P ++ [f]) = ids P ++ [f.id] := by simp [ids]
          rw [this]
          refine List.nodup_append.mpr ⟨hnd, by simp, ?_⟩
          intro x hx y hy
          simp only [List.mem_singleton] at hy
          subst hy
          exact fun h => hseen (h ▸ hx)
        have hassoc : (P ++ [f]) ++ R = P ++ f :: R := by simp
        have := ih (P ++ [f]) a' hrep' hnd' (by rw [hassoc]; exact hfr) (by rw [hassoc]; exact hcov)
        rw [hassoc] at this
        exact this

end Gd.Gs3
