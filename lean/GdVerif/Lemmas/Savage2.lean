import GdVerif.Lemmas.SmallLogic
import GdVerif.Lemmas.ValveSafe
import GdVerif.Spec.Savage2
/-
  Savage 2: crash freedom, wire conformance and field-by-field decoding of the model against the SPEC.
-/
namespace Gd.Savage2
open Gd Gd.Savage2.Spec

theorem safe_parseResponse : Safe parseResponse := by
  unfold parseResponse
  exact Safe.bind (safe_moveCursor _) fun _ => Safe.bind safe_readCStr fun _ => Safe.bind safe_readU8 fun _ =>
    Safe.bind safe_readU8 fun _ => Safe.bind safe_readCStr fun _ => Safe.bind safe_readCStr fun _ =>
    Safe.bind safe_readCStr fun _ => Safe.bind safe_readCStr fun _ => Safe.bind safe_readU8 fun _ =>
    Safe.bind safe_readCStr fun _ => Safe.bind safe_readCStr fun _ => Safe.bind safe_readU8 fun _ => Safe.pure _

/-- what a Savage 2 query may do to the transport; `id` is the number of the socket it opens -/
def EvOkAt (port id : Nat) : Ev → Prop
  | .opened c tcp p _ => c = id ∧ tcp = false ∧ p = port
  | .send c p data _ => c = id ∧ p = port ∧ data = request
  | .recv c size _ => c = id ∧ size = none

theorem query_eq (port : Nat) :
    query port = (openSock false port >>= fun s => do
      send s request
      let data ← recv s none
      parse parseResponse data) := rfl

theorem query_safe (port : Nat) (w : Net) :
    (query port w).1 ≠ .crash
    ∧ ∃ added, (query port w).2.log = w.log ++ added ∧ ∀ e ∈ added, EvOkAt port w.conns.length e := by
  rw [query_eq, Q.bind_apply]
  have body : ∀ (w0 : Net), IsOpen ⟨w.conns.length, port, false⟩ w0 →
      QSafe ⟨w.conns.length, port, false⟩ (EvOkAt port w.conns.length) (do
        send ⟨w.conns.length, port, false⟩ request
        let data ← recv ⟨w.conns.length, port, false⟩ none
        parse parseResponse data) := fun _ _ =>
    QSafe.bind (QSafe.send _ _ _ fun _ => ⟨rfl, rfl, rfl⟩) fun _ =>
      QSafe.bind (QSafe.recv _ _ _ fun _ => ⟨rfl, rfl⟩) fun _ => QSafe.parse _ _ safe_parseResponse _
  have fin : ∀ (w0 : Net) (ev : Ev), w0.log = w.log ++ [ev] → EvOkAt port w.conns.length ev →
      IsOpen ⟨w.conns.length, port, false⟩ w0 →
      ((do
        send ⟨w.conns.length, port, false⟩ request
        let data ← recv ⟨w.conns.length, port, false⟩ none
        parse parseResponse data : Q Response) w0).1 ≠ .crash
      ∧ ∃ added, ((do
        send ⟨w.conns.length, port, false⟩ request
        let data ← recv ⟨w.conns.length, port, false⟩ none
        parse parseResponse data : Q Response) w0).2.log = w.log ++ added
        ∧ ∀ e ∈ added, EvOkAt port w.conns.length e := by
    intro w0 ev hlog0 hev hop
    obtain ⟨h1, h2⟩ := body w0 hop w0 hop
    obtain ⟨added, hlog, hall⟩ := h2.log
    refine ⟨h1, ev :: added, by rw [hlog, hlog0]; simp, ?_⟩
    intro e he
    rcases List.mem_cons.mp he with rfl | he'
    · exact hev
    · exact hall e he'
  cases hp : w.pending with
  | nil =>
    simp only [openSock, hp]
    exact fin _ _ rfl ⟨rfl, rfl, rfl⟩ (by simp [IsOpen])
  | cons c rest =>
    cases c with
    | opened ds =>
      simp only [openSock, hp]
      exact fin _ _ rfl ⟨rfl, rfl, rfl⟩ (by simp [IsOpen])
    | refused =>
      simp only [openSock, hp]
      refine ⟨by simp, [_], rfl, ?_⟩
      intro e he
      rcases List.mem_singleton.mp he with rfl
      exact ⟨rfl, rfl, rfl⟩

theorem sendBound_query (port : Nat) : SendBound 1 (query port) := by
  unfold query
  exact (SendBound.bind (SendBound.openSock _ _) fun _ => SendBound.bind (SendBound.send _ _) fun _ =>
    SendBound.bind (SendBound.recv _ _) fun _ => SendBound.parse _ _).mono (by omega)

/-! ### decoding -/

theorem okStr_iff (s : Bytes) : okStr s = true ↔ (0 : UInt8) ∉ s ∧ validUtf8 s = true := by
  simp [okStr]

theorem decodes_cstr (s : Bytes) (h : okStr s = true) : Decodes readCStr (cstr s) s := by
  obtain ⟨h0, hv⟩ := (okStr_iff s).mp h
  exact decodes_readCStr s h0 hv

/-- everything up to the ignored tail -/
def core (st : State) : Bytes :=
  st.header ++ cstr st.name ++ u8 st.numPlayers ++ u8 st.maxPlayers ++ cstr st.time ++ cstr st.map ++
  cstr st.nextMap ++ cstr st.location ++ u8 st.minPlayers ++ cstr st.gameType ++ cstr st.version ++ u8 st.minLevel

theorem encode_eq (st : State) : encode st = core st ++ st.rest := by
  simp [encode, core, List.append_assoc]

theorem decodes_response (st : State) (h : wf st = true) : Decodes parseResponse (core st) (expected st) := by
  simp only [wf, Bool.and_eq_true, decide_eq_true_eq, beq_iff_eq] at h
  obtain ⟨⟨⟨⟨⟨⟨⟨⟨⟨⟨⟨⟨hh, hname⟩, hnp⟩, hmp⟩, htime⟩, hmap⟩, hnext⟩, hloc⟩, hmin⟩, hgt⟩, hver⟩, hlvl⟩, _⟩ := h
  unfold parseResponse core
  simp only [List.append_assoc]
  have hskip : Decodes (moveCursor 12) st.header () := by
    have := decodes_skip st.header
    rwa [hh] at this
  refine Decodes.bind hskip ?_
  refine Decodes.bind (decodes_cstr _ hname) ?_
  refine Decodes.bind (decodes_u8 _ hnp) ?_
  refine Decodes.bind (decodes_u8 _ hmp) ?_
  refine Decodes.bind (decodes_cstr _ htime) ?_
  refine Decodes.bind (decodes_cstr _ hmap) ?_
  refine Decodes.bind (decodes_cstr _ hnext) ?_
  refine Decodes.bind (decodes_cstr _ hloc) ?_
  refine Decodes.bind (decodes_u8 _ hmin) ?_
  refine Decodes.bind (decodes_cstr _ hgt) ?_
  refine Decodes.bind (decodes_cstr _ hver) ?_
  exact Decodes.bind_last (decodes_u8 _ hlvl) (Decodes.pure _)

theorem run_encode (st : State) (h : wf st = true) : parseResponse.run (encode st) = .ok (expected st) := by
  rw [encode_eq]
  exact (decodes_response st h).run_append st.rest

/-- the whole exchange on a single-datagram script -/
theorem query_script (port : Nat) (d : Bytes) (hd : d.length ≤ 1024) :
    query port (Net.init [.opened [.data d]] [])
      = (parseResponse.run d, ⟨[], [[]], [], [.opened 0 false port false, .send 0 port request false,
          .recv 0 none (some d.length)]⟩) := by
  have ht : d.take 1024 = d := List.take_of_length_le hd
  simp [query, openSock, Net.init, send, recv, setAt, parse, Q.lift, ht, bind, Q.bind']

end Gd.Savage2
