import GdVerif.Lemmas.Reader
/-
  VarInt lemmas: `get_varint ∘ as_varint = id` on all 32-bit patterns.
-/
namespace Gd.Mc
open Gd

theorem bits_lt128 : ∀ t, t < 128 →
    (t &&& 0x7f = t) ∧ (t &&& 0x80 = 0) ∧ ((t + 128) &&& 0x7f = t) ∧ ((t + 128) &&& 0x80 = 128) := by
  decide

theorem bits_lt16 : ∀ t, t < 16 → t &&& 0xf0 = 0 := by decide

theorem ofNat_toNat_lt (t : Nat) (h : t < 256) : (UInt8.ofNat t).toNat = t := by
  simp [UInt8.toNat_ofNat', Nat.mod_eq_of_lt h]

theorem readU8_cons (x : UInt8) (post : Bytes) (b : Buf) (hr : b.rest = x :: post) :
    readU8 b = .ok (x.toNat, b.advance 1) ∧ (b.advance 1).rest = post := by
  have hl : 1 ≤ b.remaining := by simp [Buf.remaining, hr]
  have h3 := readUnsigned_ok (e := .little) (w := 1) hl
  refine ⟨?_, by simp [hr]⟩
  unfold readU8
  rw [h3, hr]
  simp [Endian.decode, leNat]

/-- or-ing a 7-bit group above an accumulator that fits below it is addition -/
theorem or_shift_eq_add (acc t i : Nat) (hacc : acc < 2 ^ (7 * i)) :
    acc ||| (t <<< (7 * i)) = acc + t * 2 ^ (7 * i) := by
  rw [Nat.shiftLeft_eq, Nat.or_comm, Nat.mul_comm t, ← Nat.two_pow_add_eq_or_of_lt hacc, Nat.add_comm]

/-- last round: byte `t < 128` without continuation bit -/
theorem getVarintFrom_last (fuel i acc t : Nat) (post : Bytes) (b : Buf) (ht : t < 128)
    (h4 : i = 4 → t < 16) (hr : b.rest = UInt8.ofNat t :: post) :
    getVarintFrom (fuel + 1) i acc b = .ok ((acc ||| (t <<< (7 * i))) % 2 ^ 32, b.advance 1) := by
  obtain ⟨h1, _⟩ := readU8_cons _ post b hr
  rw [ofNat_toNat_lt t (by omega)] at h1
  obtain ⟨ha, hb, _, _⟩ := bits_lt128 t ht
  unfold getVarintFrom
  rw [Par.bind_ok h1]
  by_cases hi : i = 4
  · have := bits_lt16 t (h4 hi)
    simp [hi, ha, hb, this]
  · simp [hi, ha, hb]

/-- continuation round: byte `t + 128` -/
theorem getVarintFrom_cont (fuel i acc t : Nat) (post : Bytes) (b : Buf) (ht : t < 128)
    (hi : i ≠ 4) (hr : b.rest = UInt8.ofNat (t + 128) :: post) :
    getVarintFrom (fuel + 1) i acc b
      = getVarintFrom fuel (i + 1) ((acc ||| (t <<< (7 * i))) % 2 ^ 32) (b.advance 1)
      ∧ (b.advance 1).rest = post := by
  obtain ⟨h1, h2⟩ := readU8_cons _ post b hr
  rw [ofNat_toNat_lt (t + 128) (by omega)] at h1
  obtain ⟨_, _, hc, hd⟩ := bits_lt128 t ht
  refine ⟨?_, h2⟩
  conv => lhs; unfold getVarintFrom
  rw [Par.bind_ok h1]
  simp [hi, hc, hd]

/-- generalised round trip: rounds `i ..`, accumulator below bit `7i`, value fits in what is left -/
theorem getVarintFrom_asVarintFrom (fuel : Nat) : ∀ (i acc v : Nat) (post : Bytes) (b : Buf),
    i + fuel = 5 → 0 < fuel → acc < 2 ^ (7 * i) → acc + v * 2 ^ (7 * i) < 2 ^ 32 →
    b.rest = asVarintFrom fuel v ++ post →
    ∃ b', getVarintFrom fuel i acc b = .ok (acc + v * 2 ^ (7 * i), b') ∧ b'.rest = post ∧ b'.data = b.data := by
  induction fuel with
  | zero => intro i acc v post b _ h; omega
  | succ fuel ih =>
    intro i acc v post b hif _ hacc hv hr
    have hpow : (2 : Nat) ^ (7 * i) > 0 := Nat.pow_pos (by omega)
    simp only [asVarintFrom] at hr
    by_cases hlast : v / 128 = 0
    · -- single byte
      have hv128 : v < 128 := by omega
      have hmod : v % 128 = v := Nat.mod_eq_of_lt hv128
      simp only [hlast, beq_self_eq_true, ↓reduceIte, hmod, List.singleton_append] at hr
      have h4 : i = 4 → v < 16 := by
        intro hi
        subst hi
        have : v * 2 ^ 28 < 2 ^ 32 := by omega
        omega
      refine ⟨b.advance 1, ?_, by simp [hr], by simp⟩
      rw [getVarintFrom_last fuel i acc v post b hv128 h4 hr, or_shift_eq_add acc v i hacc,
        Nat.mod_eq_of_lt hv]
    · -- continuation
      have hne : (v / 128 == 0) = false := by simpa using hlast
      simp only [hne, Bool.false_eq_true, ↓reduceIte, List.cons_append] at hr
      have ht : v % 128 < 128 := Nat.mod_lt _ (by omega)
      have hi4 : i ≠ 4 := by
        intro hi
        subst hi
        have : v ≥ 128 := by omega
        have : v * 2 ^ 28 ≥ 128 * 2 ^ 28 := Nat.mul_le_mul_right _ this
        omega
      obtain ⟨hstep, hrest⟩ := getVarintFrom_cont fuel i acc (v % 128) (asVarintFrom fuel (v / 128) ++ post) b ht hi4 hr
      have hfuel : 0 < fuel := by omega
      have hp7 : (2 : Nat) ^ (7 * (i + 1)) = 2 ^ (7 * i) * 128 := by
        rw [Nat.mul_add, Nat.pow_add]
      have hsum : acc + v % 128 * 2 ^ (7 * i) + v / 128 * 2 ^ (7 * (i + 1)) = acc + v * 2 ^ (7 * i) := by
        rw [hp7]
        have := Nat.div_add_mod v 128
        calc acc + v % 128 * 2 ^ (7 * i) + v / 128 * (2 ^ (7 * i) * 128)
            = acc + (128 * (v / 128) + v % 128) * 2 ^ (7 * i) := by
              rw [Nat.add_mul, Nat.mul_comm (2 ^ (7 * i)) 128, ← Nat.mul_assoc, Nat.mul_comm (v / 128) 128]
              omega
          _ = acc + v * 2 ^ (7 * i) := by rw [this]
      have hacc' : acc + v % 128 * 2 ^ (7 * i) < 2 ^ (7 * (i + 1)) := by
        rw [hp7]
        have : v % 128 * 2 ^ (7 * i) ≤ 127 * 2 ^ (7 * i) := Nat.mul_le_mul_right _ (by omega)
        omega
      have hlt : acc + v % 128 * 2 ^ (7 * i) < 2 ^ 32 := by
        have : v % 128 * 2 ^ (7 * i) ≤ v * 2 ^ (7 * i) := Nat.mul_le_mul_right _ (Nat.mod_le _ _)
        omega
      obtain ⟨b', h1, h2, h3⟩ := ih (i + 1) (acc + v % 128 * 2 ^ (7 * i)) (v / 128) post (b.advance 1)
        (by omega) hfuel hacc' (by rw [hsum]; exact hv) hrest
      refine ⟨b', ?_, h2, by rw [h3]; simp⟩
      rw [hstep, or_shift_eq_add acc (v % 128) i hacc, Nat.mod_eq_of_lt hlt, h1, hsum]

theorem decodes_getVarint (x : Nat) (hx : x < 2 ^ 32) : Decodes getVarint (asVarint x) x := by
  intro b post hr
  obtain ⟨b', h1, h2, h3⟩ := getVarintFrom_asVarintFrom 5 0 0 x post b (by omega) (by omega) (by simp) (by simpa using hx) hr
  exact ⟨b', by simpa [getVarint] using h1, h2, h3⟩

/-! ### crash freedom and bounds -/

theorem safe_getVarintFrom (fuel : Nat) : ∀ i acc, Safe (getVarintFrom fuel i acc) := by
  induction fuel with
  | zero => intro i acc; exact Safe.pure _
  | succ fuel ih =>
    intro i acc
    unfold getVarintFrom
    refine Safe.bind safe_readU8 fun byte => ?_
    simp only
    split
    · exact Safe.fail _
    · split
      · exact Safe.pure _
      · exact ih _ _

theorem safe_getVarint : Safe getVarint := safe_getVarintFrom 5 0 0

theorem readU8_ok_inv {b b' : Buf} {v : Nat} (h : readU8 b = .ok (v, b')) :
    b'.remaining + 1 = b.remaining ∧ v < 256 := by
  unfold readU8 readUnsigned at h
  split at h
  · cases h
  · rename_i hlt
    cases h
    refine ⟨?_, ?_⟩
    · simp only [Buf.remaining, Buf.advance, List.length_drop] at hlt ⊢; omega
    · have := Endian.decode_lt .little (b.rest.take 1)
      have hl : (b.rest.take 1).length ≤ 1 := by rw [List.length_take]; exact Nat.min_le_left _ _
      calc Endian.little.decode (b.rest.take 1) < 256 ^ (b.rest.take 1).length := this
        _ ≤ 256 ^ 1 := Nat.pow_le_pow_right (by omega) hl
        _ = 256 := by omega

theorem getVarintFrom_bounds (fuel : Nat) : ∀ (i acc : Nat) (b b' : Buf) (v : Nat), acc < 2 ^ 32 →
    getVarintFrom fuel i acc b = .ok (v, b') →
    v < 2 ^ 32 ∧ b'.remaining + fuel ≥ b.remaining ∧ b'.remaining ≤ b.remaining
      ∧ (0 < fuel → b'.remaining < b.remaining) := by
  induction fuel with
  | zero =>
    intro i acc b b' v hacc h
    simp only [getVarintFrom, Par.pure_apply] at h
    cases h
    exact ⟨hacc, by omega, by omega, by omega⟩
  | succ fuel ih =>
    intro i acc b b' v hacc h
    unfold getVarintFrom at h
    rw [Par.bind_apply] at h
    cases hr : readU8 b with
    | ok x =>
      obtain ⟨byte, b1⟩ := x
      obtain ⟨hrem, _⟩ := readU8_ok_inv hr
      rw [hr] at h
      simp only at h
      have hm : (acc ||| (byte &&& 0x7f) <<< (7 * i)) % 2 ^ 32 < 2 ^ 32 := Nat.mod_lt _ (by omega)
      split at h
      · cases h
      · split at h
        · simp only [Par.pure_apply, Res.ok.injEq, Prod.mk.injEq] at h
          obtain ⟨hv, hb⟩ := h
          subst hv hb
          exact ⟨hm, by omega, by omega, by omega⟩
        · obtain ⟨h1, h2, h3, _⟩ := ih _ _ _ _ _ hm h
          exact ⟨h1, by omega, by omega, by omega⟩
    | err k => rw [hr] at h; cases h
    | crash => rw [hr] at h; cases h

theorem getVarint_bounds (b b' : Buf) (v : Nat) (h : getVarint b = .ok (v, b')) :
    v < 2 ^ 32 ∧ b'.remaining + 5 ≥ b.remaining ∧ b'.remaining < b.remaining := by
  obtain ⟨h1, h2, _, h3⟩ := getVarintFrom_bounds 5 0 0 b b' v (by omega) h
  exact ⟨h1, h2, h3 (by omega)⟩

theorem asVarintFrom_length (fuel : Nat) : ∀ v, 0 < fuel → 1 ≤ (asVarintFrom fuel v).length ∧ (asVarintFrom fuel v).length ≤ fuel := by
  induction fuel with
  | zero => intro v h; omega
  | succ fuel ih =>
    intro v _
    simp only [asVarintFrom]
    split
    · simp
    · simp only [List.length_cons]
      cases fuel with
      | zero => simp [asVarintFrom]
      | succ f =>
        have := ih (v / 128) (by omega)
        omega

theorem asVarint_length (x : Nat) (_hx : x < 2 ^ 32) : 1 ≤ (asVarint x).length ∧ (asVarint x).length ≤ 5 :=
  asVarintFrom_length 5 x (by omega)

/-- a round with the continuation bit set, not the fifth -/
theorem getVarintFrom_contByte (fuel i acc : Nat) (x : UInt8) (post : Bytes) (b : Buf)
    (hx : x.toNat &&& 0x80 ≠ 0) (hi : i ≠ 4) (hr : b.rest = x :: post) :
    ∃ acc', getVarintFrom (fuel + 1) i acc b = getVarintFrom fuel (i + 1) acc' (b.advance 1)
      ∧ (b.advance 1).rest = post := by
  obtain ⟨h1, h2⟩ := readU8_cons x post b hr
  refine ⟨(acc ||| ((x.toNat &&& 0x7f) <<< (7 * i))) % 2 ^ 32, ?_, h2⟩
  conv => lhs; unfold getVarintFrom
  rw [Par.bind_ok h1]
  simp [hi, hx]

theorem getVarint_overlong (b0 b1 b2 b3 b4 : UInt8) (post : Bytes) (b : Buf)
    (h0 : b0.toNat &&& 0x80 ≠ 0) (h1 : b1.toNat &&& 0x80 ≠ 0) (h2 : b2.toNat &&& 0x80 ≠ 0)
    (h3 : b3.toNat &&& 0x80 ≠ 0) (h4 : b4.toNat &&& 0xf0 ≠ 0)
    (hr : b.rest = b0 :: b1 :: b2 :: b3 :: b4 :: post) :
    getVarint b = .err .packetBad := by
  unfold getVarint
  obtain ⟨a1, e1, r1⟩ := getVarintFrom_contByte 4 0 0 b0 _ b h0 (by omega) hr
  obtain ⟨a2, e2, r2⟩ := getVarintFrom_contByte 3 1 a1 b1 _ _ h1 (by omega) r1
  obtain ⟨a3, e3, r3⟩ := getVarintFrom_contByte 2 2 a2 b2 _ _ h2 (by omega) r2
  obtain ⟨a4, e4, r4⟩ := getVarintFrom_contByte 1 3 a3 b3 _ _ h3 (by omega) r3
  rw [e1, e2, e3, e4]
  obtain ⟨h5, _⟩ := readU8_cons b4 post _ r4
  unfold getVarintFrom
  rw [Par.bind_ok h5]
  simp [h4]

/-! ### strings -/

theorem safe_remainingLength : Safe remainingLength := fun _ => rfl

theorem safe_getString : Safe getString := by
  unfold getString
  refine Safe.bind safe_getVarint fun n => ?_
  simp only
  split
  · exact Safe.fail _
  · refine Safe.bind safe_remainingLength fun rem => ?_
    split
    · exact Safe.fail _
    · refine Safe.bind (safe_repeatN safe_readByte _) fun text => ?_
      split
      · exact Safe.pure _
      · exact Safe.fail _


theorem decodes_repeatN_readByte (s : Bytes) : Decodes (repeatN readByte s.length) s s := by
  induction s with
  | nil => exact Decodes.pure _
  | cons x r ih =>
    simp only [List.length_cons, repeatN]
    refine Decodes.bind' (e1 := [x]) (e2 := r) (decodes_readByte x) ?_ (by simp)
    exact Decodes.bind' (e1 := r) (e2 := []) ih (Decodes.pure _) (by simp)

theorem toSigned_small (n : Nat) (h : n < 2 ^ 31) : toSigned 32 n = (n : Int) := by
  simp [toSigned, h]

theorem getString_asString (s : Bytes) (hv : validUtf8 s = true) (hl : s.length < 2 ^ 31)
    (post : Bytes) (b : Buf) (enc : Bytes) (henc : asString s = .ok enc) (hr : b.rest = enc ++ post) :
    ∃ b', getString b = .ok (s, b') ∧ b'.rest = post ∧ b'.data = b.data := by
  have he : enc = asVarint s.length ++ s := by
    unfold asString at henc
    simp only [hl, ↓reduceIte] at henc
    cases henc; rfl
  subst he
  obtain ⟨b1, h1, hr1, hd1⟩ := decodes_getVarint s.length (by omega) b (s ++ post) (by simpa [List.append_assoc] using hr)
  obtain ⟨b2, h2, hr2, hd2⟩ := decodes_repeatN_readByte s b1 post hr1
  refine ⟨b2, ?_, hr2, by rw [hd2, hd1]⟩
  unfold getString
  rw [Par.bind_ok h1]
  have hs : toSigned 32 s.length = (s.length : Int) := toSigned_small _ hl
  have hnn : ¬ ((s.length : Int) < 0) := by omega
  simp only [hs, hnn, ↓reduceIte, Int.toNat_natCast]
  have hrem : remainingLength b1 = .ok (b1.remaining, b1) := rfl
  rw [Par.bind_ok hrem]
  have hle : ¬ s.length > b1.remaining := by
    simp [Buf.remaining, hr1]
  simp only [hle, ↓reduceIte]
  rw [Par.bind_ok h2]
  simp [hv]

end Gd.Mc
