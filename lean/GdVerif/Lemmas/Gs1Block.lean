import GdVerif.Lemmas.QBounds
import GdVerif.Proto.Gs1
/-
  Blocking steps of the GameSpy 1 query that can run into their timeout, and the silent server.
  The receive loop listens for the further parts of the answer: every receive that returns was
  answered by the peer; the first receive that times out ends the attempt with the receive-class
  error (`?` on `socket.receive`), so one attempt runs into at most one timeout however many parts
  arrive.
-/
namespace Gd.Gs1
open Gd Gd.Gs

theorem block_recvLoop (s : Sock) : ∀ (fuel : Nat) (st : LoopSt), Block 0 1 (recvLoop s fuel st) := by
  intro fuel
  induction fuel with
  | zero => intro st w; exact ⟨[], by simp [recvLoop], by simp [recvLoop, nBlocked]⟩
  | succ fuel ih =>
    intro st
    unfold recvLoop
    refine Block.ite ((Block.pure _).weaken (by omega) (by omega)) ?_
    have h := Block.bind (Block.recv s (some PACKET_SIZE)) fun data =>
      Block.bind (Block.lift (processPacket st data)) fun st' => ih st'
    exact h.weaken (by omega) (by omega)

/-- one attempt: a blocking step runs into its timeout only if the attempt fails, and then once -/
theorem block_getServerValuesImpl (s : Sock) : Block 0 1 (getServerValuesImpl s) := by
  unfold getServerValuesImpl
  have h := Block.bind (Block.send s statusRequest) fun _ w => block_recvLoop s (queued s w + 1) LoopSt.init w
  exact h.weaken (by omega) (by omega)

theorem block_queryVars (port retries : Nat) : Block retries (retries + 1) (queryVars port retries) := by
  unfold queryVars
  have h := Block.bind (Block.openSock false port) fun s => Block.retrySharp (block_getServerValuesImpl s) retries
  exact h.weaken (by omega) (by omega)

theorem block_query (port retries : Nat) : Block retries (retries + 1) (query port retries) := by
  unfold query
  have h := Block.bind (block_queryVars port retries) fun vars => Block.lift (buildResponse vars)
  exact h.weaken (by omega) (by omega)

/-- one attempt against a silent server: the request is sent, the first receive of the loop times out -/
theorem silent_getServerValuesImpl (s : Sock) : SilentAttempt s 1 (getServerValuesImpl s) := by
  unfold getServerValuesImpl
  refine SilentAttempt.seq (k2 := 0) (SilentSends.send s _) fun _ w n h => ?_
  have hloop : SilentAttempt s 0 (recvLoop s (queued s w + 1) LoopSt.init) := by
    unfold recvLoop
    have hd : LoopSt.init.done = false := rfl
    simp only [hd, Bool.false_eq_true, ↓reduceIte]
    exact (SilentAttempt.recv s _).bind_left _
  exact hloop w n h

theorem silent_queryVars (port retries : Nat) (w : Net) (hf : w.faults = [])
    (hp : PendingSilent false (retries + 1) w.pending) :
    SilentOutcome w (queryVars port retries w) (retries + 1) (retries + 1) := by
  unfold queryVars
  exact SilentRun.openSock (fun s _ => (silent_getServerValuesImpl s).retry1 retries) port w hf hp

theorem silent_query (port retries : Nat) (w : Net) (hf : w.faults = [])
    (hp : PendingSilent false (retries + 1) w.pending) :
    SilentOutcome w (query port retries w) (retries + 1) (retries + 1) := by
  unfold query queryVars
  rw [Q.bind_assoc']
  exact SilentRun.openSock (fun s _ => ((silent_getServerValuesImpl s).retry1 retries).bind_left _) port w hf hp

end Gd.Gs1
