import GdVerif.Proto.Cli
/-
  Helper lemmas for C19: element names, tag nesting, escaping.
-/
open Gd Gd.Cli
theorem ofNat_toNat_small (n : Nat) (h : n < 256) : (UInt8.ofNat n).toNat = n := by
  simp [UInt8.toNat_ofNat', Nat.mod_eq_of_lt h]

/-- the bytes of a UTF-8 encoded scalar: the scalar itself when ASCII, otherwise bytes ≥ 0x80 -/
theorem utf8EncodeChar_bytes (c : Nat) (hc : c < 0x110000) :
    ∀ b ∈ utf8EncodeChar c, (c < 128 ∧ b.toNat = c) ∨ b.toNat ≥ 128 := by
  intro b hb
  unfold utf8EncodeChar at hb
  split at hb
  · rename_i h
    simp only [List.mem_singleton] at hb
    subst hb
    exact Or.inl ⟨h, ofNat_toNat_small c (by omega)⟩
  · split at hb
    · rename_i h1 h2
      simp only [List.mem_cons, List.not_mem_nil, or_false] at hb
      rcases hb with rfl | rfl <;> right <;> rw [ofNat_toNat_small _ (by omega)] <;> omega
    · split at hb
      · simp only [List.mem_cons, List.not_mem_nil, or_false] at hb
        rcases hb with rfl | rfl | rfl <;> right <;> rw [ofNat_toNat_small _ (by omega)] <;> omega
      · simp only [List.mem_cons, List.not_mem_nil, or_false] at hb
        rcases hb with rfl | rfl | rfl | rfl <;> right <;> rw [ofNat_toNat_small _ (by omega)] <;> omega

theorem hexUpper_bytes (c : Nat) (hc : c < 256) : ∀ b ∈ hexUpper c, b.toNat ≥ 35 ∧ b.toNat ≠ 60 := by
  have hd : ∀ n, n < 16 → (hexUpperDigit n).toNat ≥ 48 ∧ (hexUpperDigit n).toNat ≠ 60 := by decide
  intro b hb
  unfold hexUpper at hb
  split at hb
  · simp only [List.mem_singleton] at hb
    subst hb
    have := hd c (by assumption)
    omega
  · simp only [List.mem_cons, List.not_mem_nil, or_false] at hb
    rcases hb with rfl | rfl
    · have := hd (c / 16) (by omega); omega
    · have := hd (c % 16) (by omega); omega

/-- bytes that are all printable ASCII other than `<` and `"` are harmless in text and attribute values -/
theorem harmless_of_all (isAttr : Bool) (bs : Bytes)
    (h : bs.all (fun b => decide (b.toNat ≥ 35) && b != 60 && b != 34) = true) :
    (60 : UInt8) ∉ bs ∧ (∀ b ∈ bs, b.toNat < 32 → (isAttr = false ∧ (b.toNat = 9 ∨ b.toNat = 10)))
    ∧ (isAttr = true → (34 : UInt8) ∉ bs) := by
  have hall := List.all_eq_true.mp h
  refine ⟨fun hm => ?_, fun b hb hlt => ?_, fun _ hm => ?_⟩
  · have := hall _ hm; simp at this
  · have := hall _ hb
    simp only [Bool.and_eq_true, decide_eq_true_eq] at this
    omega
  · have := hall _ hm; simp at this

def evNameOk : XmlEv → Bool
  | .start n _ => isXmlName n
  | .end n => isXmlName n
  | .empty n _ => isXmlName n
  | .text _ => true

theorem elemOf_name_ok (k : Bytes) : isXmlName (elemOf k).1 = true := by
  unfold elemOf
  split
  · assumption
  · show isXmlName (asciiBytes "entry") = true
    decide

mutual
  theorem names_json (key : Option Bytes) : ∀ j : J, ∀ e ∈ jsonToXml key j, evNameOk e = true
    | .obj ms => by
      intro e he
      cases key with
      | some k =>
        simp only [jsonToXml, List.mem_append, List.mem_singleton, List.mem_cons, List.not_mem_nil, or_false] at he
        rcases he with (rfl | he) | rfl
        · exact elemOf_name_ok k
        · exact names_members ms e he
        · exact elemOf_name_ok k
      | none =>
        simp only [jsonToXml] at he
        exact names_members ms e he
    | .arr items => by
      intro e he
      simp only [jsonToXml] at he
      exact names_items _ items e he
    | .null => by
      intro e he
      cases key with
      | some k =>
        simp only [jsonToXml, List.mem_singleton] at he
        subst he
        exact elemOf_name_ok k
      | none => simp [jsonToXml] at he
    | .bool b => by
      intro e he
      simp only [jsonToXml] at he
      exact names_leaf key _ e he
    | .num t => by
      intro e he
      simp only [jsonToXml] at he
      exact names_leaf key _ e he
    | .str s => by
      intro e he
      simp only [jsonToXml] at he
      exact names_leaf key _ e he
  theorem names_items (key : Option Bytes) : ∀ l : JList, ∀ e ∈ itemsToXml key l, evNameOk e = true
    | .nil => by intro e he; simp [itemsToXml] at he
    | .cons h t => by
      intro e he
      simp only [itemsToXml, List.mem_append] at he
      rcases he with he | he
      · exact names_json key h e he
      · exact names_items key t e he
  theorem names_members : ∀ m : JMembers, ∀ e ∈ membersToXml m, evNameOk e = true
    | .nil => by intro e he; simp [membersToXml] at he
    | .cons k v t => by
      intro e he
      simp only [membersToXml, List.mem_append] at he
      rcases he with he | he
      · exact names_json (some k) v e he
      · exact names_members t e he
  theorem names_leaf (key : Option Bytes) (text : Bytes) : ∀ e ∈ leaf key text, evNameOk e = true := by
    intro e he
    cases key with
    | some k =>
      simp only [leaf, List.mem_cons, List.not_mem_nil, or_false] at he
      rcases he with rfl | rfl | rfl
      · exact elemOf_name_ok k
      · rfl
      · exact elemOf_name_ok k
    | none =>
      simp only [leaf, List.mem_singleton] at he
      subst he
      rfl
end

/-- tag nesting: process events with a stack of open element names -/
def nest : List XmlEv → List Bytes → Option (List Bytes)
  | [], st => some st
  | .start n _ :: r, st => nest r (n :: st)
  | .end n :: r, st =>
    match st with
    | top :: st' => if top == n then nest r st' else none
    | [] => none
  | .empty _ _ :: r, st => nest r st
  | .text _ :: r, st => nest r st

theorem nest_append_start_end (n : Bytes) (a : Option Bytes) (mid rest : List XmlEv) (st : List Bytes)
    (h : ∀ st', nest (mid ++ ([XmlEv.end n] ++ rest)) st' = nest ([XmlEv.end n] ++ rest) st') :
    nest ([XmlEv.start n a] ++ mid ++ [XmlEv.end n] ++ rest) st = nest rest st := by
  have := h (n :: st)
  simp only [List.singleton_append] at this
  rw [show [XmlEv.start n a] ++ mid ++ [XmlEv.end n] ++ rest = XmlEv.start n a :: (mid ++ XmlEv.end n :: rest) by simp]
  simp only [nest, this, beq_self_eq_true, ↓reduceIte]

mutual
  theorem nest_json (key : Option Bytes) : ∀ (j : J) (rest : List XmlEv) (st : List Bytes),
      nest (jsonToXml key j ++ rest) st = nest rest st
    | .obj ms, rest, st => by
      cases key with
      | some k =>
        simp only [jsonToXml]
        exact nest_append_start_end _ _ _ rest st (fun st' => nest_members ms _ st')
      | none => simp only [jsonToXml]; exact nest_members ms rest st
    | .arr items, rest, st => by simp only [jsonToXml]; exact nest_items _ items rest st
    | .null, rest, st => by cases key <;> simp [jsonToXml, nest]
    | .bool b, rest, st => by simp only [jsonToXml]; exact nest_leaf key _ rest st
    | .num t, rest, st => by simp only [jsonToXml]; exact nest_leaf key _ rest st
    | .str s, rest, st => by simp only [jsonToXml]; exact nest_leaf key _ rest st
  theorem nest_items (key : Option Bytes) : ∀ (l : JList) (rest : List XmlEv) (st : List Bytes),
      nest (itemsToXml key l ++ rest) st = nest rest st
    | .nil, rest, st => by simp [itemsToXml]
    | .cons h t, rest, st => by
      simp only [itemsToXml, List.append_assoc]
      rw [nest_json key h, nest_items key t]
  theorem nest_members : ∀ (m : JMembers) (rest : List XmlEv) (st : List Bytes),
      nest (membersToXml m ++ rest) st = nest rest st
    | .nil, rest, st => by simp [membersToXml]
    | .cons k v t, rest, st => by
      simp only [membersToXml, List.append_assoc]
      rw [nest_json (some k) v, nest_members t]
  theorem nest_leaf (key : Option Bytes) (text : Bytes) (rest : List XmlEv) (st : List Bytes) :
      nest (leaf key text ++ rest) st = nest rest st := by
    cases key <;> simp [leaf, nest]
end

