import GdVerif.Proto.CliPlan
import GdVerif.Lemmas.CliJson
import GdVerif.Lemmas.Cli
import GdVerif.Lemmas.Text
import GdVerif.Lemmas.Decimal
import GdVerif.Lemmas.McUtf
/-
  Lemmas for the model of the command-line tool's `main` (`Proto/CliPlan.lean`): the values it prints are JSON values
  with well-formed numbers and are objects (BSON documents), the XML document is UTF-8, inversion of `plan`.
-/
namespace Gd.CliPlan
open Gd Gd.Cli

/-! ### integers as JSON numbers -/

/-- a decimal rendering of a positive number does not start with `0` -/
theorem natDecAux_head (f : Nat) : ∀ n, 1 ≤ n → n < f → ∃ d r, natDecAux f n = d :: r ∧ d ≠ 0x30 := by
  induction f with
  | zero => intro n _ h; omega
  | succ f ih =>
    intro n h1 hf
    unfold natDecAux
    by_cases h10 : n < 10
    · simp only [h10, ↓reduceIte]
      refine ⟨_, [], rfl, ?_⟩
      have : n = 1 ∨ n = 2 ∨ n = 3 ∨ n = 4 ∨ n = 5 ∨ n = 6 ∨ n = 7 ∨ n = 8 ∨ n = 9 := by omega
      rcases this with rfl | rfl | rfl | rfl | rfl | rfl | rfl | rfl | rfl <;> decide
    · simp only [h10, ↓reduceIte]
      obtain ⟨d, r, heq, hd⟩ := ih (n / 10) (by omega) (by omega)
      exact ⟨d, r ++ [UInt8.ofNat (48 + n % 10)], by rw [heq]; rfl, hd⟩

theorem numIntRest_digits (ds : Bytes) (h : ds.all isDigit = true) : numIntRest ds = true := by
  induction ds with
  | nil => rfl
  | cons d r ih =>
    simp only [List.all_cons, Bool.and_eq_true] at h
    simp only [numIntRest, h.1, ↓reduceIte]
    exact ih h.2

theorem numUnsigned_natDec (n : Nat) : numUnsigned (natDec n) = true := by
  have hall := natDec_all_digits n
  by_cases h0 : n = 0
  · subst h0; decide
  · obtain ⟨d, r, heq, hd⟩ := natDecAux_head (n + 1) n (by omega) (by omega)
    have heq' : natDec n = d :: r := heq
    rw [heq'] at hall ⊢
    simp only [List.all_cons, Bool.and_eq_true] at hall
    simp only [numUnsigned, hd, ↓reduceIte, hall.1, Bool.true_and]
    exact numIntRest_digits r hall.2

/-- what `to_string()` gives for an integer is a JSON number -/
theorem isJsonNumber_intDec (i : Int) : isJsonNumber (intDec i) = true := by
  cases i with
  | ofNat n =>
    have h : intDec (Int.ofNat n) = natDec n := intDec_ofNat n
    rw [h]
    obtain ⟨d, r, heq, hd⟩ := natDec_head n
    have hne : d ≠ 0x2D := (isDigit_ne hd).2.1
    have := numUnsigned_natDec n
    rw [heq] at this ⊢
    simp only [isJsonNumber, hne, ↓reduceIte, this]
  | negSucc m =>
    rw [intDec_negSucc]
    simp only [isJsonNumber, ↓reduceIte]
    exact numUnsigned_natDec (m + 1)

mutual
  theorem numbersOk_valToJ : ∀ v : Views.Val, (valToJ v).numbersOk = true
    | .null => rfl
    | .bool _ => rfl
    | .num i => by simp only [valToJ, J.numbersOk]; exact isJsonNumber_intDec i
    | .str _ => rfl
    | .arr l => by simp only [valToJ, J.numbersOk]; exact numbersOk_valsToJ l
    | .obj fs => by simp only [valToJ, J.numbersOk]; exact numbersOk_fieldsToJ fs
  theorem numbersOk_valsToJ : ∀ l : List Views.Val, (valsToJ l).numbersOk = true
    | [] => rfl
    | v :: r => by simp only [valsToJ, JList.numbersOk, numbersOk_valToJ v, numbersOk_valsToJ r, Bool.and_self]
  theorem numbersOk_fieldsToJ : ∀ fs : List (String × Views.Val), (fieldsToJ fs).numbersOk = true
    | [] => rfl
    | (k, v) :: r => by simp only [fieldsToJ, JMembers.numbersOk, numbersOk_valToJ v, numbersOk_fieldsToJ r, Bool.and_self]
end

theorem numbersOk_wrapVariants (vs : List String) (j : J) (h : j.numbersOk = true) : (wrapVariants vs j).numbersOk = true := by
  induction vs with
  | nil => exact h
  | cons v r ih => simp only [wrapVariants, J.numbersOk, JMembers.numbersOk, ih, Bool.and_self]

/-- every value `output_result` serialises has well-formed numbers -/
theorem numbersOk_valueFor (mode : OutputMode) (r : Rendered) : (valueFor mode r).numbersOk = true := by
  cases mode
  · exact numbersOk_valToJ _
  · exact numbersOk_wrapVariants _ _ (numbersOk_valToJ _)

/-- … and is a struct / a newtype variant: a BSON document -/
theorem isObj_valueFor (mode : OutputMode) (r : Rendered) (h : r.variants ≠ []) : isObj (valueFor mode r) = true := by
  cases mode
  · simp [valueFor, Views.responseJson, valToJ, isObj]
  · cases hv : r.variants with
    | nil => exact absurd hv h
    | cons v vs => simp [valueFor, hv, wrapVariants, isObj]

/-! ### the XML document is UTF-8 (the `expect` after `String::from_utf8` cannot fire) -/

theorem validUtf8_two (b0 b1 : UInt8) (r : Bytes) (h0 : 0xC2 ≤ b0.toNat ∧ b0.toNat ≤ 0xDF) (h1 : 0x80 ≤ b1.toNat ∧ b1.toNat ≤ 0xBF) :
    validUtf8 (b0 :: b1 :: r) = validUtf8 r := by
  rw [validUtf8]
  have a : ¬ b0.toNat < 0x80 := by omega
  have b : inRange b0 0xC2 0xDF = true := by simp [inRange]; omega
  have c : isCont b1 = true := by simp [isCont, inRange]; omega
  simp only [a, ↓reduceIte, b, c, Bool.true_and]

theorem validUtf8_three (b0 b1 b2 : UInt8) (r : Bytes)
    (h : (b0.toNat = 0xE0 ∧ 0xA0 ≤ b1.toNat ∧ b1.toNat ≤ 0xBF) ∨
         (((0xE1 ≤ b0.toNat ∧ b0.toNat ≤ 0xEC) ∨ (0xEE ≤ b0.toNat ∧ b0.toNat ≤ 0xEF)) ∧ 0x80 ≤ b1.toNat ∧ b1.toNat ≤ 0xBF) ∨
         (b0.toNat = 0xED ∧ 0x80 ≤ b1.toNat ∧ b1.toNat ≤ 0x9F))
    (h2 : 0x80 ≤ b2.toNat ∧ b2.toNat ≤ 0xBF) :
    validUtf8 (b0 :: b1 :: b2 :: r) = validUtf8 r := by
  rw [validUtf8]
  have c2 : isCont b2 = true := by simp [isCont, inRange]; omega
  have a : ¬ b0.toNat < 0x80 := by omega
  have b : inRange b0 0xC2 0xDF = false := by simp [inRange]; omega
  simp only [a, ↓reduceIte, b, Bool.false_eq_true]
  rcases h with ⟨e, l, u⟩ | ⟨e, l, u⟩ | ⟨e, l, u⟩
  · have : (b0.toNat == 0xE0) = true := by simp [e]
    have d : inRange b1 0xA0 0xBF = true := by simp [inRange]; omega
    simp only [this, ↓reduceIte, d, c2, Bool.true_and]
  · have : (b0.toNat == 0xE0) = false := by simp; omega
    have d : (inRange b0 0xE1 0xEC || inRange b0 0xEE 0xEF) = true := by simp [inRange]; omega
    have c1 : isCont b1 = true := by simp [isCont, inRange]; omega
    simp only [this, Bool.false_eq_true, ↓reduceIte, d, c1, c2, Bool.true_and]
  · have : (b0.toNat == 0xE0) = false := by simp; omega
    have d : (inRange b0 0xE1 0xEC || inRange b0 0xEE 0xEF) = false := by simp [inRange]; omega
    have e' : (b0.toNat == 0xED) = true := by simp [e]
    have c1 : inRange b1 0x80 0x9F = true := by simp [inRange]; omega
    simp only [this, Bool.false_eq_true, ↓reduceIte, d, e', c1, c2, Bool.true_and]

theorem validUtf8_four (b0 b1 b2 b3 : UInt8) (r : Bytes)
    (h : (b0.toNat = 0xF0 ∧ 0x90 ≤ b1.toNat ∧ b1.toNat ≤ 0xBF) ∨
         ((0xF1 ≤ b0.toNat ∧ b0.toNat ≤ 0xF3) ∧ 0x80 ≤ b1.toNat ∧ b1.toNat ≤ 0xBF) ∨
         (b0.toNat = 0xF4 ∧ 0x80 ≤ b1.toNat ∧ b1.toNat ≤ 0x8F))
    (h2 : 0x80 ≤ b2.toNat ∧ b2.toNat ≤ 0xBF) (h3 : 0x80 ≤ b3.toNat ∧ b3.toNat ≤ 0xBF) :
    validUtf8 (b0 :: b1 :: b2 :: b3 :: r) = validUtf8 r := by
  rw [validUtf8]
  have c2 : isCont b2 = true := by simp [isCont, inRange]; omega
  have c3 : isCont b3 = true := by simp [isCont, inRange]; omega
  have a : ¬ b0.toNat < 0x80 := by omega
  have b : inRange b0 0xC2 0xDF = false := by simp [inRange]; omega
  have n0 : (b0.toNat == 0xE0) = false := by simp; omega
  have n1 : (inRange b0 0xE1 0xEC || inRange b0 0xEE 0xEF) = false := by simp [inRange]; omega
  have n2 : (b0.toNat == 0xED) = false := by simp; omega
  simp only [a, ↓reduceIte, b, Bool.false_eq_true, n0, n1, n2]
  rcases h with ⟨e, l, u⟩ | ⟨e, l, u⟩ | ⟨e, l, u⟩
  · have : (b0.toNat == 0xF0) = true := by simp [e]
    have d : inRange b1 0x90 0xBF = true := by simp [inRange]; omega
    simp only [this, ↓reduceIte, d, c2, c3, Bool.true_and]
  · have : (b0.toNat == 0xF0) = false := by simp; omega
    have d : inRange b0 0xF1 0xF3 = true := by simp [inRange]; omega
    have c1 : isCont b1 = true := by simp [isCont, inRange]; omega
    simp only [this, Bool.false_eq_true, ↓reduceIte, d, c1, c2, c3, Bool.true_and]
  · have : (b0.toNat == 0xF0) = false := by simp; omega
    have d : inRange b0 0xF1 0xF3 = false := by simp [inRange]; omega
    have e' : (b0.toNat == 0xF4) = true := by simp [e]
    have c1 : inRange b1 0x80 0x8F = true := by simp [inRange]; omega
    simp only [this, Bool.false_eq_true, ↓reduceIte, d, e', c1, c2, c3, Bool.true_and]

theorem validUtf8_encodeChar (c : Nat) (h : isScalar c = true) : validUtf8 (utf8EncodeChar c) = true := by
  have hc := (isScalar_iff c).mp h
  unfold utf8EncodeChar
  by_cases h1 : c < 0x80
  · simp only [h1, ↓reduceIte]
    apply validUtf8_ascii
    intro b hb
    simp only [List.mem_singleton] at hb
    subst hb
    rw [toNat_ofNat_lt c (by omega)]; exact h1
  · simp only [h1, ↓reduceIte]
    by_cases h2 : c < 0x800
    · simp only [h2, ↓reduceIte]
      rw [validUtf8_two]
      · rfl
      · rw [toNat_ofNat_lt _ (by omega)]; omega
      · rw [toNat_ofNat_lt _ (by omega)]; omega
    · simp only [h2, ↓reduceIte]
      by_cases h3 : c < 0x10000
      · simp only [h3, ↓reduceIte]
        rw [validUtf8_three]
        · rfl
        · rw [toNat_ofNat_lt (0xE0 + c / 4096) (by omega), toNat_ofNat_lt (0x80 + c / 64 % 64) (by omega)]; omega
        · rw [toNat_ofNat_lt _ (by omega)]; omega
      · simp only [h3, ↓reduceIte]
        rw [validUtf8_four]
        · rfl
        · rw [toNat_ofNat_lt (0xF0 + c / 262144) (by omega), toNat_ofNat_lt (0x80 + c / 4096 % 64) (by omega)]; omega
        · rw [toNat_ofNat_lt _ (by omega)]; omega
        · rw [toNat_ofNat_lt _ (by omega)]; omega

theorem validUtf8_encode (cs : List Nat) (h : Scalars cs) : validUtf8 (utf8Encode cs) = true := by
  induction cs with
  | nil => rfl
  | cons c r ih =>
    rw [utf8Encode_cons]
    exact validUtf8_append _ _ (validUtf8_encodeChar c (h.cons).1) (ih (h.cons).2)

/-- the contents of a Rust `String`: the UTF-8 encoding of a sequence of Unicode scalar values -/
def IsText (s : Bytes) : Prop := ∃ cs, Scalars cs ∧ s = utf8Encode cs

theorem IsText.valid {s : Bytes} (h : IsText s) : validUtf8 s = true := by
  obtain ⟨cs, hcs, rfl⟩ := h
  exact validUtf8_encode cs hcs

theorem IsText.ascii (s : Bytes) (h : ∀ b ∈ s, b.toNat < 0x80) : IsText s :=
  ⟨s.map (·.toNat), scalars_ascii s h, (utf8Encode_ascii s h).symm⟩

/-- ASCII literals are UTF-8 (checked byte by byte: `decide` on `validUtf8` itself is exponential in the length) -/
theorem validUtf8_lit (l : Bytes) (h : l.all (fun b => decide (b.toNat < 0x80)) = true) : validUtf8 l = true :=
  validUtf8_ascii l fun b hb => by simpa using List.all_eq_true.mp h b hb

theorem hexUpperDigit_ascii : ∀ n, n < 16 → (hexUpperDigit n).toNat < 0x80 := by decide

theorem validUtf8_escapeScalar (isAttr : Bool) (c : Nat) (hc : isScalar c = true) : validUtf8 (escapeScalar isAttr c) = true := by
  unfold escapeScalar
  split; · exact validUtf8_lit _ (by decide)
  split; · exact validUtf8_lit _ (by decide)
  split; · exact validUtf8_lit _ (by decide)
  split; · exact validUtf8_lit _ (by decide)
  split; · exact validUtf8_lit _ (by decide)
  split; · exact validUtf8_encodeChar 0xFFFD (by decide)
  split; · exact validUtf8_encodeChar c hc
  split
  · rename_i hctl
    have hc256 : c < 256 := by
      simp only [isControl, Bool.or_eq_true, Bool.and_eq_true, decide_eq_true_eq] at hctl
      omega
    apply validUtf8_ascii
    intro b hb
    simp only [List.mem_append] at hb
    rcases hb with (hb | hb) | hb
    · revert b; decide
    · unfold hexUpper at hb
      split at hb
      · simp only [List.mem_singleton] at hb
        subst hb
        exact hexUpperDigit_ascii _ (by assumption)
      · simp only [List.mem_cons, List.not_mem_nil, or_false] at hb
        rcases hb with rfl | rfl
        · exact hexUpperDigit_ascii _ (by omega)
        · exact hexUpperDigit_ascii _ (by omega)
    · revert b; decide
  · exact validUtf8_encodeChar c hc

theorem validUtf8_xmlEscape (isAttr : Bool) (s : Bytes) (h : IsText s) : validUtf8 (xmlEscape isAttr s) = true := by
  obtain ⟨cs, hcs, rfl⟩ := h
  unfold xmlEscape
  rw [utf8Decode_encode cs hcs]
  induction cs with
  | nil => rfl
  | cons c r ih =>
    simp only [List.flatMap_cons]
    exact validUtf8_append _ _ (validUtf8_escapeScalar isAttr c (hcs.cons).1) (ih (hcs.cons).2)

mutual
  /-- every string, member name and number text of the value is text (what `serde_json::to_value` builds from Rust data) -/
  def TextOk : J → Prop
    | .num t => IsText t
    | .str s => IsText s
    | .arr l => TextOkL l
    | .obj m => TextOkM m
    | .null => True
    | .bool _ => True
  def TextOkL : JList → Prop
    | .nil => True
    | .cons h t => TextOk h ∧ TextOkL t
  def TextOkM : JMembers → Prop
    | .nil => True
    | .cons k v t => IsText k ∧ TextOk v ∧ TextOkM t
end

def evUtf8 (e : XmlEv) : Prop := validUtf8 (renderEv e) = true

theorem validUtf8_byte (b : UInt8) (h : b.toNat < 0x80) : validUtf8 [b] = true :=
  validUtf8_ascii [b] (by intro x hx; simp only [List.mem_singleton] at hx; subst hx; exact h)

theorem elemOf_valid (k : Bytes) (hk : IsText k) :
    validUtf8 (elemOf k).1 = true ∧ ∀ a, (elemOf k).2 = some a → validUtf8 a = true := by
  unfold elemOf
  split
  · exact ⟨hk.valid, fun a ha => by cases ha⟩
  · refine ⟨validUtf8_lit (asciiBytes "entry") (by decide), fun a ha => ?_⟩
    simp only [Option.some.injEq] at ha
    subst ha
    exact validUtf8_xmlEscape true k hk

theorem evUtf8_start (n : Bytes) (a : Option Bytes) (hn : validUtf8 n = true) (ha : ∀ x, a = some x → validUtf8 x = true) :
    evUtf8 (.start n a) ∧ evUtf8 (.empty n a) := by
  cases a with
  | none =>
    constructor
    · exact validUtf8_append _ _ (validUtf8_append _ _ (validUtf8_lit _ (by decide)) hn) (validUtf8_lit _ (by decide))
    · exact validUtf8_append _ _ (validUtf8_append _ _ (validUtf8_lit _ (by decide)) hn) (validUtf8_lit _ (by decide))
  | some x =>
    have hx := ha x rfl
    constructor
    · exact validUtf8_append _ _ (validUtf8_append _ _ (validUtf8_append _ _ (validUtf8_append _ _ (validUtf8_append _ _ (validUtf8_lit _ (by decide)) hn) (validUtf8_lit _ (by decide))) hx) (validUtf8_lit _ (by decide))) (validUtf8_lit _ (by decide))
    · exact validUtf8_append _ _ (validUtf8_append _ _ (validUtf8_append _ _ (validUtf8_append _ _ (validUtf8_append _ _ (validUtf8_lit _ (by decide)) hn) (validUtf8_lit _ (by decide))) hx) (validUtf8_lit _ (by decide))) (validUtf8_lit _ (by decide))

theorem evUtf8_end (n : Bytes) (hn : validUtf8 n = true) : evUtf8 (.end n) :=
  validUtf8_append _ _ (validUtf8_append _ _ (validUtf8_lit _ (by decide)) hn) (validUtf8_lit _ (by decide))

theorem utf8_leaf (key : Option Bytes) (text : Bytes) (hk : ∀ k, key = some k → IsText k) (ht : IsText text) :
    ∀ e ∈ leaf key text, evUtf8 e := by
  intro e he
  cases key with
  | some k =>
    obtain ⟨hn, ha⟩ := elemOf_valid k (hk k rfl)
    simp only [leaf, List.mem_cons, List.not_mem_nil, or_false] at he
    rcases he with rfl | rfl | rfl
    · exact (evUtf8_start _ _ hn ha).1
    · exact validUtf8_xmlEscape false text ht
    · exact evUtf8_end _ hn
  | none =>
    simp only [leaf, List.mem_singleton] at he
    subst he
    exact validUtf8_xmlEscape false text ht

mutual
  theorem utf8_json (key : Option Bytes) (hk : ∀ k, key = some k → IsText k) : ∀ j : J, TextOk j → ∀ e ∈ jsonToXml key j, evUtf8 e
    | .obj ms, hj => by
      intro e he
      simp only [TextOk] at hj
      cases key with
      | some k =>
        obtain ⟨hn, ha⟩ := elemOf_valid k (hk k rfl)
        simp only [jsonToXml, List.mem_append, List.mem_cons, List.not_mem_nil, or_false] at he
        rcases he with (rfl | he) | rfl
        · exact (evUtf8_start _ _ hn ha).1
        · exact utf8_members ms hj e he
        · exact evUtf8_end _ hn
      | none =>
        simp only [jsonToXml] at he
        exact utf8_members ms hj e he
    | .arr items, hj => by
      intro e he
      simp only [TextOk] at hj
      simp only [jsonToXml] at he
      refine utf8_items _ ?_ items hj e he
      intro k hk'
      cases key with
      | some k0 => simp only [Option.getD_some, Option.some.injEq] at hk'; subst hk'; exact hk k0 rfl
      | none =>
        simp only [Option.getD_none, Option.some.injEq] at hk'
        subst hk'
        exact IsText.ascii _ (by decide)
    | .null, _ => by
      intro e he
      cases key with
      | some k =>
        obtain ⟨hn, ha⟩ := elemOf_valid k (hk k rfl)
        simp only [jsonToXml, List.mem_singleton] at he
        subst he
        exact (evUtf8_start _ _ hn ha).2
      | none => simp [jsonToXml] at he
    | .bool b, _ => by
      intro e he
      simp only [jsonToXml] at he
      refine utf8_leaf key _ hk ?_ e he
      cases b
      · exact IsText.ascii _ (by decide)
      · exact IsText.ascii _ (by decide)
    | .num t, hj => by
      intro e he
      simp only [TextOk] at hj
      simp only [jsonToXml] at he
      exact utf8_leaf key _ hk hj e he
    | .str s, hj => by
      intro e he
      simp only [TextOk] at hj
      simp only [jsonToXml] at he
      exact utf8_leaf key _ hk hj e he
  theorem utf8_items (key : Option Bytes) (hk : ∀ k, key = some k → IsText k) : ∀ l : JList, TextOkL l → ∀ e ∈ itemsToXml key l, evUtf8 e
    | .nil, _ => by intro e he; simp [itemsToXml] at he
    | .cons h t, hl => by
      intro e he
      simp only [TextOkL] at hl
      simp only [itemsToXml, List.mem_append] at he
      rcases he with he | he
      · exact utf8_json key hk h hl.1 e he
      · exact utf8_items key hk t hl.2 e he
  theorem utf8_members : ∀ m : JMembers, TextOkM m → ∀ e ∈ membersToXml m, evUtf8 e
    | .nil, _ => by intro e he; simp [membersToXml] at he
    | .cons k v t, hm => by
      intro e he
      simp only [TextOkM] at hm
      simp only [membersToXml, List.mem_append] at he
      rcases he with he | he
      · exact utf8_json (some k) (by intro k' hk'; cases hk'; exact hm.1) v hm.2.1 e he
      · exact utf8_members t hm.2.2 e he
end

theorem validUtf8_flatMap_render (evs : List XmlEv) (h : ∀ e ∈ evs, evUtf8 e) : validUtf8 (evs.flatMap renderEv) = true := by
  induction evs with
  | nil => rfl
  | cons e r ih =>
    simp only [List.flatMap_cons]
    exact validUtf8_append _ _ (h e (by simp)) (ih fun x hx => h x (by simp [hx]))

/-- the document `output_result_xml` builds is UTF-8 whenever the value's strings are text -/
theorem validUtf8_renderDocument (j : J) (hj : TextOk j) : validUtf8 (renderDocument j) = true := by
  unfold renderDocument
  refine validUtf8_append _ _ (validUtf8_lit _ (by decide)) (validUtf8_flatMap_render _ ?_)
  intro e he
  simp only [documentEvents, List.mem_append, List.mem_cons, List.not_mem_nil, or_false] at he
  rcases he with (rfl | he) | rfl
  · exact (evUtf8_start _ _ (validUtf8_lit _ (by decide)) (fun x hx => by cases hx)).1
  · exact utf8_json none (fun k hk => by cases hk) j hj e he
  · exact evUtf8_end _ (validUtf8_lit _ (by decide))

end Gd.CliPlan

namespace Gd.CliPlan
open Gd Gd.Cli

/-! ### `main`, step by step -/

@[simp] theorem Step.bind_ok (a : α) (f : α → Step β) : (Step.ok a >>= f) = f a := rfl
@[simp] theorem Step.bind_usage (f : α → Step β) : ((Step.usage : Step α) >>= f) = .usage := rfl
@[simp] theorem Step.bind_fail (e : CliError) (f : α → Step β) : ((Step.fail e : Step α) >>= f) = .fail e := rfl
@[simp] theorem Step.bind_panic (f : α → Step β) : ((Step.panic : Step α) >>= f) = .panic := rfl
@[simp] theorem Step.bind_unmodelled (f : α → Step β) : ((Step.unmodelled : Step α) >>= f) = .unmodelled := rfl
@[simp] theorem Step.pure_eq (a : α) : (pure a : Step α) = .ok a := rfl

/-- `plan` spelled out: the four ways it can end -/
theorem plan_eq (resolve : Bytes → Option Http.IpAddr) (fl : Flags) :
    plan resolve fl =
      match clap fl with
      | none => .usage
      | some args =>
        match lookupGame args.game with
        | none => .fail (.unknownGame args.game)
        | some row =>
          match parseIpAddr args.ip with
          | some ip => .ok ⟨row, false, ip, args.port, args.timeoutSettings, args.extraOptions, args.outputMode, args.format⟩
          | none =>
            match resolve args.ip with
            | none => .fail (.invalidHostname args.ip)
            | some ip =>
              .ok ⟨row, true, ip, args.port, args.timeoutSettings, setHostnameIfMissing args.ip args.extraOptions,
                args.outputMode, args.format⟩ := by
  unfold plan
  cases hc : clap fl with
  | none => rfl
  | some args =>
    simp only [findGame, orFail, resolveIpOrDomain]
    cases hg : lookupGame args.game with
    | none => rfl
    | some row =>
      cases hp : parseIpAddr args.ip with
      | some ip => simp
      | none =>
        cases hr : resolve args.ip with
        | none => simp
        | some ip => simp

/-- a row found by `lookupGame` is a row of the table -/
theorem lookupGame_mem {id : Bytes} {row : Gen.GameRow} (h : lookupGame id = some row) : row ∈ Gen.gameDefs :=
  List.mem_of_find?_eq_some h

theorem setHostnameIfMissing_spec (host : Bytes) (extra : Option Dispatch.Extra) :
    ∃ e, setHostnameIfMissing host extra = some e
      ∧ e.hostname = some ((extra.bind (·.hostname)).getD host)
      ∧ e.protocolVersion = extra.bind (·.protocolVersion)
      ∧ e.gatherPlayers = extra.bind (·.gatherPlayers)
      ∧ e.gatherRules = extra.bind (·.gatherRules)
      ∧ e.checkAppId = extra.bind (·.checkAppId) := by
  cases extra with
  | none => exact ⟨_, rfl, rfl, rfl, rfl, rfl, rfl⟩
  | some e =>
    cases hh : e.hostname with
    | none =>
      refine ⟨{ e with hostname := some host }, by simp [setHostnameIfMissing, hh], ?_, rfl, rfl, rfl, rfl⟩
      simp [hh]
    | some h => exact ⟨e, by simp [setHostnameIfMissing, hh], by simp [hh], rfl, rfl, rfl, rfl⟩

/-- `main` spelled out after the plan -/
theorem main_eq (env : Env) (fl : Flags) (w : Net) :
    main env fl w =
      match plan env.resolve fl with
      | .ok p =>
        match Dispatch.Game.ofRow p.row with
        | none => .unmodelled
        | some game =>
          match (Dispatch.generic env.dispatch game p.port p.timeoutSettings p.extraOptions w).1 with
          | .ok response => document env.ser p.format (valueFor p.outputMode (env.render response))
          | .err kind => .fail (.gamedig kind)
          | .crash => .panic
      | .usage => .usage
      | .fail e => .fail e
      | .panic => .panic
      | .unmodelled => .unmodelled := by
  unfold main
  cases hp : plan env.resolve fl with
  | ok p =>
    simp only [Step.bind_ok, query]
    cases hg : Dispatch.Game.ofRow p.row with
    | none => rfl
    | some game =>
      simp only [Step.bind_ok]
      cases hq : Dispatch.generic env.dispatch game p.port p.timeoutSettings p.extraOptions w with
      | mk result w' => cases result <;> rfl
  | usage => rfl
  | fail e => rfl
  | panic => rfl
  | unmodelled => rfl

/-- `plan` never panics and never leaves the model -/
theorem plan_ne_panic (resolve : Bytes → Option Http.IpAddr) (fl : Flags) :
    plan resolve fl ≠ .panic ∧ plan resolve fl ≠ .unmodelled := by
  rw [plan_eq]
  constructor <;> (repeat' split) <;> simp

theorem bsonDocument_cases (ser : Ser) (v : J) :
    (ser.toBsonOk v = false ∧ bsonDocument ser v = .fail .bson)
    ∨ (ser.toBsonOk v = true ∧ isObj v = false ∧ bsonDocument ser v = .panic)
    ∨ (ser.toBsonOk v = true ∧ isObj v = true ∧ ser.bsonBytes v = none ∧ bsonDocument ser v = .fail .bson)
    ∨ (∃ b, ser.toBsonOk v = true ∧ isObj v = true ∧ ser.bsonBytes v = some b ∧ bsonDocument ser v = .ok b) := by
  unfold bsonDocument
  cases h1 : ser.toBsonOk v
  · exact Or.inl ⟨rfl, by simp⟩
  · cases h2 : isObj v
    · exact Or.inr (Or.inl ⟨rfl, rfl, by simp⟩)
    · cases h3 : ser.bsonBytes v with
      | none => exact Or.inr (Or.inr (Or.inl ⟨rfl, rfl, rfl, by simp [orFail]⟩))
      | some b => exact Or.inr (Or.inr (Or.inr ⟨b, rfl, rfl, rfl, by simp [orFail]⟩))

/-- what an accepted command line consists of -/
theorem clap_some (fl : Flags) (args : Args) (h : clap fl = some args) :
    fl.game.bind clapString = some args.game ∧ fl.ip.bind clapString = some args.ip ∧ clapOpt clapU16 fl.port = some args.port
    ∧ clapTimeout fl = some args.timeoutSettings ∧ clapExtra fl = some args.extraOptions := by
  unfold clap at h
  simp only [Option.bind_eq_bind, Option.bind_eq_some_iff, Option.pure_def, Option.some.injEq] at h
  obtain ⟨game, hg, ip, hi, port, hp, format, hf, mode, hm, timeout, ht, extra, he, rfl⟩ := h
  simp only [Option.bind_eq_some_iff]
  exact ⟨hg, hi, hp, ht, he⟩

/-- a flag group that is refused makes the whole command line refused -/
theorem clap_none_of_timeout (fl : Flags) (h : clapTimeout fl = none) : clap fl = none := by
  cases hc : clap fl with
  | none => rfl
  | some args => have := (clap_some fl args hc).2.2.2.1; rw [h] at this; cases this

end Gd.CliPlan
