import GdVerif.Lemmas.QLogic
import GdVerif.Lemmas.Reader
import GdVerif.Proto.Gs3
/-
  Crash-freedom of the GameSpy 3 model: every parser (`Safe`), every pure step (`≠ .crash`), every
  query computation (`QSafe`), and with it the wire conformance of the whole query.

  `Safe2` strengthens `Safe` with "the cursor does not move backwards"; loops whose fuel is
  `remaining + 1` need it for what runs before them.
-/
namespace Gd

/-! ### `Safe2`: no crash, same packet, the cursor does not move backwards -/

def Post2 (b : Buf) : Res (α × Buf) → Prop
  | .crash => False
  | .err _ => True
  | .ok (_, b') => b'.data = b.data ∧ b'.remaining ≤ b.remaining

def Safe2 (p : Par α) : Prop := ∀ b, Post2 b (p b)

theorem Safe2.safe {p : Par α} (h : Safe2 p) : Safe p := by
  intro b
  have := h b
  cases hp : p b with
  | ok x => obtain ⟨a, b'⟩ := x; rw [hp] at this; exact this.1
  | err k => trivial
  | crash => rw [hp] at this; exact this

theorem Safe2.pure (a : α) : Safe2 (pure a : Par α) := fun _ => ⟨rfl, Nat.le_refl _⟩
theorem Safe2.fail (k : ErrKind) : Safe2 (Par.fail k : Par α) := fun _ => trivial

theorem Post2.bind {p : Par α} {f : α → Par β} {b : Buf} (hp : Post2 b (p b))
    (hf : ∀ a b1, p b = .ok (a, b1) → Post2 b1 (f a b1)) : Post2 b ((p >>= f) b) := by
  rw [Par.bind_apply]
  cases h : p b with
  | ok ab =>
    obtain ⟨a, b1⟩ := ab
    have h1 := hf a b1 h
    rw [h] at hp
    obtain ⟨hd, hr⟩ := hp
    show Post2 b (f a b1)
    cases h2 : f a b1 with
    | ok cb =>
      obtain ⟨c, b2⟩ := cb
      rw [h2] at h1
      exact ⟨by rw [h1.1, hd], Nat.le_trans h1.2 hr⟩
    | err k => trivial
    | crash => rw [h2] at h1; exact h1
  | err k => trivial
  | crash => rw [h] at hp; exact hp

theorem Safe2.bind {p : Par α} {f : α → Par β} (hp : Safe2 p) (hf : ∀ a, Safe2 (f a)) : Safe2 (p >>= f) :=
  fun b => Post2.bind (hp b) (fun a b1 _ => hf a b1)

theorem Safe2.lift_ne (r : Res α) (h : r ≠ .crash) : Safe2 (Par.lift r) := by
  intro b
  cases r with
  | ok a => exact ⟨rfl, Nat.le_refl _⟩
  | err k => trivial
  | crash => exact absurd rfl h

theorem Safe2.ite {c : Prop} [Decidable c] {p q : Par α} (hp : Safe2 p) (hq : Safe2 q) :
    Safe2 (if c then p else q) := by
  split <;> assumption

theorem safe2_remainingBytes : Safe2 remainingBytes := fun _ => ⟨rfl, Nat.le_refl _⟩
theorem safe2_remainingLength : Safe2 remainingLength := fun _ => ⟨rfl, Nat.le_refl _⟩

theorem Buf.remaining_advance (b : Buf) (n : Nat) : (b.advance n).remaining = b.remaining - n := by
  simp [Buf.remaining, Buf.advance]

theorem safe2_readUnsigned (e : Endian) (w : Nat) : Safe2 (readUnsigned e w) := by
  intro b
  unfold readUnsigned
  split
  · trivial
  · exact ⟨by simp, by rw [Buf.remaining_advance]; omega⟩

theorem safe2_readU8 : Safe2 readU8 := safe2_readUnsigned _ _

theorem safe2_readCStr : Safe2 readCStr := by
  intro b
  unfold readCStr readStringWith utf8Dec
  simp only
  split
  · rename_i s n h
    split at h
    · cases h
    · cases h
      exact ⟨by simp, by rw [Buf.remaining_advance]; omega⟩
  · trivial
  · rename_i h
    split at h <;> cases h

/-- forward moves only -/
theorem safe2_moveCursor_nat (n : Nat) : Safe2 (moveCursor (n : Int)) := by
  intro b
  unfold moveCursor
  simp only
  split
  · trivial
  · have : (n : Int) ≥ 0 := by omega
    simp only [this, ↓reduceIte]
    exact ⟨by simp, by rw [Buf.remaining_advance]; omega⟩

/-- a successful string read consumes at least one byte when there is one -/
theorem readCStr_progress {b b' : Buf} {s : Bytes} (hb : b.remaining ≠ 0) (h : readCStr b = .ok (s, b')) :
    b'.remaining < b.remaining := by
  unfold readCStr readStringWith utf8Dec at h
  simp only at h
  split at h
  · rename_i s' n hd
    split at hd
    · cases hd
    · cases hd
      cases h
      rw [Buf.remaining_advance]
      have : b.rest.length ≠ 0 := hb
      simp only [Buf.remaining]
      omega
  · cases h
  · cases h

theorem readUnsigned_progress {e : Endian} {w : Nat} (hw : 0 < w) {b b' : Buf} {n : Nat}
    (h : readUnsigned e w b = .ok (n, b')) : b'.remaining < b.remaining :=
  progress_readUnsigned e w hw b n b' h

/-- `remaining_length()` followed by something that uses it -/
theorem safe2_withRem {f : Nat → Par α} (h : ∀ b, Post2 b (f b.remaining b)) : Safe2 (remainingLength >>= f) :=
  fun b => h b

end Gd

namespace Gd.Gs3
open Gd

/-! ### loops with `break` -/

theorem safe2_loopBrk (body : σ → Par (σ × Bool)) (hs : ∀ st, Safe2 (body st))
    (hp : ∀ st b r b', b.remaining ≠ 0 → body st b = .ok (r, b') → b'.remaining < b.remaining) :
    ∀ fuel st b, b.remaining < fuel → Post2 b (loopBrk body fuel st b) := by
  intro fuel
  induction fuel with
  | zero => intro st b h; omega
  | succ n ih =>
    intro st b h
    simp only [loopBrk]
    split
    · exact ⟨rfl, Nat.le_refl _⟩
    · rename_i hne
      have hne' : b.remaining ≠ 0 := by simpa using hne
      have h1 := hs st b
      split
      · rename_i st' b' hb
        rw [hb] at h1
        have h2 := hp st b _ b' hne' hb
        have h3 := ih st' b' (by omega)
        cases hw : loopBrk body n st' b' with
        | ok x =>
          obtain ⟨y, b2⟩ := x
          rw [hw] at h3
          exact ⟨by rw [h3.1, h1.1], by have := h3.2; omega⟩
        | err k => trivial
        | crash => rw [hw] at h3; exact h3
      · rename_i st' b' hb
        rw [hb] at h1
        exact h1
      · trivial
      · rename_i hb
        rw [hb] at h1
        exact h1

/-! ### `data_to_map` -/

theorem safe2_kvStep (m : Vars) : Safe2 (kvStep m) := by
  unfold kvStep
  refine Safe2.bind safe2_readCStr fun key => ?_
  split
  · exact Safe2.pure _
  · exact Safe2.bind safe2_readCStr fun _ => Safe2.pure _

theorem kvStep_progress (m : Vars) (b : Buf) (r : Vars × Bool) (b' : Buf) (hb : b.remaining ≠ 0)
    (h : kvStep m b = .ok (r, b')) : b'.remaining < b.remaining := by
  unfold kvStep at h
  rw [Par.bind_apply] at h
  cases h1 : readCStr b with
  | ok x =>
    obtain ⟨key, b1⟩ := x
    rw [h1] at h
    have hp := readCStr_progress hb h1
    simp only at h
    split at h
    · cases h; exact hp
    · have h2 := (Safe2.bind safe2_readCStr fun (v : Bytes) => Safe2.pure (Valve.mapInsert m key v, true)) b1
      rw [h] at h2
      have := h2.2
      omega
  | err k => rw [h1] at h; cases h
  | crash => rw [h1] at h; cases h

theorem safe2_dataToMapPar : Safe2 dataToMapPar := by
  unfold dataToMapPar
  refine safe2_withRem fun b => ?_
  refine Post2.bind (safe2_loopBrk kvStep safe2_kvStep kvStep_progress _ _ b (by omega)) fun _ _ _ => ?_
  exact (Safe2.bind safe2_remainingBytes fun _ => Safe2.pure _) _

theorem run_ne_crash {p : Par α} (h : Safe p) (data : Bytes) : p.run data ≠ .crash := by
  have := h (Buf.new data)
  unfold Par.run
  cases hp : p (Buf.new data) with
  | ok x => simp
  | err k => simp
  | crash => rw [hp] at this; exact this.elim

theorem dataToMap_ne (packet : Bytes) : dataToMap packet ≠ .crash :=
  run_ne_crash safe2_dataToMapPar.safe packet

/-! ### the field sections -/

theorem putItem_ne (data : List Vars) (offset : Nat) (name item : Bytes) : putItem data offset name item ≠ .crash := by
  unfold putItem
  simp only
  split <;> simp

theorem safe2_itemStep (name : Bytes) (st : List Vars × Nat) : Safe2 (itemStep name st) := by
  unfold itemStep
  refine Safe2.bind safe2_readCStr fun item => ?_
  split
  · exact Safe2.pure _
  · exact Safe2.bind (Safe2.lift_ne _ (putItem_ne _ _ _ _)) fun _ => Safe2.pure _

theorem itemStep_progress (name : Bytes) (st : List Vars × Nat) (b : Buf) (r : (List Vars × Nat) × Bool) (b' : Buf)
    (hb : b.remaining ≠ 0) (h : itemStep name st b = .ok (r, b')) : b'.remaining < b.remaining := by
  unfold itemStep at h
  rw [Par.bind_apply] at h
  cases h1 : readCStr b with
  | ok x =>
    obtain ⟨item, b1⟩ := x
    rw [h1] at h
    have hp := readCStr_progress hb h1
    simp only at h
    split at h
    · cases h; exact hp
    · have h2 := (Safe2.bind (Safe2.lift_ne _ (putItem_ne st.1 st.2 name item)) fun (d : List Vars) =>
        Safe2.pure ((d, st.2 + 1), true)) b1
      rw [h] at h2
      have := h2.2
      omega
  | err k => rw [h1] at h; cases h
  | crash => rw [h1] at h; cases h

theorem safe2_readItems (name : Bytes) (data : List Vars) (offset : Nat) : Safe2 (readItems name data offset) := by
  unfold readItems
  refine safe2_withRem fun b => ?_
  refine Post2.bind (safe2_loopBrk (itemStep name) (safe2_itemStep name) (itemStep_progress name) _ _ b (by omega))
    fun _ _ _ => ?_
  exact Safe2.pure _ _

theorem fieldIsTeam_ne (pieces : List Bytes) : fieldIsTeam pieces ≠ .crash := by
  unfold fieldIsTeam
  split
  · simp
  · split
    · simp
    · split <;> simp

theorem safe2_readField (t : Tables) (pieces : List Bytes) (name : Bytes) : Safe2 (readField t pieces name) := by
  unfold readField
  refine Safe2.bind (Safe2.lift_ne _ (fieldIsTeam_ne _)) fun isTeam => Safe2.bind safe2_readU8 fun offset => ?_
  split
  · exact Safe2.bind (safe2_readItems _ _ _) fun _ => Safe2.pure _
  · exact Safe2.bind (safe2_readItems _ _ _) fun _ => Safe2.pure _

theorem safe2_skipStep (u : Unit) : Safe2 (skipStep u) := by
  unfold skipStep
  exact Safe2.bind safe2_readCStr fun _ => Safe2.pure _

theorem skipStep_progress (u : Unit) (b : Buf) (r : Unit × Bool) (b' : Buf)
    (hb : b.remaining ≠ 0) (h : skipStep u b = .ok (r, b')) : b'.remaining < b.remaining := by
  unfold skipStep at h
  rw [Par.bind_apply] at h
  cases h1 : readCStr b with
  | ok x =>
    obtain ⟨item, b1⟩ := x
    rw [h1] at h
    have hp := readCStr_progress hb h1
    cases h
    exact hp
  | err k => rw [h1] at h; cases h
  | crash => rw [h1] at h; cases h

theorem safe2_skipField : Safe2 skipField := by
  unfold skipField
  refine Safe2.bind safe2_readU8 fun _ => ?_
  refine safe2_withRem fun b => ?_
  exact safe2_loopBrk skipStep safe2_skipStep skipStep_progress _ _ b (by omega)

theorem safe2_afterName (t : Tables) (pieces : List Bytes) : Safe2 (afterName t pieces) := by
  unfold afterName
  split
  · exact Safe2.fail _
  · split
    · exact Safe2.bind safe2_skipField fun _ => Safe2.pure _
    · exact safe2_readField _ _ _

theorem safe2_readSection (t : Tables) : Safe2 (readSection t) := by
  unfold readSection
  refine Safe2.bind safe2_readCStr fun field => ?_
  split
  · exact Safe2.pure _
  · exact safe2_afterName t _

theorem readSection_progress (t : Tables) (b : Buf) (t' : Tables) (b' : Buf) (hb : b.remaining ≠ 0)
    (h : readSection t b = .ok (t', b')) : b'.remaining < b.remaining := by
  unfold readSection at h
  rw [Par.bind_apply] at h
  cases h1 : readCStr b with
  | ok x =>
    obtain ⟨field, b1⟩ := x
    rw [h1] at h
    have hp := readCStr_progress hb h1
    simp only at h
    split at h
    · cases h; exact hp
    · have h2 := safe2_afterName t (splitOn 0x5F field) b1
      rw [h] at h2
      have := h2.2
      omega
  | err k => rw [h1] at h; cases h
  | crash => rw [h1] at h; cases h

theorem retreat_advance_one (b : Buf) (x : UInt8) (r : Bytes) (h : b.rest = x :: r) : (b.advance 1).retreat 1 = b := by
  cases b with
  | mk pre rest =>
    simp only at h
    subst h
    simp [Buf.advance, Buf.retreat]

/-- the outer loop's round, spelled out: a marker byte is consumed; otherwise the section is read
from the byte that was peeked -/
theorem sectionStep_cons (t : Tables) (b : Buf) (x : UInt8) (r : Bytes) (h : b.rest = x :: r) :
    sectionStep t b = if x.toNat < 3 then .ok (t, b.advance 1) else readSection t b := by
  unfold sectionStep
  have h1 : readU8 b = .ok (x.toNat, b.advance 1) := by
    have hl : 1 ≤ b.remaining := by simp [Buf.remaining, h]
    rw [readU8, readUnsigned_ok hl, h]
    simp [Endian.decode, leNat]
  rw [Par.bind_ok h1]
  split
  · rfl
  · have h2 : moveCursor (-1) (b.advance 1) = .ok ((), b) := by
      unfold moveCursor
      have hp : (b.advance 1).pos = b.pos + 1 := Buf.pos_advance b 1 (by simp [h])
      have hlen : (b.advance 1).len = b.len := by
        simp [Buf.len, Buf.advance, h]; omega
      have hc1 : ¬ (((b.advance 1).pos : Int) + -1 < 0) := by rw [hp]; omega
      have hc2 : ¬ (((b.advance 1).pos : Int) + -1 > ((b.advance 1).len : Int)) := by
        rw [hp, hlen]; simp [Buf.len, Buf.pos]; omega
      simp only [hc1, hc2, Bool.or_self, Bool.false_eq_true, ↓reduceIte, decide_false]
      have : ¬ ((-1 : Int) ≥ 0) := by omega
      simp only [this, ↓reduceIte]
      rw [show (-(-1 : Int)).toNat = 1 by rfl, retreat_advance_one b x r h]
    rw [Par.bind_ok h2]

theorem sectionStep_nil (t : Tables) (b : Buf) (h : b.rest = []) : sectionStep t b = .err .packetUnderflow := by
  unfold sectionStep
  have h1 : readU8 b = .err .packetUnderflow := by
    rw [readU8, readUnsigned_err]; simp [Buf.remaining, h]
  rw [Par.bind_err h1]

theorem safe_sectionStep (t : Tables) : Safe (sectionStep t) := by
  intro b
  cases hr : b.rest with
  | nil => rw [sectionStep_nil t b hr]; trivial
  | cons x r =>
    rw [sectionStep_cons t b x r hr]
    split
    · simp [Post]
    · exact (safe2_readSection t).safe b

theorem progress_sectionStep (t : Tables) : Progress (sectionStep t) := by
  intro b t' b' h
  cases hr : b.rest with
  | nil => rw [sectionStep_nil t b hr] at h; cases h
  | cons x r =>
    rw [sectionStep_cons t b x r hr] at h
    split at h
    · cases h
      rw [Buf.remaining_advance]
      simp [Buf.remaining, hr]
    · exact readSection_progress t b t' b' (by simp [Buf.remaining, hr]) h

theorem safe_readSections (t : Tables) : Safe (readSections t) := by
  intro b
  exact safe_whileRemaining sectionStep safe_sectionStep progress_sectionStep (b.remaining + 1) t b (by omega)

/-! ### pure steps never crash -/

theorem bind_ne_crash {r : Res α} {f : α → Res β} (hr : r ≠ .crash) (hf : ∀ a, f a ≠ .crash) : (r >>= f) ≠ .crash := by
  cases r with
  | ok a => exact hf a
  | err k => simp
  | crash => exact absurd rfl hr

theorem okOr_ne (o : Option α) (k : ErrKind) : okOr o k ≠ .crash := by
  cases o <;> simp [okOr]

theorem readAllSections_ne (t : Tables) (ps : List Bytes) : readAllSections t ps ≠ .crash := by
  induction ps generalizing t with
  | nil => simp [readAllSections]
  | cons p r ih =>
    simp only [readAllSections]
    exact bind_ne_crash (run_ne_crash (safe_readSections t) p) fun t' => ih t'

theorem fieldOf_ne (m : Vars) (k : String) : fieldOf m k ≠ .crash := okOr_ne _ _
theorem parseU_ne (bits : Nat) (v : Bytes) : parseU bits v ≠ .crash := okOr_ne _ _
theorem parseI_ne (bits : Nat) (v : Bytes) : parseI bits v ≠ .crash := okOr_ne _ _

theorem mkPlayer_ne (m : Vars) : mkPlayer m ≠ .crash := by
  unfold mkPlayer
  refine bind_ne_crash (fieldOf_ne _ _) fun _ => bind_ne_crash (bind_ne_crash (fieldOf_ne _ _) (parseI_ne _)) fun _ =>
    bind_ne_crash (bind_ne_crash (fieldOf_ne _ _) (parseU_ne _)) fun _ =>
    bind_ne_crash (bind_ne_crash (fieldOf_ne _ _) (parseU_ne _)) fun _ =>
    bind_ne_crash (bind_ne_crash (fieldOf_ne _ _) (parseU_ne _)) fun _ =>
    bind_ne_crash (bind_ne_crash (fieldOf_ne _ _) (parseU_ne _)) fun _ => by simp

theorem mkTeam_ne (m : Vars) : mkTeam m ≠ .crash := by
  unfold mkTeam
  refine bind_ne_crash (fieldOf_ne _ _) fun _ => bind_ne_crash (bind_ne_crash (fieldOf_ne _ _) (parseI_ne _)) fun _ => by simp

theorem mkRows_ne {mk : Vars → Res α} (hmk : ∀ m, mk m ≠ .crash) (rows : List Vars) : mkRows mk rows ≠ .crash := by
  induction rows with
  | nil => simp [mkRows]
  | cons m r ih =>
    simp only [mkRows]
    split
    · exact ih
    · exact bind_ne_crash (hmk m) fun _ => bind_ne_crash ih fun _ => by simp

theorem parsePlayersAndTeams_ne (ps : List Bytes) : parsePlayersAndTeams ps ≠ .crash := by
  unfold parsePlayersAndTeams
  exact bind_ne_crash (readAllSections_ne _ _) fun _ => bind_ne_crash (mkRows_ne mkPlayer_ne _) fun _ =>
    bind_ne_crash (mkRows_ne mkTeam_ne _) fun _ => by simp

theorem takeReq_ne (vars : Vars) (k : String) : takeReq vars k ≠ .crash := by
  unfold takeReq; split <;> simp

theorem takeMin_ne (vars : Vars) : takeMin vars ≠ .crash := by
  unfold takeMin
  split
  · simp
  · exact bind_ne_crash (parseU_ne _ _) fun _ => by simp

theorem takeOnline_ne (vars : Vars) (n : Nat) : takeOnline vars n ≠ .crash := by
  unfold takeOnline
  split
  · simp
  · exact bind_ne_crash (parseU_ne _ _) fun _ => by simp

theorem passwordValue_ne (v : Bytes) : passwordValue v ≠ .crash := by
  unfold passwordValue
  simp only
  split
  · simp
  · exact bind_ne_crash (parseU_ne _ _) fun _ => by simp

theorem hasPassword_ne (vars : Vars) : hasPassword vars ≠ .crash := by
  unfold hasPassword
  split
  · simp
  · exact bind_ne_crash (passwordValue_ne _) fun _ => by simp

theorem takeTournament_ne (vars : Vars) : takeTournament vars ≠ .crash := by
  unfold takeTournament
  simp only
  split <;> simp

theorem buildFields_ne (vars : Vars) (players : List Player) (teams : List Team) :
    buildFields vars players teams ≠ .crash := by
  unfold buildFields
  refine bind_ne_crash (takeReq_ne _ _) fun x => ?_
  obtain ⟨maxText, vars⟩ := x
  refine bind_ne_crash (parseU_ne _ _) fun _ => bind_ne_crash (takeMin_ne _) fun x => ?_
  obtain ⟨mn, vars⟩ := x
  refine bind_ne_crash (takeOnline_ne _ _) fun x => ?_
  obtain ⟨on, vars⟩ := x
  refine bind_ne_crash (takeReq_ne _ _) fun x => ?_
  obtain ⟨name, vars⟩ := x
  refine bind_ne_crash (takeReq_ne _ _) fun x => ?_
  obtain ⟨map, vars⟩ := x
  refine bind_ne_crash (hasPassword_ne _) fun x => ?_
  obtain ⟨pw, vars⟩ := x
  refine bind_ne_crash (takeReq_ne _ _) fun x => ?_
  obtain ⟨gm, vars⟩ := x
  refine bind_ne_crash (takeReq_ne _ _) fun x => ?_
  obtain ⟨gv, vars⟩ := x
  refine bind_ne_crash (takeTournament_ne _) fun x => ?_
  obtain ⟨tr, vars⟩ := x
  simp

theorem buildResponse_ne (packets : List Bytes) : buildResponse packets ≠ .crash := by
  unfold buildResponse
  refine bind_ne_crash (okOr_ne _ _) fun first => bind_ne_crash (dataToMap_ne _) fun x => ?_
  obtain ⟨vars, remaining⟩ := x
  refine bind_ne_crash (parsePlayersAndTeams_ne _) fun x => ?_
  obtain ⟨players, teams⟩ := x
  exact buildFields_ne _ _ _

theorem buildVars_ne (packets : List Bytes) : buildVars packets ≠ .crash := by
  unfold buildVars
  refine bind_ne_crash (okOr_ne _ _) fun first => bind_ne_crash (dataToMap_ne _) fun x => ?_
  obtain ⟨vars, rest⟩ := x
  simp

end Gd.Gs3

/-! ## the exchange -/

namespace Gd.Gs3
open Gd

theorem safe_readHeader (kind : Nat) : Safe (readHeader kind) := by
  unfold readHeader
  refine Safe.bind safe_readU8 fun k => ?_
  split
  · exact Safe.fail _
  · refine Safe.bind (safe_readUnsigned _ _) fun sid => ?_
    split
    · exact Safe.fail _
    · exact fun _ => rfl

theorem safe_parseChallenge : Safe parseChallenge := by
  unfold parseChallenge
  exact Safe.bind safe_readCStr fun _ => Safe.bind (Safe.lift _ (by
    cases parseSigned 32 _ <;> rfl)) fun _ => Safe.pure _

theorem safe_readFrag : Safe readFrag := by
  unfold readFrag
  refine Safe.bind safe_readCStr fun tag => ?_
  split
  · exact Safe.fail _
  · exact Safe.bind safe_readU8 fun _ => Safe.bind (safe_moveCursor _) fun _ => Safe.bind (fun _ => rfl) fun _ => Safe.pure _

theorem safe_readSingle : Safe readSingle := by
  unfold readSingle
  exact Safe.bind (safe_moveCursor _) fun _ => fun _ => rfl

theorem padTo_length (v : List Bytes) (id : Nat) : id < (padTo v id).length := by
  simp [padTo]; omega

theorem accept_ne (a : Acc) (f : Frag) : accept a f ≠ .crash := by
  unfold accept
  simp only
  split
  · rename_i h
    have := padTo_length a.values f.id
    simp at h
    omega
  · split <;> simp

theorem finish_ne (a : Acc) : finish a ≠ .crash := by
  unfold finish; split <;> simp

/-- what the GameSpy 3 client may put on the wire: the handshake, or the data request with the
client's payload and possibly a challenge -/
def Allowed (payload data : Bytes) : Prop :=
  data = requestBytes 9 none none ∨ ∃ c : Option Int, data = requestBytes 0 c (some payload)

def EvOk (s : Sock) (payload : Bytes) : Ev → Prop
  | .send c port data _ => c = s.id ∧ port = s.port ∧ Allowed payload data
  | .recv c size _ => c = s.id ∧ (size = some 16 ∨ size = some PACKET_SIZE)
  | .opened _ _ _ _ => False

theorem qsafe_receive (s : Sock) (payload : Bytes) (size : Option Nat) (kind : Nat)
    (hsize : size = some 16 ∨ size = none) : QSafe s (EvOk s payload) (receive s size kind) := by
  unfold receive
  refine QSafe.bind (QSafe.recv s _ _ fun _ => ⟨rfl, ?_⟩) fun _ => QSafe.parse _ _ (safe_readHeader kind) _
  rcases hsize with h | h <;> subst h
  · exact Or.inl rfl
  · exact Or.inr rfl

/-- a successful `receive` on a UDP socket consumed a queued delivery -/
theorem receive_consumes (s : Sock) (hudp : s.tcp = false) (size : Option Nat) (kind : Nat) (w w' : Net) (d : Bytes)
    (hopen : IsOpen s w) (h : receive s size kind w = (.ok d, w')) : qlen w' s.id < qlen w s.id := by
  unfold receive at h
  rw [Q.bind_apply] at h
  cases hr : recv s (some (size.getD PACKET_SIZE)) w with
  | mk res w1 =>
    rw [hr] at h
    cases res with
    | ok d0 =>
      have h1 := recv_ok_consumes s hudp _ w w1 d0 hopen hr
      simp only [parse, Q.lift, Prod.mk.injEq] at h
      rw [← h.2]
      exact h1
    | err k => cases h
    | crash => cases h

theorem qsafe_handshake (s : Sock) (payload : Bytes) : QSafe s (EvOk s payload) (makeInitialHandshake s) := by
  unfold makeInitialHandshake
  exact QSafe.bind (QSafe.send s _ _ fun _ => ⟨rfl, rfl, Or.inl rfl⟩) fun _ =>
    QSafe.bind (qsafe_receive s payload _ _ (Or.inl rfl)) fun _ => QSafe.parse _ _ safe_parseChallenge _

theorem qsafe_sendDataRequest (s : Sock) (payload : Bytes) (c : Option Int) :
    QSafe s (EvOk s payload) (sendDataRequest s payload c) :=
  QSafe.send s _ _ fun _ => ⟨rfl, rfl, Or.inr ⟨c, rfl⟩⟩

/-- `Q.lift r >>= g`: a pure step, then `g` from the same transport state -/
theorem lift_bind_cases {r : Res α} {g : α → Q β} {w : Net} {P : Res β × Net → Prop}
    (hr : r ≠ .crash) (herr : ∀ k, P (.err k, w)) (hok : ∀ a, r = .ok a → P (g a w)) : P ((Q.lift r >>= g) w) := by
  rw [Q.bind_apply]
  cases r with
  | ok a => exact hok a rfl
  | err k => exact herr k
  | crash => exact absurd rfl hr

theorem qsafe_recvPackets (s : Sock) (hudp : s.tcp = false) (payload : Bytes) :
    ∀ (fuel : Nat) (a : Acc) (w : Net), IsOpen s w → qlen w s.id < fuel →
      (recvPackets s fuel a w).1 ≠ .crash ∧ Step (EvOk s payload) w (recvPackets s fuel a w).2 := by
  intro fuel
  induction fuel with
  | zero => intro _ w _ h; omega
  | succ fuel ih =>
    intro a w hopen hq
    unfold recvPackets
    split
    · have hrecv := qsafe_receive s payload none 0 (Or.inr rfl) w hopen
      rw [Q.bind_apply]
      cases hr : receive s none 0 w with
      | mk res w1 =>
        rw [hr] at hrecv
        cases res with
        | crash => exact absurd rfl hrecv.1
        | err k => exact ⟨by simp, hrecv.2⟩
        | ok data =>
          simp only
          have hcons := receive_consumes s hudp none 0 w w1 data hopen hr
          have hopen1 := hopen.step hrecv.2
          refine lift_bind_cases (P := fun x => x.1 ≠ .crash ∧ Step (EvOk s payload) w x.2)
            (run_ne_crash safe_readFrag data) (fun k => ⟨by simp, hrecv.2⟩) fun f _ => ?_
          refine lift_bind_cases (P := fun x => x.1 ≠ .crash ∧ Step (EvOk s payload) w x.2)
            (accept_ne a f) (fun k => ⟨by simp, hrecv.2⟩) fun a' _ => ?_
          obtain ⟨h3, h4⟩ := ih a' w1 hopen1 (by omega)
          exact ⟨h3, hrecv.2.trans h4⟩
    · exact ⟨finish_ne a, Step.refl _ _⟩

theorem qsafe_packetsImpl (s : Sock) (hudp : s.tcp = false) (payload : Bytes) (single : Bool) :
    QSafe s (EvOk s payload) (getServerPacketsImpl s payload single) := by
  unfold getServerPacketsImpl
  refine QSafe.bind (qsafe_handshake s payload) fun c => QSafe.bind (qsafe_sendDataRequest s payload c) fun _ => ?_
  cases single with
  | true =>
    simp only [↓reduceIte]
    exact QSafe.bind (qsafe_receive s payload none 0 (Or.inr rfl)) fun _ =>
      QSafe.bind (QSafe.parse _ _ safe_readSingle _) fun _ => QSafe.pure _ _ _
  | false =>
    simp only [Bool.false_eq_true, ↓reduceIte]
    intro w hopen
    unfold recvAll
    exact qsafe_recvPackets s hudp payload (queued s w + 1) Acc.init w hopen (by simp [queued, qlen])

theorem qsafe_packets (s : Sock) (hudp : s.tcp = false) (r : Nat) (payload : Bytes) (single : Bool) :
    QSafe s (EvOk s payload) (getServerPackets s r payload single) :=
  QSafe.retry (qsafe_packetsImpl s hudp payload single) r

/-- what a whole query may log: one UDP socket opened to the given port, then `EvOk` events on it -/
def QueryEvOk (port id : Nat) (payload : Bytes) : Ev → Prop
  | .opened c tcp p _ => c = id ∧ tcp = false ∧ p = port
  | e => EvOk ⟨id, port, false⟩ payload e

/-- a query of the shape `open a UDP socket; fetch the packets; pure post-processing` -/
def exchange (port retries : Nat) (payload : Bytes) (single : Bool) (post : List Bytes → Res α) : Q α := do
  let s ← openSock false port
  let packets ← getServerPackets s retries payload single
  Q.lift (post packets)

theorem exchange_safe (port retries : Nat) (payload : Bytes) (single : Bool) (post : List Bytes → Res α)
    (hpost : ∀ ps, post ps ≠ .crash) (w : Net) :
    (exchange port retries payload single post w).1 ≠ .crash
    ∧ ∃ added, (exchange port retries payload single post w).2.log = w.log ++ added
        ∧ ∀ e ∈ added, QueryEvOk port w.conns.length payload e := by
  unfold exchange
  rw [Q.bind_apply]
  let s : Sock := ⟨w.conns.length, port, false⟩
  have hbody : QSafe s (EvOk s payload) (getServerPackets s retries payload single >>= fun ps => Q.lift (post ps)) :=
    QSafe.bind (qsafe_packets s rfl retries payload single) fun ps => QSafe.lift _ _ _ (hpost ps)
  have lift : ∀ e, EvOk s payload e → QueryEvOk port w.conns.length payload e := by
    intro e he
    cases e with
    | opened => exact he.elim
    | send => exact he
    | recv => exact he
  have fin : ∀ (w0 : Net) (ev : Ev), w0.log = w.log ++ [ev] → QueryEvOk port w.conns.length payload ev → IsOpen s w0 →
      ((getServerPackets s retries payload single >>= fun ps => Q.lift (post ps)) w0).1 ≠ .crash
      ∧ ∃ added, ((getServerPackets s retries payload single >>= fun ps => Q.lift (post ps)) w0).2.log = w.log ++ added
        ∧ ∀ e ∈ added, QueryEvOk port w.conns.length payload e := by
    intro w0 ev hlog0 hev hop
    obtain ⟨h1, h2⟩ := hbody w0 hop
    obtain ⟨added, hlog, hall⟩ := h2.log
    refine ⟨h1, ev :: added, by rw [hlog, hlog0]; simp, ?_⟩
    intro e he
    rcases List.mem_cons.mp he with rfl | he'
    · exact hev
    · exact lift e (hall e he')
  cases hp : w.pending with
  | nil =>
    simp only [openSock, hp]
    exact fin _ _ rfl ⟨rfl, rfl, rfl⟩ (by simp [IsOpen, s])
  | cons c rest =>
    cases c with
    | opened ds =>
      simp only [openSock, hp]
      exact fin _ _ rfl ⟨rfl, rfl, rfl⟩ (by simp [IsOpen, s])
    | refused =>
      simp only [openSock, hp]
      refine ⟨by simp, [_], rfl, ?_⟩
      intro e he
      rcases List.mem_singleton.mp he with rfl
      exact ⟨rfl, rfl, rfl⟩

theorem query_eq (port retries : Nat) : query port retries = exchange port retries DEFAULT_PAYLOAD false buildResponse := rfl
theorem queryVars_eq (port retries : Nat) : queryVars port retries = exchange port retries DEFAULT_PAYLOAD false buildVars := rfl

theorem query_safe (port retries : Nat) (w : Net) :
    (query port retries w).1 ≠ .crash
    ∧ ∃ added, (query port retries w).2.log = w.log ++ added
        ∧ ∀ e ∈ added, QueryEvOk port w.conns.length DEFAULT_PAYLOAD e := by
  rw [query_eq]; exact exchange_safe _ _ _ _ _ buildResponse_ne w

theorem queryVars_safe (port retries : Nat) (w : Net) :
    (queryVars port retries w).1 ≠ .crash
    ∧ ∃ added, (queryVars port retries w).2.log = w.log ++ added
        ∧ ∀ e ∈ added, QueryEvOk port w.conns.length DEFAULT_PAYLOAD e := by
  rw [queryVars_eq]; exact exchange_safe _ _ _ _ _ buildVars_ne w

end Gd.Gs3
