import GdVerif.Net
import GdVerif.Lemmas.QLogic
import GdVerif.Spec.Faults
/-
  An exact-outcome logic for query computations on ONE socket, for scripts with faults.

  `Steps s f r σ σ'`: from any transport state in which socket `s` is open, has `σ.q` queued, `σ.fs` are the send-fault
  flags still to be consumed and `σ.sent` are the datagrams sent so far (with their failed flags), `f` ends with
  outcome `r` (a value, an error, a crash) in a state described by `σ'`.  Unlike `Runs` (`Lemmas/ValveWhole2.lean`,
  success only, no faults) it composes through failing attempts: rules for `bind` on either outcome, for
  `retryOnTimeout` after a timeout-class error / on any other outcome, for `maybeGather`.
-/
namespace Gd

/-- the datagrams sent, with their failed flags, oldest first -/
def sentOf : List Ev → List (Bytes × Bool)
  | [] => []
  | .send _ _ d f :: r => (d, f) :: sentOf r
  | _ :: r => sentOf r

theorem sentOf_append (a b : List Ev) : sentOf (a ++ b) = sentOf a ++ sentOf b := by
  induction a with
  | nil => rfl
  | cons e r ih => cases e <;> simp [sentOf, ih]

structure St where
  /-- deliveries still queued on the socket -/
  q : List Delivery
  /-- send-fault flags not yet consumed -/
  fs : List Bool
  /-- datagrams sent so far -/
  sent : List (Bytes × Bool)

structure AtS (s : Sock) (w : Net) (σ : St) : Prop where
  faults : w.faults = σ.fs
  isOpen : s.id < w.conns.length
  queue : w.conns.getD s.id [] = σ.q
  sent : sentOf w.log = σ.sent

def Steps (s : Sock) (f : Q α) (r : Res α) (σ σ' : St) : Prop :=
  ∀ w, AtS s w σ → ∃ w', f w = (r, w') ∧ AtS s w' σ'

namespace Steps

/-- what a `Steps` fact says about one run -/
theorem outcome {s : Sock} {f : Q α} {r : Res α} {σ σ' : St} (h : Steps s f r σ σ') (w : Net) (hw : AtS s w σ) :
    (f w).1 = r ∧ sentOf (f w).2.log = σ'.sent := by
  obtain ⟨w', h1, h2⟩ := h w hw
  rw [h1]
  exact ⟨rfl, h2.sent⟩

theorem pure (s : Sock) (a : α) (σ : St) : Steps s (Pure.pure a : Q α) (.ok a) σ σ :=
  fun w h => ⟨w, rfl, h⟩

theorem lift (s : Sock) (r : Res α) (σ : St) : Steps s (Q.lift r) r σ σ :=
  fun w h => ⟨w, rfl, h⟩

theorem fail (s : Sock) (k : ErrKind) (σ : St) : Steps s (Q.fail k : Q α) (.err k) σ σ :=
  fun w h => ⟨w, rfl, h⟩

theorem parse (s : Sock) (p : Par α) (data : Bytes) (σ : St) : Steps s (Gd.parse p data) (p.run data) σ σ :=
  fun w h => ⟨w, rfl, h⟩

theorem congr {s : Sock} {f g : Q α} {r : Res α} {σ σ' : St} (h : Steps s f r σ σ') (hfg : g = f) :
    Steps s g r σ σ' := hfg ▸ h

theorem congrRes {s : Sock} {f : Q α} {r r' : Res α} {σ σ' : St} (h : Steps s f r σ σ') (hr : r' = r) :
    Steps s f r' σ σ' := hr ▸ h

/-- `f` succeeds, the continuation decides -/
theorem bind {s : Sock} {f : Q α} {g : α → Q β} {a : α} {r : Res β} {σ σ1 σ2 : St}
    (hf : Steps s f (.ok a) σ σ1) (hg : Steps s (g a) r σ1 σ2) : Steps s (f >>= g) r σ σ2 := by
  intro w h
  obtain ⟨w1, h1, hat1⟩ := hf w h
  obtain ⟨w2, h2, hat2⟩ := hg w1 hat1
  exact ⟨w2, by rw [Q.bind_apply, h1]; exact h2, hat2⟩

/-- `f` fails: `?` returns its error -/
theorem bind_err {s : Sock} {f : Q α} {g : α → Q β} {k : ErrKind} {σ σ1 : St}
    (hf : Steps s f (.err k) σ σ1) : Steps s (f >>= g) (.err k) σ σ1 := by
  intro w h
  obtain ⟨w1, h1, hat1⟩ := hf w h
  exact ⟨w1, by rw [Q.bind_apply, h1], hat1⟩

theorem bind_crash {s : Sock} {f : Q α} {g : α → Q β} {σ σ1 : St}
    (hf : Steps s f .crash σ σ1) : Steps s (f >>= g) .crash σ σ1 := by
  intro w h
  obtain ⟨w1, h1, hat1⟩ := hf w h
  exact ⟨w1, by rw [Q.bind_apply, h1], hat1⟩

/-- `f` ends in any way; if with a value, the (pure) continuation `k` decides -/
theorem bind_res {s : Sock} {f : Q α} {g : α → Q β} {r : Res α} {k : α → Res β} {σ σ1 : St}
    (hf : Steps s f r σ σ1) (hg : ∀ a, r = .ok a → Steps s (g a) (k a) σ1 σ1) : Steps s (f >>= g) (r >>= k) σ σ1 := by
  cases r with
  | ok a => exact bind hf (hg a rfl)
  | err e => exact bind_err hf
  | crash => exact bind_crash hf

/-! ### `retry_on_timeout` -/

/-- an outcome that is not a timeout-class error ends the unit at once, whatever the retry count -/
theorem retry_done {s : Sock} {f : Q α} {r : Res α} {σ σ' : St} (h : Steps s f r σ σ')
    (hr : ∀ k, r = .err k → k.isTimeout = false) (n : Nat) : Steps s (retryOnTimeout n f) r σ σ' := by
  intro w hw
  obtain ⟨w', h1, h2⟩ := h w hw
  refine ⟨w', ?_, h2⟩
  cases n with
  | zero => exact h1
  | succ n =>
    simp only [retryOnTimeout, h1]
    cases r with
    | ok a => rfl
    | crash => rfl
    | err k => simp [hr k rfl]

/-- the last permitted attempt: its outcome is the unit's -/
theorem retry_zero {s : Sock} {f : Q α} {r : Res α} {σ σ' : St} (h : Steps s f r σ σ') :
    Steps s (retryOnTimeout 0 f) r σ σ' := h

/-- a timeout-class failure with retries left: the unit is run again -/
theorem retry_again {s : Sock} {f : Q α} {k : ErrKind} {r : Res α} {σ σ1 σ2 : St} {n : Nat}
    (h : Steps s f (.err k) σ σ1) (hk : k.isTimeout = true) (hrest : Steps s (retryOnTimeout n f) r σ1 σ2) :
    Steps s (retryOnTimeout (n + 1) f) r σ σ2 := by
  intro w hw
  obtain ⟨w1, h1, hat1⟩ := h w hw
  obtain ⟨w2, h2, hat2⟩ := hrest w1 hat1
  exact ⟨w2, by simp only [retryOnTimeout, h1, hk, ↓reduceIte]; exact h2, hat2⟩

/-- A unit whose first attempts each end in a timeout-class error (attempt `a` consumes `del a` of the queue and
`flt a` of the flags, sends `snd a`) and whose next attempt ends with `R`, not a timeout: with at least as many retries
as failed attempts the unit ends with `R` — the failed attempts followed by that one are all that happens. -/
theorem retry_recovers {s : Sock} {f : Q α} {A : Type} (del : A → List Delivery) (flt : A → List Bool)
    (snd : A → List (Bytes × Bool)) (err : A → ErrKind) (herr : ∀ a, (err a).isTimeout = true)
    (hstep : ∀ a q fs sn, Steps s f (.err (err a)) ⟨del a ++ q, flt a ++ fs, sn⟩ ⟨q, fs, sn ++ snd a⟩)
    {R : Res α} (hR : ∀ k, R = .err k → k.isTimeout = false)
    (dq q' : List Delivery) (df fs' : List Bool) (ds : List (Bytes × Bool))
    (hfin : ∀ sn, Steps s f R ⟨dq, df, sn⟩ ⟨q', fs', sn ++ ds⟩) :
    ∀ (fails : List A) (r : Nat) (sn : List (Bytes × Bool)), fails.length ≤ r →
      Steps s (retryOnTimeout r f) R ⟨fails.flatMap del ++ dq, fails.flatMap flt ++ df, sn⟩
        ⟨q', fs', sn ++ (fails.flatMap snd ++ ds)⟩ := by
  intro fails
  induction fails with
  | nil =>
    intro r sn _
    simpa using retry_done (hfin sn) hR r
  | cons a rest ih =>
    intro r sn hr
    obtain ⟨r', rfl⟩ : ∃ r', r = r' + 1 := ⟨r - 1, by simp at hr; omega⟩
    have h1 := hstep a (rest.flatMap del ++ dq) (rest.flatMap flt ++ df) sn
    have h2 := ih r' (sn ++ snd a) (by simp at hr; omega)
    have := retry_again h1 (herr a) h2
    simpa [List.append_assoc] using this

/-- A unit all of whose `r + 1` attempts end in a timeout-class error fails with the last attempt's error; nothing
beyond those attempts is consumed or sent. -/
theorem retry_exhausted {s : Sock} {f : Q α} {A : Type} (del : A → List Delivery) (flt : A → List Bool)
    (snd : A → List (Bytes × Bool)) (err : A → ErrKind) (herr : ∀ a, (err a).isTimeout = true)
    (hstep : ∀ a q fs sn, Steps s f (.err (err a)) ⟨del a ++ q, flt a ++ fs, sn⟩ ⟨q, fs, sn ++ snd a⟩)
    (q : List Delivery) (fs : List Bool) :
    ∀ (r : Nat) (fails : List A) (sn : List (Bytes × Bool)), fails.length = r + 1 →
      Steps s (retryOnTimeout r f) (.err (Faults.lastError err fails))
        ⟨fails.flatMap del ++ q, fails.flatMap flt ++ fs, sn⟩ ⟨q, fs, sn ++ fails.flatMap snd⟩ := by
  intro r
  induction r with
  | zero =>
    intro fails sn hlen
    match fails, hlen with
    | [a], _ => simpa [Faults.lastError] using retry_zero (hstep a q fs sn)
  | succ r ih =>
    intro fails sn hlen
    match fails, hlen with
    | a :: b :: rest, hlen =>
      have h1 := hstep a ((b :: rest).flatMap del ++ q) ((b :: rest).flatMap flt ++ fs) sn
      have h2 := ih (b :: rest) (sn ++ snd a) (by simpa using hlen)
      have := retry_again h1 (herr a) h2
      simpa [Faults.lastError, List.append_assoc] using this

/-- `retry_recovers` for failed attempts that satisfy a side condition `ok` (e.g. the datagrams an attempt receives before
the silence are parts of the reply) -/
theorem retry_recovers_of {s : Sock} {f : Q α} {A : Type} (ok : A → Prop) (del : A → List Delivery)
    (flt : A → List Bool) (snd : A → List (Bytes × Bool)) (err : A → ErrKind) (herr : ∀ a, (err a).isTimeout = true)
    (hstep : ∀ a, ok a → ∀ q fs sn, Steps s f (.err (err a)) ⟨del a ++ q, flt a ++ fs, sn⟩ ⟨q, fs, sn ++ snd a⟩)
    {R : Res α} (hR : ∀ k, R = .err k → k.isTimeout = false)
    (dq q' : List Delivery) (df fs' : List Bool) (ds : List (Bytes × Bool))
    (hfin : ∀ sn, Steps s f R ⟨dq, df, sn⟩ ⟨q', fs', sn ++ ds⟩) :
    ∀ (fails : List A) (r : Nat) (sn : List (Bytes × Bool)), (∀ a ∈ fails, ok a) → fails.length ≤ r →
      Steps s (retryOnTimeout r f) R ⟨fails.flatMap del ++ dq, fails.flatMap flt ++ df, sn⟩
        ⟨q', fs', sn ++ (fails.flatMap snd ++ ds)⟩ := by
  intro fails
  induction fails with
  | nil =>
    intro r sn _ _
    simpa using retry_done (hfin sn) hR r
  | cons a rest ih =>
    intro r sn hok hr
    obtain ⟨r', rfl⟩ : ∃ r', r = r' + 1 := ⟨r - 1, by simp at hr; omega⟩
    have h1 := hstep a (hok a (by simp)) (rest.flatMap del ++ dq) (rest.flatMap flt ++ df) sn
    have h2 := ih r' (sn ++ snd a) (fun b hb => hok b (by simp [hb])) (by simp at hr; omega)
    have := retry_again h1 (herr a) h2
    simpa [List.append_assoc] using this

/-- `retry_exhausted` for failed attempts that satisfy a side condition `ok` -/
theorem retry_exhausted_of {s : Sock} {f : Q α} {A : Type} (ok : A → Prop) (del : A → List Delivery)
    (flt : A → List Bool) (snd : A → List (Bytes × Bool)) (err : A → ErrKind) (herr : ∀ a, (err a).isTimeout = true)
    (hstep : ∀ a, ok a → ∀ q fs sn, Steps s f (.err (err a)) ⟨del a ++ q, flt a ++ fs, sn⟩ ⟨q, fs, sn ++ snd a⟩)
    (q : List Delivery) (fs : List Bool) :
    ∀ (r : Nat) (fails : List A) (sn : List (Bytes × Bool)), (∀ a ∈ fails, ok a) → fails.length = r + 1 →
      Steps s (retryOnTimeout r f) (.err (Faults.lastError err fails))
        ⟨fails.flatMap del ++ q, fails.flatMap flt ++ fs, sn⟩ ⟨q, fs, sn ++ fails.flatMap snd⟩ := by
  intro r
  induction r with
  | zero =>
    intro fails sn hok hlen
    match fails, hok, hlen with
    | [a], hok, _ => simpa [Faults.lastError] using retry_zero (hstep a (hok a (by simp)) q fs sn)
  | succ r ih =>
    intro fails sn hok hlen
    match fails, hok, hlen with
    | a :: b :: rest, hok, hlen =>
      have h1 := hstep a (hok a (by simp)) ((b :: rest).flatMap del ++ q) ((b :: rest).flatMap flt ++ fs) sn
      have h2 := ih (b :: rest) (sn ++ snd a) (fun c hc => hok c (List.mem_cons_of_mem _ hc)) (by simpa using hlen)
      have := retry_again h1 (herr a) h2
      simpa [Faults.lastError, List.append_assoc] using this

/-- a computation whose fuel is taken from the number of queued deliveries (`queued s w + 1`): any fuel above the queue's
length will do -/
theorem fuelled {s : Sock} {g : Nat → Q α} {r : Res α} {σ σ' : St}
    (h : ∀ n, σ.q.length < n → Steps s (g n) r σ σ') :
    Steps s (fun w => g ((w.conns.getD s.id []).length + 1) w) r σ σ' := by
  intro w hw
  exact h ((w.conns.getD s.id []).length + 1) (by rw [hw.queue]; omega) w hw

/-! ### `maybe_gather!` -/

theorem gather_skip (s : Sock) (f : Q α) (σ : St) : Steps s (maybeGather .skip f) (.ok none) σ σ :=
  fun w h => ⟨w, rfl, h⟩

theorem gather_ok {s : Sock} {f : Q α} {a : α} {σ σ' : St} (h : Steps s f (.ok a) σ σ') (t : Toggle)
    (ht : t ≠ .skip) : Steps s (maybeGather t f) (.ok (some a)) σ σ' := by
  intro w hw
  obtain ⟨w', h1, h2⟩ := h w hw
  refine ⟨w', ?_, h2⟩
  cases t with
  | skip => exact absurd rfl ht
  | try_ => simp only [Gd.maybeGather, h1]
  | enforce => simp only [Gd.maybeGather]; rw [Q.bind_apply, h1]; rfl

theorem gather_try_err {s : Sock} {f : Q α} {k : ErrKind} {σ σ' : St} (h : Steps s f (.err k) σ σ') :
    Steps s (maybeGather .try_ f) (.ok none) σ σ' := by
  intro w hw
  obtain ⟨w', h1, h2⟩ := h w hw
  exact ⟨w', by simp only [Gd.maybeGather, h1], h2⟩

theorem gather_enforce_err {s : Sock} {f : Q α} {k : ErrKind} {σ σ' : St} (h : Steps s f (.err k) σ σ') :
    Steps s (maybeGather .enforce f) (.err k) σ σ' := by
  intro w hw
  obtain ⟨w', h1, h2⟩ := h w hw
  exact ⟨w', by simp only [Gd.maybeGather]; rw [Q.bind_apply, h1], h2⟩

/-- what `maybe_gather!` (toggle not Skip) makes of the outcome of the gathered computation -/
def gatherRes {α : Type} (t : Toggle) : Res α → Res (Option α)
  | .ok a => .ok (some a)
  | .err k => if t = .try_ then .ok none else .err k
  | .crash => .crash

theorem gather {s : Sock} {f : Q α} {r : Res α} {σ σ' : St} (h : Steps s f r σ σ') (t : Toggle) (ht : t ≠ .skip) :
    Steps s (maybeGather t f) (gatherRes t r) σ σ' := by
  cases r with
  | ok a => exact gather_ok h t ht
  | err k =>
    cases t with
    | skip => exact absurd rfl ht
    | try_ => exact gather_try_err h
    | enforce => exact gather_enforce_err h
  | crash =>
    intro w hw
    obtain ⟨w', h1, h2⟩ := h w hw
    refine ⟨w', ?_, h2⟩
    cases t with
    | skip => exact absurd rfl ht
    | try_ => simp only [Gd.maybeGather, h1, gatherRes]
    | enforce => simp only [Gd.maybeGather, gatherRes]; rw [Q.bind_apply, h1]

end Steps

/-! ### replies of several datagrams, partly delivered -/

/-- an incomplete selection of `pool` is the head of an arrangement of `pool` whose rest is not empty -/
theorem selects_perm : ∀ (got pool : List Bytes), Faults.selects got pool = true →
    ∃ more, more ≠ [] ∧ (got ++ more).Perm pool := by
  intro got
  induction got with
  | nil =>
    intro pool h
    exact ⟨pool, by simpa [Faults.selects] using h, by simp⟩
  | cons d r ih =>
    intro pool h
    simp only [Faults.selects, Bool.and_eq_true, List.contains_iff_mem] at h
    obtain ⟨more, hne, hp⟩ := ih (pool.erase d) h.2
    exact ⟨more, hne, (List.Perm.cons d hp).trans (List.perm_cons_erase h.1).symm⟩

theorem selects_mem {got pool : List Bytes} (h : Faults.selects got pool = true) : ∀ d ∈ got, d ∈ pool := by
  obtain ⟨more, _, hp⟩ := selects_perm got pool h
  exact fun d hd => hp.subset (List.mem_append_left _ hd)

theorem selects_length {got pool : List Bytes} (h : Faults.selects got pool = true) : got.length < pool.length := by
  obtain ⟨more, hne, hp⟩ := selects_perm got pool h
  have := hp.length_eq
  have : 0 < more.length := List.length_pos_iff.mpr hne
  simp only [List.length_append] at *
  omega

/-- of a reply of one datagram (or none) nothing can be delivered short of all -/
theorem partOf_short {got pool : List Bytes} (h : Faults.partOf got pool = true) (hp : pool.length ≤ 1) : got = [] := by
  cases got with
  | nil => rfl
  | cons d r =>
    have hs : Faults.selects (d :: r) pool = true := by simpa [Faults.partOf] using h
    have := selects_length hs
    simp only [List.length_cons] at this
    omega

theorem partOf_mem {got pool : List Bytes} (h : Faults.partOf got pool = true) : ∀ d ∈ got, d ∈ pool := by
  cases got with
  | nil => intro d hd; cases hd
  | cons d r => exact selects_mem (by simpa [Faults.partOf] using h)

theorem partOf_length {got pool : List Bytes} (h : Faults.partOf got pool = true) (hne : got ≠ []) :
    got.length < pool.length := by
  cases got with
  | nil => exact absurd rfl hne
  | cons d r => exact selects_length (by simpa [Faults.partOf] using h)

/-! ### the primitives -/

/-- a send whose flag is `false` goes out -/
theorem steps_send_ok (s : Sock) (data : Bytes) (q : List Delivery) (fs : List Bool) (sn : List (Bytes × Bool)) :
    Steps s (send s data) (.ok ()) ⟨q, false :: fs, sn⟩ ⟨q, fs, sn ++ [(data, false)]⟩ := by
  intro w h
  refine ⟨{ w with faults := fs, log := w.log ++ [.send s.id s.port data false] }, ?_,
    ⟨rfl, h.isOpen, h.queue, by simp [sentOf_append, sentOf, h.sent]⟩⟩
  have hf : w.faults = false :: fs := h.faults
  simp [send, hf]

/-- a send with no flag left goes out -/
theorem steps_send_nil (s : Sock) (data : Bytes) (q : List Delivery) (sn : List (Bytes × Bool)) :
    Steps s (send s data) (.ok ()) ⟨q, [], sn⟩ ⟨q, [], sn ++ [(data, false)]⟩ := by
  intro w h
  refine ⟨{ w with log := w.log ++ [.send s.id s.port data false] }, ?_,
    ⟨h.faults, h.isOpen, h.queue, by simp [sentOf_append, sentOf, h.sent]⟩⟩
  have hf : w.faults = [] := h.faults
  simp [send, hf]

/-- a send whose flag is `true` fails -/
theorem steps_send_fault (s : Sock) (data : Bytes) (q : List Delivery) (fs : List Bool) (sn : List (Bytes × Bool)) :
    Steps s (send s data) (.err .packetSend) ⟨q, true :: fs, sn⟩ ⟨q, fs, sn ++ [(data, true)]⟩ := by
  intro w h
  refine ⟨{ w with faults := fs, log := w.log ++ [.send s.id s.port data true] }, ?_,
    ⟨rfl, h.isOpen, h.queue, by simp [sentOf_append, sentOf, h.sent]⟩⟩
  have hf : w.faults = true :: fs := h.faults
  simp [send, hf]

/-- a datagram that fits the buffer is received whole -/
theorem steps_recv (s : Sock) (hudp : s.tcp = false) (size : Nat) (d : Bytes) (hl : d.length ≤ size)
    (q : List Delivery) (fs : List Bool) (sn : List (Bytes × Bool)) :
    Steps s (recv s (some size)) (.ok d) ⟨.data d :: q, fs, sn⟩ ⟨q, fs, sn⟩ := by
  intro w h
  have hq : w.conns.getD s.id [] = .data d :: q := h.queue
  refine ⟨{ w with conns := setAt w.conns s.id q, log := w.log ++ [.recv s.id (some size) (some d.length)] },
    ?_, ⟨h.faults, by simpa [setAt_length] using h.isOpen, by rw [getD_setAt]; simp [h.isOpen],
      by simp [sentOf_append, sentOf, h.sent]⟩⟩
  simp only [recv, hq, hudp, Bool.false_eq_true, ↓reduceIte, Option.getD_some, List.take_of_length_le hl]

/-- a datagram is received truncated to the buffer size -/
theorem steps_recv_take (s : Sock) (hudp : s.tcp = false) (size : Nat) (d : Bytes)
    (q : List Delivery) (fs : List Bool) (sn : List (Bytes × Bool)) :
    Steps s (recv s (some size)) (.ok (d.take size)) ⟨.data d :: q, fs, sn⟩ ⟨q, fs, sn⟩ := by
  intro w h
  have hq : w.conns.getD s.id [] = .data d :: q := h.queue
  refine ⟨{ w with conns := setAt w.conns s.id q, log := w.log ++ [.recv s.id (some size) (some (d.take size).length)] },
    ?_, ⟨h.faults, by simpa [setAt_length] using h.isOpen, by rw [getD_setAt]; simp [h.isOpen],
      by simp [sentOf_append, sentOf, h.sent]⟩⟩
  simp only [recv, hq, hudp, Bool.false_eq_true, ↓reduceIte, Option.getD_some]

/-- silence: the receive times out -/
theorem steps_recv_silence (s : Sock) (size : Option Nat) (q : List Delivery) (fs : List Bool)
    (sn : List (Bytes × Bool)) :
    Steps s (recv s size) (.err .packetReceive) ⟨.silence :: q, fs, sn⟩ ⟨q, fs, sn⟩ := by
  intro w h
  have hq : w.conns.getD s.id [] = .silence :: q := h.queue
  refine ⟨{ w with conns := setAt w.conns s.id q, log := w.log ++ [.recv s.id size none] },
    ?_, ⟨h.faults, by simpa [setAt_length] using h.isOpen, by rw [getD_setAt]; simp [h.isOpen],
      by simp [sentOf_append, sentOf, h.sent]⟩⟩
  simp only [recv, hq]

/-- nothing queued on a UDP socket: the receive times out -/
theorem steps_recv_empty (s : Sock) (hudp : s.tcp = false) (size : Option Nat) (fs : List Bool)
    (sn : List (Bytes × Bool)) :
    Steps s (recv s size) (.err .packetReceive) ⟨[], fs, sn⟩ ⟨[], fs, sn⟩ := by
  intro w h
  have hq : w.conns.getD s.id [] = [] := h.queue
  refine ⟨{ w with log := w.log ++ [.recv s.id size none] },
    ?_, ⟨h.faults, h.isOpen, h.queue, by simp [sentOf_append, sentOf, h.sent]⟩⟩
  simp only [recv, hq, hudp, Bool.false_eq_true, ↓reduceIte]

/-! ### units made of one exchange -/

/-- send the request, receive one datagram, check it -/
def exchange1 {α : Type} (s : Sock) (req : Bytes) (size : Nat) (check : Bytes → Res α) : Q α :=
  send s req >>= fun _ => recv s (some size) >>= fun d => Q.lift (check d)

theorem attemptError_timeout (f : Bool) : (Faults.attemptError f).isTimeout = true := by
  cases f <;> rfl

/-- one failed attempt of a one-exchange unit -/
theorem steps_exchange1_fail {α : Type} (s : Sock) (req : Bytes) (size : Nat) (check : Bytes → Res α) (f : Bool)
    (q : List Delivery) (fs : List Bool) (sn : List (Bytes × Bool)) :
    Steps s (exchange1 s req size check) (.err (Faults.attemptError f))
      ⟨(if f then [] else [Delivery.silence]) ++ q, [f] ++ fs, sn⟩ ⟨q, fs, sn ++ [(req, f)]⟩ := by
  unfold exchange1
  cases f with
  | true => exact Steps.bind_err (steps_send_fault s req q fs sn)
  | false =>
    exact Steps.bind (steps_send_ok s req _ fs sn) (Steps.bind_err (steps_recv_silence s _ q fs _))

/-- the attempt that is answered by the datagram `d` -/
theorem steps_exchange1_answer {α : Type} (s : Sock) (hudp : s.tcp = false) (req : Bytes) (size : Nat)
    (check : Bytes → Res α) (d : Bytes) (hl : d.length ≤ size) (q : List Delivery) (fs : List Bool)
    (sn : List (Bytes × Bool)) :
    Steps s (exchange1 s req size check) (check d) ⟨[.data d] ++ q, [false] ++ fs, sn⟩ ⟨q, fs, sn ++ [(req, false)]⟩ := by
  unfold exchange1
  exact Steps.bind (steps_send_ok s req _ fs sn) (Steps.bind (steps_recv s hudp size d hl q fs _) (Steps.lift s _ _))

theorem flatMap_singleton {α β : Type} (g : α → β) (l : List α) : l.flatMap (fun a => [g a]) = l.map g := by
  induction l with
  | nil => rfl
  | cons a r ih => simp [List.flatMap_cons, ih]

/-- A one-exchange unit under `retry_on_timeout` on the script of a plan in C10's domain: the outcome is the plan's
(`check` of the answer — which is never retried — after at most `retries` failures, or the last failure's error after
`retries + 1`), exactly the plan's deliveries and flags are consumed, exactly its requests sent; anything may follow. -/
theorem steps_exchange1_plan {α : Type} (s : Sock) (hudp : s.tcp = false) (req : Bytes) (size : Nat)
    (check : Bytes → Res α) (retries : Nat) (p : Faults.Plan1) (hp : p.wf retries size = true)
    (hcheck : ∀ d k, p.answer = some d → check d = .err k → k.isTimeout = false)
    (q : List Delivery) (fs : List Bool) (sn : List (Bytes × Bool)) :
    Steps s (retryOnTimeout retries (exchange1 s req size check)) (p.outcome check)
      ⟨p.deliveries ++ q, p.faults ++ fs, sn⟩ ⟨q, fs, sn ++ p.sends req⟩ := by
  obtain ⟨fails, answer⟩ := p
  have hflat : fails.flatMap (fun f => [f]) = fails := flatMap_singleton id fails |>.trans (List.map_id _)
  have hmap : fails.flatMap (fun f => [(req, f)]) = fails.map fun f => (req, f) := flatMap_singleton _ fails
  cases answer with
  | some d =>
    simp only [Faults.Plan1.wf, Bool.and_eq_true, decide_eq_true_eq] at hp
    have h := Steps.retry_recovers (f := exchange1 s req size check)
      (fun f : Bool => if f then [] else [Delivery.silence]) (fun f => [f]) (fun f => [(req, f)]) Faults.attemptError
      attemptError_timeout (fun a q fs sn => steps_exchange1_fail s req size check a q fs sn)
      (R := check d) (fun k hk => hcheck d k rfl hk) ([.data d] ++ q) q ([false] ++ fs) fs [(req, false)]
      (fun sn => steps_exchange1_answer s hudp req size check d hp.2 q fs sn) fails retries sn hp.1
    rw [hflat, hmap] at h
    simpa [Faults.Plan1.deliveries, Faults.Plan1.faults, Faults.Plan1.sends, Faults.Plan1.outcome,
      List.append_assoc] using h
  | none =>
    simp only [Faults.Plan1.wf, beq_iff_eq] at hp
    have h := Steps.retry_exhausted (f := exchange1 s req size check)
      (fun f : Bool => if f then [] else [Delivery.silence]) (fun f => [f]) (fun f => [(req, f)]) Faults.attemptError
      attemptError_timeout (fun a q fs sn => steps_exchange1_fail s req size check a q fs sn) q fs retries fails sn hp
    rw [hflat, hmap] at h
    simpa [Faults.Plan1.deliveries, Faults.Plan1.faults, Faults.Plan1.sends, Faults.Plan1.outcome] using h

/-- A whole query of the shape "open a UDP socket, run a one-exchange unit under `retry_on_timeout`, decode": on the
script of a plan (followed by anything) its result is the plan's outcome passed to the decoder, and what it sent are the
plan's requests. -/
theorem query1_plan {α β : Type} (port retries : Nat) (req : Bytes) (size : Nat) (check : Bytes → Res α)
    (k : α → Res β) (p : Faults.Plan1) (hp : p.wf retries size = true)
    (hcheck : ∀ d e, p.answer = some d → check d = .err e → e.isTimeout = false)
    (restQ : List Delivery) (restF : List Bool) :
    ((openSock false port >>= fun s =>
        retryOnTimeout retries (exchange1 s req size check) >>= fun a => Q.lift (k a))
      (Net.init [.opened (p.deliveries ++ restQ)] (p.faults ++ restF))).1 = (p.outcome check >>= k)
    ∧ sentOf ((openSock false port >>= fun s =>
        retryOnTimeout retries (exchange1 s req size check) >>= fun a => Q.lift (k a))
      (Net.init [.opened (p.deliveries ++ restQ)] (p.faults ++ restF))).2.log = p.sends req := by
  rw [Q.bind_apply]
  have ho : openSock false port (Net.init [.opened (p.deliveries ++ restQ)] (p.faults ++ restF))
      = (.ok ⟨0, port, false⟩, ⟨[], [p.deliveries ++ restQ], p.faults ++ restF, [.opened 0 false port false]⟩) := rfl
  rw [ho]
  have h := (Steps.bind_res (k := k) (g := fun a => Q.lift (k a))
    (steps_exchange1_plan ⟨0, port, false⟩ rfl req size check retries p hp hcheck restQ restF [])
    (fun a _ => Steps.lift _ _ _)).outcome
    ⟨[], [p.deliveries ++ restQ], p.faults ++ restF, [.opened 0 false port false]⟩ ⟨rfl, by simp, by simp, rfl⟩
  simpa using h

/-- A whole query of the shape "open a UDP socket, then `f` on it" on a script of one connection: result and sent list are
those of `f`'s `Steps` fact from the state in which the script is queued and nothing has been sent. -/
theorem openUdp_outcome {α : Type} (port : Nat) (f : Sock → Q α) (r : Res α) (q : List Delivery) (fs : List Bool)
    (σ' : St) (h : Steps ⟨0, port, false⟩ (f ⟨0, port, false⟩) r ⟨q, fs, []⟩ σ') :
    ((openSock false port >>= f) (Net.init [.opened q] fs)).1 = r
    ∧ sentOf ((openSock false port >>= f) (Net.init [.opened q] fs)).2.log = σ'.sent := by
  rw [Q.bind_apply]
  have ho : openSock false port (Net.init [.opened q] fs)
      = (.ok ⟨0, port, false⟩, ⟨[], [q], fs, [.opened 0 false port false]⟩) := rfl
  rw [ho]
  exact h.outcome ⟨[], [q], fs, [.opened 0 false port false]⟩ ⟨rfl, by simp, by simp, rfl⟩

/-- every datagram sent is the request; there are as many as attempts -/
theorem Plan1.sends_length (req : Bytes) (p : Faults.Plan1) : (p.sends req).length = p.attempts := by
  obtain ⟨fails, answer⟩ := p
  cases answer <;> simp [Faults.Plan1.sends, Faults.Plan1.attempts]

theorem Plan1.sends_all (req : Bytes) (p : Faults.Plan1) : ∀ e ∈ p.sends req, e.1 = req := by
  obtain ⟨fails, answer⟩ := p
  intro e he
  cases answer with
  | none =>
    simp only [Faults.Plan1.sends, List.append_nil, List.mem_map] at he
    obtain ⟨f, _, rfl⟩ := he; rfl
  | some d =>
    simp only [Faults.Plan1.sends, List.mem_append, List.mem_map, List.mem_singleton] at he
    rcases he with ⟨f, _, rfl⟩ | rfl <;> rfl

/-- the last of `r + 1` timeout-class failures decides between `PacketReceive` and `PacketSend` -/
theorem lastError_attempt (fails : List Bool) (f : Bool) :
    Faults.lastError Faults.attemptError (fails ++ [f]) = (if f then .packetSend else .packetReceive) := by
  induction fails with
  | nil => rfl
  | cons b r ih =>
    cases r with
    | nil => rfl
    | cons c r' => simpa [Faults.lastError] using ih

/-! ### computations that only receive: independent of the fault flags, nothing sent -/

/-- `f` neither reads nor changes the send-fault flags, and sends nothing -/
structure RecvOnly (f : Q α) : Prop where
  frame : ∀ (w : Net) (fs : List Bool), f { w with faults := fs } = ((f w).1, { (f w).2 with faults := fs })
  quiet : ∀ w : Net, ∃ added, (f w).2.log = w.log ++ added ∧ sentOf added = []
  conns : ∀ w : Net, (f w).2.faults = w.faults

namespace RecvOnly

theorem pure (a : α) : RecvOnly (Pure.pure a : Q α) :=
  ⟨fun _ _ => rfl, fun w => ⟨[], by simp, rfl⟩, fun _ => rfl⟩

theorem lift (r : Res α) : RecvOnly (Q.lift r) :=
  ⟨fun _ _ => rfl, fun w => ⟨[], by simp [Q.lift], rfl⟩, fun _ => rfl⟩

theorem parse (p : Par α) (data : Bytes) : RecvOnly (Gd.parse p data) := lift _

theorem recv (s : Sock) (size : Option Nat) : RecvOnly (Gd.recv s size) := by
  refine ⟨?_, ?_, ?_⟩
  · intro w fs
    unfold Gd.recv
    simp only
    split
    · rfl
    · rfl
    · split <;> rfl
  · intro w
    unfold Gd.recv
    split
    · exact ⟨_, rfl, rfl⟩
    · exact ⟨_, rfl, rfl⟩
    · split <;> exact ⟨_, rfl, rfl⟩
  · intro w
    unfold Gd.recv
    split
    · rfl
    · rfl
    · split <;> rfl

theorem bind {f : Q α} {g : α → Q β} (hf : RecvOnly f) (hg : ∀ a, RecvOnly (g a)) : RecvOnly (f >>= g) := by
  refine ⟨?_, ?_, ?_⟩
  · intro w fs
    rw [Q.bind_apply, Q.bind_apply, hf.frame w fs]
    cases h : f w with
    | mk res w1 =>
      cases res with
      | ok a => simp only; exact (hg a).frame w1 fs
      | err k => rfl
      | crash => rfl
  · intro w
    rw [Q.bind_apply]
    obtain ⟨a1, e1, s1⟩ := hf.quiet w
    cases h : f w with
    | mk res w1 =>
      rw [h] at e1
      cases res with
      | ok a =>
        obtain ⟨a2, e2, s2⟩ := (hg a).quiet w1
        exact ⟨a1 ++ a2, by simp only; rw [e2, e1, List.append_assoc], by rw [sentOf_append, s1, s2]; rfl⟩
      | err k => exact ⟨a1, e1, s1⟩
      | crash => exact ⟨a1, e1, s1⟩
  · intro w
    rw [Q.bind_apply]
    have c1 := hf.conns w
    cases h : f w with
    | mk res w1 =>
      rw [h] at c1
      cases res with
      | ok a => simp only; rw [(hg a).conns w1, c1]
      | err k => exact c1
      | crash => exact c1

theorem ite {c : Prop} [Decidable c] {p q : Q α} (hp : RecvOnly p) (hq : RecvOnly q) :
    RecvOnly (if c then p else q) := by
  split <;> assumption

end RecvOnly

end Gd
