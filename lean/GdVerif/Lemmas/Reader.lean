import GdVerif.Lemmas.Par
import GdVerif.Lemmas.Codec
import GdVerif.Proto.ReaderOps
/-
  Lemmas about the primitive reads and string decoders.
-/
namespace Gd

/-! ### fixed-width reads -/

theorem readUnsigned_ok {e : Endian} {w : Nat} {b : Buf} (h : w ≤ b.remaining) :
    readUnsigned e w b = .ok (e.decode (b.rest.take w), b.advance w) := by
  simp [readUnsigned, Nat.not_lt.mpr h]

theorem readUnsigned_err {e : Endian} {w : Nat} {b : Buf} (h : b.remaining < w) :
    readUnsigned e w b = .err .packetUnderflow := by
  simp [readUnsigned, h]

theorem safe_readUnsigned (e : Endian) (w : Nat) : Safe (readUnsigned e w) := by
  intro b
  unfold readUnsigned
  split <;> simp [Post]

theorem safe_readSigned (e : Endian) (w : Nat) : Safe (readSigned e w) := by
  intro b
  have := safe_readUnsigned e w b
  unfold readSigned
  cases h : readUnsigned e w b with
  | ok x => obtain ⟨n, b'⟩ := x; rw [h] at this; simpa [Post] using this
  | err k => trivial
  | crash => rw [h] at this; exact this

theorem safe_readU8 : Safe readU8 := safe_readUnsigned _ _

theorem safe_readByte : Safe readByte := by
  intro b
  unfold readByte
  split <;> simp [Post]

theorem decodes_readUnsigned (e : Endian) (w n : Nat) (h : n < 256 ^ w) :
    Decodes (readUnsigned e w) (e.encode w n) n := by
  intro b post hr
  have hl : w ≤ b.remaining := by
    simp [Buf.remaining, hr, Endian.encode_length]
  refine ⟨b.advance w, ?_, ?_, by simp⟩
  · rw [readUnsigned_ok hl, hr]
    have : (e.encode w n ++ post).take w = e.encode w n := by
      rw [List.take_append_of_le_length (by simp [Endian.encode_length])]
      exact List.take_of_length_le (by simp [Endian.encode_length])
    rw [this, Endian.decode_encode e w n h]
  · have := Buf.advance_append b (e.encode w n) post hr
    rwa [Endian.encode_length] at this

theorem decodes_readU8 (x : UInt8) : Decodes readU8 [x] x.toNat := by
  have := decodes_readUnsigned .little 1 x.toNat (by have := x.toNat_lt; omega)
  simpa [Endian.encode, natLE, readU8] using this

theorem decodes_readByte (x : UInt8) : Decodes readByte [x] x := by
  intro b post hr
  refine ⟨b.advance 1, ?_, by simp [hr], by simp⟩
  simp [readByte, hr]

theorem progress_readUnsigned (e : Endian) (w : Nat) (hw : 0 < w) : Progress (readUnsigned e w) := by
  intro b a b' h
  unfold readUnsigned at h
  split at h
  · cases h
  · cases h
    simp [Buf.remaining, Buf.advance] at *
    omega

/-! ### cursor moves -/

theorem safe_moveCursor (off : Int) : Safe (moveCursor off) := by
  intro b
  unfold moveCursor
  simp only
  split
  · trivial
  · split <;> simp [Post]

theorem safe_switchEndianChunk (n : Nat) : Safe (switchEndianChunk n) := by
  intro b
  unfold switchEndianChunk
  split <;> simp [Post]

theorem decodes_skip (e : Bytes) : Decodes (moveCursor (e.length : Int)) e () := by
  intro b post hr
  refine ⟨b.advance e.length, ?_, Buf.advance_append b e post hr, by simp⟩
  unfold moveCursor
  have h1 : ¬ ((b.pos : Int) + (e.length : Int) < 0) := by omega
  have h2 : ¬ ((b.pos : Int) + (e.length : Int) > (b.len : Int)) := by
    simp [Buf.len, Buf.pos, hr]; omega
  simp [h1, h2]

/-! ### strings -/

theorem findByte_le (d : UInt8) (sl : Bytes) : findByte d sl ≤ sl.length := by
  induction sl with
  | nil => simp [findByte]
  | cons b r ih => simp only [findByte]; split <;> simp <;> omega

theorem findByte_append (d : UInt8) (s post : Bytes) (h : d ∉ s) :
    findByte d (s ++ d :: post) = s.length := by
  induction s with
  | nil => simp [findByte]
  | cons b r ih =>
    simp only [List.mem_cons, not_or] at h
    have hb : (b == d) = false := by
      simp only [beq_eq_false_iff_ne, ne_eq]
      exact fun hbd => h.1 hbd.symm
    simp [findByte, hb, ih h.2]

theorem findByte_none (d : UInt8) (s : Bytes) (h : d ∉ s) : findByte d s = s.length := by
  induction s with
  | nil => simp [findByte]
  | cons b r ih =>
    simp only [List.mem_cons, not_or] at h
    have hb : (b == d) = false := by
      simp only [beq_eq_false_iff_ne, ne_eq]
      exact fun hbd => h.1 hbd.symm
    simp [findByte, hb, ih h.2]

theorem safe_readStringWith (dec : Bytes → Res (Bytes × Nat)) (h : ∀ sl, (dec sl).isCrash = false) :
    Safe (readStringWith dec) := by
  intro b
  unfold readStringWith
  have := h b.rest
  cases hd : dec b.rest with
  | ok x => obtain ⟨s, n⟩ := x; simp [Post]
  | err k => trivial
  | crash => simp [hd, Res.isCrash] at this

theorem utf8Dec_noCrash (d : UInt8) (sl : Bytes) : (utf8Dec d sl).isCrash = false := by
  unfold utf8Dec
  simp only
  split <;> rfl

theorem utf8LenDec_noCrash (d : UInt8) (sl : Bytes) : (utf8LenDec d sl).isCrash = false := by
  unfold utf8LenDec
  split
  · rfl
  · simp only; split <;> rfl

theorem utf16Dec_noCrash (e : Endian) (d0 d1 : UInt8) (sl : Bytes) : (utf16Dec e d0 d1 sl).isCrash = false := by
  unfold utf16Dec
  simp only
  split <;> rfl

theorem safe_readCStr : Safe readCStr := safe_readStringWith _ (utf8Dec_noCrash 0)
theorem safe_readStrUntil (d : UInt8) : Safe (readStrUntil d) := safe_readStringWith _ (utf8Dec_noCrash d)
theorem safe_readLenStr : Safe readLenStr := safe_readStringWith _ (utf8LenDec_noCrash 0)
theorem safe_readUtf16 (e : Endian) : Safe (readUtf16 e) := safe_readStringWith _ (utf16Dec_noCrash e 0 0)

/-- a terminated string: exactly the string and its delimiter are consumed -/
theorem decodes_readStrUntil (d : UInt8) (s : Bytes) (hd : d ∉ s) (hv : validUtf8 s = true) :
    Decodes (readStrUntil d) (s ++ [d]) s := by
  intro b post hr
  have hr' : b.rest = s ++ d :: post := by simpa [List.append_assoc] using hr
  refine ⟨b.advance (s.length + 1), ?_, ?_, by simp⟩
  · unfold readStrUntil readStringWith utf8Dec
    simp only [hr', findByte_append d s post hd, List.take_left', hv]
    have : min (s.length + 1) (s ++ d :: post).length = s.length + 1 := by
      simp
    simp
  · have := Buf.advance_append b (s ++ [d]) post hr
    simpa using this

theorem decodes_readCStr (s : Bytes) (hd : (0 : UInt8) ∉ s) (hv : validUtf8 s = true) :
    Decodes readCStr (s ++ [0]) s := decodes_readStrUntil 0 s hd hv

end Gd
