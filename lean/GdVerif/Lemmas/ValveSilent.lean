import GdVerif.Lemmas.QBounds
import GdVerif.Lemmas.ValveBlock
import GdVerif.Lemmas.ValveCost
/-
  Valve, additions used by the game wrappers (The Ship, Battalion 1944, FFOW): the whole query
  including socket creation as a `Cost` / `Block` judgement, the sharp blocking bound `3 r + 2` (the
  players and rules requests are only made once the info request has succeeded, i.e. after at most
  `r` failed attempts), and the silent server for the whole query.
-/
namespace Gd.Valve
open Gd

theorem cost_query (ext : Ext) (port : Nat) (engine : Engine) (g : Gather) (r : Nat) :
    Cost ((3 * (r + 1) : Nat) : Int) ((3 * (r + 1) : Nat) : Int) (query ext port engine g r) := by
  rw [query_eq]
  exact (Cost.bind (Cost.openSock false port) fun s => cost_queryBody ext s engine g r).weaken (by omega) (by omega)

theorem block_queryBody_sharp (ext : Ext) (s : Sock) (engine : Engine) (g : Gather) (r : Nat) :
    Block (3 * r + 2) (3 * r + 2) (queryBody ext s engine g r) := by
  unfold queryBody getServerInfo getServerPlayers getServerRules requestData
  have hsec : ∀ {α : Type} (protocol : Nat) (req : Request) (p : Par α),
      Block r (r + 1)
        (retryOnTimeout r (requestImpl ext s engine protocol req.kind req.defaultPayload) >>= fun data => parse p data) := by
    intro α protocol req p
    exact (Block.bind (Block.retrySharp (block_requestImpl ext s engine protocol req.kind req.defaultPayload) r)
      fun data => Block.parse p data).weaken (by omega) (by omega)
  have hsec' : ∀ {α : Type} (protocol : Nat) (req : Request) (p : Par α),
      Block (r + 1) (r + 1)
        (retryOnTimeout r (requestImpl ext s engine protocol req.kind req.defaultPayload) >>= fun data => parse p data) :=
    fun protocol req p => (hsec protocol req p).weaken (by omega) (by omega)
  have h := Block.bind (hsec 0 .info (parseInfo engine)) fun info =>
    Block.ite (c := (!appIdOk engine g info.appid) = true)
      ((Block.fail (α := Response) ErrKind.badGame).weaken (Nat.zero_le (2 * (r + 1))) (Nat.zero_le (2 * (r + 1))))
      ((Block.bind (Block.maybeGather (hsec' info.protocolVersion .players (parsePlayers engine)) g.players) fun players =>
        Block.bind (Block.maybeGather (hsec' info.protocolVersion .rules (parseRules engine)) g.rules) fun rules =>
          Block.pure (⟨info, players, rules⟩ : Response)).weaken (by omega) (by omega))
  exact h.weaken (by omega) (by omega)

theorem block_query_sharp (ext : Ext) (port : Nat) (engine : Engine) (g : Gather) (r : Nat) :
    Block (3 * r + 2) (3 * r + 2) (query ext port engine g r) := by
  rw [query_eq]
  exact (Block.bind (Block.openSock false port) fun s => block_queryBody_sharp ext s engine g r).weaken
    (by omega) (by omega)

/-- one attempt of a request against a silent server: the request is sent, the receive times out -/
theorem silent_requestImpl (ext : Ext) (s : Sock) (engine : Engine) (protocol kind : Nat) (payload : Bytes) :
    SilentAttempt s 1 (requestImpl ext s engine protocol kind payload) := by
  unfold requestImpl
  refine SilentAttempt.seq (k2 := 0) (SilentSends.send s _) fun _ => SilentAttempt.bind_left ?_ _
  rw [receive_eq]
  exact (SilentAttempt.recv s _).bind_left _

/-- the info request is not behind a gather toggle: its failure is the query's -/
theorem silent_query (ext : Ext) (port : Nat) (engine : Engine) (g : Gather) (r : Nat) (w : Net) (hf : w.faults = [])
    (hp : PendingSilent false (r + 1) w.pending) :
    SilentOutcome w (query ext port engine g r w) (r + 1) (r + 1) := by
  rw [query_eq]
  unfold queryBody getServerInfo requestData
  exact SilentRun.openSock (fun s _ =>
    (((silent_requestImpl ext s engine 0 _ _).retry1 r).bind_left _).bind_left _) port w hf hp

end Gd.Valve
