import GdVerif.Lemmas.QBounds
import GdVerif.Proto.Minecraft
/-
  How many packets the Minecraft queries send.  Nothing a server sends earns a further request, so
  the bounds are absolute: Java 3 per attempt (handshake, status request, ping), Bedrock and each
  legacy variant 1 per attempt; the fall-through queries add up their variants (each on its own
  socket): legacy 3, auto-detect 3 + 1 + 3 = 7.
-/
namespace Gd

theorem Sends.orElse {first : Q α} {f : α → β} {rest : Q β} {k1 k2 : Nat}
    (h1 : Sends k1 first) (h2 : Sends k2 rest) : Sends (k1 + k2) (Mc.orElse first f rest) := by
  intro w
  obtain ⟨a1, hl1, hc1⟩ := h1 w
  unfold Mc.orElse
  cases hqw : first w with
  | mk res w1 =>
    rw [hqw] at hl1
    cases res with
    | ok a => exact ⟨a1, hl1, by omega⟩
    | crash => exact ⟨a1, hl1, by omega⟩
    | err k =>
      obtain ⟨a2, hl2, hc2⟩ := h2 w1
      exact ⟨a1 ++ a2, by simp only; rw [hl2, hl1, List.append_assoc], by rw [nSends_append]; omega⟩

namespace Mc

theorem sends_javaSend (s : Sock) (data : Bytes) : Sends 1 (javaSend s data) := Sends.send s _

theorem sends_javaSendHandshake (s : Sock) (st : RequestSettings) : Sends 1 (javaSendHandshake s st) := by
  unfold javaSendHandshake
  exact (Sends.bind (Sends.lift (javaHandshakePayload st s.port)) fun p => sends_javaSend s p).weaken (by omega)

theorem sends_javaReceive (s : Sock) : Sends 0 (javaReceive s) := by
  unfold javaReceive
  exact Sends.bind (k2 := 0) (Sends.recv s none) fun d => Sends.parse javaUnframe d

theorem sends_javaGetInfoImpl (ext : Ext) (s : Sock) (st : RequestSettings) : Sends 3 (javaGetInfoImpl ext s st) := by
  unfold javaGetInfoImpl javaSendStatusRequest javaSendPingRequest
  exact Sends.bind (k1 := 1) (k2 := 2) (sends_javaSendHandshake s st) fun _ =>
    Sends.bind (k1 := 1) (k2 := 1) (sends_javaSend s _) fun _ =>
      Sends.bind (k1 := 1) (k2 := 0) (sends_javaSend s _) fun _ =>
        Sends.bind (k1 := 0) (k2 := 0) (sends_javaReceive s) fun sd => Sends.parse (javaParse ext) sd

theorem sends_queryJava (ext : Ext) (port : Nat) (st : RequestSettings) (r : Nat) :
    Sends (3 * (r + 1)) (queryJava ext port st r) := by
  unfold queryJava
  have h := Sends.bind (Sends.openSock true port) fun s => Sends.retry (sends_javaGetInfoImpl ext s st) r
  exact h.weaken (by omega)

theorem sends_bedrockGetInfoImpl (s : Sock) : Sends 1 (bedrockGetInfoImpl s) := by
  unfold bedrockGetInfoImpl
  exact Sends.bind (k2 := 0) (Sends.send s _) fun _ =>
    Sends.bind (k2 := 0) (Sends.recv s none) fun d => Sends.parse _ d

theorem sends_queryBedrock (port r : Nat) : Sends (r + 1) (queryBedrock port r) := by
  unfold queryBedrock
  have h := Sends.bind (Sends.openSock false port) fun s => Sends.retry (sends_bedrockGetInfoImpl s) r
  exact h.weaken (by omega)

theorem sends_legacyGetInfoImpl (g : LegacyGroup) (s : Sock) : Sends 1 (legacyGetInfoImpl g s) := by
  unfold legacyGetInfoImpl
  exact Sends.bind (k2 := 0) (Sends.send s _) fun _ =>
    Sends.bind (k2 := 0) (Sends.recv s none) fun d => Sends.parse _ d

theorem sends_queryLegacySpecific (g : LegacyGroup) (port r : Nat) : Sends (r + 1) (queryLegacySpecific g port r) := by
  unfold queryLegacySpecific
  have h := Sends.bind (Sends.openSock true port) fun s => Sends.retry (sends_legacyGetInfoImpl g s) r
  exact h.weaken (by omega)

theorem sends_queryLegacy (port r : Nat) : Sends (3 * (r + 1)) (queryLegacy port r) := by
  unfold queryLegacy
  have h := Sends.orElse (f := id) (sends_queryLegacySpecific .v1_6 port r) <|
    Sends.orElse (f := id) (sends_queryLegacySpecific .v1_4 port r) <|
      Sends.orElse (f := id) (sends_queryLegacySpecific .vb1_8 port r) (Sends.fail .autoQuery)
  exact h.weaken (by omega)

theorem sends_queryAuto (ext : Ext) (port : Nat) (st : RequestSettings) (r : Nat) :
    Sends (7 * (r + 1)) (queryAuto ext port st r) := by
  unfold queryAuto
  have h := Sends.orElse (f := id) (sends_queryJava ext port st r) <|
    Sends.orElse (f := JavaResponse.fromBedrock) (sends_queryBedrock port r) <|
      Sends.orElse (f := id) (sends_queryLegacy port r) (Sends.fail .autoQuery)
  exact h.weaken (by omega)

end Mc
end Gd
