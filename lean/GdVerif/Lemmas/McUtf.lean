import GdVerif.Lemmas.McText
import GdVerif.Proto.Minecraft
/-
  UTF-16 / UTF-8 round trips on Unicode scalar values, and the UTF-16 string decoder of the packet
  reader (`readUtf16`) on text a server encodes as UTF-16BE code units.
-/
namespace Gd

def Scalars (cs : List Nat) : Prop := ∀ c ∈ cs, isScalar c = true

theorem isScalar_iff (c : Nat) : isScalar c = true ↔ (c < 0xD800 ∨ (0xE000 ≤ c ∧ c < 0x110000)) := by
  simp [isScalar]

theorem Scalars.cons {c : Nat} {cs : List Nat} (h : Scalars (c :: cs)) : isScalar c = true ∧ Scalars cs :=
  ⟨h c (by simp), fun x hx => h x (by simp [hx])⟩

theorem Scalars.append {a b : List Nat} (ha : Scalars a) (hb : Scalars b) : Scalars (a ++ b) := by
  intro c hc
  rcases List.mem_append.mp hc with h | h
  · exact ha c h
  · exact hb c h

theorem Scalars.left {a b : List Nat} (h : Scalars (a ++ b)) : Scalars a := fun c hc => h c (by simp [hc])
theorem Scalars.right {a b : List Nat} (h : Scalars (a ++ b)) : Scalars b := fun c hc => h c (by simp [hc])

/-! ### UTF-16 -/

theorem utf16Encode_cons (c : Nat) (cs : List Nat) : utf16Encode (c :: cs) = utf16EncodeChar c ++ utf16Encode cs := by
  simp [utf16Encode]

theorem utf16Encode_append (a b : List Nat) : utf16Encode (a ++ b) = utf16Encode a ++ utf16Encode b := by
  simp [utf16Encode]

theorem utf16Decode_encode (cs : List Nat) (h : Scalars cs) : utf16Decode (utf16Encode cs) = some cs := by
  induction cs with
  | nil => rfl
  | cons c r ih =>
    obtain ⟨hc, hr⟩ := h.cons
    have hc' := (isScalar_iff c).mp hc
    rw [utf16Encode_cons]
    unfold utf16EncodeChar
    by_cases hlt : c < 0x10000
    · simp only [hlt, ↓reduceIte, List.singleton_append]
      unfold utf16Decode
      have : (c < 0xD800 || 0xE000 ≤ c) = true := by
        simp only [Bool.or_eq_true, decide_eq_true_eq]; omega
      simp only [this, ↓reduceIte, ih hr, Option.map_some]
    · simp only [hlt, ↓reduceIte, List.cons_append, List.nil_append]
      have hsum : 0x10000 + ((0xD800 + (c - 0x10000) / 1024) - 0xD800) * 1024 + ((0xDC00 + (c - 0x10000) % 1024) - 0xDC00) = c := by
        omega
      have hb1 : 0xD800 ≤ 0xD800 + (c - 0x10000) / 1024 ∧ 0xD800 + (c - 0x10000) / 1024 < 0xDC00 := by omega
      have hb2 : 0xDC00 ≤ 0xDC00 + (c - 0x10000) % 1024 ∧ 0xDC00 + (c - 0x10000) % 1024 < 0xE000 := by omega
      generalize 0xD800 + (c - 0x10000) / 1024 = hi at hsum hb1
      generalize 0xDC00 + (c - 0x10000) % 1024 = lo at hsum hb2
      unfold utf16Decode
      have h1 : (hi < 0xD800 || 0xE000 ≤ hi) = false := by
        simp only [Bool.or_eq_false_iff, decide_eq_false_iff_not]; omega
      have h2 : hi < 0xDC00 := hb1.2
      have h3 : (0xDC00 ≤ lo && lo < 0xE000) = true := by
        simp only [Bool.and_eq_true, decide_eq_true_eq]; omega
      rw [if_neg (by rw [h1]; simp), if_pos h2]
      simp only [h3, ↓reduceIte, ih hr, Option.map_some, hsum]

theorem utf16Encode_lt (cs : List Nat) (h : Scalars cs) : ∀ u ∈ utf16Encode cs, u < 65536 := by
  induction cs with
  | nil => simp [utf16Encode]
  | cons c r ih =>
    obtain ⟨hc, hr⟩ := h.cons
    have hc' := (isScalar_iff c).mp hc
    intro u hu
    rw [utf16Encode_cons] at hu
    rcases List.mem_append.mp hu with h1 | h1
    · unfold utf16EncodeChar at h1
      split at h1
      · simp at h1; omega
      · simp at h1; omega
    · exact ih hr u h1

theorem utf16Encode_ne_zero (cs : List Nat) (h0 : 0 ∉ cs) : ∀ u ∈ utf16Encode cs, u ≠ 0 := by
  induction cs with
  | nil => simp [utf16Encode]
  | cons c r ih =>
    intro u hu
    rw [utf16Encode_cons] at hu
    simp only [List.mem_cons, not_or] at h0
    rcases List.mem_append.mp hu with h1 | h1
    · unfold utf16EncodeChar at h1
      split at h1
      · simp at h1; omega
      · simp at h1; omega
    · exact ih h0.2 u h1

/-! ### 16-bit units as bytes -/

theorem bytesOfUnits_cons (e : Endian) (u : Nat) (us : List Nat) :
    bytesOfUnits e (u :: us) = e.encode 2 u ++ bytesOfUnits e us := by
  simp [bytesOfUnits]

theorem bytesOfUnits_append (e : Endian) (a b : List Nat) :
    bytesOfUnits e (a ++ b) = bytesOfUnits e a ++ bytesOfUnits e b := by
  simp [bytesOfUnits]

theorem bytesOfUnits_length (e : Endian) (us : List Nat) : (bytesOfUnits e us).length = 2 * us.length := by
  induction us with
  | nil => rfl
  | cons u r ih => rw [bytesOfUnits_cons, List.length_append, Endian.encode_length, ih]; simp; omega

/-- the two bytes of a unit -/
theorem encode2 (e : Endian) (u : Nat) : ∃ a b, e.encode 2 u = [a, b] := by
  have := Endian.encode_length e 2 u
  match h : e.encode 2 u, this with
  | [a, b], _ => exact ⟨a, b, rfl⟩

theorem unitsOf_bytesOfUnits (e : Endian) (us : List Nat) (h : ∀ u ∈ us, u < 65536) :
    unitsOf e (bytesOfUnits e us) = us := by
  induction us with
  | nil => rfl
  | cons u r ih =>
    obtain ⟨a, b, hab⟩ := encode2 e u
    rw [bytesOfUnits_cons, hab]
    simp only [List.cons_append, List.nil_append, unitsOf]
    rw [← hab, Endian.decode_encode e 2 u (by have := h u (by simp); omega), ih fun x hx => h x (by simp [hx])]

/-- a non-zero unit is not the NUL pair -/
theorem encode2_ne_zero (e : Endian) (u : Nat) (hu : u < 65536) (h0 : u ≠ 0) (a b : UInt8) (hab : e.encode 2 u = [a, b]) :
    (a == 0 && b == 0) = false := by
  cases hz : (a == 0 && b == 0) with
  | false => rfl
  | true =>
    exfalso
    simp only [Bool.and_eq_true, beq_iff_eq] at hz
    have hd := Endian.decode_encode e 2 u (by omega)
    rw [hab, hz.1, hz.2] at hd
    apply h0
    rw [← hd]
    cases e <;> rfl

theorem findPair_terminated (e : Endian) (us : List Nat) (hlt : ∀ u ∈ us, u < 65536) (hne : ∀ u ∈ us, u ≠ 0) (post : Bytes) :
    findPair 0 0 (bytesOfUnits e us ++ 0 :: 0 :: post) = some (2 * us.length) := by
  induction us with
  | nil => simp [bytesOfUnits, findPair]
  | cons u r ih =>
    obtain ⟨a, b, hab⟩ := encode2 e u
    have hz := encode2_ne_zero e u (hlt u (by simp)) (hne u (by simp)) a b hab
    rw [bytesOfUnits_cons, hab]
    simp only [List.cons_append, List.nil_append, findPair, hz, Bool.false_eq_true, ↓reduceIte]
    rw [ih (fun x hx => hlt x (by simp [hx])) (fun x hx => hne x (by simp [hx]))]
    simp only [Option.map_some, List.length_cons]
    congr 1

theorem findPair_none (e : Endian) (us : List Nat) (hlt : ∀ u ∈ us, u < 65536) (hne : ∀ u ∈ us, u ≠ 0) :
    findPair 0 0 (bytesOfUnits e us) = none := by
  induction us with
  | nil => simp [bytesOfUnits, findPair]
  | cons u r ih =>
    obtain ⟨a, b, hab⟩ := encode2 e u
    have hz := encode2_ne_zero e u (hlt u (by simp)) (hne u (by simp)) a b hab
    rw [bytesOfUnits_cons, hab]
    simp only [List.cons_append, List.nil_append, findPair, hz, Bool.false_eq_true, ↓reduceIte]
    rw [ih (fun x hx => hlt x (by simp [hx])) (fun x hx => hne x (by simp [hx]))]
    rfl

/-- a text as UTF-16 code units in byte order `e` -/
def utf16Bytes (e : Endian) (cs : List Nat) : Bytes := bytesOfUnits e (utf16Encode cs)

theorem utf16Bytes_append (e : Endian) (a b : List Nat) : utf16Bytes e (a ++ b) = utf16Bytes e a ++ utf16Bytes e b := by
  simp [utf16Bytes, utf16Encode_append, bytesOfUnits_append]

theorem utf16Bytes_length (e : Endian) (cs : List Nat) : (utf16Bytes e cs).length = 2 * (utf16Encode cs).length :=
  bytesOfUnits_length e _

/-- a NUL-terminated UTF-16 string: the reader returns the text (as UTF-8) and consumes text and terminator -/
theorem decodes_readUtf16 (e : Endian) (cs : List Nat) (hs : Scalars cs) (h0 : 0 ∉ cs) :
    Decodes (readUtf16 e) (utf16Bytes e cs ++ [0, 0]) (utf8Encode cs) := by
  intro b post hr
  have hr' : b.rest = utf16Bytes e cs ++ 0 :: 0 :: post := by simpa [List.append_assoc] using hr
  have hlt := utf16Encode_lt cs hs
  have hne := utf16Encode_ne_zero cs h0
  have hlen := utf16Bytes_length e cs
  refine ⟨b.advance (2 * (utf16Encode cs).length + 2), ?_, ?_, by simp⟩
  · unfold readUtf16 readStringWith utf16Dec
    simp only [hr', utf16Bytes, findPair_terminated e _ hlt hne post]
    have htake : (bytesOfUnits e (utf16Encode cs) ++ 0 :: 0 :: post).take (2 * (utf16Encode cs).length)
        = bytesOfUnits e (utf16Encode cs) := by
      rw [← bytesOfUnits_length e]; exact List.take_left' rfl
    rw [htake, unitsOf_bytesOfUnits e _ hlt, utf16Decode_encode cs hs]
    have hmin : min (2 * (utf16Encode cs).length + 2) (bytesOfUnits e (utf16Encode cs) ++ 0 :: 0 :: post).length
        = 2 * (utf16Encode cs).length + 2 := by
      simp [bytesOfUnits_length]
    simp only [hmin]
  · have := Buf.advance_append b (utf16Bytes e cs ++ [0, 0]) post hr
    simpa [hlen] using this

/-- the last string of a packet needs no terminator: the reader returns the text and stops at the end -/
theorem decodesEnd_readUtf16 (e : Endian) (cs : List Nat) (hs : Scalars cs) (h0 : 0 ∉ cs) :
    DecodesEnd (readUtf16 e) (utf16Bytes e cs) (utf8Encode cs) := by
  intro b hr
  have hlt := utf16Encode_lt cs hs
  have hne := utf16Encode_ne_zero cs h0
  refine ⟨b.advance (2 * (utf16Encode cs).length), ?_, by simp⟩
  unfold readUtf16 readStringWith utf16Dec
  simp only [hr, utf16Bytes, findPair_none e _ hlt hne, bytesOfUnits_length]
  have hmod : 2 * (utf16Encode cs).length - 2 * (utf16Encode cs).length % 2 = 2 * (utf16Encode cs).length := by omega
  rw [hmod]
  have htake : (bytesOfUnits e (utf16Encode cs)).take (2 * (utf16Encode cs).length) = bytesOfUnits e (utf16Encode cs) :=
    List.take_of_length_le (by rw [bytesOfUnits_length]; exact Nat.le_refl _)
  rw [htake, unitsOf_bytesOfUnits e _ hlt, utf16Decode_encode cs hs]
  have hmin : min (2 * (utf16Encode cs).length + 2) (2 * (utf16Encode cs).length) = 2 * (utf16Encode cs).length := by omega
  simp only [hmin]

/-! ### UTF-8 -/

theorem utf8Encode_cons (c : Nat) (cs : List Nat) : utf8Encode (c :: cs) = utf8EncodeChar c ++ utf8Encode cs := by
  simp [utf8Encode]

theorem utf8Encode_append (a b : List Nat) : utf8Encode (a ++ b) = utf8Encode a ++ utf8Encode b := by
  simp [utf8Encode]

theorem toNat_ofNat_lt (t : Nat) (h : t < 256) : (UInt8.ofNat t).toNat = t := by
  simp [UInt8.toNat_ofNat', Nat.mod_eq_of_lt h]

/-- decoding what was encoded, one scalar at a time (fuel: one unit per scalar) -/
theorem utf8DecodeAux_encode (cs : List Nat) (h : Scalars cs) : ∀ fuel, cs.length ≤ fuel →
    utf8DecodeAux fuel (utf8Encode cs) = cs := by
  induction cs with
  | nil => intro fuel _; cases fuel <;> simp [utf8Encode, utf8DecodeAux]
  | cons c r ih =>
    intro fuel hf
    obtain ⟨hc, hr⟩ := h.cons
    have hc' := (isScalar_iff c).mp hc
    cases fuel with
    | zero => simp at hf
    | succ f =>
      have ihf := ih hr f (by simp at hf; omega)
      rw [utf8Encode_cons]
      unfold utf8EncodeChar
      by_cases h1 : c < 0x80
      · simp only [h1, ↓reduceIte, List.singleton_append, utf8DecodeAux, toNat_ofNat_lt c (by omega), ihf]
      · by_cases h2 : c < 0x800
        · have e0 := toNat_ofNat_lt (0xC0 + c / 64) (by omega)
          have e1 := toNat_ofNat_lt (0x80 + c % 64) (by omega)
          have hv : (0xC0 + c / 64 - 0xC0) * 64 + (0x80 + c % 64 - 0x80) = c := by omega
          simp only [h1, h2, ↓reduceIte, List.cons_append, List.nil_append]
          generalize UInt8.ofNat (0xC0 + c / 64) = b0 at e0 ⊢
          generalize UInt8.ofNat (0x80 + c % 64) = b1 at e1 ⊢
          rw [utf8DecodeAux, if_neg (by omega), if_pos (by omega), ihf, e0, e1, hv]
        · by_cases h3 : c < 0x10000
          · have e0 := toNat_ofNat_lt (0xE0 + c / 4096) (by omega)
            have e1 := toNat_ofNat_lt (0x80 + c / 64 % 64) (by omega)
            have e2 := toNat_ofNat_lt (0x80 + c % 64) (by omega)
            have hv : (0xE0 + c / 4096 - 0xE0) * 4096 + (0x80 + c / 64 % 64 - 0x80) * 64 + (0x80 + c % 64 - 0x80) = c := by omega
            simp only [h1, h2, h3, ↓reduceIte, List.cons_append, List.nil_append]
            generalize UInt8.ofNat (0xE0 + c / 4096) = b0 at e0 ⊢
            generalize UInt8.ofNat (0x80 + c / 64 % 64) = b1 at e1 ⊢
            generalize UInt8.ofNat (0x80 + c % 64) = b2 at e2 ⊢
            rw [utf8DecodeAux, if_neg (by omega), if_neg (by omega), if_pos (by omega)]
            dsimp only
            rw [ihf, e0, e1, e2, hv]
          · have e0 := toNat_ofNat_lt (0xF0 + c / 262144) (by omega)
            have e1 := toNat_ofNat_lt (0x80 + c / 4096 % 64) (by omega)
            have e2 := toNat_ofNat_lt (0x80 + c / 64 % 64) (by omega)
            have e3 := toNat_ofNat_lt (0x80 + c % 64) (by omega)
            have hv : (0xF0 + c / 262144 - 0xF0) * 262144 + (0x80 + c / 4096 % 64 - 0x80) * 4096
                + (0x80 + c / 64 % 64 - 0x80) * 64 + (0x80 + c % 64 - 0x80) = c := by omega
            simp only [h1, h2, h3, ↓reduceIte, List.cons_append, List.nil_append]
            generalize UInt8.ofNat (0xF0 + c / 262144) = b0 at e0 ⊢
            generalize UInt8.ofNat (0x80 + c / 4096 % 64) = b1 at e1 ⊢
            generalize UInt8.ofNat (0x80 + c / 64 % 64) = b2 at e2 ⊢
            generalize UInt8.ofNat (0x80 + c % 64) = b3 at e3 ⊢
            rw [utf8DecodeAux, if_neg (by omega), if_neg (by omega), if_neg (by omega)]
            dsimp only
            rw [ihf, e0, e1, e2, e3, hv]

theorem utf8EncodeChar_length_pos (c : Nat) : 1 ≤ (utf8EncodeChar c).length := by
  unfold utf8EncodeChar
  repeat (first | split | simp)

theorem utf8Encode_length_ge (cs : List Nat) : cs.length ≤ (utf8Encode cs).length := by
  induction cs with
  | nil => simp [utf8Encode]
  | cons c r ih =>
    rw [utf8Encode_cons, List.length_append, List.length_cons]
    have := utf8EncodeChar_length_pos c
    omega

/-- UTF-8 decoding inverts encoding on scalar values -/
theorem utf8Decode_encode (cs : List Nat) (h : Scalars cs) : utf8Decode (utf8Encode cs) = cs :=
  utf8DecodeAux_encode cs h _ (utf8Encode_length_ge cs)

/-- ASCII text as scalar values (`Spec.scalarsOf`) encodes to itself -/
theorem utf8Encode_ascii (s : Bytes) (h : ∀ b ∈ s, b.toNat < 0x80) : utf8Encode (s.map (·.toNat)) = s := by
  induction s with
  | nil => rfl
  | cons b r ih =>
    have hb := h b (by simp)
    rw [List.map_cons, utf8Encode_cons, ih fun x hx => h x (by simp [hx])]
    unfold utf8EncodeChar
    simp [hb]

theorem scalars_ascii (s : Bytes) (h : ∀ b ∈ s, b.toNat < 0x80) : Scalars (s.map (·.toNat)) := by
  intro c hc
  obtain ⟨b, hb, rfl⟩ := List.mem_map.mp hc
  have := h b hb
  rw [isScalar_iff]; omega

theorem IsDigits.ascii {s : Bytes} (h : IsDigits s) : ∀ b ∈ s, b.toNat < 0x80 := fun b hb => by have := h b hb; omega

theorem IsDigits.not_mem {s : Bytes} (h : IsDigits s) (c : Nat) (hc : c < 48 ∨ 57 < c) : c ∉ s.map (·.toNat) := by
  intro hm
  obtain ⟨b, hb, rfl⟩ := List.mem_map.mp hm
  have := h b hb
  omega

/-! ### splitting -/

theorem splitScalars_none (d : Nat) (a : List Nat) (h : d ∉ a) : Mc.splitScalars d a = [a] := by
  induction a with
  | nil => rfl
  | cons c r ih =>
    simp only [List.mem_cons, not_or] at h
    have hc : (c == d) = false := by simp; exact fun e => h.1 e.symm
    simp [Mc.splitScalars, hc, ih h.2]

theorem splitScalars_sep (d : Nat) (a rest : List Nat) (h : d ∉ a) :
    Mc.splitScalars d (a ++ d :: rest) = a :: Mc.splitScalars d rest := by
  induction a with
  | nil => simp [Mc.splitScalars]
  | cons c r ih =>
    simp only [List.mem_cons, not_or] at h
    have hc : (c == d) = false := by simp; exact fun e => h.1 e.symm
    simp [Mc.splitScalars, hc, ih h.2]

/-! ### concatenating valid UTF-8 -/

def VuIH (n : Nat) : Prop := ∀ (a b : Bytes), a.length ≤ n → validUtf8 a = true → validUtf8 b = true → validUtf8 (a ++ b) = true

theorem vu_two {n : Nat} (ih : VuIH n) (b : Bytes) (hb : validUtf8 b = true) (P : UInt8 → Bool) (r : Bytes)
    (h : (match r with
            | b1 :: r => P b1 && validUtf8 r
            | _ => false) = true) (hl : r.length ≤ n) :
    (match r ++ b with
      | b1 :: r => P b1 && validUtf8 r
      | _ => false) = true := by
  match r, hl, h with
  | [], _, h => simp at h
  | b1 :: r', hl, h =>
    simp only [List.length_cons] at hl
    simp only [Bool.and_eq_true, List.cons_append] at h ⊢
    exact ⟨h.1, ih r' b (by omega) h.2 hb⟩

theorem vu_three {n : Nat} (ih : VuIH n) (b : Bytes) (hb : validUtf8 b = true) (P Q : UInt8 → Bool) (r : Bytes)
    (h : (match r with
            | b1 :: b2 :: r => P b1 && Q b2 && validUtf8 r
            | _ => false) = true) (hl : r.length ≤ n) :
    (match r ++ b with
      | b1 :: b2 :: r => P b1 && Q b2 && validUtf8 r
      | _ => false) = true := by
  match r, hl, h with
  | [], _, h => simp at h
  | [_], _, h => simp at h
  | b1 :: b2 :: r', hl, h =>
    simp only [List.length_cons] at hl
    simp only [Bool.and_eq_true, List.cons_append] at h ⊢
    exact ⟨h.1, ih r' b (by omega) h.2 hb⟩

theorem vu_four {n : Nat} (ih : VuIH n) (b : Bytes) (hb : validUtf8 b = true) (P Q R : UInt8 → Bool) (r : Bytes)
    (h : (match r with
            | b1 :: b2 :: b3 :: r => P b1 && Q b2 && R b3 && validUtf8 r
            | _ => false) = true) (hl : r.length ≤ n) :
    (match r ++ b with
      | b1 :: b2 :: b3 :: r => P b1 && Q b2 && R b3 && validUtf8 r
      | _ => false) = true := by
  match r, hl, h with
  | [], _, h => simp at h
  | [_], _, h => simp at h
  | [_, _], _, h => simp at h
  | b1 :: b2 :: b3 :: r', hl, h =>
    simp only [List.length_cons] at hl
    simp only [Bool.and_eq_true, List.cons_append] at h ⊢
    exact ⟨h.1, ih r' b (by omega) h.2 hb⟩

theorem validUtf8_append_aux : ∀ (n : Nat), VuIH n := by
  intro n
  induction n with
  | zero =>
    intro a b hl ha hb
    have : a = [] := List.eq_nil_of_length_eq_zero (by omega)
    subst this; simpa using hb
  | succ n ih =>
    intro a b hl ha hb
    match a, hl, ha with
    | [], _, _ => simpa using hb
    | b0 :: r, hl, ha =>
      simp only [List.length_cons] at hl
      have hl' : r.length ≤ n := by omega
      rw [List.cons_append]
      unfold validUtf8
      unfold validUtf8 at ha
      by_cases c1 : b0.toNat < 0x80
      · simp only [c1, ↓reduceIte] at ha ⊢
        exact ih r b (by omega) ha hb
      simp only [c1, ↓reduceIte] at ha ⊢
      split
      · rename_i c; rw [if_pos c] at ha; exact vu_two ih b hb _ r ha hl'
      rename_i c; rw [if_neg c] at ha
      split
      · rename_i c; rw [if_pos c] at ha; exact vu_three ih b hb _ _ r ha hl'
      rename_i c; rw [if_neg c] at ha
      split
      · rename_i c; rw [if_pos c] at ha; exact vu_three ih b hb _ _ r ha hl'
      rename_i c; rw [if_neg c] at ha
      split
      · rename_i c; rw [if_pos c] at ha; exact vu_three ih b hb _ _ r ha hl'
      rename_i c; rw [if_neg c] at ha
      split
      · rename_i c; rw [if_pos c] at ha; exact vu_four ih b hb _ _ _ r ha hl'
      rename_i c; rw [if_neg c] at ha
      split
      · rename_i c; rw [if_pos c] at ha; exact vu_four ih b hb _ _ _ r ha hl'
      rename_i c; rw [if_neg c] at ha
      split
      · rename_i c; rw [if_pos c] at ha; exact vu_four ih b hb _ _ _ r ha hl'
      rename_i c; rw [if_neg c] at ha
      exact ha

theorem validUtf8_append (a b : Bytes) (ha : validUtf8 a = true) (hb : validUtf8 b = true) : validUtf8 (a ++ b) = true :=
  validUtf8_append_aux a.length a b (Nat.le_refl _) ha hb

theorem validUtf8_ascii (s : Bytes) (h : ∀ b ∈ s, b.toNat < 0x80) : validUtf8 s = true := by
  induction s with
  | nil => rfl
  | cons b r ih =>
    unfold validUtf8
    simp only [h b (by simp), ↓reduceIte]
    exact ih fun x hx => h x (by simp [hx])

end Gd
