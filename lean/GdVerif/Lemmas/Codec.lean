import GdVerif.Base
/-
  Number codec lemmas: little/big-endian encode/decode are mutually inverse.
-/
namespace Gd

theorem natLE_length (w n : Nat) : (natLE w n).length = w := by
  induction w generalizing n with
  | zero => rfl
  | succ w ih => simp [natLE, ih]

theorem UInt8.toNat_ofNat_mod (n : Nat) : (UInt8.ofNat (n % 256)).toNat = n % 256 := by
  simp [UInt8.toNat_ofNat']

theorem leNat_natLE (w n : Nat) : leNat (natLE w n) = n % 256 ^ w := by
  induction w generalizing n with
  | zero => simp [natLE, leNat, Nat.mod_one]
  | succ w ih =>
    simp only [natLE, leNat, ih]
    rw [UInt8.toNat_ofNat_mod, Nat.pow_succ, Nat.mul_comm (256 ^ w) 256, Nat.mod_mul]

theorem leNat_lt (bs : Bytes) : leNat bs < 256 ^ bs.length := by
  induction bs with
  | nil => simp [leNat]
  | cons b r ih =>
    simp only [leNat, List.length_cons, Nat.pow_succ]
    have := b.toNat_lt
    omega

theorem beNat_eq_leNat_reverse (bs : Bytes) : beNat bs = leNat bs.reverse := by
  unfold beNat
  suffices h : ∀ (acc : Nat) (l : Bytes),
      l.foldl (fun acc b => acc * 256 + b.toNat) acc = leNat l.reverse + acc * 256 ^ l.length by
    simpa using h 0 bs
  intro acc l
  induction l generalizing acc with
  | nil => simp [leNat]
  | cons b r ih =>
    simp only [List.foldl_cons, List.reverse_cons, List.length_cons]
    rw [ih]
    have happ : ∀ (xs : Bytes) (y : UInt8), leNat (xs ++ [y]) = leNat xs + y.toNat * 256 ^ xs.length := by
      intro xs y
      induction xs with
      | nil => simp [leNat]
      | cons x xs ihx =>
        simp only [List.cons_append, leNat, ihx, List.length_cons, Nat.pow_succ]
        rw [Nat.mul_add]
        have : 256 * (y.toNat * 256 ^ xs.length) = y.toNat * (256 ^ xs.length * 256) := by
          rw [Nat.mul_comm (256 ^ xs.length) 256, ← Nat.mul_assoc, ← Nat.mul_assoc, Nat.mul_comm 256 y.toNat]
        omega
    rw [happ, List.length_reverse, Nat.pow_succ, Nat.add_mul]
    have : acc * 256 * 256 ^ r.length = acc * (256 ^ r.length * 256) := by
      rw [Nat.mul_assoc, Nat.mul_comm 256 (256 ^ r.length)]
    omega

theorem beNat_natBE (w n : Nat) : beNat (natBE w n) = n % 256 ^ w := by
  rw [beNat_eq_leNat_reverse, natBE, List.reverse_reverse, leNat_natLE]

theorem Endian.encode_length (e : Endian) (w n : Nat) : (e.encode w n).length = w := by
  cases e <;> simp [Endian.encode, natBE, natLE_length]

theorem Endian.decode_encode (e : Endian) (w n : Nat) (h : n < 256 ^ w) : e.decode (e.encode w n) = n := by
  cases e
  · simp [Endian.decode, Endian.encode, leNat_natLE, Nat.mod_eq_of_lt h]
  · simp [Endian.decode, Endian.encode, beNat_natBE, Nat.mod_eq_of_lt h]

theorem Endian.decode_lt (e : Endian) (bs : Bytes) : e.decode bs < 256 ^ bs.length := by
  cases e
  · exact leNat_lt bs
  · simp only [Endian.decode, beNat_eq_leNat_reverse]
    have := leNat_lt bs.reverse
    simpa using this

/-- two's complement: reinterpreting and re-encoding is the identity -/
theorem ofSigned_toSigned (bits n : Nat) (hb : 0 < bits) (h : n < 2 ^ bits) :
    ofSigned bits (toSigned bits n) = n := by
  unfold ofSigned toSigned
  have hp : (2 : Nat) ^ bits = 2 * 2 ^ (bits - 1) := by
    cases bits with
    | zero => omega
    | succ k => simp [Nat.pow_succ, Nat.mul_comm]
  split
  · rw [Int.emod_eq_of_lt (by omega) (by omega)]; simp
  · have : ((n : Int) - ((2 ^ bits : Nat) : Int)) % ((2 ^ bits : Nat) : Int) = (n : Int) := by
      rw [Int.sub_emod, Int.emod_self, Int.sub_zero, Int.emod_emod_of_dvd _ (Int.dvd_refl _)]
      exact Int.emod_eq_of_lt (by omega) (by omega)
    rw [this]; simp

end Gd
