import GdVerif.Lemmas.QBounds
import GdVerif.Proto.Gs1
/-
  How many datagrams the GameSpy 1 query sends: one (`\status\xserverquery`) per attempt; listening
  for the further parts of the answer never sends anything.
-/
namespace Gd.Gs1
open Gd Gd.Gs

theorem sends_recvLoop (s : Sock) : ∀ (fuel : Nat) (st : LoopSt), Sends 0 (recvLoop s fuel st) := by
  intro fuel
  induction fuel with
  | zero => intro st w; exact ⟨[], by simp [recvLoop], by simp [nSends]⟩
  | succ fuel ih =>
    intro st
    unfold recvLoop
    refine Sends.ite (Sends.pure _) ?_
    exact Sends.bind (k2 := 0) (Sends.recv s _) fun data =>
      Sends.bind (k2 := 0) (Sends.lift (processPacket st data)) fun st' => ih st'

theorem sends_getServerValuesImpl (s : Sock) : Sends 1 (getServerValuesImpl s) := by
  unfold getServerValuesImpl
  exact Sends.bind (k2 := 0) (Sends.send s _) fun _ w => sends_recvLoop s (queued s w + 1) LoopSt.init w

theorem sends_queryVars (port retries : Nat) : Sends (retries + 1) (queryVars port retries) := by
  unfold queryVars
  have h := Sends.bind (Sends.openSock false port) fun s => Sends.retry (sends_getServerValuesImpl s) retries
  exact h.weaken (by omega)

theorem sends_query (port retries : Nat) : Sends (retries + 1) (query port retries) := by
  unfold query
  exact Sends.bind (k2 := 0) (sends_queryVars port retries) fun vars => Sends.lift _

end Gd.Gs1
