import GdVerif.Lemmas.QSteps
import GdVerif.Spec.FaultsN
/-
  `Steps` rules for units made of several requests and one read (`exchangeN`), on a UDP or a TCP socket.
-/
namespace Gd
open Gd.Faults

/-- send the requests in order; the first failure ends it -/
def sendAll (s : Sock) : List Bytes → Q Unit
  | [] => pure ()
  | d :: r => send s d >>= fun _ => sendAll s r

/-- send the requests, read once, check what arrived -/
def exchangeN {α : Type} (s : Sock) (reqs : List Bytes) (size : Option Nat) (check : Bytes → Res α) : Q α :=
  sendAll s reqs >>= fun _ => recv s size >>= fun d => Q.lift (check d)

theorem steps_sendAll_ok (s : Sock) (q : List Delivery) (fs : List Bool) :
    ∀ (reqs : List Bytes) (sn : List (Bytes × Bool)),
      Steps s (sendAll s reqs) (.ok ()) ⟨q, List.replicate reqs.length false ++ fs, sn⟩
        ⟨q, fs, sn ++ reqs.map (·, false)⟩ := by
  intro reqs
  induction reqs with
  | nil => intro sn; simpa [sendAll] using Steps.pure s () ⟨q, fs, sn⟩
  | cons d r ih =>
    intro sn
    have h1 := steps_send_ok s d q (List.replicate r.length false ++ fs) sn
    have h2 := ih (sn ++ [(d, false)])
    have := Steps.bind (g := fun _ => sendAll s r) h1 h2
    simpa [sendAll, List.replicate_succ, List.append_assoc] using this

/-- request number `j` cannot be sent: the earlier ones went out -/
theorem steps_sendAll_fault (s : Sock) (q : List Delivery) (fs : List Bool) :
    ∀ (reqs : List Bytes) (j : Nat) (sn : List (Bytes × Bool)), j < reqs.length →
      Steps s (sendAll s reqs) (.err .packetSend) ⟨q, List.replicate j false ++ true :: fs, sn⟩
        ⟨q, fs, sn ++ flagLast (reqs.take (j + 1)) true⟩ := by
  intro reqs
  induction reqs with
  | nil => intro j sn h; simp at h
  | cons d r ih =>
    intro j sn hj
    cases j with
    | zero =>
      have := Steps.bind_err (g := fun _ => sendAll s r) (steps_send_fault s d q fs sn)
      simpa [sendAll, flagLast] using this
    | succ j =>
      have h1 := steps_send_ok s d q (List.replicate j false ++ true :: fs) sn
      have h2 := ih j (sn ++ [(d, false)]) (by simpa using hj)
      have := Steps.bind (g := fun _ => sendAll s r) h1 h2
      have hfl : flagLast (d :: r.take (j + 1)) true = (d, false) :: flagLast (r.take (j + 1)) true := by
        cases r with
        | nil => simp at hj
        | cons d' r' => simp [flagLast]
      simpa [sendAll, List.replicate_succ, List.append_assoc, hfl] using this

theorem flagLast_false' (ds : List Bytes) : flagLast ds false = ds.map (·, false) := by
  induction ds with
  | nil => rfl
  | cons d r ih =>
    cases r with
    | nil => rfl
    | cons d' r' => simp only [flagLast, ih, List.map_cons]

/-- a datagram that fits the buffer / whatever the peer wrote on the stream is read whole -/
theorem steps_recv_whole (s : Sock) (size : Option Nat) (d : Bytes) (h : s.tcp = true ∨ d.length ≤ size.getD 1024)
    (q : List Delivery) (fs : List Bool) (sn : List (Bytes × Bool)) :
    Steps s (recv s size) (.ok d) ⟨.data d :: q, fs, sn⟩ ⟨q, fs, sn⟩ := by
  intro w hw
  have hq : w.conns.getD s.id [] = .data d :: q := hw.queue
  have hd : (if s.tcp then d else d.take (size.getD 1024)) = d := by
    rcases h with h | h
    · simp [h]
    · simp [List.take_of_length_le h]
  refine ⟨{ w with conns := setAt w.conns s.id q, log := w.log ++ [.recv s.id size (some d.length)] },
    ?_, ⟨hw.faults, by simpa [setAt_length] using hw.isOpen, by rw [getD_setAt]; simp [hw.isOpen],
      by simp [sentOf_append, sentOf, hw.sent]⟩⟩
  simp only [recv, hq, hd]

/-- the peer has closed the stream: the read returns nothing (and the stream stays closed) -/
theorem steps_recv_closed (s : Sock) (htcp : s.tcp = true) (size : Option Nat) (fs : List Bool)
    (sn : List (Bytes × Bool)) :
    Steps s (recv s size) (.ok []) ⟨[], fs, sn⟩ ⟨[], fs, sn⟩ := by
  intro w hw
  have hq : w.conns.getD s.id [] = [] := hw.queue
  refine ⟨{ w with log := w.log ++ [.recv s.id size (some 0)] },
    ?_, ⟨hw.faults, hw.isOpen, hw.queue, by simp [sentOf_append, sentOf, hw.sent]⟩⟩
  simp only [recv, hq, htcp, ↓reduceIte]

theorem AttemptN.error_timeout (a : AttemptN) : a.error.isTimeout = true := attemptError_timeout _

/-- one failed attempt -/
theorem steps_exchangeN_fail {α : Type} (s : Sock) (reqs : List Bytes) (size : Option Nat) (check : Bytes → Res α)
    (a : AttemptN) (ha : a.wf reqs.length = true) (q : List Delivery) (fs : List Bool) (sn : List (Bytes × Bool)) :
    Steps s (exchangeN s reqs size check) (.err a.error) ⟨a.deliveries ++ q, a.faults ++ fs, sn⟩
      ⟨q, fs, sn ++ a.sends reqs⟩ := by
  obtain ⟨j, f⟩ := a
  unfold exchangeN
  cases f with
  | true =>
    have hj : j < reqs.length := by simpa [AttemptN.wf] using ha
    have := Steps.bind_err (g := fun _ => recv s size >>= fun d => Q.lift (check d))
      (steps_sendAll_fault s q fs reqs j sn hj)
    simpa [AttemptN.deliveries, AttemptN.faults, AttemptN.sends, AttemptN.error, attemptError, List.append_assoc] using this
  | false =>
    have hj : j = reqs.length := by simpa [AttemptN.wf] using ha
    subst hj
    have h1 := steps_sendAll_ok s (.silence :: q) fs reqs sn
    have h2 := Steps.bind_err (g := fun d => Q.lift (check d)) (steps_recv_silence s size q fs (sn ++ reqs.map (·, false)))
    have := Steps.bind (g := fun _ => recv s size >>= fun d => Q.lift (check d)) h1 h2
    simpa [AttemptN.deliveries, AttemptN.faults, AttemptN.sends, AttemptN.error, attemptError, flagLast_false'] using this

/-- the attempt that is answered by `d` -/
theorem steps_exchangeN_answer {α : Type} (s : Sock) (reqs : List Bytes) (size : Option Nat) (check : Bytes → Res α)
    (d : Bytes) (hd : s.tcp = true ∨ d.length ≤ size.getD 1024) (q : List Delivery) (fs : List Bool)
    (sn : List (Bytes × Bool)) :
    Steps s (exchangeN s reqs size check) (check d) ⟨[.data d] ++ q, List.replicate reqs.length false ++ fs, sn⟩
      ⟨q, fs, sn ++ reqs.map (·, false)⟩ := by
  unfold exchangeN
  exact Steps.bind (steps_sendAll_ok s _ fs reqs sn)
    (Steps.bind (steps_recv_whole s size d hd q fs _) (Steps.lift s _ _))

/-- the attempt that finds the stream closed (TCP): an empty read goes to the check -/
theorem steps_exchangeN_closed {α : Type} (s : Sock) (htcp : s.tcp = true) (reqs : List Bytes) (size : Option Nat)
    (check : Bytes → Res α) (fs : List Bool) (sn : List (Bytes × Bool)) :
    Steps s (exchangeN s reqs size check) (check []) ⟨[], List.replicate reqs.length false ++ fs, sn⟩
      ⟨[], fs, sn ++ reqs.map (·, false)⟩ := by
  unfold exchangeN
  exact Steps.bind (steps_sendAll_ok s _ fs reqs sn)
    (Steps.bind (steps_recv_closed s htcp size fs _) (Steps.lift s _ _))

/-- the unit under `retry_on_timeout` on the script of a plan in C10's domain -/
theorem steps_exchangeN_plan {α : Type} (s : Sock) (reqs : List Bytes) (size : Option Nat) (check : Bytes → Res α)
    (retries : Nat) (p : PlanN) (fits : Bytes → Bool)
    (hfits : ∀ d, fits d = true → s.tcp = true ∨ d.length ≤ size.getD 1024)
    (hp : p.wf retries reqs.length fits = true)
    (hcheck : ∀ d k, p.answer = some d → check d = .err k → k.isTimeout = false)
    (q : List Delivery) (fs : List Bool) (sn : List (Bytes × Bool)) :
    Steps s (retryOnTimeout retries (exchangeN s reqs size check)) (p.outcome check)
      ⟨p.deliveries ++ q, p.faults reqs.length ++ fs, sn⟩ ⟨q, fs, sn ++ p.sends reqs⟩ := by
  obtain ⟨fails, answer⟩ := p
  simp only [PlanN.wf, Bool.and_eq_true, List.all_eq_true] at hp
  obtain ⟨hfails, hend⟩ := hp
  have hstep : ∀ a : AttemptN, a.wf reqs.length = true → ∀ q fs sn,
      Steps s (exchangeN s reqs size check) (.err a.error) ⟨a.deliveries ++ q, a.faults ++ fs, sn⟩
        ⟨q, fs, sn ++ a.sends reqs⟩ := fun a ha q fs sn => steps_exchangeN_fail s reqs size check a ha q fs sn
  cases answer with
  | some d =>
    simp only [Bool.and_eq_true, decide_eq_true_eq] at hend
    have h := Steps.retry_recovers_of (f := exchangeN s reqs size check) (fun a => a.wf reqs.length = true)
      AttemptN.deliveries AttemptN.faults (AttemptN.sends reqs) AttemptN.error AttemptN.error_timeout hstep
      (R := check d) (fun k hk => hcheck d k rfl hk) ([.data d] ++ q) q (List.replicate reqs.length false ++ fs) fs
      (reqs.map (·, false)) (fun sn => steps_exchangeN_answer s reqs size check d (hfits d hend.2) q fs sn)
      fails retries sn hfails hend.1
    simpa [PlanN.deliveries, PlanN.faults, PlanN.sends, PlanN.outcome, List.append_assoc] using h
  | none =>
    simp only [beq_iff_eq] at hend
    have h := Steps.retry_exhausted_of (f := exchangeN s reqs size check) (fun a => a.wf reqs.length = true)
      AttemptN.deliveries AttemptN.faults (AttemptN.sends reqs) AttemptN.error AttemptN.error_timeout hstep q fs
      retries fails sn hfails hend
    simpa [PlanN.deliveries, PlanN.faults, PlanN.sends, PlanN.outcome] using h

/-- A whole query "open a socket (UDP or TCP), then `f` on it" on a script of one connection -/
theorem open_outcome {α : Type} (tcp : Bool) (port : Nat) (f : Sock → Q α) (r : Res α) (q : List Delivery)
    (fs : List Bool) (σ' : St) (h : Steps ⟨0, port, tcp⟩ (f ⟨0, port, tcp⟩) r ⟨q, fs, []⟩ σ') :
    ((openSock tcp port >>= f) (Net.init [.opened q] fs)).1 = r
    ∧ sentOf ((openSock tcp port >>= f) (Net.init [.opened q] fs)).2.log = σ'.sent := by
  rw [Q.bind_apply]
  have ho : openSock tcp port (Net.init [.opened q] fs)
      = (.ok ⟨0, port, tcp⟩, ⟨[], [q], fs, [.opened 0 tcp port false]⟩) := rfl
  rw [ho]
  exact h.outcome ⟨[], [q], fs, [.opened 0 tcp port false]⟩ ⟨rfl, by simp, by simp, rfl⟩

/-- "open a socket, the unit under `retry_on_timeout`" on the script of a plan (followed by anything) -/
theorem queryN_plan {α : Type} (tcp : Bool) (port retries : Nat) (reqs : List Bytes) (size : Option Nat)
    (check : Bytes → Res α) (p : PlanN) (fits : Bytes → Bool)
    (hfits : ∀ d, fits d = true → tcp = true ∨ d.length ≤ size.getD 1024)
    (hp : p.wf retries reqs.length fits = true)
    (hcheck : ∀ d e, p.answer = some d → check d = .err e → e.isTimeout = false)
    (restQ : List Delivery) (restF : List Bool) :
    ((openSock tcp port >>= fun s => retryOnTimeout retries (exchangeN s reqs size check))
      (Net.init [.opened (p.deliveries ++ restQ)] (p.faults reqs.length ++ restF))).1 = p.outcome check
    ∧ sentOf ((openSock tcp port >>= fun s => retryOnTimeout retries (exchangeN s reqs size check))
      (Net.init [.opened (p.deliveries ++ restQ)] (p.faults reqs.length ++ restF))).2.log = p.sends reqs := by
  have h := open_outcome tcp port (fun s => retryOnTimeout retries (exchangeN s reqs size check)) _ _ _ _
    (steps_exchangeN_plan ⟨0, port, tcp⟩ reqs size check retries p fits hfits hp hcheck restQ restF [])
  simpa using h

/-- TCP: after failed attempts the peer CLOSES the stream (the script ends): the empty read goes to the check and, if the
check rejects it with an error that is not a timeout, ends the unit -/
theorem queryN_closed {α : Type} (port retries : Nat) (reqs : List Bytes) (size : Option Nat) (check : Bytes → Res α)
    (fails : List AttemptN) (hfails : ∀ a ∈ fails, a.wf reqs.length = true) (hk : fails.length ≤ retries)
    (hcheck : ∀ e, check [] = .err e → e.isTimeout = false) (restF : List Bool) :
    ((openSock true port >>= fun s => retryOnTimeout retries (exchangeN s reqs size check))
      (Net.init [.opened (fails.flatMap AttemptN.deliveries)]
        (fails.flatMap AttemptN.faults ++ (List.replicate reqs.length false ++ restF)))).1 = check []
    ∧ sentOf ((openSock true port >>= fun s => retryOnTimeout retries (exchangeN s reqs size check))
      (Net.init [.opened (fails.flatMap AttemptN.deliveries)]
        (fails.flatMap AttemptN.faults ++ (List.replicate reqs.length false ++ restF)))).2.log
      = fails.flatMap (AttemptN.sends reqs) ++ reqs.map (·, false) := by
  have hstep : ∀ a : AttemptN, a.wf reqs.length = true → ∀ q fs sn,
      Steps ⟨0, port, true⟩ (exchangeN ⟨0, port, true⟩ reqs size check) (.err a.error)
        ⟨a.deliveries ++ q, a.faults ++ fs, sn⟩ ⟨q, fs, sn ++ a.sends reqs⟩ :=
    fun a ha q fs sn => steps_exchangeN_fail _ reqs size check a ha q fs sn
  have h := Steps.retry_recovers_of (s := ⟨0, port, true⟩) (f := exchangeN ⟨0, port, true⟩ reqs size check)
    (fun a => a.wf reqs.length = true)
    AttemptN.deliveries AttemptN.faults (AttemptN.sends reqs) AttemptN.error AttemptN.error_timeout hstep
    (R := check []) (fun k hk => hcheck k hk) [] [] (List.replicate reqs.length false ++ restF) restF
    (reqs.map (·, false)) (fun sn => steps_exchangeN_closed ⟨0, port, true⟩ rfl reqs size check restF sn)
    fails retries [] hfails hk
  have := open_outcome true port (fun s => retryOnTimeout retries (exchangeN s reqs size check)) _ _ _ _ h
  simpa using this

/-! ### counting -/

theorem PlanN.sends_nil (reqs : List Bytes) (fails : List AttemptN) :
    (PlanN.mk fails none).sends reqs = fails.flatMap (AttemptN.sends reqs) := by simp [PlanN.sends]

theorem lastErrorN_append (fails : List AttemptN) (a : AttemptN) :
    lastError AttemptN.error (fails ++ [a]) = a.error := by
  induction fails with
  | nil => rfl
  | cons b r ih =>
    cases r with
    | nil => rfl
    | cons c r' => simpa [lastError] using ih

theorem lastErrorN_class (fails : List AttemptN) (h : fails ≠ []) :
    lastError AttemptN.error fails = .packetReceive ∨ lastError AttemptN.error fails = .packetSend := by
  obtain ⟨init, a, rfl⟩ : ∃ init a, fails = init ++ [a] := by
    cases hne : fails.reverse with
    | nil => simp at hne; exact absurd hne h
    | cons a r => exact ⟨r.reverse, a, by rw [← List.reverse_reverse fails, hne]; simp⟩
  rw [lastErrorN_append]
  obtain ⟨j, f⟩ := a
  cases f <;> simp [AttemptN.error, attemptError]

/-- every attempt that got as far as `send` put the first request on the wire exactly once (the requests of one
attempt are pairwise distinct from the first) -/
theorem firstRequests_attempt (r0 : Bytes) (rest : List Bytes) (hne : ∀ d ∈ rest, (d == r0) = false) (a : AttemptN)
    (ha : a.wf (r0 :: rest).length = true) : firstRequests (r0 :: rest) (a.sends (r0 :: rest)) = 1 := by
  obtain ⟨j, f⟩ := a
  have hcount : ∀ (l : List Bytes) (fl : Bool), (∀ d ∈ l, (d == r0) = false) →
      ((flagLast l fl).filter fun p => p.1 == r0).length = 0 := by
    intro l fl hl
    induction l with
    | nil => rfl
    | cons d r ih =>
      have hd := hl d (by simp)
      cases r with
      | nil => simp [flagLast, hd]
      | cons d' r' =>
        simp only [flagLast, List.filter_cons, hd]
        exact ih (fun x hx => hl x (by simp [hx]))
  unfold firstRequests AttemptN.sends
  cases f with
  | true =>
    simp only [↓reduceIte, List.take_succ_cons]
    cases hj : rest.take j with
    | nil => simp [flagLast]
    | cons d' r' =>
      simp only [flagLast, List.filter_cons, beq_self_eq_true, ↓reduceIte, List.length_cons]
      have := hcount (d' :: r') true (fun x hx => hne x (List.mem_of_mem_take (hj ▸ hx)))
      omega
  | false =>
    have hj : j = rest.length + 1 := by simpa [AttemptN.wf] using ha
    subst hj
    simp only [Bool.false_eq_true, ↓reduceIte, Nat.add_zero, List.take_succ_cons]
    cases hj : rest.take rest.length with
    | nil => simp [flagLast]
    | cons d' r' =>
      simp only [flagLast, List.filter_cons, beq_self_eq_true, ↓reduceIte, List.length_cons]
      have := hcount (d' :: r') false (fun x hx => hne x (List.mem_of_mem_take (hj ▸ hx)))
      omega

/-- a unit of ONE request: each attempt put it on the wire once, failed or not -/
theorem AttemptN.sends_one (req : Bytes) (a : AttemptN) (ha : a.wf 1 = true) : a.sends [req] = [(req, a.sendFault)] := by
  obtain ⟨j, f⟩ := a
  cases f with
  | true =>
    have : j = 0 := by simpa [AttemptN.wf] using ha
    subst this
    rfl
  | false =>
    have : j = 1 := by simpa [AttemptN.wf] using ha
    subst this
    rfl

theorem sends_one_flatMap (req : Bytes) (fails : List AttemptN) (h : ∀ a ∈ fails, a.wf 1 = true) :
    fails.flatMap (AttemptN.sends [req]) = fails.map (fun a => (req, a.sendFault)) := by
  induction fails with
  | nil => rfl
  | cons a r ih =>
    rw [List.flatMap_cons, AttemptN.sends_one req a (h a (by simp)), ih (fun b hb => h b (by simp [hb]))]
    rfl

/-! ### the three cases C10 names, for any unit of this shape -/

/-- how the read returns what arrives: whole on TCP, whole within the buffer on UDP -/
def fitsRead (tcp : Bool) (size : Option Nat) (d : Bytes) : Bool := tcp || decide (d.length ≤ size.getD 1024)

theorem fitsRead_spec (tcp : Bool) (size : Option Nat) (d : Bytes) (h : fitsRead tcp size d = true) :
    tcp = true ∨ d.length ≤ size.getD 1024 := by
  simpa [fitsRead] using h

/-- the query of this shape -/
def queryN {α : Type} (tcp : Bool) (port retries : Nat) (reqs : List Bytes) (size : Option Nat)
    (check : Bytes → Res α) : Q α :=
  openSock tcp port >>= fun s => retryOnTimeout retries (exchangeN s reqs size check)

theorem queryN_faulty {α : Type} (tcp : Bool) (port retries : Nat) (reqs : List Bytes) (size : Option Nat)
    (check : Bytes → Res α) (p : PlanN) (hp : p.wf retries reqs.length (fitsRead tcp size) = true)
    (hcheck : ∀ d e, p.answer = some d → check d = .err e → e.isTimeout = false)
    (restQ : List Delivery) (restF : List Bool) :
    (queryN tcp port retries reqs size check
      (Net.init [.opened (p.deliveries ++ restQ)] (p.faults reqs.length ++ restF))).1 = p.outcome check
    ∧ sentOf (queryN tcp port retries reqs size check
      (Net.init [.opened (p.deliveries ++ restQ)] (p.faults reqs.length ++ restF))).2.log = p.sends reqs :=
  queryN_plan tcp port retries reqs size check p _ (fitsRead_spec tcp size) hp hcheck restQ restF

theorem firstRequests_append (reqs : List Bytes) (a b : List (Bytes × Bool)) :
    firstRequests reqs (a ++ b) = firstRequests reqs a + firstRequests reqs b := by
  cases reqs <;> simp [firstRequests]

/-- attempts seen on the wire = attempts of the plan -/
theorem firstRequests_plan (r0 : Bytes) (rest : List Bytes) (hne : ∀ d ∈ rest, (d == r0) = false) (p : PlanN)
    (hfails : ∀ a ∈ p.fails, a.wf (r0 :: rest).length = true) :
    firstRequests (r0 :: rest) (p.sends (r0 :: rest)) = p.attempts := by
  obtain ⟨fails, answer⟩ := p
  have hf : firstRequests (r0 :: rest) (fails.flatMap (AttemptN.sends (r0 :: rest))) = fails.length := by
    induction fails with
    | nil => rfl
    | cons a r ih =>
      rw [List.flatMap_cons, firstRequests_append, firstRequests_attempt r0 rest hne a (hfails a (by simp)),
        ih (fun b hb => hfails b (by simp [hb]))]
      simp; omega
  have hv : firstRequests (r0 :: rest) ((r0 :: rest).map (·, false)) = 1 := by
    have := firstRequests_attempt r0 rest hne ⟨rest.length + 1, false⟩ (by simp [AttemptN.wf])
    simpa [AttemptN.sends, flagLast_false'] using this
  unfold PlanN.sends PlanN.attempts
  rw [firstRequests_append, hf]
  cases answer with
  | none => simp [firstRequests]
  | some d => simp only [hv, Option.isSome_some, ↓reduceIte]

/-- (a) RECOVERY: at most `retries` failed attempts, then `d`, which the check accepts with `v` -/
theorem queryN_recovers {α : Type} (tcp : Bool) (port retries : Nat) (reqs : List Bytes) (size : Option Nat)
    (check : Bytes → Res α) (d : Bytes) (v : α) (hv : check d = .ok v) (hfit : fitsRead tcp size d = true)
    (fails : List AttemptN) (hfails : ∀ a ∈ fails, a.wf reqs.length = true) (hk : fails.length ≤ retries)
    (restQ : List Delivery) (restF : List Bool) :
    let p : PlanN := ⟨fails, some d⟩
    let out := queryN tcp port retries reqs size check
      (Net.init [.opened (p.deliveries ++ restQ)] (p.faults reqs.length ++ restF))
    out.1 = .ok v ∧ sentOf out.2.log = fails.flatMap (AttemptN.sends reqs) ++ reqs.map (·, false) := by
  intro p out
  have hp : p.wf retries reqs.length (fitsRead tcp size) = true := by
    simp only [PlanN.wf, p, Bool.and_eq_true, List.all_eq_true, decide_eq_true_eq]
    exact ⟨hfails, hk, hfit⟩
  obtain ⟨h1, h2⟩ := queryN_faulty tcp port retries reqs size check p hp
    (fun d' e hd he => by
      have : d' = d := by simpa [p] using hd.symm
      subst this; rw [hv] at he; cases he) restQ restF
  exact ⟨h1.trans (by simp [p, PlanN.outcome, hv]), h2⟩

/-- (b) EXHAUSTION: `retries + 1` failed attempts -/
theorem queryN_exhausted {α : Type} (tcp : Bool) (port retries : Nat) (reqs : List Bytes) (size : Option Nat)
    (check : Bytes → Res α) (fails : List AttemptN) (hfails : ∀ a ∈ fails, a.wf reqs.length = true)
    (hk : fails.length = retries + 1) (restQ : List Delivery) (restF : List Bool) :
    let p : PlanN := ⟨fails, none⟩
    let out := queryN tcp port retries reqs size check
      (Net.init [.opened (p.deliveries ++ restQ)] (p.faults reqs.length ++ restF))
    out.1 = .err (lastError AttemptN.error fails)
    ∧ (out.1 = .err .packetReceive ∨ out.1 = .err .packetSend)
    ∧ sentOf out.2.log = fails.flatMap (AttemptN.sends reqs) := by
  intro p out
  have hp : p.wf retries reqs.length (fitsRead tcp size) = true := by
    simp only [PlanN.wf, p, Bool.and_eq_true, List.all_eq_true, beq_iff_eq]
    exact ⟨hfails, hk⟩
  obtain ⟨h1, h2⟩ := queryN_faulty tcp port retries reqs size check p hp (fun d e hd _ => by simp [p] at hd)
    restQ restF
  have h1' : out.1 = .err (lastError AttemptN.error fails) := h1
  refine ⟨h1', ?_, by rw [show sentOf out.2.log = _ from h2]; simp [p, PlanN.sends]⟩
  rw [h1']
  have hne : fails ≠ [] := by intro h0; subst h0; simp at hk
  rcases lastErrorN_class fails hne with e | e <;> simp [e]

/-- (c) MALFORMED: at most `retries` failed attempts, then `m`, which the check rejects with an error that is not a
timeout -/
theorem queryN_malformed {α : Type} (tcp : Bool) (port retries : Nat) (reqs : List Bytes) (size : Option Nat)
    (check : Bytes → Res α) (m : Bytes) (k : ErrKind) (hm : check m = .err k) (hkt : k.isTimeout = false)
    (hfit : fitsRead tcp size m = true) (fails : List AttemptN) (hfails : ∀ a ∈ fails, a.wf reqs.length = true)
    (hk : fails.length ≤ retries) (restQ : List Delivery) (restF : List Bool) :
    let p : PlanN := ⟨fails, some m⟩
    let out := queryN tcp port retries reqs size check
      (Net.init [.opened (p.deliveries ++ restQ)] (p.faults reqs.length ++ restF))
    out.1 = .err k ∧ sentOf out.2.log = fails.flatMap (AttemptN.sends reqs) ++ reqs.map (·, false) := by
  intro p out
  have hp : p.wf retries reqs.length (fitsRead tcp size) = true := by
    simp only [PlanN.wf, p, Bool.and_eq_true, List.all_eq_true, decide_eq_true_eq]
    exact ⟨hfails, hk, hfit⟩
  obtain ⟨h1, h2⟩ := queryN_faulty tcp port retries reqs size check p hp
    (fun d' e hd he => by
      have : d' = m := by simpa [p] using hd.symm
      subst this; rw [hm] at he; cases he; exact hkt) restQ restF
  exact ⟨h1.trans (by simp [p, PlanN.outcome, hm]), h2⟩

end Gd
