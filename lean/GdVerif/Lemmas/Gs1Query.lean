import GdVerif.Lemmas.Gs1Spec
/-
  GameSpy 1, part 3: the whole `query_vars` / `query` against a reply whose parts arrive in any
  order, or that is any sequence of datagrams drawn from the reply's parts.
-/
namespace Gd.Gs1
open Gd Gd.Gs Gd.Gs1.Spec

/-- a permutation of an image is the image of a permutation -/
theorem perm_map_inv {α β : Type} (f : α → β) : ∀ {l : List β} {P : List α}, l.Perm (P.map f) →
    ∃ P' : List α, P'.Perm P ∧ l = P'.map f := by
  intro l P h
  generalize hm : P.map f = m at h
  induction h generalizing P with
  | nil =>
    have : P = [] := List.map_eq_nil_iff.mp hm
    exact ⟨[], by rw [this], rfl⟩
  | cons x _ ih =>
    cases P with
    | nil => cases hm
    | cons a P2 =>
      simp only [List.map_cons, List.cons.injEq] at hm
      obtain ⟨P1, hp, e⟩ := ih hm.2
      exact ⟨a :: P1, List.Perm.cons a hp, by rw [e, ← hm.1]; rfl⟩
  | swap x y l =>
    cases P with
    | nil => cases hm
    | cons a P2 =>
      cases P2 with
      | nil => cases hm
      | cons b P3 =>
        simp only [List.map_cons, List.cons.injEq] at hm
        exact ⟨b :: a :: P3, List.Perm.swap a b P3, by rw [← hm.1, ← hm.2.1, ← hm.2.2]; rfl⟩
  | trans _ _ ih1 ih2 =>
    obtain ⟨P2, hp2, e2⟩ := ih2 hm
    obtain ⟨P1, hp1, e1⟩ := ih1 e2.symm
    exact ⟨P1, hp1.trans hp2, e1⟩

/-- the result of `query_vars` in terms of one attempt against a fresh script -/
theorem queryVars_of_attempt (port retries : Nat) (ds : List Bytes) (hlen : ∀ d ∈ ds, d.length ≤ 2048)
    (m : Map Bytes) (h : loopOn LoopSt.init ds = .ok m) :
    (queryVars port retries (Net.init (scriptOf ds) [])).1 = .ok m := by
  obtain ⟨s, w, ho, _, hl⟩ := attempt_eq_loopOn port ds hlen
  unfold queryVars
  rw [Q.bind_apply, ho]
  simp only
  exact retryOnTimeout_of_ok retries _ w m (hl.trans h)

theorem query_fst (port retries : Nat) (w : Net) :
    (query port retries w).1 = match (queryVars port retries w).1 with
      | .ok vars => buildResponse vars
      | .err k => .err k
      | .crash => .crash := by
  unfold query
  rw [Q.bind_apply]
  cases hq : queryVars port retries w with
  | mk res w' => cases res <;> rfl

/-- `query_vars`, parts in any order: exactly the variables sent -/
theorem queryVars_any_order {y : Style} {st : State} (h : Wf y st) (port retries : Nat) (arr : List Bytes)
    (hp : arr.Perm (script y st)) :
    (queryVars port retries (Net.init (scriptOf arr) [])).1 = .ok (canon (allPairs y st)) := by
  have hP := partsOk_partsOf h
  rw [script_eq] at hp
  obtain ⟨arrP, hperm, rfl⟩ := perm_map_inv _ hp
  apply queryVars_of_attempt
  · intro d hd
    apply h.sizes
    rw [script_eq]
    exact (hperm.map _).mem_iff.mp hd
  · rw [← allOf_partsOf]
    exact loopOn_perm hP (partsOf_ne_nil y st) arrP [] LoopSt.init (Inv.init y _) (by simpa using hperm)

/-- `query`, parts in any order, reduced to the typed decoding of the variables sent -/
theorem query_any_order {y : Style} {st : State} (h : Wf y st) (port retries : Nat) (arr : List Bytes)
    (hp : arr.Perm (script y st)) :
    (query port retries (Net.init (scriptOf arr) [])).1 = buildResponse (canon (allPairs y st)) := by
  rw [query_fst, queryVars_any_order h port retries arr hp]

end Gd.Gs1

namespace Gd.Gs1
open Gd Gd.Gs Gd.Gs1.Spec

/-! ### sequences of datagrams drawn from the reply, with retries -/

/-- the transport state a GameSpy 1 attempt may start from: UDP socket `s` open, no send faults
scripted, exactly the datagrams `ds` queued -/
structure Ready (s : Sock) (w : Net) (ds : List Bytes) : Prop where
  udp : s.tcp = false
  isOpen : s.id < w.conns.length
  queue : w.conns.getD s.id [] = ds.map Delivery.data
  nofault : w.faults = []

theorem recvLoop_state (s : Sock) : ∀ (ds : List Bytes) (fuel : Nat) (st : LoopSt) (w : Net), Ready s w ds →
    ∃ ds', Ready s (recvLoop s fuel st w).2 ds' ∧ (∀ d ∈ ds', d ∈ ds) := by
  intro ds
  induction ds with
  | nil =>
    intro fuel st w hr
    cases fuel with
    | zero => exact ⟨[], hr, fun _ h => h⟩
    | succ f =>
      unfold recvLoop
      split
      · exact ⟨[], hr, fun _ h => h⟩
      · rw [Q.bind_apply]
        obtain ⟨w1, hrecv, hc⟩ := recv_udp_empty s hr.udp w PACKET_SIZE (by simpa using hr.queue)
        have hf : w1.faults = w.faults := by
          have := congrArg (fun x => x.2.faults) hrecv
          simp only [recv] at this
          rw [show w.conns.getD s.id [] = [] by simpa using hr.queue] at this
          simp only [hr.udp, Bool.false_eq_true, ↓reduceIte] at this
          exact this.symm
        rw [hrecv]
        exact ⟨[], ⟨hr.udp, by rw [hc]; exact hr.isOpen, by rw [hc]; simpa using hr.queue, by rw [hf]; exact hr.nofault⟩,
          fun _ h => h⟩
  | cons d r ih =>
    intro fuel st w hr
    cases fuel with
    | zero => exact ⟨d :: r, hr, fun _ h => h⟩
    | succ f =>
      unfold recvLoop
      split
      · exact ⟨d :: r, hr, fun _ h => h⟩
      · rw [Q.bind_apply]
        obtain ⟨w1, hrecv, hc⟩ := recv_udp_data s hr.udp w d (r.map Delivery.data) PACKET_SIZE (by simpa using hr.queue)
        have hf : w1.faults = w.faults := by
          have := congrArg (fun x => x.2.faults) hrecv
          simp only [recv] at this
          rw [show w.conns.getD s.id [] = Delivery.data d :: r.map Delivery.data by simpa using hr.queue] at this
          simp only [hr.udp, Bool.false_eq_true, ↓reduceIte] at this
          exact this.symm
        have hr1 : Ready s w1 r :=
          ⟨hr.udp, by rw [hc]; simpa [setAt_length] using hr.isOpen,
            by rw [hc, getD_setAt]; simp [hr.isOpen], by rw [hf]; exact hr.nofault⟩
        rw [hrecv]
        simp only
        rw [Q.bind_apply]
        cases hp : processPacket st (d.take PACKET_SIZE) with
        | crash => exact ⟨r, by simpa [Q.lift] using hr1, fun x hx => by simp [hx]⟩
        | err k => exact ⟨r, by simpa [Q.lift] using hr1, fun x hx => by simp [hx]⟩
        | ok st' =>
          simp only [Q.lift]
          obtain ⟨ds', h1, h2⟩ := ih f st' w1 hr1
          exact ⟨ds', h1, fun x hx => by simp [h2 x hx]⟩

/-- one attempt from a ready state: its result is `loopOn` on the queue, and it leaves a ready state
whose queue is drawn from the old one -/
theorem attempt_ready (s : Sock) (w : Net) (ds : List Bytes) (hr : Ready s w ds) (hlen : ∀ d ∈ ds, d.length ≤ 2048) :
    (getServerValuesImpl s w).1 = loopOn LoopSt.init ds
    ∧ ∃ ds', Ready s (getServerValuesImpl s w).2 ds' ∧ (∀ d ∈ ds', d ∈ ds) := by
  rw [getServerValuesImpl_apply]
  have hsend : send s statusRequest w = (.ok (), { w with log := w.log ++ [.send s.id s.port statusRequest false] }) := by
    unfold send
    rw [hr.nofault]
  simp only [Q.bind', hsend]
  have hr' : Ready s { w with log := w.log ++ [.send s.id s.port statusRequest false] } ds :=
    ⟨hr.udp, hr.isOpen, hr.queue, hr.nofault⟩
  refine ⟨?_, recvLoop_state s ds _ _ _ hr'⟩
  apply recvLoop_eq_loopOn s hr.udp ds
  · exact hr.isOpen
  · exact hr.queue
  · exact hlen
  · have := hr.queue
    simp only [queued]
    rw [this]
    simp

/-- retried attempts over datagrams drawn from the parts of one reply: all the variables, or an
error -/
theorem retry_drawn {y : Style} {P : List NPart} (hP : PartsOk y P) (hne : P ≠ []) (s : Sock) :
    ∀ (r : Nat) (w : Net) (ds : List NPart), Ready s w (ds.map (encN y P.length)) → (∀ a ∈ ds, a ∈ P) →
      (∀ a ∈ P, (encN y P.length a).length ≤ 2048) →
      (retryOnTimeout r (getServerValuesImpl s) w).1 = .ok (canon (allOf P))
      ∨ ∃ k, (retryOnTimeout r (getServerValuesImpl s) w).1 = .err k := by
  intro r
  induction r with
  | zero =>
    intro w ds hr hall hsz
    have hlen : ∀ d ∈ ds.map (encN y P.length), d.length ≤ 2048 := by
      intro d hd
      obtain ⟨a, ha, rfl⟩ := List.mem_map.mp hd
      exact hsz a (hall a ha)
    simp only [retryOnTimeout]
    rw [(attempt_ready s w _ hr hlen).1]
    exact loopOn_drawn hP hne ds [] LoopSt.init (Inv.init y P) hall
  | succ r ih =>
    intro w ds hr hall hsz
    have hlen : ∀ d ∈ ds.map (encN y P.length), d.length ≤ 2048 := by
      intro d hd
      obtain ⟨a, ha, rfl⟩ := List.mem_map.mp hd
      exact hsz a (hall a ha)
    obtain ⟨h1, ds', hr', hsub⟩ := attempt_ready s w _ hr hlen
    simp only [retryOnTimeout]
    cases hf : getServerValuesImpl s w with
    | mk res w' =>
      rw [hf] at h1 hr'
      simp only at h1 hr'
      cases res with
      | ok m =>
        rcases loopOn_drawn hP hne ds [] LoopSt.init (Inv.init y P) hall with h | ⟨k, h⟩
        · left; simp only; rw [h1, h]
        · rw [← h1] at h; cases h
      | crash => 
        rcases loopOn_drawn hP hne ds [] LoopSt.init (Inv.init y P) hall with h | ⟨k, h⟩
        · rw [← h1] at h; cases h
        · rw [← h1] at h; cases h
      | err k =>
        simp only
        split
        · -- a timeout: the next attempt starts from what is left of the queue
          have hdrawn : ∀ d ∈ ds', ∃ a ∈ P, d = encN y P.length a := by
            intro d hd
            obtain ⟨a, ha, e⟩ := List.mem_map.mp (hsub d hd)
            exact ⟨a, hall a ha, e.symm⟩
          -- rebuild the list of numbered parts behind `ds'`
          have hex : ∃ dsP : List NPart, ds' = dsP.map (encN y P.length) ∧ ∀ a ∈ dsP, a ∈ P := by
            clear hr' hsub
            induction ds' with
            | nil => exact ⟨[], rfl, fun _ h => by cases h⟩
            | cons d t iht =>
              obtain ⟨a, ha, e⟩ := hdrawn d (by simp)
              obtain ⟨tP, e2, h2⟩ := iht (fun x hx => hdrawn x (by simp [hx]))
              exact ⟨a :: tP, by simp [e, e2], fun b hb => by
                rcases List.mem_cons.mp hb with rfl | hb'
                · exact ha
                · exact h2 b hb'⟩
          obtain ⟨dsP, e, hallP⟩ := hex
          exact ih w' dsP (e ▸ hr') hallP hsz
        · exact Or.inr ⟨k, rfl⟩

end Gd.Gs1
