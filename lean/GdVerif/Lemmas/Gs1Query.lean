import GdVerif.Lemmas.Gs1Spec
/-
  GameSpy 1, part 3: the whole `query_vars` / `query` against a reply whose parts arrive in any
  order, or that is any sequence of datagrams drawn from the reply's parts.
-/
namespace Gd.Gs1
open Gd Gd.Gs Gd.Gs1.Spec

/-- a permutation of an image is the image of a permutation -/
theorem perm_map_inv {α β : Type} (f : α → β) : ∀ {l : List β} {P : List α}, l.Perm (P.map f) →
    ∃ P' : List α, P'.Perm P ∧ l = P'.map f := by
  intro l P h
  generalize hm : P.map f = m at h
  induction h generalizing P with
  | nil =>
    have : P = [] := List.map_eq_nil_iff.mp hm
    exact ⟨[], by rw [this], rfl⟩
  | cons x _ ih =>
    cases P with
    | nil => cases hm
    | cons a P2 =>
      simp only [List.map_cons, List.cons.injEq] at hm
      obtain ⟨P1, hp, e⟩ := ih hm.2
      exact ⟨a :: P1, List.Perm.cons a hp, by rw [e, ← hm.1]; rfl⟩
  | swap x y l =>
    cases P with
    | nil => cases hm
    | cons a P2 =>
      cases P2 with
      | nil => cases hm
      | cons b P3 =>
        simp only [List.map_cons, List.cons.injEq] at hm
        exact ⟨b :: a :: P3, List.Perm.swap a b P3, by rw [← hm.1, ← hm.2.1, ← hm.2.2]; rfl⟩
  | trans _ _ ih1 ih2 =>
    obtain ⟨P2, hp2, e2⟩ := ih2 hm
    obtain ⟨P1, hp1, e1⟩ := ih1 e2.symm
    exact ⟨P1, hp1.trans hp2, e1⟩

/-- the result of `query_vars` in terms of one attempt against a fresh script -/
theorem queryVars_of_attempt (port retries : Nat) (ds : List Bytes) (hlen : ∀ d ∈ ds, d.length ≤ 2048)
    (m : Map Bytes) (h : loopOn LoopSt.init ds = .ok m) :
    (queryVars port retries (Net.init (scriptOf ds) [])).1 = .ok m := by
  obtain ⟨s, w, ho, _, hl⟩ := attempt_eq_loopOn port ds hlen
  unfold queryVars
  rw [Q.bind_apply, ho]
  simp only
  exact retryOnTimeout_of_ok retries _ w m (hl.trans h)

theorem query_fst (port retries : Nat) (w : Net) :
    (query port retries w).1 = match (queryVars port retries w).1 with
      | .ok vars => buildResponse vars
      | .err k => .err k
      | .crash => .crash := by
  unfold query
  rw [Q.bind_apply]
  cases hq : queryVars port retries w with
  | mk res w' => cases res <;> rfl

/-- `query_vars`, parts in any order: exactly the variables sent -/
theorem queryVars_any_order {y : Style} {st : State} (h : Wf y st) (port retries : Nat) (arr : List Bytes)
    (hp : arr.Perm (script y st)) :
    (queryVars port retries (Net.init (scriptOf arr) [])).1 = .ok (canon (allPairs y st)) := by
  have hP := partsOk_partsOf h
  rw [script_eq] at hp
  obtain ⟨arrP, hperm, rfl⟩ := perm_map_inv _ hp
  apply queryVars_of_attempt
  · intro d hd
    apply h.sizes
    rw [script_eq]
    exact (hperm.map _).mem_iff.mp hd
  · rw [← allOf_partsOf]
    exact loopOn_perm hP (partsOf_ne_nil y st) arrP [] LoopSt.init (Inv.init y _) (by simpa using hperm)

/-- `query`, parts in any order, reduced to the typed decoding of the variables sent -/
theorem query_any_order {y : Style} {st : State} (h : Wf y st) (port retries : Nat) (arr : List Bytes)
    (hp : arr.Perm (script y st)) :
    (query port retries (Net.init (scriptOf arr) [])).1 = buildResponse (canon (allPairs y st)) := by
  rw [query_fst, queryVars_any_order h port retries arr hp]

end Gd.Gs1
