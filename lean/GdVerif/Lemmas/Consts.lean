import GdVerif.Proto.Valve
import GdVerif.Proto.Unreal2
import GdVerif.Proto.Mindustry
import GdVerif.Proto.Minecraft
/-
  Helpers for the `Props/Cnn_consts.lean` files (tie by translation of constants and small tables): the Rust names of
  the variants of the models' enumerations, and the table a model function from bytes to variants denotes.
  Nothing here is part of a MODEL or a SPEC.
-/
namespace Gd.ConstsAux
open Gd

/-- `Res.map` -/
def resMap (f : α → β) : Res α → Res β
  | .ok a => .ok (f a)
  | .err k => .err k
  | .crash => .crash

/-- the graph of a function from bytes to named variants: every byte it accepts with the name of the variant, ascending -/
def graph (f : Nat → Res α) (name : α → String) : List (Nat × String) :=
  (List.range 256).filterMap fun n =>
    match f n with
    | .ok v => some (n, name v)
    | _ => none

/-- the bytes that are their own `to_ascii_lowercase` -/
def isLower (n : Nat) : Bool := !(65 ≤ n && n ≤ 90)

def serverTypeName : Valve.ServerType → String
  | .dedicated => "Dedicated" | .nonDedicated => "NonDedicated" | .tv => "TV"

def environmentName : Valve.Environment → String
  | .linux => "Linux" | .windows => "Windows" | .mac => "Mac"

def toggleName : Toggle → String
  | .skip => "Skip" | .try_ => "Try" | .enforce => "Enforce"

def boolName (b : Bool) : String := if b then "true" else "false"

def u2KindName : Unreal2.PacketKind → String
  | .serverInfo => "ServerInfo" | .mutatorsAndRules => "MutatorsAndRules" | .players => "Players"

def mindustryModeName : Mindustry.GameMode → String
  | .survival => "Survival" | .sandbox => "Sandbox" | .attack => "Attack" | .pvp => "PVP" | .editor => "Editor"

def mcGameModeName : Mc.GameMode → String
  | .survival => "Survival" | .creative => "Creative" | .hardcore => "Hardcore" | .spectator => "Spectator"
  | .adventure => "Adventure"

/-- value of a key in a generated `(name, number)` table (0 when absent: the theorems also state the table's keys) -/
def num (t : List (String × Nat)) (k : String) : Nat := (t.lookup k).getD 0

/-- the same keys, whatever the order and the repetitions -/
def sameSet (a b : List Bytes) : Bool := a.all (b.contains ·) && b.all (a.contains ·)

/-- a generated list of names as byte strings -/
def keys (l : List String) : List Bytes := l.map asciiBytes

end Gd.ConstsAux
