import GdVerif.Lemmas.QSteps
/-
  The exact-outcome logic of `Lemmas/QSteps.lean`, generalised minimally to queries that open a NEW SOCKET PER ATTEMPT
  (Mindustry).

  `Steps s` describes the transport by the queue of ONE open socket, the send-fault flags still to be consumed and the
  datagrams sent.  `StepsG V` is the same logic over any list of things consumed in order — `StG Δ` = (a list of `Δ`, the
  flags, the sent list) — seen through a view `V : Net → StG Δ → Prop`:

    * `Δ = Delivery`, `V = AtS s`   : the single-socket logic (`steps_iff`: `Steps s` IS this instance);
    * `Δ = ConnScript`, `V = AtM`   : the scripts of the sockets NOT YET OPENED (`Net.pending`), one consumed by each
      `openSock`; what happens on a socket once it is open is described by `Steps` on that socket (`open_then`).

  The rules that do not look inside the state (`bind…`, `retry_done / retry_again / retry_recovers_of /
  retry_exhausted_of`) are proved once, for every view.
-/
namespace Gd

structure StG (Δ : Type) where
  /-- what is still to be consumed, in order -/
  q : List Δ
  /-- send-fault flags not yet consumed -/
  fs : List Bool
  /-- datagrams sent so far -/
  sent : List (Bytes × Bool)

def StepsG {Δ α : Type} (V : Net → StG Δ → Prop) (f : Q α) (r : Res α) (σ σ' : StG Δ) : Prop :=
  ∀ w, V w σ → ∃ w', f w = (r, w') ∧ V w' σ'

/-- the single-socket logic is the instance `Δ = Delivery`, `V = AtS s` -/
theorem steps_iff {α : Type} (s : Sock) (f : Q α) (r : Res α) (q q' : List Delivery) (fs fs' : List Bool)
    (sn sn' : List (Bytes × Bool)) :
    Steps s f r ⟨q, fs, sn⟩ ⟨q', fs', sn'⟩
      ↔ StepsG (fun w (σ : StG Delivery) => AtS s w ⟨σ.q, σ.fs, σ.sent⟩) f r ⟨q, fs, sn⟩ ⟨q', fs', sn'⟩ := Iff.rfl

namespace StepsG
variable {Δ α β : Type} {V : Net → StG Δ → Prop}

theorem bind {f : Q α} {g : α → Q β} {a : α} {r : Res β} {σ σ1 σ2 : StG Δ}
    (hf : StepsG V f (.ok a) σ σ1) (hg : StepsG V (g a) r σ1 σ2) : StepsG V (f >>= g) r σ σ2 := by
  intro w h
  obtain ⟨w1, h1, hat1⟩ := hf w h
  obtain ⟨w2, h2, hat2⟩ := hg w1 hat1
  exact ⟨w2, by rw [Q.bind_apply, h1]; exact h2, hat2⟩

theorem bind_err {f : Q α} {g : α → Q β} {k : ErrKind} {σ σ1 : StG Δ}
    (hf : StepsG V f (.err k) σ σ1) : StepsG V (f >>= g) (.err k) σ σ1 := by
  intro w h
  obtain ⟨w1, h1, hat1⟩ := hf w h
  exact ⟨w1, by rw [Q.bind_apply, h1], hat1⟩

/-- an outcome that is not a timeout-class error ends the unit at once, whatever the retry count -/
theorem retry_done {f : Q α} {r : Res α} {σ σ' : StG Δ} (h : StepsG V f r σ σ')
    (hr : ∀ k, r = .err k → k.isTimeout = false) (n : Nat) : StepsG V (retryOnTimeout n f) r σ σ' := by
  intro w hw
  obtain ⟨w', h1, h2⟩ := h w hw
  refine ⟨w', ?_, h2⟩
  cases n with
  | zero => exact h1
  | succ n =>
    simp only [retryOnTimeout, h1]
    cases r with
    | ok a => rfl
    | crash => rfl
    | err k => simp [hr k rfl]

/-- a timeout-class failure with retries left: the unit is run again -/
theorem retry_again {f : Q α} {k : ErrKind} {r : Res α} {σ σ1 σ2 : StG Δ} {n : Nat}
    (h : StepsG V f (.err k) σ σ1) (hk : k.isTimeout = true) (hrest : StepsG V (retryOnTimeout n f) r σ1 σ2) :
    StepsG V (retryOnTimeout (n + 1) f) r σ σ2 := by
  intro w hw
  obtain ⟨w1, h1, hat1⟩ := h w hw
  obtain ⟨w2, h2, hat2⟩ := hrest w1 hat1
  exact ⟨w2, by simp only [retryOnTimeout, h1, hk, ↓reduceIte]; exact h2, hat2⟩

/-- `Steps.retry_recovers_of` for any view: failed attempts (attempt `a` consumes `del a` and the flags `flt a`, sends
`snd a`, fails with the timeout-class error `err a`), then an attempt that ends with `R`, not a timeout -/
theorem retry_recovers_of {f : Q α} {A : Type} (ok : A → Prop) (del : A → List Δ) (flt : A → List Bool)
    (snd : A → List (Bytes × Bool)) (err : A → ErrKind) (herr : ∀ a, (err a).isTimeout = true)
    (hstep : ∀ a, ok a → ∀ q fs sn, StepsG V f (.err (err a)) ⟨del a ++ q, flt a ++ fs, sn⟩ ⟨q, fs, sn ++ snd a⟩)
    {R : Res α} (hR : ∀ k, R = .err k → k.isTimeout = false)
    (dq q' : List Δ) (df fs' : List Bool) (ds : List (Bytes × Bool))
    (hfin : ∀ sn, StepsG V f R ⟨dq, df, sn⟩ ⟨q', fs', sn ++ ds⟩) :
    ∀ (fails : List A) (r : Nat) (sn : List (Bytes × Bool)), (∀ a ∈ fails, ok a) → fails.length ≤ r →
      StepsG V (retryOnTimeout r f) R ⟨fails.flatMap del ++ dq, fails.flatMap flt ++ df, sn⟩
        ⟨q', fs', sn ++ (fails.flatMap snd ++ ds)⟩ := by
  intro fails
  induction fails with
  | nil =>
    intro r sn _ _
    simpa using retry_done (hfin sn) hR r
  | cons a rest ih =>
    intro r sn hok hr
    obtain ⟨r', rfl⟩ : ∃ r', r = r' + 1 := ⟨r - 1, by simp at hr; omega⟩
    have h1 := hstep a (hok a (by simp)) (rest.flatMap del ++ dq) (rest.flatMap flt ++ df) sn
    have h2 := ih r' (sn ++ snd a) (fun b hb => hok b (by simp [hb])) (by simp at hr; omega)
    have := retry_again h1 (herr a) h2
    simpa [List.append_assoc] using this

/-- `Steps.retry_exhausted_of` for any view: all `r + 1` attempts end in a timeout-class error -/
theorem retry_exhausted_of {f : Q α} {A : Type} (ok : A → Prop) (del : A → List Δ) (flt : A → List Bool)
    (snd : A → List (Bytes × Bool)) (err : A → ErrKind) (herr : ∀ a, (err a).isTimeout = true)
    (hstep : ∀ a, ok a → ∀ q fs sn, StepsG V f (.err (err a)) ⟨del a ++ q, flt a ++ fs, sn⟩ ⟨q, fs, sn ++ snd a⟩)
    (q : List Δ) (fs : List Bool) :
    ∀ (r : Nat) (fails : List A) (sn : List (Bytes × Bool)), (∀ a ∈ fails, ok a) → fails.length = r + 1 →
      StepsG V (retryOnTimeout r f) (.err (Faults.lastError err fails))
        ⟨fails.flatMap del ++ q, fails.flatMap flt ++ fs, sn⟩ ⟨q, fs, sn ++ fails.flatMap snd⟩ := by
  intro r
  induction r with
  | zero =>
    intro fails sn hok hlen
    match fails, hok, hlen with
    | [a], hok, _ =>
      have h0 : StepsG V (retryOnTimeout 0 f) (.err (err a)) ⟨del a ++ q, flt a ++ fs, sn⟩ ⟨q, fs, sn ++ snd a⟩ :=
        hstep a (hok a (by simp)) q fs sn
      simpa [Faults.lastError] using h0
  | succ r ih =>
    intro fails sn hok hlen
    match fails, hok, hlen with
    | a :: b :: rest, hok, hlen =>
      have h1 := hstep a (hok a (by simp)) ((b :: rest).flatMap del ++ q) ((b :: rest).flatMap flt ++ fs) sn
      have h2 := ih (b :: rest) (sn ++ snd a) (fun c hc => hok c (List.mem_cons_of_mem _ hc)) (by simpa using hlen)
      have := retry_again h1 (herr a) h2
      simpa [Faults.lastError, List.append_assoc] using this

end StepsG

/-! ### the view for a socket per attempt: the scripts of the sockets not yet opened -/

structure AtM (w : Net) (σ : StG ConnScript) : Prop where
  pending : w.pending = σ.q
  faults : w.faults = σ.fs
  sent : sentOf w.log = σ.sent

/-- `f` opens no socket -/
def KeepsPending {α : Type} (f : Q α) : Prop := ∀ w, (f w).2.pending = w.pending

namespace KeepsPending

theorem lift {α : Type} (r : Res α) : KeepsPending (Q.lift r) := fun _ => rfl

theorem parse {α : Type} (p : Par α) (d : Bytes) : KeepsPending (Gd.parse p d) := fun _ => rfl

theorem send (s : Sock) (d : Bytes) : KeepsPending (Gd.send s d) := by
  intro w
  unfold Gd.send
  split <;> rfl

theorem recv (s : Sock) (size : Option Nat) : KeepsPending (Gd.recv s size) := by
  intro w
  unfold Gd.recv
  split
  · rfl
  · rfl
  · split <;> rfl

theorem bind {α β : Type} {f : Q α} {g : α → Q β} (hf : KeepsPending f) (hg : ∀ a, KeepsPending (g a)) :
    KeepsPending (f >>= g) := by
  intro w
  rw [Q.bind_apply]
  have h1 := hf w
  cases h : f w with
  | mk res w1 =>
    rw [h] at h1
    cases res with
    | ok a => simp only; rw [hg a w1, h1]
    | err k => exact h1
    | crash => exact h1

end KeepsPending

/-- Opening the next socket, then a computation on it that opens no further socket: what it does on the new socket —
described by `Steps` on that socket, from the socket's own script `ds` — is what it does to the query. -/
theorem open_then {β : Type} (port : Nat) (g : Sock → Q β) (r : Res β) (ds q' : List Delivery) (P : List ConnScript)
    (fs fs' : List Bool) (sn sn' : List (Bytes × Bool)) (hk : ∀ s, KeepsPending (g s))
    (h : ∀ s : Sock, s.tcp = false → s.port = port → Steps s (g s) r ⟨ds, fs, sn⟩ ⟨q', fs', sn'⟩) :
    StepsG AtM (openSock false port >>= g) r ⟨.opened ds :: P, fs, sn⟩ ⟨P, fs', sn'⟩ := by
  intro w hw
  have hp : w.pending = .opened ds :: P := hw.pending
  have ho : openSock false port w = (.ok ⟨w.conns.length, port, false⟩,
      { w with pending := P, conns := w.conns ++ [ds], log := w.log ++ [.opened w.conns.length false port false] }) := by
    simp only [openSock, hp]
  obtain ⟨w2, h2, hat2⟩ := h ⟨w.conns.length, port, false⟩ rfl rfl
    { w with pending := P, conns := w.conns ++ [ds], log := w.log ++ [.opened w.conns.length false port false] }
    ⟨hw.faults, by simp, by simp, by simp [sentOf_append, sentOf, hw.sent]⟩
  refine ⟨w2, by rw [Q.bind_apply, ho]; exact h2, ⟨?_, hat2.faults, hat2.sent⟩⟩
  have := hk ⟨w.conns.length, port, false⟩
    { w with pending := P, conns := w.conns ++ [ds], log := w.log ++ [.opened w.conns.length false port false] }
  rw [h2] at this
  exact this

/-- the socket cannot be created: `SocketBind`, nothing sent -/
theorem open_refused {β : Type} (port : Nat) (g : Sock → Q β) (P : List ConnScript) (fs : List Bool)
    (sn : List (Bytes × Bool)) :
    StepsG AtM (openSock false port >>= g) (.err .socketBind) ⟨.refused :: P, fs, sn⟩ ⟨P, fs, sn⟩ := by
  intro w hw
  have hp : w.pending = .refused :: P := hw.pending
  refine ⟨{ w with pending := P, conns := w.conns ++ [[]], log := w.log ++ [.opened w.conns.length false port true] },
    ?_, ⟨rfl, hw.faults, by simp [sentOf_append, sentOf, hw.sent]⟩⟩
  rw [Q.bind_apply]
  simp [openSock, hp]

/-- what a `StepsG AtM` fact says about a run from the initial state of a script -/
theorem StepsG.run {α : Type} {f : Q α} {r : Res α} {script : List ConnScript} {faults : List Bool} {σ' : StG ConnScript}
    (h : StepsG AtM f r ⟨script, faults, []⟩ σ') :
    (f (Net.init script faults)).1 = r ∧ sentOf (f (Net.init script faults)).2.log = σ'.sent := by
  obtain ⟨w', h1, h2⟩ := h (Net.init script faults) ⟨rfl, rfl, rfl⟩
  rw [h1]
  exact ⟨rfl, h2.sent⟩

end Gd
