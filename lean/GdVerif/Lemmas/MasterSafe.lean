import GdVerif.Lemmas.SmallLogic
import GdVerif.Lemmas.Unreal2Safe
import GdVerif.Lemmas.QCost
import GdVerif.Lemmas.MasterPaging
/-
  Valve master-server service: crash freedom of the reply parser and of the paging loop for every script
  (fuel = queued deliveries + 1 suffices: each round consumes a delivery), what the loop does to the transport
  (`EvOkAt`: per event; `Rounds`: the whole log as a chain of request/reply rounds whose seeds come from the
  pages received), and how many requests it sends (`Cost`).
-/
namespace Gd.Master
open Gd

/-! ### the reply parser -/

theorem safe_parseEntry : Safe parseEntry := by
  unfold parseEntry
  exact Safe.bind safe_readU8 fun _ => Safe.bind safe_readU8 fun _ => Safe.bind safe_readU8 fun _ =>
    Safe.bind safe_readU8 fun _ => Safe.bind (safe_readUnsigned _ _) fun _ => Safe.pure _

theorem progress_parseEntry : Progress parseEntry := by
  unfold parseEntry
  exact Progress.bind (progress_readUnsigned _ 1 (by omega)) fun _ =>
    NoGrow.bind (noGrow_readUnsigned _ _) fun _ => NoGrow.bind (noGrow_readUnsigned _ _) fun _ =>
    NoGrow.bind (noGrow_readUnsigned _ _) fun _ => NoGrow.bind (noGrow_readUnsigned _ _) fun _ => NoGrow.pure _

/-- the `while remaining_length() > 0` loop: its fuel (`remaining + 1`) is never exhausted, because every entry read
moves the cursor forward -/
theorem safe_parseEntries_fuel (b : Buf) : Post b (parseEntries (b.remaining + 1) b) := by
  unfold parseEntries
  refine Post.bind ?_ (fun _ _ _ => rfl)
  exact safe_whileRemaining _ (fun acc => Safe.bind safe_parseEntry fun _ => Safe.pure _)
    (fun acc => Progress.bind progress_parseEntry fun _ => NoGrow.pure _) (b.remaining + 1) [] b (Nat.lt_succ_self _)

theorem safe_parsePage : Safe parsePage := by
  unfold parsePage
  refine Safe.bind (safe_readUnsigned _ _) fun h => Safe.ite (Safe.fail _) ?_
  exact Safe.bind (safe_readUnsigned _ _) fun k => Safe.ite (Safe.fail _) fun b => safe_parseEntries_fuel b

theorem parsePage_ne_crash (data : Bytes) : parsePage.run data ≠ .crash := safe_parsePage.run_ne_crash data

/-! ### one request/reply round -/

/-- what a paging run may do to the transport when its seeds satisfy `S` -/
def EvOkS (S : Bytes → Nat → Prop) (region : Nat) (fb : Bytes) (id : Nat) : Ev → Prop
  | .opened c tcp p _ => c = id ∧ tcp = false ∧ p = masterPort
  | .send c p data _ => c = id ∧ p = masterPort ∧ ∃ ip port, S ip port ∧ data = constructPayload region fb ip port
  | .recv c size _ => c = id ∧ size = some 1400

/-- the seeds a complete query uses: `0.0.0.0:0` or the text of an address -/
def SeedOk (ip : Bytes) (port : Nat) : Prop := (ip = zeroIp ∧ port = 0) ∨ ∃ a : Addr, ip = ipText a.1 ∧ port = a.2

/-- what a master-server query may do to the transport; `id` is the number of the socket it opens.  Every datagram
sent is the request for the given region and filter bytes, seeded with `0.0.0.0:0` or with the text of an address
(the last one of the page received before, see `roundsLog` in `Lemmas/MasterRounds.lean`). -/
def EvOkAt (region : Nat) (fb : Bytes) (id : Nat) : Ev → Prop
  | .opened c tcp p _ => c = id ∧ tcp = false ∧ p = masterPort
  | .send c p data _ => c = id ∧ p = masterPort ∧
      (data = constructPayload region fb zeroIp 0 ∨ ∃ a : Addr, data = constructPayload region fb (ipText a.1) a.2)
  | .recv c size _ => c = id ∧ size = some 1400

theorem evOkAt_of (region : Nat) (fb : Bytes) (id : Nat) (e : Ev) (h : EvOkS SeedOk region fb id e) :
    EvOkAt region fb id e := by
  cases e with
  | opened c tcp p r => exact h
  | recv c sz g => exact h
  | send c p d f =>
    obtain ⟨h1, h2, ip, port, hs, rfl⟩ := h
    refine ⟨h1, h2, ?_⟩
    rcases hs with ⟨rfl, rfl⟩ | ⟨a, rfl, rfl⟩
    · exact Or.inl rfl
    · exact Or.inr ⟨a, rfl⟩

theorem qsafe_querySpecific (S : Bytes → Nat → Prop) (s : Sock) (hp : s.port = masterPort) (region : Nat)
    (fb ip : Bytes) (port : Nat) (hseed : S ip port) :
    QSafe s (EvOkS S region fb s.id) (querySpecific s region fb ip port) := by
  unfold querySpecific
  exact QSafe.bind (QSafe.send s _ _ fun _ => ⟨rfl, hp, ip, port, hseed, rfl⟩) fun _ =>
    QSafe.bind (QSafe.recv s _ _ fun _ => ⟨rfl, rfl⟩) fun data => QSafe.parse _ _ safe_parsePage _

/-- a successful round on a UDP socket consumed a queued delivery -/
theorem querySpecific_consumes (s : Sock) (hudp : s.tcp = false) (region : Nat) (fb ip : Bytes) (port : Nat)
    (w w' : Net) (page : List Addr) (hopen : IsOpen s w) (h : querySpecific s region fb ip port w = (.ok page, w')) :
    qlen w' s.id < qlen w s.id := by
  unfold querySpecific at h
  rw [Q.bind_apply] at h
  have hsend := QSafe.send s (fun _ => True) (constructPayload region fb ip port) (fun _ => trivial) w hopen
  cases hs : send s (constructPayload region fb ip port) w with
  | mk r1 w1 =>
    rw [hs] at h hsend
    cases r1 with
    | err k => cases h
    | crash => cases h
    | ok u =>
      simp only at h
      rw [Q.bind_apply] at h
      have hopen1 := hopen.step hsend.2
      cases hr : recv s (some 1400) w1 with
      | mk r2 w2 =>
        rw [hr] at h
        cases r2 with
        | err k => cases h
        | crash => cases h
        | ok d =>
          simp only [parse, Q.lift] at h
          have hw : w2 = w' := by injection h
          subst hw
          have h1 := recv_ok_consumes s hudp _ w1 w2 d hopen1 hr
          have h2 := hsend.2.shrink s.id hopen
          simp only at h2
          omega

/-! ### the paging loop: fuel suffices -/

theorem qsafe_pageLoop (S : Bytes → Nat → Prop) (hS : ∀ a : Addr, S (ipText a.1) a.2) (s : Sock)
    (hp : s.port = masterPort) (hudp : s.tcp = false) (region : Nat) (fb : Bytes) :
    ∀ (fuel : Nat) (ips : List Addr) (ip : Bytes) (port : Nat) (w : Net), S ip port → IsOpen s w →
      qlen w s.id < fuel →
      (pageLoop s region fb fuel ips ip port w).1 ≠ .crash
      ∧ Step (EvOkS S region fb s.id) w (pageLoop s region fb fuel ips ip port w).2 := by
  intro fuel
  induction fuel with
  | zero => intro _ _ _ w _ _ h; omega
  | succ fuel ih =>
    intro ips ip port w hseed hopen hq
    unfold pageLoop
    rw [Q.bind_apply]
    have hqs := qsafe_querySpecific S s hp region fb ip port hseed w hopen
    cases hr : querySpecific s region fb ip port w with
    | mk res w1 =>
      rw [hr] at hqs
      cases res with
      | crash => exact absurd rfl hqs.1
      | err k => exact ⟨by simp, hqs.2⟩
      | ok page =>
        simp only
        have hcons := querySpecific_consumes s hudp region fb ip port w w1 page hopen hr
        have hopen1 := hopen.step hqs.2
        cases hl : page.getLast? with
        | none => exact ⟨by simp, hqs.2⟩
        | some last =>
          obtain ⟨latestIp, latestPort⟩ := last
          simp only
          split
          · exact ⟨by simp, hqs.2⟩
          · split
            · exact ⟨by simp, hqs.2⟩
            · obtain ⟨h3, h4⟩ := ih (ips ++ page) (ipText latestIp) latestPort w1
                (hS (latestIp, latestPort)) hopen1 (by omega)
              exact ⟨h3, hqs.2.trans h4⟩

/-- the body of `query` after the socket has been opened -/
def queryBody (s : Sock) (region : Nat) (fb : Bytes) : Q (List Addr) :=
  fun w => pageLoop s region fb ((w.conns.getD s.id []).length + 1) [] zeroIp 0 w

theorem query_eq (region : Nat) (fs : Option SearchFilters) :
    query region fs = (openSock false masterPort >>= fun s => queryBody s region (filterBytesOf fs)) := rfl

theorem qsafe_queryBody (s : Sock) (hp : s.port = masterPort) (hudp : s.tcp = false) (region : Nat) (fb : Bytes) :
    QSafe s (EvOkAt region fb s.id) (queryBody s region fb) := by
  intro w hopen
  obtain ⟨h1, h2⟩ := qsafe_pageLoop SeedOk (fun a => Or.inr ⟨a, rfl, rfl⟩) s hp hudp region fb
    ((w.conns.getD s.id []).length + 1) [] zeroIp 0 w (Or.inl ⟨rfl, rfl⟩) hopen (by simp [qlen])
  exact ⟨h1, h2.mono (evOkAt_of region fb s.id)⟩

/-- the body of `query_singular` after the socket has been opened -/
def singularBody (s : Sock) (region : Nat) (fb : Bytes) : Q (List Addr) := do
  let ips ← querySpecific s region fb zeroIp 0
  match ips.getLast? with
  | some (ip, port) => if ipText ip == zeroIp && port == 0 then pure ips.dropLast else pure ips
  | none => pure ips

theorem querySingular_eq (region : Nat) (fs : Option SearchFilters) :
    querySingular region fs = (openSock false masterPort >>= fun s => singularBody s region (filterBytesOf fs)) := rfl

theorem qsafe_singularBody (s : Sock) (hp : s.port = masterPort) (region : Nat) (fb : Bytes) :
    QSafe s (EvOkAt region fb s.id) (singularBody s region fb) := by
  unfold singularBody
  refine QSafe.bind ((qsafe_querySpecific SeedOk s hp region fb zeroIp 0 (Or.inl ⟨rfl, rfl⟩)).mono
    (evOkAt_of region fb s.id)) fun ips => ?_
  split
  · split
    · exact QSafe.pure _ _ _
    · exact QSafe.pure _ _ _
  · exact QSafe.pure _ _ _

/-- complete query, from the initial state, for every script and fault vector: no crash, every event conforms -/
theorem query_safe (region : Nat) (fs : Option SearchFilters) (script : List ConnScript) (faults : List Bool) :
    (query region fs (Net.init script faults)).1 ≠ .crash
    ∧ ∀ e ∈ (query region fs (Net.init script faults)).2.log, EvOkAt region (filterBytesOf fs) 0 e := by
  rw [query_eq]
  exact openThen_run false masterPort (EvOkAt region (filterBytesOf fs)) (fun _ _ => ⟨rfl, rfl, rfl⟩)
    (fun s hp ht => qsafe_queryBody s hp ht region _) script faults

/-- from any transport state -/
theorem query_safe_any (region : Nat) (fs : Option SearchFilters) (w : Net) :
    (query region fs w).1 ≠ .crash := by
  rw [query_eq]
  exact (openThen_safe false masterPort (EvOkAt region (filterBytesOf fs)) (fun _ _ => ⟨rfl, rfl, rfl⟩)
    (fun s hp ht => qsafe_queryBody s hp ht region _) w).1

theorem querySingular_safe (region : Nat) (fs : Option SearchFilters) (script : List ConnScript) (faults : List Bool) :
    (querySingular region fs (Net.init script faults)).1 ≠ .crash
    ∧ ∀ e ∈ (querySingular region fs (Net.init script faults)).2.log, EvOkAt region (filterBytesOf fs) 0 e := by
  rw [querySingular_eq]
  exact openThen_run false masterPort (EvOkAt region (filterBytesOf fs)) (fun _ _ => ⟨rfl, rfl, rfl⟩)
    (fun s hp _ => qsafe_singularBody s hp region _) script faults

theorem querySingular_safe_any (region : Nat) (fs : Option SearchFilters) (w : Net) :
    (querySingular region fs w).1 ≠ .crash := by
  rw [querySingular_eq]
  exact (openThen_safe false masterPort (EvOkAt region (filterBytesOf fs)) (fun _ _ => ⟨rfl, rfl, rfl⟩)
    (fun s hp _ => qsafe_singularBody s hp region _) w).1

end Gd.Master
