import GdVerif.Lemmas.Gs2Query
import GdVerif.Lemmas.QSteps
import GdVerif.Spec.Gs2Faults
/-
  The whole GameSpy 2 query with faults injected (C10 end to end): `Gs2.query` is "open a socket, a one-exchange unit
  under `retry_on_timeout`, decode" (`Lemmas/QSteps.lean: query1_plan`).
-/
namespace Gd.Gs2
open Gd Gd.Gs Gd.Gs2.Spec Gd.Faults

/-- the check of `request_data_impl` on the received datagram: the header, then the pair (datagram, position) -/
def headerCheck (d : Bytes) : Res (Bytes × Nat) := checkHeader.run d >>= fun idx => .ok (d, idx)

theorem requestDataImpl_exchange1 (s : Sock) :
    requestDataImpl s = exchange1 s request PACKET_SIZE headerCheck := by
  funext w
  unfold requestDataImpl exchange1
  simp only [Q.bind_apply]
  cases send s request w with
  | mk r1 w1 =>
    cases r1 with
    | ok u =>
      simp only
      cases recv s (some PACKET_SIZE) w1 with
      | mk r2 w2 =>
        cases r2 with
        | ok d =>
          simp only [parse, Q.lift, headerCheck]
          cases checkHeader.run d <;> rfl
        | err k => rfl
        | crash => rfl
    | err k => rfl
    | crash => rfl

/-- what `query` does with the unit's result -/
def decode (x : Bytes × Nat) : Res Response := (do moveCursor (x.2 : Int); parseBody : Par Response).run x.1

theorem query_exchange1 (port retries : Nat) :
    query port retries = (openSock false port >>= fun s =>
      retryOnTimeout retries (exchange1 s request PACKET_SIZE headerCheck) >>= fun x => Q.lift (decode x)) := by
  unfold query requestData
  simp only [requestDataImpl_exchange1]
  rfl

theorem request_eq : [request] = Spec.requests := by decide

theorem headerCheck_reply (y : Style) (st : State) : headerCheck (reply y st) = .ok (reply y st, 5) := by
  simp [headerCheck, checkHeader_reply]

theorem decode_reply {y : Style} {st : State} (h : Wf y st) : decode (reply y st, 5) = .ok (expected st) := by
  obtain ⟨b1, hm, hr1, _⟩ := decodes_skip ([0] ++ natBE 4 1) (Buf.new (reply y st)) (body y st) (by
    rw [reply_eq]; rfl)
  obtain ⟨b2, hb⟩ := parseBody_enc h b1 hr1
  have hlen : (([0] ++ natBE 4 1 : Bytes).length : Int) = 5 := by decide
  rw [hlen] at hm
  unfold decode Par.run
  rw [Par.bind_ok (show moveCursor ((5 : Nat) : Int) (Buf.new (reply y st)) = .ok ((), b1) from hm), hb]

/-- the header check on a malformed datagram -/
theorem headerCheck_malformed (m : Bytes) (h : malformed m = true) : headerCheck m = .err (malformedError m) := by
  have hrun : checkHeader.run m = .err (malformedError m) := by
    cases m with
    | nil =>
      unfold Par.run checkHeader
      rw [Par.bind_err (k := .packetUnderflow) (by simp [readUnsigned, Buf.new, Buf.remaining])]
      rfl
    | cons b r =>
      have d1 := decodes_readUnsigned .big 1 b.toNat (by have := b.toNat_lt; omega)
      obtain ⟨b1, h1, hr1, _⟩ := d1 (Buf.new (b :: r)) r (by
        simp [Endian.encode, natBE, natLE, Buf.new])
      unfold Par.run checkHeader
      rw [Par.bind_ok h1]
      by_cases hb : b = 0
      · subst hb
        simp only [malformed, List.length_cons, List.head?_cons, bne_self_eq_false, Bool.or_false,
          decide_eq_true_eq] at h
        simp only [UInt8.toNat_zero, bne_self_eq_false, Bool.false_eq_true, ↓reduceIte, malformedError]
        rw [Par.bind_err (k := .packetUnderflow) (by
          simp only [readUnsigned, Buf.remaining, hr1]
          rw [if_pos (by omega)])]
      · have hne : (b.toNat != 0) = true := by
          simp only [bne_iff_ne, ne_eq]
          intro h0
          exact hb (UInt8.toNat_inj.mp (by simpa using h0))
        have hne' : (b != 0) = true := by simpa using hb
        simp only [hne, ↓reduceIte, Par.fail, malformedError, hne']
  simp [headerCheck, hrun]

theorem malformedError_not_timeout (m : Bytes) : (malformedError m).isTimeout = false := by
  unfold malformedError
  split
  · rfl
  · split <;> rfl

/-- the whole query on the script of a plan (followed by anything) -/
theorem query_faulty (port retries : Nat) (p : Plan1) (hp : p.wf retries PACKET_SIZE = true)
    (hcheck : ∀ d e, p.answer = some d → headerCheck d = .err e → e.isTimeout = false)
    (restQ : List Delivery) (restF : List Bool) :
    (query port retries (Net.init [.opened (p.deliveries ++ restQ)] (p.faults ++ restF))).1
      = (p.outcome headerCheck >>= decode)
    ∧ sentOf (query port retries (Net.init [.opened (p.deliveries ++ restQ)] (p.faults ++ restF))).2.log
      = p.sends request := by
  rw [query_exchange1]
  exact query1_plan port retries request PACKET_SIZE headerCheck decode p hp hcheck restQ restF

end Gd.Gs2
