import GdVerif.Proto.CliBson
import GdVerif.Lemmas.Codec
import GdVerif.Lemmas.Decimal
/-
  Lemmas about the BSON model (`Proto/CliBson.lean`): the reader undoes the serialiser.
-/
namespace Gd.Cli

theorem readCStr_append (k rest : Bytes) (h : (0 : UInt8) ∉ k) : readCStr (k ++ 0 :: rest) = some (k, rest) := by
  induction k with
  | nil => simp [readCStr]
  | cons b r ih =>
    have hb : b ≠ 0 := fun e => h (by simp [e])
    have hr : (0 : UInt8) ∉ r := fun e => h (by simp [e])
    simp [readCStr, hb, ih hr]

theorem split4_natLE (x : Nat) (rest : Bytes) : split4 (natLE 4 x ++ rest) = some (x % 2 ^ 32, rest) := by
  have h := leNat_natLE 4 x
  simp only [natLE, List.cons_append, List.nil_append, split4] at h ⊢
  rw [h]

theorem split8_natLE (x : Nat) (rest : Bytes) : split8 (natLE 8 x ++ rest) = some (x % 2 ^ 64, rest) := by
  have h := leNat_natLE 8 x
  simp only [natLE, List.cons_append, List.nil_append, split8] at h ⊢
  rw [h]

theorem toSigned_ofSigned32 (v : Int) (lo : -2147483648 ≤ v) (hi : v ≤ 2147483647) :
    toSigned 32 (ofSigned 32 v % 2 ^ 32) = v := by
  have h1 : ofSigned 32 v % 2 ^ 32 = ofSigned 32 v := by simp only [ofSigned, Nat.reducePow]; omega
  rw [h1]
  unfold toSigned
  by_cases h : ofSigned 32 v < 2 ^ (32 - 1)
  · rw [if_pos h]; simp only [ofSigned, Nat.reducePow, Nat.reduceSub] at h ⊢; omega
  · rw [if_neg h]; simp only [ofSigned, Nat.reducePow, Nat.reduceSub] at h ⊢; omega

theorem toSigned_ofSigned64 (v : Int) (lo : -9223372036854775808 ≤ v) (hi : v ≤ 9223372036854775807) :
    toSigned 64 (ofSigned 64 v % 2 ^ 64) = v := by
  have h1 : ofSigned 64 v % 2 ^ 64 = ofSigned 64 v := by simp only [ofSigned, Nat.reducePow]; omega
  rw [h1]
  unfold toSigned
  by_cases h : ofSigned 64 v < 2 ^ (64 - 1)
  · rw [if_pos h]; simp only [ofSigned, Nat.reducePow, Nat.reduceSub] at h ⊢; omega
  · rw [if_neg h]; simp only [ofSigned, Nat.reducePow, Nat.reduceSub] at h ⊢; omega

theorem readBVal_num (n : Num) (f : Nat) (rest : Bytes) (ht : n.typed = true) (hr : n.refused = false) :
    readBVal (f + 1) n.tag (encNum n ++ rest) = some (.num n.canon, rest) := by
  cases n with
  | f64 bits =>
    simp only [Num.typed, decide_eq_true_eq] at ht
    simp [readBVal, Num.tag, encNum, split8_natLE, Num.canon, Nat.mod_eq_of_lt ht]
  | int k v =>
    simp only [Num.typed, Bool.and_eq_true] at ht
    have h1 := of_decide_eq_true ht.1
    have h2 := of_decide_eq_true ht.2
    have h64 : toSigned 64 (ofSigned 64 v % 18446744073709551616) = v → k.wide = true →
        readBVal (f + 1) (Num.int k v).tag (encNum (.int k v) ++ rest) = some (.num (Num.int k v).canon, rest) := by
      intro h hw
      simp [readBVal, Num.tag, encNum, hw, split8_natLE, Num.canon, h]
    have h32 : toSigned 32 (ofSigned 32 v % 4294967296) = v → k.wide = false →
        readBVal (f + 1) (Num.int k v).tag (encNum (.int k v) ++ rest) = some (.num (Num.int k v).canon, rest) := by
      intro h hw
      simp [readBVal, Num.tag, encNum, hw, split4_natLE, Num.canon, h]
    cases k <;> simp only [IntKind.lo, IntKind.hi] at h1 h2
    · exact h32 (toSigned_ofSigned32 v (by omega) (by omega)) rfl
    · exact h32 (toSigned_ofSigned32 v (by omega) (by omega)) rfl
    · exact h32 (toSigned_ofSigned32 v (by omega) (by omega)) rfl
    · exact h64 (toSigned_ofSigned64 v (by omega) (by omega)) rfl
    · exact h32 (toSigned_ofSigned32 v (by omega) (by omega)) rfl
    · exact h32 (toSigned_ofSigned32 v (by omega) (by omega)) rfl
    · exact h64 (toSigned_ofSigned64 v (by omega) (by omega)) rfl
    · have h3 : ¬ i64Max < v := of_decide_eq_false hr
      simp only [i64Max] at h3
      exact h64 (toSigned_ofSigned64 v (by omega) (by omega)) rfl

theorem Num.tag_ne_zero (n : Num) : n.tag ≠ 0 := by
  cases n with
  | f64 _ => simp [Num.tag]
  | int k v => cases k <;> simp [Num.tag, IntKind.wide]

theorem V.tag_ne_zero (v : V) : v.tag ≠ 0 := by
  cases v <;> simp [V.tag, Num.tag_ne_zero]

theorem readBVal_str (s : Bytes) (f : Nat) (rest : Bytes) (hu : validUtf8 s = true) (hs : s.length + 1 < 2 ^ 31) :
    readBVal (f + 1) 0x02 (natLE 4 (s.length + 1) ++ s ++ [0] ++ rest) = some (.str s, rest) := by
  have hlen : (s.length + 1) % 4294967296 = s.length + 1 := Nat.mod_eq_of_lt (by omega)
  have hd : List.drop s.length (s ++ 0 :: rest) = 0 :: rest := List.drop_left
  have ht : List.take s.length (s ++ 0 :: rest) = s := List.take_left
  have hn : ¬ (2147483648 ≤ s.length + 1) := by omega
  simp [readBVal, List.append_assoc, split4_natLE, hlen, hd, ht, hu, hn]

mutual
  theorem readBVal_enc : (v : V) → (f : Nat) → (rest : Bytes) → v.cost ≤ f → V.firstErr v = none → V.typed v = true →
      V.small v = true → readBVal f v.tag (encV v ++ rest) = some (V.canon v, rest)
    | .null, f, rest, hc, _, _, _ => by
      cases f with
      | zero => simp [V.cost] at hc
      | succ f => simp [readBVal, V.tag, encV, V.canon]
    | .bool b, f, rest, hc, _, _, _ => by
      cases f with
      | zero => simp [V.cost] at hc
      | succ f => cases b <;> simp [readBVal, V.tag, encV, V.canon]
    | .num n, f, rest, hc, he, ht, _ => by
      cases f with
      | zero => simp [V.cost] at hc
      | succ f =>
        have hr : n.refused = false := by
          simp only [V.firstErr] at he
          cases h : n.refused
          · rfl
          · simp [h] at he
        simp only [V.typed] at ht
        simpa [V.tag, encV, V.canon] using readBVal_num n f rest ht hr
    | .str s, f, rest, hc, _, ht, hs => by
      cases f with
      | zero => simp [V.cost] at hc
      | succ f =>
        simp only [V.typed] at ht
        simp only [V.small, decide_eq_true_eq] at hs
        simpa [V.tag, encV, V.canon] using readBVal_str s f rest ht hs
    | .arr items, f, rest, hc, he, ht, hs => by
      cases f with
      | zero => simp [V.cost] at hc
      | succ f =>
        simp only [V.cost] at hc
        simp only [V.firstErr] at he
        simp only [V.typed] at ht
        simp only [V.small, Bool.and_eq_true, decide_eq_true_eq] at hs
        have ih := readBItems_enc items 0 f rest (by omega) he ht hs.2
        have hlen : ((encItems 0 items).length + 5) % 4294967296 = (encItems 0 items).length + 5 :=
          Nat.mod_eq_of_lt (by omega)
        simp [readBVal, V.tag, encV, V.canon, List.append_assoc, split4_natLE, hlen, ih]
        omega
    | .doc ms, f, rest, hc, he, ht, hs => by
      cases f with
      | zero => simp [V.cost] at hc
      | succ f =>
        simp only [V.cost] at hc
        simp only [V.firstErr] at he
        simp only [V.typed] at ht
        simp only [V.small, Bool.and_eq_true, decide_eq_true_eq] at hs
        have ih := readBElems_enc ms f rest (by omega) he ht hs.2
        have hlen : ((encMembers ms).length + 5) % 4294967296 = (encMembers ms).length + 5 :=
          Nat.mod_eq_of_lt (by omega)
        simp [readBVal, V.tag, encV, V.canon, List.append_assoc, split4_natLE, hlen, ih]
        omega
  theorem readBItems_enc : (l : VList) → (i f : Nat) → (rest : Bytes) → l.cost ≤ f → VList.firstErr l = none →
      VList.typed l = true → VList.small l = true → readBItems f (encItems i l ++ 0 :: rest) = some (VList.canon l, rest)
    | .nil, i, f, rest, hc, _, _, _ => by
      cases f with
      | zero => simp [VList.cost] at hc
      | succ f => simp [readBItems, encItems, VList.canon]
    | .cons h t, i, f, rest, hc, he, ht, hs => by
      cases f with
      | zero => simp [VList.cost] at hc
      | succ f =>
        simp only [VList.cost] at hc
        simp only [VList.typed, Bool.and_eq_true] at ht
        simp only [VList.small, Bool.and_eq_true] at hs
        have heh : V.firstErr h = none := by
          simp only [VList.firstErr] at he
          cases hh : V.firstErr h
          · rfl
          · simp [hh] at he
        have het : VList.firstErr t = none := by
          simp only [VList.firstErr, heh] at he
          exact he
        have ih1 := readBVal_enc h f (encItems (i + 1) t ++ 0 :: rest) (by omega) heh ht.1 hs.1
        have ih2 := readBItems_enc t (i + 1) f rest (by omega) het ht.2 hs.2
        have hk := readCStr_append (natDec i) (encV h ++ (encItems (i + 1) t ++ 0 :: rest)) (natDec_text i).1
        have htag : h.tag ≠ 0 := V.tag_ne_zero h
        simp [readBItems, encItems, VList.canon, List.append_assoc, htag, hk, (natDec_text i).2.1, ih1, ih2]
  theorem readBElems_enc : (ms : VMembers) → (f : Nat) → (rest : Bytes) → ms.cost ≤ f → VMembers.firstErr ms = none →
      VMembers.typed ms = true → VMembers.small ms = true →
      readBElems f (encMembers ms ++ 0 :: rest) = some (VMembers.canon ms, rest)
    | .nil, f, rest, hc, _, _, _ => by
      cases f with
      | zero => simp [VMembers.cost] at hc
      | succ f => simp [readBElems, encMembers, VMembers.canon]
    | .cons k v t, f, rest, hc, he, ht, hs => by
      cases f with
      | zero => simp [VMembers.cost] at hc
      | succ f =>
        simp only [VMembers.cost] at hc
        simp only [VMembers.typed, Bool.and_eq_true] at ht
        simp only [VMembers.small, Bool.and_eq_true] at hs
        have hk0 : (0 : UInt8) ∉ k := by
          intro h0
          simp [VMembers.firstErr, h0] at he
        have hev : V.firstErr v = none := by
          simp only [VMembers.firstErr, hk0, ↓reduceIte] at he
          cases hh : V.firstErr v
          · rfl
          · simp [hh] at he
        have het : VMembers.firstErr t = none := by
          simp only [VMembers.firstErr, hk0, ↓reduceIte, hev] at he
          exact he
        have ih1 := readBVal_enc v f (encMembers t ++ 0 :: rest) (by omega) hev ht.1.2 hs.1
        have ih2 := readBElems_enc t f rest (by omega) het ht.2 hs.2
        have hk := readCStr_append k (encV v ++ (encMembers t ++ 0 :: rest)) hk0
        have htag : v.tag ≠ 0 := V.tag_ne_zero v
        simp [readBElems, encMembers, VMembers.canon, List.append_assoc, htag, hk, ht.1.1, ih1, ih2]
end

mutual
  theorem V.cost_le : (v : V) → v.cost ≤ (encV v).length + 1
    | .null => by simp [V.cost]
    | .bool _ => by simp [V.cost]
    | .num _ => by simp [V.cost]
    | .str _ => by simp [V.cost]
    | .arr items => by
      have := VList.cost_le items 0
      simp only [V.cost, encV, List.length_append, natLE_length, List.length_singleton]
      omega
    | .doc ms => by
      have := VMembers.cost_le ms
      simp only [V.cost, encV, List.length_append, natLE_length, List.length_singleton]
      omega
  theorem VList.cost_le : (l : VList) → (i : Nat) → l.cost ≤ (encItems i l).length + 1
    | .nil, _ => by simp [VList.cost]
    | .cons h t, i => by
      have := V.cost_le h
      have := VList.cost_le t (i + 1)
      have := (natDec_text i).2.2
      have : 0 < (natDec i).length := List.length_pos_iff.mpr this
      simp only [VList.cost, encItems, List.length_cons, List.length_append, List.length_singleton]
      omega
  theorem VMembers.cost_le : (ms : VMembers) → ms.cost ≤ (encMembers ms).length + 1
    | .nil => by simp [VMembers.cost]
    | .cons k v t => by
      have := V.cost_le v
      have := VMembers.cost_le t
      simp only [VMembers.cost, encMembers, List.length_cons, List.length_append, List.length_singleton]
      omega
end

/-- the reader gives back what the serialiser was given (as BSON types), for every document it accepts -/
theorem bsonDecode_enc (ms : VMembers) (he : VMembers.firstErr ms = none) (ht : VMembers.typed ms = true)
    (hs : V.small (.doc ms) = true) : bsonDecode (encV (.doc ms)) = some (.doc (VMembers.canon ms)) := by
  have h := readBVal_enc (.doc ms) ((encV (.doc ms)).length + 1) [] (V.cost_le _) (by simpa [V.firstErr] using he)
    (by simpa [V.typed] using ht) hs
  simp only [List.append_nil, V.tag] at h
  simp [bsonDecode, h, V.canon]

/-! ### the serialiser fails exactly on what BSON cannot hold -/

mutual
  theorem V.firstErr_none_iff : (v : V) → (V.firstErr v = none ↔ V.encodable v = true)
    | .null => by simp [V.firstErr, V.encodable]
    | .bool _ => by simp [V.firstErr, V.encodable]
    | .num n => by cases h : n.refused <;> simp [V.firstErr, V.encodable, h]
    | .str _ => by simp [V.firstErr, V.encodable]
    | .arr items => by simpa [V.firstErr, V.encodable] using VList.firstErr_none_iff items
    | .doc ms => by simpa [V.firstErr, V.encodable] using VMembers.firstErr_none_iff ms
  theorem VList.firstErr_none_iff : (l : VList) → (VList.firstErr l = none ↔ VList.encodable l = true)
    | .nil => by simp [VList.firstErr, VList.encodable]
    | .cons h t => by
      have ih1 := V.firstErr_none_iff h
      have ih2 := VList.firstErr_none_iff t
      cases hh : V.firstErr h with
      | none => simp [VList.firstErr, VList.encodable, hh, ih1.mp hh, ih2]
      | some e =>
        have : V.encodable h = false := by
          cases he : V.encodable h
          · rfl
          · rw [ih1.mpr he] at hh; cases hh
        simp [VList.firstErr, VList.encodable, hh, this]
  theorem VMembers.firstErr_none_iff : (ms : VMembers) → (VMembers.firstErr ms = none ↔ VMembers.encodable ms = true)
    | .nil => by simp [VMembers.firstErr, VMembers.encodable]
    | .cons k v t => by
      have ih1 := V.firstErr_none_iff v
      have ih2 := VMembers.firstErr_none_iff t
      by_cases hk : (0 : UInt8) ∈ k
      · simp [VMembers.firstErr, VMembers.encodable, hk]
      · cases hh : V.firstErr v with
        | none => simp [VMembers.firstErr, VMembers.encodable, hk, hh, ih1.mp hh, ih2]
        | some e =>
          have : V.encodable v = false := by
            cases he : V.encodable v
            · rfl
            · rw [ih1.mpr he] at hh; cases hh
          simp [VMembers.firstErr, VMembers.encodable, hk, hh, this]
end

/-! ### BSON's own types come back unchanged -/

theorem Num.canon_of_isBson (n : Num) (h : n.isBson = true) : n.canon = n := by
  cases n with
  | f64 _ => rfl
  | int k v => cases k <;> simp [Num.isBson] at h <;> simp [Num.canon, IntKind.wide]

mutual
  theorem V.canon_of_isBson : (v : V) → V.isBson v = true → V.canon v = v
    | .null, _ => by simp [V.canon]
    | .bool _, _ => by simp [V.canon]
    | .num n, h => by simp [V.canon, Num.canon_of_isBson n (by simpa [V.isBson] using h)]
    | .str _, _ => by simp [V.canon]
    | .arr items, h => by simp [V.canon, VList.canon_of_isBson items (by simpa [V.isBson] using h)]
    | .doc ms, h => by simp [V.canon, VMembers.canon_of_isBson ms (by simpa [V.isBson] using h)]
  theorem VList.canon_of_isBson : (l : VList) → VList.isBson l = true → VList.canon l = l
    | .nil, _ => by simp [VList.canon]
    | .cons h t, hb => by
      simp only [VList.isBson, Bool.and_eq_true] at hb
      simp [VList.canon, V.canon_of_isBson h hb.1, VList.canon_of_isBson t hb.2]
  theorem VMembers.canon_of_isBson : (ms : VMembers) → VMembers.isBson ms = true → VMembers.canon ms = ms
    | .nil, _ => by simp [VMembers.canon]
    | .cons k v t, hb => by
      simp only [VMembers.isBson, Bool.and_eq_true] at hb
      simp [VMembers.canon, V.canon_of_isBson v hb.1, VMembers.canon_of_isBson t hb.2]
end

mutual
  theorem V.canon_isBson : (v : V) → V.isBson (V.canon v) = true
    | .null => by simp [V.canon, V.isBson]
    | .bool _ => by simp [V.canon, V.isBson]
    | .num n => by
      cases n with
      | f64 _ => simp [V.canon, V.isBson, Num.canon, Num.isBson]
      | int k v => cases k <;> simp [V.canon, V.isBson, Num.canon, Num.isBson, IntKind.wide]
    | .str _ => by simp [V.canon, V.isBson]
    | .arr items => by simpa [V.canon, V.isBson] using VList.canon_isBson items
    | .doc ms => by simpa [V.canon, V.isBson] using VMembers.canon_isBson ms
  theorem VList.canon_isBson : (l : VList) → VList.isBson (VList.canon l) = true
    | .nil => by simp [VList.canon, VList.isBson]
    | .cons h t => by simp [VList.canon, VList.isBson, V.canon_isBson h, VList.canon_isBson t]
  theorem VMembers.canon_isBson : (ms : VMembers) → VMembers.isBson (VMembers.canon ms) = true
    | .nil => by simp [VMembers.canon, VMembers.isBson]
    | .cons _ v t => by simp [VMembers.canon, VMembers.isBson, V.canon_isBson v, VMembers.canon_isBson t]
end

/-! ### the layout -/

theorem encNum_wf (n : Num) : WfVal n.tag (encNum n) := by
  cases n with
  | f64 bits => exact WfVal.double _ (natLE_length 8 bits)
  | int k v =>
    cases hk : k.wide
    · simp only [Num.tag, encNum, hk, Bool.false_eq_true, ↓reduceIte]
      exact WfVal.int32 _ (natLE_length 4 _)
    · simp only [Num.tag, encNum, hk, ↓reduceIte]
      exact WfVal.int64 _ (natLE_length 8 _)

mutual
  theorem encV_wf : (v : V) → V.encodable v = true → V.small v = true → WfVal v.tag (encV v)
    | .null, _, _ => WfVal.null
    | .bool b, _, _ => by cases b <;> exact WfVal.bool _ (by simp)
    | .num n, _, _ => encNum_wf n
    | .str s, _, hs => by
      simp only [V.small, decide_eq_true_eq] at hs
      exact WfVal.str s hs
    | .arr items, he, hs => by
      simp only [V.small, Bool.and_eq_true, decide_eq_true_eq] at hs
      simp only [V.encodable] at he
      have := WfVal.arr _ (encItems_wf items 0 he hs.2) hs.1
      have hl : 4 + (encItems 0 items).length + 1 = (encItems 0 items).length + 5 := by omega
      rw [hl] at this
      exact this
    | .doc ms, he, hs => by
      simp only [V.small, Bool.and_eq_true, decide_eq_true_eq] at hs
      simp only [V.encodable] at he
      have := WfVal.doc _ (encMembers_wf ms he hs.2) hs.1
      have hl : 4 + (encMembers ms).length + 1 = (encMembers ms).length + 5 := by omega
      rw [hl] at this
      exact this
  theorem encItems_wf : (l : VList) → (i : Nat) → VList.encodable l = true → VList.small l = true → WfElems (encItems i l)
    | .nil, _, _, _ => WfElems.nil
    | .cons h t, i, he, hs => by
      simp only [VList.encodable, Bool.and_eq_true] at he
      simp only [VList.small, Bool.and_eq_true] at hs
      have := WfElems.cons h.tag (natDec i) (encV h) (encItems (i + 1) t) (natDec_text i).1 (encV_wf h he.1 hs.1)
        (encItems_wf t (i + 1) he.2 hs.2)
      simpa [encItems, List.append_assoc] using this
  theorem encMembers_wf : (ms : VMembers) → VMembers.encodable ms = true → VMembers.small ms = true → WfElems (encMembers ms)
    | .nil, _, _ => WfElems.nil
    | .cons k v t, he, hs => by
      simp only [VMembers.encodable, Bool.and_eq_true, Bool.not_eq_true', decide_eq_false_iff_not] at he
      simp only [VMembers.small, Bool.and_eq_true] at hs
      have := WfElems.cons v.tag k (encV v) (encMembers t) he.1.1 (encV_wf v he.1.2 hs.1) (encMembers_wf t he.2 hs.2)
      simpa [encMembers, List.append_assoc] using this
end

end Gd.Cli
