import GdVerif.Lemmas.McUtf
import GdVerif.Lemmas.VarInt
import GdVerif.Spec.Minecraft
/-
  Decoding lemmas of the Minecraft parsers against the SPEC encoders.
-/
namespace Gd.Mc
open Gd Gd.Mc.Spec

/-! ### Bedrock -/

theorem decodes_switchEndianChunk (e : Bytes) : Decodes (switchEndianChunk e.length) e e := by
  intro b post hr
  refine ⟨b.advance e.length, ?_, Buf.advance_append b e post hr, by simp⟩
  unfold switchEndianChunk
  have : ¬ e.length > b.remaining := by simp [Buf.remaining, hr]
  simp [this, hr]

theorem decodes_bedrockLength (n : Nat) (h : n < 65536) : Decodes bedrockLength (natBE 2 n) n := by
  unfold bedrockLength
  have h1 := decodes_switchEndianChunk (natBE 2 n)
  have hl : (natBE 2 n).length = 2 := by simp [natBE, natLE_length]
  rw [hl] at h1
  refine Decodes.bind_last h1 ?_
  have : (readUnsigned .big 2).run (natBE 2 n) = .ok n := (decodes_be 2 n (by omega)).run
  rw [this]
  exact Decodes.lift_ok n

theorem splitOn_joinFields (fs : List Bytes) (hne : fs ≠ []) (h : ∀ f ∈ fs, (59 : UInt8) ∉ f) :
    splitOn 59 (joinFields fs) = fs := by
  induction fs with
  | nil => exact absurd rfl hne
  | cons f r ih =>
    cases r with
    | nil => simp only [joinFields]; exact splitOn_not_mem 59 f (h f (by simp))
    | cons g r' =>
      simp only [joinFields, List.append_assoc, List.singleton_append]
      rw [splitOn_append_delim 59 f _ (h f (by simp)), ih (by simp) fun x hx => h x (by simp [hx])]

theorem joinFields_valid (fs : List Bytes) (h : ∀ f ∈ fs, validUtf8 f = true) : validUtf8 (joinFields fs) = true := by
  induction fs with
  | nil => rfl
  | cons f r ih =>
    cases r with
    | nil => simp only [joinFields]; exact h f (by simp)
    | cons g r' =>
      simp only [joinFields, List.append_assoc]
      exact validUtf8_append _ _ (h f (by simp))
        (validUtf8_append _ _ (by decide) (ih fun x hx => h x (by simp [hx])))

theorem joinFields_no_nul (fs : List Bytes) (h : ∀ f ∈ fs, (0 : UInt8) ∉ f) : (0 : UInt8) ∉ joinFields fs := by
  induction fs with
  | nil => simp [joinFields]
  | cons f r ih =>
    cases r with
    | nil => simp only [joinFields]; exact h f (by simp)
    | cons g r' =>
      simp only [joinFields, List.append_assoc, List.mem_append, List.mem_singleton, not_or]
      exact ⟨h f (by simp), by decide, ih fun x hx => h x (by simp [hx])⟩

theorem okField_iff (s : Bytes) : okField s = true ↔ validUtf8 s = true ∧ (59 : UInt8) ∉ s ∧ (0 : UInt8) ∉ s := by
  simp [okField, and_assoc]

theorem natDec_okField (n : Nat) : okField (natDec n) = true := by
  rw [okField_iff]
  have hd := natDec_digits n
  refine ⟨validUtf8_ascii _ hd.ascii, ?_, ?_⟩
  · intro hm; have := hd 59 hm; revert this; decide
  · intro hm; have := hd 0 hm; revert this; decide

theorem gameModeName_okField (g : GameMode) : okField (gameModeName g) = true := by
  cases g <;> decide +kernel

theorem fromBedrock_name (g : GameMode) : GameMode.fromBedrock (gameModeName g) = .ok g := by
  cases g <;> decide +kernel

/-- every field of a well-formed status is a text field -/
theorem bedrockFields_ok (st : BedrockStatus) (h : wfBedrock st = true) : ∀ f ∈ bedrockFields st, okField f = true := by
  simp only [wfBedrock, Bool.and_eq_true, decide_eq_true_eq] at h
  obtain ⟨⟨⟨⟨⟨⟨⟨⟨⟨⟨⟨⟨⟨h1, h2⟩, h3⟩, h4⟩, _⟩, _⟩, h7⟩, h8⟩, h9⟩, _⟩, _⟩, _⟩, _⟩, _⟩ := h
  intro f hf
  simp only [bedrockFields, List.mem_append, List.mem_cons, List.not_mem_nil, or_false] at hf
  rcases hf with (rfl | rfl | rfl | rfl | rfl | rfl) | ht
  · exact h1
  · exact h2
  · exact h3
  · exact h4
  · exact natDec_okField _
  · exact natDec_okField _
  · unfold bedrockTail at ht
    cases hi : st.serverId with
    | none => simp [hi] at ht
    | some i =>
      simp only [hi, List.mem_cons] at ht
      rcases ht with rfl | ht
      · simpa [hi] using h7
      cases hlv : st.levelName with
      | none => simp [hlv] at ht
      | some l =>
        simp only [hlv, List.mem_cons] at ht
        rcases ht with rfl | ht
        · simpa [hlv] using h8
        cases hg : st.gameMode with
        | none => simp [hg] at ht
        | some g =>
          simp only [hg, List.mem_cons] at ht
          rcases ht with rfl | ht
          · exact gameModeName_okField g
          · exact (List.all_eq_true.mp h9) f ht

/-- the `;`-separated string of a well-formed status decodes to the expected response -/
theorem bedrockStatus_string (st : BedrockStatus) (h : wfBedrock st = true) :
    bedrockStatus (bedrockString st) = .ok (expectedBedrock st) := by
  have hok := bedrockFields_ok st h
  have hsplit : splitOn 59 (bedrockString st) = bedrockFields st :=
    splitOn_joinFields _ (by simp [bedrockFields]) fun f hf => ((okField_iff f).mp (hok f hf)).2.1
  simp only [wfBedrock, Bool.and_eq_true, decide_eq_true_eq] at h
  obtain ⟨⟨⟨⟨⟨⟨⟨⟨⟨⟨⟨⟨⟨_, _⟩, _⟩, _⟩, ho⟩, hm⟩, _⟩, _⟩, _⟩, hc1⟩, hc2⟩, hc3⟩, _⟩, _⟩ := h
  unfold bedrockStatus
  rw [hsplit]
  simp only [bedrockFields, List.cons_append, List.nil_append]
  rw [parseUnsigned_natDec 32 _ hm, parseUnsigned_natDec 32 _ ho]
  simp only [okOr, Res.bind_ok, expectedBedrock]
  -- the optional tail
  unfold bedrockTail
  cases hi : st.serverId with
  | none =>
    have hl : st.levelName = none := by
      cases hlv : st.levelName with
      | none => rfl
      | some l => simp [hlv, hi] at hc1
    have hg : st.gameMode = none := by
      cases hgm : st.gameMode with
      | none => rfl
      | some g => simp [hgm, hl] at hc2
    simp [hl, hg, bedrockGameMode]
  | some i =>
    cases hlv : st.levelName with
    | none =>
      have hg : st.gameMode = none := by
        cases hgm : st.gameMode with
        | none => rfl
        | some g => simp [hgm, hlv] at hc2
      simp [hg, bedrockGameMode]
    | some l =>
      cases hgm : st.gameMode with
      | none => simp [bedrockGameMode]
      | some g => simp [bedrockGameMode, fromBedrock_name]

theorem readCStr_all (b : Buf) (hd : (0 : UInt8) ∉ b.rest) (hv : validUtf8 b.rest = true) :
    ∃ b', readCStr b = .ok (b.rest, b') ∧ b'.data = b.data := by
  refine ⟨b.advance b.rest.length, ?_, by simp⟩
  unfold readCStr readStringWith utf8Dec
  simp only [findByte_none 0 b.rest hd, List.take_length, hv]
  have : min (b.rest.length + 1) b.rest.length = b.rest.length := by omega
  simp [this]

theorem decodesEnd_bedrockBody (st : BedrockStatus) (h : wfBedrock st = true) :
    DecodesEnd (bedrockBody (bedrockString st).length) (bedrockString st) (expectedBedrock st) := by
  intro b hr
  have hok := bedrockFields_ok st h
  have hv : validUtf8 b.rest = true := by
    rw [hr]; exact joinFields_valid _ fun f hf => ((okField_iff f).mp (hok f hf)).1
  have h0 : (0 : UInt8) ∉ b.rest := by
    rw [hr]; exact joinFields_no_nul _ fun f hf => ((okField_iff f).mp (hok f hf)).2.2
  obtain ⟨b', hread, hd'⟩ := readCStr_all b h0 hv
  refine ⟨b', ?_, hd'⟩
  unfold bedrockBody
  have hrem : remainingLength b = .ok (b.remaining, b) := rfl
  rw [Par.bind_ok hrem]
  have hsz : errorByExpectedSize (bedrockString st).length b.remaining = .ok () := by
    simp [errorByExpectedSize, Buf.remaining, hr]
  rw [hsz]
  show (readCStr >>= fun binding => Par.lift (bedrockStatus binding)) b = _
  rw [Par.bind_ok hread, hr, bedrockStatus_string st h]
  rfl

/-- the whole pong -/
theorem decodesEnd_bedrockParse (st : BedrockStatus) (h : wfBedrock st = true) :
    DecodesEnd bedrockParse (unconnectedPong clientTime st) (expectedBedrock st) := by
  have hwf := h
  simp only [wfBedrock, Bool.and_eq_true, decide_eq_true_eq] at h
  obtain ⟨⟨_, hguid⟩, hlen⟩ := h
  have hguid' : st.guid.length = 8 := by simpa using hguid
  have hL : (bedrockString st).length < 65536 := by
    simp only [unconnectedPong, List.length_append] at hlen
    omega
  unfold bedrockParse unconnectedPong
  refine DecodesEnd.bind (decodes_u8 0x1c (by decide)) ?_ (by simp only [List.append_assoc]; rfl)
  simp only [show ((0x1c : Nat) != 0x1c) = false by decide, Bool.false_eq_true, ↓reduceIte]
  refine DecodesEnd.bind (e1 := clientTime) (decodes_le 8 9833440827789222417 (by decide)) ?_ rfl
  simp only [show ((9833440827789222417 : Nat) != 9833440827789222417) = false by decide, Bool.false_eq_true, ↓reduceIte]
  have hskip := decodes_skip st.guid
  rw [hguid'] at hskip
  refine DecodesEnd.bind hskip ?_ rfl
  refine DecodesEnd.bind (e1 := raknetMagic.take 8) (decodes_le 8 18374403896610127616 (by decide)) ?_
    (e2 := raknetMagic.drop 8 ++ (natBE 2 (bedrockString st).length ++ bedrockString st)) (by
      rw [← List.append_assoc (raknetMagic.take 8), List.take_append_drop])
  simp only [show ((18374403896610127616 : Nat) != 18374403896610127616) = false by decide, Bool.false_eq_true, ↓reduceIte]
  refine DecodesEnd.bind (e1 := raknetMagic.drop 8) (decodes_le 8 8671175388723805693 (by decide)) ?_ rfl
  simp only [show ((8671175388723805693 : Nat) != 8671175388723805693) = false by decide, Bool.false_eq_true, ↓reduceIte]
  exact DecodesEnd.bind (decodes_bedrockLength _ hL) (decodesEnd_bedrockBody st hwf) rfl

/-! ### legacy -/

/-- printable ASCII-range bytes without NUL -/
def IsAsciiText (s : Bytes) : Prop := ∀ b ∈ s, 0 < b.toNat ∧ b.toNat < 0x80

theorem natDec_ascii (n : Nat) : IsAsciiText (natDec n) := fun b hb => by have := natDec_digits n b hb; omega

theorem intDec_ascii (i : Int) : IsAsciiText (intDec i) := by
  by_cases hi : 0 ≤ i
  · obtain ⟨n, rfl⟩ := Int.eq_ofNat_of_zero_le hi
    rw [intDec_nonneg]; exact natDec_ascii n
  · obtain ⟨n, hn⟩ : ∃ n : Nat, i = -(n : Int) := ⟨(-i).toNat, by omega⟩
    subst hn
    rw [intDec_neg n (by omega)]
    intro b hb
    rcases List.mem_cons.mp hb with rfl | hb
    · decide
    · exact natDec_ascii n b hb

theorem IsAsciiText.scalars {s : Bytes} (h : IsAsciiText s) : Scalars (scalarsOf s) :=
  scalars_ascii s fun b hb => (h b hb).2

theorem IsAsciiText.no_nul {s : Bytes} (h : IsAsciiText s) : 0 ∉ scalarsOf s := by
  intro hm
  obtain ⟨b, hb, hz⟩ := List.mem_map.mp hm
  have := h b hb
  omega

theorem IsAsciiText.utf8 {s : Bytes} (h : IsAsciiText s) : utf8Encode (scalarsOf s) = s :=
  utf8Encode_ascii s fun b hb => (h b hb).2

theorem natDec_no_section (n : Nat) : 0xA7 ∉ scalarsOf (natDec n) :=
  (natDec_digits n).not_mem 0xA7 (by omega)

theorem okScalars_iff (avoid cs : List Nat) :
    okScalars avoid cs = true ↔ Scalars cs ∧ ∀ a ∈ avoid, a ∉ cs := by
  unfold okScalars Scalars
  rw [List.all_eq_true]
  constructor
  · intro h
    refine ⟨fun c hc => by have := h c hc; simp at this; exact this.1, fun a ha hm => ?_⟩
    have := h a hm
    simp at this
    exact this.2 ha
  · intro ⟨h1, h2⟩ c hc
    simp only [Bool.and_eq_true, Bool.not_eq_true', h1 c hc, true_and]
    cases hcon : avoid.contains c with
    | false => rfl
    | true => exact absurd hc (h2 c (by simpa using hcon))

theorem kick_eq (cs : List Nat) : kick cs = [0xFF] ++ natBE 2 (utf16Encode cs).length ++ utf16Bytes .big cs := rfl

theorem kick_length (cs : List Nat) : (kick cs).length = (utf16Encode cs).length * 2 + 3 := by
  simp [kick, bytesOfUnits_length, natBE, natLE_length]; omega

theorem decodes_legacyHeader (L : Nat) (h : L < 65536) :
    Decodes (legacyHeader (L * 2 + 3)) ([0xFF] ++ natBE 2 L) () := by
  unfold legacyHeader
  refine Decodes.bind (decodes_u8 0xFF (by decide)) ?_
  simp only [show ((0xFF : Nat) != 0xFF) = false by decide, Bool.false_eq_true, ↓reduceIte]
  refine Decodes.bind_last (decodes_be 2 L (by omega)) ?_
  have : errorByExpectedSize (L * 2 + 3) (L * 2 + 3) = .ok () := by simp [errorByExpectedSize]
  simp only [this]
  exact Decodes.lift_ok ()

theorem decodes_isProtocol16_true : Decodes isProtocol16 marker16 true := by
  intro b post hr
  obtain ⟨b', hm, hr', hd'⟩ := decodes_skip marker16 b post hr
  refine ⟨b', ?_, hr', hd'⟩
  unfold isProtocol16
  have h1 : remainingBytes b = .ok (b.rest, b) := rfl
  rw [Par.bind_ok h1]
  have hp : marker16.isPrefixOf b.rest = true := by rw [hr]; simp [marker16]
  simp only [hp, ↓reduceIte]
  have h6 : ((marker16.length : Nat) : Int) = 6 := rfl
  rw [h6] at hm
  rw [Par.bind_ok hm]
  rfl

/-- a text without NUL never starts with the 1.6 marker `§1\0` -/
theorem isProtocol16_false (us : List Nat) (hlt : ∀ u ∈ us, u < 65536) (hne : ∀ u ∈ us, u ≠ 0) (b : Buf)
    (hr : b.rest = bytesOfUnits .big us) : isProtocol16 b = .ok (false, b) := by
  unfold isProtocol16
  have h1 : remainingBytes b = .ok (b.rest, b) := rfl
  rw [Par.bind_ok h1]
  have hp : marker16.isPrefixOf b.rest = false := by
    rw [hr]
    match us, hlt, hne with
    | [], _, _ => rfl
    | [u0], _, _ =>
      obtain ⟨a0, a1, e0⟩ := encode2 .big u0
      simp [bytesOfUnits, e0, marker16, List.isPrefixOf]
    | [u0, u1], _, _ =>
      obtain ⟨a0, a1, e0⟩ := encode2 .big u0
      obtain ⟨c0, c1, e1⟩ := encode2 .big u1
      simp [bytesOfUnits, e0, e1, marker16, List.isPrefixOf]
    | u0 :: u1 :: u2 :: r, hlt, hne =>
      obtain ⟨a0, a1, e0⟩ := encode2 .big u0
      obtain ⟨c0, c1, e1⟩ := encode2 .big u1
      obtain ⟨d0, d1, e2⟩ := encode2 .big u2
      have hz := encode2_ne_zero .big u2 (hlt u2 (by simp)) (hne u2 (by simp)) d0 d1 e2
      rw [bytesOfUnits_cons, bytesOfUnits_cons, bytesOfUnits_cons, e0, e1, e2]
      simp only [marker16, List.cons_append, List.nil_append, List.isPrefixOf]
      by_cases hd0 : d0 = 0
      · by_cases hd1 : d1 = 0
        · simp [hd0, hd1] at hz
        · have : ((0 : UInt8) == d1) = false := by simp; exact fun e => hd1 e.symm
          simp [this]
      · have : ((0 : UInt8) == d0) = false := by simp; exact fun e => hd0 e.symm
        simp [this]
  simp [hp]

theorem utf16Bytes_marker : utf16Bytes .big [0xA7, 0x31, 0] = marker16 := by decide
theorem utf16Bytes_nul : utf16Bytes .big [0] = [0, 0] := by decide

/-- the five NUL-separated fields of the 1.6 format -/
theorem decodesEnd_legacy16Response (st : Legacy16Status) (h : wf16 st = true) :
    DecodesEnd legacy16Response
      ((utf16Bytes .big (scalarsOf (intDec st.protocol)) ++ [0, 0]) ++ ((utf16Bytes .big st.version ++ [0, 0]) ++
        ((utf16Bytes .big st.motd ++ [0, 0]) ++ ((utf16Bytes .big (scalarsOf (natDec st.online)) ++ [0, 0]) ++
        utf16Bytes .big (scalarsOf (natDec st.max))))))
      (expected16 st) := by
  simp only [wf16, Bool.and_eq_true, decide_eq_true_eq] at h
  obtain ⟨⟨⟨⟨⟨⟨hlo, hhi⟩, hon⟩, hmx⟩, hv⟩, hm⟩, _⟩ := h
  obtain ⟨hvs, hv0⟩ := (okScalars_iff _ _).mp hv
  obtain ⟨hms, hm0⟩ := (okScalars_iff _ _).mp hm
  have hpa := intDec_ascii st.protocol
  have hoa := natDec_ascii st.online
  have hxa := natDec_ascii st.max
  unfold legacy16Response
  refine DecodesEnd.bind (decodes_readUtf16 .big _ hpa.scalars hpa.no_nul) ?_ rfl
  rw [hpa.utf8, mc_parseSigned_intDec 32 _ (by simpa using hlo) (by simpa using hhi)]
  refine DecodesEnd.bind (Decodes.lift_ok _) ?_ (List.nil_append _).symm
  refine DecodesEnd.bind (decodes_readUtf16 .big _ hvs (hv0 0 (by simp))) ?_ rfl
  refine DecodesEnd.bind (decodes_readUtf16 .big _ hms (hm0 0 (by simp))) ?_ rfl
  refine DecodesEnd.bind (decodes_readUtf16 .big _ hoa.scalars hoa.no_nul) ?_ rfl
  rw [hoa.utf8, parseUnsigned_natDec 32 _ hon]
  refine DecodesEnd.bind (Decodes.lift_ok _) ?_ (List.nil_append _).symm
  refine DecodesEnd.bind_pure (decodesEnd_readUtf16 .big _ hxa.scalars hxa.no_nul) ?_
  intro b
  rw [hxa.utf8, parseUnsigned_natDec 32 _ hmx]
  rfl

theorem utf16Bytes_text16 (st : Legacy16Status) :
    utf16Bytes .big (text16 st) = marker16 ++ ((utf16Bytes .big (scalarsOf (intDec st.protocol)) ++ [0, 0]) ++
        ((utf16Bytes .big st.version ++ [0, 0]) ++ ((utf16Bytes .big st.motd ++ [0, 0]) ++
        ((utf16Bytes .big (scalarsOf (natDec st.online)) ++ [0, 0]) ++ utf16Bytes .big (scalarsOf (natDec st.max)))))) := by
  unfold text16
  simp only [utf16Bytes_append, utf16Bytes_marker, utf16Bytes_nul, List.append_assoc]

/-- a 1.6 kick packet, read by the 1.6 client and by the 1.4 client alike -/
theorem decodesEnd_legacy16 (st : Legacy16Status) (h : wf16 st = true) (g : LegacyGroup) (hg : g = .v1_6 ∨ g = .v1_4) :
    DecodesEnd (legacyParse g (kick16 st).length) (kick16 st) (expected16 st) := by
  have hL : (utf16Encode (text16 st)).length < 65536 := by
    simp only [wf16, Bool.and_eq_true, decide_eq_true_eq] at h; exact h.2
  rw [kick16, kick_length, kick_eq, utf16Bytes_text16]
  have body := decodesEnd_legacy16Response st h
  rcases hg with rfl | rfl
  · simp only [legacyParse, legacy16Parse]
    refine DecodesEnd.bind (decodes_legacyHeader _ hL) ?_ rfl
    refine DecodesEnd.bind decodes_isProtocol16_true ?_ rfl
    simpa using body
  · simp only [legacyParse, legacy14Parse]
    refine DecodesEnd.bind (decodes_legacyHeader _ hL) ?_ rfl
    refine DecodesEnd.bind decodes_isProtocol16_true ?_ rfl
    simpa using body

theorem splitScalars_textOld (st : LegacyOldStatus) (hm : 0xA7 ∉ st.motd) :
    splitScalars 0xA7 (textOld st) = [st.motd, scalarsOf (natDec st.online), scalarsOf (natDec st.max)] := by
  have ht : textOld st = st.motd ++ 0xA7 :: (scalarsOf (natDec st.online) ++ 0xA7 :: scalarsOf (natDec st.max)) := by
    simp [textOld]
  rw [ht, splitScalars_sep _ _ _ hm, splitScalars_sep _ _ _ (natDec_no_section _), splitScalars_none _ _ (natDec_no_section _)]

theorem wfOld_parts (st : LegacyOldStatus) (h : wfOld st = true) :
    st.online < 2 ^ 32 ∧ st.max < 2 ^ 32 ∧ Scalars st.motd ∧ 0 ∉ st.motd ∧ 0xA7 ∉ st.motd ∧ (utf16Encode (textOld st)).length < 65536 := by
  simp only [wfOld, Bool.and_eq_true, decide_eq_true_eq] at h
  obtain ⟨⟨⟨hon, hmx⟩, hm⟩, hl⟩ := h
  obtain ⟨hms, hma⟩ := (okScalars_iff _ _).mp hm
  exact ⟨hon, hmx, hms, hma 0 (by simp), hma 0xA7 (by simp), hl⟩

theorem textOld_scalars (st : LegacyOldStatus) (h : wfOld st = true) : Scalars (textOld st) ∧ 0 ∉ textOld st := by
  obtain ⟨_, _, hms, hm0, _, _⟩ := wfOld_parts st h
  have hoa := natDec_ascii st.online
  have hxa := natDec_ascii st.max
  have hsec : Scalars [0xA7] := by intro c hc; simp at hc; subst hc; decide
  refine ⟨((((hms.append hsec).append hoa.scalars).append hsec).append hxa.scalars), ?_⟩
  unfold textOld
  simp only [List.mem_append, List.mem_singleton, not_or]
  exact ⟨⟨⟨⟨hm0, by decide⟩, hoa.no_nul⟩, by decide⟩, hxa.no_nul⟩

/-- the `§`-separated message of 1.4 / beta 1.8 -/
theorem decodesEnd_legacySplitResponse (st : LegacyOldStatus) (h : wfOld st = true) (g : LegacyGroup) (v : Bytes) :
    DecodesEnd (legacySplitResponse g v) (utf16Bytes .big (textOld st))
      { gameVersion := v, protocolVersion := -1, playersMaximum := st.max, playersOnline := st.online, players := none,
        description := utf8Encode st.motd, favicon := none, previewsChat := none, enforcesSecureChat := none,
        serverType := .legacy g } := by
  obtain ⟨hon, hmx, _, _, hsec, _⟩ := wfOld_parts st h
  obtain ⟨hsc, h0⟩ := textOld_scalars st h
  unfold legacySplitResponse
  refine DecodesEnd.bind_pure (decodesEnd_readUtf16 .big _ hsc h0) ?_
  intro b
  have hsplit : splitChar 0xA7 (utf8Encode (textOld st)) = [utf8Encode st.motd, natDec st.online, natDec st.max] := by
    unfold splitChar
    rw [utf8Decode_encode _ hsc, splitScalars_textOld st hsec]
    simp [(natDec_ascii st.online).utf8, (natDec_ascii st.max).utf8]
  simp only [hsplit, List.length_cons, List.length_nil]
  have hsz : errorByExpectedSize 3 (0 + 1 + 1 + 1) = .ok () := by decide
  rw [hsz, parseUnsigned_natDec 32 _ hon, parseUnsigned_natDec 32 _ hmx]
  rfl

theorem decodesEnd_legacy14 (st : LegacyOldStatus) (h : wfOld st = true) :
    DecodesEnd (legacyParse .v1_4 (kickOld st).length) (kickOld st) (expectedOld .v1_4 st) := by
  obtain ⟨_, _, _, _, _, hL⟩ := wfOld_parts st h
  obtain ⟨hsc, h0⟩ := textOld_scalars st h
  rw [kickOld, kick_length, kick_eq]
  simp only [legacyParse, legacy14Parse]
  refine DecodesEnd.bind (decodes_legacyHeader _ hL) ?_ rfl
  intro b hr
  have hfalse := isProtocol16_false (utf16Encode (textOld st)) (utf16Encode_lt _ hsc) (utf16Encode_ne_zero _ h0) b hr
  rw [Par.bind_ok hfalse]
  simp only [Bool.false_eq_true, ↓reduceIte]
  exact decodesEnd_legacySplitResponse st h .v1_4 _ b hr

theorem decodesEnd_legacyB18 (st : LegacyOldStatus) (h : wfOld st = true) :
    DecodesEnd (legacyParse .vb1_8 (kickOld st).length) (kickOld st) (expectedOld .vb1_8 st) := by
  obtain ⟨_, _, _, _, _, hL⟩ := wfOld_parts st h
  rw [kickOld, kick_length, kick_eq]
  simp only [legacyParse, legacyB18Parse]
  refine DecodesEnd.bind (decodes_legacyHeader _ hL) ?_ rfl
  exact decodesEnd_legacySplitResponse st h .vb1_8 _

/-! ### Java -/

theorem castI32_id (i : Int) (hlo : -(2 ^ 31 : Int) ≤ i) (hhi : i < 2 ^ 31) : castI32 i = i := by
  unfold castI32 toSigned ofSigned
  have e32 : ((2 ^ 32 : Nat) : Int) = 4294967296 := by decide
  have e31 : (2 : Nat) ^ (32 - 1) = 2147483648 := by decide
  have h31 : (2 : Int) ^ 31 = 2147483648 := by decide
  rw [e32, e31]
  rw [h31] at hlo hhi
  split <;> omega

theorem extractPlayers_represents {js : List Json} {ps : List Player} (h : RepresentsPlayers js ps) :
    extractPlayers js = .ok ps := by
  induction h with
  | nil => rfl
  | cons hp _ ih =>
    obtain ⟨hn, hi⟩ := hp
    simp [extractPlayers, extractPlayer, hn, hi, Json.asStr, okOr, ih]

/-- the field extraction on any document that represents the status -/
theorem javaExtract_represents (ext : Ext) (j : Json) (st : JavaStatus) (text : Bytes) (hrep : Represents j st)
    (hwf : wfJava st text = true) : javaExtract ext j = .ok (expectedJava ext st) := by
  simp only [wfJava, Bool.and_eq_true, decide_eq_true_eq] at hwf
  obtain ⟨⟨⟨⟨⟨hlo, hhi⟩, hmax⟩, hon⟩, _⟩, _⟩ := hwf
  have h31 : (2 : Int) ^ 31 = 2147483648 := by decide
  have h63 : (2 : Int) ^ 63 = 9223372036854775808 := by decide
  have h64 : (2 : Int) ^ 64 = 18446744073709551616 := by decide
  have hpI : (Json.num (.int st.protocol)).asI64 = some st.protocol := by
    have : -(9223372036854775808 : Int) ≤ st.protocol ∧ st.protocol < 9223372036854775808 := by rw [h31] at hlo hhi; omega
    simp [Json.asI64, this]
  have hu : ∀ n : Nat, n < 2 ^ 32 → (Json.num (.int (n : Int))).asU64 = some n := by
    intro n hn
    have : (n : Int) < 18446744073709551616 := by
      have : (2 : Nat) ^ 32 = 4294967296 := by decide
      omega
    simp [Json.asU64, this]
  have hsample : extractSample ((j.get (key "players")).get (key "sample")) = .ok st.sample := by
    have hs := hrep.sample
    cases hsm : st.sample with
    | none => rw [hsm] at hs; simp at hs; simp [extractSample, hs, Json.isNull]
    | some ps =>
      rw [hsm] at hs
      obtain ⟨js, hjs, hps⟩ := hs
      simp [extractSample, hjs, Json.isNull, Json.asArray, okOr, extractPlayers_represents hps]
  unfold javaExtract
  rw [hrep.name, hrep.protocol, hrep.max, hrep.online, hsample, hpI, hu _ hmax, hu _ hon, hrep.description, hrep.favicon,
    hrep.previewsChat, hrep.enforcesSecureChat]
  simp only [Json.asStr, okOr, Res.bind_ok, expectedJava, castI32_id _ hlo hhi, castU32,
    Nat.mod_eq_of_lt hmax, Nat.mod_eq_of_lt hon]
  cases st.favicon <;> cases st.previewsChat <;> cases st.enforcesSecureChat <;> rfl

theorem asVarint_zero : asVarint 0 = [0x00] := by decide

/-- the status packet body: packet id 0, then the JSON text as a protocol String -/
theorem decodes_javaStatusText (text : Bytes) (hv : validUtf8 text = true) (hl : text.length < 2 ^ 31) :
    Decodes javaStatusText ([0x00] ++ mcString text) text := by
  unfold javaStatusText
  have h0 := decodes_getVarint 0 (by decide)
  rw [asVarint_zero] at h0
  refine Decodes.bind h0 ?_
  simp only [show ((0 : Nat) != 0) = false by decide, Bool.false_eq_true, ↓reduceIte]
  intro b post hr
  exact getString_asString text hv hl post b (mcString text) (by simp [asString, hl, mcString, varint]) hr

theorem decodes_javaParse (ext : Ext) (text : Bytes) (j : Json) (st : JavaStatus)
    (hparse : ext.parseJson text = some j) (hrep : Represents j st) (hwf : wfJava st text = true) :
    Decodes (javaParse ext) ([0x00] ++ mcString text) (expectedJava ext st) := by
  have hwf' := hwf
  simp only [wfJava, Bool.and_eq_true, decide_eq_true_eq] at hwf'
  obtain ⟨⟨_, hv⟩, hl⟩ := hwf'
  unfold javaParse
  refine Decodes.bind_last (decodes_javaStatusText text hv (by omega)) ?_
  have : javaDecode ext text = .ok (expectedJava ext st) := by
    simp [javaDecode, hparse, javaExtract_represents ext j st text hrep hwf]
  rw [this]
  exact Decodes.lift_ok _

theorem mcString_length_le (text : Bytes) (hl : text.length < 2 ^ 31) : (mcString text).length ≤ text.length + 5 := by
  have := asVarint_length text.length (by omega)
  simp only [mcString, varint, List.length_append]
  omega

/-- `Java::receive` on the stream a conforming server writes: the packet without its length prefix -/
theorem javaUnframe_response (text trailing : Bytes) (hl : text.length < 2 ^ 31 - 8) :
    javaUnframe.run (statusResponse text trailing) = .ok ([0x00] ++ mcString text ++ trailing) := by
  have hlen : ([0x00] ++ mcString text).length < 2 ^ 32 := by
    have := mcString_length_le text (by omega)
    simp only [List.length_append, List.length_cons, List.length_nil]
    omega
  obtain ⟨b', h1, hr1, _⟩ := decodes_getVarint _ hlen (Buf.new (statusResponse text trailing)) ([0x00] ++ mcString text ++ trailing)
    (by simp [statusResponse, frame, varint, List.append_assoc])
  unfold Par.run javaUnframe
  rw [Par.bind_ok h1]
  simp [remainingBytes, hr1]

end Gd.Mc
