import GdVerif.Proto.Dispatch
import GdVerif.Lemmas.SmallLogic
import GdVerif.Lemmas.ValveSafe
import GdVerif.Lemmas.GsSafe
import GdVerif.Lemmas.Gs3Safe
import GdVerif.Lemmas.QuakeSafe
import GdVerif.Lemmas.Unreal2Safe
import GdVerif.Lemmas.McSafe
import GdVerif.Lemmas.Jc2m
import GdVerif.Lemmas.Savage2
import GdVerif.Lemmas.Ffow
import GdVerif.Lemmas.TheShip
import GdVerif.Lemmas.Mindustry
import GdVerif.Lemmas.Battalion
/-
  Lemmas about the dispatch model (`Proto/Dispatch.lean`):
    * safety: every arm of `generic` and every kind of module is crash-free on every transport state and logs only
      events whose destination is the port the arm computes (composition of the families' `query_safe`);
    * the three paths: `generic` against `protocolQuery` and against `moduleQuery`, arm by arm.
-/
namespace Gd.Dispatch
open Gd

/-! ### destination port of logged events -/

/-- every socket is opened to, and every datagram / stream write is sent to, port `p` -/
def PortEv (p : Nat) : Ev → Prop
  | .opened _ _ q _ => q = p
  | .send _ q _ _ => q = p
  | .recv _ _ _ => True

theorem logSafe_weaken {P P' : Ev → Prop} {q : Q α} (h : LogSafe P q) (hpp : ∀ e, P e → P' e) : LogSafe P' q := by
  intro w
  obtain ⟨hc, added, hlog, hall⟩ := h w
  exact ⟨hc, added, hlog, fun e he => hpp e (hall e he)⟩

/-- a family's `query_safe` (its event predicate may mention the socket number the query gets) as a `LogSafe` -/
theorem logSafe_of_safe {P : Nat → Ev → Prop} {p : Nat} {q : Q α}
    (h : ∀ w, (q w).1 ≠ .crash ∧ ∃ added, (q w).2.log = w.log ++ added ∧ ∀ e ∈ added, P w.conns.length e)
    (hp : ∀ id e, P id e → PortEv p e) : LogSafe (PortEv p) q := by
  intro w
  obtain ⟨hc, added, hlog, hall⟩ := h w
  exact ⟨hc, added, hlog, fun e he => hp _ e (hall e he)⟩

theorem logSafe_boxed {P : Ev → Prop} {q : Q α} (f : α → Response) (h : LogSafe P q) : LogSafe P (boxed f q) := by
  unfold boxed Games.mapQ
  exact LogSafe.bind h fun a => LogSafe.pure P (f a)

theorem logSafe_mapQ {P : Ev → Prop} {q : Q α} (f : α → β) (h : LogSafe P q) : LogSafe P (Games.mapQ f q) := by
  unfold Games.mapQ
  exact LogSafe.bind h fun a => LogSafe.pure P (f a)

/-! #### the families -/

theorem portEv_valve {port id : Nat} {e : Ev} (h : Valve.QueryEvOk port id e) : PortEv port e := by
  cases e with
  | opened c t p r => exact h.2.2
  | send c p d f => exact h.2.1
  | recv c s g => trivial

theorem logSafe_valve (ext : Valve.Ext) (port : Nat) (engine : Valve.Engine) (g : Valve.Gather) (r : Nat) :
    LogSafe (PortEv port) (Valve.query ext port engine g r) :=
  logSafe_of_safe (Valve.query_safe ext port engine g r) fun _ _ => portEv_valve

theorem logSafe_gs1 (port r : Nat) : LogSafe (PortEv port) (Gs1.query port r) :=
  logSafe_of_safe (Gs1.query_safe port r) fun id e h => by
    cases e with
    | opened c t p x => exact h.2.2
    | send c p d f => exact h.2.1
    | recv c s g => trivial

theorem logSafe_gs2 (port r : Nat) : LogSafe (PortEv port) (Gs2.query port r) :=
  logSafe_of_safe (Gs2.query_safe port r) fun id e h => by
    cases e with
    | opened c t p x => exact h.2.2
    | send c p d f => exact h.2.1
    | recv c s g => trivial

theorem portEv_gs3 {port id : Nat} {payload : Bytes} {e : Ev} (h : Gs3.QueryEvOk port id payload e) : PortEv port e := by
  cases e with
  | opened c t p x => exact h.2.2
  | send c p d f => exact h.2.1
  | recv c s g => trivial

theorem logSafe_gs3 (port r : Nat) : LogSafe (PortEv port) (Gs3.query port r) :=
  logSafe_of_safe (P := fun id => Gs3.QueryEvOk port id Gs3.DEFAULT_PAYLOAD) (Gs3.query_safe port r) fun _ _ => portEv_gs3

theorem logSafe_jc2m (port : Option Nat) (r : Nat) :
    LogSafe (PortEv (port.getD Jc2m.DEFAULT_PORT)) (Jc2m.query port r) :=
  logSafe_of_safe (P := fun id => Gs3.QueryEvOk (port.getD Jc2m.DEFAULT_PORT) id Jc2m.PAYLOAD) (Jc2m.query_safe port r)
    fun _ _ => portEv_gs3

theorem logSafe_quake (port : Nat) (v : Quake.Version) (r : Nat) : LogSafe (PortEv port) (Quake.query port v r) :=
  logSafe_of_safe (Quake.query_safe port v r) fun id e h => by
    cases e with
    | opened c t p x => exact h.2.2
    | send c p d f => exact h.2.1
    | recv c s g => trivial

theorem logSafe_unreal2 (port : Nat) (g : Unreal2.Gather) (r : Nat) : LogSafe (PortEv port) (Unreal2.query port g r) :=
  logSafe_of_safe (Unreal2.query_safe port g r) fun id e h => by
    cases e with
    | opened c t p x => exact h.2.2
    | send c p d f => exact h.2.1
    | recv c s g => trivial

theorem logSafe_savage2 (port : Nat) : LogSafe (PortEv port) (Savage2.query port) :=
  logSafe_of_safe (Savage2.query_safe port) fun id e h => by
    cases e with
    | opened c t p x => exact h.2.2
    | send c p d f => exact h.2.1
    | recv c s g => trivial

theorem logSafe_theShip (ext : Valve.Ext) (port r : Nat) : LogSafe (PortEv port) (TheShip.query ext port r) :=
  logSafe_of_safe (TheShip.query_safe ext port r) fun _ _ => portEv_valve

theorem logSafe_battalion (ext : Valve.Ext) (port : Nat) : LogSafe (PortEv port) (Battalion.query ext port) :=
  logSafe_of_safe (Battalion.query_safe ext port) fun _ _ => portEv_valve

theorem logSafe_ffow (ext : Valve.Ext) (port r : Nat) : LogSafe (PortEv port) (Ffow.query ext port r) :=
  logSafe_of_safe (Ffow.query_safe ext port r) fun id e h => by
    cases e with
    | opened c t p x => exact h.2.2
    | send c p d f => exact h.2.1
    | recv c s g => trivial

theorem logSafe_mindustry (port r : Nat) : LogSafe (PortEv port) (Mindustry.query port r) :=
  logSafe_weaken (Mindustry.logSafe_query port r) fun e h => by
    cases e with
    | opened c t p x => exact h.2
    | send c p d f => exact h.1
    | recv c s g => trivial

theorem portEv_mcUnit {tcp : Bool} {port : Nat} {a : Bytes → Prop} {id : Nat} {e : Ev} (h : Mc.UnitEv tcp port a id e) :
    PortEv port e := by
  cases e with
  | opened c t p x => exact h.2.2
  | send c p d f => exact h.2.1
  | recv c s g => trivial

theorem portEv_mcAuto {port : Nat} {a : Bytes → Prop} {e : Ev} (h : Mc.AutoEv port a e) : PortEv port e := by
  cases e with
  | opened c t p x => exact h
  | send c p d f => exact h.1
  | recv c s g => trivial

theorem logSafe_mcJava (ext : Mc.Ext) (port : Nat) (st : Mc.RequestSettings) (r : Nat) :
    LogSafe (PortEv port) (Mc.queryJava ext port st r) :=
  logSafe_of_safe (Mc.queryJava_safe ext port st r) fun _ _ => portEv_mcUnit

theorem logSafe_mcBedrock (port r : Nat) : LogSafe (PortEv port) (Mc.queryBedrock port r) :=
  logSafe_of_safe (Mc.queryBedrock_safe port r) fun _ _ => portEv_mcUnit

theorem logSafe_mcLegacySpecific (g : Mc.LegacyGroup) (port r : Nat) :
    LogSafe (PortEv port) (Mc.queryLegacySpecific g port r) :=
  logSafe_of_safe (Mc.queryLegacySpecific_safe g port r) fun _ _ => portEv_mcUnit

theorem logSafe_mcLegacy (port r : Nat) : LogSafe (PortEv port) (Mc.queryLegacy port r) :=
  fun w => (Mc.LogSafe.mono (Mc.queryLegacy_safe port r) fun _ => portEv_mcAuto) w

theorem logSafe_mcAuto (ext : Mc.Ext) (port : Nat) (st : Mc.RequestSettings) (r : Nat) :
    LogSafe (PortEv port) (Mc.queryAuto ext port st r) :=
  fun w => (Mc.LogSafe.mono (Mc.queryAuto_safe ext port st r) fun _ => portEv_mcAuto) w

/-- `if let Ok(r) = first { return Ok(f(r)) }; rest` with probes that may go to different ports -/
theorem logSafe_orElse {P : Ev → Prop} {first : Q α} {f : α → β} {rest : Q β}
    (h1 : LogSafe P first) (h2 : LogSafe P rest) : LogSafe P (Mc.orElse first f rest) :=
  fun w => (Mc.LogSafe.orElse (fun w => h1 w) (fun w => h2 w)) w

/-! ### the dispatch -/

/-- what the theorems ask of the one parameter that does I/O (Eco's HTTP client): it does not panic and talks
to the port it is given -/
def EcoSafe (ext : Ext) : Prop := ∀ port t host, LogSafe (PortEv port) (ext.ecoFetch port t host)

/-- the hypothesis is needed for the Eco arm only -/
def EcoSafeFor (ext : Ext) (p : Protocol) : Prop := p = .proprietary .eco → EcoSafe ext

theorem logSafe_ecoQuery (ext : Ext) (h : EcoSafe ext) (port : Option Nat) (t : Option Settings.Timeout)
    (st : Option EcoSettings) : LogSafe (PortEv (port.getD Eco.DEFAULT_PORT)) (ecoQuery ext port t st) := by
  unfold ecoQuery
  exact LogSafe.bind (h _ _ _) fun root => LogSafe.pure _ _

/-- where the generic path sends: the given port; when none is given, the definition's default — except for the
arms that hand the optional port on to the game's own function, which applies its own default -/
def destPort (game : Game) (port : Option Nat) : Nat :=
  port.getD ((ownDefaultPort game.protocol).getD game.defaultPort)

theorem generic_logSafe (ext : Ext) (game : Game) (heco : EcoSafeFor ext game.protocol) (port : Option Nat)
    (timeout : Option Settings.Timeout) (extra : Option Extra) :
    LogSafe (PortEv (destPort game port)) (generic ext game port timeout extra) := by
  obtain ⟨dp, proto, rs⟩ := game
  unfold generic destPort
  cases proto with
  | valve e => exact logSafe_boxed _ (logSafe_valve _ _ _ _ _)
  | gamespy v => cases v <;> first
      | exact logSafe_boxed _ (logSafe_gs1 _ _)
      | exact logSafe_boxed _ (logSafe_gs2 _ _)
      | exact logSafe_boxed _ (logSafe_gs3 _ _)
  | quake v => exact logSafe_boxed _ (logSafe_quake _ _ _)
  | unreal2 => exact logSafe_boxed _ (logSafe_unreal2 _ _ _)
  | proprietary p =>
    cases p with
    | savage2 => exact logSafe_boxed _ (logSafe_savage2 _)
    | theShip => exact logSafe_boxed _ (logSafe_theShip _ _ _)
    | ffow => exact logSafe_boxed _ (logSafe_ffow _ _ _)
    | jc2m => exact logSafe_boxed _ (logSafe_jc2m _ _)
    | mindustry => exact logSafe_boxed _ (logSafe_mindustry _ _)
    | eco => exact logSafe_boxed _ (logSafe_ecoQuery ext (heco rfl) _ _ _)
    | minecraft v =>
      cases v with
      | none => exact logSafe_boxed _ (logSafe_mcAuto _ _ _ _)
      | some s =>
        cases s with
        | java => exact logSafe_boxed _ (logSafe_mcJava _ _ _ _)
        | bedrock => exact logSafe_boxed _ (logSafe_mcBedrock _ _)
        | legacy g => exact logSafe_boxed _ (logSafe_mcLegacySpecific _ _ _)

/-! ### the three paths -/

theorem mapQ_mapQ (f : β → γ) (g : α → β) (q : Q α) : Games.mapQ f (Games.mapQ g q) = Games.mapQ (fun a => f (g a)) q := by
  funext w
  simp only [Games.mapQ, bind, Q.bind']
  cases q w with
  | mk res w' => cases res <;> rfl

theorem toValve_intoExtra (g : Valve.Gather) : (valveIntoExtra g).toValve = g := rfl

/-- Generic path = protocol-level call with the definition's parameters: the same computation (hence the same result
and the same log from every transport state), port given or omitted, any timeout settings, any extra settings.
For the arms that hand the optional port on, "omitted" needs the game's own default to be the definition's. -/
theorem generic_eq_protocol (ext : Ext) (game : Game) (port : Option Nat) (timeout : Option Settings.Timeout)
    (extra : Option Extra)
    (hport : port = none → ∀ p, ownDefaultPort game.protocol = some p → p = game.defaultPort) :
    generic ext game port timeout extra
      = protocolQuery ext game.protocol game.requestSettings extra (port.getD game.defaultPort) timeout := by
  obtain ⟨dp, proto, rs⟩ := game
  have own : ∀ p, ownDefaultPort proto = some p → port.getD p = port.getD dp := by
    intro p hp
    cases port with
    | some q => rfl
    | none => simp only [Option.getD_none]; exact hport rfl p hp
  unfold generic protocolQuery
  cases proto with
  | valve e => cases extra <;> rfl
  | gamespy v => cases v <;> rfl
  | quake v => rfl
  | unreal2 => cases extra <;> rfl
  | proprietary p =>
    cases p with
    | savage2 =>
      simp only [savage2QueryWithTimeout]
      rw [own _ rfl]
    | theShip =>
      simp only [theShipQueryWithTimeout]
      rw [own _ rfl]
    | ffow =>
      simp only [ffowQueryWithTimeout]
      rw [own _ rfl]
    | jc2m =>
      simp only [jc2mQueryWithTimeout]
      have := own _ (rfl : ownDefaultPort (.proprietary .jc2m) = some Jc2m.DEFAULT_PORT)
      cases port with
      | some q => rfl
      | none =>
        simp only [Option.getD_none] at this ⊢
        rw [← this]; rfl
    | mindustry =>
      simp only [mindustryQuery]
      rw [own _ rfl]
    | eco =>
      simp only [ecoQuery]
      rw [own _ rfl]
      cases extra <;> rfl
    | minecraft v =>
      cases v with
      | none => cases extra <;> rfl
      | some s => cases s <;> cases extra <;> rfl

/-- a definition row and a module row say the same thing about a game (what `C14_tables_agree` checks, typed part) -/
def rowsAgree (d m : Gen.GameRow) : Bool := d.port == m.port && d.tag == m.tag

/-- the default ports in a module's row are the ones the module's model applies (for the hand-written modules: the
literals of their models, which the correspondence ties to the code) -/
def modPortsOk (m : Gen.GameRow) : Bool :=
  match Module.ofRow m with
  | some mo => mo.defaultPorts == (m.port, m.port2)
  | none => true

/-- Generic path (no extra settings, default timeouts), seen through the documented conversion = the module's
`query`: the same computation, port given or omitted.  `battalion1944` is excluded (its module post-processes the
rules); the Minecraft auto-detect function with the port omitted needs its Bedrock probe's default to be the row's. -/
theorem generic_eq_module (ext : Ext) (d m : Gen.GameRow) (hrows : rowsAgree d m = true) (hlit : modPortsOk m = true)
    (game : Game) (mo : Module) (hg : Game.ofRow d = some game) (hm : Module.ofRow m = some mo)
    (hb : mo ≠ .battalion1944) (port : Option Nat)
    (hauto : mo = .minecraft none → port = none → m.port2 = m.port) :
    Games.mapQ Response.view (generic ext game port none none) = moduleQuery ext mo port := by
  obtain ⟨did, dname, dport, dproto, dengine, dgather, du, dport2, dhand, dtag⟩ := d
  obtain ⟨mid, mname, mport, mproto, mengine, mgather, mu, mport2, mhand, mtag⟩ := m
  simp only [rowsAgree, Bool.and_eq_true, beq_iff_eq] at hrows
  obtain ⟨hp, ht⟩ := hrows
  subst hp ht
  simp only [modPortsOk, hm, beq_iff_eq] at hlit
  simp only [Game.ofRow, Option.map_eq_some_iff] at hg
  obtain ⟨proto, hproto, hgame⟩ := hg
  subst hgame
  cases dtag with
  | other => simp [protocolOf] at hproto
  | valve e p r c =>
    simp only [protocolOf, Option.some.injEq] at hproto
    subst hproto
    cases mhand with
    | false =>
      simp only [Module.ofRow, Option.some.injEq] at hm
      subst hm
      simp only [generic, moduleQuery, boxed, mapQ_mapQ, requestSettingsOf]
      rfl
    | true =>
      simp only [Module.ofRow] at hm
      split at hm
      · simp only [Option.some.injEq] at hm; exact absurd hm.symm hb
      · cases hm
  | gs1 =>
    cases mhand <;> simp only [Module.ofRow, Option.some.injEq, reduceCtorEq] at hm
    subst hm; cases hproto
    simp only [generic, moduleQuery, boxed, mapQ_mapQ]; rfl
  | gs2 =>
    cases mhand <;> simp only [Module.ofRow, Option.some.injEq, reduceCtorEq] at hm
    subst hm; cases hproto
    simp only [generic, moduleQuery, boxed, mapQ_mapQ]; rfl
  | gs3 =>
    cases mhand <;> simp only [Module.ofRow, Option.some.injEq, reduceCtorEq] at hm
    subst hm; cases hproto
    simp only [generic, moduleQuery, boxed, mapQ_mapQ]; rfl
  | quake1 =>
    cases mhand <;> simp only [Module.ofRow, Option.some.injEq, reduceCtorEq] at hm
    subst hm; cases hproto
    simp only [generic, moduleQuery, boxed, mapQ_mapQ]; rfl
  | quake2 =>
    cases mhand <;> simp only [Module.ofRow, Option.some.injEq, reduceCtorEq] at hm
    subst hm; cases hproto
    simp only [generic, moduleQuery, boxed, mapQ_mapQ]; rfl
  | quake3 =>
    cases mhand <;> simp only [Module.ofRow, Option.some.injEq, reduceCtorEq] at hm
    subst hm; cases hproto
    simp only [generic, moduleQuery, boxed, mapQ_mapQ]; rfl
  | unreal2 =>
    cases mhand <;> simp only [Module.ofRow, Option.some.injEq, reduceCtorEq] at hm
    subst hm; cases hproto
    simp only [generic, moduleQuery, boxed, mapQ_mapQ]; rfl
  | savage2 =>
    cases mhand <;> simp only [Module.ofRow, Option.some.injEq, reduceCtorEq] at hm
    subst hm; cases hproto
    simp only [generic, moduleQuery, boxed, mapQ_mapQ]; rfl
  | theShip =>
    cases mhand <;> simp only [Module.ofRow, Option.some.injEq, reduceCtorEq] at hm
    subst hm; cases hproto
    simp only [generic, moduleQuery, boxed, mapQ_mapQ]; rfl
  | ffow =>
    cases mhand <;> simp only [Module.ofRow, Option.some.injEq, reduceCtorEq] at hm
    subst hm; cases hproto
    simp only [generic, moduleQuery, boxed, mapQ_mapQ]; rfl
  | jc2m =>
    cases mhand <;> simp only [Module.ofRow, Option.some.injEq, reduceCtorEq] at hm
    subst hm; cases hproto
    simp only [generic, moduleQuery, boxed, mapQ_mapQ]; rfl
  | mindustry =>
    cases mhand <;> simp only [Module.ofRow, Option.some.injEq, reduceCtorEq] at hm
    subst hm; cases hproto
    simp only [generic, moduleQuery, boxed, mapQ_mapQ]; rfl
  | eco =>
    cases mhand <;> simp only [Module.ofRow, Option.some.injEq, reduceCtorEq] at hm
    subst hm; cases hproto
    simp only [generic, moduleQuery, boxed, mapQ_mapQ]; rfl
  | minecraft k =>
    cases mhand <;> simp only [Module.ofRow, Option.some.injEq, reduceCtorEq] at hm
    subst hm; cases hproto
    cases k with
    | auto =>
      simp only [mcServerOf, Module.defaultPorts, Prod.mk.injEq] at hlit hauto
      obtain ⟨hj, hbd⟩ := hlit
      simp only [generic, moduleQuery, boxed, mapQ_mapQ, mcServerOf, mcModuleAuto, mcModuleJava, mcModuleBedrock,
        mcModuleLegacy, mcQueryAuto, mcQueryJava, mcQueryBedrock, mcQueryLegacy, Mc.queryAuto, hj, hbd]
      cases port with
      | some q => rfl
      | none =>
        have := hauto trivial rfl
        simp only [Option.getD_none, this]; rfl
    | java =>
      simp only [mcServerOf, Module.defaultPorts, Prod.mk.injEq] at hlit
      simp only [generic, moduleQuery, boxed, mapQ_mapQ, mcServerOf, mcModuleJava, hlit.1]; rfl
    | bedrock =>
      simp only [mcServerOf, Module.defaultPorts, Prod.mk.injEq] at hlit
      simp only [generic, moduleQuery, boxed, mapQ_mapQ, mcServerOf, mcModuleBedrock, hlit.1]; rfl
    | legacy16 =>
      simp only [mcServerOf, Module.defaultPorts, Prod.mk.injEq] at hlit
      simp only [generic, moduleQuery, boxed, mapQ_mapQ, mcServerOf, mcModuleLegacySpecific, hlit.1]; rfl
    | legacy14 =>
      simp only [mcServerOf, Module.defaultPorts, Prod.mk.injEq] at hlit
      simp only [generic, moduleQuery, boxed, mapQ_mapQ, mcServerOf, mcModuleLegacySpecific, hlit.1]; rfl
    | legacyB18 =>
      simp only [mcServerOf, Module.defaultPorts, Prod.mk.injEq] at hlit
      simp only [generic, moduleQuery, boxed, mapQ_mapQ, mcServerOf, mcModuleLegacySpecific, hlit.1]; rfl

/-- For an arm that hands the optional port on, the default its callee applies is the definition's default port, once
the definition's row agrees with the row of the game's hand-written module and that row carries the module's literal. -/
theorem own_default_of_rows (d m : Gen.GameRow) (hrows : rowsAgree d m = true) (hlit : modPortsOk m = true)
    (hhand : m.hand = true) (game : Game) (hg : Game.ofRow d = some game) (p : Nat)
    (hp : ownDefaultPort game.protocol = some p) : p = d.port := by
  obtain ⟨did, dname, dport, dproto, dengine, dgather, du, dport2, dhand, dtag⟩ := d
  obtain ⟨mid, mname, mport, mproto, mengine, mgather, mu, mport2, mhand, mtag⟩ := m
  simp only [rowsAgree, Bool.and_eq_true, beq_iff_eq] at hrows
  obtain ⟨hpt, ht⟩ := hrows
  subst hpt ht
  simp only at hhand
  subst hhand
  simp only [Game.ofRow, Option.map_eq_some_iff] at hg
  obtain ⟨proto, hproto, hgame⟩ := hg
  subst hgame
  cases dtag <;> simp only [protocolOf, Option.some.injEq, reduceCtorEq] at hproto <;> subst hproto <;>
    simp only [ownDefaultPort, Option.some.injEq, reduceCtorEq] at hp <;>
    simp only [modPortsOk, Module.ofRow, Module.defaultPorts, beq_iff_eq, Prod.mk.injEq] at hlit <;>
    first
    | (rw [← hp]; exact hlit.1)
    | (rename_i k; cases k <;> simp [mcServerOf, ownDefaultPort] at hp)

/-- only the `eco` tag is the Eco arm -/
theorem tag_of_eco {t : Gen.ProtoTag} (h : protocolOf t = some (.proprietary .eco)) : t = .eco := by
  cases t with
  | eco => rfl
  | minecraft k => simp [protocolOf] at h
  | _ => simp [protocolOf] at h

theorem game_ofRow_eco {d : Gen.GameRow} {game : Game} (hg : Game.ofRow d = some game)
    (hp : game.protocol = .proprietary .eco) : d.tag = .eco := by
  simp only [Game.ofRow, Option.map_eq_some_iff] at hg
  obtain ⟨proto, hproto, hgame⟩ := hg
  subst hgame
  exact tag_of_eco (hp ▸ hproto)

/-! ### the modules never crash either -/

theorem moduleQuery_logSafe (ext : Ext) (m : Module) (heco : m = .eco → EcoSafe ext) (port : Option Nat) :
    LogSafe (fun _ => True) (moduleQuery ext m port) := by
  have tr : ∀ {α : Type} {p : Nat} {q : Q α}, LogSafe (PortEv p) q → LogSafe (fun _ => True) q :=
    fun h => logSafe_weaken h fun _ _ => trivial
  unfold moduleQuery
  cases m with
  | valve dp e g => exact logSafe_boxed _ (logSafe_mapQ _ (tr (logSafe_valve _ _ _ _ _)))
  | gamespy v dp => cases v <;> first
      | exact logSafe_boxed _ (tr (logSafe_gs1 _ _))
      | exact logSafe_boxed _ (tr (logSafe_gs2 _ _))
      | exact logSafe_boxed _ (tr (logSafe_gs3 _ _))
  | quake v dp => exact logSafe_boxed _ (tr (logSafe_quake _ _ _))
  | unreal2 dp => exact logSafe_boxed _ (tr (logSafe_unreal2 _ _ _))
  | savage2 => exact logSafe_boxed _ (tr (logSafe_savage2 _))
  | theShip => exact logSafe_boxed _ (tr (logSafe_theShip _ _ _))
  | ffow => exact logSafe_boxed _ (tr (logSafe_ffow _ _ _))
  | jc2m => exact logSafe_boxed _ (tr (logSafe_jc2m _ _))
  | mindustry => exact logSafe_boxed _ (tr (logSafe_mindustry _ _))
  | eco => exact logSafe_boxed _ (tr (logSafe_ecoQuery ext (heco rfl) _ _ _))
  | battalion1944 => exact logSafe_boxed _ (tr (logSafe_battalion _ _))
  | minecraft v =>
    cases v with
    | none =>
      exact logSafe_boxed _ (logSafe_orElse (tr (logSafe_mcJava _ _ _ _)) <|
        logSafe_orElse (tr (logSafe_mcBedrock _ _)) <|
        logSafe_orElse (tr (logSafe_mcLegacy _ _)) (LogSafe.fail _ _))
    | some s =>
      cases s with
      | java => exact logSafe_boxed _ (tr (logSafe_mcJava _ _ _ _))
      | bedrock => exact logSafe_boxed _ (tr (logSafe_mcBedrock _ _))
      | legacy g => exact logSafe_boxed _ (tr (logSafe_mcLegacySpecific _ _ _))

end Gd.Dispatch
