import GdVerif.Lemmas.Jc2m
import GdVerif.Lemmas.Gs3Faults
import GdVerif.Spec.Jc2mFaults
/-
  The whole Just Cause 2: Multiplayer query with faults injected (C10 end to end): the GameSpy 3 exchange in
  single-packet mode (`Lemmas/Gs3Faults.lean`: `attemptOf … (recvOne s)`).
-/
namespace Gd.Jc2m
open Gd Gd.Gs3 Gd.Jc2m.Spec Gd.Faults
open Gd.Gs3.Spec (Plan Attempt Ending Stage scriptAt sendsWith faultyFaults wfPlan malformedError packetsOutcome
  handshakeRequest attemptsOf)

/-- the one data packet of the SPEC's server through the single-packet receive -/
theorem steps_recvOne_packet (s : Sock) (hudp : s.tcp = false) (cfg : Config) (st : State) (hok : Ok cfg st)
    (q : List Delivery) (fs : List Bool) (sn : List (Bytes × Bool)) :
    Steps s (recvOne s) (.ok [payload st]) ⟨[dataPacket cfg st].map .data ++ q, fs, sn⟩ ⟨q, fs, sn⟩ := by
  unfold recvOne
  have hr := steps_receive s hudp none 0 (dataPacket cfg st) q fs sn
  have hhdr : (readHeader 0).run ((dataPacket cfg st).take PACKET_SIZE) = .ok (cfg.splitHeader ++ payload st) := by
    rw [List.take_of_length_le hok.size]
    have := run_readHeader 0 (by omega) (cfg.splitHeader ++ payload st)
    unfold dataPacket
    simp only [List.append_assoc] at this ⊢
    rw [show ([0] : Bytes) = [UInt8.ofNat 0] from rfl, this]
  simp only [Option.getD_none, hhdr] at hr
  refine Steps.bind (by simpa using hr) ?_
  refine Steps.bind ((Steps.parse s readSingle _ _).congrRes
    (run_readSingle cfg.splitHeader (payload st) hok.header).symm) ?_
  exact Steps.pure s _ _

theorem dataRequest_ne (c : Int) : (dataRequest c == handshakeRequest) = false := by
  simp [dataRequest, handshakeRequest, Gs3.Spec.sessionId]

/-- attempts that receive nothing of the reply before they fail are in the domain whatever the reply -/
theorem wf_of_got_nil (pool : List Bytes) (a : Attempt) (h : a.got = []) : a.wf pool = true := by
  obtain ⟨stage, sf, got⟩ := a
  simp only at h
  subst h
  simp [Attempt.wf, Gs3.Spec.gotAt, partOf]

/-- the whole query on the script of a plan followed by anything -/
theorem query_faulty (cfg : Config) (st : State) (h : wf cfg st = true) (port : Option Nat) (retries : Nat)
    (plan : Plan) (hplan : wfPlan retries (pool cfg st) plan = true) (restQ : List Delivery) (restF : List Bool) :
    (Jc2m.query port retries
        (Net.init [.opened (faultyScript cfg st plan ++ restQ)] (faultyFaults plan ++ restF))).1
      = faultyExpected st plan
    ∧ Gd.sentOf (Jc2m.query port retries
        (Net.init [.opened (faultyScript cfg st plan ++ restQ)] (faultyFaults plan ++ restF))).2.log
      = faultySends cfg plan := by
  have hok := wf_ok cfg st h
  have ho : openSock false (port.getD DEFAULT_PORT)
        (Net.init [.opened (faultyScript cfg st plan ++ restQ)] (faultyFaults plan ++ restF))
      = (.ok ⟨0, port.getD DEFAULT_PORT, false⟩,
          ⟨[], [faultyScript cfg st plan ++ restQ], faultyFaults plan ++ restF,
            [.opened 0 false (port.getD DEFAULT_PORT) false]⟩) := rfl
  have hunit := steps_unitOf ⟨0, port.getD DEFAULT_PORT, false⟩ rfl PAYLOAD (pool cfg st) (recvOne _)
    (tailOk_recvOne _ rfl (pool cfg st) (by simp [pool]))
    cfg.challenge hok.lo hok.hi (dataRequest cfg.challenge) (request_bytes cfg.challenge).2 [dataPacket cfg st]
    [payload st] restQ restQ (fun fs sn => steps_recvOne_packet _ rfl cfg st hok restQ fs sn) retries plan hplan restF []
  rw [← impl_eq_single] at hunit
  have hq : Jc2m.query port retries = (openSock false (port.getD DEFAULT_PORT) >>= fun s =>
      retryOnTimeout retries (getServerPacketsImpl s PAYLOAD true) >>= fun packets =>
        Q.lift (Jc2m.buildResponse packets)) := rfl
  rw [hq, Q.bind_apply, ho]
  have hS := (Steps.bind_res (k := Jc2m.buildResponse) (g := fun packets => Q.lift (Jc2m.buildResponse packets))
    hunit (fun a _ => Steps.lift _ _ _)).outcome
    ⟨[], [faultyScript cfg st plan ++ restQ], faultyFaults plan ++ restF,
      [.opened 0 false (port.getD DEFAULT_PORT) false]⟩
    ⟨rfl, by simp, by simp [faultyScript], rfl⟩
  have hexp : (packetsOutcome [payload st] plan >>= Jc2m.buildResponse) = faultyExpected st plan := by
    unfold packetsOutcome faultyExpected
    cases plan.ending with
    | valid => simpa using buildResponse_spec cfg st hok
    | gaveUp => rfl
    | malformed stage got m => rfl
  rw [hexp] at hS
  simpa [faultySends] using hS

end Gd.Jc2m
