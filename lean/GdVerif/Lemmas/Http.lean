import GdVerif.Proto.Http
import GdVerif.Lemmas.Text
/-
  Lemmas about the `url` crate part of the HTTP client model: what `parseUrl` makes of `//<host>:<port>` when the host
  text contains none of the characters the parser gives a meaning to, and what `setPath` makes of a path of plain segments.
-/
namespace Gd.Http
open Gd

/-- a property of every byte follows from the 256 instances -/
theorem forall_uint8 {P : UInt8 → Prop} (h : ∀ n, n < 256 → P (UInt8.ofNat n)) (b : UInt8) : P b := by
  have := h b.toNat b.toNat_lt
  simpa using this

/-- a byte of a host name that every stage of the URL parser passes through: ASCII and not on the deny list of domains
(which holds the controls incl. tab / newline, space, `%`, `#`, `/`, `:`, `<`, `>`, `?`, `@`, `[`, `\`, `]`, `^`, `|`) -/
def hostChar (b : UInt8) : Bool := b.toNat < 0x80 && !deniedAscii b

theorem hostChar_props : ∀ b : UInt8, hostChar b = true →
    isTabOrNewline b = false ∧ isAuthorityEnd b = false ∧ b ≠ 64 ∧ b ≠ 58 ∧ b ≠ 91 ∧ b ≠ 93 ∧ b ≠ 37 ∧ b ≠ 47 ∧ b ≠ 92
    ∧ b.toNat < 0x80 ∧ deniedAscii b = false :=
  forall_uint8 (by set_option maxRecDepth 100000 in decide)

theorem isDigit_hostChar : ∀ b : UInt8, isDigit b = true → hostChar b = true :=
  forall_uint8 (by set_option maxRecDepth 100000 in decide)

theorem isDigit_props : ∀ b : UInt8, isDigit b = true →
    isTabOrNewline b = false ∧ isAuthorityEnd b = false ∧ b ≠ 46 ∧ b ≠ 58 ∧ asciiLower [b] = [b] :=
  forall_uint8 (by set_option maxRecDepth 100000 in decide)

/-! ### list helpers -/

theorem filter_id {p : UInt8 → Bool} : ∀ {s : Bytes}, (∀ b ∈ s, p b = true) → s.filter p = s
  | [], _ => rfl
  | b :: r, h => by
    have hb : p b = true := h b (List.mem_cons_self ..)
    simp only [List.filter_cons, hb, if_true]
    rw [filter_id (fun x hx => h x (List.mem_cons_of_mem _ hx))]

theorem splitAt_none {p : UInt8 → Bool} : ∀ {s : Bytes}, (∀ b ∈ s, p b = false) → splitAt p s = (s, [])
  | [], _ => rfl
  | b :: r, h => by
    have hb : p b = false := h b (List.mem_cons_self ..)
    simp only [splitAt, hb, Bool.false_eq_true, if_false]
    rw [splitAt_none (fun x hx => h x (List.mem_cons_of_mem _ hx))]

/-- `splitAt` stops at the first byte with the property -/
theorem splitAt_append {p : UInt8 → Bool} (d : UInt8) (hd : p d = true) (rest : Bytes) :
    ∀ {s : Bytes}, (∀ b ∈ s, p b = false) → splitAt p (s ++ d :: rest) = (s, d :: rest)
  | [], _ => by simp [splitAt, hd]
  | b :: r, h => by
    have hb : p b = false := h b (List.mem_cons_self ..)
    simp only [List.cons_append, splitAt, hb, Bool.false_eq_true, if_false]
    rw [splitAt_append d hd rest (fun x hx => h x (List.mem_cons_of_mem _ hx))]

theorem lastAt_none : ∀ {s : Bytes}, (∀ b ∈ s, b ≠ 64) → lastAt s = none
  | [], _ => rfl
  | b :: r, h => by
    have hb : b ≠ 64 := h b (List.mem_cons_self ..)
    simp only [lastAt, lastAt_none (fun x hx => h x (List.mem_cons_of_mem _ hx))]
    simp [hb]

/-- `hostSpan` runs to the first colon when the text before it has no colon and no square bracket -/
theorem hostSpan_to_colon (rest : Bytes) :
    ∀ {s : Bytes}, (∀ b ∈ s, b ≠ 58 ∧ b ≠ 91 ∧ b ≠ 93) → hostSpan (s ++ 58 :: rest) false = (s, 58 :: rest)
  | [], _ => by simp [hostSpan]
  | b :: r, h => by
    obtain ⟨h58, h91, h93⟩ := h b (List.mem_cons_self ..)
    have ih := hostSpan_to_colon rest (s := r) (fun x hx => h x (List.mem_cons_of_mem _ hx))
    simp only [List.cons_append, hostSpan]
    have e1 : (b == 58) = false := by simp [h58]
    have e2 : (b == 91) = false := by simp [h91]
    have e3 : (b == 93) = false := by simp [h93]
    simp only [e1, e2, e3, Bool.false_and, Bool.false_eq_true, if_false, ih]

theorem pctDecode_cons_ne {b : UInt8} (hb : b ≠ 37) (r : Bytes) : pctDecode (b :: r) = b :: pctDecode r := by
  rw [pctDecode.eq_def]
  split
  · rename_i heq; cases heq
  · rename_i heq
    simp only [List.cons.injEq] at heq
    exact absurd heq.1 hb
  · rename_i heq
    simp only [List.cons.injEq] at heq
    obtain ⟨rfl, rfl⟩ := heq
    rfl

theorem pctDecode_id : ∀ {s : Bytes}, (∀ b ∈ s, b ≠ 37) → pctDecode s = s
  | [], _ => by simp [pctDecode]
  | b :: r, h => by
    rw [pctDecode_cons_ne (h b (List.mem_cons_self ..)), pctDecode_id (fun x hx => h x (List.mem_cons_of_mem _ hx))]

/-! ### the parse of `//<plain host>:<port>` -/

/-- a plain host name: not empty, made of `hostChar`s, no Punycode label, not read as a number -/
structure PlainName (name : Bytes) : Prop where
  nonempty : name ≠ []
  chars : ∀ b ∈ name, hostChar b = true
  noPunycode : (splitOn 46 name).any isPunycodeLabel = false
  notNumber : endsInANumber (asciiLower name) = false

theorem parsePort_natDec (dflt port : Nat) (hp : port < 65536) :
    parsePort dflt (natDec port) = some (if port = dflt then none else some port, []) := by
  have hd := natDec_spec port
  have hdig : ∀ b ∈ natDec port, (fun b => !isDigit b) b = false := by
    intro b hb
    have := List.all_eq_true.mp hd.1 b hb
    simp [this]
  simp only [parsePort, splitAt_none hdig, hd.2.2]
  have : ¬ port > 65535 := by omega
  simp only [this, if_false]
  have hne : (natDec port).isEmpty = false := by
    cases h : natDec port with
    | nil => exact absurd h hd.2.1
    | cons _ _ => rfl
  simp only [hne, Bool.false_or, beq_iff_eq]

theorem parsePath_nil (q : Bool) : parsePath q [] = ([47], []) := by
  simp [parsePath, pathLoop, pctEncode, isDoubleDot, isSingleDot]

theorem asciiLower_ne_nil {s : Bytes} (h : s ≠ []) : asciiLower s ≠ [] := by
  cases s with
  | nil => exact absurd rfl h
  | cons b r => simp [asciiLower]

/-- `parseHost` on a plain name: the name in lower case, as a domain -/
theorem parseHost_plain (idna : Bytes → Option Bytes) {name : Bytes} (h : PlainName name) :
    parseHost idna name = .ok (.domain (asciiLower name)) := by
  have hprops := fun b hb => hostChar_props b (h.chars b hb)
  obtain ⟨b0, r0, rfl⟩ : ∃ b r, name = b :: r := by
    cases name with
    | nil => exact absurd rfl h.nonempty
    | cons b r => exact ⟨b, r, rfl⟩
  have h91 : b0 ≠ 91 := (hprops b0 (List.mem_cons_self ..)).2.2.2.2.1
  have hdec : pctDecode (b0 :: r0) = b0 :: r0 := pctDecode_id (fun b hb => (hprops b hb).2.2.2.2.2.2.1)
  have hplain : plainAscii (b0 :: r0) = true := by
    simp only [plainAscii, Bool.and_eq_true, List.all_eq_true, decide_eq_true_eq, h.noPunycode, Bool.not_false, and_true]
    intro b hb
    exact (hprops b hb).2.2.2.2.2.2.2.2.2.1
  have hden : (b0 :: r0).any deniedAscii = false := by
    apply Bool.eq_false_iff.mpr
    intro hany
    obtain ⟨b, hb, hd⟩ := List.any_eq_true.mp hany
    rw [(hprops b hb).2.2.2.2.2.2.2.2.2.2] at hd
    exact Bool.false_ne_true hd
  have hne : (asciiLower (b0 :: r0)).isEmpty = false := by simp [asciiLower]
  unfold parseHost
  split
  · rename_i heq
    simp only [List.cons.injEq] at heq
    exact absurd heq.1 h91
  · simp only [hdec, domainToAscii, hplain, hden, if_true, Bool.false_eq_true, if_false, hne, h.notNumber]

/-- a host text the authority scanner takes as a whole: no tab / newline, no `/ ? # \`, no `@`, and the host scan runs
to the colon behind it -/
structure HostText (name : Bytes) : Prop where
  nonempty : name ≠ []
  chars : ∀ b ∈ name, isTabOrNewline b = false ∧ isAuthorityEnd b = false ∧ b ≠ 64
  span : ∀ rest, hostSpan (name ++ 58 :: rest) false = (name, 58 :: rest)

theorem PlainName.hostText {name : Bytes} (h : PlainName name) : HostText name where
  nonempty := h.nonempty
  chars := fun b hb => let p := hostChar_props b (h.chars b hb); ⟨p.1, p.2.1, p.2.2.1⟩
  span := fun rest => hostSpan_to_colon rest (fun b hb =>
    let p := hostChar_props b (h.chars b hb); ⟨p.2.2.2.1, p.2.2.2.2.1, p.2.2.2.2.2.1⟩)

/-- what `Url::parse` makes of `//<host text>:<port>`: whatever the host parser makes of the text, the port unless it is
the scheme's default, the root path, nothing else -/
theorem parseUrl_hostText (idna : Bytes → Option Bytes) (proto : Protocol) {name : Bytes} (h : HostText name) (port : Nat)
    (hp : port < 65536) :
    parseUrl idna proto (asciiBytes "//" ++ name ++ [58] ++ natDec port)
      = match parseHost idna name with
        | .ok host => .ok ⟨proto, [], none, host, if port = proto.defaultPort then none else some port, [47], none, none⟩
        | .err k => .err k
        | .crash => .crash := by
  have hd := natDec_spec port
  have hdigit : ∀ b ∈ natDec port, isDigit b = true := fun b hb => List.all_eq_true.mp hd.1 b hb
  -- nothing is filtered out
  have hfilter : (asciiBytes "//" ++ name ++ [58] ++ natDec port).filter (fun b => !isTabOrNewline b)
      = 47 :: 47 :: (name ++ 58 :: natDec port) := by
    have : ∀ b ∈ asciiBytes "//" ++ name ++ [58] ++ natDec port, (fun b => !isTabOrNewline b) b = true := by
      intro b hb
      simp only [List.mem_append, List.mem_singleton] at hb
      rcases hb with ((hb | hb) | hb) | hb
      · have : b = 47 := by
          have : b ∈ [(47 : UInt8), 47] := hb
          simpa using this
        subst this; decide
      · simp [(h.chars b hb).1]
      · subst hb; decide
      · simp [(isDigit_props b (hdigit b hb)).1]
    rw [filter_id this]
    simp [asciiBytes]
  obtain ⟨b0, r0, hname⟩ : ∃ b r, name = b :: r := by
    cases hn : name with
    | nil => exact absurd hn h.nonempty
    | cons b r => exact ⟨b, r, rfl⟩
  have hb0 := (h.chars b0 (by rw [hname]; exact List.mem_cons_self ..)).2.1
  have hdrop : (47 :: 47 :: (name ++ 58 :: natDec port)).dropWhile (fun b => b == 47 || b == 92) = name ++ 58 :: natDec port := by
    rw [hname]
    simp only [isAuthorityEnd, Bool.or_eq_false_iff] at hb0
    have e1 : (b0 == 47) = false := hb0.1.1.1
    have e2 : (b0 == 92) = false := hb0.2
    simp [List.dropWhile, e1, e2]
  have hauth : splitAt isAuthorityEnd (name ++ 58 :: natDec port) = (name ++ 58 :: natDec port, []) := by
    apply splitAt_none
    intro b hb
    simp only [List.mem_append, List.mem_cons] at hb
    rcases hb with hb | hb | hb
    · exact (h.chars b hb).2.1
    · subst hb; decide
    · exact (isDigit_props b (hdigit b hb)).2.1
  have hat : lastAt (name ++ 58 :: natDec port) = none := by
    apply lastAt_none
    intro b hb
    simp only [List.mem_append, List.mem_cons] at hb
    rcases hb with hb | hb | hb
    · exact (h.chars b hb).2.2
    · subst hb; decide
    · exact (hostChar_props b (isDigit_hostChar b (hdigit b hb))).2.2.1
  have hempty : name.isEmpty = false := by rw [hname]; rfl
  simp only [parseUrl, hfilter, hdrop, hauth, hat, h.span, hempty, Bool.false_eq_true, if_false]
  cases parseHost idna name with
  | err k => rfl
  | crash => rfl
  | ok host => simp only [List.append_nil, parsePort_natDec _ port hp, parsePath_nil]

/-- what `Url::parse` makes of `//<plain host>:<port>`: the host in lower case as a domain -/
theorem parseUrl_plain (idna : Bytes → Option Bytes) (proto : Protocol) {name : Bytes} (h : PlainName name) (port : Nat)
    (hp : port < 65536) :
    parseUrl idna proto (asciiBytes "//" ++ name ++ [58] ++ natDec port)
      = .ok ⟨proto, [], none, .domain (asciiLower name), if port = proto.defaultPort then none else some port, [47], none, none⟩ := by
  rw [parseUrl_hostText idna proto h.hostText port hp, parseHost_plain idna h]

/-! ### an IPv4 address as host text -/

set_option maxRecDepth 100000 in
theorem parseIpv4Number_natDec : ∀ n, n < 256 → parseIpv4Number (natDec n) = some (some n) := by decide

theorem dot_not_mem_natDec (n : Nat) : (46 : UInt8) ∉ natDec n := by
  intro h
  have := List.all_eq_true.mp (natDec_spec n).1 _ h
  revert this; decide

theorem showIpv4_eq (a b c d : UInt8) :
    showIpv4 a b c d = natDec a.toNat ++ 46 :: (natDec b.toNat ++ 46 :: (natDec c.toNat ++ 46 :: natDec d.toNat)) := by
  simp [showIpv4, List.append_assoc]

theorem splitOn_showIpv4 (a b c d : UInt8) :
    splitOn 46 (showIpv4 a b c d) = [natDec a.toNat, natDec b.toNat, natDec c.toNat, natDec d.toNat] := by
  rw [showIpv4_eq, splitOn_append_delim _ _ _ (dot_not_mem_natDec _), splitOn_append_delim _ _ _ (dot_not_mem_natDec _),
    splitOn_append_delim _ _ _ (dot_not_mem_natDec _), splitOn_not_mem _ _ (dot_not_mem_natDec _)]

theorem showIpv4_chars (a b c d : UInt8) : ∀ x ∈ showIpv4 a b c d, isDigit x = true ∨ x = 46 := by
  intro x hx
  rw [showIpv4_eq] at hx
  simp only [List.mem_append, List.mem_cons] at hx
  have dg : ∀ n, x ∈ natDec n → isDigit x = true := fun n h => List.all_eq_true.mp (natDec_spec n).1 _ h
  rcases hx with h | h | h | h | h | h | h
  · exact .inl (dg _ h)
  · exact .inr h
  · exact .inl (dg _ h)
  · exact .inr h
  · exact .inl (dg _ h)
  · exact .inr h
  · exact .inl (dg _ h)

theorem showIpv4_hostChar (a b c d : UInt8) : ∀ x ∈ showIpv4 a b c d, hostChar x = true := by
  intro x hx
  rcases showIpv4_chars a b c d x hx with h | h
  · exact isDigit_hostChar x h
  · subst h; decide

/-- the URL parser reads the dotted quad `Display for Ipv4Addr` prints back as the same address -/
theorem parseIpv4_showIpv4 (a b c d : UInt8) :
    parseIpv4 (showIpv4 a b c d) = .ok (a.toNat * 2 ^ 24 + b.toNat * 2 ^ 16 + c.toNat * 2 ^ 8 + d.toNat) := by
  have ha := a.toNat_lt
  have hb := b.toNat_lt
  have hc := c.toNat_lt
  have hd := d.toNat_lt
  have hne : natDec d.toNat ≠ [] := (natDec_spec _).2.1
  simp only [parseIpv4, splitOn_showIpv4]
  have hlast : ([natDec a.toNat, natDec b.toNat, natDec c.toNat, natDec d.toNat].getLast? == some []) = false := by
    simp [hne]
  simp only [hlast, Bool.false_eq_true, if_false]
  have hm : List.mapM (fun p => (parseIpv4Number p).bind id) [natDec a.toNat, natDec b.toNat, natDec c.toNat, natDec d.toNat]
      = some [a.toNat, b.toNat, c.toNat, d.toNat] := by
    simp [List.mapM_cons, parseIpv4Number_natDec _ ha, parseIpv4Number_natDec _ hb, parseIpv4Number_natDec _ hc, parseIpv4Number_natDec _ hd]
  rw [hm]
  simp [List.range, List.range.loop]
  have h1 : ¬ 256 ≤ d.toNat := by omega
  have h2 : ¬ (255 < a.toNat ∨ 255 < b.toNat ∨ 255 < c.toNat) := by omega
  simp only [h1, h2, if_false]
  congr 1
  omega

theorem natDec_head_digit (n : Nat) : ∃ b r, natDec n = b :: r ∧ isDigit b = true := by
  have h := natDec_spec n
  cases hn : natDec n with
  | nil => exact absurd hn h.2.1
  | cons b r =>
    refine ⟨b, r, rfl, ?_⟩
    have := h.1
    rw [hn] at this
    simp only [List.all_cons, Bool.and_eq_true] at this
    exact this.1

theorem isPunycodeLabel_digit : ∀ b : UInt8, isDigit b = true → ∀ x y z : UInt8,
    (asciiLower [b, x, y, z] == asciiBytes "xn--") = false ∧ (asciiLower [b, x, y] == asciiBytes "xn--") = false
    ∧ (asciiLower [b, x] == asciiBytes "xn--") = false ∧ (asciiLower [b] == asciiBytes "xn--") = false := by
  intro b hb x y z
  have h120 : (if inRange b 65 90 = true then b + 32 else b) ≠ 120 := by
    revert hb
    revert b
    exact forall_uint8 (by set_option maxRecDepth 100000 in decide)
  refine ⟨?_, ?_, ?_, ?_⟩ <;> simp [asciiLower, asciiBytes, h120]

theorem isPunycodeLabel_natDec (n : Nat) : isPunycodeLabel (natDec n) = false := by
  obtain ⟨b, r, hn, hb⟩ := natDec_head_digit n
  have h := isPunycodeLabel_digit b hb
  rw [hn, isPunycodeLabel]
  match r with
  | [] => exact (h 0 0 0).2.2.2
  | [x] => exact (h x 0 0).2.2.1
  | [x, y] => exact (h x y 0).2.1
  | x :: y :: z :: _ => exact (h x y z).1

theorem asciiLower_digits_dots : ∀ {s : Bytes}, (∀ x ∈ s, isDigit x = true ∨ x = 46) → asciiLower s = s
  | [], _ => rfl
  | b :: r, h => by
    have ih := asciiLower_digits_dots (s := r) (fun x hx => h x (List.mem_cons_of_mem _ hx))
    have hb : asciiLower [b] = [b] := by
      rcases h b (List.mem_cons_self ..) with hd | hd
      · exact (isDigit_props b hd).2.2.2.2
      · subst hd; decide
    simp only [asciiLower, List.map_cons, List.map_nil, List.cons.injEq, and_true] at hb ih ⊢
    exact ⟨hb, ih⟩

/-- `Host::parse` of the text `Display for Ipv4Addr` prints: that address -/
theorem parseHost_showIpv4 (idna : Bytes → Option Bytes) (a b c d : UInt8) :
    parseHost idna (showIpv4 a b c d) = .ok (.ipv4 (a.toNat * 2 ^ 24 + b.toNat * 2 ^ 16 + c.toNat * 2 ^ 8 + d.toNat)) := by
  have hchars := showIpv4_chars a b c d
  have hprops := fun x hx => hostChar_props x (showIpv4_hostChar a b c d x hx)
  obtain ⟨b0, r0, hn, hb0⟩ := natDec_head_digit a.toNat
  have hshape : showIpv4 a b c d = b0 :: (r0 ++ 46 :: (natDec b.toNat ++ 46 :: (natDec c.toNat ++ 46 :: natDec d.toNat))) := by
    rw [showIpv4_eq, hn]; rfl
  have h91 : b0 ≠ 91 := (hostChar_props b0 (isDigit_hostChar b0 hb0)).2.2.2.2.1
  have hdec : pctDecode (showIpv4 a b c d) = showIpv4 a b c d := pctDecode_id (fun x hx => (hprops x hx).2.2.2.2.2.2.1)
  have hplain : plainAscii (showIpv4 a b c d) = true := by
    simp only [plainAscii, Bool.and_eq_true, List.all_eq_true, decide_eq_true_eq, splitOn_showIpv4, List.any_cons,
      isPunycodeLabel_natDec, List.any_nil, Bool.or_false, Bool.not_false, and_true]
    intro x hx
    exact (hprops x hx).2.2.2.2.2.2.2.2.2.1
  have hden : (showIpv4 a b c d).any deniedAscii = false := by
    apply Bool.eq_false_iff.mpr
    intro hany
    obtain ⟨x, hx, hd⟩ := List.any_eq_true.mp hany
    rw [(hprops x hx).2.2.2.2.2.2.2.2.2.2] at hd
    exact Bool.false_ne_true hd
  have hlow : asciiLower (showIpv4 a b c d) = showIpv4 a b c d := asciiLower_digits_dots hchars
  have hne : (showIpv4 a b c d).isEmpty = false := by rw [hshape]; rfl
  have hnum : endsInANumber (showIpv4 a b c d) = true := by
    have hd := natDec_spec d.toNat
    have hde : (natDec d.toNat).isEmpty = false := by
      cases h : natDec d.toNat with
      | nil => exact absurd h hd.2.1
      | cons _ _ => rfl
    simp [endsInANumber, lastLabel, splitOn_showIpv4, hde, hd.1]
  unfold parseHost
  split
  · rename_i heq
    rw [hshape] at heq
    simp only [List.cons.injEq] at heq
    exact absurd heq.1 h91
  · simp only [hdec, domainToAscii, hplain, hden, if_true, Bool.false_eq_true, if_false, hlow, hne, hnum, parseIpv4_showIpv4,
      Res.bind]

theorem showIpv4_hostText (a b c d : UInt8) : HostText (showIpv4 a b c d) where
  nonempty := by
    obtain ⟨b0, r0, hn, _⟩ := natDec_head_digit a.toNat
    rw [showIpv4_eq, hn]; simp
  chars := fun x hx => let p := hostChar_props x (showIpv4_hostChar a b c d x hx); ⟨p.1, p.2.1, p.2.2.1⟩
  span := fun rest => hostSpan_to_colon rest (fun x hx =>
    let p := hostChar_props x (showIpv4_hostChar a b c d x hx); ⟨p.2.2.2.1, p.2.2.2.2.1, p.2.2.2.2.2.1⟩)

/-- `Display for Host` prints an IPv4 host the way `Display for Ipv4Addr` prints the address -/
theorem hostText_ipv4 (a b c d : UInt8) :
    (Host.ipv4 (a.toNat * 2 ^ 24 + b.toNat * 2 ^ 16 + c.toNat * 2 ^ 8 + d.toNat)).text = showIpv4 a b c d := by
  have ha := a.toNat_lt
  have hb := b.toNat_lt
  have hc := c.toNat_lt
  have hd := d.toNat_lt
  have e1 : (a.toNat * 2 ^ 24 + b.toNat * 2 ^ 16 + c.toNat * 2 ^ 8 + d.toNat) / 2 ^ 24 = a.toNat := by omega
  have e2 : (a.toNat * 2 ^ 24 + b.toNat * 2 ^ 16 + c.toNat * 2 ^ 8 + d.toNat) / 2 ^ 16 % 256 = b.toNat := by omega
  have e3 : (a.toNat * 2 ^ 24 + b.toNat * 2 ^ 16 + c.toNat * 2 ^ 8 + d.toNat) / 256 % 256 = c.toNat := by omega
  have e4 : (a.toNat * 2 ^ 24 + b.toNat * 2 ^ 16 + c.toNat * 2 ^ 8 + d.toNat) % 256 = d.toNat := by omega
  simp only [Host.text, e1, e2, e3, e4, showIpv4]

/-! ### `set_path` on a path of plain segments -/

/-- a byte of a path segment the path parser leaves alone: ASCII, outside the PATH escape set (controls incl. tab /
newline, space, `"`, `#`, `<`, `>`, `?`, backtick, `{`, `}`), not a separator -/
def pathChar (b : UInt8) : Bool := b.toNat < 0x80 && !setPath b && b != 47 && b != 92

theorem pathChar_props : ∀ b : UInt8, pathChar b = true →
    isTabOrNewline b = false ∧ (b == 47 || b == 92) = false ∧ (if b.toNat ≥ 0x80 || setPath b then pctByte b else [b]) = [b] :=
  forall_uint8 (by set_option maxRecDepth 100000 in decide)

/-- a segment `set_path` keeps as it is: plain characters, and not a dot segment (`.`, `..`, or a spelling with `%2e`) -/
structure PlainSegment (seg : Bytes) : Prop where
  chars : ∀ b ∈ seg, pathChar b = true
  notDoubleDot : isDoubleDot seg = false
  notSingleDot : isSingleDot seg = false

theorem pctEncode_plain : ∀ {s : Bytes}, (∀ b ∈ s, pathChar b = true) → pctEncode setPath s = s
  | [], _ => rfl
  | b :: r, h => by
    have hb := (pathChar_props b (h b (List.mem_cons_self ..))).2.2
    have ih := pctEncode_plain (s := r) (fun x hx => h x (List.mem_cons_of_mem _ hx))
    simp only [pctEncode, List.flatMap_cons] at ih ⊢
    rw [hb, ih]; rfl

theorem pathLoop_segment (rest : Bytes) (done : List Bytes) :
    ∀ (seg cur : Bytes), (∀ b ∈ seg, pathChar b = true) →
      pathLoop false (seg ++ rest) done cur = pathLoop false rest done (cur ++ seg)
  | [], cur, _ => by simp
  | b :: r, cur, h => by
    have hb := (pathChar_props b (h b (List.mem_cons_self ..))).2.1
    have ih := pathLoop_segment rest done r (cur ++ [b]) (fun x hx => h x (List.mem_cons_of_mem _ hx))
    simp only [List.cons_append, pathLoop, hb, Bool.false_eq_true, if_false, Bool.false_and]
    rw [ih]; simp

theorem pathLoop_slash (rest : Bytes) (done : List Bytes) {cur : Bytes} (h : PlainSegment cur) :
    pathLoop false (47 :: rest) done cur = pathLoop false rest (done ++ [cur]) [] := by
  simp [pathLoop, pctEncode_plain h.chars, h.notDoubleDot, h.notSingleDot]

theorem pathLoop_end (done : List Bytes) {cur : Bytes} (h : PlainSegment cur) :
    pathLoop false [] done cur = ((done.flatMap fun s => s ++ [47]) ++ cur, []) := by
  simp [pathLoop, pctEncode_plain h.chars, h.notDoubleDot, h.notSingleDot]

theorem plainSegment_nil : PlainSegment [] where
  chars := fun _ h => nomatch h
  notDoubleDot := by decide
  notSingleDot := by decide

theorem pathLoop_plain : ∀ (segs : List Bytes) (done : List Bytes), (∀ s ∈ segs, PlainSegment s) →
    pathLoop false (joinWith [47] segs) done [] = ((done.flatMap fun s => s ++ [47]) ++ joinWith [47] segs, [])
  | [], done, _ => by simpa [joinWith] using pathLoop_end done plainSegment_nil
  | [s], done, h => by
    have hs := h s (List.mem_cons_self ..)
    have := pathLoop_segment [] done s [] hs.chars
    simp only [List.append_nil, List.nil_append] at this
    rw [joinWith, this, pathLoop_end done hs]
  | s :: t :: u, done, h => by
    have hs := h s (List.mem_cons_self ..)
    have ih := pathLoop_plain (t :: u) (done ++ [s]) (fun x hx => h x (List.mem_cons_of_mem _ hx))
    have e : joinWith [47] (s :: t :: u) = s ++ 47 :: joinWith [47] (t :: u) := by simp [joinWith]
    rw [e, pathLoop_segment _ done s [] hs.chars, List.nil_append, pathLoop_slash _ done hs, ih]
    simp [List.flatMap_append]

theorem joinWith_plain_chars {segs : List Bytes} (h : ∀ s ∈ segs, PlainSegment s) :
    ∀ b ∈ joinWith [47] segs, isTabOrNewline b = false := by
  induction segs with
  | nil => intro b hb; cases hb
  | cons s t ih =>
    intro b hb
    have hs := h s (List.mem_cons_self ..)
    cases t with
    | nil =>
      simp only [joinWith] at hb
      exact (pathChar_props b (hs.chars b hb)).1
    | cons t u =>
      simp only [joinWith, List.mem_append, List.mem_singleton] at hb
      rcases hb with (hb | hb) | hb
      · exact (pathChar_props b (hs.chars b hb)).1
      · subst hb; decide
      · exact ih (fun x hx => h x (List.mem_cons_of_mem _ hx)) b hb

theorem parsePath_cons_ne (q : Bool) {b : UInt8} (h47 : b ≠ 47) (h92 : b ≠ 92) (r : Bytes) :
    parsePath q (b :: r) = (47 :: (pathLoop q (b :: r) [] []).1, (pathLoop q (b :: r) [] []).2) := by
  unfold parsePath
  split
  · rename_i heq; simp only [List.cons.injEq] at heq; exact absurd heq.1 h47
  · rename_i heq; simp only [List.cons.injEq] at heq; exact absurd heq.1 h92
  · rfl

/-- `set_path("/seg1/seg2/…")` with plain segments: the path is that text -/
theorem setPath_plain (u : Url) {segs : List Bytes} (h : ∀ s ∈ segs, PlainSegment s) :
    (u.setPath (47 :: joinWith [47] segs)).path = 47 :: joinWith [47] segs := by
  have hf : (47 :: joinWith [47] segs).filter (fun b => !isTabOrNewline b) = 47 :: joinWith [47] segs := by
    apply filter_id
    intro b hb
    simp only [List.mem_cons] at hb
    rcases hb with hb | hb
    · subst hb; decide
    · simp [joinWith_plain_chars h b hb]
  simp only [Url.setPath, hf, parsePath, pathLoop_plain segs [] h]
  simp

/-- `set_path("seg1/seg2/…")` without the leading slash (first segment not empty): the slash is supplied -/
theorem setPath_plain_relative (u : Url) {s : Bytes} {segs : List Bytes} (hne : s ≠ []) (h : ∀ x ∈ s :: segs, PlainSegment x) :
    (u.setPath (joinWith [47] (s :: segs))).path = 47 :: joinWith [47] (s :: segs) := by
  have hf : (joinWith [47] (s :: segs)).filter (fun b => !isTabOrNewline b) = joinWith [47] (s :: segs) :=
    filter_id (fun b hb => by simp [joinWith_plain_chars h b hb])
  obtain ⟨b0, r0, rfl⟩ : ∃ b r, s = b :: r := by
    cases s with
    | nil => exact absurd rfl hne
    | cons b r => exact ⟨b, r, rfl⟩
  have hb0 := (pathChar_props b0 ((h _ (List.mem_cons_self ..)).chars b0 (List.mem_cons_self ..))).2.1
  simp only [Bool.or_eq_false_iff, beq_eq_false_iff_ne, ne_eq] at hb0
  have hshape : ∃ r, joinWith [47] ((b0 :: r0) :: segs) = b0 :: r := by
    cases segs with
    | nil => exact ⟨r0, rfl⟩
    | cons t u => exact ⟨r0 ++ [47] ++ joinWith [47] (t :: u), by simp [joinWith]⟩
  obtain ⟨r, hr⟩ := hshape
  have hpp := parsePath_cons_ne false hb0.1 hb0.2 r
  rw [← hr] at hpp
  simp only [Url.setPath, hf, hpp, pathLoop_plain _ [] h]
  simp

/-! ### requests -/

theorem mapM_option_length {α β : Type} (f : α → Option β) : ∀ (l : List α) (r : List β), l.mapM f = some r → r.length = l.length
  | [], r, h => by simp at h; subst h; rfl
  | a :: l, r, h => by
    simp only [List.mapM_cons] at h
    cases hf : f a with
    | none => rw [hf] at h; simp at h
    | some y =>
      cases hl : l.mapM f with
      | none => rw [hf, hl] at h; simp at h
      | some ys =>
        rw [hf, hl] at h
        simp at h
        subst h
        simp [mapM_option_length f l ys hl]

theorem splitOn_ne_nil' (d : UInt8) : ∀ l : Bytes, splitOn d l ≠ []
  | [] => by simp [splitOn]
  | b :: r => by
    simp only [splitOn]
    split
    · simp
    · split <;> simp

theorem splitOn_cons_shape (d b : UInt8) (r : Bytes) : ∃ x xs, splitOn d (b :: r) = x :: xs ∧ (xs ≠ [] ∨ x ≠ []) := by
  simp only [splitOn]
  by_cases hb : (b == d) = true
  · simp only [hb, if_true]
    cases hs : splitOn d r with
    | nil => exact absurd hs (splitOn_ne_nil' d r)
    | cons y ys => exact ⟨[], y :: ys, rfl, .inl (by simp)⟩
  · simp only [hb, if_false]
    cases hs : splitOn d r with
    | nil => exact ⟨[b], [], rfl, .inr (by simp)⟩
    | cons p ps => exact ⟨b :: p, ps, rfl, .inr (by simp)⟩

/-- `parse_ipv4addr` cannot hit its `expect` on a non-empty input (the only input `Host::parse` hands it) -/
theorem parseIpv4_no_crash (d : Bytes) (hd : d ≠ []) :
    parseIpv4 d ≠ .crash ∧ ∀ k, parseIpv4 d = .err k → k = .invalidInput := by
  obtain ⟨b, r, rfl⟩ : ∃ b r, d = b :: r := by
    cases d with
    | nil => exact absurd rfl hd
    | cons b r => exact ⟨b, r, rfl⟩
  obtain ⟨x, xs, hs, hshape⟩ := splitOn_cons_shape 46 b r
  have hparts : (if (x :: xs).getLast? == some [] then (x :: xs).dropLast else x :: xs) ≠ [] := by
    split
    · rename_i hl
      rcases hshape with hx | hx
      · cases xs with
        | nil => exact absurd rfl hx
        | cons y ys => simp [List.dropLast]
      · cases xs with
        | nil => simp at hl; exact absurd hl hx
        | cons y ys => simp [List.dropLast]
    · simp
  unfold parseIpv4
  simp only [hs]
  generalize (if (x :: xs).getLast? == some [] then (x :: xs).dropLast else x :: xs) = parts at hparts
  split
  · exact ⟨(fun h => nomatch h), (fun k h => by cases h; rfl)⟩
  · split
    · exact ⟨(fun h => nomatch h), (fun k h => by cases h; rfl)⟩
    · rename_i numbers hm
      have hlen := mapM_option_length _ _ _ hm
      split
      · rename_i hrev
        have : numbers = [] := by simpa using hrev
        subst this
        simp at hlen
        exact absurd hlen.symm (by simpa using hparts)
      · split
        · exact ⟨(fun h => nomatch h), (fun k h => by cases h; rfl)⟩
        · split
          · exact ⟨(fun h => nomatch h), (fun k h => by cases h; rfl)⟩
          · exact ⟨(fun h => nomatch h), (fun k h => nomatch h)⟩

theorem parseHost_total (idna : Bytes → Option Bytes) (input : Bytes) :
    parseHost idna input ≠ .crash ∧ ∀ k, parseHost idna input = .err k → k = .invalidInput := by
  unfold parseHost
  split
  · split
    · exact ⟨(fun h => nomatch h), (fun k h => by cases h; rfl)⟩
    · split
      · exact ⟨(fun h => nomatch h), (fun k h => nomatch h)⟩
      · exact ⟨(fun h => nomatch h), (fun k h => by cases h; rfl)⟩
  · split
    · exact ⟨(fun h => nomatch h), (fun k h => by cases h; rfl)⟩
    · rename_i domain _
      split
      · exact ⟨(fun h => nomatch h), (fun k h => by cases h; rfl)⟩
      · rename_i hne
        split
        · have hd : domain ≠ [] := by
            intro h; subst h; simp at hne
          have h4 := parseIpv4_no_crash domain hd
          cases hp : parseIpv4 domain with
          | ok n => exact ⟨(fun h => nomatch h), (fun k h => nomatch h)⟩
          | err k => exact ⟨(fun h => nomatch h), (fun k' h => by cases h; exact h4.2 k hp)⟩
          | crash => exact absurd hp h4.1
        · exact ⟨(fun h => nomatch h), (fun k h => nomatch h)⟩

theorem parseUrl_total (idna : Bytes → Option Bytes) (proto : Protocol) (after : Bytes) :
    parseUrl idna proto after ≠ .crash ∧ ∀ k, parseUrl idna proto after = .err k → k = .invalidInput := by
  unfold parseUrl
  simp only []
  repeat' split
  all_goals first
    | (constructor
       · intro h; cases h
       · intro k h; cases h; rfl)
    | (constructor
       · intro h; cases h
       · intro k h; cases h; done)
    | (constructor
       · intro h; cases h
       · intro k' h
         cases h
         exact (parseHost_total idna _).2 _ (by assumption))
    | (exfalso
       exact (parseHost_total idna _).1 (by assumption))

/-- building a client cannot panic; the only error is `InvalidInput` -/
theorem new_total (idna : Bytes → Option Bytes) (ua : Bytes) (address : SocketAddr)
    (ts : Option Settings.Timeout) (hs : HttpSettings) :
    Http.new idna ua address ts hs ≠ .crash ∧ ∀ k, Http.new idna ua address ts hs = .err k → k = .invalidInput := by
  have hp := parseUrl_total idna
  unfold Http.new
  simp only []
  split
  · exact ⟨(fun h => nomatch h), (fun k h => nomatch h)⟩
  · rename_i k hk
    exact ⟨(fun h => nomatch h), (fun k' h => by cases h; exact (hp _ _).2 k hk)⟩
  · rename_i hk
    exact absurd hk (hp _ _).1


theorem requestJson_fst {α : Type} (client : Client) (w : Wire) (json : Bytes → Option α) (method path : Bytes)
    (headers : List (Bytes × Bytes)) : (client.requestJson w json method path headers).1 = client.makeRequest method path headers := by
  simp only [Client.requestJson]
  split
  · rfl
  · split
    · split <;> rfl
    · rfl
    · rfl

theorem requestJson_no_crash {α : Type} (client : Client) (w : Wire) (json : Bytes → Option α) (method path : Bytes)
    (headers : List (Bytes × Bytes)) : (client.requestJson w json method path headers).2.1 ≠ .crash := by
  obtain ⟨c, s, h, b⟩ := w
  cases c <;> cases s <;> cases b <;> (cases h with
    | head status cl =>
      by_cases hs : status ≥ 400 <;> simp [Client.requestJson, call, readBody, hs] <;> (split <;> simp_all)
    | _ => simp [Client.requestJson, call, readBody])

theorem request_no_crash (client : Client) (w : Wire) (method path : Bytes)
    (headers : List (Bytes × Bytes)) : (client.request w method path headers).2.1 ≠ .crash := by
  obtain ⟨c, s, h, b⟩ := w
  cases c <;> cases s <;> cases b <;> (cases h with
    | head status cl =>
      by_cases hs : status ≥ 400 <;> simp [Client.request, call, readBody, hs] <;> (split <;> simp_all) <;> (split <;> simp)
    | _ => simp [Client.request, call, readBody])

end Gd.Http
