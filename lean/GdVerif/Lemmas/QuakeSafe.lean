import GdVerif.Lemmas.ValveSafe
import GdVerif.Proto.Quake
/-
  Crash-freedom and wire-conformance of the whole Quake 1 / 2 / 3 query model.
-/
namespace Gd.Quake
open Gd

/-! ### pure pieces never crash -/

theorem bind_ne_crash {r : Res α} {f : α → Res β} (hr : r ≠ .crash) (hf : ∀ a, f a ≠ .crash) :
    (r >>= f) ≠ .crash := by
  cases r with
  | ok a => exact hf a
  | err k => simp
  | crash => exact absurd rfl hr

theorem pure_ne_crash (a : α) : (pure a : Res α) ≠ .crash := by simp

theorem okOr_ne_crash (o : Option α) (k : ErrKind) : okOr o k ≠ .crash := by
  cases o <;> simp [okOr]

/-- the slice of `remove_wrapping_quotes` is only taken of a string of at least two bytes -/
theorem removeWrappingQuotes_ne_crash (s : Bytes) : removeWrappingQuotes s ≠ .crash := by
  unfold removeWrappingQuotes
  split
  · rename_i h
    simp only [Bool.and_eq_true, decide_eq_true_eq] at h
    have h2 : ¬ s.length < 2 := by omega
    simp [sliceInner, h2]
  · simp

theorem fieldUnsigned_ne_crash (bits : Nat) (t : Option Bytes) : fieldUnsigned bits t ≠ .crash := by
  unfold fieldUnsigned
  split
  · simp
  · exact okOr_ne_crash _ _

theorem fieldSigned_ne_crash (bits : Nat) (t : Option Bytes) : fieldSigned bits t ≠ .crash := by
  unfold fieldSigned
  split
  · simp
  · exact okOr_ne_crash _ _

theorem fieldText_ne_crash (t : Option Bytes) : fieldText t ≠ .crash := by
  unfold fieldText
  split
  · simp
  · exact removeWrappingQuotes_ne_crash _

theorem fieldOptText_ne_crash (t : Option Bytes) : fieldOptText t ≠ .crash := by
  unfold fieldOptText
  split
  · simp
  · exact bind_ne_crash (removeWrappingQuotes_ne_crash _) fun _ => pure_ne_crash _

theorem parsePlayerOne_ne_crash (t : List Bytes) : parsePlayerOne t ≠ .crash := by
  unfold parsePlayerOne
  exact bind_ne_crash (fieldUnsigned_ne_crash _ _) fun _ => bind_ne_crash (fieldUnsigned_ne_crash _ _) fun _ =>
    bind_ne_crash (fieldUnsigned_ne_crash _ _) fun _ => bind_ne_crash (fieldUnsigned_ne_crash _ _) fun _ =>
    bind_ne_crash (fieldText_ne_crash _) fun _ => bind_ne_crash (fieldText_ne_crash _) fun _ =>
    bind_ne_crash (fieldUnsigned_ne_crash _ _) fun _ => bind_ne_crash (fieldUnsigned_ne_crash _ _) fun _ =>
    pure_ne_crash _

theorem parsePlayerTwo_ne_crash (t : List Bytes) : parsePlayerTwo t ≠ .crash := by
  unfold parsePlayerTwo
  exact bind_ne_crash (fieldSigned_ne_crash _ _) fun _ => bind_ne_crash (fieldUnsigned_ne_crash _ _) fun _ =>
    bind_ne_crash (fieldText_ne_crash _) fun _ => bind_ne_crash (fieldOptText_ne_crash _) fun _ => pure_ne_crash _

theorem parsePlayer_ne_crash (v : Version) (t : List Bytes) : parsePlayer v t ≠ .crash := by
  unfold parsePlayer
  split
  · exact bind_ne_crash (parsePlayerOne_ne_crash _) fun _ => pure_ne_crash _
  · exact bind_ne_crash (parsePlayerTwo_ne_crash _) fun _ => pure_ne_crash _

theorem buildResponse_ne_crash (vars : Vars) (players : List Player) : buildResponse vars players ≠ .crash := by
  unfold buildResponse
  exact bind_ne_crash (okOr_ne_crash _ _) fun _ => bind_ne_crash (okOr_ne_crash _ _) fun _ =>
    bind_ne_crash (okOr_ne_crash _ _) fun _ => bind_ne_crash (okOr_ne_crash _ _) fun _ => pure_ne_crash _

/-! ### parsers -/

theorem safe_stripHeader (v : Version) : Safe (stripHeader v) := by
  unfold stripHeader
  refine Safe.bind (safe_readUnsigned _ _) fun h => ?_
  split
  · exact Safe.fail _
  · refine Safe.bind safe_remainingBytes fun rest => ?_
    split
    · exact Safe.fail _
    · exact Safe.bind (safe_moveCursor _) fun _ => safe_remainingBytes

theorem safe_getServerValues : Safe getServerValues := by
  unfold getServerValues
  exact Safe.bind (safe_readStrUntil _) fun _ => Safe.pure _

theorem safe_playerLine (v : Version) : Safe (playerLine v) := by
  unfold playerLine
  exact Safe.bind (safe_readStrUntil _) fun _ => Safe.lift_ne _ (parsePlayer_ne_crash _ _)

/-- reading a line from a non-empty rest consumes at least one byte -/
theorem readStrUntil_progress (d : UInt8) (b b' : Buf) (s : Bytes) (h : readStrUntil d b = .ok (s, b'))
    (hne : b.rest ≠ []) : b'.remaining < b.remaining := by
  unfold readStrUntil readStringWith utf8Dec at h
  simp only at h
  split at h
  · rename_i s' n hdec
    split at hdec
    · cases hdec
    · cases hdec
      cases h
      have hl : 0 < b.rest.length := List.length_pos_iff.mpr hne
      simp only [Buf.remaining, Buf.advance, List.length_drop]
      omega
  · cases h
  · cases h

theorem playerLine_progress (v : Version) (b b' : Buf) (p : Player) (h : playerLine v b = .ok (p, b'))
    (hne : b.rest ≠ []) : b'.remaining < b.remaining := by
  unfold playerLine at h
  rw [Par.bind_apply] at h
  cases hr : readStrUntil 0x0A b with
  | ok x =>
    obtain ⟨data, b1⟩ := x
    rw [hr] at h
    simp only at h
    have hp := readStrUntil_progress 0x0A b b1 data hr hne
    unfold Par.lift at h
    split at h
    · cases h; exact hp
    · cases h
    · cases h
  | err k => rw [hr] at h; cases h
  | crash => rw [hr] at h; cases h

/-- the loop of `get_players` never runs out of fuel: every round consumes a byte -/
theorem safe_getPlayersLoop (v : Version) : ∀ fuel b, b.remaining < fuel → Post b (getPlayersLoop v fuel b) := by
  intro fuel
  induction fuel with
  | zero => intro b h; omega
  | succ n ih =>
    intro b hb
    unfold getPlayersLoop
    rw [Par.bind_ok (show remainingBytes b = .ok (b.rest, b) from rfl)]
    split
    · rfl
    · rename_i hc
      have hne : b.rest ≠ [] := by
        intro he
        apply hc
        simp [he]
      refine Post.bind (safe_playerLine v b) fun p b1 hp => ?_
      have hlt := playerLine_progress v b b1 p hp hne
      exact Post.bind (ih b1 (by omega)) fun ps b2 _ => rfl

theorem safe_getPlayers (v : Version) : Safe (getPlayers v) :=
  fun b => safe_getPlayersLoop v (b.remaining + 1) b (Nat.lt_succ_self _)

theorem safe_parseBody (v : Version) : Safe (parseBody v) := by
  unfold parseBody
  exact Safe.bind safe_getServerValues fun _ => Safe.bind (safe_getPlayers v) fun _ =>
    Safe.lift_ne _ (buildResponse_ne_crash _ _)

/-! ### the exchange -/

/-- what the Quake client may do with its socket: send the version's request, receive into the fixed buffer -/
def EvOk (s : Sock) (v : Version) : Ev → Prop
  | .send c port data _ => c = s.id ∧ port = s.port ∧ data = request v
  | .recv c size _ => c = s.id ∧ size = some PACKET_SIZE
  | .opened _ _ _ _ => False

theorem qsafe_getDataImpl (s : Sock) (v : Version) : QSafe s (EvOk s v) (getDataImpl s v) := by
  unfold getDataImpl
  exact QSafe.bind (QSafe.send s _ _ fun _ => ⟨rfl, rfl, rfl⟩) fun _ =>
    QSafe.bind (QSafe.recv s _ _ fun _ => ⟨rfl, rfl⟩) fun _ => QSafe.parse _ _ (safe_stripHeader v) _

theorem qsafe_getDataOn (s : Sock) (r : Nat) (v : Version) : QSafe s (EvOk s v) (getDataOn s r v) :=
  QSafe.retry (qsafe_getDataImpl s v) r

/-- the body of `query` after the socket has been opened -/
def queryBody (s : Sock) (v : Version) (retries : Nat) : Q Response := do
  let data ← getDataOn s retries v
  parse (parseBody v) data

theorem qsafe_queryBody (s : Sock) (v : Version) (r : Nat) : QSafe s (EvOk s v) (queryBody s v r) := by
  unfold queryBody
  exact QSafe.bind (qsafe_getDataOn s r v) fun _ => QSafe.parse _ _ (safe_parseBody v) _

theorem Q_bind_assoc (q : Q α) (f : α → Q β) (g : β → Q γ) : (q >>= f) >>= g = q >>= fun a => f a >>= g := by
  funext w
  simp only [Q.bind_apply]
  cases q w with
  | mk res w1 => cases res <;> rfl

theorem query_eq (port : Nat) (v : Version) (retries : Nat) :
    query port v retries = (openSock false port >>= fun s => queryBody s v retries) := by
  unfold query getData queryBody
  exact Q_bind_assoc _ _ _

/-- what the whole query may log: one UDP socket opened to the given port, then `EvOk` events on it -/
def QueryEvOk (port : Nat) (v : Version) (id : Nat) : Ev → Prop
  | .opened c tcp p _ => c = id ∧ tcp = false ∧ p = port
  | e => EvOk ⟨id, port, false⟩ v e

theorem query_safe (port : Nat) (v : Version) (r : Nat) (w : Net) :
    (query port v r w).1 ≠ .crash
    ∧ ∃ added, (query port v r w).2.log = w.log ++ added ∧ ∀ e ∈ added, QueryEvOk port v w.conns.length e := by
  rw [query_eq, Q.bind_apply]
  have lift : ∀ e, EvOk ⟨w.conns.length, port, false⟩ v e → QueryEvOk port v w.conns.length e := by
    intro e he
    cases e with
    | opened => exact he.elim
    | send => exact he
    | recv => exact he
  have fin : ∀ (w0 : Net) (ev : Ev), w0.log = w.log ++ [ev] → QueryEvOk port v w.conns.length ev →
      IsOpen ⟨w.conns.length, port, false⟩ w0 →
      (queryBody ⟨w.conns.length, port, false⟩ v r w0).1 ≠ .crash
      ∧ ∃ added, (queryBody ⟨w.conns.length, port, false⟩ v r w0).2.log = w.log ++ added
        ∧ ∀ e ∈ added, QueryEvOk port v w.conns.length e := by
    intro w0 ev hlog0 hev hop
    obtain ⟨h1, h2⟩ := qsafe_queryBody ⟨w.conns.length, port, false⟩ v r w0 hop
    obtain ⟨added, hlog, hall⟩ := h2.log
    refine ⟨h1, ev :: added, by rw [hlog, hlog0]; simp, ?_⟩
    intro e he
    rcases List.mem_cons.mp he with rfl | he'
    · exact hev
    · exact lift e (hall e he')
  cases hp : w.pending with
  | nil =>
    simp only [openSock, hp]
    exact fin _ _ rfl ⟨rfl, rfl, rfl⟩ (by simp [IsOpen])
  | cons c rest =>
    cases c with
    | opened ds =>
      simp only [openSock, hp]
      exact fin _ _ rfl ⟨rfl, rfl, rfl⟩ (by simp [IsOpen])
    | refused =>
      simp only [openSock, hp]
      refine ⟨by simp, [_], rfl, ?_⟩
      intro e he
      rcases List.mem_singleton.mp he with rfl
      exact ⟨rfl, rfl, rfl⟩

end Gd.Quake
