import GdVerif.Lemmas.GsMap
import GdVerif.Lemmas.GsText
import GdVerif.Lemmas.Decodes
import GdVerif.Spec.Gs2
/-
  GameSpy 2: the parsers of the model against the SPEC encoders — tables.
-/
namespace Gd.Gs2
open Gd Gd.Gs Gd.Gs2.Spec

def OkStr (s : Bytes) : Prop := (0 : UInt8) ∉ s ∧ validUtf8 s = true

theorem okStr_iff (s : Bytes) : okStr s = true ↔ OkStr s := by
  simp [okStr, OkStr]

theorem decodes_cell (s : Bytes) (h : OkStr s) : Decodes readCStr (cstr s) s := decodes_readCStr s h.1 h.2

/-! ### rows -/

/-- `table.get_mut(column).unwrap().push(value)` -/
def pushCell (t : Table) (h c : Bytes) : Table := mapInsert t h ((mapGet t h).getD [] ++ [c])

/-- one row pushed cell by cell -/
def pushRow (t : Table) : List Bytes → List Bytes → Table
  | h :: hs, c :: cs => pushRow (pushCell t h c) hs cs
  | _, _ => t

theorem tablePush_eq (t : Table) (h c : Bytes) (hk : (mapGet t h).isSome = true) : tablePush t h c = .ok (pushCell t h c) := by
  unfold tablePush pushCell
  cases hm : mapGet t h with
  | none => rw [hm] at hk; cases hk
  | some col => rfl

theorem mapGet_pushCell (t : Table) (h c k : Bytes) :
    mapGet (pushCell t h c) k = if h = k then some ((mapGet t h).getD [] ++ [c]) else mapGet t k := by
  unfold pushCell
  exact mapGet_mapInsert' t h _ k

theorem isSome_pushCell (t : Table) (h c k : Bytes) (hk : (mapGet t k).isSome = true) :
    (mapGet (pushCell t h c) k).isSome = true := by
  rw [mapGet_pushCell]
  split <;> simp [hk]

theorem decodes_readRow : ∀ (hs cells : List Bytes) (t : Table), cells.length = hs.length → (∀ c ∈ cells, OkStr c) →
    (∀ h ∈ hs, (mapGet t h).isSome = true) → Decodes (readRow hs t) ((cells.map cstr).flatten) (pushRow t hs cells) := by
  intro hs
  induction hs with
  | nil =>
    intro cells t hl _ _
    have : cells = [] := List.length_eq_zero_iff.mp hl
    subst this
    exact Decodes.pure _
  | cons h hs ih =>
    intro cells t hl hok hkeys
    cases cells with
    | nil => simp at hl
    | cons c cs =>
      simp only [readRow, List.map_cons, List.flatten_cons, pushRow]
      refine Decodes.bind (decodes_cell c (hok c (by simp))) ?_
      rw [tablePush_eq t h c (hkeys h (by simp))]
      refine Decodes.bind' (e1 := []) (e2 := (cs.map cstr).flatten) (Decodes.lift_ok _) ?_ (by simp)
      exact ih cs _ (by simpa using hl) (fun x hx => hok x (by simp [hx]))
        (fun k hk => isSome_pushCell t h c k (hkeys k (by simp [hk])))

theorem isSome_pushRow : ∀ (hs cells : List Bytes) (t : Table) (k : Bytes), (mapGet t k).isSome = true →
    (mapGet (pushRow t hs cells) k).isSome = true := by
  intro hs
  induction hs with
  | nil => intro cells t k h; cases cells <;> exact h
  | cons h hs ih =>
    intro cells t k hk
    cases cells with
    | nil => exact hk
    | cons c cs => exact ih cs _ k (isSome_pushCell t h c k hk)

/-- all the rows -/
def pushRows (t : Table) (hs : List Bytes) (rows : List (List Bytes)) : Table := rows.foldl (fun t r => pushRow t hs r) t

def encRow (r : List Bytes) : Bytes := (r.map cstr).flatten

theorem decodes_readRows (hs : List Bytes) : ∀ (rows : List (List Bytes)) (t : Table),
    (∀ r ∈ rows, r.length = hs.length ∧ ∀ c ∈ r, OkStr c) → (∀ h ∈ hs, (mapGet t h).isSome = true) →
    Decodes (readRows hs rows.length t) ((rows.map encRow).flatten) (pushRows t hs rows) := by
  intro rows
  induction rows with
  | nil => intro t _ _; exact Decodes.pure _
  | cons r rs ih =>
    intro t hr hkeys
    simp only [List.length_cons, readRows, List.map_cons, List.flatten_cons, pushRows, List.foldl_cons]
    refine Decodes.bind (decodes_readRow hs r t (hr r (by simp)).1 (hr r (by simp)).2 hkeys) ?_
    exact ih _ (fun x hx => hr x (by simp [hx])) (fun k hk => isSome_pushRow hs r t k (hkeys k hk))

/-! ### what a column holds in the end -/

/-- the cell of a row under a head -/
def cellAt (hs row : List Bytes) (h : Bytes) : Bytes := ((hs.zip row).lookup h).getD []

theorem mapGet_pushRow_other : ∀ (hs cells : List Bytes) (t : Table) (k : Bytes), k ∉ hs →
    mapGet (pushRow t hs cells) k = mapGet t k := by
  intro hs
  induction hs with
  | nil => intro cells t k _; cases cells <;> rfl
  | cons h hs ih =>
    intro cells t k hk
    cases cells with
    | nil => rfl
    | cons c cs =>
      simp only [List.mem_cons, not_or] at hk
      simp only [pushRow]
      rw [ih cs _ k hk.2, mapGet_pushCell]
      have : ¬ h = k := fun e => hk.1 e.symm
      simp [this]

theorem mapGet_pushRow : ∀ (hs cells : List Bytes) (t : Table) (k : Bytes), hs.Nodup → cells.length = hs.length → k ∈ hs →
    mapGet (pushRow t hs cells) k = some ((mapGet t k).getD [] ++ [cellAt hs cells k]) := by
  intro hs
  induction hs with
  | nil => intro _ _ k _ _ hk; cases hk
  | cons h hs ih =>
    intro cells t k hnd hl hk
    cases cells with
    | nil => simp at hl
    | cons c cs =>
      have hnd' := List.nodup_cons.mp hnd
      simp only [pushRow]
      by_cases hkh : k = h
      · subst hkh
        rw [mapGet_pushRow_other hs cs _ k hnd'.1, mapGet_pushCell]
        simp [cellAt, List.zip_cons_cons, List.lookup_cons]
      · have hk' : k ∈ hs := by
          rcases List.mem_cons.mp hk with h1 | h1
          · exact absurd h1 hkh
          · exact h1
        rw [ih cs _ k hnd'.2 (by simpa using hl) hk', mapGet_pushCell]
        have h1 : ¬ h = k := fun e => hkh e.symm
        have h2 : (k == h) = false := by simpa using hkh
        simp [h1, cellAt, List.zip_cons_cons, List.lookup_cons, h2]

theorem mapGet_pushRows (hs : List Bytes) (hnd : hs.Nodup) (k : Bytes) (hk : k ∈ hs) : ∀ (rows : List (List Bytes)) (t : Table)
    (col : List Bytes), (∀ r ∈ rows, r.length = hs.length) → mapGet t k = some col →
    mapGet (pushRows t hs rows) k = some (col ++ rows.map (fun r => cellAt hs r k)) := by
  intro rows
  induction rows with
  | nil => intro t col _ h; simpa [pushRows] using h
  | cons r rs ih =>
    intro t col hl h
    simp only [pushRows, List.foldl_cons]
    have := ih (pushRow t hs r) (col ++ [cellAt hs r k]) (fun x hx => hl x (by simp [hx]))
      (by rw [mapGet_pushRow hs r t k hnd (hl r (by simp)) hk, h]; rfl)
    simp only [pushRows] at this
    rw [this]
    simp

/-- the empty table `data_as_table` starts from -/
def emptyTable (hs : List Bytes) : Table := hs.foldl (fun t h => mapInsert t h []) []

theorem mapGet_emptyTable_aux : ∀ (hs : List Bytes) (t : Table) (k : Bytes),
    mapGet (hs.foldl (fun t h => mapInsert t h ([] : List Bytes)) t) k = if k ∈ hs then some [] else mapGet t k := by
  intro hs
  induction hs with
  | nil => intro t k; simp
  | cons h hs ih =>
    intro t k
    simp only [List.foldl_cons]
    rw [ih, mapGet_mapInsert']
    by_cases h1 : k ∈ hs
    · simp [h1]
    · by_cases h2 : h = k
      · simp [h2]
      · have : ¬ k = h := fun e => h2 e.symm
        simp [h1, h2, this]

theorem mapGet_emptyTable (hs : List Bytes) (k : Bytes) (hk : k ∈ hs) : mapGet (emptyTable hs) k = some [] := by
  unfold emptyTable
  rw [mapGet_emptyTable_aux]
  simp [hk]

/-! ### column heads -/

theorem decodes_headsLoop : ∀ (rest : List Bytes) (fuel : Nat) (acc : List Bytes) (cur : Bytes),
    rest.length + 1 < fuel + (if cur = [] then 1 else 0) → cur ≠ [] → (∀ h ∈ rest, OkStr h ∧ h ≠ []) →
    Decodes (headsLoop fuel acc cur) ((rest.map cstr).flatten ++ [0]) (acc ++ cur :: rest) := by
  intro rest
  induction rest with
  | nil =>
    intro fuel acc cur hf hcur _
    simp only [hcur, ↓reduceIte, Nat.add_zero, List.length_nil] at hf
    cases fuel with
    | zero => omega
    | succ f =>
      have hne : cur.isEmpty = false := by cases cur <;> simp_all
      simp only [headsLoop, hne, Bool.false_eq_true, ↓reduceIte, List.map_nil, List.flatten_nil, List.nil_append]
      have h0 : Decodes readCStr (cstr []) [] := decodes_cell [] ⟨by simp, by decide⟩
      refine Decodes.bind' (e2 := []) h0 ?_ (by simp [cstr])
      cases f with
      | zero => omega
      | succ f' =>
        simp only [headsLoop, List.isEmpty_nil, ↓reduceIte]
        exact Decodes.pure _
  | cons h hs ih =>
    intro fuel acc cur hf hcur hok
    simp only [hcur, ↓reduceIte, Nat.add_zero, List.length_cons] at hf
    cases fuel with
    | zero => omega
    | succ f =>
      have hne : cur.isEmpty = false := by cases cur <;> simp_all
      simp only [headsLoop, hne, Bool.false_eq_true, ↓reduceIte, List.map_cons, List.flatten_cons, List.append_assoc]
      refine Decodes.bind (decodes_cell h (hok h (by simp)).1) ?_
      have := ih f (acc ++ [cur]) h (by
        have : h ≠ [] := (hok h (by simp)).2
        simp only [this, ↓reduceIte]; omega) (hok h (by simp)).2 (fun x hx => hok x (by simp [hx]))
      simpa [List.append_assoc] using this

/-- the heads, then the empty head that ends them -/
theorem decodes_readHeads (hs : List Bytes) (hok : ∀ h ∈ hs, OkStr h ∧ h ≠ []) :
    Decodes readHeads ((hs.map cstr).flatten ++ [0]) hs := by
  intro b post hr
  unfold readHeads
  cases hs with
  | nil =>
    have h0 : Decodes readCStr (cstr []) [] := decodes_cell [] ⟨by simp, by decide⟩
    obtain ⟨b1, h1, hr1, hd1⟩ := h0 b post (by simpa [cstr] using hr)
    rw [h1]
    simp only
    refine ⟨b1, ?_, hr1, hd1⟩
    simp [headsLoop]
  | cons h rest =>
    have hh := hok h (by simp)
    obtain ⟨b1, h1, hr1, hd1⟩ := decodes_cell h hh.1 b ((rest.map cstr).flatten ++ [0] ++ post)
      (by simpa [List.append_assoc] using hr)
    rw [h1]
    simp only
    have hfuel : rest.length + 1 < b.remaining + 1 + (if h = [] then 1 else 0) := by
      have h2 : ∀ l : List Bytes, l.length ≤ ((l.map cstr).flatten).length := by
        intro l
        induction l with
        | nil => simp
        | cons x xs ihx =>
          simp only [List.map_cons, List.flatten_cons, List.length_append, List.length_cons, cstr, List.length_nil]
          omega
      have hlen : b.remaining = (cstr h).length + ((rest.map cstr).flatten.length + (1 + post.length)) := by
        simp only [Buf.remaining, hr, List.map_cons, List.flatten_cons, List.length_append, List.length_cons,
          List.length_nil]
        omega
      have h3 : 0 < h.length := List.length_pos_iff.mpr hh.2
      have h4 := h2 rest
      simp only [hh.2, ↓reduceIte, hlen, cstr, List.length_append, List.length_cons, List.length_nil]
      omega
    obtain ⟨b2, h2, hr2, hd2⟩ := decodes_headsLoop rest (b.remaining + 1) [] h hfuel hh.2
      (fun x hx => hok x (by simp [hx])) b1 post (by simpa [List.append_assoc] using hr1)
    exact ⟨b2, by simpa using h2, hr2, by rw [hd2, hd1]⟩

/-! ### a whole table -/

theorem decodes_be1 (n : Nat) (h : n < 256) : Decodes (readUnsigned .big 1) [UInt8.ofNat n] n := by
  have := decodes_readUnsigned .big 1 n (by simpa using h)
  simpa [Endian.encode, natBE, natLE, Nat.mod_eq_of_lt h] using this

/-- the rows of a table: as many cells as heads, cells without NUL -/
def RowsOk (hs : List Bytes) (rows : List (List Bytes)) : Prop := ∀ r ∈ rows, r.length = hs.length ∧ ∀ c ∈ r, OkStr c

theorem decodes_dataAsTable (hs : List Bytes) (rows : List (List Bytes)) (hok : ∀ h ∈ hs, OkStr h ∧ h ≠ [])
    (hrows : RowsOk hs rows) (hn : rows.length < 256) :
    Decodes dataAsTable (encTable hs rows) (pushRows (emptyTable hs) hs rows, rows.length) := by
  unfold dataAsTable encTable
  have e : [0, UInt8.ofNat rows.length] ++ (hs.map cstr).flatten ++ [0] ++ (rows.map fun r => (r.map cstr).flatten).flatten
      = [UInt8.ofNat 0] ++ ([UInt8.ofNat rows.length] ++ (((hs.map cstr).flatten ++ [0]) ++
          ((rows.map fun r => (r.map cstr).flatten).flatten ++ []))) := by
    simp
  rw [e]
  refine Decodes.bind (decodes_be1 0 (by omega)) ?_
  simp only [bne_self_eq_false, Bool.false_eq_true, ↓reduceIte]
  refine Decodes.bind (decodes_be1 rows.length hn) ?_
  refine Decodes.bind (decodes_readHeads hs hok) ?_
  refine Decodes.bind (decodes_readRows hs rows (emptyTable hs) hrows
    (fun h hh => by rw [mapGet_emptyTable hs h hh]; rfl)) ?_
  exact Decodes.pure _

/-- what a cell of the finished table holds -/
theorem tableExtract_pushRows (hs : List Bytes) (hnd : hs.Nodup) (rows : List (List Bytes))
    (hl : ∀ r ∈ rows, r.length = hs.length) (name : String) (hk : bs name ∈ hs) (i : Nat) (r : List Bytes)
    (hr : rows[i]? = some r) :
    tableExtract (pushRows (emptyTable hs) hs rows) name i = .ok (cellAt hs r (bs name)) := by
  unfold tableExtract
  show (match mapGet (pushRows (emptyTable hs) hs rows) (bs name) with
    | none => Res.err ErrKind.packetBad
    | some col => match col[i]? with
      | none => Res.err ErrKind.packetBad
      | some v => Res.ok v) = _
  rw [mapGet_pushRows hs hnd (bs name) hk rows (emptyTable hs) [] hl (mapGet_emptyTable hs _ hk)]
  simp [hr]

theorem collect_eq {α : Type} (f : Nat → Res α) : ∀ (l : List α) (i : Nat),
    (∀ k x, l[k]? = some x → f (i + k) = .ok x) → collect f i l.length = .ok l := by
  intro l
  induction l with
  | nil => intro i _; rfl
  | cons x r ih =>
    intro i h
    have h0 := h 0 x rfl
    simp only [Nat.add_zero] at h0
    have hr := ih (i + 1) (fun k z hz => by
      have := h (k + 1) z (by simpa using hz)
      rw [show i + 1 + k = i + (k + 1) by omega]; exact this)
    simp only [List.length_cons, collect, h0, hr, Res.bind_ok, Res.pure_eq]

/-! ### players and teams -/

def WfPlayer (p : Player) : Prop := OkStr p.name ∧ p.score < 2 ^ 16 ∧ p.ping < 2 ^ 16 ∧ p.teamIndex < 2 ^ 16
def WfTeam (t : Team) : Prop := OkStr t.name ∧ t.score < 2 ^ 16
def WfCols (std : List Bytes) (cols : List (Bytes × Bytes)) : Prop :=
  (∀ c ∈ cols, OkStr c.1 ∧ c.1 ≠ [] ∧ OkStr c.2 ∧ c.1 ∉ std) ∧ (cols.map (·.1)).Nodup

theorem okStr_dec (n : Nat) : OkStr (dec n) :=
  ⟨dec_not_mem n 0 (by decide), validUtf8_of_ascii _ (plain_ascii (dec_plain n))⟩

theorem std_heads_ok : (∀ h ∈ ([bs "player_", bs "score_", bs "ping_", bs "team_"] : List Bytes), OkStr h ∧ h ≠ [])
    ∧ ([bs "player_", bs "score_", bs "ping_", bs "team_"] : List Bytes).Nodup
    ∧ (∀ h ∈ ([bs "team_t", bs "score_t"] : List Bytes), OkStr h ∧ h ≠ [])
    ∧ ([bs "team_t", bs "score_t"] : List Bytes).Nodup := by
  have key : ∀ h : Bytes, (okStr h = true ∧ h ≠ []) → OkStr h ∧ h ≠ [] := fun h hh => ⟨(okStr_iff h).mp hh.1, hh.2⟩
  refine ⟨?_, by decide +kernel, ?_, by decide +kernel⟩
  · intro h hh
    simp only [List.mem_cons, List.not_mem_nil, or_false] at hh
    rcases hh with rfl | rfl | rfl | rfl <;> exact key _ (by decide +kernel)
  · intro h hh
    simp only [List.mem_cons, List.not_mem_nil, or_false] at hh
    rcases hh with rfl | rfl <;> exact key _ (by decide +kernel)

theorem heads_ok (std : List Bytes) (cols : List (Bytes × Bytes)) (hstd : (∀ h ∈ std, OkStr h ∧ h ≠ []) ∧ std.Nodup)
    (hc : WfCols std cols) :
    (∀ h ∈ std ++ cols.map (·.1), OkStr h ∧ h ≠ []) ∧ (std ++ cols.map (·.1)).Nodup := by
  refine ⟨?_, ?_⟩
  · intro h hh
    rcases List.mem_append.mp hh with h1 | h1
    · exact hstd.1 h h1
    · obtain ⟨c, hcm, rfl⟩ := List.mem_map.mp h1
      exact ⟨(hc.1 c hcm).1, (hc.1 c hcm).2.1⟩
  · rw [List.nodup_append]
    refine ⟨hstd.2, hc.2, ?_⟩
    intro a ha b hb hab
    obtain ⟨c, hcm, rfl⟩ := List.mem_map.mp hb
    exact (hc.1 c hcm).2.2.2 (hab ▸ ha)

theorem head_cmp : (bs "score_" == bs "player_") = false ∧ (bs "ping_" == bs "player_") = false
    ∧ (bs "ping_" == bs "score_") = false ∧ (bs "team_" == bs "player_") = false ∧ (bs "team_" == bs "score_") = false
    ∧ (bs "team_" == bs "ping_") = false ∧ (bs "score_t" == bs "team_t") = false := by decide +kernel

theorem decodes_getPlayers (y : Style) (ps : List Player) (hp : ∀ p ∈ ps, WfPlayer p)
    (hc : WfCols [bs "player_", bs "score_", bs "ping_", bs "team_"] y.playerCols) (hn : ps.length < 256) :
    Decodes getPlayers (encTable (playerHeads y) (ps.map (playerRow y))) ps := by
  have hh := heads_ok _ _ ⟨std_heads_ok.1, std_heads_ok.2.1⟩ hc
  have hok : ∀ h ∈ playerHeads y, OkStr h ∧ h ≠ [] := hh.1
  have hnd : (playerHeads y).Nodup := hh.2
  have hrows : RowsOk (playerHeads y) (ps.map (playerRow y)) := by
    intro r hr
    obtain ⟨p, hpm, rfl⟩ := List.mem_map.mp hr
    refine ⟨by simp [playerRow, playerHeads], ?_⟩
    intro c hcm
    simp only [playerRow, List.mem_append, List.mem_cons, List.not_mem_nil, or_false, List.mem_map] at hcm
    rcases hcm with (rfl | rfl | rfl | rfl) | ⟨col, hcol, rfl⟩
    · exact (hp p hpm).1
    · exact okStr_dec _
    · exact okStr_dec _
    · exact okStr_dec _
    · exact (hc.1 col hcol).2.2.1
  unfold getPlayers
  refine Decodes.bind' (e2 := []) (decodes_dataAsTable _ _ hok hrows (by simpa using hn)) ?_ (by simp)
  simp only
  have hcollect : collect (playerAt (pushRows (emptyTable (playerHeads y)) (playerHeads y) (ps.map (playerRow y)))) 0
      (ps.map (playerRow y)).length = .ok ps := by
    rw [List.length_map]
    apply collect_eq
    intro k p hk
    have hrow : (ps.map (playerRow y))[k]? = some (playerRow y p) := by simp [hk]
    have hl : ∀ r ∈ ps.map (playerRow y), r.length = (playerHeads y).length := fun r hr => (hrows r hr).1
    have hpw := hp p (List.mem_of_getElem? hk)
    have hmem : ∀ s : String, bs s ∈ ([bs "player_", bs "score_", bs "ping_", bs "team_"] : List Bytes) → bs s ∈ playerHeads y :=
      fun s hs => by simp only [playerHeads, List.mem_append]; exact Or.inl hs
    simp only [Nat.zero_add, playerAt, tableExtractU16]
    rw [tableExtract_pushRows _ hnd _ hl "player_" (hmem _ (by simp)) k _ hrow,
      tableExtract_pushRows _ hnd _ hl "score_" (hmem _ (by simp)) k _ hrow,
      tableExtract_pushRows _ hnd _ hl "ping_" (hmem _ (by simp)) k _ hrow,
      tableExtract_pushRows _ hnd _ hl "team_" (hmem _ (by simp)) k _ hrow]
    have c1 : cellAt (playerHeads y) (playerRow y p) (bs "player_") = p.name := by
      simp (config := { decide := true }) [cellAt, playerHeads, playerRow, List.zip_cons_cons, List.lookup_cons, head_cmp]
    have c2 : cellAt (playerHeads y) (playerRow y p) (bs "score_") = dec p.score := by
      simp (config := { decide := true }) [cellAt, playerHeads, playerRow, List.zip_cons_cons, List.lookup_cons, head_cmp]
    have c3 : cellAt (playerHeads y) (playerRow y p) (bs "ping_") = dec p.ping := by
      simp (config := { decide := true }) [cellAt, playerHeads, playerRow, List.zip_cons_cons, List.lookup_cons, head_cmp]
    have c4 : cellAt (playerHeads y) (playerRow y p) (bs "team_") = dec p.teamIndex := by
      simp (config := { decide := true }) [cellAt, playerHeads, playerRow, List.zip_cons_cons, List.lookup_cons, head_cmp]
    rw [c1, c2, c3, c4]
    simp only [Res.bind_ok, okOr, parseUnsigned_dec 16 _ hpw.2.1, parseUnsigned_dec 16 _ hpw.2.2.1,
      parseUnsigned_dec 16 _ hpw.2.2.2, Res.pure_eq]
  rw [hcollect]
  exact Decodes.lift_ok _

theorem decodes_getTeams (y : Style) (ts : List Team) (ht : ∀ t ∈ ts, WfTeam t)
    (hc : WfCols [bs "team_t", bs "score_t"] y.teamCols) (hn : ts.length < 256) :
    Decodes getTeams (encTable (teamHeads y) (ts.map (teamRow y))) ts := by
  have hh := heads_ok _ _ ⟨std_heads_ok.2.2.1, std_heads_ok.2.2.2⟩ hc
  have hok : ∀ h ∈ teamHeads y, OkStr h ∧ h ≠ [] := hh.1
  have hnd : (teamHeads y).Nodup := hh.2
  have hrows : RowsOk (teamHeads y) (ts.map (teamRow y)) := by
    intro r hr
    obtain ⟨t, htm, rfl⟩ := List.mem_map.mp hr
    refine ⟨by simp [teamRow, teamHeads], ?_⟩
    intro c hcm
    simp only [teamRow, List.mem_append, List.mem_cons, List.not_mem_nil, or_false, List.mem_map] at hcm
    rcases hcm with (rfl | rfl) | ⟨col, hcol, rfl⟩
    · exact (ht t htm).1
    · exact okStr_dec _
    · exact (hc.1 col hcol).2.2.1
  unfold getTeams
  refine Decodes.bind' (e2 := []) (decodes_dataAsTable _ _ hok hrows (by simpa using hn)) ?_ (by simp)
  simp only
  have hcollect : collect (teamAt (pushRows (emptyTable (teamHeads y)) (teamHeads y) (ts.map (teamRow y)))) 0
      (ts.map (teamRow y)).length = .ok ts := by
    rw [List.length_map]
    apply collect_eq
    intro k t hk
    have hrow : (ts.map (teamRow y))[k]? = some (teamRow y t) := by simp [hk]
    have hl : ∀ r ∈ ts.map (teamRow y), r.length = (teamHeads y).length := fun r hr => (hrows r hr).1
    have htw := ht t (List.mem_of_getElem? hk)
    have hmem : ∀ s : String, bs s ∈ ([bs "team_t", bs "score_t"] : List Bytes) → bs s ∈ teamHeads y :=
      fun s hs => by simp only [teamHeads, List.mem_append]; exact Or.inl hs
    simp only [Nat.zero_add, teamAt, tableExtractU16]
    rw [tableExtract_pushRows _ hnd _ hl "team_t" (hmem _ (by simp)) k _ hrow,
      tableExtract_pushRows _ hnd _ hl "score_t" (hmem _ (by simp)) k _ hrow]
    have c1 : cellAt (teamHeads y) (teamRow y t) (bs "team_t") = t.name := by
      simp (config := { decide := true }) [cellAt, teamHeads, teamRow, List.zip_cons_cons, List.lookup_cons, head_cmp]
    have c2 : cellAt (teamHeads y) (teamRow y t) (bs "score_t") = dec t.score := by
      simp (config := { decide := true }) [cellAt, teamHeads, teamRow, List.zip_cons_cons, List.lookup_cons, head_cmp]
    rw [c1, c2]
    simp only [Res.bind_ok, okOr, parseUnsigned_dec 16 _ htw.2, Res.pure_eq]
  rw [hcollect]
  exact Decodes.lift_ok _

end Gd.Gs2
