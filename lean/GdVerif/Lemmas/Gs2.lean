import GdVerif.Lemmas.GsMap
import GdVerif.Lemmas.GsText
import GdVerif.Lemmas.Decodes
import GdVerif.Spec.Gs2
/-
  GameSpy 2: the parsers of the model against the SPEC encoders — tables.
-/
namespace Gd.Gs2
open Gd Gd.Gs Gd.Gs2.Spec

def OkStr (s : Bytes) : Prop := (0 : UInt8) ∉ s ∧ validUtf8 s = true

theorem okStr_iff (s : Bytes) : okStr s = true ↔ OkStr s := by
  simp [okStr, OkStr]

theorem decodes_cell (s : Bytes) (h : OkStr s) : Decodes readCStr (cstr s) s := decodes_readCStr s h.1 h.2

/-! ### rows -/

/-- `table.get_mut(column).unwrap().push(value)` -/
def pushCell (t : Table) (h c : Bytes) : Table := mapInsert t h ((mapGet t h).getD [] ++ [c])

/-- one row pushed cell by cell -/
def pushRow (t : Table) : List Bytes → List Bytes → Table
  | h :: hs, c :: cs => pushRow (pushCell t h c) hs cs
  | _, _ => t

theorem tablePush_eq (t : Table) (h c : Bytes) (hk : (mapGet t h).isSome = true) : tablePush t h c = .ok (pushCell t h c) := by
  unfold tablePush pushCell
  cases hm : mapGet t h with
  | none => rw [hm] at hk; cases hk
  | some col => rfl

theorem mapGet_pushCell (t : Table) (h c k : Bytes) :
    mapGet (pushCell t h c) k = if h = k then some ((mapGet t h).getD [] ++ [c]) else mapGet t k := by
  unfold pushCell
  exact mapGet_mapInsert' t h _ k

theorem isSome_pushCell (t : Table) (h c k : Bytes) (hk : (mapGet t k).isSome = true) :
    (mapGet (pushCell t h c) k).isSome = true := by
  rw [mapGet_pushCell]
  split <;> simp [hk]

theorem decodes_readRow : ∀ (hs cells : List Bytes) (t : Table), cells.length = hs.length → (∀ c ∈ cells, OkStr c) →
    (∀ h ∈ hs, (mapGet t h).isSome = true) → Decodes (readRow hs t) ((cells.map cstr).flatten) (pushRow t hs cells) := by
  intro hs
  induction hs with
  | nil =>
    intro cells t hl _ _
    have : cells = [] := List.length_eq_zero_iff.mp hl
    subst this
    exact Decodes.pure _
  | cons h hs ih =>
    intro cells t hl hok hkeys
    cases cells with
    | nil => simp at hl
    | cons c cs =>
      simp only [readRow, List.map_cons, List.flatten_cons, pushRow]
      refine Decodes.bind (decodes_cell c (hok c (by simp))) ?_
      rw [tablePush_eq t h c (hkeys h (by simp))]
      refine Decodes.bind' (e1 := []) (e2 := (cs.map cstr).flatten) (Decodes.lift_ok _) ?_ (by simp)
      exact ih cs _ (by simpa using hl) (fun x hx => hok x (by simp [hx]))
        (fun k hk => isSome_pushCell t h c k (hkeys k (by simp [hk])))

theorem isSome_pushRow : ∀ (hs cells : List Bytes) (t : Table) (k : Bytes), (mapGet t k).isSome = true →
    (mapGet (pushRow t hs cells) k).isSome = true := by
  intro hs
  induction hs with
  | nil => intro cells t k h; cases cells <;> exact h
  | cons h hs ih =>
    intro cells t k hk
    cases cells with
    | nil => exact hk
    | cons c cs => exact ih cs _ k (isSome_pushCell t h c k hk)

/-- all the rows -/
def pushRows (t : Table) (hs : List Bytes) (rows : List (List Bytes)) : Table := rows.foldl (fun t r => pushRow t hs r) t

def encRow (r : List Bytes) : Bytes := (r.map cstr).flatten

theorem decodes_readRows (hs : List Bytes) : ∀ (rows : List (List Bytes)) (t : Table),
    (∀ r ∈ rows, r.length = hs.length ∧ ∀ c ∈ r, OkStr c) → (∀ h ∈ hs, (mapGet t h).isSome = true) →
    Decodes (readRows hs rows.length t) ((rows.map encRow).flatten) (pushRows t hs rows) := by
  intro rows
  induction rows with
  | nil => intro t _ _; exact Decodes.pure _
  | cons r rs ih =>
    intro t hr hkeys
    simp only [List.length_cons, readRows, List.map_cons, List.flatten_cons, pushRows, List.foldl_cons]
    refine Decodes.bind (decodes_readRow hs r t (hr r (by simp)).1 (hr r (by simp)).2 hkeys) ?_
    exact ih _ (fun x hx => hr x (by simp [hx])) (fun k hk => isSome_pushRow hs r t k (hkeys k hk))

/-! ### what a column holds in the end -/

/-- the cell of a row under a head -/
def cellAt (hs row : List Bytes) (h : Bytes) : Bytes := ((hs.zip row).lookup h).getD []

theorem mapGet_pushRow_other : ∀ (hs cells : List Bytes) (t : Table) (k : Bytes), k ∉ hs →
    mapGet (pushRow t hs cells) k = mapGet t k := by
  intro hs
  induction hs with
  | nil => intro cells t k _; cases cells <;> rfl
  | cons h hs ih =>
    intro cells t k hk
    cases cells with
    | nil => rfl
    | cons c cs =>
      simp only [List.mem_cons, not_or] at hk
      simp only [pushRow]
      rw [ih cs _ k hk.2, mapGet_pushCell]
      have : ¬ h = k := fun e => hk.1 e.symm
      simp [this]

theorem mapGet_pushRow : ∀ (hs cells : List Bytes) (t : Table) (k : Bytes), hs.Nodup → cells.length = hs.length → k ∈ hs →
    mapGet (pushRow t hs cells) k = some ((mapGet t k).getD [] ++ [cellAt hs cells k]) := by
  intro hs
  induction hs with
  | nil => intro _ _ k _ _ hk; cases hk
  | cons h hs ih =>
    intro cells t k hnd hl hk
    cases cells with
    | nil => simp at hl
    | cons c cs =>
      have hnd' := List.nodup_cons.mp hnd
      simp only [pushRow]
      by_cases hkh : k = h
      · subst hkh
        rw [mapGet_pushRow_other hs cs _ k hnd'.1, mapGet_pushCell]
        simp [cellAt, List.zip_cons_cons, List.lookup_cons]
      · have hk' : k ∈ hs := by
          rcases List.mem_cons.mp hk with h1 | h1
          · exact absurd h1 hkh
          · exact h1
        rw [ih cs _ k hnd'.2 (by simpa using hl) hk', mapGet_pushCell]
        have h1 : ¬ h = k := fun e => hkh e.symm
        have h2 : (k == h) = false := by simpa using hkh
        simp [h1, cellAt, List.zip_cons_cons, List.lookup_cons, h2]

theorem mapGet_pushRows (hs : List Bytes) (hnd : hs.Nodup) (k : Bytes) (hk : k ∈ hs) : ∀ (rows : List (List Bytes)) (t : Table)
    (col : List Bytes), (∀ r ∈ rows, r.length = hs.length) → mapGet t k = some col →
    mapGet (pushRows t hs rows) k = some (col ++ rows.map (fun r => cellAt hs r k)) := by
  intro rows
  induction rows with
  | nil => intro t col _ h; simpa [pushRows] using h
  | cons r rs ih =>
    intro t col hl h
    simp only [pushRows, List.foldl_cons]
    have := ih (pushRow t hs r) (col ++ [cellAt hs r k]) (fun x hx => hl x (by simp [hx]))
      (by rw [mapGet_pushRow hs r t k hnd (hl r (by simp)) hk, h]; rfl)
    simp only [pushRows] at this
    rw [this]
    simp

/-- the empty table `data_as_table` starts from -/
def emptyTable (hs : List Bytes) : Table := hs.foldl (fun t h => mapInsert t h []) []

theorem mapGet_emptyTable_aux : ∀ (hs : List Bytes) (t : Table) (k : Bytes),
    mapGet (hs.foldl (fun t h => mapInsert t h ([] : List Bytes)) t) k = if k ∈ hs then some [] else mapGet t k := by
  intro hs
  induction hs with
  | nil => intro t k; simp
  | cons h hs ih =>
    intro t k
    simp only [List.foldl_cons]
    rw [ih, mapGet_mapInsert']
    by_cases h1 : k ∈ hs
    · simp [h1]
    · by_cases h2 : h = k
      · simp [h2]
      · have : ¬ k = h := fun e => h2 e.symm
        simp [h1, h2, this]

theorem mapGet_emptyTable (hs : List Bytes) (k : Bytes) (hk : k ∈ hs) : mapGet (emptyTable hs) k = some [] := by
  unfold emptyTable
  rw [mapGet_emptyTable_aux]
  simp [hk]

/-! ### column heads -/

theorem decodes_headsLoop : ∀ (rest : List Bytes) (fuel : Nat) (acc : List Bytes) (cur : Bytes),
    rest.length + 1 < fuel + (if cur = [] then 1 else 0) → cur ≠ [] → (∀ h ∈ rest, OkStr h ∧ h ≠ []) →
    Decodes (headsLoop fuel acc cur) ((rest.map cstr).flatten ++ [0]) (acc ++ cur :: rest) := by
  intro rest
  induction rest with
  | nil =>
    intro fuel acc cur hf hcur _
    simp only [hcur, ↓reduceIte, Nat.add_zero, List.length_nil] at hf
    cases fuel with
    | zero => omega
    | succ f =>
      have hne : cur.isEmpty = false := by cases cur <;> simp_all
      simp only [headsLoop, hne, Bool.false_eq_true, ↓reduceIte, List.map_nil, List.flatten_nil, List.nil_append]
      have h0 : Decodes readCStr (cstr []) [] := decodes_cell [] ⟨by simp, by decide⟩
      refine Decodes.bind' (e2 := []) h0 ?_ (by simp [cstr])
      cases f with
      | zero => omega
      | succ f' =>
        simp only [headsLoop, List.isEmpty_nil, ↓reduceIte]
        exact Decodes.pure _
  | cons h hs ih =>
    intro fuel acc cur hf hcur hok
    simp only [hcur, ↓reduceIte, Nat.add_zero, List.length_cons] at hf
    cases fuel with
    | zero => omega
    | succ f =>
      have hne : cur.isEmpty = false := by cases cur <;> simp_all
      simp only [headsLoop, hne, Bool.false_eq_true, ↓reduceIte, List.map_cons, List.flatten_cons, List.append_assoc]
      refine Decodes.bind (decodes_cell h (hok h (by simp)).1) ?_
      have := ih f (acc ++ [cur]) h (by
        have : h ≠ [] := (hok h (by simp)).2
        simp only [this, ↓reduceIte]; omega) (hok h (by simp)).2 (fun x hx => hok x (by simp [hx]))
      simpa [List.append_assoc] using this

/-- the heads, then the empty head that ends them -/
theorem decodes_readHeads (hs : List Bytes) (hok : ∀ h ∈ hs, OkStr h ∧ h ≠ []) :
    ∀ (b : Buf) (post : Bytes), b.rest = (hs.map cstr).flatten ++ [0] ++ post →
      ∃ b', readHeads b = .ok (hs, b') ∧ b'.rest = post ∧ b'.data = b.data := by
  intro b post hr
  unfold readHeads
  cases hs with
  | nil =>
    have h0 : Decodes readCStr (cstr []) [] := decodes_cell [] ⟨by simp, by decide⟩
    obtain ⟨b1, h1, hr1, hd1⟩ := h0 b post (by simpa [cstr] using hr)
    rw [h1]
    simp only
    refine ⟨b1, ?_, hr1, hd1⟩
    simp [headsLoop]
  | cons h rest =>
    have hh := hok h (by simp)
    obtain ⟨b1, h1, hr1, hd1⟩ := decodes_cell h hh.1 b ((rest.map cstr).flatten ++ [0] ++ post)
      (by simpa [List.append_assoc] using hr)
    rw [h1]
    simp only
    have hfuel : rest.length + 1 < b.remaining + 1 + (if h = [] then 1 else 0) := by
      have h2 : ∀ l : List Bytes, l.length ≤ ((l.map cstr).flatten).length := by
        intro l
        induction l with
        | nil => simp
        | cons x xs ihx =>
          simp only [List.map_cons, List.flatten_cons, List.length_append, List.length_cons, cstr, List.length_nil]
          omega
      have hlen : b.remaining = (cstr h).length + ((rest.map cstr).flatten.length + (1 + post.length)) := by
        simp only [Buf.remaining, hr, List.map_cons, List.flatten_cons, List.length_append, List.length_cons,
          List.length_nil]
        omega
      have h3 : 0 < h.length := List.length_pos_iff.mpr hh.2
      have h4 := h2 rest
      simp only [hh.2, ↓reduceIte, hlen, cstr, List.length_append, List.length_cons, List.length_nil]
      omega
    obtain ⟨b2, h2, hr2, hd2⟩ := decodes_headsLoop rest (b.remaining + 1) [] h hfuel hh.2
      (fun x hx => hok x (by simp [hx])) b1 post (by simpa [List.append_assoc] using hr1)
    exact ⟨b2, by simpa using h2, hr2, by rw [hd2, hd1]⟩

end Gd.Gs2
