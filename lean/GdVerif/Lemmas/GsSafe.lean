import GdVerif.Lemmas.QLogic
import GdVerif.Lemmas.Reader
import GdVerif.Proto.Gs1
import GdVerif.Proto.Gs2
/-
  Crash-freedom and wire-conformance of the GameSpy 1 and GameSpy 2 query models.
  (New shared helper, generic in the protocol: `open_then_safe` — a query that opens one UDP socket
  and then runs a body that is `QSafe` for that socket.)
-/
namespace Gd

/-- what a query that opens one UDP socket to `port` (it becomes socket `id`) may log, given what
its body may log on that socket -/
def OpenEvOk (port id : Nat) (P : Sock → Ev → Prop) : Ev → Prop
  | .opened c tcp p _ => c = id ∧ tcp = false ∧ p = port
  | e => P ⟨id, port, false⟩ e

/-- `openSock false port >>= body`: no crash, and the log grows by the `opened` event followed by
events the body is allowed -/
theorem open_then_safe {α : Type} (port : Nat) (P : Sock → Ev → Prop) (body : Sock → Q α)
    (hP : ∀ s c tcp p r, ¬ P s (.opened c tcp p r))
    (hbody : ∀ s : Sock, s.tcp = false → s.port = port → QSafe s (P s) (body s)) (w : Net) :
    ((openSock false port >>= body) w).1 ≠ .crash
    ∧ ∃ added, ((openSock false port >>= body) w).2.log = w.log ++ added
        ∧ ∀ e ∈ added, OpenEvOk port w.conns.length P e := by
  rw [Q.bind_apply]
  have lift : ∀ e, P ⟨w.conns.length, port, false⟩ e → OpenEvOk port w.conns.length P e := by
    intro e he
    cases e with
    | opened c tcp p r => exact (hP _ _ _ _ _ he).elim
    | send => exact he
    | recv => exact he
  have fin : ∀ (w0 : Net) (ev : Ev), w0.log = w.log ++ [ev] → OpenEvOk port w.conns.length P ev →
      IsOpen ⟨w.conns.length, port, false⟩ w0 →
      (body ⟨w.conns.length, port, false⟩ w0).1 ≠ .crash
      ∧ ∃ added, (body ⟨w.conns.length, port, false⟩ w0).2.log = w.log ++ added
        ∧ ∀ e ∈ added, OpenEvOk port w.conns.length P e := by
    intro w0 ev hlog0 hev hop
    obtain ⟨h1, h2⟩ := hbody ⟨w.conns.length, port, false⟩ rfl rfl w0 hop
    obtain ⟨added, hlog, hall⟩ := h2.log
    refine ⟨h1, ev :: added, by rw [hlog, hlog0]; simp, ?_⟩
    intro e he
    rcases List.mem_cons.mp he with rfl | he'
    · exact hev
    · exact lift e (hall e he')
  cases hp : w.pending with
  | nil =>
    simp only [openSock, hp]
    exact fin _ _ rfl ⟨rfl, rfl, rfl⟩ (by simp [IsOpen])
  | cons c rest =>
    cases c with
    | opened ds =>
      simp only [openSock, hp]
      exact fin _ _ rfl ⟨rfl, rfl, rfl⟩ (by simp [IsOpen])
    | refused =>
      simp only [openSock, hp]
      refine ⟨by simp, [_], rfl, ?_⟩
      intro e he
      rcases List.mem_singleton.mp he with rfl
      exact ⟨rfl, rfl, rfl⟩

theorem Q.bind_assoc {α β γ : Type} (q : Q α) (f : α → Q β) (g : β → Q γ) :
    ((q >>= f) >>= g) = (q >>= fun a => f a >>= g) := by
  funext w
  rw [Q.bind_apply, Q.bind_apply, Q.bind_apply]
  cases hq : q w with
  | mk res w' =>
    cases res with
    | ok a => simp only [Q.bind_apply]
    | err k => rfl
    | crash => rfl

theorem splitOn_ne_nil (d : UInt8) (l : Bytes) : splitOn d l ≠ [] := by
  cases l with
  | nil => simp [splitOn]
  | cons b r =>
    simp only [splitOn]
    split
    · simp
    · split <;> simp

theorem Par.run_ne_crash {p : Par α} (hp : Safe p) (data : Bytes) : p.run data ≠ .crash := by
  have := hp (Buf.new data)
  unfold Par.run
  cases h : p (Buf.new data) with
  | ok x => simp
  | err k => simp
  | crash => rw [h] at this; exact this.elim

theorem okOr_ne_crash (o : Option α) (k : ErrKind) : okOr o k ≠ .crash := by
  cases o <;> simp [okOr]

theorem Safe.lift_ne' (r : Res α) (h : r ≠ .crash) : Safe (Par.lift r) := by
  apply Safe.lift
  cases r <;> simp_all [Res.isCrash]

/-- sequencing of pure results -/
theorem Res.bind_ne_crash {r : Res α} {f : α → Res β} (hr : r ≠ .crash) (hf : ∀ a, f a ≠ .crash) :
    (r >>= f) ≠ .crash := by
  cases r with
  | ok a => exact hf a
  | err k => simp
  | crash => exact absurd rfl hr

end Gd

/-! ## GameSpy 1 -/

namespace Gd.Gs1
open Gd Gd.Gs

theorem parseQueryId_ne (n : Nat) (q : Option Bytes) : parseQueryId n q ≠ .crash := by
  unfold parseQueryId
  cases q with
  | none => simp
  | some qid =>
    simp only
    cases hs : splitOn 46 qid with
    | nil => exact absurd hs (splitOn_ne_nil _ _)
    | cons a rest =>
      simp only
      cases parseUnsigned 64 a with
      | none => simp
      | some id =>
        simp only
        split
        · simp
        · split <;> simp
        · simp

theorem processPacket_ne (st : LoopSt) (data : Bytes) : processPacket st data ≠ .crash := by
  unfold processPacket
  have h1 := Par.run_ne_crash safe_readCStr data
  cases hr : readCStr.run data with
  | crash => exact absurd hr h1
  | err k => simp
  | ok s =>
    simp only
    split
    · simp
    · have h2 := parseQueryId_ne st.parts.length
        (mapGet (mapRemove (insertAll st.vals (textPairs s)) kFinal) kQueryId)
      cases hq : parseQueryId st.parts.length (mapGet (mapRemove (insertAll st.vals (textPairs s)) kFinal) kQueryId) with
      | crash => exact absurd hq h2
      | err k => simp
      | ok x =>
        obtain ⟨qid, part⟩ := x
        simp only
        split
        · simp
        · split <;> simp

/-- what the GameSpy 1 client may do with its socket: send the status request, receive into the
2048-byte buffer -/
def EvOk (s : Sock) : Ev → Prop
  | .send c port data _ => c = s.id ∧ port = s.port ∧ data = statusRequest
  | .recv c size _ => c = s.id ∧ size = some 2048
  | .opened _ _ _ _ => False

theorem qsafe_recv (s : Sock) : QSafe s (EvOk s) (recv s (some PACKET_SIZE)) :=
  QSafe.recv s _ _ fun _ => ⟨rfl, rfl⟩

/-- the receive loop never runs out of fuel: every round consumes a queued delivery -/
theorem qsafe_recvLoop (s : Sock) (hudp : s.tcp = false) :
    ∀ (fuel : Nat) (st : LoopSt) (w : Net), IsOpen s w → qlen w s.id < fuel →
      (recvLoop s fuel st w).1 ≠ .crash ∧ Step (EvOk s) w (recvLoop s fuel st w).2 := by
  intro fuel
  induction fuel with
  | zero => intro _ w _ h; omega
  | succ fuel ih =>
    intro st w hopen hq
    unfold recvLoop
    split
    · exact ⟨by simp, Step.refl _ _⟩
    · have hrecv := qsafe_recv s w hopen
      rw [Q.bind_apply]
      cases hr : recv s (some PACKET_SIZE) w with
      | mk res w1 =>
        rw [hr] at hrecv
        cases res with
        | crash => exact absurd rfl hrecv.1
        | err k => exact ⟨by simp, hrecv.2⟩
        | ok data =>
          simp only
          have hcons := recv_ok_consumes s hudp _ w w1 data hopen hr
          have hopen1 := hopen.step hrecv.2
          rw [Q.bind_apply]
          have hp := processPacket_ne st data
          cases hpp : processPacket st data with
          | crash => exact absurd hpp hp
          | err k => exact ⟨by simp [Q.lift], hrecv.2⟩
          | ok st' =>
            simp only [Q.lift]
            obtain ⟨h3, h4⟩ := ih st' w1 hopen1 (by omega)
            exact ⟨h3, hrecv.2.trans h4⟩

theorem qsafe_getServerValuesImpl (s : Sock) (hudp : s.tcp = false) :
    QSafe s (EvOk s) (getServerValuesImpl s) := by
  unfold getServerValuesImpl
  refine QSafe.bind (QSafe.send s _ _ fun _ => ⟨rfl, rfl, rfl⟩) fun _ => ?_
  intro w hopen
  exact qsafe_recvLoop s hudp (queued s w + 1) LoopSt.init w hopen (by simp [queued, qlen])

/-! the pure part -/

theorem optField_ne (o : Option Bytes) (f : Bytes → Res α) (hf : ∀ v, f v ≠ .crash) : optField o f ≠ .crash := by
  unfold optField
  cases o with
  | none => simp
  | some v =>
    simp only
    have := hf v
    cases h : f v with
    | ok a => simp
    | err k => simp
    | crash => exact absurd h this

theorem trimParseU_ne (bits : Nat) (v : Bytes) : trimParseU bits v ≠ .crash := okOr_ne_crash _ _
theorem trimParseI_ne (bits : Nat) (v : Bytes) : trimParseI bits v ≠ .crash := okOr_ne_crash _ _

theorem buildPlayer_ne (d : Map Bytes) : buildPlayer d ≠ .crash := by
  unfold buildPlayer
  refine Res.bind_ne_crash ?_ fun _ => Res.bind_ne_crash (optField_ne _ _ (trimParseU_ne 8)) fun _ =>
    Res.bind_ne_crash (okOr_ne_crash _ _) fun _ => Res.bind_ne_crash (trimParseU_ne _ _) fun _ =>
    Res.bind_ne_crash (okOr_ne_crash _ _) fun _ => Res.bind_ne_crash (trimParseI_ne _ _) fun _ =>
    Res.bind_ne_crash (optField_ne _ _ (trimParseU_ne 32)) fun _ =>
    Res.bind_ne_crash (optField_ne _ _ (trimParseU_ne 32)) fun _ =>
    Res.bind_ne_crash (optField_ne _ _ fun _ => okOr_ne_crash _ _) fun _ => by simp
  split
  · simp
  · exact okOr_ne_crash _ _

theorem buildPlayers_ne (l : List (Map Bytes)) : buildPlayers l ≠ .crash := by
  induction l with
  | nil => simp [buildPlayers]
  | cons d r ih =>
    unfold buildPlayers
    exact Res.bind_ne_crash (buildPlayer_ne d) fun _ => Res.bind_ne_crash ih fun _ => by simp

theorem extractPlayers_ne (vars : Map Bytes) : extractPlayers vars ≠ .crash := by
  unfold extractPlayers
  simp only
  split
  · simp
  · have := buildPlayers_ne (List.foldl (retainStep vars.length) ⟨[], [], false⟩ vars).pd
    split
    · simp
    · simp
    · rename_i h; exact absurd h this

theorem passwordValue_ne (v : Bytes) : passwordValue v ≠ .crash := by
  unfold passwordValue
  split
  · simp
  · split <;> simp

theorem hasPassword_ne (m : Map Bytes) : hasPassword m ≠ .crash := by
  unfold hasPassword
  split
  · simp
  · rename_i v _
    have := passwordValue_ne v
    split
    · simp
    · simp
    · rename_i h; exact absurd h this

theorem buildResponse_ne (vars : Map Bytes) : buildResponse vars ≠ .crash := by
  unfold buildResponse
  refine Res.bind_ne_crash (okOr_ne_crash _ _) fun _ => Res.bind_ne_crash (okOr_ne_crash _ _) fun _ =>
    Res.bind_ne_crash (optField_ne _ _ fun _ => okOr_ne_crash _ _) fun _ =>
    Res.bind_ne_crash (extractPlayers_ne _) fun x => ?_
  obtain ⟨players, vars1⟩ := x
  refine Res.bind_ne_crash (okOr_ne_crash _ _) fun _ => Res.bind_ne_crash (okOr_ne_crash _ _) fun _ => ?_
  refine Res.bind_ne_crash (hasPassword_ne _) fun y => ?_
  obtain ⟨pw, vars2⟩ := y
  exact Res.bind_ne_crash (okOr_ne_crash _ _) fun _ => Res.bind_ne_crash (okOr_ne_crash _ _) fun _ =>
    Res.bind_ne_crash (okOr_ne_crash _ _) fun _ => by simp

/-- the bodies of `query_vars` and `query` after the socket has been opened -/
def varsBody (retries : Nat) (s : Sock) : Q (Map Bytes) := retryOnTimeout retries (getServerValuesImpl s)

def queryBody (retries : Nat) (s : Sock) : Q Response := do
  let vars ← varsBody retries s
  Q.lift (buildResponse vars)

theorem queryVars_eq (port retries : Nat) : queryVars port retries = (openSock false port >>= varsBody retries) := rfl

theorem query_eq (port retries : Nat) : query port retries = (openSock false port >>= queryBody retries) := by
  unfold query queryVars queryBody varsBody
  exact Q.bind_assoc _ _ _

theorem qsafe_varsBody (retries : Nat) (s : Sock) (hudp : s.tcp = false) : QSafe s (EvOk s) (varsBody retries s) :=
  QSafe.retry (qsafe_getServerValuesImpl s hudp) retries

theorem qsafe_queryBody (retries : Nat) (s : Sock) (hudp : s.tcp = false) : QSafe s (EvOk s) (queryBody retries s) :=
  QSafe.bind (qsafe_varsBody retries s hudp) fun vars => QSafe.lift _ _ _ (buildResponse_ne vars)

/-- what the whole query may log -/
abbrev QueryEvOk (port id : Nat) : Ev → Prop := OpenEvOk port id EvOk

theorem query_safe (port retries : Nat) (w : Net) :
    (query port retries w).1 ≠ .crash
    ∧ ∃ added, (query port retries w).2.log = w.log ++ added ∧ ∀ e ∈ added, QueryEvOk port w.conns.length e := by
  rw [query_eq]
  exact open_then_safe port EvOk (queryBody retries) (fun _ _ _ _ _ h => h)
    (fun s hudp _ => qsafe_queryBody retries s hudp) w

theorem queryVars_safe (port retries : Nat) (w : Net) :
    (queryVars port retries w).1 ≠ .crash
    ∧ ∃ added, (queryVars port retries w).2.log = w.log ++ added ∧ ∀ e ∈ added, QueryEvOk port w.conns.length e := by
  rw [queryVars_eq]
  exact open_then_safe port EvOk (varsBody retries) (fun _ _ _ _ _ h => h)
    (fun s hudp _ => qsafe_varsBody retries s hudp) w

end Gd.Gs1

/-! ## GameSpy 2 -/

namespace Gd

/-- what a NUL-terminated read does to the cursor: never backwards, and forwards when bytes remain -/
theorem readCStr_moves {b b' : Buf} {s : Bytes} (h : readCStr b = .ok (s, b')) :
    b'.data = b.data ∧ b'.remaining ≤ b.remaining ∧ (0 < b.remaining → b'.remaining < b.remaining)
    ∧ (s ≠ [] → 0 < b.remaining) := by
  unfold readCStr readStringWith utf8Dec at h
  simp only at h
  split at h
  · rename_i s0 n hd
    split at hd
    · cases hd
    · cases hd
      cases h
      refine ⟨by simp, ?_, ?_, ?_⟩
      · simp [Buf.remaining]
      · intro hpos
        simp only [Buf.remaining, Buf.rest_advance, List.length_drop] at *
        omega
      · intro hne
        simp only [Buf.remaining]
        cases hr : b.rest with
        | nil => simp [hr] at hne
        | cons x r => simp
  · cases h
  · cases h

end Gd

namespace Gd.Gs2
open Gd Gd.Gs

theorem safe_currentPosition : Safe currentPosition := fun _ => rfl

theorem safe_checkHeader : Safe checkHeader := by
  unfold checkHeader
  refine Safe.bind (safe_readUnsigned _ _) fun h => ?_
  split
  · exact Safe.fail _
  · refine Safe.bind (safe_readUnsigned _ _) fun id => ?_
    split
    · exact Safe.fail _
    · exact safe_currentPosition

theorem safe_serverVarsStep (m : Map Bytes) : Safe (serverVarsStep m) := by
  unfold serverVarsStep
  refine Safe.bind safe_readCStr fun key => Safe.bind safe_readCStr fun value => ?_
  split
  · split
    · exact Safe.bind (safe_moveCursor _) fun _ => Safe.pure _
    · exact Safe.pure _
  · exact Safe.pure _

/-- a round that does not end the loop consumed at least one byte -/
theorem serverVarsStep_progress (m m' : Map Bytes) (b b' : Buf) (hpos : 0 < b.remaining)
    (h : serverVarsStep m b = .ok ((m', false), b')) : b'.remaining < b.remaining := by
  unfold serverVarsStep at h
  rw [Par.bind_apply] at h
  cases h1 : readCStr b with
  | err k => rw [h1] at h; cases h
  | crash => rw [h1] at h; cases h
  | ok x =>
    obtain ⟨key, b1⟩ := x
    rw [h1] at h
    simp only at h
    rw [Par.bind_apply] at h
    cases h2 : readCStr b1 with
    | err k => rw [h2] at h; cases h
    | crash => rw [h2] at h; cases h
    | ok y =>
      obtain ⟨value, b2⟩ := y
      rw [h2] at h
      simp only at h
      have m1 := readCStr_moves h1
      have m2 := readCStr_moves h2
      have hb : b' = b2 := by
        split at h
        · split at h
          · -- the `done` branch returns `true`
            rw [Par.bind_apply] at h
            cases hm : moveCursor (-1) b2 with
            | ok z => rw [hm] at h; cases h
            | err k => rw [hm] at h; cases h
            | crash => rw [hm] at h; cases h
          · cases h; rfl
        · cases h; rfl
      rw [hb]
      have := m1.2.2.1 hpos
      omega

theorem safe_serverVarsLoop : ∀ (fuel : Nat) (m : Map Bytes) (b : Buf), b.remaining < fuel →
    Post b (serverVarsLoop fuel m b) := by
  intro fuel
  induction fuel with
  | zero => intro m b h; omega
  | succ n ih =>
    intro m b h
    simp only [serverVarsLoop]
    split
    · rfl
    · rename_i hrem
      have hs := safe_serverVarsStep m b
      cases hb : serverVarsStep m b with
      | crash => rw [hb] at hs; exact hs.elim
      | err k => trivial
      | ok x =>
        obtain ⟨⟨m', done⟩, b'⟩ := x
        rw [hb] at hs
        simp only [Post] at hs
        simp only
        cases done with
        | true => simp only [↓reduceIte, Post]; exact hs
        | false =>
          simp only [Bool.false_eq_true, ↓reduceIte]
          have hpos : 0 < b.remaining := by
            simp only [beq_iff_eq] at hrem
            omega
          have hp := serverVarsStep_progress m m' b b' hpos hb
          have h3 := ih m' b' (by omega)
          cases hw : serverVarsLoop n m' b' with
          | ok y => rw [hw] at h3; simp only [Post] at h3 ⊢; rw [h3, hs]
          | err k => trivial
          | crash => rw [hw] at h3; exact h3

theorem safe_getServerVars : Safe getServerVars := by
  intro b
  unfold getServerVars
  have := safe_serverVarsLoop (b.remaining + 1) [] b (by omega)
  cases h : serverVarsLoop (b.remaining + 1) [] b with
  | ok x => obtain ⟨m, b'⟩ := x; rw [h] at this; simpa [Post] using this
  | err k => trivial
  | crash => rw [h] at this; exact this.elim

theorem safe_headsLoop : ∀ (fuel : Nat) (acc : List Bytes) (cur : Bytes) (b : Buf),
    0 < fuel → (cur ≠ [] → b.remaining + 2 ≤ fuel) → Post b (headsLoop fuel acc cur b) := by
  intro fuel
  induction fuel with
  | zero => intro _ _ _ h; omega
  | succ n ih =>
    intro acc cur b _ hinv
    simp only [headsLoop]
    split
    · rfl
    · rename_i hne
      have hcur : cur ≠ [] := by
        intro hc; apply hne; simp [hc]
      have hfuel := hinv hcur
      rw [Par.bind_apply]
      have hs := safe_readCStr b
      cases hr : readCStr b with
      | crash => rw [hr] at hs; exact hs.elim
      | err k => trivial
      | ok x =>
        obtain ⟨next, b1⟩ := x
        have mv := readCStr_moves hr
        simp only
        have h3 := ih (acc ++ [cur]) next b1 (by omega) (by
          intro hn
          have := mv.2.2.1 (mv.2.2.2 hn)
          omega)
        cases hw : headsLoop n (acc ++ [cur]) next b1 with
        | ok y => rw [hw] at h3; simp only [Post] at h3 ⊢; rw [h3, mv.1]
        | err k => trivial
        | crash => rw [hw] at h3; exact h3

theorem safe_readHeads : Safe readHeads := by
  intro b
  unfold readHeads
  have hs := safe_readCStr b
  cases hr : readCStr b with
  | crash => rw [hr] at hs; exact hs.elim
  | err k => trivial
  | ok x =>
    obtain ⟨first, b1⟩ := x
    have mv := readCStr_moves hr
    simp only
    have h3 := safe_headsLoop (b.remaining + 1) [] first b1 (by omega) (by
      intro hn
      have := mv.2.2.1 (mv.2.2.2 hn)
      omega)
    cases hw : headsLoop (b.remaining + 1) [] first b1 with
    | ok y => rw [hw] at h3; simp only [Post] at h3 ⊢; rw [h3, mv.1]
    | err k => trivial
    | crash => rw [hw] at h3; exact h3

theorem tablePush_ne (t : Table) (c v : Bytes) : tablePush t c v ≠ .crash := by
  unfold tablePush; split <;> simp

theorem safe_readRow : ∀ (heads : List Bytes) (t : Table), Safe (readRow heads t) := by
  intro heads
  induction heads with
  | nil => intro t; exact Safe.pure _
  | cons c r ih =>
    intro t
    simp only [readRow]
    exact Safe.bind safe_readCStr fun v => Safe.bind (Safe.lift _ (by
      have := tablePush_ne t c v
      cases h : tablePush t c v <;> simp_all [Res.isCrash])) fun t' => ih t'

theorem safe_readRows (heads : List Bytes) : ∀ (n : Nat) (t : Table), Safe (readRows heads n t) := by
  intro n
  induction n with
  | zero => intro t; exact Safe.pure _
  | succ n ih =>
    intro t
    simp only [readRows]
    exact Safe.bind (safe_readRow heads t) fun t' => ih t'

theorem safe_dataAsTable : Safe dataAsTable := by
  unfold dataAsTable
  refine Safe.bind (safe_readUnsigned _ _) fun z => ?_
  split
  · exact Safe.fail _
  · exact Safe.bind (safe_readUnsigned _ _) fun rows => Safe.bind safe_readHeads fun heads =>
      Safe.bind (safe_readRows heads rows _) fun _ => Safe.pure _

theorem tableExtract_ne (t : Table) (name : String) (i : Nat) : tableExtract t name i ≠ .crash := by
  unfold tableExtract
  split
  · simp
  · split <;> simp

theorem tableExtractU16_ne (t : Table) (name : String) (i : Nat) : tableExtractU16 t name i ≠ .crash := by
  unfold tableExtractU16
  have := tableExtract_ne t name i
  split
  · exact okOr_ne_crash _ _
  · simp
  · rename_i h; exact absurd h this

theorem teamAt_ne (t : Table) (i : Nat) : teamAt t i ≠ .crash :=
  Res.bind_ne_crash (tableExtract_ne _ _ _) fun _ => Res.bind_ne_crash (tableExtractU16_ne _ _ _) fun _ => by simp

theorem playerAt_ne (t : Table) (i : Nat) : playerAt t i ≠ .crash :=
  Res.bind_ne_crash (tableExtract_ne _ _ _) fun _ => Res.bind_ne_crash (tableExtractU16_ne _ _ _) fun _ =>
    Res.bind_ne_crash (tableExtractU16_ne _ _ _) fun _ => Res.bind_ne_crash (tableExtractU16_ne _ _ _) fun _ => by simp

theorem collect_ne {f : Nat → Res α} (hf : ∀ i, f i ≠ .crash) : ∀ (n i : Nat), collect f i n ≠ .crash := by
  intro n
  induction n with
  | zero => intro i; simp [collect]
  | succ n ih =>
    intro i
    simp only [collect]
    exact Res.bind_ne_crash (hf i) fun _ => Res.bind_ne_crash (ih (i + 1)) fun _ => by simp

theorem safe_getTeams : Safe getTeams := by
  unfold getTeams
  refine Safe.bind safe_dataAsTable fun x => ?_
  obtain ⟨t, n⟩ := x
  exact Safe.lift_ne' _ (collect_ne (teamAt_ne t) n 0)

theorem safe_getPlayers : Safe getPlayers := by
  unfold getPlayers
  refine Safe.bind safe_dataAsTable fun x => ?_
  obtain ⟨t, n⟩ := x
  exact Safe.lift_ne' _ (collect_ne (playerAt_ne t) n 0)

theorem optParse_ne (o : Option Bytes) (bits : Nat) : optParse o bits ≠ .crash := by
  unfold optParse
  split
  · simp
  · split <;> simp

theorem safe_parseBody : Safe parseBody := by
  unfold parseBody
  refine Safe.bind safe_getServerVars fun vars => Safe.bind safe_getPlayers fun players => ?_
  refine Safe.bind (Safe.lift_ne' _ (optParse_ne _ _)) fun _ => Safe.bind (Safe.lift_ne' _ (optParse_ne _ _)) fun _ => ?_
  refine Safe.bind (Safe.lift_ne' _ (okOr_ne_crash _ _)) fun _ => Safe.bind (Safe.lift_ne' _ (okOr_ne_crash _ _)) fun _ => ?_
  refine Safe.bind (Safe.lift_ne' _ (okOr_ne_crash _ _)) fun _ => Safe.bind safe_getTeams fun _ => ?_
  exact Safe.bind (Safe.lift_ne' _ (okOr_ne_crash _ _)) fun _ => Safe.bind (Safe.lift_ne' _ (okOr_ne_crash _ _)) fun _ => Safe.pure _

/-- what the GameSpy 2 client may do with its socket -/
def EvOk (s : Sock) : Ev → Prop
  | .send c port data _ => c = s.id ∧ port = s.port ∧ data = request
  | .recv c size _ => c = s.id ∧ size = some 2048
  | .opened _ _ _ _ => False

theorem qsafe_requestDataImpl (s : Sock) : QSafe s (EvOk s) (requestDataImpl s) := by
  unfold requestDataImpl
  exact QSafe.bind (QSafe.send s _ _ fun _ => ⟨rfl, rfl, rfl⟩) fun _ =>
    QSafe.bind (QSafe.recv s _ _ fun _ => ⟨rfl, rfl⟩) fun received =>
    QSafe.bind (QSafe.parse _ _ safe_checkHeader _) fun _ => QSafe.pure _ _ _

def queryBody (retries : Nat) (s : Sock) : Q Response := do
  let (data, idx) ← requestData s retries
  parse (do moveCursor (idx : Int); parseBody) data

theorem query_eq (port retries : Nat) : query port retries = (openSock false port >>= queryBody retries) := rfl

theorem qsafe_queryBody (retries : Nat) (s : Sock) : QSafe s (EvOk s) (queryBody retries s) := by
  unfold queryBody requestData
  refine QSafe.bind (QSafe.retry (qsafe_requestDataImpl s) retries) fun x => ?_
  obtain ⟨data, idx⟩ := x
  exact QSafe.parse _ _ (Safe.bind (safe_moveCursor _) fun _ => safe_parseBody) _

abbrev QueryEvOk (port id : Nat) : Ev → Prop := OpenEvOk port id EvOk

theorem query_safe (port retries : Nat) (w : Net) :
    (query port retries w).1 ≠ .crash
    ∧ ∃ added, (query port retries w).2.log = w.log ++ added ∧ ∀ e ∈ added, QueryEvOk port w.conns.length e := by
  rw [query_eq]
  exact open_then_safe port EvOk (queryBody retries) (fun _ _ _ _ _ h => h)
    (fun s _ _ => qsafe_queryBody retries s) w

end Gd.Gs2
