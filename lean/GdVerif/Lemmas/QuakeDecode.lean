import GdVerif.Lemmas.Quake
import GdVerif.Lemmas.QuakeSafe
/-
  C05, second half: player lines, the line loop, the `Response { … }` expression, the whole exchange.
-/
namespace Gd.Quake
open Gd Gd.Quake.Spec

/-! ### one player line -/

/-- the fields of a line, as the server writes them -/
def tokens (l : Line) : List Bytes :=
  match l.player with
  | .one p => [dec p.id, dec p.score, dec p.time, dec p.ping, text l.quoteName p.name, text l.quoteExtra p.skin,
      dec p.colorPrimary, dec p.colorSecondary]
  | .two p => [decInt p.score, dec p.ping, text l.quoteName p.name] ++
      (match p.address with
       | none => []
       | some a => [text l.quoteExtra a])

theorem encLineBody_eq (l : Line) : encLineBody l = joinSp (tokens l) := by
  obtain ⟨pl, qn, qe⟩ := l
  cases pl with
  | one p => simp [encLineBody, tokens, joinSp, sp, List.append_assoc]
  | two p =>
    obtain ⟨score, ping, name, address⟩ := p
    cases address <;> simp [encLineBody, tokens, joinSp, sp, List.append_assoc]

/-- what the line reader needs of a field: it comes back as one field, it is valid UTF-8, it has no line feed -/
structure GoodTok (t : Bytes) : Prop where
  tok : Tok t
  utf8 : validUtf8 t = true
  nolf : (0x0A : UInt8) ∉ t

theorem good_dec (n : Nat) : GoodTok (dec n) := ⟨tok_dec n, validUtf8_dec n, not_mem_dec _ (by decide) n⟩

theorem good_decInt (i : Int) : GoodTok (decInt i) :=
  ⟨tok_decInt i, validUtf8_decInt i, not_mem_decInt _ (by decide) (by decide) i⟩

theorem good_text (q : Bool) (s : Bytes) (h : okField q s = true) : GoodTok (text q s) := by
  obtain ⟨hv, _, hlf, _⟩ := (okField_iff q s).mp h
  refine ⟨tok_text q s h, ?_, ?_⟩
  · cases q with
    | true =>
      simp only [text, quote, ↓reduceIte]
      exact validUtf8_append _ _ (validUtf8_append _ _ (by decide) hv) (by decide)
    | false => simpa [text] using hv
  · cases q with
    | true =>
      simp only [text, quote, ↓reduceIte, List.mem_append, List.mem_singleton, not_or]
      exact ⟨⟨by decide, hlf⟩, by decide⟩
    | false => simpa [text] using hlf

theorem validUtf8_joinSp (ts : List Bytes) (h : ∀ t ∈ ts, validUtf8 t = true) : validUtf8 (joinSp ts) = true := by
  induction ts with
  | nil => rfl
  | cons t r ih =>
    cases r with
    | nil => simpa [joinSp] using h t (by simp)
    | cons t' r' =>
      simp only [joinSp]
      exact validUtf8_append _ _ (h t (by simp)) (validUtf8_cons_ascii _ _ (by decide) (ih fun x hx => h x (by simp [hx])))

theorem not_mem_joinSp (c : UInt8) (hc : c ≠ 0x20) (ts : List Bytes) (h : ∀ t ∈ ts, c ∉ t) : c ∉ joinSp ts := by
  induction ts with
  | nil => simp [joinSp]
  | cons t r ih =>
    cases r with
    | nil => simpa [joinSp] using h t (by simp)
    | cons t' r' =>
      simp only [joinSp, List.mem_append, List.mem_cons, not_or]
      exact ⟨h t (by simp), hc, ih fun x hx => h x (by simp [hx])⟩

theorem wfLine_one {v : Version} {p : PlayerOne} {qn qe : Bool} (h : wfLine v ⟨.one p, qn, qe⟩ = true) :
    v = .one ∧ p.id < 2 ^ 8 ∧ p.score < 2 ^ 16 ∧ p.time < 2 ^ 16 ∧ p.ping < 2 ^ 16 ∧ okField qn p.name = true ∧
      okField qe p.skin = true ∧ p.colorPrimary < 2 ^ 8 ∧ p.colorSecondary < 2 ^ 8 := by
  simpa [wfLine, and_assoc] using h

theorem wfLine_two {v : Version} {p : PlayerTwo} {qn qe : Bool} (h : wfLine v ⟨.two p, qn, qe⟩ = true) :
    v ≠ .one ∧ -(2 ^ 31 : Int) ≤ p.score ∧ p.score < 2 ^ 31 ∧ p.ping < 2 ^ 16 ∧ okField qn p.name = true ∧
      (∀ a, p.address = some a → okField qe a = true) := by
  simp only [wfLine, Bool.and_eq_true, bne_iff_ne, ne_eq, decide_eq_true_eq, List.all_eq_true, Option.all_eq_true_iff_get,
    and_assoc] at h
  obtain ⟨h1, h2, h3, h4, h5, h6⟩ := h
  refine ⟨h1, h2, h3, h4, h5, ?_⟩
  intro a ha
  cases hp : p.address with
  | none => rw [hp] at ha; cases ha
  | some a' =>
    rw [hp] at ha h6
    cases ha
    simpa using h6

theorem good_tokens (v : Version) (l : Line) (h : wfLine v l = true) : ∀ t ∈ tokens l, GoodTok t := by
  obtain ⟨pl, qn, qe⟩ := l
  cases pl with
  | one p =>
    obtain ⟨_, _, _, _, _, hn, hs, _, _⟩ := wfLine_one h
    intro t ht
    simp only [tokens, List.mem_cons, List.not_mem_nil, or_false] at ht
    rcases ht with rfl | rfl | rfl | rfl | rfl | rfl | rfl | rfl
    · exact good_dec _
    · exact good_dec _
    · exact good_dec _
    · exact good_dec _
    · exact good_text _ _ hn
    · exact good_text _ _ hs
    · exact good_dec _
    · exact good_dec _
  | two p =>
    obtain ⟨_, _, _, _, hn, ha⟩ := wfLine_two h
    obtain ⟨score, ping, name, address⟩ := p
    intro t ht
    cases address with
    | none =>
      simp only [tokens, List.append_nil, List.mem_cons, List.not_mem_nil, or_false] at ht
      rcases ht with rfl | rfl | rfl
      · exact good_decInt _
      · exact good_dec _
      · exact good_text _ _ hn
    | some a =>
      simp only [tokens, List.cons_append, List.nil_append, List.mem_cons, List.not_mem_nil, or_false] at ht
      rcases ht with rfl | rfl | rfl | rfl
      · exact good_decInt _
      · exact good_dec _
      · exact good_text _ _ hn
      · exact good_text _ _ (ha a rfl)

theorem tokens_ne_nil (l : Line) : tokens l ≠ [] := by
  obtain ⟨pl, qn, qe⟩ := l
  cases pl <;> simp [tokens]

/-- `parse_player_string` on the fields of a well-formed line returns the player -/
theorem parsePlayer_tokens (v : Version) (l : Line) (h : wfLine v l = true) : parsePlayer v (tokens l) = .ok l.player := by
  obtain ⟨pl, qn, qe⟩ := l
  cases pl with
  | one p =>
    obtain ⟨hv, h1, h2, h3, h4, hn, hs, h5, h6⟩ := wfLine_one h
    subst hv
    simp [parsePlayer, parsePlayerOne, tokens, fieldUnsigned_dec _ _ h1, fieldUnsigned_dec _ _ h2, fieldUnsigned_dec _ _ h3,
      fieldUnsigned_dec _ _ h4, fieldUnsigned_dec _ _ h5, fieldUnsigned_dec _ _ h6, fieldText_text _ _ hn, fieldText_text _ _ hs]
  | two p =>
    obtain ⟨hv, hlo, hhi, hp, hn, ha⟩ := wfLine_two h
    obtain ⟨score, ping, name, address⟩ := p
    have hpl : ∀ t, parsePlayer v t = (do let p ← parsePlayerTwo t; pure (.two p)) := by
      intro t
      cases v with
      | one => exact absurd rfl hv
      | two => rfl
      | three => rfl
    rw [hpl]
    cases address with
    | none =>
      simp [parsePlayerTwo, tokens, fieldSigned_decInt _ hlo hhi, fieldUnsigned_dec _ _ hp, fieldText_text _ _ hn, fieldOptText]
    | some a =>
      simp [parsePlayerTwo, tokens, fieldSigned_decInt _ hlo hhi, fieldUnsigned_dec _ _ hp, fieldText_text _ _ hn, fieldOptText,
        removeWrappingQuotes_text _ _ (ha a rfl)]

theorem joinSp_length_pos (ts : List Bytes) (t : Bytes) (r : List Bytes) (hts : ts = t :: r) (ht : t ≠ []) :
    0 < (joinSp ts).length := by
  subst hts
  cases r with
  | nil => simpa [joinSp] using List.length_pos_iff.mpr ht
  | cons t' r' => simp only [joinSp, List.length_append, List.length_cons]; omega

theorem encLineBody_length_pos (l : Line) : 0 < (encLineBody l).length := by
  rw [encLineBody_eq]
  obtain ⟨pl, qn, qe⟩ := l
  cases pl with
  | one p => exact joinSp_length_pos _ (dec p.id) _ rfl (dec_ne_nil _)
  | two p => exact joinSp_length_pos _ (decInt p.score) _ rfl (decInt_ne_nil _)

/-- the body of the loop on one well-formed line -/
theorem playerLine_line (v : Version) (l : Line) (h : wfLine v l = true) : Decodes (playerLine v) (encLine l) l.player := by
  have hg := good_tokens v l h
  have hsplit : splitFields false (encLineBody l) = tokens l := by
    rw [encLineBody_eq]
    exact splitFields_joinSp _ (tokens_ne_nil l) fun t ht => (hg t ht).tok
  have hread := decodes_readStrUntil 0x0A (encLineBody l)
    (by rw [encLineBody_eq]; exact not_mem_joinSp _ (by decide) _ fun t ht => (hg t ht).nolf)
    (by rw [encLineBody_eq]; exact validUtf8_joinSp _ fun t ht => (hg t ht).utf8)
  unfold playerLine encLine lf
  refine Decodes.bind_last hread ?_
  rw [hsplit, parsePlayer_tokens v l h]
  exact Decodes.lift_ok _

/-! ### the loop -/

theorem getPlayersLoop_lines (v : Version) (tail : Bytes) (ht : tail = [] ∨ tail = [0x00]) (lines : List Line)
    (hw : ∀ l ∈ lines, wfLine v l = true) :
    ∀ (fuel : Nat) (b : Buf), b.rest = (lines.map encLine).flatten ++ tail → b.rest.length < fuel →
      ∃ b', getPlayersLoop v fuel b = .ok (lines.map (·.player), b') ∧ b'.data = b.data := by
  induction lines with
  | nil =>
    intro fuel b hr hf
    cases fuel with
    | zero => omega
    | succ f =>
      refine ⟨b, ?_, rfl⟩
      unfold getPlayersLoop
      rw [Par.bind_ok (show remainingBytes b = .ok (b.rest, b) from rfl)]
      have hc : (b.rest.isEmpty || b.rest == [0x00]) = true := by
        simp only [List.map_nil, List.flatten_nil, List.nil_append] at hr
        rcases ht with h | h <;> simp [hr, h]
      simp [hc]
  | cons l r ih =>
    intro fuel b hr hf
    cases fuel with
    | zero => omega
    | succ f =>
      have hr' : b.rest = encLine l ++ ((r.map encLine).flatten ++ tail) := by
        simpa [List.append_assoc] using hr
      obtain ⟨b1, hp, hr1, hd1⟩ := playerLine_line v l (hw l (by simp)) b _ hr'
      have hlen : 2 ≤ (encLine l).length := by
        have := encLineBody_length_pos l
        simp only [encLine, lf, List.length_append, List.length_singleton]
        omega
      have hblen : b.rest.length = (encLine l).length + b1.rest.length := by
        rw [hr', hr1, List.length_append]
      obtain ⟨b2, hl, hd2⟩ := ih (fun x hx => hw x (by simp [hx])) f b1 hr1 (by omega)
      refine ⟨b2, ?_, by rw [hd2, hd1]⟩
      unfold getPlayersLoop
      rw [Par.bind_ok (show remainingBytes b = .ok (b.rest, b) from rfl)]
      have hc : (b.rest.isEmpty || b.rest == [0x00]) = false := by
        cases hb : b.rest with
        | nil => rw [hb] at hblen; simp at hblen; omega
        | cons x xs =>
          cases xs with
          | nil => rw [hb] at hblen; simp at hblen; omega
          | cons y ys => simp
      simp only [hc, Bool.false_eq_true, ↓reduceIte]
      rw [Par.bind_ok hp, Par.bind_ok hl]
      rfl

theorem getPlayers_lines (v : Version) (tail : Bytes) (ht : tail = [] ∨ tail = [0x00]) (lines : List Line)
    (hw : ∀ l ∈ lines, wfLine v l = true) (b : Buf) (hr : b.rest = (lines.map encLine).flatten ++ tail) :
    ∃ b', getPlayers v b = .ok (lines.map (·.player), b') ∧ b'.data = b.data :=
  getPlayersLoop_lines v tail ht lines hw (b.remaining + 1) b hr (Nat.lt_succ_self _)

/-! ### the `Response { … }` expression -/

theorem without_nil (m : Vars) : without m [] = m := by
  simp [without]

theorem without_single (m : Vars) (k : Bytes) : without m [k] = Valve.mapRemove m k := by
  unfold without Valve.mapRemove
  congr 1
  funext p
  by_cases h : p.1 = k <;> simp [h]

theorem without_without (m : Vars) (a b : List Bytes) : without (without m a) b = without m (a ++ b) := by
  unfold without
  rw [List.filter_filter]
  congr 1
  funext p
  simp [Bool.and_comm]

theorem lookup_without (m : Vars) (ks : List Bytes) (k : Bytes) (h : k ∉ ks) : (without m ks).lookup k = m.lookup k := by
  induction m with
  | nil => rfl
  | cons p r ih =>
    obtain ⟨k', v'⟩ := p
    unfold without at ih ⊢
    simp only [List.filter_cons]
    split
    · simp only [List.lookup]
      rw [ih]
    · rename_i hc
      have hc' : ks.contains k' = true := by simpa using hc
      have hne : (k == k') = false := by
        rw [beq_eq_false_iff_ne]
        intro e
        subst e
        exact h (by simpa using hc')
      simp only [List.lookup, hne]
      exact ih

theorem named_without (m : Vars) (ks : List Bytes) (k1 k2 : Bytes) (h1 : k1 ∉ ks) (h2 : k2 ∉ ks) :
    named (without m ks) k1 k2 = named m k1 k2 := by
  unfold named
  rw [lookup_without m ks k1 h1, lookup_without m ks k2 h2]

theorem takeVar_eq (m : Vars) (k1 k2 : Bytes) :
    takeVar m k1 k2 = ((named m k1 k2).map (·.2), without m (optKey (named m k1 k2))) := by
  unfold takeVar named
  cases h1 : m.lookup k1 with
  | some v => simp [optKey, without_single]
  | none =>
    cases h2 : m.lookup k2 with
    | some v => simp [optKey, without_single]
    | none => simp [optKey, without_nil]

theorem takeVar_without (m : Vars) (ks : List Bytes) (k1 k2 : Bytes) (h1 : k1 ∉ ks) (h2 : k2 ∉ ks) :
    takeVar (without m ks) k1 k2 = ((named m k1 k2).map (·.2), without m (ks ++ optKey (named m k1 k2))) := by
  rw [takeVar_eq, named_without m ks k1 k2 h1 h2, without_without]

theorem optKey_subset (m : Vars) (k1 k2 : Bytes) : ∀ k ∈ optKey (named m k1 k2), k ∈ [k1, k2] := by
  intro k hk
  unfold named at hk
  cases h1 : m.lookup k1 with
  | some v => rw [h1] at hk; simp [optKey] at hk; simp [hk]
  | none =>
    rw [h1] at hk
    cases h2 : m.lookup k2 with
    | some v => rw [h2] at hk; simp [optKey] at hk; simp [hk]
    | none => rw [h2] at hk; simp [optKey] at hk

theorem keys_eq : hostnameKey = kHostname ∧ hostnameAlt = kSvHostname ∧ mapKey = kMapname ∧ mapAlt = kMap ∧
    maxKey = kMaxclients ∧ maxAlt = kSvMaxclients ∧ versionKey = kVersion ∧ versionAlt = kStarVersion :=
  ⟨rfl, rfl, rfl, rfl, rfl, rfl, rfl, rfl⟩

/-- the `Response { … }` expression of `client_query` is the SPEC's expected response -/
theorem buildResponse_expected (cfg : Config) (st : State) (hl : st.lines.length < 256) :
    buildResponse st.vars (st.lines.map (·.player)) = expected cfg st := by
  have s1 := optKey_subset st.vars kHostname kSvHostname
  have s2 := optKey_subset st.vars kMapname kMap
  have s3 := optKey_subset st.vars kMaxclients kSvMaxclients
  have t1 := takeVar_eq st.vars kHostname kSvHostname
  have t2 := takeVar_without st.vars (optKey (named st.vars kHostname kSvHostname)) kMapname kMap
    (fun h => by have := s1 _ h; revert this; decide) (fun h => by have := s1 _ h; revert this; decide)
  have t3 := takeVar_without st.vars
    (optKey (named st.vars kHostname kSvHostname) ++ optKey (named st.vars kMapname kMap)) kMaxclients kSvMaxclients
    (fun h => by
      rcases List.mem_append.mp h with h | h
      · have := s1 _ h; revert this; decide
      · have := s2 _ h; revert this; decide)
    (fun h => by
      rcases List.mem_append.mp h with h | h
      · have := s1 _ h; revert this; decide
      · have := s2 _ h; revert this; decide)
  have t4 := takeVar_without st.vars
    (optKey (named st.vars kHostname kSvHostname) ++ optKey (named st.vars kMapname kMap)
      ++ optKey (named st.vars kMaxclients kSvMaxclients)) kVersion kStarVersion
    (fun h => by
      rcases List.mem_append.mp h with h | h
      · rcases List.mem_append.mp h with h | h
        · have := s1 _ h; revert this; decide
        · have := s2 _ h; revert this; decide
      · have := s3 _ h; revert this; decide)
    (fun h => by
      rcases List.mem_append.mp h with h | h
      · rcases List.mem_append.mp h with h | h
        · have := s1 _ h; revert this; decide
        · have := s2 _ h; revert this; decide
      · have := s3 _ h; revert this; decide)
  obtain ⟨e1, e2, e3, e4, e5, e6, e7, e8⟩ := keys_eq
  unfold buildResponse expected
  rw [e1, e2, e3, e4, e5, e6, e7, e8, t1]
  cases h1 : named st.vars kHostname kSvHostname with
  | none => simp [okOr]
  | some n1 =>
    obtain ⟨kn, name⟩ := n1
    rw [h1] at t2 t3 t4
    simp only [Option.map_some, okOr, Res.bind_ok, t2]
    cases h2 : named st.vars kMapname kMap with
    | none => simp [okOr]
    | some n2 =>
      obtain ⟨km, map⟩ := n2
      rw [h2] at t3 t4
      simp only [Option.map_some, okOr, Res.bind_ok, t3]
      cases h3 : named st.vars kMaxclients kSvMaxclients with
      | none => simp [okOr]
      | some n3 =>
        obtain ⟨kx, mx⟩ := n3
        rw [h3] at t4
        simp only [Option.map_some, okOr, Res.bind_ok]
        cases h4 : parseUnsigned 8 mx with
        | none => simp
        | some maxClients =>
          simp only [optKey, List.cons_append, List.nil_append] at t4
          simp only [Res.bind_ok, Res.pure_eq, List.length_map, Nat.mod_eq_of_lt hl, optKey, List.cons_append,
            List.nil_append, t4]

/-! ### the whole exchange -/

theorem header_eq (v : Version) : header v = v.responseHeader := by
  cases v <;> decide

/-- the header checks of `get_data_impl` on a reply: the rest of the packet -/
theorem stripHeader_reply (v : Version) (body : Bytes) :
    (stripHeader v).run ([0xFF, 0xFF, 0xFF, 0xFF] ++ v.responseHeader ++ body) = .ok body := by
  have h1 := decodes_le 4 0xFFFFFFFF (by decide)
  have e1 : natLE 4 0xFFFFFFFF = [0xFF, 0xFF, 0xFF, 0xFF] := by decide
  rw [e1] at h1
  obtain ⟨b1, hp1, hr1, _⟩ := h1 (Buf.new ([0xFF, 0xFF, 0xFF, 0xFF] ++ v.responseHeader ++ body)) (v.responseHeader ++ body)
    (by simp [List.append_assoc])
  obtain ⟨b2, hp2, hr2, _⟩ := decodes_skip v.responseHeader b1 body hr1
  unfold Par.run stripHeader
  rw [Par.bind_ok hp1]
  simp only [bne_self_eq_false, Bool.false_eq_true, ↓reduceIte]
  rw [Par.bind_ok (show remainingBytes b1 = .ok (b1.rest, b1) from rfl)]
  have hpre : v.responseHeader.isPrefixOf b1.rest = true := by
    rw [hr1, List.isPrefixOf_iff_prefix]
    exact List.prefix_append _ _
  simp only [hpre, Bool.not_true, Bool.false_eq_true, ↓reduceIte]
  rw [Par.bind_ok hp2]
  simp [remainingBytes, hr2]

theorem retry_ok (r : Nat) (f : Q α) (w w' : Net) (a : α) (h : f w = (.ok a, w')) : retryOnTimeout r f w = (.ok a, w') := by
  cases r with
  | zero => exact h
  | succ r => simp [retryOnTimeout, h]

/-- the server answers the request with one datagram: the query's result is what the parser makes of it -/
theorem query_one_datagram (port : Nat) (v : Version) (r : Nat) (d body : Bytes)
    (hh : (stripHeader v).run (d.take PACKET_SIZE) = .ok body) :
    (query port v r (Net.init [.opened [.data d]] [])).1 = (parseBody v).run body := by
  rw [query_eq]
  simp only [Q.bind_apply, openSock, Net.init, List.length_nil]
  have himpl : ∀ w0 : Net, w0.faults = [] → w0.conns = [[.data d]] →
      ∃ w1, getDataImpl ⟨0, port, false⟩ v w0 = (.ok body, w1) := by
    intro w0 hf hc
    unfold getDataImpl
    simp only [Q.bind_apply, Gd.send, hf]
    simp only [Gd.recv, hc, List.getD_cons_zero, Bool.false_eq_true, ↓reduceIte, Option.getD_some, parse, Q.lift, hh]
    exact ⟨_, rfl⟩
  obtain ⟨w1, hw1⟩ := himpl ⟨[], [] ++ [[.data d]], [], [] ++ [.opened 0 false port false]⟩ rfl rfl
  unfold queryBody getDataOn
  simp only [Q.bind_apply]
  rw [retry_ok r _ _ _ _ hw1]
  simp [parse, Q.lift]

/-- everything `client_query` does with the rest of the packet, on the SPEC's encoding -/
theorem parseBody_body (cfg : Config) (st : State) (hw : wf cfg st = true) :
    (parseBody cfg.version).run (body cfg st) = expected cfg st := by
  simp only [wf, Bool.and_eq_true, List.all_eq_true, decide_eq_true_eq] at hw
  obtain ⟨⟨⟨⟨⟨⟨⟨hvars, hdist⟩, _⟩, _⟩, _⟩, hlines⟩, hcount⟩, _⟩ := hw
  obtain ⟨b1, hp1, hr1, _⟩ := decodes_getServerValues st.vars hvars hdist (Buf.new (body cfg st))
    ((st.lines.map encLine).flatten ++ (if cfg.trailingNul then [0x00] else [])) (by simp [body, List.append_assoc])
  obtain ⟨b2, hp2, _⟩ := getPlayers_lines cfg.version (if cfg.trailingNul then [0x00] else [])
    (by cases cfg.trailingNul <;> simp) st.lines hlines b1 hr1
  unfold Par.run parseBody
  rw [Par.bind_ok hp1, Par.bind_ok hp2, buildResponse_expected cfg st hcount]
  cases expected cfg st <;> rfl

end Gd.Quake
