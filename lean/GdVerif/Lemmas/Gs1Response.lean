import GdVerif.Lemmas.Gs1Decode
/-
  GameSpy 1, part 5: `buildResponse` of the canonical map of a well-formed state's variables.
-/
namespace Gd.Gs1
open Gd Gd.Gs Gd.Gs1.Spec

/-- the part of `buildResponse` after `extract_players` -/
def finishResponse (playersMaximum : Nat) (playersMinimum : Option Nat) (players : List Player) (vars : Map Bytes) :
    Res Response := do
  let (name, vars) := take vars "hostname"
  let name ← okOr name .packetBad
  let (map, vars) := take vars "mapname"
  let map ← okOr map .packetBad
  let (mapTitle, vars) := take vars "maptitle"
  let (adminContact, vars) := take vars "AdminEMail"
  let (adminName, vars) := take vars "AdminName"
  let (adminName, vars) := (match adminName with
    | some v => (some v, vars)
    | none => take vars "admin")
  let (hasPassword, vars) ← hasPassword vars
  let (gameMode, vars) := take vars "gametype"
  let gameMode ← okOr gameMode .packetBad
  let (gameVersion, vars) := take vars "gamever"
  let gameVersion ← okOr gameVersion .packetBad
  let (tournament, vars) := take vars "tournament"
  let tournament ← okOr (parseBoolLower (tournament.getD (asciiBytes "true"))) .typeParse
  pure { name, map, mapTitle, adminContact, adminName, hasPassword, gameMode, gameVersion, playersMaximum,
         playersOnline := players.length % 2 ^ 32, playersMinimum, players, tournament, unusedEntries := vars }

theorem buildResponse_split (vars : Map Bytes) :
    buildResponse vars = (do
      let maxText ← okOr (mapGet vars (bs "maxplayers")) .packetBad
      let playersMaximum ← okOr (parseUnsigned 32 maxText) .typeParse
      let playersMinimum ← optField (mapGet (mapRemove vars (bs "maxplayers")) (bs "minplayers"))
        (fun v => okOr (parseUnsigned 8 v) .typeParse)
      let x ← extractPlayers (mapRemove (mapRemove vars (bs "maxplayers")) (bs "minplayers"))
      finishResponse playersMaximum playersMinimum x.1 x.2) := rfl

theorem typed_facts : ∀ k ∈ ([bs "maxplayers", bs "minplayers", bs "hostname", bs "mapname", bs "maptitle", bs "AdminEMail",
    bs "AdminName", bs "admin", bs "password", bs "gametype", bs "gamever", bs "tournament"] : List Bytes),
    k ∈ typedKeys ∧ playerField k = none := by decide +kernel

theorem passwordValue_pwText (style : Nat) (hs : style < 3) (b : Bool) : passwordValue (pwText style b) = .ok b := by
  have : style = 0 ∨ style = 1 ∨ style = 2 := by omega
  rcases this with rfl | rfl | rfl <;> cases b <;> decide +kernel

/-- the keys `finishResponse` removes -/
def finishKeys : List Bytes :=
  [bs "hostname", bs "mapname", bs "maptitle", bs "AdminEMail", bs "AdminName", bs "admin", bs "password", bs "gametype",
   bs "gamever", bs "tournament"]

section
variable {y : Style} {st : State}

theorem tg_hostname : tableGet (skeleton y st) (bs "hostname") = some st.name := by
  simp (config := { decide := true }) [tableGet, skeleton]
theorem tg_mapname : tableGet (skeleton y st) (bs "mapname") = some st.map := by
  simp (config := { decide := true }) [tableGet, skeleton]
theorem tg_gametype : tableGet (skeleton y st) (bs "gametype") = some st.gameMode := by
  simp (config := { decide := true }) [tableGet, skeleton]
theorem tg_gamever : tableGet (skeleton y st) (bs "gamever") = some st.gameVersion := by
  simp (config := { decide := true }) [tableGet, skeleton]
theorem tg_maxplayers : tableGet (skeleton y st) (bs "maxplayers") = some (dec st.playersMaximum) := by
  simp (config := { decide := true }) [tableGet, skeleton]
theorem tg_password : tableGet (skeleton y st) (bs "password") = some (pwText y.pwStyle st.hasPassword) := by
  simp (config := { decide := true }) [tableGet, skeleton]
theorem tg_maptitle : tableGet (skeleton y st) (bs "maptitle") = st.mapTitle := by
  simp (config := { decide := true }) [tableGet, skeleton]
theorem tg_adminemail : tableGet (skeleton y st) (bs "AdminEMail") = st.adminContact := by
  simp (config := { decide := true }) [tableGet, skeleton]
theorem tg_adminname : tableGet (skeleton y st) (bs "AdminName") = if y.adminShort then none else st.adminName := by
  cases hs : y.adminShort <;> simp (config := { decide := true }) [tableGet, skeleton, hs]
theorem tg_admin : tableGet (skeleton y st) (bs "admin") = if y.adminShort then st.adminName else none := by
  cases hs : y.adminShort <;> simp (config := { decide := true }) [tableGet, skeleton, hs]
theorem tg_minplayers : tableGet (skeleton y st) (bs "minplayers") = st.playersMinimum.map dec := by
  cases hs : y.adminShort <;> simp (config := { decide := true }) [tableGet, skeleton, hs]
theorem tg_tournament : tableGet (skeleton y st) (bs "tournament") = st.tournament.map (boolText y.boolUpper) := by
  cases hs : y.adminShort <;> simp (config := { decide := true }) [tableGet, skeleton, hs]
end

/-- lookups of typed keys answer like the server table -/
def TypedLookups (y : Style) (st : State) (K : Map Bytes) : Prop :=
  ∀ k, k ∈ finishKeys → mapGet K k = tableGet (skeleton y st) k

theorem finish_eq {y : Style} {st : State} (h : Wf y st) (K : Map Bytes) (hK : TypedLookups y st K)
    (pmax : Nat) (pmin : Option Nat) (players : List Player) :
    finishResponse pmax pmin players K = .ok
      { name := st.name, map := st.map, mapTitle := st.mapTitle, adminContact := st.adminContact,
        adminName := st.adminName, hasPassword := st.hasPassword, gameMode := st.gameMode,
        gameVersion := st.gameVersion, playersMaximum := pmax, playersOnline := players.length % 2 ^ 32,
        playersMinimum := pmin, players := players, tournament := st.tournament.getD true,
        unusedEntries := K.filter (fun e => !finishKeys.contains e.1) } := by
  have ab : ∀ s : String, asciiBytes s = bs s := fun _ => rfl
  have look : ∀ k, k ∈ finishKeys → mapGet K k = tableGet (skeleton y st) k := hK
  have l_host := look (bs "hostname") (by simp [finishKeys])
  have l_map := look (bs "mapname") (by simp [finishKeys])
  have l_title := look (bs "maptitle") (by simp [finishKeys])
  have l_email := look (bs "AdminEMail") (by simp [finishKeys])
  have l_an := look (bs "AdminName") (by simp [finishKeys])
  have l_admin := look (bs "admin") (by simp [finishKeys])
  have l_pw := look (bs "password") (by simp [finishKeys])
  have l_type := look (bs "gametype") (by simp [finishKeys])
  have l_ver := look (bs "gamever") (by simp [finishKeys])
  have l_tour := look (bs "tournament") (by simp [finishKeys])
  rw [tg_hostname] at l_host
  rw [tg_mapname] at l_map
  rw [tg_maptitle] at l_title
  rw [tg_adminemail] at l_email
  rw [tg_adminname] at l_an
  rw [tg_admin] at l_admin
  rw [tg_password] at l_pw
  rw [tg_gametype] at l_type
  rw [tg_gamever] at l_ver
  rw [tg_tournament] at l_tour
  -- the branch on `AdminName`: in every case the name found is the state's and `admin` is gone
  have hadmin : ∀ X : Map Bytes, mapGet X (bs "AdminName") = (if y.adminShort then none else st.adminName) →
      mapGet (mapRemove X (bs "AdminName")) (bs "admin") = (if y.adminShort then st.adminName else none) →
      (match mapGet X (bs "AdminName") with
        | some v => (some v, mapRemove X (bs "AdminName"))
        | none => (mapGet (mapRemove X (bs "AdminName")) (bs "admin"), mapRemove (mapRemove X (bs "AdminName")) (bs "admin")))
      = (st.adminName, mapRemove (mapRemove X (bs "AdminName")) (bs "admin")) := by
    intro X h1 h2
    rw [h1, h2]
    cases hs : y.adminShort with
    | true => simp
    | false =>
      simp only [Bool.false_eq_true, ↓reduceIte]
      rw [hs] at h2
      simp only [Bool.false_eq_true, ↓reduceIte] at h2
      cases ha : st.adminName with
      | none => simp [h2]
      | some v =>
        simp only
        rw [mapRemove_of_not_hasKey (hasKey_of_mapGet_none h2)]
  have e0 : mapGet K (bs "hostname") = some st.name := l_host
  have e1 : mapGet (mapRemove K (bs "hostname")) (bs "mapname") = some st.map := by
    rw [mapGet_mapRemove_ne] <;> first | exact l_map | decide
  have e2 : mapGet (mapRemove (mapRemove K (bs "hostname")) (bs "mapname")) (bs "maptitle") = st.mapTitle := by
    rw [mapGet_mapRemove_ne, mapGet_mapRemove_ne] <;> first | exact l_title | decide
  have e3 : mapGet (mapRemove (mapRemove (mapRemove K (bs "hostname")) (bs "mapname")) (bs "maptitle")) (bs "AdminEMail") = st.adminContact := by
    rw [mapGet_mapRemove_ne, mapGet_mapRemove_ne, mapGet_mapRemove_ne] <;> first | exact l_email | decide
  have e4 : mapGet (mapRemove (mapRemove (mapRemove (mapRemove K (bs "hostname")) (bs "mapname")) (bs "maptitle")) (bs "AdminEMail")) (bs "AdminName") = (if y.adminShort then none else st.adminName) := by
    rw [mapGet_mapRemove_ne, mapGet_mapRemove_ne, mapGet_mapRemove_ne, mapGet_mapRemove_ne] <;> first | exact l_an | decide
  have e5 : mapGet (mapRemove (mapRemove (mapRemove (mapRemove (mapRemove K (bs "hostname")) (bs "mapname")) (bs "maptitle")) (bs "AdminEMail")) (bs "AdminName")) (bs "admin") = (if y.adminShort then st.adminName else none) := by
    rw [mapGet_mapRemove_ne, mapGet_mapRemove_ne, mapGet_mapRemove_ne, mapGet_mapRemove_ne, mapGet_mapRemove_ne] <;> first | exact l_admin | decide
  have e6 : mapGet (mapRemove (mapRemove (mapRemove (mapRemove (mapRemove (mapRemove K (bs "hostname")) (bs "mapname")) (bs "maptitle")) (bs "AdminEMail")) (bs "AdminName")) (bs "admin")) (bs "password") = some (pwText y.pwStyle st.hasPassword) := by
    rw [mapGet_mapRemove_ne, mapGet_mapRemove_ne, mapGet_mapRemove_ne, mapGet_mapRemove_ne, mapGet_mapRemove_ne, mapGet_mapRemove_ne] <;> first | exact l_pw | decide
  have e7 : mapGet (mapRemove (mapRemove (mapRemove (mapRemove (mapRemove (mapRemove (mapRemove K (bs "hostname")) (bs "mapname")) (bs "maptitle")) (bs "AdminEMail")) (bs "AdminName")) (bs "admin")) (bs "password")) (bs "gametype") = some st.gameMode := by
    rw [mapGet_mapRemove_ne, mapGet_mapRemove_ne, mapGet_mapRemove_ne, mapGet_mapRemove_ne, mapGet_mapRemove_ne, mapGet_mapRemove_ne, mapGet_mapRemove_ne] <;> first | exact l_type | decide
  have e8 : mapGet (mapRemove (mapRemove (mapRemove (mapRemove (mapRemove (mapRemove (mapRemove (mapRemove K (bs "hostname")) (bs "mapname")) (bs "maptitle")) (bs "AdminEMail")) (bs "AdminName")) (bs "admin")) (bs "password")) (bs "gametype")) (bs "gamever") = some st.gameVersion := by
    rw [mapGet_mapRemove_ne, mapGet_mapRemove_ne, mapGet_mapRemove_ne, mapGet_mapRemove_ne, mapGet_mapRemove_ne, mapGet_mapRemove_ne, mapGet_mapRemove_ne, mapGet_mapRemove_ne] <;> first | exact l_ver | decide
  have e9 : mapGet (mapRemove (mapRemove (mapRemove (mapRemove (mapRemove (mapRemove (mapRemove (mapRemove (mapRemove K (bs "hostname")) (bs "mapname")) (bs "maptitle")) (bs "AdminEMail")) (bs "AdminName")) (bs "admin")) (bs "password")) (bs "gametype")) (bs "gamever")) (bs "tournament") = st.tournament.map (boolText y.boolUpper) := by
    rw [mapGet_mapRemove_ne, mapGet_mapRemove_ne, mapGet_mapRemove_ne, mapGet_mapRemove_ne, mapGet_mapRemove_ne, mapGet_mapRemove_ne, mapGet_mapRemove_ne, mapGet_mapRemove_ne, mapGet_mapRemove_ne] <;> first | exact l_tour | decide
  unfold finishResponse
  simp only [take, ab]
  rw [hadmin _ e4 e5]
  simp only [e0, e1, e2, e3, okOr, Res.bind_ok]
  have hpw : hasPassword (mapRemove (mapRemove (mapRemove (mapRemove (mapRemove (mapRemove K (bs "hostname")) (bs "mapname")) (bs "maptitle")) (bs "AdminEMail")) (bs "AdminName")) (bs "admin")) = .ok (st.hasPassword, (mapRemove (mapRemove (mapRemove (mapRemove (mapRemove (mapRemove (mapRemove K (bs "hostname")) (bs "mapname")) (bs "maptitle")) (bs "AdminEMail")) (bs "AdminName")) (bs "admin")) (bs "password"))) := by
    unfold hasPassword
    rw [ab, e6]
    simp only [passwordValue_pwText y.pwStyle h.pw, ab]
  rw [hpw]
  simp only [Res.bind_ok, e7, e8, e9]
  have htour : parseBoolLower ((st.tournament.map (boolText y.boolUpper)).getD (bs "true")) = some (st.tournament.getD true) := by
    cases st.tournament with
    | none =>
      show parseBoolLower (bs "true") = some true
      decide +kernel
    | some b => exact parseBoolLower_boolText _ _
  rw [htour]
  simp only [Res.bind_ok, Res.pure_eq]
  congr 2
  simp only [mapRemove, List.filter_filter]
  apply List.filter_congr
  intro e _
  simp only [finishKeys, List.contains_cons, List.contains_nil, Bool.or_false, Bool.not_or, bne, Bool.and_assoc]
  cases (e.1 == bs "hostname") <;> cases (e.1 == bs "mapname") <;> cases (e.1 == bs "maptitle") <;>
    cases (e.1 == bs "AdminEMail") <;> cases (e.1 == bs "AdminName") <;> cases (e.1 == bs "admin") <;>
    cases (e.1 == bs "password") <;> cases (e.1 == bs "gametype") <;> cases (e.1 == bs "gamever") <;>
    cases (e.1 == bs "tournament") <;> rfl

/-- the whole typed decoding of the canonical map of a well-formed state's variables -/
theorem buildResponse_canon {y : Style} {st : State} (h : Wf y st) :
    buildResponse (canon (allPairs y st)) = .ok (expected st) := by
  have hd := distinct_allPairs h
  have hperm := canon_perm_self (allPairs y st)
  have hnp := h.nplayers
  have tf := typed_facts
  -- lookups of typed keys in the canonical map
  have hV : ∀ k, k ∈ typedKeys → playerField k = none →
      mapGet (canon (allPairs y st)) k = tableGet (skeleton y st) k := fun k h1 h2 => by
    rw [mapGet_canon hd, mapGet_allPairs_typed h k h1 h2]
  have hmax : mapGet (canon (allPairs y st)) (bs "maxplayers") = some (dec st.playersMaximum) := by
    rw [hV _ (tf _ (by simp)).1 (tf _ (by simp)).2, tg_maxplayers]
  have hmin : mapGet (mapRemove (canon (allPairs y st)) (bs "maxplayers")) (bs "minplayers") = st.playersMinimum.map dec := by
    rw [mapGet_mapRemove_ne _ (by decide), hV _ (tf _ (by simp)).1 (tf _ (by simp)).2, tg_minplayers]
  -- the map `extract_players` walks
  have hsub : ∀ e ∈ mapRemove (mapRemove (canon (allPairs y st)) (bs "maxplayers")) (bs "minplayers"), e ∈ allPairs y st := by
    intro e he
    exact hperm.mem_iff.mp (List.mem_filter.mp (List.mem_filter.mp he).1).1
  have hsup : ∀ q ∈ playersPairsFrom y 0 st.players,
      q ∈ mapRemove (mapRemove (canon (allPairs y st)) (bs "maxplayers")) (bs "minplayers") := by
    intro q hq
    have hqa : q ∈ allPairs y st := by simp [allPairs, hq]
    obtain ⟨kd, hkd, n, _, h2, e⟩ := playersPairsFrom_key y st.players 0 hq
    have f := (kindList_facts y.nameLong).2 kd hkd
    have hpf : playerField q.1 = some (kd, n) := by rw [e]; exact playerField_fieldKeyB kd n f.2.1 f.2.2 (by omega)
    have hne : ∀ k, playerField k = none → q.1 ≠ k := fun k hk e' => by rw [e', hk] at hpf; cases hpf
    unfold mapRemove
    refine List.mem_filter.mpr ⟨List.mem_filter.mpr ⟨hperm.mem_iff.mpr hqa, ?_⟩, ?_⟩
    · simpa using hne _ (tf (bs "maxplayers") (by simp)).2
    · simpa using hne _ (tf (bs "minplayers") (by simp)).2
  have hdist : Distinct (mapRemove (mapRemove (canon (allPairs y st)) (bs "maxplayers")) (bs "minplayers")) :=
    ((canon_distinct hd).filter _).filter _
  -- what is left for the second half
  have hK : TypedLookups y st ((mapRemove (mapRemove (canon (allPairs y st)) (bs "maxplayers")) (bs "minplayers")).filter
      (fun e => (playerField e.1).isNone)) := by
    have hfk : ∀ k ∈ finishKeys, (k ∈ typedKeys ∧ playerField k = none) ∧ bs "maxplayers" ≠ k ∧ bs "minplayers" ≠ k := by
      decide +kernel
    intro k hk
    obtain ⟨⟨h1, h2⟩, h3, h4⟩ := hfk k hk
    rw [mapGet_filter_key _ (fun k => (playerField k).isNone) k]
    simp only [h2, Option.isNone_none, ↓reduceIte]
    rw [mapGet_mapRemove_ne _ h4, mapGet_mapRemove_ne _ h3]
    exact hV k h1 h2
  -- unused entries: everything that is neither typed nor a player field, in canonical order
  have hunused : ((mapRemove (mapRemove (canon (allPairs y st)) (bs "maxplayers")) (bs "minplayers")).filter
      (fun e => (playerField e.1).isNone)).filter (fun e => !finishKeys.contains e.1) = canon st.extras := by
    simp only [mapRemove, List.filter_filter]
    rw [canon_filter hd]
    refine congrArg canon ?_
    unfold allPairs
    rw [List.filter_append, List.filter_append]
    rw [List.filter_eq_nil_iff.mpr ?hs, List.filter_eq_self.mpr ?he, List.filter_eq_nil_iff.mpr ?hp]
    · simp
    case hs =>
      intro p hp
      have hmem := serverPairs_key_mem y st hp
      have : ∀ short, ∀ k ∈ serverKeyList short, (k ∈ finishKeys ∨ k = bs "minplayers" ∨ k = bs "maxplayers") := by
        decide +kernel
      rcases this y.adminShort p.1 hmem with h1 | h1 | h1 <;> simp [h1]
    case he =>
      intro e he
      obtain ⟨hnt, hpf⟩ := h.extrasKeys e he
      have hsubk : ∀ k, (k ∈ finishKeys ∨ k = bs "minplayers" ∨ k = bs "maxplayers") → k ∈ typedKeys := by
        intro k hk
        rcases hk with hk | rfl | rfl
        · have : ∀ k ∈ finishKeys, k ∈ typedKeys := by decide +kernel
          exact this k hk
        · decide +kernel
        · decide +kernel
      have h1 : e.1 ∉ finishKeys := fun hm => hnt (hsubk _ (Or.inl hm))
      have h2 : e.1 ≠ bs "minplayers" := fun e' => hnt (hsubk _ (Or.inr (Or.inl e')))
      have h3 : e.1 ≠ bs "maxplayers" := fun e' => hnt (hsubk _ (Or.inr (Or.inr e')))
      simp [h1, hpf, h2, h3]
    case hp =>
      intro q hq
      obtain ⟨kd, hkd, n, _, h2, e⟩ := playersPairsFrom_key y st.players 0 hq
      have f := (kindList_facts y.nameLong).2 kd hkd
      have hpf : playerField q.1 = some (kd, n) := by rw [e]; exact playerField_fieldKeyB kd n f.2.1 f.2.2 (by omega)
      simp [hpf]
  rw [buildResponse_split, hmax]
  simp only [okOr, Res.bind_ok, parseUnsigned_dec 32 _ h.server.maxp, hmin]
  rw [optField_map st.playersMinimum dec _ id (fun v hv => by
    rw [parseUnsigned_dec 8 v (h.server.minp v hv)]; rfl)]
  simp only [Res.bind_ok, Option.map_id_fun, id_eq]
  rw [extractPlayers_eq h _ hsub hsup hdist]
  simp only [Res.bind_ok]
  rw [finish_eq h _ hK, hunused]
  have hlen : st.players.length % 2 ^ 32 = st.players.length := Nat.mod_eq_of_lt (by omega)
  rw [hlen]
  rfl

/-! ### the whole query -/

/-- parts in any order: the response is the state's -/
theorem query_perm_expected {y : Style} {st : State} (h : Wf y st) (port retries : Nat) (arr : List Bytes)
    (hp : arr.Perm (script y st)) :
    (query port retries (Net.init (scriptOf arr) [])).1 = .ok (expected st) := by
  rw [query_any_order h port retries arr hp, buildResponse_canon h]

theorem drawn_parts {y : Style} {st : State} (arr : List Bytes) (harr : ∀ d ∈ arr, d ∈ script y st) :
    ∃ dsP : List NPart, arr = dsP.map (encN y (partsOf y st).length) ∧ ∀ a ∈ dsP, a ∈ partsOf y st := by
  induction arr with
  | nil => exact ⟨[], rfl, fun _ h => by cases h⟩
  | cons d t ih =>
    have hd := harr d (by simp)
    rw [script_eq] at hd
    obtain ⟨a, ha, e⟩ := List.mem_map.mp hd
    obtain ⟨tP, e2, h2⟩ := ih (fun x hx => harr x (by simp [hx]))
    exact ⟨a :: tP, by simp [e, e2], fun b hb => by
      rcases List.mem_cons.mp hb with rfl | hb'
      · exact ha
      · exact h2 b hb'⟩

/-- any sequence of datagrams drawn from the parts (any order, repetitions, omissions): the
variables sent, or an error -/
theorem queryVars_drawn {y : Style} {st : State} (h : Wf y st) (port retries : Nat) (arr : List Bytes)
    (harr : ∀ d ∈ arr, d ∈ script y st) :
    (queryVars port retries (Net.init (scriptOf arr) [])).1 = .ok (canon (allPairs y st))
    ∨ ∃ k, (queryVars port retries (Net.init (scriptOf arr) [])).1 = .err k := by
  obtain ⟨dsP, e, hall⟩ := drawn_parts arr harr
  have hP := partsOk_partsOf h
  have hsz : ∀ a ∈ partsOf y st, (encN y (partsOf y st).length a).length ≤ 2048 := by
    intro a ha
    apply h.sizes
    rw [script_eq]
    exact List.mem_map.mpr ⟨a, ha, rfl⟩
  have hready : Ready ⟨0, port, false⟩
      { pending := [], conns := [arr.map Delivery.data], faults := [], log := [.opened 0 false port false] }
      (dsP.map (encN y (partsOf y st).length)) := ⟨rfl, by simp, by simp [e], rfl⟩
  have := retry_drawn hP (partsOf_ne_nil y st) ⟨0, port, false⟩ retries _ dsP hready hall hsz
  rw [allOf_partsOf] at this
  unfold queryVars
  rw [Q.bind_apply]
  exact this

theorem query_drawn {y : Style} {st : State} (h : Wf y st) (port retries : Nat) (arr : List Bytes)
    (harr : ∀ d ∈ arr, d ∈ script y st) :
    (query port retries (Net.init (scriptOf arr) [])).1 = .ok (expected st)
    ∨ ∃ k, (query port retries (Net.init (scriptOf arr) [])).1 = .err k := by
  rw [query_fst]
  rcases queryVars_drawn h port retries arr harr with h1 | ⟨k, h1⟩
  · left; rw [h1]; exact buildResponse_canon h
  · right; exact ⟨k, by rw [h1]⟩

end Gd.Gs1
