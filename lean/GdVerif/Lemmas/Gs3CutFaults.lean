import GdVerif.Lemmas.Gs3Faults
import GdVerif.Lemmas.Gs3Cut
/-
  GameSpy 3, C10 on replies whose packets may end inside value lists (`Spec.ConfigC`): the wire-level
  statement `exchange_faulty_wire` speaks about any payloads; scripts and sends take only the challenge
  from the configuration (`cfg.closed`).
-/
namespace Gd.Gs3
open Gd Gd.Gs3.Spec Gd.Faults

/-- the outcome C10 prescribes for the packets of the response -/
def faultyPacketsC (cfg : ConfigC) (st : State) (plan : Plan) : Res (List Bytes) :=
  packetsOutcome (payloadsC cfg st) plan

theorem exchange_faultyC (cfg : ConfigC) (st : State) (h : wfC cfg st = true) (port retries : Nat) {α : Type}
    (post : List Bytes → Res α) (arrival : List Bytes) (harr : arrival.Perm (dataPacketsC cfg st))
    (plan : Plan) (hplan : wfPlan retries (dataPacketsC cfg st) plan = true) (restQ : List Delivery)
    (restF : List Bool) :
    (exchange port retries DEFAULT_PAYLOAD false post
        (Net.init [.opened (faultyScriptX cfg.closed plan arrival ++ restQ)] (faultyFaults plan ++ restF))).1
      = (faultyPacketsC cfg st plan >>= post)
    ∧ Gd.sentOf (exchange port retries DEFAULT_PAYLOAD false post
        (Net.init [.opened (faultyScriptX cfg.closed plan arrival ++ restQ)] (faultyFaults plan ++ restF))).2.log
      = faultySendsX cfg.closed plan := by
  obtain ⟨hcount, hpay, hsize, hlo, hhi⟩ := wfC_wire cfg st h
  exact exchange_faulty_wire cfg.challenge hlo hhi cfg.unknown (payloadsC cfg st) (payloadsC_ne_nil cfg st) hcount hpay
    hsize port retries post arrival harr plan hplan restQ restF

theorem faultyExpected_eqC (cfg : ConfigC) (st : State) (h : wfC cfg st = true) (plan : Plan) :
    (faultyPacketsC cfg st plan >>= buildResponse) = faultyExpected st plan := by
  unfold faultyPacketsC packetsOutcome faultyExpected
  cases plan.ending with
  | valid => simpa using buildResponseC_spec cfg st h
  | gaveUp => rfl
  | malformed stage got m => rfl

/-- a reply that closes every value list seen as a `ConfigC`: same scripts, sends, packets -/
theorem faulty_toC (cfg : ConfigX) (st : State) (plan : Plan) :
    cfg.toC.closed = cfg ∧ faultyPacketsC cfg.toC st plan = faultyPacketsX cfg st plan
    ∧ dataPacketsC cfg.toC st = dataPacketsX cfg st := by
  refine ⟨rfl, ?_, ?_⟩
  · simp only [faultyPacketsC, faultyPacketsX, payloadsC_toC]
  · simp only [dataPacketsC, dataPacketsX, payloadsC_toC]
    rfl

end Gd.Gs3
