import GdVerif.Spec.Valve
/-
  Order-independence of sort-based reassembly (generic), instantiated for Valve split packets.
-/
namespace Gd

theorem pairwise_of_mem_ne {α : Type} {R : α → α → Prop} (hsymm : ∀ x y, R x y → R y x) :
    ∀ {l : List α}, l.Pairwise R → ∀ {a b : α}, a ∈ l → b ∈ l → a ≠ b → R a b := by
  intro l hl
  induction hl with
  | nil => intro a b ha; cases ha
  | cons hhead _ ih =>
    intro a b ha hb hne
    rcases List.mem_cons.mp ha with rfl | ha'
    · rcases List.mem_cons.mp hb with rfl | hb'
      · exact (hne rfl).elim
      · exact hhead b hb'
    · rcases List.mem_cons.mp hb with rfl | hb'
      · exact hsymm _ _ (hhead a ha')
      · exact ih ha' hb' hne

/-- Sorting by a key with pairwise distinct keys does not depend on the arrival order. -/
theorem mergeSort_perm_eq {α : Type} (key : α → Nat) (l l' : List α) (hp : l'.Perm l)
    (hd : l.Pairwise (fun a b => key a ≠ key b)) :
    l'.mergeSort (fun a b => decide (key a ≤ key b)) = l.mergeSort (fun a b => decide (key a ≤ key b)) := by
  let le := fun a b : α => decide (key a ≤ key b)
  have htrans : ∀ a b c : α, le a b = true → le b c = true → le a c = true := by
    intro a b c h1 h2
    simp only [le, decide_eq_true_eq] at *
    omega
  have htotal : ∀ a b : α, (le a b || le b a) = true := by
    intro a b
    simp only [le, Bool.or_eq_true, decide_eq_true_eq]
    omega
  have hs' := List.pairwise_mergeSort htrans htotal l'
  have hs := List.pairwise_mergeSort htrans htotal l
  have hperm : (l'.mergeSort le).Perm (l.mergeSort le) :=
    (List.mergeSort_perm l' le).trans (hp.trans (List.mergeSort_perm l le).symm)
  refine List.Perm.eq_of_pairwise ?_ hs' hs hperm
  intro a b ha hb hab hba
  simp only [le, decide_eq_true_eq] at hab hba
  have hkey : key a = key b := by omega
  -- both are members of `l`; distinct members have distinct keys
  have ha' : a ∈ l := (hp.mem_iff).mp ((List.mergeSort_perm l' le).mem_iff.mp ha)
  have hb' : b ∈ l := (List.mergeSort_perm l le).mem_iff.mp hb
  exact Classical.byContradiction fun hne =>
    pairwise_of_mem_ne (R := fun x y => key x ≠ key y) (fun _ _ h => Ne.symm h) hd ha' hb' hne hkey

end Gd

namespace Gd.Valve
open Gd

theorem sortChunks_perm (l l' : List SplitPacket) (hp : l'.Perm l)
    (hd : l.Pairwise (fun a b => a.number ≠ b.number)) : sortChunks l' = sortChunks l :=
  mergeSort_perm_eq (fun p : SplitPacket => p.number) l l' hp hd

theorem numbersFrom_spec (l : List SplitPacket) : ∀ i, numbersFrom i l = true →
    l.Pairwise (fun a b => a.number ≠ b.number) ∧ ∀ p ∈ l, i ≤ p.number := by
  induction l with
  | nil => intro i _; exact ⟨List.Pairwise.nil, fun p hp => by cases hp⟩
  | cons p r ih =>
    intro i h
    simp only [numbersFrom, Bool.and_eq_true, beq_iff_eq] at h
    obtain ⟨hpw, hge⟩ := ih (i + 1) h.2
    refine ⟨List.Pairwise.cons ?_ hpw, ?_⟩
    · intro q hq
      have := hge q hq
      omega
    · intro q hq
      rcases List.mem_cons.mp hq with rfl | hq'
      · omega
      · have := hge q hq'; omega

/-- a set of fragments with a repeated number is rejected -/
theorem assemble_duplicate (ext : Ext) (l : List SplitPacket)
    (hdup : ¬ l.Pairwise (fun a b => a.number ≠ b.number)) : assemble ext (sortChunks l) = .err .packetBad := by
  unfold assemble
  cases hn : numbersFrom 0 (sortChunks l) with
  | false => simp
  | true =>
    exfalso
    apply hdup
    have h := (numbersFrom_spec _ 0 hn).1
    exact h.perm (List.mergeSort_perm l _) (fun h => Ne.symm h)

/-- `sameResponse main ·` relates only packets that are of one response with each other -/
theorem sameResponse_trans_false (m p q : SplitPacket) (hp : sameResponse m p = true) (hq : sameResponse m q = true) :
    sameResponse p q = true := by
  simp only [sameResponse, Bool.and_eq_true, beq_iff_eq] at *
  obtain ⟨⟨a, b⟩, c⟩ := hp
  obtain ⟨⟨a', b'⟩, c'⟩ := hq
  exact ⟨⟨by rw [a', a], by rw [b', b]⟩, by rw [c', c]⟩

theorem sameResponse_refl (m : SplitPacket) : sameResponse m m = true := by
  simp [sameResponse]

/-- a set of fragments containing two packets of different responses is rejected, whatever the order -/
theorem assemble_foreign (ext : Ext) (l : List SplitPacket) (p q : SplitPacket) (hp : p ∈ l) (hq : q ∈ l)
    (hne : sameResponse p q = false) : assemble ext (sortChunks l) = .err .packetBad := by
  have hperm : (sortChunks l).Perm l := List.mergeSort_perm l _
  have hp' : p ∈ sortChunks l := hperm.mem_iff.mpr hp
  have hq' : q ∈ sortChunks l := hperm.mem_iff.mpr hq
  unfold assemble
  split
  · rfl
  · split
    · rfl
    · rename_i main others heq
      split
      · rename_i hall
        exfalso
        rw [heq] at hp' hq'
        have hmem : ∀ x, x ∈ main :: others → sameResponse main x = true := by
          intro x hx
          rcases List.mem_cons.mp hx with rfl | hx
          · exact sameResponse_refl _
          · exact List.all_eq_true.mp hall x hx
        have := sameResponse_trans_false main p q (hmem p hp') (hmem q hq')
        rw [this] at hne
        cases hne
      · rfl

theorem enumFrom_sorted {α : Type} (mk : Nat → α → SplitPacket) (hnum : ∀ i c, (mk i c).number = i)
    (cs : List α) (i : Nat) :
    ((Spec.enumFrom i cs).map fun (p : Nat × α) => mk p.1 p.2).Pairwise (fun a b => decide (a.number ≤ b.number) = true)
    ∧ numbersFrom i ((Spec.enumFrom i cs).map fun (p : Nat × α) => mk p.1 p.2) = true
    ∧ ∀ q ∈ ((Spec.enumFrom i cs).map fun (p : Nat × α) => mk p.1 p.2), i ≤ q.number := by
  induction cs generalizing i with
  | nil => simp [Spec.enumFrom, numbersFrom]
  | cons c r ih =>
    obtain ⟨h1, h2, h3⟩ := ih (i + 1)
    simp only [Spec.enumFrom, List.map_cons]
    refine ⟨List.Pairwise.cons ?_ h1, ?_, ?_⟩
    · intro q hq
      have := h3 q hq
      simp only [hnum, decide_eq_true_eq]
      omega
    · simp [numbersFrom, hnum, h2]
    · intro q hq
      rcases List.mem_cons.mp hq with rfl | hq'
      · simp [hnum]
      · have := h3 q hq'; omega

end Gd.Valve
