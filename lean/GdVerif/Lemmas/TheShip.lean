import GdVerif.Lemmas.ValveWhole
import GdVerif.Lemmas.Valve
import GdVerif.Spec.TheShip
/-
  The Ship: crash freedom, conformance, and the conversion against the SPEC.
-/
namespace Gd.TheShip
open Gd Gd.Valve Gd.Valve.Spec

theorem okOr_ne {α : Type} (o : Option α) (k : ErrKind) : okOr o k ≠ .crash := by
  cases o <;> simp [okOr]

theorem playerOf_ne (p : ServerPlayer) : playerOf p ≠ .crash := by
  unfold playerOf
  cases p.deaths <;> cases p.money <;> simp [okOr, bind, Res.bind]

theorem playersOf_ne (ps : List ServerPlayer) : playersOf ps ≠ .crash := by
  induction ps with
  | nil => simp [playersOf]
  | cons p r ih =>
    unfold playersOf
    have h1 := playerOf_ne p
    cases hp : playerOf p with
    | crash => exact absurd hp h1
    | err k => simp [bind, Res.bind]
    | ok x =>
      cases hr : playersOf r with
      | crash => exact absurd hr ih
      | err k => simp [bind, Res.bind]
      | ok xs => simp [bind, Res.bind]

theorem convert_ne (r : Valve.Response) : convert r ≠ .crash := by
  unfold convert
  cases r.info.theShip with
  | none => simp [okOr, bind, Res.bind]
  | some ship =>
    cases r.players with
    | none => simp [okOr, bind, Res.bind]
    | some ps =>
      have h := playersOf_ne ps
      cases hp : playersOf ps with
      | crash => exact absurd hp h
      | err k => simp [okOr, bind, Res.bind, hp]
      | ok xs => cases r.rules <;> simp [okOr, bind, Res.bind, hp]

/-- crash freedom and conformance are the Valve query's: the conversion does no I/O -/
theorem query_safe (ext : Ext) (port retries : Nat) (w : Net) :
    (query ext port retries w).1 ≠ .crash
    ∧ ∃ added, (query ext port retries w).2.log = w.log ++ added
        ∧ ∀ e ∈ added, QueryEvOk port w.conns.length e := by
  obtain ⟨h1, h2⟩ := Valve.query_safe ext port ENGINE Gather.default retries w
  unfold query
  rw [Q.bind_apply]
  cases hq : Valve.query ext port ENGINE Gather.default retries w with
  | mk res w' =>
    rw [hq] at h1 h2
    cases res with
    | ok r => exact ⟨convert_ne r, h2⟩
    | err k => exact ⟨by simp, h2⟩
    | crash => exact absurd rfl h1

/-! ### the conversion against the SPEC -/

theorem playersOf_wf (ps : List ServerPlayer) (h : ∀ p ∈ ps, wfPlayer true p = true) :
    playersOf ps = .ok (ps.map TheShip.Spec.playerOf) := by
  induction ps with
  | nil => rfl
  | cons p r ih =>
    have hp := h p (by simp)
    simp only [wfPlayer, Bool.and_eq_true, decide_eq_true_eq, beq_iff_eq] at hp
    obtain ⟨⟨⟨⟨_, hd⟩, hm⟩, _⟩, _⟩ := hp
    unfold playersOf
    rw [ih fun q hq => h q (by simp [hq])]
    cases hdv : p.deaths with
    | none => simp [hdv] at hd
    | some d =>
      cases hmv : p.money with
      | none => simp [hmv] at hm
      | some m => simp [playerOf, okOr, hdv, hmv, TheShip.Spec.playerOf, bind, Res.bind]

/-- converting what a Valve client is entitled to (for engine app 2400, default gathering) yields what the
user of The Ship's query is entitled to -/
theorem convert_expected (cfg : Config) (st : State) (h : TheShip.Spec.wf cfg st = true) :
    (Valve.Spec.expected (TheShip.Spec.shipConfig cfg) st >>= convert) = TheShip.Spec.expected st := by
  simp only [TheShip.Spec.wf, Valve.Spec.wf, TheShip.Spec.shipConfig, TheShip.Spec.shipEngine, Engine.new,
    Bool.and_eq_true, decide_eq_true_eq, List.all_eq_true, beq_self_eq_true] at h
  obtain ⟨⟨⟨⟨⟨hinfo, _⟩, hpl⟩, _⟩, _⟩, _⟩ := h
  have hship : st.info.theShip.isSome = true := by
    simp only [wfSourceInfo, Bool.and_eq_true, beq_iff_eq, beq_self_eq_true] at hinfo
    exact hinfo.1.1.1.1.1.2
  unfold Valve.Spec.expected TheShip.Spec.expected
  simp only [TheShip.Spec.shipConfig, TheShip.Spec.shipEngine, appIdOk, Engine.new, Gather.default]
  by_cases happ : st.info.appid = 2400
  · have hps := playersOf_wf st.players hpl
    obtain ⟨ship, hs⟩ := Option.isSome_iff_exists.mp hship
    simp [happ, convert, okOr, hs, hps, expectedRules, Engine.new, bind, Res.bind]
  · have h1 : (2400 == st.info.appid) = false := by
      simp only [beq_eq_false_iff_ne, ne_eq]; exact fun h => happ h.symm
    simp [happ, h1, bind, Res.bind]

/-- the whole query against a conforming The Ship server that answers each request with one datagram -/
theorem query_single (ext : Ext) (port retries : Nat) (cfg : Config) (st : State) (h : TheShip.Spec.wf cfg st = true)
    (hl1 : (reply 0x49 (encSourceInfo cfg.upper st.info)).length ≤ PACKET_SIZE)
    (hl2 : (reply 0x44 (encPlayers st.players)).length ≤ PACKET_SIZE)
    (hl3 : (reply 0x45 (encRules st.rules)).length ≤ PACKET_SIZE) :
    (query ext port retries (Net.init [.opened (singleScript cfg.upper st)] [])).1 = TheShip.Spec.expected st := by
  have hwf := h
  simp only [TheShip.Spec.wf, Valve.Spec.wf, TheShip.Spec.shipConfig, TheShip.Spec.shipEngine, Engine.new,
    Bool.and_eq_true, decide_eq_true_eq, List.all_eq_true, beq_self_eq_true] at h
  obtain ⟨⟨⟨⟨⟨hinfo, hpn⟩, hpl⟩, hrn⟩, hrl⟩, hrd⟩ := h
  have hq := Valve.query_single ext port ENGINE (by decide) retries cfg.upper st hinfo hpn
    (fun p hp => by simpa [ENGINE] using hpl p hp) hrn (fun r hr => by simpa using hrl r hr) hrd hl1 hl2 hl3
  unfold query
  rw [bind_lift_fst, hq, ← convert_expected cfg st hwf,
    expected_default (TheShip.Spec.shipConfig cfg) st rfl]
  rfl

end Gd.TheShip
