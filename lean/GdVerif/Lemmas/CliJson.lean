import GdVerif.Proto.CliJson
import GdVerif.Lemmas.CliCodec
/-
  Lemmas for the JSON printer / reader of the command-line tool's model: the reader inverts the printer, for
  every value, in the compact and in the pretty style.
-/
namespace Gd.Cli

/-! ### white space -/

theorem skipWs_append_ws (ws rest : Bytes) (h : ∀ b ∈ ws, isWs b = true) : skipWs (ws ++ rest) = skipWs rest := by
  induction ws with
  | nil => rfl
  | cons b r ih =>
    have hb := h b (by simp)
    simp only [List.cons_append, skipWs, hb, ↓reduceIte]
    exact ih fun x hx => h x (by simp [hx])

theorem skipWs_cons_of_not (c : UInt8) (r : Bytes) (h : isWs c = false) : skipWs (c :: r) = c :: r := by
  simp [skipWs, h]

/-- a style that only ever inserts white space -/
structure Style.Ws (st : Style) : Prop where
  item : ∀ d, ∀ b ∈ st.item d, isWs b = true
  close : ∀ d, ∀ b ∈ st.close d, isWs b = true
  colon : ∀ b ∈ st.colon, isWs b = true

theorem Style.compact_ws : Style.compact.Ws := by
  refine ⟨fun _ b hb => ?_, fun _ b hb => ?_, fun b hb => ?_⟩ <;> simp [Style.compact] at hb

theorem indentOf_ws (d : Nat) : ∀ b ∈ indentOf d, isWs b = true := by
  intro b hb
  have := List.eq_of_mem_replicate hb
  subst this
  decide

theorem Style.pretty_ws : Style.pretty.Ws := by
  refine ⟨fun d b hb => ?_, fun d b hb => ?_, fun b hb => ?_⟩
  · simp only [Style.pretty, List.mem_cons] at hb
    rcases hb with rfl | hb
    · decide
    · exact indentOf_ws _ b hb
  · simp only [Style.pretty, List.mem_cons] at hb
    rcases hb with rfl | hb
    · decide
    · exact indentOf_ws _ b hb
  · simp only [Style.pretty, List.mem_cons, List.not_mem_nil, or_false] at hb
    subst hb
    decide

/-! ### strings -/

theorem jsonEscapeByte_length_pos (b : UInt8) : 1 ≤ (jsonEscapeByte b).length := by
  unfold jsonEscapeByte
  repeat' split
  all_goals simp

theorem escape_length_ge (s : Bytes) : s.length ≤ (s.flatMap jsonEscapeByte).length := by
  induction s with
  | nil => simp
  | cons b r ih =>
    simp only [List.flatMap_cons, List.length_append, List.length_cons]
    have := jsonEscapeByte_length_pos b
    omega

theorem hex4_control (n : Nat) (h : n < 32) :
    hex4 0x30 0x30 (hexLowerDigit (n / 16)) (hexLowerDigit (n % 16)) = some n := by
  revert n; decide

/-- reading back one escaped byte: the reader (with one more unit of fuel) yields that byte in front of whatever it reads
from the rest -/
theorem readStrBody_escaped (b : UInt8) (f : Nat) (tail : Bytes) :
    readStrBody (f + 1) (jsonEscapeByte b ++ tail) = (readStrBody f tail).map fun p => (b :: p.1, p.2) := by
  have hb := u8_lt b
  unfold jsonEscapeByte
  split
  · rename_i h; subst h; simp [readStrBody]
  split
  · rename_i h; subst h; simp [readStrBody]
  split
  · rename_i h; subst h; simp [readStrBody]
  split
  · rename_i h; subst h; simp [readStrBody]
  split
  · rename_i h; subst h; simp [readStrBody]
  split
  · rename_i h; subst h; simp [readStrBody]
  split
  · rename_i h; subst h; simp [readStrBody]
  split
  · -- `\u00xx`
    rename_i h1 h2 h3 h4 h5 h6 h7 hlt
    have hx := hex4_control b.toNat hlt
    have henc : utf8EncodeChar b.toNat = [b] := by
      unfold utf8EncodeChar
      have : b.toNat < 0x80 := by omega
      simp only [this, ↓reduceIte, u8_ofNat_toNat]
    have hnot : ¬ (0xDC00 ≤ b.toNat ∧ b.toNat ≤ 0xDFFF) := by omega
    have hlow : b.toNat < 0xD800 ∨ 0xDBFF < b.toNat := Or.inl (by omega)
    simp only [List.cons_append, List.nil_append, readStrBody]
    simp only [show ((0x5C : UInt8) = 0x22) = False by decide, show ((0x75 : UInt8) = 0x22) = False by decide,
      show ((0x75 : UInt8) = 0x5C) = False by decide, show ((0x75 : UInt8) = 0x2F) = False by decide,
      show ((0x75 : UInt8) = 0x62) = False by decide, show ((0x75 : UInt8) = 0x66) = False by decide,
      show ((0x75 : UInt8) = 0x6E) = False by decide, show ((0x75 : UInt8) = 0x72) = False by decide,
      show ((0x75 : UInt8) = 0x74) = False by decide, ↓reduceIte, hx, hnot, hlow, henc, List.cons_append, List.nil_append]
  · -- the byte itself
    rename_i h1 h2 h3 h4 h5 h6 h7 hge
    simp only [List.cons_append, List.nil_append, readStrBody, h1, h2, ↓reduceIte, hge]

/-- the reader inverts the escaping of a whole string body (fuel: more than the number of its bytes) -/
theorem readStrBody_body (s : Bytes) : ∀ (f : Nat) (rest : Bytes), s.length < f →
    readStrBody f (s.flatMap jsonEscapeByte ++ 0x22 :: rest) = some (s, rest) := by
  induction s with
  | nil =>
    intro f rest hf
    cases f with
    | zero => omega
    | succ f => simp [readStrBody]
  | cons b r ih =>
    intro f rest hf
    cases f with
    | zero => omega
    | succ f =>
      simp only [List.flatMap_cons, List.append_assoc]
      rw [readStrBody_escaped, ih f rest (by simp only [List.length_cons] at hf; omega)]
      rfl

/-- a string literal followed by anything: what follows the opening quote reads back as the string -/
theorem readStrBody_string (s rest : Bytes) :
    readStrBody ((s.flatMap jsonEscapeByte ++ 0x22 :: rest).length + 1) (s.flatMap jsonEscapeByte ++ 0x22 :: rest)
      = some (s, rest) := by
  apply readStrBody_body
  have := escape_length_ge s
  simp only [List.length_append, List.length_cons]
  omega

/-! ### numbers -/

/-- what may follow a value: nothing, or a character that cannot continue a number -/
def Delim (rest : Bytes) : Prop := ∀ c r, rest = c :: r → isNumChar c = false

theorem Delim.nil : Delim [] := fun _ _ h => by cases h

theorem Delim.cons {c : UInt8} (r : Bytes) (h : isNumChar c = false) : Delim (c :: r) := by
  intro c' r' heq
  cases heq
  exact h

theorem isNumChar_ws (b : UInt8) (h : isWs b = true) : isNumChar b = false := by
  simp only [isWs, Bool.or_eq_true, decide_eq_true_eq] at h
  rcases h with ((rfl | rfl) | rfl) | rfl <;> decide

/-- white space and then a non-number character (or white space to the end) cannot continue a number -/
theorem Delim.ws_append (ws : Bytes) (rest : Bytes) (hws : ∀ b ∈ ws, isWs b = true) (hr : Delim rest) : Delim (ws ++ rest) := by
  cases ws with
  | nil => exact hr
  | cons b r => exact Delim.cons _ (isNumChar_ws b (hws b (by simp)))

theorem spanNum_append (t rest : Bytes) (ht : ∀ b ∈ t, isNumChar b = true) (hr : Delim rest) :
    spanNum (t ++ rest) = (t, rest) := by
  induction t with
  | nil =>
    cases rest with
    | nil => rfl
    | cons c r => simp [spanNum, hr c r rfl]
  | cons b r ih =>
    have hb := ht b (by simp)
    have := ih fun x hx => ht x (by simp [hx])
    simp only [List.cons_append, spanNum, hb, ↓reduceIte, this]

theorem isNumChar_digit (b : UInt8) (h : isDigit b = true) : isNumChar b = true := by simp [isNumChar, h]

theorem numDigits_chars (t : Bytes) (h : numDigits t = true) : ∀ b ∈ t, isNumChar b = true := by
  induction t with
  | nil => intro b hb; cases hb
  | cons c r ih =>
    simp only [numDigits, Bool.and_eq_true] at h
    intro b hb
    simp only [List.mem_cons] at hb
    rcases hb with rfl | hb
    · exact isNumChar_digit _ h.1
    · exact ih h.2 b hb

theorem numExp_chars (t : Bytes) (h : numExp t = true) : ∀ b ∈ t, isNumChar b = true := by
  cases t with
  | nil => intro b hb; cases hb
  | cons c r =>
    simp only [numExp] at h
    by_cases hc : c = 0x2D ∨ c = 0x2B
    · simp only [hc, ↓reduceIte] at h
      cases r with
      | nil => simp at h
      | cons d r' =>
        simp only [Bool.and_eq_true] at h
        intro b hb
        simp only [List.mem_cons] at hb
        rcases hb with rfl | rfl | hb
        · rcases hc with rfl | rfl <;> decide
        · exact isNumChar_digit _ h.1
        · exact numDigits_chars _ h.2 b hb
    · simp only [hc, ↓reduceIte, Bool.and_eq_true] at h
      intro b hb
      simp only [List.mem_cons] at hb
      rcases hb with rfl | hb
      · exact isNumChar_digit _ h.1
      · exact numDigits_chars _ h.2 b hb

theorem numFracRest_chars (t : Bytes) (h : numFracRest t = true) : ∀ b ∈ t, isNumChar b = true := by
  induction t with
  | nil => intro b hb; cases hb
  | cons c r ih =>
    simp only [numFracRest] at h
    intro b hb
    simp only [List.mem_cons] at hb
    by_cases hd : isDigit c = true
    · simp only [hd, ↓reduceIte] at h
      rcases hb with rfl | hb
      · exact isNumChar_digit _ hd
      · exact ih h b hb
    · simp only [hd, Bool.false_eq_true, ↓reduceIte] at h
      by_cases he : c = 0x65 ∨ c = 0x45
      · simp only [he, ↓reduceIte] at h
        rcases hb with rfl | hb
        · rcases he with rfl | rfl <;> decide
        · exact numExp_chars _ h b hb
      · simp [he] at h

theorem numAfterInt_chars (t : Bytes) (h : numAfterInt t = true) : ∀ b ∈ t, isNumChar b = true := by
  cases t with
  | nil => intro b hb; cases hb
  | cons c r =>
    simp only [numAfterInt] at h
    intro b hb
    simp only [List.mem_cons] at hb
    by_cases hc : c = 0x2E
    · simp only [hc, ↓reduceIte] at h
      cases r with
      | nil => simp at h
      | cons d r' =>
        simp only [Bool.and_eq_true] at h
        simp only [List.mem_cons] at hb
        rcases hb with rfl | rfl | hb
        · subst hc; decide
        · exact isNumChar_digit _ h.1
        · exact numFracRest_chars _ h.2 b hb
    · simp only [hc, ↓reduceIte] at h
      by_cases he : c = 0x65 ∨ c = 0x45
      · simp only [he, ↓reduceIte] at h
        rcases hb with rfl | hb
        · rcases he with rfl | rfl <;> decide
        · exact numExp_chars _ h b hb
      · simp [he] at h

theorem numIntRest_chars (t : Bytes) (h : numIntRest t = true) : ∀ b ∈ t, isNumChar b = true := by
  induction t with
  | nil => intro b hb; cases hb
  | cons c r ih =>
    simp only [numIntRest] at h
    by_cases hd : isDigit c = true
    · simp only [hd, ↓reduceIte] at h
      intro b hb
      simp only [List.mem_cons] at hb
      rcases hb with rfl | hb
      · exact isNumChar_digit _ hd
      · exact ih h b hb
    · simp only [hd, Bool.false_eq_true, ↓reduceIte] at h
      exact numAfterInt_chars _ h

theorem numUnsigned_chars (t : Bytes) (h : numUnsigned t = true) :
    (∀ b ∈ t, isNumChar b = true) ∧ ∃ c r, t = c :: r ∧ isDigit c = true := by
  cases t with
  | nil => simp [numUnsigned] at h
  | cons c r =>
    simp only [numUnsigned] at h
    by_cases hc : c = 0x30
    · simp only [hc, ↓reduceIte] at h
      subst hc
      refine ⟨fun b hb => ?_, _, _, rfl, by decide⟩
      simp only [List.mem_cons] at hb
      rcases hb with rfl | hb
      · decide
      · exact numAfterInt_chars _ h b hb
    · simp only [hc, ↓reduceIte, Bool.and_eq_true] at h
      refine ⟨fun b hb => ?_, _, _, rfl, h.1⟩
      simp only [List.mem_cons] at hb
      rcases hb with rfl | hb
      · exact isNumChar_digit _ h.1
      · exact numIntRest_chars _ h.2 b hb

/-- a JSON number consists of number characters and starts with `-` or a digit -/
theorem isJsonNumber_chars (t : Bytes) (h : isJsonNumber t = true) :
    (∀ b ∈ t, isNumChar b = true) ∧ ∃ c r, t = c :: r ∧ (c = 0x2D ∨ isDigit c = true) := by
  cases t with
  | nil => simp [isJsonNumber] at h
  | cons c r =>
    simp only [isJsonNumber] at h
    by_cases hc : c = 0x2D
    · simp only [hc, ↓reduceIte] at h
      subst hc
      refine ⟨fun b hb => ?_, _, _, rfl, Or.inl rfl⟩
      simp only [List.mem_cons] at hb
      rcases hb with rfl | hb
      · decide
      · exact (numUnsigned_chars _ h).1 b hb
    · simp only [hc, ↓reduceIte] at h
      obtain ⟨hall, c', r', heq, hd⟩ := numUnsigned_chars _ h
      cases heq
      exact ⟨hall, _, _, rfl, Or.inr hd⟩

/-! ### values -/

mutual
  /-- nodes of a value (each value and each member of a container counts one): the fuel its text needs -/
  def sizeJ : J → Nat
    | .arr l => 1 + sizeL l
    | .obj m => 1 + sizeM m
    | .null => 1
    | .bool _ => 1
    | .num _ => 1
    | .str _ => 1
  def sizeL : JList → Nat
    | .nil => 0
    | .cons h t => 1 + sizeJ h + sizeL t
  def sizeM : JMembers → Nat
    | .nil => 0
    | .cons _ v t => 1 + sizeJ v + sizeM t
end

theorem sizeJ_pos (j : J) : 1 ≤ sizeJ j := by
  cases j <;> simp [sizeJ] <;> omega

theorem numChar_not_special (c : UInt8) (h : isNumChar c = true) :
    isWs c = false ∧ c ≠ 0x22 ∧ c ≠ 0x5B ∧ c ≠ 0x7B ∧ c ≠ 0x6E ∧ c ≠ 0x74 ∧ c ≠ 0x66 ∧ c ≠ 0x5D ∧ c ≠ 0x7D := by
  refine ⟨?_, ?_, ?_, ?_, ?_, ?_, ?_, ?_, ?_⟩
  · cases hw : isWs c
    · rfl
    · rw [isNumChar_ws c hw] at h; cases h
  all_goals (intro heq; subst heq; revert h; decide)

/-- the text of a value starts with a character that is neither white space nor a closing bracket -/
theorem printJ_head (st : Style) (d : Nat) (j : J) (hok : j.numbersOk = true) :
    ∃ c tl, printJ st d j = c :: tl ∧ isWs c = false ∧ c ≠ 0x5D ∧ c ≠ 0x7D := by
  cases j with
  | null => exact ⟨0x6E, [0x75, 0x6C, 0x6C], by simp [printJ]; rfl, by decide, by decide, by decide⟩
  | bool b =>
    cases b
    · exact ⟨0x66, [0x61, 0x6C, 0x73, 0x65], by simp [printJ]; rfl, by decide, by decide, by decide⟩
    · exact ⟨0x74, [0x72, 0x75, 0x65], by simp [printJ]; rfl, by decide, by decide, by decide⟩
  | num t =>
    simp only [J.numbersOk] at hok
    obtain ⟨hall, c, r, heq, _⟩ := isJsonNumber_chars t hok
    have hc := numChar_not_special c (hall c (by simp [heq]))
    exact ⟨c, r, by simp [printJ, heq], hc.1, hc.2.2.2.2.2.2.2.1, hc.2.2.2.2.2.2.2.2⟩
  | str s => exact ⟨0x22, s.flatMap jsonEscapeByte ++ [0x22], by simp [printJ, jsonString], by decide, by decide, by decide⟩
  | arr l => exact ⟨0x5B, printItems st d true l ++ [0x5D], by simp [printJ], by decide, by decide, by decide⟩
  | obj m => exact ⟨0x7B, printMembers st d true m ++ [0x7D], by simp [printJ], by decide, by decide, by decide⟩

/-- how `readJ` starts: white space is skipped, the first other character decides -/
theorem readJ_start (f : Nat) (ws : Bytes) (c : UInt8) (r : Bytes) (hws : ∀ b ∈ ws, isWs b = true) :
    readJ (f + 1) (ws ++ c :: r) = readJ (f + 1) (c :: r) := by
  simp only [readJ, skipWs_append_ws _ _ hws]

theorem readJ_null (f : Nat) (rest : Bytes) : readJ (f + 1) (0x6E :: 0x75 :: 0x6C :: 0x6C :: rest) = some (.null, rest) := by
  simp [readJ, skipWs, isWs]

theorem readJ_true (f : Nat) (rest : Bytes) : readJ (f + 1) (0x74 :: 0x72 :: 0x75 :: 0x65 :: rest) = some (.bool true, rest) := by
  simp [readJ, skipWs, isWs]

theorem readJ_false (f : Nat) (rest : Bytes) :
    readJ (f + 1) (0x66 :: 0x61 :: 0x6C :: 0x73 :: 0x65 :: rest) = some (.bool false, rest) := by
  simp [readJ, skipWs, isWs]

theorem readJ_str (f : Nat) (r : Bytes) :
    readJ (f + 1) (0x22 :: r) = (readStrBody (r.length + 1) r).map fun p => (.str p.1, p.2) := by
  simp [readJ, skipWs, isWs]

theorem readJ_num (f : Nat) (c : UInt8) (r : Bytes) (hc : isNumChar c = true) :
    readJ (f + 1) (c :: r) =
      if isJsonNumber (spanNum (c :: r)).1 then some (.num (spanNum (c :: r)).1, (spanNum (c :: r)).2) else none := by
  obtain ⟨h0, h1, h2, h3, h4, h5, h6, _, _⟩ := numChar_not_special c hc
  simp only [readJ, skipWs, h0, Bool.false_eq_true, ↓reduceIte, h1, h2, h3, h4, h5, h6]

theorem readJ_arr (f : Nat) (r : Bytes) :
    readJ (f + 1) (0x5B :: r) =
      match skipWs r with
      | [] => none
      | c2 :: rest => if c2 = 0x5D then some (.arr .nil, rest) else (readItems f r).map fun p => (.arr p.1, p.2) := by
  simp [readJ, skipWs, isWs]
  rfl

theorem readJ_obj (f : Nat) (r : Bytes) :
    readJ (f + 1) (0x7B :: r) =
      match skipWs r with
      | [] => none
      | c2 :: rest => if c2 = 0x7D then some (.obj .nil, rest) else (readMembers f r).map fun p => (.obj p.1, p.2) := by
  simp [readJ, skipWs, isWs]
  rfl

/-- the text `readItems` is given for a non-empty array: the first item and, after it, the rest and the `]` -/
def itemsText (st : Style) (d : Nat) (h : J) (t : JList) (rest : Bytes) : Bytes :=
  st.item d ++ (printJ st (d + 1) h ++ (printItems st d false t ++ 0x5D :: rest))

def membersText (st : Style) (d : Nat) (k : Bytes) (v : J) (t : JMembers) (rest : Bytes) : Bytes :=
  st.item d ++ (0x22 :: (k.flatMap jsonEscapeByte ++ 0x22 :: (0x3A :: (st.colon ++ (printJ st (d + 1) v
    ++ (printMembers st d false t ++ 0x7D :: rest))))))

theorem printItems_false_cons (st : Style) (d : Nat) (h : J) (t : JList) (rest : Bytes) :
    printItems st d false (.cons h t) ++ 0x5D :: rest = 0x2C :: itemsText st d h t rest := by
  simp [printItems, itemsText, List.append_assoc]

theorem printMembers_false_cons (st : Style) (d : Nat) (k : Bytes) (v : J) (t : JMembers) (rest : Bytes) :
    printMembers st d false (.cons k v t) ++ 0x7D :: rest = 0x2C :: membersText st d k v t rest := by
  simp [printMembers, membersText, jsonString, List.append_assoc]

theorem printJ_arr_cons (st : Style) (d : Nat) (h : J) (t : JList) (rest : Bytes) :
    printJ st d (.arr (.cons h t)) ++ rest = 0x5B :: itemsText st d h t rest := by
  simp [printJ, printItems, itemsText, List.append_assoc]

theorem printJ_obj_cons (st : Style) (d : Nat) (k : Bytes) (v : J) (t : JMembers) (rest : Bytes) :
    printJ st d (.obj (.cons k v t)) ++ rest = 0x7B :: membersText st d k v t rest := by
  simp [printJ, printMembers, membersText, jsonString, List.append_assoc]

/-- what follows an item inside an array cannot continue a number, and after white space it starts with `]` or `,` -/
theorem items_tail_delim (st : Style) (hst : st.Ws) (d : Nat) (t : JList) (rest : Bytes) :
    Delim (printItems st d false t ++ 0x5D :: rest) := by
  cases t with
  | nil =>
    simp only [printItems, Bool.false_eq_true, ↓reduceIte]
    exact Delim.ws_append _ _ (hst.close d) (Delim.cons _ (by decide))
  | cons h t => rw [printItems_false_cons]; exact Delim.cons _ (by decide)

theorem members_tail_delim (st : Style) (hst : st.Ws) (d : Nat) (t : JMembers) (rest : Bytes) :
    Delim (printMembers st d false t ++ 0x7D :: rest) := by
  cases t with
  | nil =>
    simp only [printMembers, Bool.false_eq_true, ↓reduceIte]
    exact Delim.ws_append _ _ (hst.close d) (Delim.cons _ (by decide))
  | cons k v t => rw [printMembers_false_cons]; exact Delim.cons _ (by decide)

mutual
  /-- THE READER INVERTS THE PRINTER: the text of a value, after any white space and before anything that cannot
  continue a number, reads back as that value and leaves what follows -/
  theorem readJ_print (st : Style) (hst : st.Ws) : ∀ (j : J), j.numbersOk = true → ∀ (d f : Nat) (ws rest : Bytes),
      (∀ b ∈ ws, isWs b = true) → sizeJ j ≤ f → Delim rest → readJ f (ws ++ (printJ st d j ++ rest)) = some (j, rest)
    | .null, _, d, f, ws, rest, hws, hf, _ => by
      obtain ⟨f, rfl⟩ : ∃ f', f = f' + 1 := ⟨f - 1, by simp only [sizeJ] at hf; omega⟩
      have : printJ st d .null ++ rest = 0x6E :: 0x75 :: 0x6C :: 0x6C :: rest := by simp [printJ]; rfl
      rw [this, readJ_start _ _ _ _ hws, readJ_null]
    | .bool true, _, d, f, ws, rest, hws, hf, _ => by
      obtain ⟨f, rfl⟩ : ∃ f', f = f' + 1 := ⟨f - 1, by simp only [sizeJ] at hf; omega⟩
      have : printJ st d (.bool true) ++ rest = 0x74 :: 0x72 :: 0x75 :: 0x65 :: rest := by simp [printJ]; rfl
      rw [this, readJ_start _ _ _ _ hws, readJ_true]
    | .bool false, _, d, f, ws, rest, hws, hf, _ => by
      obtain ⟨f, rfl⟩ : ∃ f', f = f' + 1 := ⟨f - 1, by simp only [sizeJ] at hf; omega⟩
      have : printJ st d (.bool false) ++ rest = 0x66 :: 0x61 :: 0x6C :: 0x73 :: 0x65 :: rest := by simp [printJ]; rfl
      rw [this, readJ_start _ _ _ _ hws, readJ_false]
    | .num t, hok, d, f, ws, rest, hws, hf, hrest => by
      obtain ⟨f, rfl⟩ : ∃ f', f = f' + 1 := ⟨f - 1, by simp only [sizeJ] at hf; omega⟩
      simp only [J.numbersOk] at hok
      obtain ⟨hall, c, r, heq, _⟩ := isJsonNumber_chars t hok
      have hspan := spanNum_append t rest hall hrest
      have hc : isNumChar c = true := hall c (by simp [heq])
      have htext : printJ st d (.num t) ++ rest = c :: (r ++ rest) := by simp [printJ, heq]
      rw [htext, readJ_start _ _ _ _ hws, readJ_num _ _ _ hc]
      have : c :: (r ++ rest) = t ++ rest := by simp [heq]
      rw [this, hspan]
      simp only [hok, ↓reduceIte]
    | .str s, _, d, f, ws, rest, hws, hf, _ => by
      obtain ⟨f, rfl⟩ : ∃ f', f = f' + 1 := ⟨f - 1, by simp only [sizeJ] at hf; omega⟩
      have htext : printJ st d (.str s) ++ rest = 0x22 :: (s.flatMap jsonEscapeByte ++ 0x22 :: rest) := by
        simp [printJ, jsonString, List.append_assoc]
      rw [htext, readJ_start _ _ _ _ hws, readJ_str, readStrBody_string]
      rfl
    | .arr .nil, _, d, f, ws, rest, hws, hf, _ => by
      obtain ⟨f, rfl⟩ : ∃ f', f = f' + 1 := ⟨f - 1, by simp only [sizeJ] at hf; omega⟩
      have htext : printJ st d (.arr .nil) ++ rest = 0x5B :: 0x5D :: rest := by simp [printJ, printItems]
      rw [htext, readJ_start _ _ _ _ hws, readJ_arr]
      simp [skipWs, isWs]
    | .arr (.cons h t), hok, d, f, ws, rest, hws, hf, _ => by
      obtain ⟨f, rfl⟩ : ∃ f', f = f' + 1 := ⟨f - 1, by simp only [sizeJ] at hf; omega⟩
      simp only [J.numbersOk] at hok
      have hokh : h.numbersOk = true := by simp only [JList.numbersOk, Bool.and_eq_true] at hok; exact hok.1
      rw [printJ_arr_cons, readJ_start _ _ _ _ hws, readJ_arr]
      obtain ⟨c, tl, hhead, hcws, hc5d, _⟩ := printJ_head st (d + 1) h hokh
      have hskip : skipWs (itemsText st d h t rest) = c :: (tl ++ (printItems st d false t ++ 0x5D :: rest)) := by
        unfold itemsText
        rw [skipWs_append_ws _ _ (hst.item d), hhead]
        exact skipWs_cons_of_not _ _ hcws
      rw [hskip]
      simp only [hc5d, ↓reduceIte]
      have := readItems_print st hst (.cons h t) hok h t rfl d f rest (by simp only [sizeJ] at hf; omega)
      unfold itemsText at this ⊢
      rw [this]
      rfl
    | .obj .nil, _, d, f, ws, rest, hws, hf, _ => by
      obtain ⟨f, rfl⟩ : ∃ f', f = f' + 1 := ⟨f - 1, by simp only [sizeJ] at hf; omega⟩
      have htext : printJ st d (.obj .nil) ++ rest = 0x7B :: 0x7D :: rest := by simp [printJ, printMembers]
      rw [htext, readJ_start _ _ _ _ hws, readJ_obj]
      simp [skipWs, isWs]
    | .obj (.cons k v t), hok, d, f, ws, rest, hws, hf, _ => by
      obtain ⟨f, rfl⟩ : ∃ f', f = f' + 1 := ⟨f - 1, by simp only [sizeJ] at hf; omega⟩
      simp only [J.numbersOk] at hok
      rw [printJ_obj_cons, readJ_start _ _ _ _ hws, readJ_obj]
      have hskip : skipWs (membersText st d k v t rest) = 0x22 :: (k.flatMap jsonEscapeByte ++ 0x22 :: (0x3A :: (st.colon
          ++ (printJ st (d + 1) v ++ (printMembers st d false t ++ 0x7D :: rest))))) := by
        unfold membersText
        rw [skipWs_append_ws _ _ (hst.item d)]
        exact skipWs_cons_of_not _ _ (by decide)
      rw [hskip]
      simp only [show ((0x22 : UInt8) = 0x7D) = False by decide, ↓reduceIte]
      have := readMembers_print st hst (.cons k v t) hok k v t rfl d f rest (by simp only [sizeJ] at hf; omega)
      rw [this]
      rfl
  theorem readItems_print (st : Style) (hst : st.Ws) : ∀ (l : JList), l.numbersOk = true → ∀ (h : J) (t : JList), l = .cons h t →
      ∀ (d f : Nat) (rest : Bytes), sizeL l ≤ f → readItems f (itemsText st d h t rest) = some (l, rest)
    | .nil, _, h, t, heq, _, _, _, _ => by cases heq
    | .cons h t, hok, _, _, heq, d, f, rest, hf => by
      cases heq
      obtain ⟨f, rfl⟩ : ∃ f', f = f' + 1 := ⟨f - 1, by simp only [sizeL] at hf; omega⟩
      simp only [JList.numbersOk, Bool.and_eq_true] at hok
      have hh := readJ_print st hst h hok.1 (d + 1) f (st.item d) (printItems st d false t ++ 0x5D :: rest) (hst.item d)
        (by simp only [sizeL] at hf; omega) (items_tail_delim st hst d t rest)
      unfold itemsText
      simp only [readItems, hh]
      cases t with
      | nil =>
        have : skipWs (printItems st d false .nil ++ 0x5D :: rest) = 0x5D :: rest := by
          simp only [printItems, Bool.false_eq_true, ↓reduceIte]
          rw [skipWs_append_ws _ _ (hst.close d)]
          exact skipWs_cons_of_not _ _ (by decide)
        rw [this]
        simp
      | cons h2 t2 =>
        rw [printItems_false_cons, skipWs_cons_of_not _ _ (by decide)]
        simp only [show ((0x2C : UInt8) = 0x5D) = False by decide, ↓reduceIte]
        rw [readItems_print st hst (.cons h2 t2) hok.2 h2 t2 rfl d f rest (by simp only [sizeL] at hf ⊢; omega)]
        rfl
  theorem readMembers_print (st : Style) (hst : st.Ws) : ∀ (l : JMembers), l.numbersOk = true → ∀ (k : Bytes) (v : J) (t : JMembers),
      l = .cons k v t → ∀ (d f : Nat) (rest : Bytes), sizeM l ≤ f → readMembers f (membersText st d k v t rest) = some (l, rest)
    | .nil, _, k, v, t, heq, _, _, _, _ => by cases heq
    | .cons k v t, hok, _, _, _, heq, d, f, rest, hf => by
      cases heq
      obtain ⟨f, rfl⟩ : ∃ f', f = f' + 1 := ⟨f - 1, by simp only [sizeM] at hf; omega⟩
      simp only [JMembers.numbersOk, Bool.and_eq_true] at hok
      have hv := readJ_print st hst v hok.1 (d + 1) f st.colon (printMembers st d false t ++ 0x7D :: rest) hst.colon
        (by simp only [sizeM] at hf; omega) (members_tail_delim st hst d t rest)
      unfold membersText
      simp only [readMembers]
      rw [skipWs_append_ws _ _ (hst.item d), skipWs_cons_of_not _ _ (by decide)]
      simp only [↓reduceIte, readStrBody_string]
      rw [skipWs_cons_of_not _ _ (by decide)]
      simp only [↓reduceIte, hv]
      cases t with
      | nil =>
        have : skipWs (printMembers st d false .nil ++ 0x7D :: rest) = 0x7D :: rest := by
          simp only [printMembers, Bool.false_eq_true, ↓reduceIte]
          rw [skipWs_append_ws _ _ (hst.close d)]
          exact skipWs_cons_of_not _ _ (by decide)
        rw [this]
        simp
      | cons k2 v2 t2 =>
        rw [printMembers_false_cons, skipWs_cons_of_not _ _ (by decide)]
        simp only [show ((0x2C : UInt8) = 0x7D) = False by decide, ↓reduceIte]
        rw [readMembers_print st hst (.cons k2 v2 t2) hok.2 k2 v2 t2 rfl d f rest (by simp only [sizeM] at hf ⊢; omega)]
        rfl
end

/-! ### a value has no more nodes than its text has bytes -/

mutual
  theorem sizeJ_le_print (st : Style) : ∀ (j : J), j.numbersOk = true → ∀ d, sizeJ j ≤ (printJ st d j).length
    | .null, _, d => by simp [sizeJ, printJ, asciiBytes]
    | .bool true, _, d => by simp [sizeJ, printJ, asciiBytes]
    | .bool false, _, d => by simp [sizeJ, printJ, asciiBytes]
    | .num t, hok, d => by
      simp only [J.numbersOk] at hok
      obtain ⟨_, c, r, heq, _⟩ := isJsonNumber_chars t hok
      simp [sizeJ, printJ, heq]
    | .str s, _, d => by simp [sizeJ, printJ, jsonString]
    | .arr l, hok, d => by
      simp only [J.numbersOk] at hok
      have := sizeL_le_print st l hok true d
      simp only [sizeJ, printJ, List.length_append, List.length_cons, List.length_nil]
      simp only [↓reduceIte] at this
      omega
    | .obj m, hok, d => by
      simp only [J.numbersOk] at hok
      have := sizeM_le_print st m hok true d
      simp only [sizeJ, printJ, List.length_append, List.length_cons, List.length_nil]
      simp only [↓reduceIte] at this
      omega
  theorem sizeL_le_print (st : Style) : ∀ (l : JList), l.numbersOk = true → ∀ (first : Bool) d,
      sizeL l ≤ (printItems st d first l).length + (if first then 1 else 0)
    | .nil, _, first, d => by simp [sizeL]
    | .cons h t, hok, first, d => by
      simp only [JList.numbersOk, Bool.and_eq_true] at hok
      have h1 := sizeJ_le_print st h hok.1 (d + 1)
      have h2 := sizeL_le_print st t hok.2 false d
      simp only [Bool.false_eq_true, ↓reduceIte, Nat.add_zero] at h2
      simp only [sizeL, printItems, List.length_append]
      cases first <;> simp <;> omega
  theorem sizeM_le_print (st : Style) : ∀ (l : JMembers), l.numbersOk = true → ∀ (first : Bool) d,
      sizeM l ≤ (printMembers st d first l).length + (if first then 1 else 0)
    | .nil, _, first, d => by simp [sizeM]
    | .cons k v t, hok, first, d => by
      simp only [JMembers.numbersOk, Bool.and_eq_true] at hok
      have h1 := sizeJ_le_print st v hok.1 (d + 1)
      have h2 := sizeM_le_print st t hok.2 false d
      simp only [Bool.false_eq_true, ↓reduceIte, Nat.add_zero] at h2
      simp only [sizeM, printMembers, List.length_append]
      cases first <;> simp <;> omega
end

/-- a whole document reads back as the value it was printed from, in every white-space-only style -/
theorem readJson_print (st : Style) (hst : st.Ws) (j : J) (hok : j.numbersOk = true) (d : Nat) :
    readJson (printJ st d j) = some j := by
  have h := readJ_print st hst j hok d ((printJ st d j).length + 1) [] [] (fun b hb => by cases hb)
    (by have := sizeJ_le_print st j hok d; omega) Delim.nil
  simp only [List.nil_append, List.append_nil] at h
  simp [readJson, h, skipWs]

end Gd.Cli
