import GdVerif.Lemmas.Gs1
/-
  GameSpy 1, part 2: what well-formedness of a SPEC state says about the variables sent
  (`allPairs`): admissible text, distinct keys, no `final` / `queryid`; and the parts they are cut
  into (`PartsOk`).
-/
namespace Gd.Gs1
open Gd Gd.Gs Gd.Gs1.Spec

/-! ### tame text: ASCII without backslash and NUL -/

def Tame (t : Bytes) : Prop := ∀ b ∈ t, b.toNat < 128 ∧ b.toNat ≠ 92 ∧ b.toNat ≠ 0

instance (t : Bytes) : Decidable (Tame t) := by unfold Tame; infer_instance

theorem Tame.okText {t : Bytes} (h : Tame t) : OkText t := by
  refine ⟨?_, ?_, validUtf8_of_ascii t (fun b hb => (h b hb).1)⟩
  · intro hm; exact (h _ hm).2.1 rfl
  · intro hm; exact (h _ hm).2.2 rfl

theorem Tame.append {a b : Bytes} (ha : Tame a) (hb : Tame b) : Tame (a ++ b) := by
  intro x hx
  rcases List.mem_append.mp hx with h | h
  · exact ha x h
  · exact hb x h

theorem tame_dec (n : Nat) : Tame (dec n) := fun b hb => by have := dec_mem_digit n b hb; omega

theorem tame_decInt (i : Int) : Tame (decInt i) := by
  unfold decInt
  split
  · intro b hb
    rcases List.mem_cons.mp hb with rfl | h
    · decide
    · exact tame_dec _ b h
  · exact tame_dec _

theorem tame_padding (y : Style) : Tame (padding y) := by
  intro b hb
  simp only [padding, List.mem_replicate] at hb
  rw [hb.2]; decide

theorem tame_boolText (u b : Bool) : Tame (boolText u b) := by
  cases u <;> cases b <;> decide +kernel

theorem tame_pwText (s : Nat) (b : Bool) : Tame (pwText s b) := by
  unfold pwText
  split
  · cases b <;> decide +kernel
  · exact tame_boolText _ _

/-! ### generic facts about lists of pairs -/

theorem OkPairs.nil : OkPairs [] := fun _ h => by cases h

theorem OkPairs.cons {p : Bytes × Bytes} {r : List (Bytes × Bytes)} (hk : OkText p.1) (hv : OkText p.2)
    (hr : OkPairs r) : OkPairs (p :: r) := by
  intro q hq
  rcases List.mem_cons.mp hq with rfl | h
  · exact ⟨hk, hv⟩
  · exact hr q h

theorem OkPairs.append {a b : List (Bytes × Bytes)} (ha : OkPairs a) (hb : OkPairs b) : OkPairs (a ++ b) := by
  intro q hq
  rcases List.mem_append.mp hq with h | h
  · exact ha q h
  · exact hb q h

theorem okPairs_optPair {α : Type} (k : Bytes) (f : α → Bytes) (o : Option α) (hk : OkText k)
    (hv : ∀ a, o = some a → OkText (f a)) : OkPairs (optPair k f o) := by
  cases o with
  | none => exact OkPairs.nil
  | some a => exact OkPairs.cons hk (hv a rfl) OkPairs.nil

theorem keys_optPair {α : Type} (k : Bytes) (f : α → Bytes) (o : Option α) :
    (optPair k f o).map (·.1) = if o.isSome then [k] else [] := by
  cases o <;> rfl

theorem mem_optPair {α : Type} {k : Bytes} {f : α → Bytes} {o : Option α} {q : Bytes × Bytes}
    (h : q ∈ optPair k f o) : ∃ a, o = some a ∧ q = (k, f a) := by
  cases o with
  | none => cases h
  | some a =>
    simp only [optPair, List.mem_singleton] at h
    exact ⟨a, rfl, h⟩

theorem distinct_iff_keys_nodup (m : List (Bytes × Bytes)) : Distinct m ↔ (m.map (·.1)).Nodup := by
  unfold Distinct List.Nodup
  rw [List.pairwise_map]

theorem distinctKeys_iff (m : List (Bytes × Bytes)) : distinctKeys m = true ↔ Distinct m := by
  induction m with
  | nil => simp [distinctKeys, Distinct]
  | cons p r ih =>
    obtain ⟨k, v⟩ := p
    simp only [distinctKeys, Bool.and_eq_true, Bool.not_eq_true', List.any_eq_false, beq_iff_eq, ih, Distinct,
      List.pairwise_cons]
    constructor
    · rintro ⟨h1, h2⟩
      exact ⟨fun q hq e => h1 q hq e.symm, h2⟩
    · rintro ⟨h1, h2⟩
      exact ⟨fun q hq e => h1 q hq e.symm, h2⟩

theorem sublist_ite_singleton {α : Type} (c : Bool) (k : α) : (if c then [k] else []).Sublist [k] := by
  cases c <;> simp

/-! ### the server variables -/

/-- every key `serverPairs` can use, in the order used -/
def serverKeyList (short : Bool) : List Bytes :=
  [bs "hostname", bs "mapname", bs "gametype", bs "gamever", bs "maxplayers", bs "password", bs "maptitle",
   bs "AdminEMail", bs (if short then "admin" else "AdminName"), bs "minplayers", bs "tournament"]

theorem serverKeyList_facts (short : Bool) :
    (serverKeyList short).Nodup ∧ (∀ k ∈ serverKeyList short, OkText k ∧ k ∈ typedKeys ∧ playerField k = none) := by
  have hd : ∀ k : Bytes, okText k = true → OkText k := fun k h => (okText_iff k).mp h
  cases short
  · refine ⟨by decide +kernel, ?_⟩
    intro k hk
    simp only [serverKeyList, List.mem_cons, List.not_mem_nil, or_false] at hk
    rcases hk with rfl | rfl | rfl | rfl | rfl | rfl | rfl | rfl | rfl | rfl | rfl <;>
      exact ⟨hd _ (by decide +kernel), by decide +kernel, by decide +kernel⟩
  · refine ⟨by decide +kernel, ?_⟩
    intro k hk
    simp only [serverKeyList, List.mem_cons, List.not_mem_nil, or_false] at hk
    rcases hk with rfl | rfl | rfl | rfl | rfl | rfl | rfl | rfl | rfl | rfl | rfl <;>
      exact ⟨hd _ (by decide +kernel), by decide +kernel, by decide +kernel⟩

theorem serverPairs_keys_sublist (y : Style) (st : State) :
    ((serverPairs y st).map (·.1)).Sublist (serverKeyList y.adminShort) := by
  simp only [serverPairs, List.map_append, List.map_cons, List.map_nil, keys_optPair, serverKeyList]
  show List.Sublist _ ([bs "hostname", bs "mapname", bs "gametype", bs "gamever", bs "maxplayers", bs "password"] ++
    [bs "maptitle"] ++ [bs "AdminEMail"] ++ [bs (if y.adminShort then "admin" else "AdminName")] ++ [bs "minplayers"] ++
    [bs "tournament"])
  refine List.Sublist.append (List.Sublist.append (List.Sublist.append (List.Sublist.append (List.Sublist.append
    (List.Sublist.refl _) ?_) ?_) ?_) ?_) ?_ <;> exact sublist_ite_singleton _ _

theorem serverPairs_key_mem (y : Style) (st : State) {p : Bytes × Bytes} (hp : p ∈ serverPairs y st) :
    p.1 ∈ serverKeyList y.adminShort :=
  (serverPairs_keys_sublist y st).subset (List.mem_map.mpr ⟨p, hp, rfl⟩)

theorem distinct_serverPairs (y : Style) (st : State) : Distinct (serverPairs y st) := by
  rw [distinct_iff_keys_nodup]
  exact List.Pairwise.sublist (serverPairs_keys_sublist y st) (serverKeyList_facts y.adminShort).1

/-- the part of `wf` about the server's own values -/
structure WfServer (y : Style) (st : State) : Prop where
  name : OkText st.name
  map : OkText st.map
  mapTitle : ∀ v, st.mapTitle = some v → OkText v
  adminContact : ∀ v, st.adminContact = some v → OkText v
  adminName : ∀ v, st.adminName = some v → OkText v
  gameMode : OkText st.gameMode
  gameVersion : OkText st.gameVersion
  maxp : st.playersMaximum < 2 ^ 32
  minp : ∀ v, st.playersMinimum = some v → v < 2 ^ 8

theorem okPairs_serverPairs (y : Style) (st : State) (h : WfServer y st) : OkPairs (serverPairs y st) := by
  have hk : ∀ k ∈ serverKeyList y.adminShort, OkText k := fun k hk => ((serverKeyList_facts y.adminShort).2 k hk).1
  have hkey : ∀ s : String, bs s ∈ serverKeyList y.adminShort → OkText (bs s) := fun s hs => hk _ hs
  unfold serverPairs
  refine OkPairs.append (OkPairs.append (OkPairs.append (OkPairs.append (OkPairs.append ?_ ?_) ?_) ?_) ?_) ?_
  · refine OkPairs.cons (hkey _ (by simp [serverKeyList])) h.name <|
      OkPairs.cons (hkey _ (by simp [serverKeyList])) h.map <|
      OkPairs.cons (hkey _ (by simp [serverKeyList])) h.gameMode <|
      OkPairs.cons (hkey _ (by simp [serverKeyList])) h.gameVersion <|
      OkPairs.cons (hkey _ (by simp [serverKeyList])) (tame_dec _).okText <|
      OkPairs.cons (hkey _ (by simp [serverKeyList])) (tame_pwText _ _).okText OkPairs.nil
  · exact okPairs_optPair _ _ _ (hkey _ (by simp [serverKeyList])) h.mapTitle
  · exact okPairs_optPair _ _ _ (hkey _ (by simp [serverKeyList])) h.adminContact
  · exact okPairs_optPair _ _ _ (hkey _ (by simp [serverKeyList])) h.adminName
  · exact okPairs_optPair _ _ _ (hkey _ (by simp [serverKeyList])) (fun _ _ => (tame_dec _).okText)
  · exact okPairs_optPair _ _ _ (hkey _ (by simp [serverKeyList])) (fun _ _ => (tame_boolText _ _).okText)

/-! ### the player variables -/

/-- `kind_i` -/
def fieldKeyB (kind : Bytes) (i : Nat) : Bytes := kind ++ [95] ++ dec i

theorem fieldKey_eq (kind : String) (i : Nat) : fieldKey kind i = fieldKeyB (bs kind) i := rfl

/-- the kinds of field `playerPairs` can use, in the order used -/
def kindList (long : Bool) : List Bytes :=
  [bs (if long then "playername" else "player"), bs "frags", bs "ping", bs "team", bs "mesh", bs "skin", bs "face",
   bs "ngsecret", bs "deaths", bs "health"]

theorem kindList_facts (long : Bool) :
    (kindList long).Nodup ∧ ∀ k ∈ kindList long, Tame k ∧ (95 : UInt8) ∉ k ∧ playerKinds.contains k = true := by
  cases long
  · refine ⟨by decide +kernel, ?_⟩
    intro k hk
    simp only [kindList, List.mem_cons, List.not_mem_nil, or_false] at hk
    rcases hk with rfl | rfl | rfl | rfl | rfl | rfl | rfl | rfl | rfl | rfl <;>
      exact ⟨by decide +kernel, by decide +kernel, by decide +kernel⟩
  · refine ⟨by decide +kernel, ?_⟩
    intro k hk
    simp only [kindList, List.mem_cons, List.not_mem_nil, or_false] at hk
    rcases hk with rfl | rfl | rfl | rfl | rfl | rfl | rfl | rfl | rfl | rfl <;>
      exact ⟨by decide +kernel, by decide +kernel, by decide +kernel⟩

/-- a player-field key is recognised as one -/
theorem playerField_fieldKeyB (kind : Bytes) (i : Nat) (h95 : (95 : UInt8) ∉ kind)
    (hk : playerKinds.contains kind = true) (hi : i < 2 ^ 64) : playerField (fieldKeyB kind i) = some (kind, i) := by
  unfold playerField fieldKeyB
  have hs : splitOn 95 (kind ++ [95] ++ dec i) = [kind, dec i] := by
    rw [List.append_assoc, List.singleton_append, splitOn_append_delim 95 _ _ h95,
      splitOn_no_delim 95 _ (dec_not_mem i 95 (by decide))]
  rw [hs]
  simp only [parseUnsigned_dec 64 i hi, hk, ↓reduceIte]

theorem playerPairs_keys (y : Style) (i : Nat) (p : Player) :
    ((playerPairs y i p).map (·.1)).Sublist ((kindList y.nameLong).map (fun k => fieldKeyB k i)) := by
  simp only [playerPairs, List.map_append, List.map_cons, List.map_nil, keys_optPair, kindList, fieldKey_eq]
  show List.Sublist _ ([fieldKeyB (bs (if y.nameLong then "playername" else "player")) i, fieldKeyB (bs "frags") i,
    fieldKeyB (bs "ping") i] ++ [fieldKeyB (bs "team") i] ++ [fieldKeyB (bs "mesh") i] ++ [fieldKeyB (bs "skin") i] ++
    [fieldKeyB (bs "face") i] ++ [fieldKeyB (bs "ngsecret") i] ++ [fieldKeyB (bs "deaths") i] ++ [fieldKeyB (bs "health") i])
  refine List.Sublist.append (List.Sublist.append (List.Sublist.append (List.Sublist.append (List.Sublist.append
    (List.Sublist.append (List.Sublist.append (List.Sublist.refl _) ?_) ?_) ?_) ?_) ?_) ?_) ?_ <;>
    exact sublist_ite_singleton _ _

/-- every key of player `i` is `kind_i` for one of the known kinds -/
theorem playerPairs_key (y : Style) (i : Nat) (p : Player) {q : Bytes × Bytes} (hq : q ∈ playerPairs y i p) :
    ∃ k ∈ kindList y.nameLong, q.1 = fieldKeyB k i := by
  have := (playerPairs_keys y i p).subset (List.mem_map.mpr ⟨q, hq, rfl⟩)
  obtain ⟨k, hk, e⟩ := List.mem_map.mp this
  exact ⟨k, hk, e.symm⟩

theorem fieldKeyB_inj_kind {k k' : Bytes} {i : Nat} (h : fieldKeyB k i = fieldKeyB k' i) : k = k' := by
  unfold fieldKeyB at h
  rw [List.append_assoc, List.append_assoc] at h
  exact List.append_cancel_right h

theorem distinct_playerPairs (y : Style) (i : Nat) (p : Player) : Distinct (playerPairs y i p) := by
  rw [distinct_iff_keys_nodup]
  refine List.Pairwise.sublist (playerPairs_keys y i p) ?_
  rw [List.pairwise_map]
  exact List.Pairwise.imp (fun hne e => hne (fieldKeyB_inj_kind e)) (kindList_facts y.nameLong).1

theorem playersPairsFrom_key (y : Style) : ∀ (ps : List Player) (j : Nat) {q : Bytes × Bytes},
    q ∈ playersPairsFrom y j ps → ∃ k ∈ kindList y.nameLong, ∃ n, j ≤ n ∧ n < j + ps.length ∧ q.1 = fieldKeyB k n := by
  intro ps
  induction ps with
  | nil => intro j q hq; cases hq
  | cons p r ih =>
    intro j q hq
    simp only [playersPairsFrom, List.mem_append] at hq
    rcases hq with h | h
    · obtain ⟨k, hk, e⟩ := playerPairs_key y j p h
      exact ⟨k, hk, j, Nat.le_refl _, by simp, e⟩
    · obtain ⟨k, hk, n, h1, h2, e⟩ := ih (j + 1) h
      exact ⟨k, hk, n, by omega, by simp only [List.length_cons]; omega, e⟩

/-- the tag of a player-field key determines the key -/
theorem fieldKeyB_inj {long : Bool} {k k' : Bytes} {i i' : Nat} (hk : k ∈ kindList long) (hk' : k' ∈ kindList long)
    (hi : i < 2 ^ 64) (hi' : i' < 2 ^ 64) (h : fieldKeyB k i = fieldKeyB k' i') : k = k' ∧ i = i' := by
  have f1 := (kindList_facts long).2 k hk
  have f2 := (kindList_facts long).2 k' hk'
  have e1 := playerField_fieldKeyB k i f1.2.1 f1.2.2 hi
  have e2 := playerField_fieldKeyB k' i' f2.2.1 f2.2.2 hi'
  rw [h, e2] at e1
  simp only [Option.some.injEq, Prod.mk.injEq] at e1
  exact ⟨e1.1.symm, e1.2.symm⟩

theorem distinct_playersPairsFrom (y : Style) : ∀ (ps : List Player) (j : Nat), j + ps.length < 2 ^ 64 →
    Distinct (playersPairsFrom y j ps) := by
  intro ps
  induction ps with
  | nil => intro j _; exact List.Pairwise.nil
  | cons p r ih =>
    intro j hj
    simp only [List.length_cons] at hj
    simp only [playersPairsFrom]
    refine List.pairwise_append.mpr ⟨distinct_playerPairs y j p, ih (j + 1) (by omega), ?_⟩
    intro a ha b hb hab
    obtain ⟨k, hk, e⟩ := playerPairs_key y j p ha
    obtain ⟨k', hk', n, h1, h2, e'⟩ := playersPairsFrom_key y r (j + 1) hb
    have := fieldKeyB_inj hk hk' (by omega) (by omega) (e.symm.trans (hab.trans e'))
    omega

def WfPlayer (p : Player) : Prop :=
  OkText p.name ∧ (∀ v, p.face = some v → OkText v) ∧ (∀ v, p.skin = some v → OkText v) ∧ (∀ v, p.mesh = some v → OkText v)

theorem tame_fieldKeyB {k : Bytes} (hk : Tame k) (i : Nat) : Tame (fieldKeyB k i) :=
  (hk.append (by intro b hb; simp only [List.mem_singleton] at hb; subst hb; decide)).append (tame_dec i)

theorem okPairs_playerPairs (y : Style) (i : Nat) (p : Player) (h : WfPlayer p) : OkPairs (playerPairs y i p) := by
  have hkey : ∀ k ∈ kindList y.nameLong, OkText (fieldKeyB k i) := fun k hk =>
    (tame_fieldKeyB ((kindList_facts y.nameLong).2 k hk).1 i).okText
  have hkey' : ∀ s : String, bs s ∈ kindList y.nameLong → OkText (fieldKey s i) := fun s hs => hkey _ hs
  unfold playerPairs
  refine OkPairs.append (OkPairs.append (OkPairs.append (OkPairs.append (OkPairs.append (OkPairs.append
    (OkPairs.append ?_ ?_) ?_) ?_) ?_) ?_) ?_) ?_
  · refine OkPairs.cons (hkey' _ (by simp [kindList])) h.1 <|
      OkPairs.cons (hkey' _ (by simp [kindList])) ((tame_padding y).append (tame_decInt _)).okText <|
      OkPairs.cons (hkey' _ (by simp [kindList])) ((tame_padding y).append (tame_dec _)).okText OkPairs.nil
  · exact okPairs_optPair _ _ _ (hkey' _ (by simp [kindList])) (fun _ _ => ((tame_padding y).append (tame_dec _)).okText)
  · exact okPairs_optPair _ _ _ (hkey' _ (by simp [kindList])) h.2.2.2
  · exact okPairs_optPair _ _ _ (hkey' _ (by simp [kindList])) h.2.2.1
  · exact okPairs_optPair _ _ _ (hkey' _ (by simp [kindList])) h.2.1
  · exact okPairs_optPair _ _ _ (hkey' _ (by simp [kindList])) (fun _ _ => (tame_boolText _ _).okText)
  · exact okPairs_optPair _ _ _ (hkey' _ (by simp [kindList])) (fun _ _ => ((tame_padding y).append (tame_dec _)).okText)
  · exact okPairs_optPair _ _ _ (hkey' _ (by simp [kindList])) (fun _ _ => ((tame_padding y).append (tame_dec _)).okText)

theorem okPairs_playersPairsFrom (y : Style) : ∀ (ps : List Player) (j : Nat), (∀ p ∈ ps, WfPlayer p) →
    OkPairs (playersPairsFrom y j ps) := by
  intro ps
  induction ps with
  | nil => intro j _; exact OkPairs.nil
  | cons p r ih =>
    intro j h
    simp only [playersPairsFrom]
    exact OkPairs.append (okPairs_playerPairs y j p (h p (by simp))) (ih (j + 1) (fun q hq => h q (by simp [hq])))

/-! ### all the variables -/

/-- what `wf` says, as propositions -/
structure Wf (y : Style) (st : State) : Prop where
  server : WfServer y st
  players : ∀ p ∈ st.players, WfPlayer p
  playersNum : ∀ p ∈ st.players, (∀ v, p.team = some v → v < 2 ^ 8) ∧ p.ping < 2 ^ 16 ∧ (-(2 ^ 31 : Int) ≤ p.score)
    ∧ (p.score < 2 ^ 31) ∧ (∀ v, p.deaths = some v → v < 2 ^ 32) ∧ (∀ v, p.health = some v → v < 2 ^ 32)
  extrasOk : OkPairs st.extras
  extrasKeys : ∀ e ∈ st.extras, e.1 ∉ typedKeys ∧ playerField e.1 = none
  extrasDistinct : Distinct st.extras
  qid : y.queryId < 2 ^ 64
  pw : y.pwStyle < 3
  nplayers : st.players.length < 2 ^ 16
  ncuts : y.cuts.length < 2 ^ 16
  sizes : ∀ d ∈ script y st, d.length ≤ 2048

theorem option_all_iff {α : Type} (o : Option α) (p : α → Bool) : o.all p = true ↔ ∀ v, o = some v → p v = true := by
  cases o <;> simp

theorem wf_iff (y : Style) (st : State) : wf y st = true → Wf y st := by
  intro h
  simp only [wf, Bool.and_eq_true, decide_eq_true_eq, List.all_eq_true, option_all_iff, okText_iff,
    distinctKeys_iff] at h
  obtain ⟨⟨⟨⟨⟨⟨⟨⟨⟨⟨⟨⟨⟨⟨⟨⟨h1, h2⟩, h3⟩, h4⟩, h5⟩, h6⟩, h7⟩, h8⟩, h9⟩, h10⟩, h11⟩, h12⟩, h13⟩, h14⟩, h15⟩, h16⟩, h17⟩ := h
  refine ⟨⟨h1, h2, h3, h4, h5, h6, h7, h8, h9⟩, ?_, ?_, ?_, ?_, h12, h13, h14, h15, h16, h17⟩
  · intro p hp
    have := h10 p hp
    simp only [wfPlayer, Bool.and_eq_true, decide_eq_true_eq, option_all_iff, okText_iff] at this
    obtain ⟨⟨⟨⟨⟨⟨⟨⟨⟨a1, a2⟩, a3⟩, a4⟩, a5⟩, a6⟩, a7⟩, a8⟩, a9⟩, a10⟩ := this
    exact ⟨a1, a4, a5, a6⟩
  · intro p hp
    have := h10 p hp
    simp only [wfPlayer, Bool.and_eq_true, decide_eq_true_eq, option_all_iff, okText_iff] at this
    obtain ⟨⟨⟨⟨⟨⟨⟨⟨⟨a1, a2⟩, a3⟩, a4⟩, a5⟩, a6⟩, a7⟩, a8⟩, a9⟩, a10⟩ := this
    exact ⟨a2, a3, a7, a8, a9, a10⟩
  · intro e he
    have := h11 e he
    simp only [wfExtra, Bool.and_eq_true, okText_iff] at this
    exact ⟨this.1.1.1, this.1.1.2⟩
  · intro e he
    have := h11 e he
    simp only [wfExtra, Bool.and_eq_true, Bool.not_eq_true', Option.isNone_iff_eq_none] at this
    refine ⟨?_, this.2⟩
    have h2 := this.1.2
    intro hm
    have : typedKeys.contains e.1 = true := by simpa using hm
    rw [this] at h2
    cases h2

/-- where a variable of the reply comes from -/
theorem mem_allPairs {y : Style} {st : State} {p : Bytes × Bytes} (hp : p ∈ allPairs y st) :
    p ∈ serverPairs y st ∨ p ∈ st.extras ∨ p ∈ playersPairsFrom y 0 st.players := by
  simp only [allPairs, List.mem_append] at hp
  rcases hp with (h | h) | h
  · exact Or.inl h
  · exact Or.inr (Or.inl h)
  · exact Or.inr (Or.inr h)

theorem okPairs_allPairs {y : Style} {st : State} (h : Wf y st) : OkPairs (allPairs y st) :=
  OkPairs.append (OkPairs.append (okPairs_serverPairs y st h.server) h.extrasOk)
    (okPairs_playersPairsFrom y st.players 0 h.players)

/-- what `playerField` says about each variable: only the player variables are player fields, and
their tag determines their key -/
theorem playerField_allPairs {y : Style} {st : State} (h : Wf y st) {p : Bytes × Bytes} (hp : p ∈ allPairs y st) :
    (playerField p.1 = none ∧ (p ∈ serverPairs y st ∨ p ∈ st.extras))
    ∨ (∃ k ∈ kindList y.nameLong, ∃ n, n < st.players.length ∧ p.1 = fieldKeyB k n ∧ playerField p.1 = some (k, n)
        ∧ p ∈ playersPairsFrom y 0 st.players) := by
  rcases mem_allPairs hp with hs | he | hpl
  · exact Or.inl ⟨((serverKeyList_facts y.adminShort).2 _ (serverPairs_key_mem y st hs)).2.2, Or.inl hs⟩
  · exact Or.inl ⟨(h.extrasKeys p he).2, Or.inr he⟩
  · obtain ⟨k, hk, n, _, h2, e⟩ := playersPairsFrom_key y st.players 0 hpl
    have hn : n < st.players.length := by omega
    have f := (kindList_facts y.nameLong).2 k hk
    have hnp := h.nplayers
    exact Or.inr ⟨k, hk, n, hn, e, by rw [e]; exact playerField_fieldKeyB k n f.2.1 f.2.2 (by omega), hpl⟩

theorem distinct_allPairs {y : Style} {st : State} (h : Wf y st) : Distinct (allPairs y st) := by
  have hnp := h.nplayers
  unfold allPairs
  refine List.pairwise_append.mpr ⟨List.pairwise_append.mpr ⟨distinct_serverPairs y st, h.extrasDistinct, ?_⟩,
    distinct_playersPairsFrom y st.players 0 (by omega), ?_⟩
  · intro a ha b hb hab
    have := ((serverKeyList_facts y.adminShort).2 _ (serverPairs_key_mem y st ha)).2.1
    exact (h.extrasKeys b hb).1 (hab ▸ this)
  · intro a ha b hb hab
    obtain ⟨k, hk, n, _, h2, e⟩ := playersPairsFrom_key y st.players 0 hb
    have f := (kindList_facts y.nameLong).2 k hk
    have hb' : playerField b.1 = some (k, n) := by rw [e]; exact playerField_fieldKeyB k n f.2.1 f.2.2 (by omega)
    have ha' : playerField a.1 = none := by
      rcases List.mem_append.mp ha with h1 | h1
      · exact ((serverKeyList_facts y.adminShort).2 _ (serverPairs_key_mem y st h1)).2.2
      · exact (h.extrasKeys a h1).2
    rw [hab, hb'] at ha'
    cases ha'

theorem kFinal_kQueryId_typed : kFinal ∈ typedKeys ∧ kQueryId ∈ typedKeys ∧ playerField kFinal = none
    ∧ playerField kQueryId = none ∧ (∀ short, kFinal ∉ serverKeyList short ∧ kQueryId ∉ serverKeyList short) := by
  refine ⟨by decide +kernel, by decide +kernel, by decide +kernel, by decide +kernel, ?_⟩
  intro short
  cases short <;> exact ⟨by decide +kernel, by decide +kernel⟩

theorem nofinal_allPairs {y : Style} {st : State} (h : Wf y st) :
    ∀ p ∈ allPairs y st, p.1 ≠ kFinal ∧ p.1 ≠ kQueryId := by
  obtain ⟨t1, t2, f1, f2, f3⟩ := kFinal_kQueryId_typed
  intro p hp
  rcases mem_allPairs hp with hs | he | hpl
  · have := serverPairs_key_mem y st hs
    exact ⟨fun e => (f3 y.adminShort).1 (e ▸ this), fun e => (f3 y.adminShort).2 (e ▸ this)⟩
  · have := (h.extrasKeys p he).1
    exact ⟨fun e => this (e ▸ t1), fun e => this (e ▸ t2)⟩
  · obtain ⟨k, hk, n, _, h2, e'⟩ := playersPairsFrom_key y st.players 0 hpl
    have f := (kindList_facts y.nameLong).2 k hk
    have hnp := h.nplayers
    have hpf : playerField p.1 = some (k, n) := by
      rw [e']; exact playerField_fieldKeyB k n f.2.1 f.2.2 (by omega)
    refine ⟨fun e => ?_, fun e => ?_⟩
    · rw [e, f1] at hpf; cases hpf
    · rw [e, f2] at hpf; cases hpf

/-! ### the parts -/

def numberedFrom : Nat → List (List (Bytes × Bytes)) → List NPart
  | _, [] => []
  | i, c :: cs => (i, c) :: numberedFrom (i + 1) cs

theorem numberedFrom_length (cs : List (List (Bytes × Bytes))) (i : Nat) : (numberedFrom i cs).length = cs.length := by
  induction cs generalizing i with
  | nil => rfl
  | cons c r ih => simp [numberedFrom, ih]

theorem numberedFrom_nums (cs : List (List (Bytes × Bytes))) (i : Nat) :
    (numberedFrom i cs).map (·.1) = List.range' i cs.length := by
  induction cs generalizing i with
  | nil => rfl
  | cons c r ih => simp [numberedFrom, ih, List.range'_succ]

theorem numberedFrom_mem {cs : List (List (Bytes × Bytes))} {i : Nat} {a : NPart} (h : a ∈ numberedFrom i cs) :
    a.2 ∈ cs ∧ i ≤ a.1 := by
  induction cs generalizing i with
  | nil => cases h
  | cons c r ih =>
    simp only [numberedFrom, List.mem_cons] at h
    rcases h with rfl | h
    · exact ⟨by simp, Nat.le_refl _⟩
    · have := ih h
      exact ⟨by simp [this.1], by omega⟩

theorem allOf_numberedFrom (cs : List (List (Bytes × Bytes))) (i : Nat) : allOf (numberedFrom i cs) = cs.flatten := by
  induction cs generalizing i with
  | nil => rfl
  | cons c r ih =>
    have := ih (i + 1)
    simp only [allOf] at this
    simp [numberedFrom, allOf, this]

theorem encPartsFrom_eq (y : Style) (total : Nat) (cs : List (List (Bytes × Bytes))) (i : Nat) :
    encPartsFrom y total i cs = (numberedFrom i cs).map (encN y total) := by
  induction cs generalizing i with
  | nil => rfl
  | cons c r ih => simp [encPartsFrom, numberedFrom, ih, encN]

theorem chunks_flatten {α : Type} (cuts : List Nat) (l : List α) : (chunks cuts l).flatten = l := by
  induction cuts generalizing l with
  | nil => simp [chunks]
  | cons n r ih => simp [chunks, ih]

theorem chunks_length {α : Type} (cuts : List Nat) (l : List α) : (chunks cuts l).length = cuts.length + 1 := by
  induction cuts generalizing l with
  | nil => rfl
  | cons n r ih => simp [chunks, ih]

theorem chunks_sublist {α : Type} (cuts : List Nat) (l : List α) : ∀ c ∈ chunks cuts l, c.Sublist l := by
  induction cuts generalizing l with
  | nil => intro c hc; simp only [chunks, List.mem_singleton] at hc; subst hc; exact List.Sublist.refl _
  | cons n r ih =>
    intro c hc
    simp only [chunks, List.mem_cons] at hc
    rcases hc with rfl | hc
    · exact List.take_sublist _ _
    · exact (ih _ c hc).trans (List.drop_sublist _ _)

/-- equal keys only occur inside one part -/
theorem cross_chunks (cuts : List Nat) : ∀ (l : List (Bytes × Bytes)) (i : Nat), Distinct l →
    ∀ a ∈ numberedFrom i (chunks cuts l), ∀ b ∈ numberedFrom i (chunks cuts l),
      ∀ p ∈ a.2, ∀ q ∈ b.2, p.1 = q.1 → a.1 = b.1 := by
  induction cuts with
  | nil =>
    intro l i _ a ha b hb _ _ _ _ _
    simp only [chunks, numberedFrom, List.mem_singleton] at ha hb
    rw [ha, hb]
  | cons n r ih =>
    intro l i hd a ha b hb p hp q hq hpq
    have hsplit : Distinct (l.take n ++ l.drop n) := by rw [List.take_append_drop]; exact hd
    obtain ⟨_, hdd, hx⟩ := List.pairwise_append.mp hsplit
    have hlater : ∀ c : NPart, c ∈ numberedFrom (i + 1) (chunks r (l.drop n)) → ∀ z ∈ c.2, z ∈ l.drop n :=
      fun c hc z hz => (chunks_sublist r _ c.2 (numberedFrom_mem hc).1).subset hz
    simp only [chunks, numberedFrom, List.mem_cons] at ha hb
    rcases ha with rfl | ha <;> rcases hb with rfl | hb
    · rfl
    · exact absurd hpq (hx p hp q (hlater b hb q hq))
    · exact absurd hpq.symm (hx q hq p (hlater a ha p hp))
    · exact ih (l.drop n) (i + 1) hdd a ha b hb p hp q hq hpq

/-- the numbered parts of a well-formed reply -/
def partsOf (y : Style) (st : State) : List NPart := numberedFrom 1 (chunks y.cuts (allPairs y st))

theorem partsOf_length (y : Style) (st : State) : (partsOf y st).length = y.cuts.length + 1 := by
  simp [partsOf, numberedFrom_length, chunks_length]

theorem partsOf_ne_nil (y : Style) (st : State) : partsOf y st ≠ [] := by
  intro h
  have := partsOf_length y st
  rw [h] at this
  simp at this

theorem allOf_partsOf (y : Style) (st : State) : allOf (partsOf y st) = allPairs y st := by
  simp [partsOf, allOf_numberedFrom, chunks_flatten]

theorem script_eq (y : Style) (st : State) : script y st = (partsOf y st).map (encN y (partsOf y st).length) := by
  simp only [script, partsOf, numberedFrom_length]
  exact encPartsFrom_eq y _ _ 1

theorem partsOk_partsOf {y : Style} {st : State} (h : Wf y st) : PartsOk y (partsOf y st) := by
  have hsub : ∀ a ∈ partsOf y st, a.2.Sublist (allPairs y st) := fun a ha =>
    chunks_sublist y.cuts _ a.2 (numberedFrom_mem ha).1
  refine ⟨?_, ?_, ?_, ?_, ?_, ?_, h.qid⟩
  · intro a ha p hp
    exact okPairs_allPairs h p ((hsub a ha).subset hp)
  · intro a ha
    exact List.Pairwise.sublist (hsub a ha) (distinct_allPairs h)
  · intro a ha p hp
    exact nofinal_allPairs h p ((hsub a ha).subset hp)
  · exact cross_chunks y.cuts _ 1 (distinct_allPairs h)
  · simp only [partsOf, numberedFrom_nums, numberedFrom_length]
  · have := h.ncuts
    rw [partsOf_length]
    omega

end Gd.Gs1
