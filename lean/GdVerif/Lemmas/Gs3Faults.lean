import GdVerif.Lemmas.Gs3Whole
import GdVerif.Lemmas.Gs3Extra
import GdVerif.Lemmas.QSteps
import GdVerif.Spec.Gs3Faults
/-
  The whole GameSpy 3 query with faults injected (C10 end to end), in the logic `Steps` of `Lemmas/QSteps.lean`.
  The retried unit is `get_server_packets_impl`: handshake, data request, receive loop.
-/
namespace Gd.Gs3
open Gd Gd.Gs3.Spec Gd.Faults

/-! ### `GameSpy3::receive` -/

theorem steps_receive (s : Sock) (hudp : s.tcp = false) (size : Option Nat) (kind : Nat) (d : Bytes)
    (q : List Delivery) (fs : List Bool) (sn : List (Bytes × Bool)) :
    Steps s (receive s size kind) ((readHeader kind).run (d.take (size.getD PACKET_SIZE)))
      ⟨.data d :: q, fs, sn⟩ ⟨q, fs, sn⟩ := by
  unfold receive
  exact Steps.bind (steps_recv_take s hudp _ d q fs sn) (Steps.parse s _ _ _)

theorem steps_receive_silence (s : Sock) (size : Option Nat) (kind : Nat) (q : List Delivery) (fs : List Bool)
    (sn : List (Bytes × Bool)) :
    Steps s (receive s size kind) (.err .packetReceive) ⟨.silence :: q, fs, sn⟩ ⟨q, fs, sn⟩ := by
  unfold receive
  exact Steps.bind_err (steps_recv_silence s _ q fs sn)

/-- a datagram that does not start with the expected kind byte is rejected, whatever the buffer size (≥ 1) -/
theorem readHeader_malformed (stage : Stage) (m : Bytes) (n : Nat) (hn : 0 < n) (h : malformedAt stage m = true) :
    (readHeader stage.kind.toNat).run (m.take n) = .err (malformedError m) := by
  cases m with
  | nil =>
    unfold Par.run readHeader
    rw [Par.bind_err (k := .packetUnderflow) (by simp [readU8, readUnsigned, Buf.new, Buf.remaining])]
    rfl
  | cons b r =>
    obtain ⟨n', rfl⟩ : ∃ n', n = n' + 1 := ⟨n - 1, by omega⟩
    have hb : b ≠ stage.kind := by simpa [malformedAt] using h
    obtain ⟨b1, hb1, _, _⟩ := decodes_readU8 b (Buf.new ((b :: r).take (n' + 1))) (r.take n') (by simp [Buf.new])
    unfold Par.run readHeader
    rw [Par.bind_ok hb1]
    have hne : (b.toNat != stage.kind.toNat) = true := by
      simp only [bne_iff_ne, ne_eq]
      intro h0
      exact hb (UInt8.toNat_inj.mp h0)
    simp only [hne, ↓reduceIte, Par.fail, malformedError, List.isEmpty_cons, Bool.false_eq_true]

theorem malformedError_not_timeout (m : Bytes) : (malformedError m).isTimeout = false := by
  unfold malformedError
  split <;> rfl

/-! ### the handshake -/

def hsRequest : Bytes := requestBytes 9 none none

/-- the challenge the client keeps: the text `0` means none -/
def challengeOf (c : Int) : Option Int := if c = 0 then none else some c

theorem steps_handshake_ok (s : Sock) (hudp : s.tcp = false) (c : Int) (hlo : -(2 ^ 31 : Int) ≤ c) (hhi : c < 2 ^ 31)
    (q : List Delivery) (fs : List Bool) (sn : List (Bytes × Bool)) :
    Steps s (makeInitialHandshake s) (.ok (challengeOf c))
      ⟨.data (handshakeReply c) :: q, false :: fs, sn⟩ ⟨q, fs, sn ++ [(hsRequest, false)]⟩ := by
  unfold makeInitialHandshake
  refine Steps.bind (steps_send_ok s _ _ fs sn) ?_
  have hdec := handshake_decoded c hlo hhi
  have hr := steps_receive s hudp (some 16) 9 (handshakeReply c) q fs (sn ++ [(hsRequest, false)])
  simp only [Option.getD_some] at hr
  cases hh : (readHeader 9).run ((handshakeReply c).take 16) with
  | err k => rw [hh] at hdec; cases hdec
  | crash => rw [hh] at hdec; cases hdec
  | ok d =>
    rw [hh] at hdec hr
    simp only [Res.bind_ok] at hdec
    exact Steps.bind hr ((Steps.parse s _ _ _).congrRes hdec.symm)

theorem steps_handshake_silent (s : Sock) (q : List Delivery) (fs : List Bool) (sn : List (Bytes × Bool)) :
    Steps s (makeInitialHandshake s) (.err .packetReceive)
      ⟨.silence :: q, false :: fs, sn⟩ ⟨q, fs, sn ++ [(hsRequest, false)]⟩ := by
  unfold makeInitialHandshake
  exact Steps.bind (steps_send_ok s _ _ fs sn) (Steps.bind_err (steps_receive_silence s _ _ q fs _))

theorem steps_handshake_fault (s : Sock) (q : List Delivery) (fs : List Bool) (sn : List (Bytes × Bool)) :
    Steps s (makeInitialHandshake s) (.err .packetSend) ⟨q, true :: fs, sn⟩ ⟨q, fs, sn ++ [(hsRequest, true)]⟩ := by
  unfold makeInitialHandshake
  exact Steps.bind_err (steps_send_fault s _ q fs sn)

theorem steps_handshake_bad (s : Sock) (hudp : s.tcp = false) (m : Bytes) (hm : malformedAt .handshake m = true)
    (q : List Delivery) (fs : List Bool) (sn : List (Bytes × Bool)) :
    Steps s (makeInitialHandshake s) (.err (malformedError m))
      ⟨.data m :: q, false :: fs, sn⟩ ⟨q, fs, sn ++ [(hsRequest, false)]⟩ := by
  unfold makeInitialHandshake
  refine Steps.bind (steps_send_ok s _ _ fs sn) (Steps.bind_err ?_)
  have hr := steps_receive s hudp (some 16) 9 m q fs (sn ++ [(hsRequest, false)])
  simp only [Option.getD_some] at hr
  have := readHeader_malformed .handshake m 16 (by decide) hm
  simp only [Stage.kind, show (9 : UInt8).toNat = 9 from rfl] at this
  rwa [this] at hr

/-! ### the receive loop -/

/-- how many of the arriving packets the loop reads before it stops -/
def consumed : Acc → List (Res Frag) → Nat
  | _, [] => 0
  | a, f :: r =>
    if a.more then
      match f >>= accept a with
      | .ok a' => consumed a' r + 1
      | _ => 0
    else 0

/-- on datagrams for which the loop's run (`feed`) succeeds, the loop returns that result having read a prefix of
them — the rest, and whatever follows, stays queued -/
theorem steps_recvPackets (s : Sock) (hudp : s.tcp = false) (q : List Delivery) (fs : List Bool)
    (sn : List (Bytes × Bool)) :
    ∀ (ds : List Bytes) (a : Acc) (res : List Bytes) (fuel : Nat), (∀ d ∈ ds, d.length ≤ PACKET_SIZE) →
      feed a (ds.map decodeFrag) = .ok res → ds.length < fuel →
      Steps s (recvPackets s fuel a) (.ok res) ⟨ds.map .data ++ q, fs, sn⟩
        ⟨(ds.drop (consumed a (ds.map decodeFrag))).map .data ++ q, fs, sn⟩ := by
  intro ds
  induction ds with
  | nil =>
    intro a res fuel _ hfeed hfuel
    obtain ⟨f, rfl⟩ : ∃ f, fuel = f + 1 := ⟨fuel - 1, by omega⟩
    unfold recvPackets
    simp only [List.map_nil, feed] at hfeed
    split at hfeed
    · cases hfeed
    · rename_i hm
      simp only [hm, Bool.false_eq_true, ↓reduceIte]
      exact (Steps.lift s _ _).congrRes hfeed.symm
  | cons d r ih =>
    intro a res fuel hfit hfeed hfuel
    obtain ⟨f, rfl⟩ : ∃ f, fuel = f + 1 := ⟨fuel - 1, by omega⟩
    unfold recvPackets
    simp only [List.map_cons, feed] at hfeed
    simp only [List.map_cons, consumed]
    by_cases hm : a.more = true
    · simp only [hm, ↓reduceIte] at hfeed ⊢
      have hd : d.take PACKET_SIZE = d := List.take_of_length_le (hfit d (by simp))
      have hdf : decodeFrag d = ((readHeader 0).run d >>= fun p => readFrag.run p) := by
        unfold decodeFrag; rw [hd]
      have hr := steps_receive s hudp none 0 d (r.map .data ++ q) fs sn
      simp only [Option.getD_none, hd] at hr
      cases hh : (readHeader 0).run d with
      | err k => rw [hdf, hh] at hfeed; cases hfeed
      | crash => rw [hdf, hh] at hfeed; cases hfeed
      | ok p =>
        rw [hh] at hr
        cases hf : readFrag.run p with
        | err k => rw [hdf, hh, Res.bind_ok, hf] at hfeed; cases hfeed
        | crash => rw [hdf, hh, Res.bind_ok, hf] at hfeed; cases hfeed
        | ok fr =>
          have hdf' : decodeFrag d = .ok fr := by rw [hdf, hh, Res.bind_ok, hf]
          rw [hdf'] at hfeed ⊢
          simp only [Res.bind_ok] at hfeed ⊢
          cases hacc : accept a fr with
          | err k => rw [hacc] at hfeed; cases hfeed
          | crash => rw [hacc] at hfeed; cases hfeed
          | ok a' =>
            rw [hacc] at hfeed
            simp only at hfeed ⊢
            have hn := ih a' res f (fun x hx => hfit x (by simp [hx])) hfeed (by simp at hfuel; omega)
            refine Steps.bind (by simpa using hr) ?_
            refine Steps.bind ((Steps.parse s readFrag p _).congrRes hf.symm) ?_
            refine Steps.bind ((Steps.lift s (accept a fr) _).congrRes hacc.symm) ?_
            simpa using hn
    · have hm' : a.more = false := by simpa using hm
      simp only [hm', Bool.false_eq_true, ↓reduceIte] at hfeed ⊢
      simpa using (Steps.lift s _ _).congrRes hfeed.symm

theorem steps_recvAll_ok (s : Sock) (hudp : s.tcp = false) (q : List Delivery) (fs : List Bool)
    (sn : List (Bytes × Bool)) (ds : List Bytes) (res : List Bytes) (hfit : ∀ d ∈ ds, d.length ≤ PACKET_SIZE)
    (hfeed : feed Acc.init (ds.map decodeFrag) = .ok res) :
    Steps s (recvAll s) (.ok res) ⟨ds.map .data ++ q, fs, sn⟩
      ⟨(ds.drop (consumed Acc.init (ds.map decodeFrag))).map .data ++ q, fs, sn⟩ := by
  intro w hw
  have hq : ds.length < queued s w + 1 := by
    have := hw.queue
    simp only at this
    simp only [queued, this, List.length_append, List.length_map]
    omega
  exact steps_recvPackets s hudp q fs sn ds Acc.init res (queued s w + 1) hfit hfeed hq w hw

theorem acc_init_more : Acc.init.more = true := rfl

theorem steps_recvAll_silent (s : Sock) (q : List Delivery) (fs : List Bool) (sn : List (Bytes × Bool)) :
    Steps s (recvAll s) (.err .packetReceive) ⟨.silence :: q, fs, sn⟩ ⟨q, fs, sn⟩ := by
  intro w hw
  show ∃ w', recvPackets s (queued s w + 1) Acc.init w = _ ∧ _
  unfold recvPackets
  simp only [acc_init_more, ↓reduceIte]
  exact Steps.bind_err (steps_receive_silence s none 0 q fs sn) w hw

theorem steps_recvAll_bad (s : Sock) (hudp : s.tcp = false) (m : Bytes) (hm : malformedAt .data m = true)
    (q : List Delivery) (fs : List Bool) (sn : List (Bytes × Bool)) :
    Steps s (recvAll s) (.err (malformedError m)) ⟨.data m :: q, fs, sn⟩ ⟨q, fs, sn⟩ := by
  intro w hw
  show ∃ w', recvPackets s (queued s w + 1) Acc.init w = _ ∧ _
  unfold recvPackets
  simp only [acc_init_more, ↓reduceIte]
  have hr := steps_receive s hudp none 0 m q fs sn
  have := readHeader_malformed .data m PACKET_SIZE (by decide) hm
  simp only [Stage.kind, show (0 : UInt8).toNat = 0 from rfl] at this
  simp only [Option.getD_none, this] at hr
  exact Steps.bind_err hr w hw

/-! ### a reply that stops half way: some of the data packets, then something on which `receive` fails -/

theorem perm_ok_inv {l : List (Res Frag)} {F : List Frag} (h : l.Perm (F.map .ok)) :
    ∃ L : List Frag, L.Perm F ∧ l = L.map .ok := by
  have hall : ∀ r ∈ l, ∃ f, r = .ok f := by
    intro r hr
    obtain ⟨f, _, rfl⟩ := List.mem_map.mp (h.subset hr)
    exact ⟨f, rfl⟩
  have hex : ∀ (l : List (Res Frag)), (∀ r ∈ l, ∃ f, r = .ok f) → ∃ L : List Frag, l = L.map .ok := by
    intro l
    induction l with
    | nil => intro _; exact ⟨[], rfl⟩
    | cons r t ih =>
      intro hl
      obtain ⟨f, rfl⟩ := hl r (by simp)
      obtain ⟨L, rfl⟩ := ih (fun r hr => hl r (by simp [hr]))
      exact ⟨f :: L, rfl⟩
  obtain ⟨L, rfl⟩ := hex _ hall
  refine ⟨L, ?_, rfl⟩
  have hg := h.map (fun r : Res Frag => match r with
    | .ok f => f
    | _ => ⟨0, false, []⟩)
  simpa [List.map_map, Function.comp_def] using hg

/-- an incomplete selection of the data packets of a response with payloads `ps` decodes to distinct packets of that
response, fewer than it has -/
theorem selects_frags (unknown : List Nat) (ps : List Bytes) (hcount : ps.length ≤ 128)
    (hsize : ∀ d ∈ packetsFrom unknown ps.length 0 ps, d.length ≤ PACKET_SIZE) (got : List Bytes)
    (h : selects got (packetsFrom unknown ps.length 0 ps) = true) :
    ∃ G : List Frag, got.map decodeFrag = G.map .ok ∧ (ids G).Nodup ∧ (∀ f ∈ G, IsFragOf ps f)
      ∧ G.length < ps.length := by
  obtain ⟨more, hne, hp⟩ := selects_perm got _ h
  have hdec : ((got ++ more).map decodeFrag).Perm ((frags ps).map .ok) := by
    have := hp.map decodeFrag
    rwa [wire_packets _ _ _ 0 (by omega) hsize] at this
  obtain ⟨L, hperm, hL⟩ := perm_ok_inv hdec
  have hLlen : L.length = got.length + more.length := by
    have := congrArg List.length hL
    simpa using this.symm
  have hpslen : L.length = ps.length := by
    have := hperm.length_eq
    have h2 : (frags ps).length = ps.length := by
      have := congrArg List.length (ids_frags ps)
      simpa [ids] using this
    omega
  have hmore : 0 < more.length := List.length_pos_iff.mpr hne
  refine ⟨L.take got.length, ?_, ?_, ?_, ?_⟩
  · have := congrArg (List.take got.length) hL
    rw [List.map_append, List.take_left' (by simp), ← List.map_take] at this
    exact this
  · have hnd : (ids L).Nodup := by
      have : (ids L).Perm (List.range ps.length) := by rw [← ids_frags]; exact hperm.map _
      exact this.symm.nodup List.nodup_range
    have hsub : (ids (L.take got.length)).Sublist (ids L) := (List.take_sublist _ _).map _
    exact hnd.sublist hsub
  · intro f hf
    exact (mem_frags ps f).mp (hperm.subset (List.mem_of_mem_take hf))
  · rw [List.length_take]
    omega

/-- the receive loop after the packets `P`, on further packets `G` of the response — still fewer than it has — followed
by a delivery `x` on which `GameSpy3::receive` fails with `e`: the loop fails with `e` -/
theorem steps_recvPackets_stop (s : Sock) (hudp : s.tcp = false) (ps : List Bytes) (e : ErrKind) (x : Delivery)
    (q : List Delivery)
    (hx : ∀ fs sn, Steps s (receive s none 0) (.err e) ⟨x :: q, fs, sn⟩ ⟨q, fs, sn⟩) :
    ∀ (ds : List Bytes) (G P : List Frag) (a : Acc) (fuel : Nat),
      ds.map decodeFrag = G.map .ok → (∀ d ∈ ds, d.length ≤ PACKET_SIZE) → Rep ps P a → (ids (P ++ G)).Nodup →
      (∀ f ∈ P ++ G, IsFragOf ps f) → (P ++ G).length < ps.length → ds.length < fuel → ∀ fs sn,
      Steps s (recvPackets s fuel a) (.err e) ⟨ds.map .data ++ x :: q, fs, sn⟩ ⟨q, fs, sn⟩ := by
  intro ds
  induction ds with
  | nil =>
    intro G P a fuel _ _ hrep _ _ hlt hfuel fs sn
    obtain ⟨f, rfl⟩ : ∃ f, fuel = f + 1 := ⟨fuel - 1, by omega⟩
    have hm := hrep.more (by simp only [List.length_append] at hlt; omega)
    unfold recvPackets
    simp only [hm, ↓reduceIte, List.map_nil, List.nil_append]
    exact Steps.bind_err (hx fs sn)
  | cons d r ih =>
    intro G P a fuel hdec hfit hrep hnd hfr hlt hfuel fs sn
    obtain ⟨f, rfl⟩ : ∃ f, fuel = f + 1 := ⟨fuel - 1, by omega⟩
    cases G with
    | nil => simp at hdec
    | cons g G' =>
      simp only [List.map_cons, List.cons.injEq] at hdec
      obtain ⟨hdg, hdec'⟩ := hdec
      have hm := hrep.more (by simp only [List.length_append] at hlt; omega)
      have hd : d.take PACKET_SIZE = d := List.take_of_length_le (hfit d (by simp))
      have hdf : decodeFrag d = ((readHeader 0).run d >>= fun p => readFrag.run p) := by
        unfold decodeFrag; rw [hd]
      have hr := steps_receive s hudp none 0 d (r.map .data ++ x :: q) fs sn
      simp only [Option.getD_none, hd] at hr
      have hnew : g.id ∉ ids P := by
        intro hmem
        have : ids (P ++ g :: G') = ids P ++ g.id :: ids G' := by simp [ids]
        rw [this] at hnd
        exact (List.nodup_append.mp hnd).2.2 _ hmem g.id (by simp) rfl
      obtain ⟨a', hacc, hrep'⟩ := hrep.accept (hfr g (by simp)) hnew
      have hassoc : (P ++ [g]) ++ G' = P ++ g :: G' := by simp
      unfold recvPackets
      simp only [hm, ↓reduceIte, List.map_cons, List.cons_append]
      cases hh : (readHeader 0).run d with
      | err k => rw [hdf, hh] at hdg; cases hdg
      | crash => rw [hdf, hh] at hdg; cases hdg
      | ok p =>
        rw [hh] at hr
        have hf : readFrag.run p = .ok g := by rw [hdf, hh, Res.bind_ok] at hdg; exact hdg
        refine Steps.bind (by simpa using hr) ?_
        refine Steps.bind ((Steps.parse s readFrag p _).congrRes hf.symm) ?_
        refine Steps.bind ((Steps.lift s (accept a g) _).congrRes hacc.symm) ?_
        exact ih G' (P ++ [g]) a' f hdec' (fun y hy => hfit y (by simp [hy])) hrep' (by rw [hassoc]; exact hnd)
          (by rw [hassoc]; exact hfr) (by rw [hassoc]; exact hlt) (by simp at hfuel; omega) fs sn

/-- the receive loop from its initial state on an incomplete selection of the data packets of a response, followed by a
delivery on which `GameSpy3::receive` fails -/
theorem steps_recvAll_stop (s : Sock) (hudp : s.tcp = false) (unknown : List Nat) (ps : List Bytes)
    (hcount : ps.length ≤ 128) (hsize : ∀ d ∈ packetsFrom unknown ps.length 0 ps, d.length ≤ PACKET_SIZE)
    (e : ErrKind) (x : Delivery) (q : List Delivery)
    (hx : ∀ fs sn, Steps s (receive s none 0) (.err e) ⟨x :: q, fs, sn⟩ ⟨q, fs, sn⟩)
    (got : List Bytes) (hgot : partOf got (packetsFrom unknown ps.length 0 ps) = true) (fs : List Bool)
    (sn : List (Bytes × Bool)) :
    Steps s (recvAll s) (.err e) ⟨got.map .data ++ x :: q, fs, sn⟩ ⟨q, fs, sn⟩ := by
  intro w hw
  show ∃ w', recvPackets s (queued s w + 1) Acc.init w = _ ∧ _
  have hq : got.length < queued s w + 1 := by
    have := hw.queue
    simp only at this
    simp only [queued, this, List.length_append, List.length_map]
    omega
  cases got with
  | nil =>
    unfold recvPackets
    simp only [acc_init_more, ↓reduceIte]
    exact Steps.bind_err (hx fs sn) w hw
  | cons d r =>
    have hsel : selects (d :: r) (packetsFrom unknown ps.length 0 ps) = true := by simpa [partOf] using hgot
    obtain ⟨G, hdec, hnd, hfr, hlt⟩ := selects_frags unknown ps hcount hsize (d :: r) hsel
    exact steps_recvPackets_stop s hudp ps e x q hx (d :: r) G [] Acc.init (queued s w + 1) hdec
      (fun y hy => hsize y (selects_mem hsel y hy)) (Rep.init ps) (by simpa using hnd) (by simpa using hfr)
      (by simpa using hlt) hq fs sn w hw

/-! ### one attempt (`get_server_packets_impl`): handshake, data request, then the receiving `tail` -/

/-- handshake, data request, then `tail`: the receive loop, or the one receive of single-packet mode -/
def attemptOf (s : Sock) (payload : Bytes) (tail : Q (List Bytes)) : Q (List Bytes) :=
  makeInitialHandshake s >>= fun ch => sendDataRequest s payload ch >>= fun _ => tail

/-- single-packet mode: one receive, the split header skipped -/
def recvOne (s : Sock) : Q (List Bytes) :=
  receive s none 0 >>= fun data => parse readSingle data >>= fun rest => pure [rest]

theorem impl_eq (s : Sock) (payload : Bytes) :
    getServerPacketsImpl s payload false = attemptOf s payload (recvAll s) := by
  unfold getServerPacketsImpl attemptOf
  simp

theorem impl_eq_single (s : Sock) (payload : Bytes) :
    getServerPacketsImpl s payload true = attemptOf s payload (recvOne s) := by
  unfold getServerPacketsImpl attemptOf recvOne
  simp

theorem hsRequest_eq : hsRequest = handshakeRequest := by decide

theorem dataRequest_eq (c : Int) : requestBytes 0 (challengeOf c) (some DEFAULT_PAYLOAD) = dataRequest c :=
  (exchange_wire.C09_request_bytes c).2

/-- `GameSpy3::receive` on a datagram of the wrong kind -/
theorem steps_receive_bad (s : Sock) (hudp : s.tcp = false) (m : Bytes) (hm : malformedAt .data m = true)
    (q : List Delivery) (fs : List Bool) (sn : List (Bytes × Bool)) :
    Steps s (receive s none 0) (.err (malformedError m)) ⟨.data m :: q, fs, sn⟩ ⟨q, fs, sn⟩ := by
  have hr := steps_receive s hudp none 0 m q fs sn
  have := readHeader_malformed .data m PACKET_SIZE (by decide) hm
  simp only [Stage.kind, show (0 : UInt8).toNat = 0 from rfl] at this
  simp only [Option.getD_none, this] at hr
  exact hr

/-- what the receiving stage does, after some (not all) of the data packets `pool` of the reply — or none —, on a silence
and on a datagram of the wrong kind -/
structure TailOk (s : Sock) (pool : List Bytes) (tail : Q (List Bytes)) : Prop where
  lost : ∀ got, partOf got pool = true → ∀ q fs sn,
    Steps s tail (.err .packetReceive) ⟨got.map .data ++ .silence :: q, fs, sn⟩ ⟨q, fs, sn⟩
  bad : ∀ got m, partOf got pool = true → malformedAt .data m = true → ∀ q fs sn,
    Steps s tail (.err (malformedError m)) ⟨got.map .data ++ .data m :: q, fs, sn⟩ ⟨q, fs, sn⟩

/-- the receive loop of the multi-packet mode, for the data packets of a response with payloads `ps` -/
theorem tailOk_recvAll (s : Sock) (hudp : s.tcp = false) (unknown : List Nat) (ps : List Bytes)
    (hcount : ps.length ≤ 128) (hsize : ∀ d ∈ packetsFrom unknown ps.length 0 ps, d.length ≤ PACKET_SIZE) :
    TailOk s (packetsFrom unknown ps.length 0 ps) (recvAll s) :=
  ⟨fun got hgot q fs sn => steps_recvAll_stop s hudp unknown ps hcount hsize .packetReceive .silence q
      (fun fs sn => steps_receive_silence s none 0 q fs sn) got hgot fs sn,
   fun got m hgot hm q fs sn => steps_recvAll_stop s hudp unknown ps hcount hsize (malformedError m) (.data m) q
      (fun fs sn => steps_receive_bad s hudp m hm q fs sn) got hgot fs sn⟩

/-- the one receive of the single-packet mode: of a reply of one packet nothing short of all can arrive -/
theorem tailOk_recvOne (s : Sock) (hudp : s.tcp = false) (pool : List Bytes) (hp : pool.length ≤ 1) :
    TailOk s pool (recvOne s) := by
  refine ⟨fun got hgot q fs sn => ?_, fun got m hgot hm q fs sn => ?_⟩
  · rw [partOf_short hgot hp]
    unfold recvOne
    exact Steps.bind_err (steps_receive_silence s none 0 q fs sn)
  · rw [partOf_short hgot hp]
    unfold recvOne
    exact Steps.bind_err (steps_receive_bad s hudp m hm q fs sn)

theorem steps_dataRequest (s : Sock) (payload : Bytes) (c : Int) (dreq : Bytes)
    (hd : requestBytes 0 (challengeOf c) (some payload) = dreq) (f : Bool) (q : List Delivery) (fs : List Bool)
    (sn : List (Bytes × Bool)) :
    Steps s (sendDataRequest s payload (challengeOf c)) (if f then .err .packetSend else .ok ())
      ⟨q, f :: fs, sn⟩ ⟨q, fs, sn ++ [(dreq, f)]⟩ := by
  unfold sendDataRequest
  rw [hd]
  cases f with
  | false => exact steps_send_ok s _ _ fs _
  | true => exact steps_send_fault s _ _ fs _

/-- a failed attempt of the plan: the attempt's timeout-class error, exactly its deliveries (at the data stage: the
handshake reply, the data packets that still arrive, the silence) and flags consumed, exactly its requests sent -/
theorem steps_attemptOf (s : Sock) (hudp : s.tcp = false) (payload : Bytes) (pool : List Bytes)
    (tail : Q (List Bytes)) (ht : TailOk s pool tail) (c : Int) (hlo : -(2 ^ 31 : Int) ≤ c) (hhi : c < 2 ^ 31)
    (dreq : Bytes) (hd : requestBytes 0 (challengeOf c) (some payload) = dreq) (a : Attempt)
    (ha : a.wf pool = true) (q : List Delivery) (fs : List Bool) (sn : List (Bytes × Bool)) :
    Steps s (attemptOf s payload tail) (.err a.error)
      ⟨a.deliveriesAt c ++ q, a.faults ++ fs, sn⟩ ⟨q, fs, sn ++ a.sendsWith dreq⟩ := by
  unfold attemptOf
  obtain ⟨stage, sf, got⟩ := a
  cases stage with
  | handshake =>
    have hgot : got = [] := by simpa [Attempt.wf, gotAt] using ha
    subst hgot
    cases sf with
    | false =>
      simpa [Attempt.deliveriesAt, Attempt.faults, Attempt.sendsWith, Attempt.error, attemptError, hsRequest_eq]
        using Steps.bind_err (g := fun ch => sendDataRequest s payload ch >>= fun _ => tail)
          (steps_handshake_silent s q fs sn)
    | true =>
      simpa [Attempt.deliveriesAt, Attempt.faults, Attempt.sendsWith, Attempt.error, attemptError, hsRequest_eq]
        using Steps.bind_err (g := fun ch => sendDataRequest s payload ch >>= fun _ => tail)
          (steps_handshake_fault s q fs sn)
  | data =>
    cases sf with
    | false =>
      have hgot : partOf got pool = true := by simpa [Attempt.wf, gotAt] using ha
      have h1 := steps_handshake_ok s hudp c hlo hhi (got.map .data ++ .silence :: q) (false :: fs) sn
      have h2 := steps_dataRequest s payload c dreq hd false (got.map .data ++ .silence :: q) fs
        (sn ++ [(hsRequest, false)])
      have h3 := ht.lost got hgot q fs (sn ++ [(hsRequest, false)] ++ [(dreq, false)])
      have hS := Steps.bind (g := fun ch => sendDataRequest s payload ch >>= fun _ => tail) h1
        (Steps.bind (g := fun _ => tail) h2 h3)
      simpa [Attempt.deliveriesAt, Attempt.faults, Attempt.sendsWith, Attempt.error, attemptError, hsRequest_eq,
        List.append_assoc] using hS
    | true =>
      have hgot : got = [] := by simpa [Attempt.wf, gotAt] using ha
      subst hgot
      have h1 := steps_handshake_ok s hudp c hlo hhi q (true :: fs) sn
      have h2 := steps_dataRequest s payload c dreq hd true q fs (sn ++ [(hsRequest, false)])
      have hS := Steps.bind (g := fun ch => sendDataRequest s payload ch >>= fun _ => tail) h1
        (Steps.bind_err (g := fun _ => tail) h2)
      simpa [Attempt.deliveriesAt, Attempt.faults, Attempt.sendsWith, Attempt.error, attemptError, hsRequest_eq,
        List.append_assoc] using hS

theorem Attempt.error_timeout (a : Attempt) : a.error.isTimeout = true := by
  unfold Attempt.error attemptError
  split <;> rfl

/-- the attempt the server answers: handshake reply, then the data packets, on which the receiving stage yields `good`
and leaves `q'` queued -/
theorem steps_validOf (s : Sock) (hudp : s.tcp = false) (payload : Bytes) (tail : Q (List Bytes))
    (c : Int) (hlo : -(2 ^ 31 : Int) ≤ c) (hhi : c < 2 ^ 31) (dreq : Bytes)
    (hd : requestBytes 0 (challengeOf c) (some payload) = dreq) (packets good : List Bytes) (q q' : List Delivery)
    (hvalid : ∀ fs sn, Steps s tail (.ok good) ⟨packets.map .data ++ q, fs, sn⟩ ⟨q', fs, sn⟩)
    (fs : List Bool) (sn : List (Bytes × Bool)) :
    Steps s (attemptOf s payload tail) (.ok good)
      ⟨Ending.valid.deliveriesAt c packets ++ q, Ending.valid.faults ++ fs, sn⟩
      ⟨q', fs, sn ++ Ending.valid.sendsWith dreq⟩ := by
  unfold attemptOf
  have h1 := steps_handshake_ok s hudp c hlo hhi (packets.map .data ++ q) (false :: fs) sn
  have h2 := steps_dataRequest s payload c dreq hd false (packets.map .data ++ q) fs (sn ++ [(hsRequest, false)])
  have h3 := hvalid fs (sn ++ [(hsRequest, false)] ++ [(dreq, false)])
  have hS := Steps.bind (g := fun ch => sendDataRequest s payload ch >>= fun _ => tail) h1
    (Steps.bind (g := fun _ => tail) h2 h3)
  simpa [Ending.deliveriesAt, Ending.faults, Ending.sendsWith, hsRequest_eq, List.append_assoc] using hS

/-- the attempt that receives a datagram of the wrong kind at one of the two stages (at the data stage: possibly after
some of the data packets) -/
theorem steps_malformedOf (s : Sock) (hudp : s.tcp = false) (payload : Bytes) (pool : List Bytes)
    (tail : Q (List Bytes)) (ht : TailOk s pool tail) (c : Int) (hlo : -(2 ^ 31 : Int) ≤ c) (hhi : c < 2 ^ 31)
    (dreq : Bytes) (hd : requestBytes 0 (challengeOf c) (some payload) = dreq) (stage : Stage) (got : List Bytes)
    (m : Bytes) (hm : malformedAt stage m = true) (hgot : gotAt pool stage false got = true) (packets : List Bytes)
    (q : List Delivery) (fs : List Bool) (sn : List (Bytes × Bool)) :
    Steps s (attemptOf s payload tail) (.err (malformedError m))
      ⟨(Ending.malformed stage got m).deliveriesAt c packets ++ q, (Ending.malformed stage got m).faults ++ fs, sn⟩
      ⟨q, fs, sn ++ (Ending.malformed stage got m).sendsWith dreq⟩ := by
  unfold attemptOf
  cases stage with
  | handshake =>
    have hg : got = [] := by simpa [gotAt] using hgot
    subst hg
    have hS := Steps.bind_err (g := fun ch => sendDataRequest s payload ch >>= fun _ => tail)
      (steps_handshake_bad s hudp m hm q fs sn)
    simpa [Ending.deliveriesAt, Ending.faults, Ending.sendsWith, hsRequest_eq] using hS
  | data =>
    have hg : partOf got pool = true := by simpa [gotAt] using hgot
    have h1 := steps_handshake_ok s hudp c hlo hhi (got.map .data ++ .data m :: q) (false :: fs) sn
    have h2 := steps_dataRequest s payload c dreq hd false (got.map .data ++ .data m :: q) fs
      (sn ++ [(hsRequest, false)])
    have h3 := ht.bad got m hg hm q fs (sn ++ [(hsRequest, false)] ++ [(dreq, false)])
    have hS := Steps.bind (g := fun ch => sendDataRequest s payload ch >>= fun _ => tail) h1
      (Steps.bind (g := fun _ => tail) h2 h3)
    simpa [Ending.deliveriesAt, Ending.faults, Ending.sendsWith, hsRequest_eq, List.append_assoc] using hS

/-! ### the unit under a plan, the whole exchange -/

/-- what stays queued when the unit has ended -/
def afterOf (plan : Plan) (q' q : List Delivery) : List Delivery :=
  match plan.ending with
  | .valid => q'
  | _ => q

theorem steps_unitOf (s : Sock) (hudp : s.tcp = false) (payload : Bytes) (pool : List Bytes) (tail : Q (List Bytes))
    (ht : TailOk s pool tail) (c : Int) (hlo : -(2 ^ 31 : Int) ≤ c) (hhi : c < 2 ^ 31) (dreq : Bytes)
    (hd : requestBytes 0 (challengeOf c) (some payload) = dreq) (packets good : List Bytes) (q q' : List Delivery)
    (hvalid : ∀ fs sn, Steps s tail (.ok good) ⟨packets.map .data ++ q, fs, sn⟩ ⟨q', fs, sn⟩)
    (retries : Nat) (plan : Plan) (hplan : wfPlan retries pool plan = true) (fs : List Bool)
    (sn : List (Bytes × Bool)) :
    Steps s (retryOnTimeout retries (attemptOf s payload tail)) (packetsOutcome good plan)
      ⟨scriptAt c plan packets ++ q, faultyFaults plan ++ fs, sn⟩
      ⟨afterOf plan q' q, fs, sn ++ sendsWith dreq plan⟩ := by
  have hstep := fun a ha q fs sn => steps_attemptOf s hudp payload pool tail ht c hlo hhi dreq hd a ha q fs sn
  obtain ⟨fails, ending⟩ := plan
  simp only [wfPlan, Bool.and_eq_true, List.all_eq_true] at hplan
  obtain ⟨hfails, hend⟩ := hplan
  cases ending with
  | valid =>
    have hlen : fails.length ≤ retries := by simpa using hend
    have hR := Steps.retry_recovers_of (fun a : Attempt => a.wf pool = true) (Attempt.deliveriesAt c) Attempt.faults
      (Attempt.sendsWith dreq) Attempt.error
      Attempt.error_timeout hstep (R := .ok good) (fun k hk => by cases hk)
      (Ending.valid.deliveriesAt c packets ++ q) q' (Ending.valid.faults ++ fs) fs
      (Ending.valid.sendsWith dreq)
      (fun sn => steps_validOf s hudp payload tail c hlo hhi dreq hd packets good q q' hvalid fs sn) fails retries sn
      hfails hlen
    simpa [scriptAt, faultyFaults, sendsWith, packetsOutcome, afterOf, List.append_assoc] using hR
  | malformed stage got m =>
    have hlen : (fails.length ≤ retries ∧ malformedAt stage m = true) ∧ gotAt pool stage false got = true := by
      simpa using hend
    have hR := Steps.retry_recovers_of (fun a : Attempt => a.wf pool = true) (Attempt.deliveriesAt c) Attempt.faults
      (Attempt.sendsWith dreq) Attempt.error
      Attempt.error_timeout hstep (R := (.err (malformedError m) : Res (List Bytes)))
      (fun k hk => by cases hk; exact malformedError_not_timeout m)
      ((Ending.malformed stage got m).deliveriesAt c packets ++ q) q ((Ending.malformed stage got m).faults ++ fs) fs
      ((Ending.malformed stage got m).sendsWith dreq)
      (fun sn => steps_malformedOf s hudp payload pool tail ht c hlo hhi dreq hd stage got m hlen.1.2 hlen.2 packets q
        fs sn)
      fails retries sn hfails hlen.1.1
    simpa [scriptAt, faultyFaults, sendsWith, packetsOutcome, afterOf, List.append_assoc] using hR
  | gaveUp =>
    have hlen : fails.length = retries + 1 := by simpa using hend
    have hR := Steps.retry_exhausted_of (fun a : Attempt => a.wf pool = true) (Attempt.deliveriesAt c) Attempt.faults
      (Attempt.sendsWith dreq) Attempt.error
      Attempt.error_timeout hstep q fs retries fails sn hfails hlen
    simpa [scriptAt, faultyFaults, sendsWith, packetsOutcome, afterOf, Ending.deliveriesAt, Ending.faults,
      Ending.sendsWith] using hR

/-- what is left queued after the valid GameSpy 3 exchange: the packets the loop did not need to read (none, for the
SPEC's packets), and whatever follows -/
def afterValid (arrival : List Bytes) (q : List Delivery) : List Delivery :=
  (arrival.drop (consumed Acc.init (arrival.map decodeFrag))).map .data ++ q

/-- `get_server_packets` of GameSpy 3 (multi-packet mode, the default payload) under a plan, at the level of the wire:
the server answers the handshake with challenge `c` and sends the data packets of ANY non-empty list of non-empty
payloads `ps` (at most 128, each datagram within the client's buffer) — what the payloads carry plays no part in the
retry logic -/
theorem steps_unit_wire (s : Sock) (hudp : s.tcp = false) (c : Int) (hlo : -(2 ^ 31 : Int) ≤ c) (hhi : c < 2 ^ 31)
    (unknown : List Nat) (ps : List Bytes) (hne : ps ≠ []) (hcount : ps.length ≤ 128) (hpay : ∀ p ∈ ps, p ≠ [])
    (hsize : ∀ d ∈ packetsFrom unknown ps.length 0 ps, d.length ≤ PACKET_SIZE)
    (arrival : List Bytes) (harr : arrival.Perm (packetsFrom unknown ps.length 0 ps)) (retries : Nat) (plan : Plan)
    (hplan : wfPlan retries (packetsFrom unknown ps.length 0 ps) plan = true) (q : List Delivery) (fs : List Bool)
    (sn : List (Bytes × Bool)) :
    Steps s (getServerPackets s retries DEFAULT_PAYLOAD false) (packetsOutcome ps plan)
      ⟨scriptAt c plan arrival ++ q, faultyFaults plan ++ fs, sn⟩
      ⟨afterOf plan (afterValid arrival q) q, fs, sn ++ sendsWith (dataRequest c) plan⟩ := by
  unfold getServerPackets
  rw [impl_eq]
  exact steps_unitOf s hudp DEFAULT_PAYLOAD (packetsFrom unknown ps.length 0 ps) (recvAll s)
    (tailOk_recvAll s hudp unknown ps hcount hsize) c hlo hhi
    (dataRequest c) (dataRequest_eq c) arrival ps q (afterValid arrival q)
    (fun fs sn => steps_recvAll_ok s hudp q fs sn arrival ps (fun d hd => hsize d (harr.subset hd))
      (feed_arrival_ps unknown ps hne hcount hpay hsize arrival harr))
    retries plan hplan fs sn

/-- … for the SPEC's server without extra field sections -/
theorem steps_unit (s : Sock) (hudp : s.tcp = false) (cfg : Config) (st : State) (h : wf cfg st = true)
    (arrival : List Bytes) (harr : arrival.Perm (dataPackets cfg st)) (retries : Nat) (plan : Plan)
    (hplan : wfPlan retries (dataPackets cfg st) plan = true) (q : List Delivery) (fs : List Bool)
    (sn : List (Bytes × Bool)) :
    Steps s (getServerPackets s retries DEFAULT_PAYLOAD false) (faultyPackets cfg st plan)
      ⟨faultyScript cfg plan arrival ++ q, faultyFaults plan ++ fs, sn⟩
      ⟨afterOf plan (afterValid arrival q) q, fs, sn ++ faultySends cfg plan⟩ := by
  obtain ⟨hcount, hpay, hsize, hlo, hhi⟩ := wf_wire cfg st h
  exact steps_unit_wire s hudp cfg.challenge hlo hhi cfg.unknown (payloads cfg st) (payloads_ne_nil cfg st) hcount hpay
    hsize arrival harr retries plan hplan q fs sn

/-- The whole exchange (`query`, `query_vars` = this with their post-processing) on the script of a plan followed by
anything, at the level of the wire (see `steps_unit_wire`): the post-processing is applied to the outcome C10 prescribes
for the packets, and the datagrams sent are the plan's. -/
theorem exchange_faulty_wire (c : Int) (hlo : -(2 ^ 31 : Int) ≤ c) (hhi : c < 2 ^ 31)
    (unknown : List Nat) (ps : List Bytes) (hne : ps ≠ []) (hcount : ps.length ≤ 128) (hpay : ∀ p ∈ ps, p ≠ [])
    (hsize : ∀ d ∈ packetsFrom unknown ps.length 0 ps, d.length ≤ PACKET_SIZE) (port retries : Nat) {α : Type}
    (post : List Bytes → Res α) (arrival : List Bytes) (harr : arrival.Perm (packetsFrom unknown ps.length 0 ps))
    (plan : Plan) (hplan : wfPlan retries (packetsFrom unknown ps.length 0 ps) plan = true) (restQ : List Delivery)
    (restF : List Bool) :
    (exchange port retries DEFAULT_PAYLOAD false post
        (Net.init [.opened (scriptAt c plan arrival ++ restQ)] (faultyFaults plan ++ restF))).1
      = (packetsOutcome ps plan >>= post)
    ∧ Gd.sentOf (exchange port retries DEFAULT_PAYLOAD false post
        (Net.init [.opened (scriptAt c plan arrival ++ restQ)] (faultyFaults plan ++ restF))).2.log
      = sendsWith (dataRequest c) plan := by
  unfold exchange
  rw [Q.bind_apply]
  have ho : openSock false port (Net.init [.opened (scriptAt c plan arrival ++ restQ)] (faultyFaults plan ++ restF))
      = (.ok ⟨0, port, false⟩,
          ⟨[], [scriptAt c plan arrival ++ restQ], faultyFaults plan ++ restF, [.opened 0 false port false]⟩) := rfl
  rw [ho]
  have hS := (Steps.bind_res (k := post) (g := fun packets => Q.lift (post packets))
    (steps_unit_wire ⟨0, port, false⟩ rfl c hlo hhi unknown ps hne hcount hpay hsize arrival harr retries plan hplan
      restQ restF [])
    (fun a _ => Steps.lift _ _ _)).outcome
    ⟨[], [scriptAt c plan arrival ++ restQ], faultyFaults plan ++ restF, [.opened 0 false port false]⟩
    ⟨rfl, by simp, by simp, rfl⟩
  simpa using hS

/-- … for the SPEC's server without extra field sections -/
theorem exchange_faulty (cfg : Config) (st : State) (h : wf cfg st = true) (port retries : Nat) {α : Type}
    (post : List Bytes → Res α) (arrival : List Bytes) (harr : arrival.Perm (dataPackets cfg st))
    (plan : Plan) (hplan : wfPlan retries (dataPackets cfg st) plan = true) (restQ : List Delivery)
    (restF : List Bool) :
    (exchange port retries DEFAULT_PAYLOAD false post
        (Net.init [.opened (faultyScript cfg plan arrival ++ restQ)] (faultyFaults plan ++ restF))).1
      = (faultyPackets cfg st plan >>= post)
    ∧ Gd.sentOf (exchange port retries DEFAULT_PAYLOAD false post
        (Net.init [.opened (faultyScript cfg plan arrival ++ restQ)] (faultyFaults plan ++ restF))).2.log
      = faultySends cfg plan := by
  obtain ⟨hcount, hpay, hsize, hlo, hhi⟩ := wf_wire cfg st h
  exact exchange_faulty_wire cfg.challenge hlo hhi cfg.unknown (payloads cfg st) (payloads_ne_nil cfg st) hcount hpay
    hsize port retries post arrival harr plan hplan restQ restF

/-- … and for the SPEC's server sending extra field sections (`ConfigX`, any allowed sections at any positions): the
domain of the decoding theorems (`C04_gs3_query_extra`) -/
theorem exchange_faultyX (cfg : ConfigX) (st : State) (h : wfX cfg st = true) (port retries : Nat) {α : Type}
    (post : List Bytes → Res α) (arrival : List Bytes) (harr : arrival.Perm (dataPacketsX cfg st))
    (plan : Plan) (hplan : wfPlan retries (dataPacketsX cfg st) plan = true) (restQ : List Delivery)
    (restF : List Bool) :
    (exchange port retries DEFAULT_PAYLOAD false post
        (Net.init [.opened (faultyScriptX cfg plan arrival ++ restQ)] (faultyFaults plan ++ restF))).1
      = (faultyPacketsX cfg st plan >>= post)
    ∧ Gd.sentOf (exchange port retries DEFAULT_PAYLOAD false post
        (Net.init [.opened (faultyScriptX cfg plan arrival ++ restQ)] (faultyFaults plan ++ restF))).2.log
      = faultySendsX cfg plan := by
  obtain ⟨hcount, hpay, hsize, hlo, hhi⟩ := wfX_wire cfg st h
  exact exchange_faulty_wire cfg.challenge hlo hhi cfg.unknown (payloadsX cfg st) (payloadsX_ne_nil cfg st) hcount hpay
    hsize port retries post arrival harr plan hplan restQ restF

/-! ### outcomes and counting for the property theorems -/

theorem faultyExpected_eq (cfg : Config) (st : State) (h : wf cfg st = true) (plan : Plan) :
    (faultyPackets cfg st plan >>= buildResponse) = faultyExpected st plan := by
  unfold faultyPackets packetsOutcome faultyExpected
  cases plan.ending with
  | valid => simpa using buildResponse_spec cfg st h
  | gaveUp => rfl
  | malformed stage got m => rfl

theorem faultyExpected_eqX (cfg : ConfigX) (st : State) (h : wfX cfg st = true) (plan : Plan) :
    (faultyPacketsX cfg st plan >>= buildResponse) = faultyExpected st plan := by
  unfold faultyPacketsX packetsOutcome faultyExpected
  cases plan.ending with
  | valid => simpa using buildResponseX_spec cfg st h
  | gaveUp => rfl
  | malformed stage got m => rfl

/-- a reply without extra sections seen as a `ConfigX`: same scripts, same sends, same packets -/
theorem faulty_toX (cfg : Config) (st : State) (plan : Plan) (arrival : List Bytes) :
    faultyScriptX cfg.toX plan arrival = faultyScript cfg plan arrival
    ∧ faultySendsX cfg.toX plan = faultySends cfg plan
    ∧ faultyPacketsX cfg.toX st plan = faultyPackets cfg st plan
    ∧ dataPacketsX cfg.toX st = dataPackets cfg st := by
  refine ⟨rfl, rfl, ?_, ?_⟩
  · simp only [faultyPacketsX, faultyPackets, payloadsX_toX]
  · simp only [dataPacketsX, dataPackets, payloadsX_toX]
    rfl

theorem dataRequest_ne (c : Int) : (dataRequest c == handshakeRequest) = false := by
  simp [dataRequest, handshakeRequest, sessionId]

theorem attemptsOf_append (a b : List (Bytes × Bool)) : attemptsOf (a ++ b) = attemptsOf a + attemptsOf b := by
  simp [attemptsOf, List.filter_append]

theorem attemptsOf_attempt (dreq : Bytes) (hne : (dreq == handshakeRequest) = false) (a : Attempt) :
    attemptsOf (a.sendsWith dreq) = 1 := by
  obtain ⟨stage, sf, got⟩ := a
  cases stage <;> simp [Attempt.sendsWith, attemptsOf, hne]

theorem attemptsOf_fails (dreq : Bytes) (hne : (dreq == handshakeRequest) = false) (fails : List Attempt) :
    attemptsOf (fails.flatMap (Attempt.sendsWith dreq)) = fails.length := by
  induction fails with
  | nil => rfl
  | cons a r ih =>
    simp only [List.flatMap_cons, attemptsOf_append, attemptsOf_attempt dreq hne, ih, List.length_cons]; omega

/-- the attempts seen on the wire (handshake requests) are the plan's, whatever the data request is (it is not the
handshake request) -/
theorem attemptsOf_sendsWith (dreq : Bytes) (hne : (dreq == handshakeRequest) = false) (plan : Plan) :
    attemptsOf (sendsWith dreq plan) = plan.attempts := by
  obtain ⟨fails, ending⟩ := plan
  simp only [sendsWith, attemptsOf_append, attemptsOf_fails dreq hne, Plan.attempts]
  cases ending with
  | valid => simp [Ending.sendsWith, attemptsOf, hne]
  | gaveUp => rfl
  | malformed stage got m => cases stage <;> simp [Ending.sendsWith, attemptsOf, hne]

theorem attemptsOf_planX (cfg : ConfigX) (plan : Plan) : attemptsOf (faultySendsX cfg plan) = plan.attempts :=
  attemptsOf_sendsWith _ (dataRequest_ne _) plan

theorem attemptsOf_plan (cfg : Config) (plan : Plan) : attemptsOf (faultySends cfg plan) = plan.attempts :=
  attemptsOf_sendsWith _ (dataRequest_ne cfg.challenge) plan

theorem lastError_append (fails : List Attempt) (a : Attempt) :
    lastError Attempt.error (fails ++ [a]) = a.error := by
  induction fails with
  | nil => rfl
  | cons b r ih =>
    cases r with
    | nil => rfl
    | cons c r' => simpa [lastError] using ih

theorem lastError_class (fails : List Attempt) :
    lastError Attempt.error fails = .packetReceive ∨ lastError Attempt.error fails = .packetSend := by
  induction fails with
  | nil => exact Or.inl rfl
  | cons b r ih =>
    cases r with
    | nil => simp only [lastError, Attempt.error, attemptError]; split <;> simp
    | cons c r' => simpa [lastError] using ih

end Gd.Gs3
